(* Proofs/GcxsGetitemNdP.v — gcxs_getitem_den / gcxs_getitem_wf for GCXS arrays of ANY number of dimensions >= 2
   (compressed axes strictly increasing, as GCXS.__init__ enforces) and basic indices without None:
   g[ix] is GCXS.from_coo of the COO result.  Built on GcxsGetitemP.v (kernels on a from_coo array, Master),
   GcxsGetitem2dP.v (tail_nd, tail_eval, pat_nd/pat_rows/pat_cols, post) and GcxsNdL.v (rav, positions). *)
From Coq Require Import ZArith List Bool Lia Sorting.Sorted Sorting.Permutation.
From Verif Require Import Py PySlice Shape COO COOP GCXS Convert ConvertL ConvertG NpIndex CooIndex
     CooIndexMaskP CooIndexNormP CooIndexP CooIndexArrP GcxsIndex GcxsIndexP GcxsGetitem GcxsGetitemP GcxsGetitem2dP GcxsNdL.
Import ListNotations.
Open Scope Z_scope.

(* ================================================================ a normalised basic index, axis by axis *)
Definition entry_ok (e : nentry) (d : Z) : Prop :=
  match e with
  | NInt i => 0 <= i < d
  | NSlice s e' st => st <> 0 /\ forall x, In x (range_list s e' st) -> 0 <= x < d
  | NArr l => forall x, In x l -> 0 <= x < d
  | NNone => False
  end.

Lemma nwf_nth : forall nix sh, nwf nix sh -> forallb not_none nix = true ->
  forall k, (k < length nix)%nat -> entry_ok (nth k nix NNone) (nth k sh 0).
Proof.
  induction nix as [|e r IH]; intros sh Hwf Hno k Hk; [simpl in Hk; lia|].
  simpl in Hno. apply andb_true_iff in Hno. destruct Hno as [Hn1 Hno].
  destruct e as [i|s e' st| |l]; try discriminate; (destruct sh as [|d sh']; [destruct Hwf|]).
  - destruct Hwf as [Hi Hwf]. destruct k as [|k]; [exact Hi|]. cbn [nth]. apply IH; auto. simpl in Hk. lia.
  - destruct Hwf as [Hst [Hr Hwf]]. destruct k as [|k]; [split; assumption|]. cbn [nth]. apply IH; auto. simpl in Hk. lia.
  - destruct Hwf as [Hl Hwf]. destruct k as [|k]; [exact Hl|]. cbn [nth]. apply IH; auto. simpl in Hk. lia.
Qed.

Lemma sorted_strict_SS l : is_sorted_strict l = true -> StronglySorted Z.lt l.
Proof.
  induction l as [|a r IH]; intros H; [constructor|].
  destruct r as [|b r']; [repeat constructor|].
  cbn [is_sorted_strict] in H. apply andb_true_iff in H. destruct H as [Hab H]. apply Z.ltb_lt in Hab.
  specialize (IH H). constructor; [exact IH|]. inversion IH as [|? ? Hs Hall]; subst.
  constructor; [exact Hab|]. eapply Forall_impl; [|exact Hall]. intros x Hx. simpl in Hx. lia.
Qed.

Lemma list_as_map {A} (l : list A) d : l = map (fun a => nth (Z.to_nat a) l d) (zrange (Z.of_nat (length l))).
Proof.
  unfold zrange. rewrite Nat2Z.id, map_map. rewrite <- (map_nth_seq l d) at 1. apply map_ext. intros k. rewrite Nat2Z.id. reflexivity.
Qed.

Lemma reinsert_none_id : forall key i sh ca, forallb not_none key = true -> reinsert_none key i sh ca = (sh, ca).
Proof.
  induction key as [|e r IH]; intros i sh ca H; [reflexivity|].
  simpl in H. apply andb_true_iff in H. destruct H as [He H]. destruct e; try discriminate; cbn [reinsert_none]; apply IH; exact H.
Qed.

Lemma app_inj_length {A} (a a' b b' : list A) : length a = length a' -> a ++ b = a' ++ b' -> a = a' /\ b = b'.
Proof.
  revert a'. induction a as [|x a IH]; intros [|y a'] Hl H; try discriminate; [split; [reflexivity|exact H]|].
  simpl in Hl, H. inversion H; subst. destruct (IH a' ltac:(lia) H2) as [-> ->]. split; reflexivity.
Qed.

Lemma filter_all {A} (p : A -> bool) l : forallb p l = true -> filter p l = l.
Proof.
  induction l as [|a r IH]; [reflexivity|]. simpl. intros H. apply andb_true_iff in H. destruct H as [Ha H]. rewrite Ha, IH by assumption. reflexivity.
Qed.

(* ================================================================ results with compressed axis 0 after re-splitting *)
Lemma axis_order_0 n : (1 <= n)%nat -> axis_order (Z.of_nat n) [0] = zrange (Z.of_nat n).
Proof.
  intros Hn. destruct n as [|m]; [lia|]. unfold axis_order. rewrite zrange_S. cbn [filter mem_z existsb]. cbn [app].
  replace (0 =? 0) with true by reflexivity. cbn [orb negb]. f_equal.
  apply filter_all. apply forallb_forall. intros x Hx. apply in_map_iff in Hx. destruct Hx as [k [<- Hk]].
  apply zrange_In in Hk. cbn [mem_z existsb]. destruct (Z.eqb_spec (1 + k) 0); [lia|reflexivity].
Qed.

Lemma reordered_shape_0 sh : (1 <= length sh)%nat -> reordered_shape sh [0] = sh.
Proof.
  intros H. unfold reordered_shape. rewrite (axis_order_0 _ H). apply (gather_zrange sh).
Qed.

Lemma ckey_0 sh j : (1 <= length sh)%nat -> length j = length sh -> ckey sh [0] j = ravel sh j.
Proof.
  intros H Hl. unfold ckey. rewrite (reordered_shape_0 sh H), (axis_order_0 _ H). rewrite <- Hl. rewrite gather_zrange. reflexivity.
Qed.

Lemma caxes0_ok (sh' : shape) : (2 <= length sh')%nat -> caxes_okb (Z.of_nat (length sh')) [0] = true.
Proof.
  intros H2. unfold caxes_okb. cbn [is_nil negb length NoDupb mem_z existsb forallb andb].
  destruct (Z.ltb_spec (Z.of_nat 1) (Z.of_nat (length sh'))); [|lia].
  destruct (Z.ltb_spec 0 (Z.of_nat (length sh'))); [reflexivity|lia].
Qed.

Section Resplit.
  Variable V : Type.
  Variable c : coo V.
  Variable ca : list Z.
  Hypothesis Hc : canonical V c.
  Hypothesis Hca : caxes_okb (Z.of_nat (length (c_shape c))) ca = true.
  Variables RW CL : list Z.
  Variable sh' : shape.
  Variable gsrc : Shape.idx -> Shape.idx.
  Variable y : coo V.
  Hypothesis Hy_can : canonical V y.
  Hypothesis Hy_sh : c_shape y = sh'.
  Hypothesis Hy_fill : c_fill y = c_fill c.
  Hypothesis Hy_ent : forall j v, in_range sh' j -> (In (j, v) (entries y) <-> In (gsrc j, v) (entries c)).
  Hypothesis Hok' : shape_ok sh'.
  Variable key' : Shape.idx -> Z.
  Hypothesis BR2 : forall j, in_range sh' j ->
    exists m cc : nat, (m < length RW)%nat /\ (cc < length CL)%nat
      /\ key' j = Z.of_nat m * Z.of_nat (length CL) + Z.of_nat cc
      /\ ckey (c_shape c) ca (gsrc j) = nth m RW 0 * col_size (c_shape c) ca + nth cc CL 0.
  Hypothesis BR3 : forall m cc : nat, (m < length RW)%nat -> (cc < length CL)%nat ->
    exists j, in_range sh' j /\ in_range (c_shape c) (gsrc j)
      /\ key' j = Z.of_nat m * Z.of_nat (length CL) + Z.of_nat cc
      /\ ckey (c_shape c) ca (gsrc j) = nth m RW 0 * col_size (c_shape c) ca + nth cc CL 0.
  Hypothesis H2 : (2 <= length sh')%nat.
  Variable caT : list Z.
  Hypothesis HcaT : caxes_okb (Z.of_nat (length sh')) caT = true.
  Hypothesis Hkey : forall j, key' j = ckey sh' caT j.

  Let Lo := Lout V c ca RW CL.
  Let keys := map fst (gsorted V c ca).
  Let data := map snd (gsorted V c ca).
  Let cs := col_size (c_shape c) ca.
  Let ps := flat_map (rowsel keys cs CL) RW.
  Let ip1 := 0 :: cumsum_from 0 (map (fun r => Z.of_nat (length (rowsel keys cs CL r))) RW).

  (* the record of from_coo, read off the sorted key list of the selected elements *)
  Lemma resplit_gen :
    mkGCXS sh' caT (map snd Lo) (map (fun k => k mod col_size sh' caT) (map fst Lo))
           (indptr_of (map (fun k => k / col_size sh' caT) (map fst Lo)) (row_size sh' caT)) (c_fill c)
    = gcxs_from_coo y caT.
  Proof using Hc Hca Hy_can Hy_sh Hy_fill Hy_ent Hok' BR2 BR3 H2 HcaT Hkey.
    pose proof (master_gsorted V c ca Hc Hca RW CL sh' gsrc y Hy_can Hy_sh Hy_ent key' BR2 BR3 caT HcaT Hkey) as Hg.
    fold Lo in Hg.
    assert (Hok_y : shape_ok (c_shape y)) by (rewrite Hy_sh; exact Hok').
    assert (Hca_y : caxes_okb (Z.of_nat (length (c_shape y))) caT = true) by (rewrite Hy_sh; exact HcaT).
    assert (Hnd_y : (2 <= length (c_shape y))%nat) by (rewrite Hy_sh; exact H2).
    rewrite (from_coo_nf V y caT Hok_y Hca_y Hnd_y). rewrite Hg, Hy_sh, Hy_fill.
    f_equal.
    - rewrite map_map. apply map_ext. intros p. unfold colf. rewrite Hy_sh. reflexivity.
    - f_equal. rewrite map_map. apply map_ext_in. intros p Hp. rewrite <- Hg in Hp.
      destruct (rowf_colf V y caT Hy_can Hok_y Hca_y p Hp) as [_ [E _]]. rewrite E, Hy_sh. reflexivity.
  Qed.

  Lemma Lo_snd : map snd Lo = map (fun p : nat * nat => nth (fst p) data (c_fill c)) ps.
  Proof using. unfold Lo, Lout. apply lout_snd. Qed.

  Lemma Lo_fst_rows x : CL = [x] -> map fst Lo = row_numbers ip1.
  Proof using.
    intros HC. unfold ip1. rewrite row_numbers_eq, row_numbers_go_cumsum.
    unfold Lo, Lout. fold keys data cs. rewrite <- (lout_div V keys data (c_fill c) cs CL RW 0). rewrite HC. cbn [length].
    apply map_ext. intros e. rewrite Z.div_1_r. reflexivity.
  Qed.

  Lemma Lo_fst_cols r : RW = [r] -> map fst Lo = map (fun p : nat * nat => Z.of_nat (snd p)) ps.
  Proof using.
    intros HR. unfold Lo, Lout, ps. fold keys data cs. rewrite HR. cbn [lout flat_map]. rewrite !app_nil_r, map_map. apply map_ext.
    intros p. cbn [fst]. rewrite Z.mul_0_l. reflexivity.
  Qed.
End Resplit.

Lemma col_size_0 sh' : (2 <= length sh')%nat -> col_size sh' [0] = size (tl sh').
Proof. intros H2. unfold col_size. rewrite reordered_shape_0 by lia. destruct sh'; reflexivity. Qed.

Lemma row_size_0 sh' : (2 <= length sh')%nat -> row_size sh' [0] = hd 0 sh'.
Proof.
  intros H2. unfold row_size. destruct sh' as [|d t]; [simpl in H2; lia|]. cbn [map znth nth hd]. change (Z.to_nat 0) with 0%nat. cbn [nth]. unfold size. simpl. lia.
Qed.

Section Nd.
  Variable V : Type.
  Variable veqb : V -> V -> bool.
  Variable add : V -> V -> V.
  Variable c : coo V.
  Variable ca : list Z.
  Local Notation sh := (c_shape c).
  Local Notation n := (length (c_shape c)).
  Hypothesis Hc : canonical V c.
  Hypothesis Hok : shape_ok sh.
  Hypothesis Hca : caxes_okb (Z.of_nat n) ca = true.
  Hypothesis Hsorted : StronglySorted Z.lt ca.
  Hypothesis Hnd : (2 <= n)%nat.
  Variable nix : list nentry.
  Hypothesis Hwf : nwf nix sh.
  Hypothesis Hno : forallb not_none nix = true.
  Hypothesis Hna : (n_arr nix <= 1)%nat.

  Lemma Hlen : length nix = n.
  Proof. apply (nwf_length nix sh Hwf Hno). Qed.

  Definition E (a : Z) : nentry := nth (Z.to_nat a) nix NNone.
  Definition W (a : Z) : list Z := key_vals (E a).
  Definition L (a : Z) : Z := Z.of_nat (length (W a)).
  Definition S (a : Z) : Z := znth sh a 0.
  Definition kept (a : Z) : bool := negb (is_nint (E a)).
  Definition axes : list Z := zrange (Z.of_nat n).
  Definition K : list Z := filter kept axes.
  Definition rest : list Z := filter (fun a => negb (mem_z a ca)) axes.
  Definition kl : list bool := map (fun e => negb (is_nint e)) nix.

  Lemma entry_axis a : In a axes -> entry_ok (E a) (S a).
  Proof.
    intros Ha. apply zrange_In in Ha. unfold E, S, znth. apply (nwf_nth nix sh Hwf Hno). rewrite Hlen. lia.
  Qed.

  Lemma W_bounds a x : In a axes -> In x (W a) -> 0 <= x < S a.
  Proof.
    intros Ha Hx. pose proof (entry_axis a Ha) as H. unfold W in Hx. destruct (E a); simpl in H, Hx; try contradiction.
    - destruct Hx as [<-|[]]. exact H.
    - apply H. exact Hx.
    - apply H. exact Hx.
  Qed.

  Lemma L_int a : In a axes -> kept a = false -> L a = 1.
  Proof.
    intros Ha Hk. unfold kept in Hk. unfold L, W. destruct (E a); try discriminate. reflexivity.
  Qed.

  Lemma entry_len_L a : In a axes -> kept a = true -> entry_len (E a) = L a.
  Proof.
    intros Ha Hk. pose proof (entry_axis a Ha) as H. unfold kept in Hk. unfold L, W. destruct (E a); simpl in H; try contradiction; try discriminate.
    - cbn [entry_len key_vals]. apply slice_len_len. apply H.
    - reflexivity.
  Qed.

  Lemma W_SS a : In a axes -> pos_entry (E a) = true -> StronglySorted Z.lt (W a).
  Proof.
    intros Ha Hp. pose proof (entry_axis a Ha) as H. unfold W. destruct (E a); simpl in H; try contradiction.
    - repeat constructor.
    - cbn [key_vals]. apply range_list_SS_lt. simpl in Hp. destruct H as [Hst _]. destruct (Z.ltb_spec st 0); [discriminate|lia].
    - cbn [key_vals]. apply sorted_strict_SS. exact Hp.
  Qed.

  Lemma nix_map : nix = map E axes.
  Proof. unfold axes. rewrite <- Hlen. apply list_as_map. Qed.

  Lemma kl_map : kl = map kept axes.
  Proof. unfold kl. rewrite nix_map at 1. rewrite map_map. reflexivity. Qed.

  Lemma keptf_eq a : In a axes -> nth (Z.to_nat a) kl false = kept a.
  Proof.
    intros Ha. apply zrange_In in Ha. unfold kl, kept, E.
    rewrite (nth_indep _ false (negb (is_nint NNone))) by (rewrite map_length, Hlen; lia).
    apply (map_nth (fun e => negb (is_nint e))).
  Qed.

  Lemma K_keptf : filter (fun a => nth (Z.to_nat a) kl false) axes = K.
  Proof. apply filter_ext_in. exact keptf_eq. Qed.

  Lemma shape0_eq : map entry_len (filter (fun e => negb (is_nint e)) nix) = map L K.
  Proof.
    rewrite nix_map at 1. rewrite filter_map_comm, map_map. apply map_ext_in. intros a Ha.
    apply filter_In in Ha. apply entry_len_L; tauto.
  Qed.

  Lemma K_len_filter : length K = length (filter (fun e => negb (is_nint e)) nix).
  Proof. unfold K. symmetry. rewrite nix_map at 1. rewrite filter_map_comm, map_length. reflexivity. Qed.

  Lemma ca_range a : In a ca -> 0 <= a < Z.of_nat n.
  Proof. apply caxes_okb_spec in Hca. apply Hca. Qed.

  Lemma comp_eq : filter (fun a => nth (Z.to_nat a) kl false && mem_z a ca) axes = filter kept ca.
  Proof.
    rewrite filter_and, K_keptf. unfold K. rewrite filter_filter_comm. unfold axes.
    rewrite (filter_mem_sorted ca (Z.of_nat n) Hsorted ca_range). reflexivity.
  Qed.

  Lemma unc_eq : filter (fun a => nth (Z.to_nat a) kl false && negb (mem_z a ca)) axes = filter kept rest.
  Proof.
    rewrite filter_and, K_keptf. unfold K. rewrite filter_filter_comm. reflexivity.
  Qed.

  Lemma sk_eq a : In a K -> Z.of_nat (length (filter (fun b : bool => b) (firstn (Z.to_nat a) kl))) = index_of a K.
  Proof.
    intros Ha. apply filter_In in Ha. destruct Ha as [Ha Hk]. pose proof Ha as Ha'. apply zrange_In in Ha'.
    assert (Hl : length kl = n) by (unfold kl; rewrite map_length; apply Hlen).
    pose proof (index_of_kept kl a) as H. cbv zeta in H. rewrite Hl in H. fold axes in H. rewrite K_keptf in H.
    symmetry. apply H; [exact Ha'|rewrite keptf_eq; assumption].
  Qed.


  Lemma ord_eq : axis_order (Z.of_nat n) ca = ca ++ rest.
  Proof. reflexivity. Qed.

  Lemma firstn_app_exact {A} (l1 l2 : list A) : firstn (length l1) (l1 ++ l2) = l1.
  Proof. rewrite firstn_app, Nat.sub_diag, firstn_all. cbn [firstn]. apply app_nil_r. Qed.

  Lemma skipn_app_exact {A} (l1 l2 : list A) : skipn (length l1) (l1 ++ l2) = l2.
  Proof. rewrite skipn_app, Nat.sub_diag, skipn_all. reflexivity. Qed.

  Definition RW : list Z := convert_to_flat (map W ca) (map S ca).
  Definition CL : list Z := convert_to_flat (map W rest) (map S rest).

  Lemma vals_eq : map key_vals (gather_n nix NNone (axis_order (Z.of_nat n) ca)) = map W ca ++ map W rest.
  Proof. rewrite ord_eq. unfold gather_n. rewrite map_map, map_app. reflexivity. Qed.

  Lemma rsh_eq : reordered_shape sh ca = map S ca ++ map S rest.
  Proof. unfold reordered_shape. rewrite ord_eq, map_app. reflexivity. Qed.

  Lemma RW_eq : convert_to_flat (firstn (length ca) (map key_vals (gather_n nix NNone (axis_order (Z.of_nat n) ca))))
                                (firstn (length ca) (reordered_shape sh ca)) = RW.
  Proof.
    rewrite vals_eq, rsh_eq. rewrite <- (map_length W ca) at 1. rewrite firstn_app_exact.
    rewrite <- (map_length S ca). rewrite firstn_app_exact. reflexivity.
  Qed.

  Lemma CL_eq : convert_to_flat (skipn (length ca) (map key_vals (gather_n nix NNone (axis_order (Z.of_nat n) ca))))
                                (skipn (length ca) (reordered_shape sh ca)) = CL.
  Proof.
    rewrite vals_eq, rsh_eq. rewrite <- (map_length W ca) at 1. rewrite skipn_app_exact.
    rewrite <- (map_length S ca). rewrite skipn_app_exact. reflexivity.
  Qed.

  Lemma pos_eq : forallb pos_entry (skipn (length ca) (gather_n nix NNone (axis_order (Z.of_nat n) ca)))
                 = forallb pos_entry (map E rest).
  Proof.
    rewrite ord_eq. unfold gather_n. rewrite map_app. rewrite <- (map_length (fun a => nth (Z.to_nat a) nix NNone) ca) at 1.
    rewrite skipn_app_exact. reflexivity.
  Qed.

  Definition kpos (a : Z) : Z := index_of a K.

  Lemma kept_ca_K a : In a (filter kept ca) -> In a K.
  Proof.
    intros Ha. apply filter_In in Ha. destruct Ha as [Ha Hk]. apply filter_In. split; [|exact Hk].
    apply zrange_In. apply ca_range. exact Ha.
  Qed.

  Lemma ca'_eq : map (fun a : Z => Z.of_nat (length (filter (fun b : bool => b) (firstn (Z.to_nat a) kl)))) (filter kept ca)
                 = map kpos (filter kept ca).
  Proof. apply map_ext_in. intros a Ha. apply sk_eq. apply kept_ca_K. exact Ha. Qed.

  Lemma rs1_eq : size (map (fun a : Z => nth (Z.to_nat (Z.of_nat (length (filter (fun b : bool => b) (firstn (Z.to_nat a) kl)))))
                                          (map L K) 0) (filter kept ca))
                 = size (map L (filter kept ca)).
  Proof.
    f_equal. apply map_ext_in. intros a Ha. apply kept_ca_K in Ha. rewrite (sk_eq a Ha).
    apply (znth_index_of L a K 0 Ha).
  Qed.


  Definition nonnil {A} (l : list A) : bool := negb match l with [] => true | _ :: _ => false end.

  Hypothesis Hint : forallb is_nint nix = false.

  Lemma K_nonempty : K <> [].
  Proof.
    intros HK. assert (H : forallb is_nint nix = true); [|congruence].
    rewrite nix_map, forallb_forall. intros e He. apply in_map_iff in He. destruct He as [a [<- Ha]].
    destruct (is_nint (E a)) eqn:Ei; [reflexivity|].
    assert (In a K) by (apply filter_In; split; [exact Ha|unfold kept; rewrite Ei; reflexivity]). rewrite HK in H. destruct H.
  Qed.

  Definition dat' (g : gcxs V) (ps : list (nat * nat)) := map (fun p : nat * nat => nth (fst p) (g_data g) (g_fill g)) ps.
  Definition ind' (ps : list (nat * nat)) := map (fun p : nat * nat => Z.of_nat (snd p)) ps.
  Definition sh' : shape := map L K.
  Definition sz : Z := size (tl sh').
  Definition pos : bool := forallb pos_entry (map E rest).

  Ltac common Hgs Hgc Hn Haf :=
    unfold gcxs_getitem_nd; rewrite Hgs, Hgc, Hn; cbn [bind]; rewrite Haf, Hint;
    rewrite (filter_all not_nnone nix Hno); fold kl; rewrite shape0_eq;
    fold axes; rewrite comp_eq, unc_eq; rewrite RW_eq, CL_eq, pos_eq, ca'_eq, rs1_eq;
    replace (length (map L K) =? 0)%nat with false
      by (symmetry; apply Nat.eqb_neq; rewrite map_length; pose proof K_nonempty; destruct K; [congruence|simpl; lia]);
    rewrite andb_false_r.

  (* both compressed and uncompressed axes survive *)
  Lemma formula_M (g : gcxs V) ix :
    g_shape g = sh -> g_caxes g = ca -> normalize_index ix sh = Ok nix -> all_full nix sh = false ->
    filter kept ca <> [] -> filter kept rest <> [] ->
    gcxs_getitem_nd V g ix
    = tail_nd V g RW CL pos (fun _ => size (map L (filter kept ca)))
        (fun ps ip => GGArr (mkGCXS sh' (if (length sh' =? 1)%nat then [] else map kpos (filter kept ca))
                                    (dat' g ps) (ind' ps) ip (g_fill g))).
  Proof.
    intros Hgs Hgc Hn Haf H1 H2. common Hgs Hgc Hn Haf.
    assert (E1 : negb match filter kept ca with [] => true | _ :: _ => false end = true) by (destruct (filter kept ca); [contradiction|reflexivity]).
    assert (E2 : negb match filter kept rest with [] => true | _ :: _ => false end = true) by (destruct (filter kept rest); [contradiction|reflexivity]).
    rewrite !E1, !E2. cbv beta iota zeta. rewrite (reinsert_none_id nix 0 _ _ Hno). reflexivity.
  Qed.

  (* only compressed axes survive *)
  Lemma formula_C (g : gcxs V) ix :
    g_shape g = sh -> g_caxes g = ca -> normalize_index ix sh = Ok nix -> all_full nix sh = false ->
    filter kept ca <> [] -> filter kept rest = [] ->
    gcxs_getitem_nd V g ix
    = tail_nd V g RW CL pos (fun nst => Z.of_nat nst)
        (fun ps ip => GGArr (if (length sh' =? 1)%nat
                             then mkGCXS sh' [] (dat' g ps) (row_numbers ip) [] (g_fill g)
                             else mkGCXS sh' [0] (dat' g ps) (map (fun u => u mod sz) (row_numbers ip))
                                         (indptr_of (map (fun u => u / sz) (row_numbers ip)) (hd 0 sh')) (g_fill g))).
  Proof.
    intros Hgs Hgc Hn Haf H1 H2. common Hgs Hgc Hn Haf.
    assert (E1 : negb match filter kept ca with [] => true | _ :: _ => false end = true) by (destruct (filter kept ca); [contradiction|reflexivity]).
    rewrite !E1, !H2. cbv beta iota zeta. cbn [negb]. cbv beta iota zeta. rewrite (reinsert_none_id nix 0 _ _ Hno). unfold tail_nd, sh', sz. destruct (length (map L K) =? 1)%nat; reflexivity.
  Qed.

  (* only uncompressed axes survive *)
  Lemma formula_U (g : gcxs V) ix :
    g_shape g = sh -> g_caxes g = ca -> normalize_index ix sh = Ok nix -> all_full nix sh = false ->
    filter kept ca = [] -> filter kept rest <> [] ->
    gcxs_getitem_nd V g ix
    = tail_nd V g RW CL pos (fun _ => 1)
        (fun ps ip => GGArr (if (length sh' =? 1)%nat
                             then mkGCXS sh' [] (dat' g ps) (ind' ps) [] (g_fill g)
                             else mkGCXS sh' [0] (dat' g ps) (map (fun u => u mod sz) (ind' ps))
                                         (indptr_of (map (fun u => u / sz) (ind' ps)) (hd 0 sh')) (g_fill g))).
  Proof.
    intros Hgs Hgc Hn Haf H1 H2. common Hgs Hgc Hn Haf.
    assert (E2 : negb match filter kept rest with [] => true | _ :: _ => false end = true) by (destruct (filter kept rest); [contradiction|reflexivity]).
    rewrite !E2, !H1. cbv beta iota zeta. cbn [negb]. cbv beta iota zeta. rewrite (reinsert_none_id nix 0 _ _ Hno). unfold tail_nd, sh', sz. destruct (length (map L K) =? 1)%nat; reflexivity.
  Qed.

  (* ---------------------------------------------------------------- NumPy's shape and source index, axis by axis *)
  Definition T (D : Z -> Z) (a : Z) : Z := zat (W a) (D a).

  Lemma E_int a i : E a = NInt i -> kept a = false /\ W a = [i].
  Proof. intros H. unfold kept, W. rewrite H. split; reflexivity. Qed.

  Lemma E_slice a s e st : E a = NSlice s e st -> kept a = true /\ W a = range_list s e st /\ L a = Z.of_nat (length (range_list s e st)).
  Proof. intros H. unfold L, kept, W. rewrite H. repeat split; reflexivity. Qed.

  Lemma E_arr a l : E a = NArr l -> kept a = true /\ W a = l /\ L a = Z.of_nat (length l).
  Proof. intros H. unfold L, kept, W. rewrite H. repeat split; reflexivity. Qed.

  Definition arrf (a : Z) : bool := is_narr (E a).

  (* no array left: the flags of out_shape_aux / src_aux do not matter *)
  Lemma out_shape_axes_seen : forall axes' seen, (forall a, In a axes' -> In a axes) ->
    (forall a, In a axes' -> arrf a = false) ->
    out_shape_aux seen (map to_r (map E axes')) = map L (filter kept axes').
  Proof.
    induction axes' as [|a r IH]; intros seen Hin Hna'; [reflexivity|].
    pose proof (entry_axis a (Hin a (or_introl eq_refl))) as Ha.
    specialize (IH seen (fun b Hb => Hin b (or_intror Hb)) (fun b Hb => Hna' b (or_intror Hb))).
    pose proof (Hna' a (or_introl eq_refl)) as Hn. unfold arrf in Hn.
    cbn [map filter]. destruct (E a) as [i|s e st| |l] eqn:Ea; simpl in Ha; try contradiction; try discriminate.
    - destruct (E_int a i Ea) as [Hk _]. rewrite Hk. cbn [to_r out_shape_aux]. exact IH.
    - destruct (E_slice a s e st Ea) as [Hk [_ HL]]. rewrite Hk. cbn [to_r map out_shape_aux]. rewrite HL, IH. reflexivity.
  Qed.

  Lemma src_axes_seen (D : Z -> Z) : forall axes' ao, (forall a, In a axes' -> In a axes) ->
    (forall a, In a axes' -> arrf a = false) ->
    (forall a, In a axes' -> kept a = false -> D a = 0) ->
    src_aux ao (map to_r (map E axes')) (map D (filter kept axes')) = map (T D) axes'.
  Proof.
    induction axes' as [|a r IH]; intros ao Hin Hna' H0; [reflexivity|].
    pose proof (entry_axis a (Hin a (or_introl eq_refl))) as Ha.
    specialize (IH ao (fun b Hb => Hin b (or_intror Hb)) (fun b Hb => Hna' b (or_intror Hb)) (fun b Hb => H0 b (or_intror Hb))).
    pose proof (H0 a (or_introl eq_refl)) as H0a. pose proof (Hna' a (or_introl eq_refl)) as Hn. unfold arrf in Hn.
    cbn [map filter]. destruct (E a) as [i|s e st| |l] eqn:Ea; simpl in Ha; try contradiction; try discriminate.
    - destruct (E_int a i Ea) as [Hk HW]. rewrite Hk. cbn [to_r src_aux]. rewrite IH. change (T D a) with (zat (W a) (D a)).
      rewrite HW, (H0a Hk). reflexivity.
    - destruct (E_slice a s e st Ea) as [Hk [HW _]]. rewrite Hk. cbn [to_r map src_aux hd tl]. rewrite IH.
      change (T D a) with (zat (W a) (D a)). rewrite HW. reflexivity.
  Qed.

  Lemma filter_nil_all {A} (p : A -> bool) l : filter p l = [] -> forall a, In a l -> p a = false.
  Proof.
    intros H a Ha. destruct (p a) eqn:E; [|reflexivity]. assert (In a (filter p l)) by (apply filter_In; auto). rewrite H in H0. destruct H0.
  Qed.

  Lemma out_shape_axes : forall axes', (forall a, In a axes' -> In a axes) -> (length (filter arrf axes') <= 1)%nat ->
    out_shape (map to_r (map E axes')) = map L (filter kept axes').
  Proof.
    unfold out_shape. induction axes' as [|a r IH]; intros Hin H1; [reflexivity|].
    pose proof (entry_axis a (Hin a (or_introl eq_refl))) as Ha.
    cbn [map filter]. cbn [filter] in H1. unfold arrf at 1 in H1.
    destruct (E a) as [i|s e st| |l] eqn:Ea; simpl in Ha; try contradiction; cbn [is_narr] in H1.
    - destruct (E_int a i Ea) as [Hk _]. rewrite Hk. cbn [to_r out_shape_aux]. apply IH; [intros b Hb; apply Hin; right; exact Hb|exact H1].
    - destruct (E_slice a s e st Ea) as [Hk [_ HL]]. rewrite Hk. cbn [to_r map out_shape_aux]. rewrite HL, IH; [reflexivity|intros b Hb; apply Hin; right; exact Hb|exact H1].
    - destruct (E_arr a l Ea) as [Hk [_ HL]]. rewrite Hk. cbn [to_r map out_shape_aux]. rewrite HL.
      rewrite (out_shape_axes_seen r true); [reflexivity|intros b Hb; apply Hin; right; exact Hb|].
      apply filter_nil_all. cbn [length] in H1. destruct (filter arrf r); [reflexivity|simpl in H1; lia].
  Qed.

  Lemma src_axes (D : Z -> Z) : forall axes', (forall a, In a axes' -> In a axes) -> (length (filter arrf axes') <= 1)%nat ->
    (forall a, In a axes' -> kept a = false -> D a = 0) ->
    src_of (map to_r (map E axes')) (map D (filter kept axes')) = map (T D) axes'.
  Proof.
    unfold src_of. induction axes' as [|a r IH]; intros Hin H1 H0; [reflexivity|].
    pose proof (entry_axis a (Hin a (or_introl eq_refl))) as Ha.
    pose proof (H0 a (or_introl eq_refl)) as H0a.
    cbn [map filter]. cbn [filter] in H1. unfold arrf at 1 in H1.
    destruct (E a) as [i|s e st| |l] eqn:Ea; simpl in Ha; try contradiction; cbn [is_narr] in H1.
    - destruct (E_int a i Ea) as [Hk HW]. rewrite Hk. cbn [to_r src_aux].
      rewrite IH; [|intros b Hb; apply Hin; right; exact Hb|exact H1|intros b Hb; apply H0; right; exact Hb].
      change (T D a) with (zat (W a) (D a)). rewrite HW, (H0a Hk). reflexivity.
    - destruct (E_slice a s e st Ea) as [Hk [HW _]]. rewrite Hk. cbn [to_r map src_aux hd tl].
      rewrite IH; [|intros b Hb; apply Hin; right; exact Hb|exact H1|intros b Hb; apply H0; right; exact Hb].
      change (T D a) with (zat (W a) (D a)). rewrite HW. reflexivity.
    - destruct (E_arr a l Ea) as [Hk [HW _]]. rewrite Hk. cbn [to_r map src_aux hd tl].
      rewrite (src_axes_seen D r); [|intros b Hb; apply Hin; right; exact Hb| |intros b Hb; apply H0; right; exact Hb].
      + change (T D a) with (zat (W a) (D a)). rewrite HW. reflexivity.
      + apply filter_nil_all. cbn [length] in H1. destruct (filter arrf r); [reflexivity|simpl in H1; lia].
  Qed.

  Lemma arrf_count : (length (filter arrf axes) <= 1)%nat.
  Proof.
    unfold n_arr in Hna. rewrite nix_map in Hna. rewrite filter_map_comm, map_length in Hna. exact Hna.
  Qed.

  Lemma out_shape_nix : out_shape (map to_r nix) = sh'.
  Proof. rewrite nix_map at 1. apply out_shape_axes; [auto|apply arrf_count]. Qed.

  Lemma src_nix D : (forall a, In a axes -> 0 <= D a < L a) -> src_of (map to_r nix) (map D K) = map (T D) axes.
  Proof.
    intros HD. rewrite nix_map at 1. apply src_axes; [auto|apply arrf_count|]. intros a Ha Hk. specialize (HD a Ha). rewrite (L_int a Ha Hk) in HD. lia.
  Qed.

  Lemma sh_map : sh = map S axes.
  Proof. unfold axes, S, znth. apply list_as_map. Qed.

  Lemma znth_map_axes (f : Z -> Z) a : In a axes -> znth (map f axes) a 0 = f a.
  Proof.
    intros Ha. apply zrange_In in Ha. unfold znth, axes. rewrite (nth_indep _ 0 (f 0)) by (rewrite map_length, zrange_length; lia).
    rewrite map_nth, nth_zrange by lia. f_equal. lia.
  Qed.

  Lemma T_in_W D a : In a axes -> 0 <= D a < L a -> In (T D a) (W a).
  Proof. intros Ha HD. unfold T, zat. apply nth_In. unfold L in HD. lia. Qed.

  Lemma rest_axes a : In a rest -> In a axes.
  Proof. intros H. apply filter_In in H. tauto. Qed.

  Lemma ca_axes a : In a ca -> In a axes.
  Proof. intros H. apply zrange_In. apply ca_range. exact H. Qed.

  Lemma ord_axes a : In a (ca ++ rest) -> In a axes.
  Proof. intros H. apply in_app_iff in H. destruct H; [apply ca_axes|apply rest_axes]; assumption. Qed.

  Lemma cs_eq : col_size sh ca = size (map S rest).
  Proof. unfold col_size. rewrite rsh_eq. rewrite <- (map_length S ca). rewrite skipn_app_exact. reflexivity. Qed.

  Lemma rs_eq : row_size sh ca = size (map S ca).
  Proof. reflexivity. Qed.

  Lemma RW_len : Z.of_nat (length RW) = size (map L ca).
  Proof. apply flat_length. Qed.

  Lemma CL_len : Z.of_nat (length CL) = size (map L rest).
  Proof. apply flat_length. Qed.

  (* the core of the bridge: a digit for every axis *)
  Lemma core D : (forall a, In a axes -> 0 <= D a < L a) ->
    let j := map D K in let t := src_of (map to_r nix) j in
    in_range sh' j /\ in_range sh t
    /\ 0 <= rav L D ca < Z.of_nat (length RW) /\ 0 <= rav L D rest < Z.of_nat (length CL)
    /\ ckey sh ca t = nth (Z.to_nat (rav L D ca)) RW 0 * col_size sh ca + nth (Z.to_nat (rav L D rest)) CL 0
    /\ rav L D (filter kept (ca ++ rest)) = rav L D ca * Z.of_nat (length CL) + rav L D rest.
  Proof.
    intros HD j t. unfold t, j. rewrite (src_nix D HD).
    split; [apply in_range_map; intros a Ha; apply HD; apply filter_In in Ha; tauto|].
    split. { rewrite sh_map at 1. apply in_range_map. intros a Ha. apply (W_bounds a _ Ha). apply T_in_W; auto. }
    split; [rewrite RW_len; apply rav_bounds; intros a Ha; apply HD, ca_axes, Ha|].
    split; [rewrite CL_len; apply rav_bounds; intros a Ha; apply HD, rest_axes, Ha|].
    split.
    - unfold ckey. rewrite rsh_eq, ord_eq, <- map_app. unfold gather.
      assert (Eg : map (fun a => znth (map (T D) axes) a 0) (ca ++ rest) = map (T D) (ca ++ rest)).
      { apply map_ext_in. intros a Ha. apply znth_map_axes. apply ord_axes. exact Ha. }
      rewrite Eg. change (ravel (map S (ca ++ rest)) (map (T D) (ca ++ rest))) with (rav S (T D) (ca ++ rest)).
      rewrite rav_app, cs_eq. unfold RW, CL.
      pose proof (flat_nth W S D ca (fun a Ha => HD a (ca_axes a Ha))) as F1.
      pose proof (flat_nth W S D rest (fun a Ha => HD a (rest_axes a Ha))) as F2.
      change (fun a : Z => Z.of_nat (length (W a))) with L in F1, F2. rewrite F1, F2. reflexivity.
    - destruct (rav_filter L D kept (ca ++ rest)) as [E1 _].
      { intros a Ha Hk. apply ord_axes in Ha. split; [apply L_int; assumption|]. specialize (HD a Ha). rewrite (L_int a Ha Hk) in HD. lia. }
      rewrite <- E1, rav_app, CL_len. reflexivity.
  Qed.

  (* ---------------------------------------------------------------- the bridge hypotheses of Master *)
  Lemma K_NoDup : NoDup K.
  Proof. apply NoDup_filter. apply zrange_NoDup. Qed.

  Lemma L_nonneg a : 0 <= L a.
  Proof. unfold L. lia. Qed.

  Section Bridge.
  Variable key' : Shape.idx -> Z.
  Hypothesis Hkey : forall D, (forall a, In a axes -> 0 <= D a < L a) -> key' (map D K) = rav L D (filter kept (ca ++ rest)).

  Definition D_of (j : Shape.idx) (a : Z) : Z := if kept a then znth j (kpos a) 0 else 0.

  Lemma D_of_spec j : in_range sh' j -> map (D_of j) K = j /\ forall a, In a axes -> 0 <= D_of j a < L a.
  Proof.
    intros Hj. pose proof (in_range_length _ _ Hj) as Hl. unfold sh' in Hl. rewrite map_length in Hl. split.
    - transitivity (map (fun a => znth j (index_of a K) 0) K); [|apply map_znth_index_of; [apply K_NoDup|exact Hl]].
      apply map_ext_in. intros a Ha. unfold D_of. apply filter_In in Ha. destruct Ha as [_ Hk]. rewrite Hk. reflexivity.
    - intros a Ha. unfold D_of. destruct (kept a) eqn:Hk; [|rewrite (L_int a Ha Hk); lia].
      assert (HaK : In a K) by (apply filter_In; auto).
      pose proof (index_of_bounds a K HaK) as Hb.
      pose proof (nth_in_range sh' j (Z.to_nat (kpos a)) Hj) as H. unfold sh' in H at 1. rewrite map_length in H.
      specialize (H ltac:(unfold kpos; lia)). unfold znth.
      replace (nth (Z.to_nat (kpos a)) sh' 0) with (L a) in H; [exact H|].
      symmetry. apply (znth_index_of L a K 0 HaK).
  Qed.

  Lemma BR2_nd : forall j, in_range sh' j ->
    exists m cc : nat, (m < length RW)%nat /\ (cc < length CL)%nat
      /\ key' j = Z.of_nat m * Z.of_nat (length CL) + Z.of_nat cc
      /\ ckey sh ca (src_of (map to_r nix) j) = nth m RW 0 * col_size sh ca + nth cc CL 0.
  Proof.
    intros j Hj. destruct (D_of_spec j Hj) as [Ej HD]. destruct (core (D_of j) HD) as [_ [_ [Hm [Hc' [Hck Hrav]]]]].
    rewrite Ej in Hck. exists (Z.to_nat (rav L (D_of j) ca)), (Z.to_nat (rav L (D_of j) rest)).
    split; [lia|]. split; [lia|]. rewrite !Z2Nat.id by lia. split; [|exact Hck].
    rewrite <- Ej at 1. rewrite (Hkey _ HD). exact Hrav.
  Qed.

  Lemma ord_NoDup : NoDup (ca ++ rest).
  Proof.
    pose proof (axis_order_perm n ca Hca) as Hp. rewrite ord_eq in Hp. unfold perm_of in Hp.
    eapply Permutation_NoDup; [apply Permutation_sym; exact Hp|apply zrange_NoDup].
  Qed.

  Lemma axes_ord a : In a axes -> In a (ca ++ rest).
  Proof.
    intros Ha. pose proof (axis_order_perm n ca Hca) as Hp. rewrite ord_eq in Hp.
    eapply Permutation_in; [apply Permutation_sym; exact Hp|exact Ha].
  Qed.

  Lemma shape_ok_L l : shape_ok (map L l).
  Proof. unfold shape_ok. rewrite Forall_map. apply Forall_forall. intros a _. apply L_nonneg. Qed.

  Lemma BR3_nd : forall m cc : nat, (m < length RW)%nat -> (cc < length CL)%nat ->
    exists j, in_range sh' j /\ in_range sh (src_of (map to_r nix) j)
      /\ key' j = Z.of_nat m * Z.of_nat (length CL) + Z.of_nat cc
      /\ ckey sh ca (src_of (map to_r nix) j) = nth m RW 0 * col_size sh ca + nth cc CL 0.
  Proof.
    intros m cc Hm Hcc.
    assert (Hm' : 0 <= Z.of_nat m < size (map L ca)) by (rewrite <- RW_len; lia).
    assert (Hc' : 0 <= Z.of_nat cc < size (map L rest)) by (rewrite <- CL_len; lia).
    set (dr := unravel (map L ca) (Z.of_nat m)). set (dc := unravel (map L rest) (Z.of_nat cc)).
    pose proof (unravel_in_range (map L ca) (Z.of_nat m) (shape_ok_L ca) Hm') as Hdr. fold dr in Hdr.
    pose proof (unravel_in_range (map L rest) (Z.of_nat cc) (shape_ok_L rest) Hc') as Hdc. fold dc in Hdc.
    set (D := fun a => znth (dr ++ dc) (index_of a (ca ++ rest)) 0).
    assert (Hlen' : length (dr ++ dc) = length (ca ++ rest)).
    { rewrite !app_length. rewrite (in_range_length _ _ Hdr), (in_range_length _ _ Hdc), !map_length. reflexivity. }
    pose proof (map_znth_index_of (dr ++ dc) (ca ++ rest) ord_NoDup Hlen') as HD. fold D in HD. rewrite map_app in HD.
    assert (Hl1 : length (map D ca) = length dr) by (rewrite map_length, (in_range_length _ _ Hdr), map_length; reflexivity).
    destruct (app_inj_length _ _ _ _ Hl1 HD) as [E1 E2].
    assert (HDr : forall a, In a axes -> 0 <= D a < L a).
    { intros a Ha. apply axes_ord in Ha. apply in_app_iff in Ha. destruct Ha as [Ha|Ha].
      - rewrite <- E1 in Hdr. apply (proj1 (in_range_map L D ca) Hdr a Ha).
      - rewrite <- E2 in Hdc. apply (proj1 (in_range_map L D rest) Hdc a Ha). }
    destruct (core D HDr) as [Hj [Ht [_ [_ [Hck Hrav]]]]].
    assert (R1 : rav L D ca = Z.of_nat m) by (unfold rav; rewrite E1; apply ravel_unravel; [apply shape_ok_L|exact Hm']).
    assert (R2 : rav L D rest = Z.of_nat cc) by (unfold rav; rewrite E2; apply ravel_unravel; [apply shape_ok_L|exact Hc']).
    exists (map D K). split; [exact Hj|]. split; [exact Ht|]. rewrite R1, R2, !Nat2Z.id in Hck. split; [|exact Hck].
    rewrite (Hkey D HDr), Hrav, R1, R2. reflexivity.
  Qed.
  End Bridge.

  (* ---------------------------------------------------------------- common facts of the three branches *)
  Definition kc : list Z := filter kept ca.
  Definition kr : list Z := filter kept rest.

  Lemma HRW_nd : Forall (fun r => 0 <= r < row_size sh ca) RW.
  Proof. rewrite rs_eq. apply flat_bounds. intros a x Ha. apply W_bounds, ca_axes, Ha. Qed.

  Lemma HCL_nd : Forall (fun x => 0 <= x < col_size sh ca) CL.
  Proof. rewrite cs_eq. apply flat_bounds. intros a x Ha. apply W_bounds, rest_axes, Ha. Qed.

  Lemma Hpos_nd : pos = true -> sincr CL.
  Proof.
    intros Hp. apply SS_lt_sincr. apply flat_SS.
    - intros a Ha. apply W_SS; [apply rest_axes, Ha|]. unfold pos in Hp. rewrite forallb_forall in Hp. apply Hp. apply in_map. exact Ha.
    - intros a x Ha. apply W_bounds, rest_axes, Ha.
  Qed.

  Lemma sh'_ok : shape_ok sh'.
  Proof. apply shape_ok_L. Qed.

  Lemma K_split_c : filter (fun a => mem_z a ca) K = kc.
  Proof.
    unfold K, kc. rewrite filter_filter_comm. unfold axes. rewrite (filter_mem_sorted ca (Z.of_nat n) Hsorted ca_range). reflexivity.
  Qed.

  Lemma K_split_r : filter (fun a => negb (mem_z a ca)) K = kr.
  Proof. unfold K, kr. rewrite filter_filter_comm. reflexivity. Qed.

  Lemma filter_partition_length {A} (p : A -> bool) l : (length (filter p l) + length (filter (fun a => negb (p a)) l) = length l)%nat.
  Proof. induction l as [|a r IH]; [reflexivity|]. cbn [filter]. destruct (p a); cbn [negb length]; lia. Qed.

  Lemma K_length : length K = (length kc + length kr)%nat.
  Proof. rewrite <- K_split_c, <- K_split_r. symmetry. apply filter_partition_length. Qed.

  Lemma kc_K a : In a kc -> In a K.
  Proof. apply kept_ca_K. Qed.

  Lemma kr_K a : In a kr -> In a K.
  Proof. intros Ha. rewrite <- K_split_r in Ha. apply filter_In in Ha. tauto. Qed.

  Lemma size_kc : size (map L kc) = size (map L ca).
  Proof.
    symmetry. apply (rav_filter L (fun _ => 0) kept ca). intros a Ha Hk. split; [apply L_int; [apply ca_axes, Ha|exact Hk]|reflexivity].
  Qed.

  Lemma size_kr : size (map L kr) = size (map L rest).
  Proof.
    symmetry. apply (rav_filter L (fun _ => 0) kept rest). intros a Ha Hk. split; [apply L_int; [apply rest_axes, Ha|exact Hk]|reflexivity].
  Qed.

  Lemma kept_ord : filter kept (ca ++ rest) = kc ++ kr.
  Proof. apply filter_app. Qed.

  Lemma g_nf : gcxs_from_coo c ca
    = mkGCXS sh ca (map snd (gsorted V c ca)) (map (colf V c ca) (gsorted V c ca))
             (indptr_of (map (rowf V c ca) (gsorted V c ca)) (row_size sh ca)) (c_fill c).
  Proof. apply from_coo_nf; assumption. Qed.

  (* the result key of the mixed branch *)
  Lemma Hkey_M D : (forall a, In a axes -> 0 <= D a < L a) ->
    ckey sh' (map kpos kc) (map D K) = rav L D (filter kept (ca ++ rest)).
  Proof.
    intros _. unfold ckey, reordered_shape. replace (length sh') with (length K) by (unfold sh'; rewrite map_length; reflexivity).
    assert (EO : axis_order (Z.of_nat (length K)) (map kpos kc) = map kpos (kc ++ kr)).
    { pose proof (order_in_sublist K (fun a => mem_z a ca) K_NoDup) as EO. cbv zeta in EO. rewrite K_split_c, K_split_r in EO. exact EO. }
    rewrite EO, kept_ord.
    unfold gather. rewrite !map_map. unfold rav. f_equal; apply map_ext_in; intros a Ha.
    - unfold sh'. apply (znth_index_of L a K 0). apply in_app_iff in Ha. destruct Ha; [apply kc_K|apply kr_K]; assumption.
    - apply (znth_index_of D a K 0). apply in_app_iff in Ha. destruct Ha; [apply kc_K|apply kr_K]; assumption.
  Qed.

  (* ---------------------------------------------------------------- the three branches *)
  Section Branches.
  Variable y : coo V.
  Variable ix : index.
  Hypothesis Hy : yfacts V c y (out_shape (map to_r nix)) (src_of (map to_r nix)).
  Hypothesis Hn : normalize_index ix sh = Ok nix.
  Hypothesis Haf : all_full nix sh = false.

  Local Notation gsrc := (src_of (map to_r nix)).
  Local Notation g := (gcxs_from_coo c ca).

  Lemma g_shape_eq : g_shape g = sh. Proof. rewrite g_nf. reflexivity. Qed.
  Lemma g_caxes_eq : g_caxes g = ca. Proof. rewrite g_nf. reflexivity. Qed.
  Lemma g_data_eq : g_data g = map snd (gsorted V c ca). Proof. rewrite g_nf. reflexivity. Qed.
  Lemma g_fill_eq : g_fill g = c_fill c. Proof. rewrite g_nf. reflexivity. Qed.

  Lemma Hy' : yfacts V c y sh' gsrc.
  Proof. rewrite <- out_shape_nix. exact Hy. Qed.

  Lemma branch_M : kc <> [] -> kr <> [] -> post V c sh' gsrc (gcxs_getitem_nd V g ix).
  Proof.
    intros H1 H2. rewrite (formula_M g ix g_shape_eq g_caxes_eq Hn Haf H1 H2).
    rewrite (tail_eval V c ca Hc Hok Hca Hnd RW CL pos HRW_nd HCL_nd Hpos_nd) by (cbv beta; rewrite RW_len; apply size_kc).
    assert (Hl2 : (2 <= length sh')%nat).
    { unfold sh'. rewrite map_length, K_length. destruct kc; [contradiction|]. destruct kr; [contradiction|]. simpl. lia. }
    replace (length sh' =? 1)%nat with false by (symmetry; apply Nat.eqb_neq; lia).
    unfold dat', ind'. rewrite g_data_eq, g_fill_eq. fold kc.
    pose proof Hy' as [Hy_sh [Hy_fill [Hy_can [Hy_den Hy_ent]]]].
    assert (Hca' : caxes_okb (Z.of_nat (length sh')) (map kpos kc) = true).
    { unfold caxes_okb. rewrite !andb_true_iff. repeat split.
      - destruct kc; [contradiction|reflexivity].
      - apply Z.ltb_lt. rewrite map_length. unfold sh'. rewrite map_length, K_length. destruct kr; [contradiction|]. simpl. lia.
      - apply NoDupb_NoDup. apply NoDup_map_in; [|apply NoDup_filter; apply caxes_okb_spec in Hca; apply Hca].
        intros a b Ha Hb. apply index_of_inj; apply kc_K; assumption.
      - apply forallb_forall. intros x Hx. apply in_map_iff in Hx. destruct Hx as [a [<- Ha]].
        pose proof (index_of_bounds a K (kc_K a Ha)) as Hb. unfold sh'. rewrite map_length. unfold kpos. lia. }
    match goal with |- post _ _ _ _ (Ok (GGArr ?r)) => assert (E : r = gcxs_from_coo y (map kpos kc)) end.
    { apply (pat_nd V c ca Hc Hca RW CL sh' gsrc y Hy_can Hy_sh Hy_fill Hy_ent sh'_ok (ckey sh' (map kpos kc))
               (BR2_nd _ Hkey_M) (BR3_nd _ Hkey_M) (map kpos kc) Hl2 Hca' (fun j => eq_refl)).
      - unfold row_size. rewrite map_map. rewrite RW_len, <- size_kc. f_equal. apply map_ext_in. intros a Ha.
        unfold sh'. apply (znth_index_of L a K 0 (kc_K a Ha)).
      - unfold col_size, reordered_shape.
        assert (EO : axis_order (Z.of_nat (length sh')) (map kpos kc) = map kpos (kc ++ kr)).
        { unfold sh'. rewrite map_length. pose proof (order_in_sublist K (fun a => mem_z a ca) K_NoDup) as EO. cbv zeta in EO.
          rewrite K_split_c, K_split_r in EO. exact EO. }
        rewrite EO, map_app, map_app. rewrite <- (map_length (fun a => znth sh' a 0) (map kpos kc)) at 1. rewrite skipn_app_exact.
        rewrite map_map, CL_len, <- size_kr. f_equal. apply map_ext_in. intros a Ha.
        unfold sh'. apply (znth_index_of L a K 0 (kr_K a Ha)). }
    rewrite E. apply (post_from_coo V veqb add c y sh' gsrc _ Hy' sh'_ok). right. exact Hca'.
  Qed.

  Lemma filter_neg_nil {A} (p : A -> bool) l : filter (fun a => negb (p a)) l = [] -> filter p l = l.
  Proof.
    induction l as [|a r IH]; [reflexivity|]. cbn [filter]. destruct (p a); cbn [negb]; [intros H; f_equal; apply IH; exact H|discriminate].
  Qed.

  Lemma filter_pos_nil {A} (p : A -> bool) l : filter p l = [] -> filter (fun a => negb (p a)) l = l.
  Proof.
    induction l as [|a r IH]; [reflexivity|]. cbn [filter]. destruct (p a); cbn [negb]; [discriminate|intros H; f_equal; apply IH; exact H].
  Qed.

  Lemma length1 {A} (l : list A) : length l = 1%nat -> exists x, l = [x].
  Proof. destruct l as [|x [|? ?]]; try discriminate. intros _. exists x. reflexivity. Qed.

  Lemma ravel_1d l j : ravel [l] j = hd 0 j.
  Proof. destruct j as [|q t]; [reflexivity|]. cbn [ravel hd]. unfold size. simpl. destruct t; lia. Qed.

  Lemma Hkey_K (key' : Shape.idx -> Z) : kc ++ kr = K -> (forall j, length j = length sh' -> key' j = ravel sh' j) ->
    forall D, (forall a, In a axes -> 0 <= D a < L a) -> key' (map D K) = rav L D (filter kept (ca ++ rest)).
  Proof.
    intros HK Hk D _. rewrite kept_ord, HK. rewrite Hk by (unfold sh'; rewrite !map_length; reflexivity). reflexivity.
  Qed.

  (* a 1-d or an n-d result with compressed axis 0, from the sorted key list of the selected elements *)
  Lemma finish_0 (fst_list : list Z) ps' :
    kc ++ kr = K ->
    map fst (Lout V c ca RW CL) = fst_list ->
    ps' = flat_map (rowsel (map fst (gsorted V c ca)) (col_size sh ca) CL) RW ->
    ((length sh' = 1)%nat -> forall ca', mkGCXS sh' [] (map snd (Lout V c ca RW CL)) fst_list [] (c_fill c) = gcxs_from_coo y ca') ->
    post V c sh' gsrc
      (Ok (GGArr (if (length sh' =? 1)%nat
                  then mkGCXS sh' [] (map (fun p : nat * nat => nth (fst p) (map snd (gsorted V c ca)) (c_fill c)) ps') fst_list [] (c_fill c)
                  else mkGCXS sh' [0] (map (fun p : nat * nat => nth (fst p) (map snd (gsorted V c ca)) (c_fill c)) ps')
                              (map (fun u => u mod sz) fst_list)
                              (indptr_of (map (fun u => u / sz) fst_list) (hd 0 sh')) (c_fill c)))).
  Proof.
    intros HK Hfst Hps H1d. subst ps'. rewrite <- (Lo_snd V c ca RW CL).
    pose proof Hy' as [Hy_sh [Hy_fill [Hy_can [Hy_den Hy_ent]]]].
    destruct (Nat.eqb_spec (length sh') 1) as [E1|E1].
    - rewrite (H1d E1 [0]). apply (post_from_coo V veqb add c y sh' gsrc _ Hy' sh'_ok). left. lia.
    - assert (Hl2 : (2 <= length sh')%nat).
      { pose proof K_nonempty. unfold sh' in *. rewrite map_length in *. destruct K as [|? [|? ?]]; simpl in *; try congruence; lia. }
      assert (Hk0 : forall D, (forall a, In a axes -> 0 <= D a < L a) -> ckey sh' [0] (map D K) = rav L D (filter kept (ca ++ rest))).
      { apply (Hkey_K (ckey sh' [0]) HK). intros j Hj. apply ckey_0; [lia|exact Hj]. }
      pose proof (resplit_gen V c ca Hc Hca RW CL sh' gsrc y Hy_can Hy_sh Hy_fill Hy_ent sh'_ok (ckey sh' [0])
                    (BR2_nd _ Hk0) (BR3_nd _ Hk0) Hl2 [0] (caxes0_ok sh' Hl2) (fun j => eq_refl)) as E.
      rewrite (col_size_0 sh' Hl2), (row_size_0 sh' Hl2), Hfst in E. unfold sz. rewrite E.
      apply (post_from_coo V veqb add c y sh' gsrc _ Hy' sh'_ok). right. apply caxes0_ok. exact Hl2.
  Qed.

  Lemma branch_C : kc <> [] -> kr = [] -> post V c sh' gsrc (gcxs_getitem_nd V g ix).
  Proof.
    intros H1 H2. rewrite (formula_C g ix g_shape_eq g_caxes_eq Hn Haf H1 H2).
    rewrite (tail_eval V c ca Hc Hok Hca Hnd RW CL pos HRW_nd HCL_nd Hpos_nd) by reflexivity.
    unfold dat'. rewrite g_data_eq, g_fill_eq.
    assert (HK : kc ++ kr = K).
    { rewrite H2, app_nil_r. rewrite <- K_split_c. apply filter_neg_nil. rewrite K_split_r. exact H2. }
    assert (HCL1 : length CL = 1%nat).
    { pose proof CL_len as Hl. rewrite <- size_kr in Hl. fold kr in H2. rewrite H2 in Hl. change (size (map L [])) with 1 in Hl. lia. }
    destruct (length1 CL HCL1) as [x Hx].
    pose proof Hy' as [Hy_sh [Hy_fill [Hy_can [Hy_den Hy_ent]]]].
    apply (finish_0 _ _ HK (Lo_fst_rows V c ca RW CL x Hx) eq_refl).
    intros E1 ca'. destruct (length1 sh' E1) as [l Hl].
    assert (Hk1 : forall D, (forall a, In a axes -> 0 <= D a < L a) -> ravel sh' (map D K) = rav L D (filter kept (ca ++ rest)))
      by (apply (Hkey_K (ravel sh') HK); reflexivity).
    rewrite (Lo_snd V c ca RW CL).
    pose proof (pat_rows V veqb add c ca Hc Hca RW CL sh' gsrc y Hy_can Hy_sh Hy_fill Hy_ent (ravel sh')
                  (BR2_nd _ Hk1) (BR3_nd _ Hk1) l x ca' Hl (fun j => eq_trans (f_equal (fun s => ravel s j) Hl) (ravel_1d l j)) Hx) as E.
    rewrite Hl. exact E.
  Qed.

  Lemma branch_U : kc = [] -> kr <> [] -> post V c sh' gsrc (gcxs_getitem_nd V g ix).
  Proof.
    intros H1 H2. rewrite (formula_U g ix g_shape_eq g_caxes_eq Hn Haf H1 H2).
    assert (HRW1 : length RW = 1%nat).
    { pose proof RW_len as Hl. rewrite <- size_kc in Hl. fold kc in H1. rewrite H1 in Hl. change (size (map L [])) with 1 in Hl. lia. }
    rewrite (tail_eval V c ca Hc Hok Hca Hnd RW CL pos HRW_nd HCL_nd Hpos_nd) by (cbv beta; rewrite HRW1; reflexivity).
    unfold dat', ind'. rewrite g_data_eq, g_fill_eq.
    assert (HK : kc ++ kr = K).
    { rewrite H1. cbn [app]. rewrite <- K_split_r. apply filter_pos_nil. rewrite K_split_c. exact H1. }
    destruct (length1 RW HRW1) as [r Hr].
    pose proof Hy' as [Hy_sh [Hy_fill [Hy_can [Hy_den Hy_ent]]]].
    apply (finish_0 _ _ HK (Lo_fst_cols V c ca RW CL r Hr) eq_refl).
    intros E1 ca'. destruct (length1 sh' E1) as [l Hl].
    assert (Hk1 : forall D, (forall a, In a axes -> 0 <= D a < L a) -> ravel sh' (map D K) = rav L D (filter kept (ca ++ rest)))
      by (apply (Hkey_K (ravel sh') HK); reflexivity).
    rewrite (Lo_snd V c ca RW CL).
    pose proof (pat_cols V veqb add c ca Hc Hca RW CL sh' gsrc y Hy_can Hy_sh Hy_fill Hy_ent (ravel sh')
                  (BR2_nd _ Hk1) (BR3_nd _ Hk1) l r ca' Hl (fun j => eq_trans (f_equal (fun s => ravel s j) Hl) (ravel_1d l j)) Hr) as E.
    rewrite Hl. exact E.
  Qed.

  Lemma nd_array_case : post V c (out_shape (map to_r nix)) gsrc (gcxs_getitem_nd V g ix).
  Proof.
    rewrite out_shape_nix.
    destruct kc as [|a0 l0] eqn:Ekc, kr as [|a1 l1] eqn:Ekr.
    - exfalso. apply K_nonempty. pose proof K_length as Hl. rewrite Ekc, Ekr in Hl. destruct K; [reflexivity|simpl in Hl; lia].
    - apply branch_U; [exact Ekc|rewrite Ekr; discriminate].
    - apply branch_C; [rewrite Ekc; discriminate|exact Ekr].
    - apply branch_M; [rewrite Ekc; discriminate|rewrite Ekr; discriminate].
  Qed.
  End Branches.

End Nd.

(* ================================================================ all-integer indices *)
Lemma all_int_facts : forall nix sh, forallb is_nint nix = true -> nwf nix sh ->
  flat_map key_vals nix = src_of (map to_r nix) [] /\ in_range sh (flat_map key_vals nix) /\ out_shape (map to_r nix) = [].
Proof.
  induction nix as [|e r IH]; intros sh Hi Hwf.
  - simpl in Hwf. subst sh. repeat split.
  - simpl in Hi. apply andb_true_iff in Hi. destruct Hi as [He Hi]. destruct e as [i| | |]; try discriminate.
    destruct sh as [|d sh0]; [destruct Hwf|]. destruct Hwf as [Hd Hwf]. destruct (IH sh0 Hi Hwf) as [E1 [E2 E3]].
    cbn [flat_map key_vals map to_r app]. unfold src_of, out_shape in *. cbn [src_aux out_shape_aux]. rewrite <- E1.
    repeat split; [lia|lia|exact E2|exact E3].
Qed.

Lemma out_shape_aux_ok rs : forall seen, shape_ok (out_shape_aux seen rs).
Proof.
  unfold shape_ok. induction rs as [|r rs IH]; intros seen; [constructor|].
  destruct r; cbn [out_shape_aux]; try apply IH; try (constructor; [lia|apply IH]).
  destruct seen; [apply IH|constructor; [lia|apply IH]].
Qed.

Lemma np_index_shape_ok sh ix sh' gsrc : np_index sh ix = Ok (sh', gsrc) -> shape_ok sh'.
Proof.
  rewrite np_index_eq. destruct (resolve_all sh ix) as [rs|]; [|discriminate]. cbn [bind].
  destruct (broadcast rs) as [rs'|]; [|discriminate]. cbn [bind]. intros H. inversion H. apply out_shape_aux_ok.
Qed.

From Verif Require Import ConvertP.

Section NdMain.
  Variable V : Type.
  Variable veqb : V -> V -> bool.
  Variable add : V -> V -> V.

  (* from the COO theorem to the GCXS theorem, for a normalised index without None and with at most one array *)
  Lemma nd_core (kf : nat -> nat) (c : coo V) (ca : list Z) (ix : index) (nix : list nentry) :
    canonical V c -> shape_ok (c_shape c) -> caxes_okb (Z.of_nat (length (c_shape c))) ca = true ->
    StronglySorted Z.lt ca -> (2 <= length (c_shape c))%nat ->
    normalize_index ix (c_shape c) = Ok nix -> nwf nix (c_shape c) -> forallb not_none nix = true -> (n_arr nix <= 1)%nat ->
    match getitem kf c ix with
    | Ok (GArr y) => yfacts V c y (out_shape (map to_r nix)) (src_of (map to_r nix))
    | Ok (GScalar v) => out_shape (map to_r nix) = [] /\ v = den c (src_of (map to_r nix) [])
    | Raise _ => False
    end ->
    post' V c (out_shape (map to_r nix)) (src_of (map to_r nix)) (gcxs_getitem_nd V (gcxs_from_coo c ca) ix).
  Proof.
    intros Hc Hok Hca Hsorted Hnd Hn Hwf Hno Hna HC. set (sh := c_shape c) in *.
    assert (Hshb : shape_okb sh = true) by (apply forallb_forall; intros d Hd; unfold shape_ok in Hok; rewrite Forall_forall in Hok; apply Z.leb_le, Hok, Hd).
    pose proof (from_coo_nf V c ca Hok Hca Hnd) as Hg.
    assert (Hgs : g_shape (gcxs_from_coo c ca) = sh) by (rewrite Hg; reflexivity).
    destruct (all_full nix sh) eqn:Haf.
    - (* the array itself *)
      assert (Eg : gcxs_getitem_nd V (gcxs_from_coo c ca) ix = Ok (GGArr (gcxs_from_coo c ca))).
      { unfold gcxs_getitem_nd. rewrite Hgs. rewrite Hn. cbn [bind]. rewrite Haf. reflexivity. }
      rewrite Eg. destruct (all_full_true nix sh Haf) as [El Ef].
      destruct (all_full_id nix sh Hshb Ef El) as [H1 H2]. rewrite H1.
      assert (Hax : axes_ok (c_shape c) ca) by (right; exact Hca).
      split; [exact Hgs|]. split; [rewrite Hg; reflexivity|]. split.
      + apply (gcxs_from_coo_wf_proof V veqb add c ca Hc Hok Hax).
      + intros j Hj. rewrite (H2 j Hj). apply (gcxs_from_coo_den_proof V veqb add c ca j Hc Hok Hax).
    - destruct (forallb is_nint nix) eqn:Hint.
      + (* every entry an integer: the element *)
        destruct (all_int_facts nix sh Hint Hwf) as [E1 [E2 E3]].
        assert (Eg : gcxs_getitem_nd V (gcxs_from_coo c ca) ix = Ok (GGScalar (den c (src_of (map to_r nix) [])))).
        { unfold gcxs_getitem_nd. rewrite Hgs. rewrite Hn. cbn [bind]. rewrite Haf, Hint. f_equal. f_equal.
          rewrite <- E1. rewrite Hg. cbn [g_data g_indices g_indptr g_fill g_caxes].
          apply (single_element_den V c ca Hc Hok Hca (flat_map key_vals nix) E2). }
        rewrite Eg. split; [exact E3|reflexivity].
      + apply (post_post' V veqb add).
        destruct (getitem kf c ix) as [[v|y]|e].
        * exfalso. destruct HC as [HC _].
          assert (Ho : out_shape (map to_r nix) = sh' V c nix) by (eapply out_shape_nix; eassumption).
          rewrite HC in Ho. symmetry in Ho. apply map_eq_nil in Ho.
          eapply K_nonempty; [..|exact Ho]; eassumption.
        * eapply nd_array_case; eassumption.
        * destruct HC.
  Qed.

  Lemma existsb_nnone key : existsb is_nnone key = negb (forallb not_none key).
  Proof. induction key as [|e r IH]; [reflexivity|]. cbn [existsb forallb]. rewrite IH. unfold not_none. destruct (is_nnone e); reflexivity. Qed.

  (* ndim >= 2: a key with None takes the COO route, every other key the n-d code *)
  Lemma getitem_dispatch (kf : nat -> nat) (c : coo V) (ca : list Z) ix :
    shape_ok (c_shape c) -> caxes_okb (Z.of_nat (length (c_shape c))) ca = true -> (2 <= length (c_shape c))%nat ->
    gcxs_getitem V veqb add kf (gcxs_from_coo c ca) ix
    = (key <- normalize_index ix (c_shape c) ;;
       if existsb is_nnone key then coo_route V veqb add kf (gcxs_from_coo c ca) ix else gcxs_getitem_nd V (gcxs_from_coo c ca) ix)
    /\ g_shape (gcxs_from_coo c ca) = c_shape c.
  Proof.
    intros Hok Hca Hnd. pose proof (from_coo_nf V c ca Hok Hca Hnd) as Hg.
    assert (Hgs : g_shape (gcxs_from_coo c ca) = c_shape c) by (rewrite Hg; reflexivity). split; [|exact Hgs].
    unfold gcxs_getitem. rewrite Hgs. destruct (c_shape c) as [|d0 [|d1 t]]; simpl in Hnd; try lia. reflexivity.
  Qed.

  (* the COO route: GCXS.from_coo(x.tocoo()[key]) with the default compressed axes *)
  Lemma coo_route_post (kf : nat -> nat) (c : coo V) (ca : list Z) ix sh' gsrc :
    canonical V c -> shape_ok (c_shape c) -> axes_ok (c_shape c) ca -> shape_ok sh' ->
    match getitem kf c ix with
    | Ok (GArr y) => yfacts V c y sh' gsrc
    | Ok (GScalar v) => sh' = [] /\ v = den c (gsrc [])
    | Raise _ => False
    end ->
    post' V c sh' gsrc (coo_route V veqb add kf (gcxs_from_coo c ca) ix).
  Proof.
    intros Hc Hok Hax Hok' HC. unfold coo_route. rewrite (tocoo_from_coo_proof V veqb add c ca Hc Hok Hax).
    destruct (getitem kf c ix) as [[v|y]|e]; cbn [bind]; [exact HC| |exact HC].
    destruct (resolve_axes (c_shape y) None) as [ca'|] eqn:Era.
    2: { unfold resolve_axes in Era. destruct (Z.of_nat (length (c_shape y)) <? 2); discriminate. }
    cbn [bind]. apply (post_post' V veqb add). apply (post_from_coo V veqb add c y sh' gsrc ca' HC Hok').
    destruct HC as [Hy_sh _]. rewrite <- Hy_sh. apply (resolve_axes_ok _ _ _ Era).
  Qed.

  Lemma shape_ok_okb sh : shape_ok sh -> shape_okb sh = true.
  Proof. intros Hok. apply forallb_forall. intros d Hd. unfold shape_ok in Hok. rewrite Forall_forall in Hok. apply Z.leb_le, Hok, Hd. Qed.

  (* ---------------------------------------------------------------- every covered index class, None included *)
  Definition gcxs_ix_class (sh : shape) (ix : index) : Prop :=
    basic ix = true \/ (one_array ix = true /\ d29_clause sh ix = true).
  Theorem gcxs_getitem_nd_general_proof (kf : nat -> nat) (c : coo V) (ca : list Z) (ix : index) :
    canonical V c -> shape_ok (c_shape c) -> caxes_okb (Z.of_nat (length (c_shape c))) ca = true ->
    StronglySorted Z.lt ca -> (2 <= length (c_shape c))%nat ->
    no_zero_step ix = true -> gcxs_ix_class (c_shape c) ix ->
    match np_index (c_shape c) ix with
    | Raise e => gcxs_getitem V veqb add kf (gcxs_from_coo c ca) ix = Raise e /\ e = IndexError
    | Ok (sh', gsrc) => post' V c sh' gsrc (gcxs_getitem V veqb add kf (gcxs_from_coo c ca) ix)
    end.
  Proof.
    intros Hc Hok Hca Hsorted Hnd Hz Hcls. set (sh := c_shape c) in *.
    pose proof (shape_ok_okb sh Hok) as Hshb.
    destruct (getitem_dispatch kf c ca ix Hok Hca Hnd) as [Hgi Hgs]. rewrite Hgi. clear Hgi. fold sh.
    assert (Hd : d29_clause sh ix = true).
    { destruct Hcls as [Hb|[_ Hd]]; [|exact Hd]. unfold d29_clause. destruct (expand (Z.of_nat (length sh)) ix) as [ex|] eqn:E; [|reflexivity].
      apply basic_bool_ok. eapply basic_expand; eauto. }
    assert (HC : match np_index sh ix with
                 | Ok (sh', g0) =>
                   match getitem kf c ix with
                   | Ok (GScalar v) => sh' = [] /\ v = den c (g0 [])
                   | Ok (GArr y) => yfacts V c y sh' g0
                   | Raise _ => False
                   end
                 | Raise e => getitem kf c ix = Raise e /\ e = IndexError
                 end).
    { destruct Hcls as [Hb|[Hone _]].
      - exact (coo_getitem_basic_strong V kf c ix Hc Hshb Hz Hb).
      - exact (coo_getitem_one_array_strong V kf c ix Hc Hshb Hz Hone Hd). }
    destruct (normalize_link sh ix Hshb Hz Hd) as [[ex [E [Hf [Hao [Hn Hr]]]]]|[Hn Hr]].
    2: { rewrite np_index_eq, Hr. cbn [bind]. rewrite Hn. auto. }
    set (key := norm_all ex sh) in *.
    assert (Hzx : no_zero_step ex = true) by (eapply expand_nzs; eauto).
    assert (Hwfk : nwf key sh) by (apply norm_all_nwf; auto).
    assert (HnaK : (n_arr key <= 1)%nat /\ np_index sh ix = Ok (out_shape (map to_r key), src_of (map to_r key))).
    { destruct Hcls as [Hb|[Hone _]].
      - assert (Hna : no_arr key = true) by (apply basic_norm_no_arr; eapply basic_expand; eauto).
        split; [rewrite (no_arr_n_arr key Hna); apply Nat.le_0_l|apply (np_index_basic sh ix key Hr Hna)].
      - assert (Hn1 : n_arr key = 1%nat).
        { pose proof (n_arr_norm ex sh Hf) as H. fold key in H. rewrite (expand_count_arr _ _ _ E) in H.
          unfold one_array in Hone. apply Z.eqb_eq in Hone. clear - H Hone. lia. }
        split; [rewrite Hn1; apply le_n|]. destruct (one_arr_split key Hn1) as [pre [l [post [Ekey [Hpre Hpost]]]]].
        rewrite np_index_eq, Hr. cbn [bind]. rewrite Ekey, (broadcast_one pre l post Hpre Hpost). reflexivity. }
    destruct HnaK as [HnaK Enp]. rewrite Enp in *.
    rewrite Hn. cbn [bind]. rewrite existsb_nnone.
    destruct (forallb not_none key) eqn:Hnn; cbn [negb].
    - (* no None: the n-d code *)
      apply (nd_core kf c ca ix key Hc Hok Hca Hsorted Hnd Hn Hwfk Hnn HnaK).
      destruct (getitem kf c ix) as [[v|y]|e]; exact HC.
    - (* None: the COO route *)
      apply (coo_route_post kf c ca ix _ _ Hc Hok ltac:(right; exact Hca) (out_shape_aux_ok _ false)).
      destruct (getitem kf c ix) as [[v|y]|e]; exact HC.
  Qed.
End NdMain.

(* ================================================================ the same, for ANY well-formed GCXS array with ndim >= 2
   (every well-formed GCXS is GCXS.from_coo of its COO form: agent-c05's ConvertU.gcxs_image) *)
From Verif Require Import ConvertU.

Section NdAny.
  Variable V : Type.
  Variable veqb : V -> V -> bool.
  Variable add : V -> V -> V.

  Theorem gcxs_getitem_any_proof (kf : nat -> nat) (g : gcxs V) ix :
    gcxs_wfb g = true -> (2 <= length (g_shape g))%nat -> StronglySorted Z.lt (g_caxes g) ->
    no_zero_step ix = true -> gcxs_ix_class (g_shape g) ix ->
    match np_index (g_shape g) ix with
    | Raise e => gcxs_getitem V veqb add kf g ix = Raise e /\ e = IndexError
    | Ok (sh', gsrc) =>
      match gcxs_getitem V veqb add kf g ix with
      | Ok (GGArr g') => g_shape g' = sh' /\ g_fill g' = g_fill g /\ gcxs_wfb g' = true
                         /\ forall j, in_range sh' j -> gden g' j = gden g (gsrc j)
      | Ok (GGScalar v) => sh' = [] /\ v = gden g (gsrc [])
      | Raise _ => False
      end
    end.
  Proof.
    intros Hwf Hnd Hsorted Hz Hb.
    assert (Hs : gcxs_strictb V g = true).
    { unfold gcxs_strictb. rewrite Hwf. destruct (Nat.leb_spec 2 (length (g_shape g))); [reflexivity|lia]. }
    destruct (gcxs_image V g Hs) as [c [Hc [Hcs [Hf [Hok [Hax Heq]]]]]].
    assert (Hca : caxes_okb (Z.of_nat (length (c_shape c))) (g_caxes g) = true).
    { rewrite Hcs. destruct Hax as [Hl|Hax]; [lia|exact Hax]. }
    assert (Hden : forall j, gden g j = den c j).
    { intros j. rewrite <- Heq. apply (gcxs_from_coo_den_proof V veqb add c (g_caxes g) j Hc); rewrite Hcs; assumption. }
    pose proof (gcxs_getitem_nd_general_proof V veqb add kf c (g_caxes g) ix Hc ltac:(rewrite Hcs; exact Hok) Hca Hsorted
                  ltac:(rewrite Hcs; exact Hnd) Hz ltac:(rewrite Hcs; exact Hb)) as H.
    rewrite Heq, Hcs in H.
    destruct (np_index (g_shape g) ix) as [[sh' gsrc]|e]; [|exact H].
    unfold post' in H. destruct (gcxs_getitem V veqb add kf g ix) as [[v|g']|e]; [| |exact H].
    - rewrite Hden. exact H.
    - destruct H as [H1 [H2 [H3 H4]]]. split; [exact H1|]. split; [rewrite H2; exact Hf|]. split; [exact H3|].
      intros j Hj. rewrite Hden. apply H4. exact Hj.
  Qed.

  (* the two halves under the names of the property list *)
  Theorem gcxs_getitem_den_proof (kf : nat -> nat) (g : gcxs V) ix :
    gcxs_wfb g = true -> (2 <= length (g_shape g))%nat -> StronglySorted Z.lt (g_caxes g) ->
    no_zero_step ix = true -> gcxs_ix_class (g_shape g) ix ->
    match np_index (g_shape g) ix with
    | Raise e => gcxs_getitem V veqb add kf g ix = Raise e /\ e = IndexError
    | Ok (sh', gsrc) =>
      match gcxs_getitem V veqb add kf g ix with
      | Ok (GGArr g') => g_shape g' = sh' /\ g_fill g' = g_fill g
                         /\ forall j, in_range sh' j -> gden g' j = gden g (gsrc j)
      | Ok (GGScalar v) => sh' = [] /\ v = gden g (gsrc [])
      | Raise _ => False
      end
    end.
  Proof.
    intros Hwf Hnd Hsorted Hz Hb.
    pose proof (gcxs_getitem_any_proof kf g ix Hwf Hnd Hsorted Hz Hb) as H.
    destruct (np_index (g_shape g) ix) as [[sh' gsrc]|e]; [|exact H].
    destruct (gcxs_getitem V veqb add kf g ix) as [[v|g']|e]; [exact H| |exact H]. tauto.
  Qed.

  Theorem gcxs_getitem_wf_proof (kf : nat -> nat) (g : gcxs V) ix g' :
    gcxs_wfb g = true -> (2 <= length (g_shape g))%nat -> StronglySorted Z.lt (g_caxes g) ->
    no_zero_step ix = true -> gcxs_ix_class (g_shape g) ix ->
    gcxs_getitem V veqb add kf g ix = Ok (GGArr g') -> gcxs_wfb g' = true.
  Proof.
    intros Hwf Hnd Hsorted Hz Hb Hg.
    pose proof (gcxs_getitem_any_proof kf g ix Hwf Hnd Hsorted Hz Hb) as H. rewrite Hg in H.
    destruct (np_index (g_shape g) ix) as [[sh' gsrc]|e]; [tauto|destruct H; discriminate].
  Qed.
End NdAny.

(* not vacuous: a 3-d array, compressed axes (0, 2); mixed, compressed-only, uncompressed-only and scalar results *)
Definition nx_c : coo Z := mkCOO [2; 3; 2] [[0; 0; 1]; [0; 2; 0]; [1; 1; 1]; [1; 2; 0]] [7; 5; 9; 4] 0.
Example gcxs_getitem_nd_nonvacuous :
  let g := gcxs_from_coo nx_c [0; 2] in
  gcxs_wfb g = true /\ StronglySorted Z.lt (g_caxes g)
  /\ (exists r, rx_get g [ISlice None None (Some (-1)); ISlice (Some 1) None None] = Ok (GGArr r) /\ g_shape r = [2; 2; 2] /\ g_caxes r = [0; 2])
  /\ (exists r, rx_get g [IEllipsis; IInt 2; IInt 0] = Ok (GGArr r) /\ g_shape r = [2] /\ gden r [0] = 5 /\ gden r [1] = 4)
  /\ (exists r, rx_get g [IInt 1; ISlice None None None; IInt 1] = Ok (GGArr r) /\ g_shape r = [3] /\ gden r [1] = 9)
  /\ (exists r, rx_get g [ISlice None None None; IInt 2] = Ok (GGArr r) /\ g_shape r = [2; 2] /\ g_caxes r = [0] /\ gden r [1; 0] = 4)
  /\ rx_get g [IInt 1; IInt 1; IInt 1] = Ok (GGScalar 9).
Proof.
  cbv zeta. split; [reflexivity|]. split; [vm_compute; repeat constructor|].
  split; [eexists; split; [vm_compute; reflexivity|split; reflexivity]|].
  split; [eexists; split; [vm_compute; reflexivity|repeat split; reflexivity]|].
  split; [eexists; split; [vm_compute; reflexivity|repeat split; reflexivity]|].
  split; [eexists; split; [vm_compute; reflexivity|repeat split; reflexivity]|].
  reflexivity.
Qed.

(* None and one index array: the hypotheses of the general theorem are met by non-trivial cases *)
Example gcxs_getitem_none_array_nonvacuous :
  let g := gcxs_from_coo nx_c [0; 2] in
  let full := ISlice None None None in
  (let ix := [INone; full; full; IInt 0] in
   gcxs_ix_class (g_shape g) ix
   /\ exists r, rx_get g ix = Ok (GGArr r) /\ gcxs_wfb r = true /\ g_shape r = [1; 2; 3] /\ gden r [0; 1; 2] = 4)
  /\
  (let ix := [full; INone; ISlice (Some 1) None None; INone] in
   gcxs_ix_class (g_shape g) ix
   /\ exists r, rx_get g ix = Ok (GGArr r) /\ gcxs_wfb r = true /\ g_shape r = [2; 1; 2; 1; 2] /\ gden r [1; 0; 0; 0; 1] = 9)
  /\
  (let ix := [IArr [1; 0; 1]; full; IInt 1] in
   gcxs_ix_class (g_shape g) ix
   /\ exists r, rx_get g ix = Ok (GGArr r) /\ gcxs_wfb r = true /\ g_shape r = [3; 3] /\ gden r [2; 1] = 9 /\ gden r [1; 0] = 7)
  /\
  (let ix := [INone; IBArr [true; false]; ISlice None None (Some (-1))] in
   gcxs_ix_class (g_shape g) ix
   /\ exists r, rx_get g ix = Ok (GGArr r) /\ gcxs_wfb r = true /\ g_shape r = [1; 1; 3; 2] /\ gden r [0; 0; 0; 0] = 5).
Proof.
  cbv zeta. repeat split; try (left; reflexivity); try (right; split; reflexivity);
    try (eexists; split; [vm_compute; reflexivity|repeat split; reflexivity]).
Qed.

(* ================================================================ ndim <= 1: x.tocoo()[key], back through GCXS.from_coo *)

Section Gcxs1d.
  Variable V : Type.
  Variable veqb : V -> V -> bool.
  Variable add : V -> V -> V.

  (* whatever the COO theorems say about x.tocoo()[key] carries over (0-d and 1-d arrays) *)
  Theorem gcxs_getitem_1d_proof (kf : nat -> nat) (g : gcxs V) (ix : index) :
    gcxs_wfb g = true -> (length (g_shape g) <= 1)%nat -> g_caxes g = [] -> g_indptr g = [] ->
    let c := gcxs_tocoo veqb add g in
    match np_index (g_shape g) ix with
    | Raise e => getitem kf c ix = Raise e
    | Ok (sh', gsrc) =>
      match getitem kf c ix with
      | Ok (GArr y) => c_shape y = sh' /\ c_fill y = c_fill c /\ canonical V y
                       /\ forall j, in_range sh' j -> den y j = den c (gsrc j)
      | Ok (GScalar v) => sh' = [] /\ v = den c (gsrc [])
      | Raise _ => False
      end
    end ->
    match np_index (g_shape g) ix with
    | Raise e => gcxs_getitem V veqb add kf g ix = Raise e
    | Ok (sh', gsrc) =>
      match gcxs_getitem V veqb add kf g ix with
      | Ok (GGArr g') => g_shape g' = sh' /\ g_fill g' = g_fill g /\ gcxs_wfb g' = true
                         /\ forall j, in_range sh' j -> gden g' j = gden g (gsrc j)
      | Ok (GGScalar v) => sh' = [] /\ v = gden g (gsrc [])
      | Raise _ => False
      end
    end.
  Proof.
    intros Hwf Hsh Hca Hip c HC.
    assert (Hs : gcxs_strictb V g = true).
    { unfold gcxs_strictb. rewrite Hwf, Hca, Hip. destruct (Nat.leb_spec 2 (length (g_shape g))); [lia|reflexivity]. }
    destruct (tocoo_canonical V veqb add g Hs) as [Hc [Hcs [Hcf Hden]]]. fold c in Hc, Hcs, Hcf, Hden.
    assert (Hgi : gcxs_getitem V veqb add kf g ix = coo_route V veqb add kf g ix).
    { unfold gcxs_getitem. destruct (g_shape g) as [|d0 [|d1 t]]; [reflexivity|reflexivity|simpl in Hsh; lia]. }
    rewrite Hgi. unfold coo_route. fold c.
    destruct (np_index (g_shape g) ix) as [[sh' gsrc]|e] eqn:Enp; [|rewrite HC; reflexivity].
    pose proof (np_index_shape_ok _ _ _ _ Enp) as Hok'.
    destruct (getitem kf c ix) as [[v|y]|e]; cbn [bind]; [| |exact HC].
    - destruct HC as [H1 H2]. split; [exact H1|]. rewrite <- Hden. exact H2.
    - destruct HC as [Hy_sh [Hy_fill [Hy_can Hy_den]]].
      destruct (resolve_axes (c_shape y) None) as [ca'|] eqn:Era.
      2: { unfold resolve_axes in Era. destruct (Z.of_nat (length (c_shape y)) <? 2); discriminate. }
      cbn [bind]. pose proof (resolve_axes_ok _ _ _ Era) as Hax.
      assert (Hoky : shape_ok (c_shape y)) by (rewrite Hy_sh; exact Hok').
      split. { unfold gcxs_from_coo. rewrite Hy_sh. destruct sh' as [|a [|b t]]; reflexivity. }
      split. { rewrite <- Hcf, <- Hy_fill. unfold gcxs_from_coo. destruct (c_shape y) as [|a [|b t]]; reflexivity. }
      split; [apply (gcxs_from_coo_wf_proof V veqb add y ca' Hy_can Hoky Hax)|].
      intros j Hj. rewrite (gcxs_from_coo_den_proof V veqb add y ca' j Hy_can Hoky Hax). rewrite <- Hden. apply Hy_den. exact Hj.
  Qed.
End Gcxs1d.
