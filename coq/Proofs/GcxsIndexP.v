(* Proofs/GcxsIndexP.v — the GCXS selection kernels (Model/GcxsIndex.v) against the filter spec:
   for a row of strictly increasing column indices (gcxs_wf) and a strictly increasing list of requested
   columns, the linear two-pointer filter and the binary-search walk of get_slicing_selection, and
   get_array_selection (sorted rows suffice), all return exactly row_spec; no loop runs out of fuel and
   no unchecked read leaves its array. *)
From Coq Require Import ZArith List Bool Lia ZifyBool.
From Verif Require Import Py Shape CooIndex CooIndexMaskP GcxsIndex.
Import ListNotations.
Open Scope Z_scope.

Definition sincr (l : list Z) : Prop := forall p q, (p < q)%nat -> (q < length l)%nat -> nth p l 0 < nth q l 0.

Lemma sincr_mono l : sincr l -> mono l.
Proof.
  intros H p q Hpq Hq. destruct (Nat.eq_dec p q) as [->|Hne]; [lia|]. specialize (H p q ltac:(lia) Hq). lia.
Qed.

Lemma strictly_incr_sincr l : strictly_incr l = true -> sincr l.
Proof.
  induction l as [|a r IH]; intros H p q Hpq Hq; [simpl in Hq; lia|].
  simpl in H. destruct r as [|b r']; [simpl in Hq; lia|].
  apply andb_true_iff in H. destruct H as [Hab Hr]. specialize (IH Hr).
  destruct q as [|q]; [lia|]. destruct p as [|p].
  - (* a < nth q (b :: r') *)
    cbn [nth]. destruct q as [|q]; [simpl; lia|].
    assert (nth 0 (b :: r') 0 < nth (S q) (b :: r') 0) by (apply IH; simpl in *; lia). simpl in H. simpl. lia.
  - cbn [nth]. apply IH; simpl in *; lia.
Qed.

Lemma rd_ok l i : (i < length l)%nat -> rd l i = SOk (nth i l 0).
Proof.
  intros H. unfold rd. destruct (nth_error l i) as [v|] eqn:E.
  - rewrite (nth_error_nth l i 0 E); reflexivity.
  - apply nth_error_None in E. lia.
Qed.

Lemma rd_last_ok l : (0 < length l)%nat -> rd_last l = SOk (nth (length l - 1) l 0).
Proof. intros H. unfold rd_last. apply rd_ok. lia. Qed.

(* ---- find_pos: the first position of v *)
Lemma find_pos_some row : forall v k p,
  find_pos row v k = Some p ->
  (k <= p)%nat /\ (p - k < length row)%nat /\ nth (p - k) row 0 = v /\ forall j, (j < p - k)%nat -> nth j row 0 <> v.
Proof.
  induction row as [|x r IH]; intros v k p H; [discriminate|]. simpl in H.
  destruct (Z.eqb_spec x v) as [->|Hne].
  - inversion H; subst. rewrite Nat.sub_diag. simpl. split; [lia|]. split; [lia|]. split; [reflexivity|]. intros j Hj. lia.
  - apply IH in H. destruct H as [H1 [H2 [H3 H4]]]. replace (p - k)%nat with (S (p - S k)) by lia.
    simpl. split; [lia|]. split; [lia|]. split; [assumption|]. intros [|j] Hj; [assumption|]. apply H4. lia.
Qed.

Lemma find_pos_none row : forall v k, find_pos row v k = None -> forall j, (j < length row)%nat -> nth j row 0 <> v.
Proof.
  induction row as [|x r IH]; intros v k H j Hj; [simpl in Hj; lia|]. simpl in H.
  destruct (Z.eqb_spec x v) as [->|Hne]; [discriminate|]. destruct j as [|j]; [assumption|]. simpl. apply (IH v (S k) H). simpl in Hj. lia.
Qed.

Lemma find_pos_first row v p :
  (p < length row)%nat -> nth p row 0 = v -> (forall j, (j < p)%nat -> nth j row 0 <> v) -> find_pos row v 0 = Some p.
Proof.
  intros Hp Hv Hfirst. destruct (find_pos row v 0) as [q|] eqn:E.
  - apply find_pos_some in E. destruct E as [_ [H2 [H3 H4]]]. rewrite Nat.sub_0_r in *.
    destruct (Nat.lt_trichotomy p q) as [H|[->|H]]; [exfalso; apply (H4 p H Hv)|reflexivity|exfalso; apply (Hfirst q H H3)].
  - exfalso. apply (find_pos_none row v 0 E p Hp Hv).
Qed.

Lemma find_pos_absent row v : (forall j, (j < length row)%nat -> nth j row 0 <> v) -> find_pos row v 0 = None.
Proof.
  intros H. destruct (find_pos row v 0) as [q|] eqn:E; [|reflexivity].
  apply find_pos_some in E. destruct E as [_ [H2 [H3 _]]]. rewrite Nat.sub_0_r in *. exfalso. apply (H q H2 H3).
Qed.

(* ================================================================ get_array_selection: sorted rows suffice *)
Theorem array_row_spec row col start : mono row -> array_row row col start = SOk (row_spec row col start).
Proof.
  intros Hm. unfold array_row, row_spec. destruct row as [|x r] eqn:Er.
  - f_equal. induction (seq 0 (length col)) as [|c l IH]; [reflexivity|]. simpl. exact IH.
  - rewrite <- Er in *. f_equal. apply flat_map_ext. intros c. set (v := nth c col 0).
    destruct (searchsorted_left_spec row v Hm) as [Hn [Hlt Hge]]. set (s := searchsorted_left row v) in *.
    destruct (Nat.leb_spec (length row) s) as [Hs|Hs].
    + rewrite find_pos_absent; [reflexivity|]. intros j Hj. specialize (Hlt j ltac:(lia)). lia.
    + destruct (Z.eqb_spec (nth s row 0) v) as [E|E].
      * rewrite (find_pos_first row v s Hs E); [reflexivity|]. intros j Hj. specialize (Hlt j Hj). lia.
      * rewrite find_pos_absent; [reflexivity|]. intros j Hj Hv.
        destruct (Nat.lt_ge_cases j s) as [H|H]; [specialize (Hlt j H); lia|].
        specialize (Hge s ltac:(lia)). pose proof (Hm s j H Hj). lia.
Qed.

(* ================================================================ the linear two-pointer filter *)
(* what remains to be emitted from requested column cc on *)
Definition rest_spec (row col : list Z) (start cc : nat) : pairs :=
  flat_map (fun c => match find_pos row (nth c col 0) 0 with
                     | Some p => [((p + start)%nat, c)]
                     | None => []
                     end) (seq cc (length col - cc)).

Lemma flat_map_nil_all_lemma {A B} (f : A -> list B) l : (forall a, In a l -> f a = []) -> flat_map f l = [].
Proof. induction l as [|a l IH]; intros H; [reflexivity|]. simpl. rewrite H, IH; auto. intros; apply H; right; assumption. left; reflexivity. Qed.

Lemma rest_spec_nil row col start cc :
  (forall c, (cc <= c < length col)%nat -> forall j, (j < length row)%nat -> nth j row 0 <> nth c col 0) ->
  rest_spec row col start cc = [].
Proof.
  intros H. unfold rest_spec. apply flat_map_nil_all_lemma. intros c Hc. apply in_seq in Hc.
  rewrite find_pos_absent; [reflexivity|]. apply H. lia.
Qed.

Lemma rest_spec_step row col start cc :
  (cc < length col)%nat ->
  rest_spec row col start cc
  = (match find_pos row (nth cc col 0) 0 with Some p => [((p + start)%nat, cc)] | None => [] end)
    ++ rest_spec row col start (S cc).
Proof.
  intros H. unfold rest_spec. replace (length col - cc)%nat with (S (length col - S cc)) by lia. reflexivity.
Qed.

Section Row.
  Variables row col : list Z.
  Variable start : nat.
  Hypothesis Hrow : sincr row.
  Hypothesis Hcol : sincr col.

  Let row_le p q : (p <= q)%nat -> (q < length row)%nat -> nth p row 0 <= nth q row 0.
  Proof. apply (sincr_mono row Hrow). Qed.
  Let col_le p q : (p <= q)%nat -> (q < length col)%nat -> nth p col 0 <= nth q col 0.
  Proof. apply (sincr_mono col Hcol). Qed.

  (* nothing of the row below position count can equal a requested column from cc on *)
  Definition below (count cc : nat) : Prop :=
    (cc < length col)%nat -> forall p, (p < count)%nat -> (p < length row)%nat -> nth p row 0 < nth cc col 0.

  Lemma linear_loop_spec : forall fuel count cc acc,
    (count <= length row)%nat -> (cc <= length col)%nat ->
    ((length row - count) + (length col - cc) < fuel)%nat -> below count cc ->
    linear_loop fuel row col start count cc acc = SOk (acc ++ rest_spec row col start cc).
  Proof.
    induction fuel as [|f IH]; intros count cc acc Hc Hcc Hfuel Hbel; [lia|].
    cbn [linear_loop].
    destruct (Nat.ltb_spec cc (length col)) as [Hcc'|Hcc'].
    2: { cbn [andb]. unfold rest_spec. replace (length col - cc)%nat with 0%nat by lia. simpl. rewrite app_nil_r. reflexivity. }
    destruct (Nat.ltb_spec count (length row)) as [Hc'|Hc'].
    2: { cbn [andb]. rewrite rest_spec_nil, app_nil_r; [reflexivity|].
         intros c Hcr j Hj. specialize (Hbel Hcc' j ltac:(lia) Hj). pose proof (col_le cc c ltac:(lia) ltac:(lia)). lia. }
    cbn [andb]. rewrite rd_last_ok by lia. cbn [sbind]. rewrite (rd_ok col cc Hcc'). cbn [sbind].
    rewrite (rd_ok row count Hc'). cbn [sbind]. rewrite rd_last_ok by lia. cbn [sbind].
    set (rl := nth (length row - 1) row 0). set (cv := nth cc col 0). set (rv := nth count row 0).
    set (cl := nth (length col - 1) col 0).
    destruct (Z.ltb_spec rl cv) as [H1|H1].
    { cbn [orb]. rewrite rest_spec_nil, app_nil_r; [reflexivity|].
      intros c Hcr j Hj. pose proof (row_le j (length row - 1)%nat ltac:(lia) ltac:(lia)).
      pose proof (col_le cc c ltac:(lia) ltac:(lia)). fold rl in H. fold cv in H0. lia. }
    destruct (Z.ltb_spec cl rv) as [H2|H2].
    { cbn [orb]. rewrite rest_spec_nil, app_nil_r; [reflexivity|].
      intros c Hcr j Hj. pose proof (col_le c (length col - 1)%nat ltac:(lia) ltac:(lia)). fold cl in H.
      destruct (Nat.lt_ge_cases j count) as [Hjc|Hjc].
      - specialize (Hbel Hcc' j Hjc Hj). pose proof (col_le cc c ltac:(lia) ltac:(lia)). fold cv in H0. lia.
      - pose proof (row_le count j Hjc Hj). fold rv in H0. lia. }
    cbn [orb].
    destruct (Z.eqb_spec rv cv) as [E|E].
    - rewrite IH; try lia.
      + rewrite <- app_assoc. f_equal. rewrite (rest_spec_step row col start cc Hcc'). fold cv.
        rewrite (find_pos_first row cv count Hc' E); [reflexivity|].
        intros j Hj. specialize (Hbel Hcc' j Hj ltac:(lia)). fold cv in Hbel. lia.
      + intros Hs p Hp Hpr. pose proof (row_le p count ltac:(lia) Hc'). fold rv in H.
        pose proof (Hcol cc (S cc) ltac:(lia) Hs). fold cv in H0. lia.
    - destruct (Z.ltb_spec rv cv) as [H3|H3].
      + rewrite IH; try lia; [reflexivity|].
        intros _ p Hp Hpr. destruct (Nat.eq_dec p count) as [->|Hne]; [fold rv cv; lia|]. apply Hbel; lia.
      + rewrite IH; try lia.
        * f_equal. rewrite (rest_spec_step row col start cc Hcc'). fold cv.
          rewrite find_pos_absent; [reflexivity|]. intros j Hj Hv.
          destruct (Nat.lt_ge_cases j count) as [Hjc|Hjc].
          -- specialize (Hbel Hcc' j Hjc Hj). fold cv in Hbel. lia.
          -- pose proof (row_le count j Hjc Hj). fold rv in H. lia.
        * intros Hs p Hp Hpr. specialize (Hbel Hcc' p Hp Hpr). fold cv in Hbel.
          pose proof (Hcol cc (S cc) ltac:(lia) Hs). fold cv in H. lia.
  Qed.

  Lemma rest_spec_0 : rest_spec row col start 0 = row_spec row col start.
  Proof. unfold rest_spec, row_spec. rewrite Nat.sub_0_r. reflexivity. Qed.

  Theorem linear_row_spec : linear_row row col start = SOk (row_spec row col start).
  Proof.
    unfold linear_row. rewrite linear_loop_spec; try lia.
    - simpl. rewrite rest_spec_0. reflexivity.
    - intros _ p Hp. lia.
  Qed.
End Row.

(* ================================================================ the binary-search walk *)
Lemma rest_spec_skip row col start : forall k cc,
  (cc + k <= length col)%nat ->
  (forall c, (cc <= c < cc + k)%nat -> forall j, (j < length row)%nat -> nth j row 0 <> nth c col 0) ->
  rest_spec row col start cc = rest_spec row col start (cc + k).
Proof.
  induction k as [|k IH]; intros cc Hk Habs; [rewrite Nat.add_0_r; reflexivity|].
  rewrite rest_spec_step by lia. rewrite find_pos_absent by (apply Habs; lia). cbn [app].
  rewrite (IH (S cc)); [f_equal; lia|lia|]. intros c Hc. apply Habs. lia.
Qed.

Section RowBinary.
  Variables row col : list Z.
  Variable start : nat.
  Hypothesis Hrow : sincr row.
  Hypothesis Hcol : sincr col.
  Hypothesis Hne : (0 < length row)%nat.

  Let row_le p q : (p <= q)%nat -> (q < length row)%nat -> nth p row 0 <= nth q row 0.
  Proof. apply (sincr_mono row Hrow). Qed.
  Let col_le p q : (p <= q)%nat -> (q < length col)%nat -> nth p col 0 <= nth q col 0.
  Proof. apply (sincr_mono col Hcol). Qed.

  Lemma skip_loop_spec size : forall fuel cc,
    (cc <= length col)%nat -> (length col - cc < fuel)%nat ->
    exists cc1, skip_loop fuel row col size cc = SOk cc1 /\ (cc <= cc1 <= length col)%nat
      /\ (forall c, (cc <= c < cc1)%nat -> (size < length row)%nat /\ nth c col 0 < nth size row 0)
      /\ ((cc1 < length col)%nat -> (size < length row)%nat -> nth size row 0 <= nth cc1 col 0).
  Proof.
    induction fuel as [|f IH]; intros cc Hcc Hf; [lia|]. cbn [skip_loop].
    destruct (Nat.ltb_spec cc (length col)) as [H1|H1].
    2: { cbn [andb]. exists cc. split; [reflexivity|]. split; [lia|]. split; intros; lia. }
    destruct (Nat.ltb_spec size (length row)) as [H2|H2].
    2: { cbn [andb]. exists cc. split; [reflexivity|]. split; [lia|]. split; intros; lia. }
    cbn [andb]. rewrite (rd_ok col cc H1). cbn [sbind]. rewrite (rd_ok row size H2). cbn [sbind].
    destruct (Z.ltb_spec (nth cc col 0) (nth size row 0)) as [H3|H3].
    - destruct (IH (S cc) ltac:(lia) ltac:(lia)) as [cc1 [E [Hb [Hs Hx]]]].
      exists cc1. split; [exact E|]. split; [lia|]. split; [|exact Hx].
      intros c Hc. destruct (Nat.eq_dec c cc) as [->|Hn]; [auto|]. apply Hs. lia.
    - exists cc. split; [reflexivity|]. split; [lia|]. split; [intros; lia|]. intros _ _. exact H3.
  Qed.

  Definition below' (size cc : nat) : Prop :=
    (cc < length col)%nat -> forall p, (p < size)%nat -> (p < length row)%nat -> nth p row 0 < nth cc col 0.

  Lemma binary_loop_spec : forall fuel size cc acc,
    (size <= length row)%nat -> (cc <= length col)%nat -> (length col - cc < fuel)%nat -> below' size cc ->
    binary_loop fuel row col start size cc acc = SOk (acc ++ rest_spec row col start cc).
  Proof.
    induction fuel as [|f IH]; intros size cc acc Hs Hcc Hfuel Hbel; [lia|].
    cbn [binary_loop].
    destruct (Nat.ltb_spec cc (length col)) as [Hcc'|Hcc'].
    2: { unfold rest_spec. replace (length col - cc)%nat with 0%nat by lia. simpl. rewrite app_nil_r. reflexivity. }
    destruct (skip_loop_spec size (S (length col)) cc Hcc ltac:(lia)) as [cc1 [Esk [Hb1 [Hskip Hexit]]]].
    rewrite Esk. cbn [sbind].
    (* the skipped columns are absent from the row *)
    assert (Hrest : rest_spec row col start cc = rest_spec row col start cc1).
    { replace cc1 with (cc + (cc1 - cc))%nat by lia. apply rest_spec_skip; [lia|].
      intros c Hc j Hj Hv. destruct (Hskip c ltac:(lia)) as [Hsz Hlt].
      destruct (Nat.lt_ge_cases j size) as [Hjs|Hjs].
      - specialize (Hbel Hcc' j Hjs Hj). pose proof (col_le cc c ltac:(lia) ltac:(lia)). lia.
      - pose proof (row_le size j Hjs Hj). lia. }
    rewrite Hrest.
    assert (Hbel1 : below' size cc1).
    { intros Hc1 p Hp Hpr. specialize (Hbel Hcc' p Hp Hpr). pose proof (col_le cc cc1 ltac:(lia) Hc1). lia. }
    destruct (Nat.leb_spec (length col) cc1) as [Hc1|Hc1].
    { unfold rest_spec. replace (length col - cc1)%nat with 0%nat by lia. simpl. rewrite app_nil_r. reflexivity. }
    rewrite rd_last_ok by lia. cbn [sbind]. rewrite (rd_ok col cc1 Hc1). cbn [sbind].
    set (rl := nth (length row - 1) row 0). set (cv := nth cc1 col 0).
    destruct (Z.ltb_spec rl cv) as [H1|H1].
    { rewrite rest_spec_nil, app_nil_r; [reflexivity|].
      intros c Hcr j Hj. pose proof (row_le j (length row - 1)%nat ltac:(lia) ltac:(lia)). fold rl in H.
      pose proof (col_le cc1 c ltac:(lia) ltac:(lia)). fold cv in H0. lia. }
    assert (Hsz : (size < length row)%nat).
    { destruct (Nat.lt_ge_cases size (length row)) as [?|Hge]; [assumption|exfalso].
      specialize (Hbel1 Hc1 (length row - 1)%nat ltac:(lia) ltac:(lia)). fold rl cv in Hbel1. lia. }
    rewrite (rd_ok row size Hsz). cbn [sbind]. rewrite rd_last_ok by lia. cbn [sbind].
    set (rs := nth size row 0). set (cl := nth (length col - 1) col 0).
    destruct (Z.ltb_spec cl rs) as [H2|H2].
    { rewrite rest_spec_nil, app_nil_r; [reflexivity|].
      intros c Hcr j Hj. pose proof (col_le c (length col - 1)%nat ltac:(lia) ltac:(lia)). fold cl in H.
      destruct (Nat.lt_ge_cases j size) as [Hjs|Hjs].
      - specialize (Hbel1 Hc1 j Hjs Hj). pose proof (col_le cc1 c ltac:(lia) ltac:(lia)). fold cv in Hbel1, H0. lia.
      - pose proof (row_le size j Hjs Hj). fold rs in H0. lia. }
    (* the search in row[size:] *)
    assert (Hmono : mono (skipn size row)).
    { intros p q Hpq Hq. rewrite skipn_length in Hq. rewrite !nth_skipn_add. apply row_le; lia. }
    destruct (searchsorted_left_spec (skipn size row) cv Hmono) as [Hn [Hlt Hge]].
    set (n' := searchsorted_left (skipn size row) cv) in *. rewrite skipn_length in Hn, Hge.
    assert (Hlt' : forall j, (size <= j < size + n')%nat -> nth j row 0 < cv).
    { intros j Hj. specialize (Hlt (j - size)%nat ltac:(lia)). rewrite nth_skipn_add in Hlt.
      replace (size + (j - size))%nat with j in Hlt by lia. exact Hlt. }
    assert (Hge' : forall j, (size + n' <= j < length row)%nat -> cv <= nth j row 0).
    { intros j Hj. specialize (Hge (j - size)%nat ltac:(lia)). rewrite nth_skipn_add in Hge.
      replace (size + (j - size))%nat with j in Hge by lia. exact Hge. }
    assert (Hall_lt : forall j, (j < size + n')%nat -> (j < length row)%nat -> nth j row 0 < cv).
    { intros j Hj Hjr. destruct (Nat.lt_ge_cases j size) as [Hjs|Hjs]; [exact (Hbel1 Hc1 j Hjs Hjr)|apply Hlt'; lia]. }
    set (s := (size + n')%nat) in *.
    destruct (Nat.leb_spec (length row) s) as [Hsl|Hsl].
    - (* every remaining entry of the row is smaller *)
      rewrite IH; try lia.
      + f_equal. rewrite (rest_spec_step row col start cc1 Hc1). fold cv.
        rewrite find_pos_absent; [reflexivity|]. intros j Hj Hv. specialize (Hall_lt j ltac:(lia) Hj). lia.
      + intros Hs1 p Hp Hpr. specialize (Hall_lt p ltac:(lia) Hpr).
        pose proof (Hcol cc1 (S cc1) ltac:(lia) Hs1). fold cv in H. lia.
    - rewrite (rd_ok row s Hsl). cbn [sbind].
      destruct (Z.eqb_spec (nth s row 0) cv) as [E|E].
      + rewrite IH; try lia.
        * rewrite <- app_assoc. f_equal. rewrite (rest_spec_step row col start cc1 Hc1). fold cv.
          rewrite (find_pos_first row cv s Hsl E); [reflexivity|].
          intros j Hj. specialize (Hall_lt j Hj ltac:(lia)). lia.
        * intros Hs1 p Hp Hpr. pose proof (row_le p s ltac:(lia) Hsl).
          pose proof (Hcol cc1 (S cc1) ltac:(lia) Hs1). fold cv in H0. lia.
      + rewrite IH; try lia.
        * f_equal. rewrite (rest_spec_step row col start cc1 Hc1). fold cv.
          rewrite find_pos_absent; [reflexivity|]. intros j Hj Hv.
          destruct (Nat.lt_ge_cases j s) as [Hjs|Hjs].
          -- specialize (Hall_lt j Hjs Hj). lia.
          -- pose proof (Hge' s ltac:(lia)). pose proof (row_le s j Hjs Hj). lia.
        * intros Hs1 p Hp Hpr. specialize (Hall_lt p Hp Hpr).
          pose proof (Hcol cc1 (S cc1) ltac:(lia) Hs1). fold cv in H. lia.
  Qed.

  Theorem binary_row_spec : binary_row row col start = SOk (row_spec row col start).
  Proof.
    unfold binary_row. rewrite binary_loop_spec; try lia.
    - simpl. rewrite (rest_spec_0 row col start). reflexivity.
    - intros _ p Hp. lia.
  Qed.
End RowBinary.

(* ================================================================ the kernels over all rows *)
Fixpoint spec_rows (ai : list Z) (rows : list (nat * nat)) (col : list Z) (last : Z) : pairs * list Z :=
  match rows with
  | [] => ([], [])
  | (a, b) :: r =>
    let ps := row_spec (seg ai a b) col a in
    let nxt := last + Z.of_nat (length ps) in
    let rest := spec_rows ai r col nxt in
    (ps ++ fst rest, nxt :: snd rest)
  end.

(* the filter spec of a whole selection: the (position, requested column) pairs row by row, and the new indptr *)
Definition selection_spec (ai : list Z) (rows : list (nat * nat)) (col : list Z) : pairs * list Z :=
  let r := spec_rows ai rows col 0 in (fst r, 0 :: snd r).

Definition rows_sorted (ai : list Z) (rows : list (nat * nat)) : Prop :=
  Forall (fun p : nat * nat => sincr (seg ai (fst p) (snd p))) rows.

Lemma binary_row_nil row start : binary_row row [] start = SOk [].
Proof. reflexivity. Qed.

Lemma row_spec_nil row start : row_spec row [] start = [].
Proof. reflexivity. Qed.

Theorem array_selection_spec ai rows col :
  rows_sorted ai rows -> array_selection ai rows col = SOk (selection_spec ai rows col).
Proof.
  intros Hr. unfold array_selection, selection_spec.
  assert (H : forall last, over_rows (fun row a => array_row row col a) ai rows last = SOk (spec_rows ai rows col last)).
  { induction Hr as [|[a b] r Hab Hr IH]; intros last; [reflexivity|]. cbn [fst snd] in Hab.
    cbn [over_rows spec_rows]. rewrite (array_row_spec _ col a (sincr_mono _ Hab)). cbn [sbind]. rewrite IH. reflexivity. }
  rewrite H. reflexivity.
Qed.

(* the binary-search walk reads current_row[-1]: it may only be taken for a non-empty row unless nothing is
   requested (the code takes it when current_row.size >= col.size) *)
Definition path_safe (path : nat -> bool) (ai : list Z) (rows : list (nat * nat)) (col : list Z) : Prop :=
  forall i, (i < length rows)%nat -> path i = false ->
    (0 < length (seg ai (fst (nth i rows (0, 0)%nat)) (snd (nth i rows (0, 0)%nat))))%nat \/ col = [].

Theorem slicing_selection_spec path ai rows col :
  rows_sorted ai rows -> sincr col -> path_safe path ai rows col ->
  slicing_selection path ai rows col = SOk (selection_spec ai rows col).
Proof.
  intros Hr Hcol Hsafe. unfold slicing_selection, selection_spec.
  match goal with |- sbind (?g 0%nat rows 0) _ = _ => set (go := g) end.
  assert (H : forall rws i last,
             rows_sorted ai rws ->
             (forall k, (k < length rws)%nat -> path (i + k)%nat = false ->
                        (0 < length (seg ai (fst (nth k rws (0, 0)%nat)) (snd (nth k rws (0, 0)%nat))))%nat \/ col = []) ->
             go i rws last = SOk (spec_rows ai rws col last)).
  { induction rws as [|[a b] r IH]; intros i last Hrs Hp; [reflexivity|].
    inversion Hrs as [|? ? Hab Hrs']; subst. cbn [fst snd] in Hab.
    unfold go. cbn [spec_rows]. fold go.
    assert (Hrow : (if path i then linear_row (seg ai a b) col a else binary_row (seg ai a b) col a)
                   = SOk (row_spec (seg ai a b) col a)).
    { destruct (path i) eqn:Ep.
      - apply linear_row_spec; assumption.
      - destruct (Hp 0%nat ltac:(simpl; lia) ltac:(rewrite Nat.add_0_r; exact Ep)) as [Hne|Hnil].
        + apply binary_row_spec; assumption.
        + subst col. reflexivity. }
    rewrite Hrow. cbn [sbind].
    rewrite (IH (S i) _ Hrs'); [reflexivity|].
    intros k Hk Hpk. apply (Hp (S k)); [simpl; lia|]. replace (i + S k)%nat with (S i + k)%nat by lia. exact Hpk. }
  rewrite (H rows 0%nat 0 Hr); [reflexivity|]. intros k Hk Hpk. apply Hsafe; assumption.
Qed.

(* the choice the code makes is safe *)
Lemma code_path_safe ai rows col : path_safe (code_path ai rows col) ai rows col.
Proof.
  intros i Hi Hp. unfold code_path in Hp. destruct (nth i rows (0%nat, 0%nat)) as [a b]. cbn [fst snd].
  apply Nat.ltb_ge in Hp. destruct col; [right; reflexivity|left; simpl in Hp; lia].
Qed.

(* gcxs_selection_spec: linear path, binary-search path and the general kernel agree with the filter spec *)
Theorem gcxs_selection_spec_proof path ai rows col :
  rows_sorted ai rows -> sincr col -> path_safe path ai rows col ->
  slicing_selection path ai rows col = SOk (selection_spec ai rows col)
  /\ array_selection ai rows col = SOk (selection_spec ai rows col).
Proof.
  intros Hr Hc Hp. split; [apply slicing_selection_spec; assumption|apply array_selection_spec; assumption].
Qed.

(* non-vacuity: a 3-row CSR block, rows 0 and 2 requested, columns 1,3,4 *)
Example gcxs_selection_nonvacuous :
  let ai := [0; 1; 4; 2; 1; 3; 4] in
  let rows := [(0, 3); (4, 7)]%nat in
  let col := [1; 3; 4] in
  rows_sorted ai rows /\ sincr col
  /\ selection_spec ai rows col = ([(1, 0); (2, 2); (4, 0); (5, 1); (6, 2)]%nat, [0; 2; 5])
  /\ slicing_selection (fun i => Nat.even i) ai rows col = SOk (selection_spec ai rows col).
Proof.
  cbv zeta. split; [repeat constructor; apply strictly_incr_sincr; reflexivity|].
  split; [apply strictly_incr_sincr; reflexivity|]. split; reflexivity.
Qed.

(* ================================================================ gcxs_wf gives sorted rows *)
From Verif Require Import COO GCXS.

Lemma strictly_increasing_eq l : strictly_increasing l = strictly_incr l.
Proof. induction l as [|a r IH]; [reflexivity|]. simpl. destruct r; [reflexivity|]. rewrite IH. reflexivity. Qed.

Lemma rows_of_nth {A} (l : list A) : forall indptr r,
  (S r < length indptr)%nat ->
  nth r (rows_of l indptr) [] = slice_list l (nth r indptr 0) (nth (S r) indptr 0).
Proof.
  induction indptr as [|a ip IH]; intros r Hr; [simpl in Hr; lia|].
  destruct ip as [|b ip']; [simpl in Hr; lia|]. destruct r as [|r].
  - reflexivity.
  - change (rows_of l (a :: b :: ip')) with (slice_list l a b :: rows_of l (b :: ip')).
    cbn [nth]. apply IH. simpl in *. lia.
Qed.

Lemma rows_of_length {A} (l : list A) : forall indptr, length (rows_of l indptr) = (length indptr - 1)%nat.
Proof.
  induction indptr as [|a ip IH]; [reflexivity|]. destruct ip as [|b ip']; [reflexivity|].
  change (rows_of l (a :: b :: ip')) with (slice_list l a b :: rows_of l (b :: ip')).
  cbn [length] in *. rewrite IH. lia.
Qed.

Lemma nondecreasing_nth l : nondecreasing l = true -> forall p q, (p <= q)%nat -> (q < length l)%nat -> nth p l 0 <= nth q l 0.
Proof.
  induction l as [|a r IH]; intros H p q Hpq Hq; [simpl in Hq; lia|].
  simpl in H. destruct r as [|b r']; [simpl in Hq; assert (q = 0%nat) by lia; assert (p = 0%nat) by lia; subst; lia|].
  apply andb_true_iff in H. destruct H as [Hab Hr]. specialize (IH Hr).
  destruct q as [|q]; [assert (p = 0%nat) by lia; subst; lia|]. destruct p as [|p].
  - cbn [nth]. assert (nth 0 (b :: r') 0 <= nth q (b :: r') 0) by (apply IH; simpl in *; lia). simpl in H. simpl. lia.
  - cbn [nth]. apply IH; simpl in *; lia.
Qed.

(* every row of a well-formed GCXS array (ndim >= 2), cut out by consecutive indptr entries, is strictly increasing *)
Theorem gcxs_wf_row_sorted (V : Type) (g : gcxs V) (r : nat) :
  gcxs_wfb g = true -> (2 <= length (g_shape g))%nat -> (S r < length (g_indptr g))%nat ->
  sincr (seg (g_indices g) (Z.to_nat (nth r (g_indptr g) 0)) (Z.to_nat (nth (S r) (g_indptr g) 0))).
Proof.
  intros Hwf Hnd Hr. unfold gcxs_wfb in Hwf.
  destruct (g_shape g) as [|d0 [|d1 sh]] eqn:Es; try (simpl in Hnd; lia).
  cbv zeta in Hwf.
  repeat match goal with H : _ && _ = true |- _ => apply andb_true_iff in H; destruct H end.
  match goal with H : forallb strictly_increasing _ = true |- _ => rename H into Hrows end.
  match goal with H : nondecreasing _ = true |- _ => rename H into Hnd' end.
  match goal with H : (znth _ 0 _ =? 0) = true |- _ => rename H into Hz0 end.
  rewrite forallb_forall in Hrows.
  assert (Hin : In (nth r (rows_of (g_indices g) (g_indptr g)) []) (rows_of (g_indices g) (g_indptr g))).
  { apply nth_In. rewrite rows_of_length. lia. }
  specialize (Hrows _ Hin). rewrite rows_of_nth in Hrows by assumption.
  rewrite strictly_increasing_eq in Hrows. apply strictly_incr_sincr in Hrows.
  pose proof (nondecreasing_nth _ Hnd' 0%nat r ltac:(lia) ltac:(lia)) as Hlo.
  pose proof (nondecreasing_nth _ Hnd' r (S r) ltac:(lia) ltac:(lia)) as Hhi.
  apply Z.eqb_eq in Hz0. unfold znth in Hz0. simpl in Hz0.
  unfold slice_list in Hrows. unfold seg.
  rewrite (nth_indep _ (-1) 0) in Hz0 by lia.
  replace (Z.to_nat (nth (S r) (g_indptr g) 0%Z) - Z.to_nat (nth r (g_indptr g) 0%Z))%nat
    with (Z.to_nat (nth (S r) (g_indptr g) 0 - nth r (g_indptr g) 0)) by lia.
  exact Hrows.
Qed.
