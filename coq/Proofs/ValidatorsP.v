(* Proofs/ValidatorsP.v — each generated validator rejects exactly the arguments NumPy rejects
   (Spec/NpValid.v), with the exception class the property demands. *)
From Coq Require Import ZArith List Bool Lia ZifyBool.
From Coq Require String.
From Verif Require Import Py PyExt PyValid G_slicing G_validators S_validators NpValid Validators.
Import ListNotations.
Open Scope Z_scope.

Ltac split_one :=
  match goal with
  | |- context [if ?a >? ?b then _ else _] => rewrite (Z.gtb_ltb a b)
  | |- context [if ?a >=? ?b then _ else _] => rewrite (Z.geb_leb a b)
  | |- context [if negb _ then _ else _] => rewrite if_negb
  | |- context [if ?a <? ?b then _ else _] => destruct (Z.ltb_spec a b); try lia
  | |- context [if ?a <=? ?b then _ else _] => destruct (Z.leb_spec a b); try lia
  | |- context [if ?a =? ?b then _ else _] => destruct (Z.eqb_spec a b); try lia
  end.

(* ---------------------------------------------------------------- normalize_axis *)
Lemma normalize_axis_ok a ndim :
  np_axis_ok a ndim = true -> v_normalize_axis a ndim = Ok (np_axis_norm a ndim).
Proof.
  unfold np_axis_ok, np_axis_norm, v_normalize_axis, as_z, gv_normalize_axis_int. intros H.
  repeat (cbn; split_one); cbn; try reflexivity; lia.
Qed.

Lemma normalize_axis_bad a ndim :
  np_axis_ok a ndim = false -> v_normalize_axis a ndim = Raise ValueError.
Proof.
  unfold np_axis_ok, v_normalize_axis, as_z, gv_normalize_axis_int. intros H.
  repeat (cbn; split_one); cbn; try reflexivity; lia.
Qed.

Theorem validator_normalize_axis_spec_proof :
  forall a ndim : Z,
    (raised (v_normalize_axis a ndim) <> None <-> np_axis_ok a ndim = false) /\
    (np_axis_ok a ndim = false -> v_normalize_axis a ndim = Raise ValueError) /\
    (np_axis_ok a ndim = true -> v_normalize_axis a ndim = Ok (np_axis_norm a ndim)).
Proof.
  intros a ndim. destruct (np_axis_ok a ndim) eqn:E.
  - rewrite (normalize_axis_ok _ _ E). cbn. repeat split; congruence.
  - rewrite (normalize_axis_bad _ _ E). cbn. repeat split; congruence.
Qed.

Lemma normalize_axes_ok axes ndim :
  forallb (fun a => np_axis_ok a ndim) axes = true ->
  v_normalize_axes axes ndim = Ok (map (fun a => np_axis_norm a ndim) axes).
Proof.
  unfold v_normalize_axes. induction axes as [|a r IH]; cbn; [reflexivity|].
  rewrite andb_true_iff. intros [Ha Hr]. rewrite (normalize_axis_ok _ _ Ha). cbn.
  rewrite (IH Hr). reflexivity.
Qed.

Lemma normalize_axes_bad axes ndim :
  forallb (fun a => np_axis_ok a ndim) axes = false ->
  v_normalize_axes axes ndim = Raise ValueError.
Proof.
  unfold v_normalize_axes. induction axes as [|a r IH]; cbn; [discriminate|].
  destruct (np_axis_ok a ndim) eqn:Ha; cbn.
  - intros Hr. rewrite (normalize_axis_ok _ _ Ha). cbn. rewrite (IH Hr). reflexivity.
  - intros _. rewrite (normalize_axis_bad _ _ Ha). reflexivity.
Qed.

(* ---------------------------------------------------------------- transpose: repeats and length *)
Lemma ints_of_map_VInt l : ints_of (map VInt l) = Some l.
Proof. induction l as [|a r IH]; cbn; [reflexivity|]. rewrite IH. reflexivity. Qed.

Lemma zmem_np_mem x l : zmem x l = np_mem x l.
Proof. induction l; cbn; congruence. Qed.

Lemma nodupb_np l : nodupb l = np_nodupb l.
Proof. induction l as [|a r IH]; cbn; [reflexivity|]. rewrite zmem_np_mem, IH. reflexivity. Qed.

Lemma distinct_count_le l : 0 <= distinct_count l <= Z.of_nat (length l).
Proof. induction l as [|a r IH]; cbn [distinct_count length]; [lia|]. destruct (zmem a r); lia. Qed.

Lemma distinct_count_full l : distinct_count l = Z.of_nat (length l) <-> nodupb l = true.
Proof.
  induction l as [|a r IH]; cbn [distinct_count length nodupb]; [tauto|].
  pose proof (distinct_count_le r). destruct (zmem a r); cbn.
  - split; [lia|discriminate].
  - rewrite <- IH. lia.
Qed.

Lemma transpose_repeat_spec l :
  sv_transpose_repeat (VTuple (map VInt l)) = if np_nodupb l then Ok VNone else Raise ValueError.
Proof.
  unfold sv_transpose_repeat, ext_len_unique. rewrite ints_of_map_VInt. cbn.
  rewrite map_length. rewrite <- nodupb_np.
  pose proof (distinct_count_le l). pose proof (distinct_count_full l).
  destruct (nodupb l).
  - destruct (Z.ltb_spec (distinct_count l) (Z.of_nat (length l))); cbn; [|reflexivity].
    assert (distinct_count l = Z.of_nat (length l)) by (apply H0; reflexivity). lia.
  - destruct (Z.ltb_spec (distinct_count l) (Z.of_nat (length l))); cbn; [reflexivity|].
    assert (distinct_count l = Z.of_nat (length l)) by lia. apply H0 in H2. discriminate.
Qed.

Lemma transpose_len_spec l ndim :
  sv_transpose_len (VTuple (map VInt l)) (VInt ndim) =
  if Z.of_nat (length l) =? ndim then Ok VNone else Raise ValueError.
Proof.
  unfold sv_transpose_len. cbn. rewrite map_length.
  destruct (Z.eqb_spec (Z.of_nat (length l)) ndim); reflexivity.
Qed.

Theorem validator_transpose_spec_proof :
  forall (axes : list Z) (ndim : Z),
    (np_perm_ok axes ndim = true ->
       v_transpose_axes axes ndim = Ok (map (fun a => np_axis_norm a ndim) axes)) /\
    (np_perm_ok axes ndim = false -> v_transpose_axes axes ndim = Raise ValueError).
Proof.
  intros axes ndim. unfold np_perm_ok, np_axes_ok, v_transpose_axes.
  destruct (forallb (fun a => np_axis_ok a ndim) axes) eqn:Hr.
  - rewrite (normalize_axes_ok _ _ Hr). cbn [bind].
    rewrite transpose_repeat_spec, transpose_len_spec, map_length.
    destruct (np_nodupb _); cbn; [|split; [discriminate|reflexivity]].
    destruct (Z.of_nat (length axes) =? ndim); cbn; split; congruence.
  - rewrite (normalize_axes_bad _ _ Hr). cbn. split; [discriminate|reflexivity].
Qed.

(* reductions / moveaxis / swapaxes run normalize_axis on the tuple and reach the same repeat test *)
Theorem validator_axes_spec_proof :
  forall (axes : list Z) (ndim : Z),
    (forallb (fun a => np_axis_ok a ndim) axes = true ->
       v_normalize_axes axes ndim = Ok (map (fun a => np_axis_norm a ndim) axes)) /\
    (forallb (fun a => np_axis_ok a ndim) axes = false ->
       v_normalize_axes axes ndim = Raise ValueError).
Proof. intros; split; [apply normalize_axes_ok|apply normalize_axes_bad]. Qed.

(* ---------------------------------------------------------------- check_index *)
Theorem validator_check_index_spec_proof :
  forall i dim : Z,
    (np_index_ok i dim = true -> v_check_index i dim = Ok VNone) /\
    (np_index_ok i dim = false -> v_check_index i dim = Raise IndexError).
Proof.
  intros i dim. unfold np_index_ok, v_check_index, g_check_index.
  split; intros H; repeat (cbn; split_one); cbn; try reflexivity; lia.
Qed.

(* ---------------------------------------------------------------- reshape *)
Lemma fold_left_mul l a : fold_left Z.mul l a = a * fold_right Z.mul 1 l.
Proof. revert a; induction l as [|x r IH]; intros a; cbn; [lia|]. rewrite IH. lia. Qed.

Lemma reduce_mul_prod sh : reduce_mul sh = prod sh.
Proof. unfold reduce_mul, prod. rewrite fold_left_mul. lia. Qed.

Theorem validator_reshape_spec_proof :
  forall (size : Z) (sh : list Z),
    (np_reshape_ok size sh = true -> v_reshape_check size sh = Ok VNone) /\
    (np_reshape_ok size sh = false -> v_reshape_check size sh = Raise ValueError).
Proof.
  intros size sh. unfold np_reshape_ok, v_reshape_check, sv_reshape_size_check.
  rewrite reduce_mul_prod. cbn.
  destruct (Z.eqb_spec size (prod sh)); cbn; split; congruence.
Qed.

(* ---------------------------------------------------------------- broadcasting *)
Lemma bcast_ok_val x y isres :
  sv_bcast_ok (VInt x) (VInt y) (VBool isres) =
  Ok (VBool ((x =? y) || (x =? 1) || ((y =? 1) && negb isres))).
Proof.
  unfold sv_bcast_ok. cbn.
  destruct (x =? y); cbn; [reflexivity|].
  destruct (x =? 1); cbn; [reflexivity|].
  destruct (y =? 1); cbn; reflexivity.
Qed.

Lemma bcast_dim_val x y : bcast_dim x y = Ok (if x =? 1 then y else x).
Proof.
  unfold bcast_dim, as_z, sv_bcast_dim. cbn. destruct (x =? 1); cbn; reflexivity.
Qed.

Lemma bcast_dims_nil_l b : bcast_dims [] b = Ok b.
Proof.
  destruct b as [|y b]; [reflexivity|]. cbn [bcast_dims].
  induction (y :: b) as [|z r IH]; cbn; [reflexivity|].
  rewrite bcast_dim_val. cbn. rewrite IH. reflexivity.
Qed.

Lemma bcast_dims_nil_r a : bcast_dims a [] = Ok a.
Proof.
  destruct a as [|x a]; [reflexivity|]. cbn [bcast_dims].
  induction (x :: a) as [|z r IH]; cbn; [reflexivity|].
  rewrite bcast_dim_val. cbn. rewrite IH.
  destruct (Z.eqb_spec z 1); subst; reflexivity.
Qed.

Lemma bcast_rev_spec a b :
  match bc_rev a b with
  | Some t => bcast_all false a b = Ok true /\ bcast_dims a b = Ok t
  | None => bcast_all false a b = Ok false
  end.
Proof.
  revert b; induction a as [|x a IH]; intros b.
  - cbn [bc_rev bcast_all]. split; [reflexivity|apply bcast_dims_nil_l].
  - destruct b as [|y b].
    + cbn [bc_rev bcast_all]. split; [reflexivity|apply bcast_dims_nil_r].
    + cbn [bc_rev bcast_all bcast_dims]. rewrite bcast_ok_val, bcast_dim_val. cbn [bind truthy negb].
      rewrite andb_true_r.
      destruct ((x =? y) || (x =? 1) || (y =? 1)); [|reflexivity].
      specialize (IH b). destruct (bc_rev a b) as [t|].
      * destruct IH as [H1 H2]. rewrite H2. cbn. split; [assumption|reflexivity].
      * assumption.
Qed.

Lemma more_dims_val isres s1 s2 :
  sv_bcast_more_dims (VBool isres) (VTuple (map VInt s1)) (VTuple (map VInt s2)) =
  Ok (VBool (isres && (Z.of_nat (length s2) <? Z.of_nat (length s1)))).
Proof.
  unfold sv_bcast_more_dims. destruct isres; cbn; [|reflexivity].
  rewrite !map_length, Z.gtb_ltb. reflexivity.
Qed.

Theorem validator_broadcast_spec_proof :
  forall s1 s2 : list Z,
    match np_broadcast s1 s2 with
    | Some t => v_broadcast_shape false s1 s2 = Ok t
    | None => v_broadcast_shape false s1 s2 = Raise ValueError
    end.
Proof.
  intros s1 s2. unfold np_broadcast, v_broadcast_shape. rewrite more_dims_val. cbn [andb bind truthy].
  pose proof (bcast_rev_spec (rev s1) (rev s2)) as H.
  destruct (bc_rev (rev s1) (rev s2)) as [t|].
  - destruct H as [H1 H2]. rewrite H1. cbn. rewrite H2. reflexivity.
  - rewrite H. reflexivity.
Qed.

(* broadcast_to calls the same function with is_result=True: zip() stops at the shorter shape, so
   an operand with MORE axes than the target is not rejected *)
Lemma bcast_to_rev_spec a b :
  (length a <= length b)%nat ->
  if bct_rev a b then bcast_all true a b = Ok true /\ bcast_dims a b = Ok b
  else bcast_all true a b = Ok false.
Proof.
  revert b; induction a as [|x a IH]; intros b Hl.
  - cbn [bct_rev bcast_all]. split; [reflexivity|apply bcast_dims_nil_l].
  - destruct b as [|y b]; [cbn in Hl; lia|].
    cbn [bct_rev bcast_all bcast_dims]. rewrite bcast_ok_val, bcast_dim_val. cbn [bind truthy negb].
    rewrite andb_false_r, orb_false_r.
    destruct ((x =? y) || (x =? 1)) eqn:E; cbn [andb]; [|reflexivity].
    cbn in Hl. specialize (IH b ltac:(lia)). destruct (bct_rev a b).
    + destruct IH as [H1 H2]. rewrite H2. cbn. split; [assumption|].
      destruct (Z.eqb_spec x 1); [reflexivity|].
      destruct (Z.eqb_spec x y); [subst; reflexivity|discriminate].
    + assumption.
Qed.

Lemma bct_rev_len a b : bct_rev a b = true -> (length a <= length b)%nat.
Proof.
  revert b; induction a as [|x a IH]; intros [|y b]; cbn; try discriminate; try lia.
  rewrite andb_true_iff. intros [_ H]. specialize (IH b H). lia.
Qed.

(* since 7dd4784 the guard `is_result and len(shape1) > len(shape2)` precedes the zip: the validator
   now decides exactly as numpy.broadcast_to for EVERY pair of shapes *)
Theorem validator_broadcast_to_spec_proof :
  forall s target : list Z,
    match np_broadcast_to s target with
    | Some t => v_broadcast_shape true s target = Ok t
    | None => v_broadcast_shape true s target = Raise ValueError
    end.
Proof.
  intros s target. unfold np_broadcast_to, v_broadcast_shape. rewrite more_dims_val. cbn [andb].
  destruct (Z.ltb_spec (Z.of_nat (length target)) (Z.of_nat (length s))) as [Hm|Hm]; cbn [bind truthy].
  - destruct (bct_rev (rev s) (rev target)) eqn:E; [|reflexivity].
    apply bct_rev_len in E. rewrite !rev_length in E. lia.
  - pose proof (bcast_to_rev_spec (rev s) (rev target)) as H. rewrite !rev_length in H. specialize (H ltac:(lia)).
    destruct (bct_rev (rev s) (rev target)).
    + destruct H as [H1 H2]. rewrite H1. cbn. rewrite H2. cbn. rewrite rev_involutive. reflexivity.
    + rewrite H. reflexivity.
Qed.

(* ---------------------------------------------------------------- tensordot *)
Lemma td_extents_equal_spec ea eb :
  length ea = length eb -> td_extents_equal ea eb = Ok (np_contract_ok ea eb).
Proof.
  revert eb; induction ea as [|x a IH]; intros [|y b] Hl; cbn in *; try discriminate; [reflexivity|].
  unfold sv_td_extent_ne. cbn.
  destruct (Z.eqb_spec x y); cbn; [|reflexivity]. apply IH. congruence.
Qed.

Lemma np_contract_len ea eb : np_contract_ok ea eb = true -> length ea = length eb.
Proof.
  revert eb; induction ea as [|x a IH]; intros [|y b]; cbn; try discriminate; [reflexivity|].
  rewrite andb_true_iff. intros [_ H]. f_equal. auto.
Qed.

Theorem validator_tensordot_spec_proof :
  forall ea eb : list Z,
    (np_contract_ok ea eb = true -> v_tensordot_check ea eb = Ok VNone) /\
    (np_contract_ok ea eb = false -> v_tensordot_check ea eb = Raise ValueError).
Proof.
  intros ea eb. unfold v_tensordot_check, sv_td_count_ne. cbn.
  destruct (Z.eqb_spec (Z.of_nat (length ea)) (Z.of_nat (length eb))) as [E|E]; cbn.
  - rewrite td_extents_equal_spec by lia. cbn. unfold sv_td_unequal_raise. cbn.
    destruct (np_contract_ok ea eb); cbn; split; congruence.
  - unfold sv_td_unequal_raise. cbn. split; [|reflexivity].
    intros H. apply np_contract_len in H. lia.
Qed.

Theorem validator_dot_1d_spec_proof :
  forall la lb : Z,
    (la = lb -> v_dot_1d_check la lb = Ok VNone) /\
    (la <> lb -> v_dot_1d_check la lb = Raise ValueError).
Proof.
  intros la lb. unfold v_dot_1d_check, sv_dot_1d_shape_check. cbn.
  destruct (Z.eqb_spec la lb); cbn; split; congruence.
Qed.

(* moveaxis: with the statement order extracted from the source, the repeat test sees NORMALISED axes, so a
   destination that names one axis twice through sign aliasing ((0, -3) on a 3-d array) is rejected *)
Theorem validator_moveaxis_spec_proof :
  forall (src dst : list Z) (ndim : Z),
    (np_moveaxis_ok src dst ndim = true ->
       v_moveaxis src dst ndim = Ok (map (fun a => np_axis_norm a ndim) src, map (fun a => np_axis_norm a ndim) dst)) /\
    (np_moveaxis_ok src dst ndim = false -> v_moveaxis src dst ndim = Raise ValueError).
Proof.
  intros src dst ndim. unfold np_moveaxis_ok, np_axes_ok, v_moveaxis, site_moveaxis_steps. cbn [v_moveaxis_run].
  destruct (forallb (fun a => np_axis_ok a ndim) src) eqn:Hs.
  - rewrite (normalize_axes_ok _ _ Hs). cbn [bind].
    destruct (forallb (fun a => np_axis_ok a ndim) dst) eqn:Hd.
    + rewrite (normalize_axes_ok _ _ Hd). cbn [bind]. change nodupb with np_nodupb. rewrite !map_length.
      destruct (np_nodupb (map (fun a => np_axis_norm a ndim) dst)) eqn:E1;
        destruct (length src =? length dst)%nat eqn:E2; cbn [bind]; change nodupb with np_nodupb; rewrite ?E1, ?E2;
        destruct (np_nodupb (map (fun a => np_axis_norm a ndim) src)); cbn; split; congruence.
    + rewrite (normalize_axes_bad _ _ Hd). cbn. destruct (np_nodupb (map (fun a => np_axis_norm a ndim) src)); cbn; split; congruence.
  - rewrite (normalize_axes_bad _ _ Hs). cbn. split; [discriminate|reflexivity].
Qed.

Example moveaxis_sign_aliased_destination :
  v_moveaxis [0; 1] [0; -3] 3 = Raise ValueError /\ v_moveaxis [0; 1] [-1; 2] 3 = Raise ValueError /\
  v_moveaxis [0; 1] [2; 0] 3 = Ok ([0; 1], [2; 0]).
Proof. repeat split; reflexivity. Qed.

Theorem validator_matmul_0d_spec_proof :
  forall nda ndb : Z,
    (nda <> 0 /\ ndb <> 0 -> v_matmul_0d_check nda ndb = Ok VNone) /\
    (nda = 0 \/ ndb = 0 -> v_matmul_0d_check nda ndb = Raise ValueError).
Proof.
  intros nda ndb. unfold v_matmul_0d_check, sv_matmul_0d_check. cbn.
  destruct (Z.eqb_spec nda 0); cbn; [split; [intros [? ?]; contradiction|reflexivity]|].
  destruct (Z.eqb_spec ndb 0); cbn; split; intros H; try reflexivity; try (destruct H; contradiction).
Qed.

Theorem validator_einsum_out_count_spec_proof :
  forall cnt : Z,
    (cnt = 1 -> v_einsum_out_count_check cnt = Ok VNone) /\
    (cnt <> 1 -> v_einsum_out_count_check cnt = Raise ValueError).
Proof.
  intros cnt. unfold v_einsum_out_count_check, sv_einsum_out_count_check. cbn.
  destruct (Z.eqb_spec cnt 1); cbn; split; congruence.
Qed.

(* the zero-size shortcut looks at (-1, N2) and (N2, -1): it fires iff the CONTRACTED extent is 0
   and says nothing about the free extents of either operand *)
Theorem tensordot_shortcut_spec_proof :
  forall N2 : Z, v_tensordot_shortcut N2 = Ok (N2 =? 0).
Proof.
  intros N2. unfold v_tensordot_shortcut, sv_td_newshape_a, sv_td_newshape_b, site_td_shortcut. cbn.
  unfold sv_td_zero_elt. cbn. destruct (N2 =? 0); cbn; reflexivity.
Qed.

(* ---------------------------------------------------------------- COO.__init__ *)
Theorem validator_coo_init_spec_proof :
  forall ndata ncols nshape nrows : Z,
    let malformed := negb (nshape =? 0) && (negb (ndata =? ncols) || negb (nshape =? nrows)) in
    (malformed = false -> v_coo_init ndata ncols nshape nrows = Ok VNone) /\
    (malformed = true -> v_coo_init ndata ncols nshape nrows = Raise ValueError).
Proof.
  intros. subst malformed. unfold v_coo_init, gv_coo_init_checks.
  destruct (Z.eqb_spec nshape 0); cbn; [split; congruence|].
  destruct (Z.eqb_spec ndata ncols); cbn; [|split; congruence].
  destruct (Z.eqb_spec nshape nrows); cbn; split; congruence.
Qed.

(* ---------------------------------------------------------------- check_compressed_axes *)
Lemma fold_min_le l a : fold_left Z.min l a <= a /\ Forall (fun x => fold_left Z.min l a <= x) l.
Proof.
  revert a; induction l as [|x r IH]; intros a; cbn; [split; [lia|constructor]|].
  destruct (IH (Z.min a x)) as [H1 H2]. split; [lia|]. constructor; [lia|assumption].
Qed.

Lemma fold_min_in l a : fold_left Z.min l a = a \/ In (fold_left Z.min l a) l.
Proof.
  revert a; induction l as [|x r IH]; intros a; cbn; [left; reflexivity|].
  destruct (IH (Z.min a x)) as [H|H]; [|right; right; assumption].
  rewrite H. destruct (Z.min_spec a x) as [[_ ->]|[_ ->]]; [left; reflexivity|right; left; reflexivity].
Qed.

Lemma fold_max_ge l a : a <= fold_left Z.max l a /\ Forall (fun x => x <= fold_left Z.max l a) l.
Proof.
  revert a; induction l as [|x r IH]; intros a; cbn; [split; [lia|constructor]|].
  destruct (IH (Z.max a x)) as [H1 H2]. split; [lia|]. constructor; [lia|assumption].
Qed.

Lemma fold_max_in l a : fold_left Z.max l a = a \/ In (fold_left Z.max l a) l.
Proof.
  revert a; induction l as [|x r IH]; intros a; cbn; [left; reflexivity|].
  destruct (IH (Z.max a x)) as [H|H]; [|right; right; assumption].
  rewrite H. destruct (Z.max_spec a x) as [[_ ->]|[_ ->]]; [right; left; reflexivity|left; reflexivity].
Qed.

Lemma range_test_spec a r ndim :
  ((fold_left Z.min r a <? 0) || (fold_left Z.max r a >=? ndim)) =
  negb (forallb (fun x => (0 <=? x) && (x <? ndim)) (a :: r)).
Proof.
  destruct (fold_min_le r a) as [Hm1 Hm2]. destruct (fold_max_ge r a) as [HM1 HM2].
  pose proof (fold_min_in r a) as Hmi. pose proof (fold_max_in r a) as HMi.
  destruct (forallb _ (a :: r)) eqn:E; cbn [negb].
  - rewrite forallb_forall in E.
    assert (Ha : forall x, In x (a :: r) -> 0 <= x < ndim) by (intros x Hx; specialize (E x Hx); lia).
    assert (0 <= fold_left Z.min r a).
    { destruct Hmi as [->|Hi]; [apply Ha; left; reflexivity|apply Ha; right; assumption]. }
    assert (fold_left Z.max r a < ndim).
    { destruct HMi as [->|Hi]; [apply Ha; left; reflexivity|apply Ha; right; assumption]. }
    lia.
  - apply not_true_iff_false in E. rewrite forallb_forall in E.
    destruct (Z.ltb_spec (fold_left Z.min r a) 0); [reflexivity|].
    destruct (Z.geb_spec (fold_left Z.max r a) ndim); [reflexivity|]. exfalso. apply E.
    intros x Hx. rewrite Forall_forall in Hm2, HM2.
    destruct Hx as [<-|Hx]; [lia|]. specialize (Hm2 x Hx). specialize (HM2 x Hx). lia.
Qed.

Theorem validator_caxes_spec_proof :
  forall (ndim : Z) (ca : option (list Z)),
    (caxes_ok ndim ca = true -> v_check_caxes ndim ca = Ok VNone) /\
    (caxes_ok ndim ca = false -> v_check_caxes ndim ca = Raise ValueError).
Proof.
  intros ndim [l|]; [|split; [reflexivity|discriminate]].
  unfold caxes_ok, v_check_caxes, sv_check_compressed_axes, caxes_val. cbn.
  rewrite map_length.
  destruct (Z.eqb_spec (Z.of_nat (length l)) ndim); cbn; [split; congruence|].
  assert (Hint : forallb isinst_integral (map VInt l) = true).
  { clear. induction l; cbn; auto. }
  rewrite Hint. cbn.
  unfold ext_sorted_set_equal. rewrite ints_of_map_VInt. cbn.
  destruct (strictly_incr l); cbn; [|split; congruence].
  destruct l as [|a r]; cbn [zmin_list zmax_list bind]; [cbn; split; congruence|].
  cbn [negb andb].
  pose proof (range_test_spec a r ndim) as Hr.
  destruct (forallb _ (a :: r)); cbn [negb] in Hr.
  - apply orb_false_iff in Hr. destruct Hr as [H1 H2]. cbn. rewrite H1. cbn. rewrite H2. cbn. split; congruence.
  - cbn. destruct (fold_left Z.min r a <? 0) eqn:H1; cbn; [split; congruence|].
    cbn in Hr. rewrite Hr. cbn. split; congruence.
Qed.

(* ---------------------------------------------------------------- rejection precedes any kernel call *)
Lemma no_kernel_app t1 t2 : no_kernel t1 -> no_kernel t2 -> no_kernel (t1 ++ t2).
Proof. unfold no_kernel. intros H1 H2. rewrite forallb_app, H1, H2. reflexivity. Qed.

Lemma chk_mono p : forall k, chk p true = Go k -> k = true.
Proof.
  induction p; intros k; cbn [chk]; try congruence.
  - destruct (chk p1 true) as [| |k1] eqn:E1; try congruence. rewrite (IHp1 k1 eq_refl). apply IHp2.
  - destruct (chk p1 true) as [| |k1] eqn:E1; destruct (chk p2 true) as [| |k2] eqn:E2; cbn; try congruence.
    + intros H; inversion H; subst. apply IHp2. reflexivity.
    + intros H; inversion H; subst. apply IHp1. reflexivity.
    + intros H; inversion H; subst. rewrite (IHp1 k1 eq_refl). reflexivity.
  - destruct (chk p true) as [| |k1] eqn:E1; try congruence.
    rewrite (IHp k1 eq_refl). cbn. congruence.
Qed.

Lemma chk_loop_true b : chk (PLoop b) false <> Bad -> forall K1, chk b false = Go K1 -> chk (PLoop b) K1 <> Bad.
Proof.
  intros H K1 E. destruct K1; [|exact H].
  cbn [chk] in *. rewrite E in H. cbn in H.
  destruct (chk b true) as [| |k2] eqn:E2; try congruence.
  rewrite (chk_mono b k2 E2). cbn. congruence.
Qed.

Lemma chk_sound p t o :
  exec p t o -> forall K, chk p K <> Bad ->
  match o with
  | Raised => K = false /\ no_kernel t
  | Fall => exists K', chk p K = Go K' /\ (K = true -> K' = true) /\ (K' = false -> no_kernel t)
  | Ret => True
  end.
Proof.
  induction 1; intros K HK.
  - exists K. repeat split; auto.
  - (* seq, first part falls through *)
    cbn [chk] in HK. destruct (chk a K) as [| |K1] eqn:Ea; try congruence.
    { destruct (IHexec1 K ltac:(congruence)) as [? [E _]]. congruence. }
    destruct (IHexec1 K ltac:(congruence)) as [K1' [E1 [M1 N1]]]. assert (K1' = K1) by congruence. subst K1'.
    specialize (IHexec2 K1 HK). destruct o.
    + destruct IHexec2 as [K' [E2 [M2 N2]]]. exists K'. cbn [chk]. rewrite Ea. split; [assumption|]. split.
      * intros HKt. apply M2, M1, HKt.
      * intros HK'. assert (K1 = false) by (destruct K1; [specialize (M2 eq_refl); congruence|reflexivity]).
        apply no_kernel_app; auto.
    + exact I.
    + destruct IHexec2 as [HK1 N2]. split.
      * destruct K; [specialize (M1 eq_refl); congruence|reflexivity].
      * apply no_kernel_app; auto.
  - (* seq, first part stops *)
    cbn [chk] in HK. assert (chk a K <> Bad) by (destruct (chk a K); congruence).
    specialize (IHexec K H1). destruct o; [congruence|exact I|exact IHexec].
  - cbn [chk] in *. destruct K; [congruence|]. exists false. repeat split; auto.
  - cbn [chk] in *. destruct K; [congruence|]. split; reflexivity.
  - exists true. cbn [chk]. repeat split; auto. discriminate.
  - cbn [chk] in *. destruct K; [congruence|]. split; reflexivity.
  - exact I.
  - (* if, left *)
    cbn [chk] in HK. assert (Ha : chk a K <> Bad) by (destruct (chk a K); cbn in HK; congruence).
    specialize (IHexec K Ha). destruct o; try assumption.
    destruct IHexec as [Ka [E [M N]]]. cbn [chk]. rewrite E in *.
    destruct (chk b K) as [| |Kb] eqn:Eb; cbn in *; try congruence.
    + exists Ka. auto.
    + exists (Ka || Kb). split; [reflexivity|]. split.
      * intros HKt. rewrite (M HKt). reflexivity.
      * intros HK'. apply orb_false_iff in HK'. apply N, HK'.
  - (* if, right *)
    cbn [chk] in HK. assert (Hb : chk b K <> Bad) by (destruct (chk a K); destruct (chk b K); cbn in HK; congruence).
    specialize (IHexec K Hb). destruct o; try assumption.
    destruct IHexec as [Kb [E [M N]]]. cbn [chk]. rewrite E in *.
    destruct (chk a K) as [| |Ka] eqn:Ea; cbn in *; try congruence.
    + exists Kb. auto.
    + exists (Ka || Kb). split; [reflexivity|]. split.
      * intros HKt. rewrite (M HKt). apply orb_true_r.
      * intros HK'. apply orb_false_iff in HK'. apply N, HK'.
  - (* loop, zero iterations *)
    cbn [chk] in *. destruct (chk b K) as [| |K1] eqn:Eb; try congruence.
    + exists K. repeat split; auto.
    + destruct (Bool.eqb K1 K) eqn:Eq.
      * exists K. repeat split; auto.
      * exists K1. split; [destruct (chk b K1); congruence|]. split; [|reflexivity].
        intros ->. rewrite (chk_mono b K1 Eb) in Eq. discriminate.
  - (* loop, one more iteration *)
    assert (Hb : chk b K <> Bad) by (cbn [chk] in HK; destruct (chk b K); congruence).
    destruct (IHexec1 K Hb) as [K1 [E1 [M1 N1]]].
    assert (HK1 : chk (PLoop b) K1 <> Bad).
    { destruct K; [rewrite (M1 eq_refl); exact HK|]. apply chk_loop_true; assumption. }
    specialize (IHexec2 K1 HK1). destruct o.
    + destruct IHexec2 as [K' [E2 [M2 N2]]].
      destruct (Bool.eqb K1 K) eqn:Eq.
      * apply eqb_prop in Eq. subst K1. exists K'. split; [assumption|]. split; [assumption|].
        intros HK'. apply no_kernel_app; [apply N1|apply N2; assumption].
        destruct K; [specialize (M2 eq_refl); congruence|reflexivity].
      * assert (K = false /\ K1 = true) as [-> ->] by (destruct K, K1; cbn in Eq; try discriminate; [specialize (M1 eq_refl); discriminate|auto]).
        exists true. cbn [chk] in *. rewrite E1 in *. cbn in *. split; [destruct (chk b true); congruence|].
        split; [discriminate|discriminate].
    + exact I.
    + destruct IHexec2 as [HK1f N2]. subst K1. split.
      * destruct K; [specialize (M1 eq_refl); congruence|reflexivity].
      * apply no_kernel_app; auto.
  - (* loop, body stops *)
    assert (Hb : chk b K <> Bad) by (cbn [chk] in HK; destruct (chk b K); congruence).
    specialize (IHexec K Hb). destruct o; [congruence|exact I|exact IHexec].
Qed.

(* a skeleton that passes the static check never executes a kernel / constructor step on a run that
   ends in a rejection (a rejecting validator call or a `raise`) *)
Theorem rejection_precedes_kernels_gen :
  forall p t, validators_first p = true -> exec p t Raised -> no_kernel t.
Proof.
  intros p t Hv Hx. unfold validators_first in Hv.
  assert (chk p false <> Bad) by (destruct (chk p false); congruence).
  exact (proj2 (chk_sound p t Raised Hx false H)).
Qed.

(* ... and the skeletons extracted from /repo on this run all pass it *)
Lemma site_programs_checked : forallb (fun np => validators_first (snd np)) site_programs = true.
Proof. vm_compute. reflexivity. Qed.

Theorem rejection_precedes_kernels_proof :
  forall name p t, In (name, p) site_programs -> exec p t Raised -> no_kernel t.
Proof.
  intros name p t Hin Hx. apply (rejection_precedes_kernels_gen p); [|assumption].
  pose proof site_programs_checked as H. rewrite forallb_forall in H. exact (H (name, p) Hin).
Qed.

(* the check is not vacuous: a kernel before a guard is caught *)
Example validators_first_catches :
  validators_first (PSeq (PKer String.EmptyString) (PIf PRaise PSkip)) = false /\
  validators_first (PSeq (PIf PRaise PSkip) (PKer String.EmptyString)) = true /\
  (forall n k, exec (PSeq (PVal n) (PKer k)) [EVal n] Raised) /\
  site_programs <> [].
Proof.
  repeat split; [|discriminate]. intros n k. apply XSeqStop; [apply XValRej|discriminate].
Qed.

(* ---------------------------------------------------------------- all modelled operations at once *)

(* valid arguments (NumPy accepts): the generated validators raise nothing at all — in particular no
   internal class (OtherError / OverflowError / ZeroDivisionError / TypeError from the translated code) *)
Theorem valid_args_no_internal_error_proof :
  forall m : vop, vop_np_accepts m = true -> model_verdict m = None \/ model_verdict m = Some None.
Proof.
  intros m H. destruct m; cbn [vop_np_accepts model_verdict] in *; try (left; reflexivity); right; f_equal.
  - rewrite (normalize_axis_ok _ _ H). reflexivity.
  - rewrite (normalize_axes_ok _ _ H). reflexivity.
  - rewrite (proj1 (validator_transpose_spec_proof axes ndim) H). reflexivity.
  - rewrite (proj1 (validator_check_index_spec_proof i dim) H). reflexivity.
  - rewrite (proj1 (validator_reshape_spec_proof size sh) H). reflexivity.
  - pose proof (validator_broadcast_spec_proof s1 s2) as S. destruct (np_broadcast s1 s2); [rewrite S; reflexivity|discriminate].
  - pose proof (validator_broadcast_to_spec_proof s target) as S.
    destruct (np_broadcast_to s target); [rewrite S; reflexivity|discriminate].
  - rewrite (proj1 (validator_tensordot_spec_proof ea eb) H). reflexivity.
  - rewrite (proj1 (validator_coo_init_spec_proof ndata ncols nshape nrows)); [reflexivity|].
    apply negb_true_iff in H. exact H.
  - rewrite (proj1 (validator_caxes_spec_proof ndim ca) H). reflexivity.
  - apply Z.eqb_eq in H. rewrite (proj1 (validator_dot_1d_spec_proof la lb) H). reflexivity.
  - apply negb_true_iff, orb_false_iff in H. destruct H as [H1 H2]. apply Z.eqb_neq in H1, H2.
    rewrite (proj1 (validator_matmul_0d_spec_proof nda ndb) (conj H1 H2)). reflexivity.
  - apply Z.eqb_eq in H. rewrite (proj1 (validator_einsum_out_count_spec_proof cnt) H). reflexivity.
  - rewrite (proj1 (validator_moveaxis_spec_proof src dst ndim) H). reflexivity.
Qed.

(* invalid arguments: a clean class, before anything else (see rejection_precedes_kernels) *)
Theorem invalid_args_clean_rejection_proof :
  forall m : vop, vop_np_accepts m = false ->
    exists e, model_verdict m = Some (Some e) /\ clean e = true.
Proof.
  intros m H. destruct m; cbn [vop_np_accepts model_verdict] in *; try discriminate.
  - rewrite (normalize_axis_bad _ _ H). eexists; split; reflexivity.
  - rewrite (normalize_axes_bad _ _ H). eexists; split; reflexivity.
  - rewrite (proj2 (validator_transpose_spec_proof axes ndim) H). eexists; split; reflexivity.
  - rewrite (proj2 (validator_check_index_spec_proof i dim) H). eexists; split; reflexivity.
  - rewrite (proj2 (validator_reshape_spec_proof size sh) H). eexists; split; reflexivity.
  - pose proof (validator_broadcast_spec_proof s1 s2) as S. destruct (np_broadcast s1 s2); [discriminate|].
    rewrite S. eexists; split; reflexivity.
  - pose proof (validator_broadcast_to_spec_proof s target) as S.
    destruct (np_broadcast_to s target); [discriminate|]. rewrite S. eexists; split; reflexivity.
  - rewrite (proj2 (validator_tensordot_spec_proof ea eb) H). eexists; split; reflexivity.
  - rewrite (proj2 (validator_coo_init_spec_proof ndata ncols nshape nrows)); [eexists; split; reflexivity|].
    apply negb_false_iff in H. exact H.
  - rewrite (proj2 (validator_caxes_spec_proof ndim ca) H). eexists; split; reflexivity.
  - apply Z.eqb_neq in H. rewrite (proj2 (validator_dot_1d_spec_proof la lb) H). eexists; split; reflexivity.
  - apply negb_false_iff, orb_true_iff in H. rewrite !Z.eqb_eq in H.
    rewrite (proj2 (validator_matmul_0d_spec_proof nda ndb) H). eexists; split; reflexivity.
  - apply Z.eqb_neq in H. rewrite (proj2 (validator_einsum_out_count_spec_proof cnt) H). eexists; split; reflexivity.
  - rewrite (proj2 (validator_moveaxis_spec_proof src dst ndim) H). eexists; split; reflexivity.
Qed.

(* ---------------------------------------------------------------- non-vacuity *)
Example validators_nonvacuous :
  v_normalize_axis (-1) 3 = Ok 2 /\ v_normalize_axis 3 3 = Raise ValueError /\
  v_transpose_axes [2; 0; -2] 3 = Ok [2; 0; 1] /\ v_transpose_axes [0; -3; 1] 3 = Raise ValueError /\
  v_check_index (-3) 2 = Raise IndexError /\ v_reshape_check 6 [2; 3] = Ok VNone /\
  v_reshape_check 6 [4] = Raise ValueError /\
  v_broadcast_shape false [2; 1; 3] [5; 1] = Ok [2; 5; 3] /\
  v_broadcast_shape false [2; 3] [4] = Raise ValueError /\
  v_broadcast_shape true [1; 3] [2; 2; 3] = Ok [2; 2; 3] /\ v_broadcast_shape true [2; 3] [3] = Raise ValueError /\
  v_tensordot_check [3] [0] = Raise ValueError /\ v_tensordot_shortcut 3 = Ok false /\
  v_coo_init 2 3 1 1 = Raise ValueError /\
  v_check_caxes 3 (Some [0; 2]) = Ok VNone /\ v_check_caxes 3 (Some [2; 0]) = Raise ValueError.
Proof. repeat split; reflexivity. Qed.
