(* Proofs/CooIndexMaskP.v — part 1 of the COO indexing proofs (Model/CooIndex.v): the generated scalar
   fragments, range(), searchsorted on sorted input, and the mask kernels: for lexicographically
   sorted coordinates _compute_mask selects, for EVERY cut-over position, exactly the positions that
   match every row (mask_strategy_irrelevant_proof). *)
From Coq Require Import ZArith List Bool Lia ZifyBool Sorting.Sorted Sorting.Permutation.
From Verif Require Import Py PyExt PyIndex G_slicing S_indexing PySlice Slicing SlicingP Shape COO COOP
     NpIndex CooIndex.
Import ListNotations.
Open Scope Z_scope.

(* ================================================================ generated scalar fragments *)

Definition in_row (s e st c : Z) : bool :=
  ((c - s) mod st =? 0) && (((0 <? st) && (s <=? c) && (c <? e)) || ((st <? 0) && (c <=? s) && (e <? c))).

Lemma match1_spec s e st c : st <> 0 -> match1 (s, e, st) c = in_row s e st c.
Proof.
  intros Hst. unfold match1, in_row, s_filter_match, pv_bool.
  repeat (cbn; split_one); cbn; try reflexivity; try lia.
Qed.

Lemma coord_map_spec s e st c : st <> 0 -> coord_map s e st c = (c - s) / st.
Proof.
  intros Hst. unfold coord_map, s_coord_map, slice_pv, pv_int. cbn.
  destruct (Z.eqb_spec st 0); [contradiction|]. reflexivity.
Qed.

Lemma slice_len_spec s e st : st <> 0 -> slice_len s e st = range_len s e st.
Proof.
  intros Hst. unfold slice_len, s_slice_len, ext_slice_len, slice_pv, pv_int.
  destruct (Z.eqb_spec st 0); [contradiction|]. reflexivity.
Qed.

Lemma is_full_spec s e st d :
  is_full (NSlice s e st) d =
  ((s =? 0) && (e =? d) && (st =? 1)) || ((s =? d - 1) && (e =? -1) && (st =? -1)).
Proof.
  unfold is_full, s_prune_full_fwd, s_prune_full_rev, slice_pv, pv_bool.
  repeat (cbn; split_one); cbn; try reflexivity; try lia.
Qed.

(* ================================================================ range(start, stop, step) *)

Lemma range_len_nonneg s e st : st <> 0 -> 0 <= range_len s e st.
Proof.
  intros Hst. unfold range_len.
  destruct (Z.ltb_spec 0 st).
  - destruct (Z.ltb_spec s e); [|lia]. assert (0 <= (e - s - 1) / st) by (apply Z.div_pos; lia). lia.
  - destruct (Z.ltb_spec e s); [|lia]. assert (0 <= (s - e - 1) / (- st)) by (apply Z.div_pos; lia). lia.
Qed.

Lemma range_list_length s e st : length (range_list s e st) = Z.to_nat (range_len s e st).
Proof. unfold range_list. rewrite map_length, seq_length. reflexivity. Qed.

Lemma range_list_nth s e st (a : nat) :
  (a < length (range_list s e st))%nat -> nth a (range_list s e st) 0 = s + Z.of_nat a * st.
Proof.
  intros Ha. pose (f := fun i : nat => s + Z.of_nat i * st).
  rewrite (nth_indep _ 0 (f 0%nat)) by assumption.
  rewrite range_list_length in Ha. unfold range_list. fold f.
  rewrite map_nth, seq_nth by assumption. rewrite Nat.add_0_l. reflexivity.
Qed.

Lemma range_list_zat s e st a :
  0 <= a < range_len s e st -> zat (range_list s e st) a = s + a * st.
Proof.
  intros Ha. unfold zat. rewrite range_list_nth by (rewrite range_list_length; lia).
  rewrite Z2Nat.id by lia. reflexivity.
Qed.

(* bounds of the quotient *)
Lemma div_bounds x st : 0 < st -> st * (x / st) <= x < st * (x / st) + st.
Proof. intros H. pose proof (Z.div_mod x st ltac:(lia)). pose proof (Z.mod_pos_bound x st H). lia. Qed.

Lemma in_row_index s e st c :
  st <> 0 -> in_row s e st c = true ->
  0 <= (c - s) / st < range_len s e st /\ s + (c - s) / st * st = c.
Proof.
  intros Hst H. unfold in_row in H.
  apply andb_true_iff in H. destruct H as [Hm Hb].
  apply Z.eqb_eq in Hm.
  pose proof (Z.div_mod (c - s) st Hst) as Hdm. rewrite Hm in Hdm.
  set (q := (c - s) / st) in *.
  assert (Hc : c = s + q * st) by lia.
  split; [|lia].
  unfold range_len. apply orb_true_iff in Hb. destruct Hb as [Hb|Hb].
  - assert (0 < st /\ s <= c /\ c < e) as (H1 & H2 & H3) by lia.
    destruct (Z.ltb_spec 0 st); [|lia]. destruct (Z.ltb_spec s e); [|lia].
    pose proof (div_bounds (e - s - 1) st H1). nia.
  - assert (st < 0 /\ c <= s /\ e < c) as (H1 & H2 & H3) by lia.
    destruct (Z.ltb_spec 0 st); [lia|]. destruct (Z.ltb_spec e s); [|lia].
    pose proof (div_bounds (s - e - 1) (- st) ltac:(lia)). nia.
Qed.

Lemma index_in_row s e st a :
  st <> 0 -> 0 <= a < range_len s e st ->
  in_row s e st (s + a * st) = true /\ (s + a * st - s) / st = a.
Proof.
  intros Hst Ha.
  assert (Hq : (s + a * st - s) / st = a).
  { replace (s + a * st - s) with (a * st) by lia. apply Z.div_mul. assumption. }
  split; [|assumption].
  unfold in_row. apply andb_true_iff. split.
  - apply Z.eqb_eq. replace (s + a * st - s) with (a * st) by lia. apply Z.mod_mul. assumption.
  - unfold range_len in Ha. destruct (Z.ltb_spec 0 st).
    + destruct (Z.ltb_spec s e); [|lia].
      pose proof (div_bounds (e - s - 1) st H).
      apply orb_true_iff. left. assert (s <= s + a * st /\ s + a * st < e) by nia. lia.
    + destruct (Z.ltb_spec e s); [|lia].
      pose proof (div_bounds (s - e - 1) (- st) ltac:(lia)).
      apply orb_true_iff. right. assert (s + a * st <= s /\ e < s + a * st) by nia. lia.
Qed.

Lemma in_row_In s e st c : st <> 0 -> (in_row s e st c = true <-> In c (range_list s e st)).
Proof.
  intros Hst. split.
  - intros H. apply in_row_index in H; [|assumption]. destruct H as [Hb Hc].
    rewrite <- Hc. rewrite <- (range_list_zat s e st) by assumption.
    unfold zat. apply nth_In. rewrite range_list_length. lia.
  - intros H. apply (In_nth _ _ 0) in H. destruct H as [a [Ha Hn]].
    rewrite range_list_nth in Hn by assumption. rewrite range_list_length in Ha. subst c.
    apply index_in_row; [assumption|]. pose proof (range_len_nonneg s e st Hst). lia.
Qed.

Lemma range_list_SS_lt s e st : 0 < st -> StronglySorted Z.lt (range_list s e st).
Proof.
  intros Hst. unfold range_list. generalize (Z.to_nat (range_len s e st)) as n. generalize 0%nat as k.
  intros k n. revert k. induction n as [|n IH]; intros k; simpl; constructor; [apply IH|].
  apply Forall_forall. intros x Hx. apply in_map_iff in Hx. destruct Hx as [j [<- Hj]]. apply in_seq in Hj. nia.
Qed.

Lemma range_list_NoDup s e st : st <> 0 -> NoDup (range_list s e st).
Proof.
  intros Hst. unfold range_list. apply FinFun.Injective_map_NoDup; [|apply seq_NoDup].
  intros i j H. assert (Z.of_nat i * st = Z.of_nat j * st) by lia.
  apply Z.mul_cancel_r in H0; [lia|assumption].
Qed.

(* ================================================================ searchsorted on sorted input *)

(* non-decreasing, by position *)
Definition mono (l : list Z) : Prop :=
  forall p q, (p <= q)%nat -> (q < length l)%nat -> nth p l 0 <= nth q l 0.

Lemma mono_tail x l : mono (x :: l) -> mono l /\ (forall q, (q < length l)%nat -> x <= nth q l 0).
Proof.
  intros H. split.
  - intros p q Hpq Hq. apply (H (S p) (S q)); simpl; lia.
  - intros q Hq. apply (H 0%nat (S q)); simpl; lia.
Qed.

(* the partition point of a sorted list for a threshold predicate *)
Lemma partition_lt l v : mono l ->
  exists n, (n <= length l)%nat /\ (forall j, (j < n)%nat -> nth j l 0 < v)
            /\ (forall j, (n <= j < length l)%nat -> v <= nth j l 0).
Proof.
  induction l as [|x l IH]; intros Hm.
  - exists 0%nat. simpl. repeat split; intros; lia.
  - apply mono_tail in Hm. destruct Hm as [Hm Hx]. destruct (IH Hm) as [n [Hn [Hlt Hge]]].
    destruct (Z_lt_ge_dec x v) as [Hxv|Hxv].
    + exists (S n). simpl. repeat split; [lia| |].
      * intros [|j] Hj; [assumption|]. apply Hlt. lia.
      * intros [|j] Hj; [lia|]. apply Hge. lia.
    + exists 0%nat. simpl. repeat split; [lia|intros; lia|].
      intros [|j] Hj; [lia|]. specialize (Hx j ltac:(lia)). lia.
Qed.

Lemma partition_le l v : mono l ->
  exists n, (n <= length l)%nat /\ (forall j, (j < n)%nat -> nth j l 0 <= v)
            /\ (forall j, (n <= j < length l)%nat -> v < nth j l 0).
Proof.
  induction l as [|x l IH]; intros Hm.
  - exists 0%nat. simpl. repeat split; intros; lia.
  - apply mono_tail in Hm. destruct Hm as [Hm Hx]. destruct (IH Hm) as [n [Hn [Hlt Hge]]].
    destruct (Z_le_gt_dec x v) as [Hxv|Hxv].
    + exists (S n). simpl. repeat split; [lia| |].
      * intros [|j] Hj; [assumption|]. apply Hlt. lia.
      * intros [|j] Hj; [lia|]. apply Hge. lia.
    + exists 0%nat. simpl. repeat split; [lia|intros; lia|].
      intros [|j] Hj; [lia|]. specialize (Hx j ltac:(lia)). lia.
Qed.

Lemma half_bounds lo hi : (lo < hi)%nat -> (lo <= lo + (hi - lo) / 2 < hi)%nat.
Proof.
  intros H. pose proof (Nat.div_mod (hi - lo) 2 ltac:(lia)). pose proof (Nat.mod_upper_bound (hi - lo) 2 ltac:(lia)).
  lia.
Qed.

Lemma bisect_spec below l n :
  (n <= length l)%nat ->
  (forall j, (j < n)%nat -> below (nth j l 0) = true) ->
  (forall j, (n <= j < length l)%nat -> below (nth j l 0) = false) ->
  forall fuel lo hi, (lo <= n <= hi)%nat -> (hi <= length l)%nat -> (hi - lo < fuel)%nat ->
    bisect fuel below l lo hi = n.
Proof.
  intros Hn Ht Hf. induction fuel as [|f IH]; intros lo hi Hb Hh Hfu; [lia|].
  cbn [bisect]. destruct (Nat.ltb_spec lo hi) as [Hlt|Hge]; [|lia].
  pose proof (half_bounds lo hi Hlt) as Hmid. set (mid := (lo + (hi - lo) / 2)%nat) in *.
  destruct (below (nth mid l 0)) eqn:E.
  - assert (mid < n)%nat.
    { destruct (Nat.lt_ge_cases mid n); [assumption|]. rewrite Hf in E by lia. discriminate. }
    apply IH; lia.
  - assert (n <= mid)%nat.
    { destruct (Nat.lt_ge_cases mid n); [|assumption]. rewrite Ht in E by lia. discriminate. }
    apply IH; lia.
Qed.

(* searchsorted on a sorted list: characterised by what lies before and after the result *)
Lemma searchsorted_left_spec l v : mono l ->
  let n := searchsorted_left l v in
  (n <= length l)%nat /\ (forall j, (j < n)%nat -> nth j l 0 < v) /\ (forall j, (n <= j < length l)%nat -> v <= nth j l 0).
Proof.
  intros Hm. destruct (partition_lt l v Hm) as [n [Hn [Hlt Hge]]].
  assert (E : searchsorted_left l v = n).
  { unfold searchsorted_left. apply bisect_spec; try lia.
    - intros j Hj. apply Z.ltb_lt. auto.
    - intros j Hj. apply Z.ltb_ge. auto. }
  rewrite E. auto.
Qed.

Lemma searchsorted_right_spec l v : mono l ->
  let n := searchsorted_right l v in
  (n <= length l)%nat /\ (forall j, (j < n)%nat -> nth j l 0 <= v) /\ (forall j, (n <= j < length l)%nat -> v < nth j l 0).
Proof.
  intros Hm. destruct (partition_le l v Hm) as [n [Hn [Hlt Hge]]].
  assert (E : searchsorted_right l v = n).
  { unfold searchsorted_right. apply bisect_spec; try lia.
    - intros j Hj. apply Z.leb_le. auto.
    - intros j Hj. apply Z.leb_gt. auto. }
  rewrite E. auto.
Qed.

(* the [left, right) window holds exactly the positions of v *)
Lemma searchsorted_window l v : mono l ->
  (searchsorted_left l v <= searchsorted_right l v <= length l)%nat /\
  forall j, (j < length l)%nat ->
    ((searchsorted_left l v <= j < searchsorted_right l v)%nat <-> nth j l 0 = v).
Proof.
  intros Hm. destruct (searchsorted_left_spec l v Hm) as [HL [HLlt HLge]].
  destruct (searchsorted_right_spec l v Hm) as [HR [HRle HRgt]].
  set (L := searchsorted_left l v) in *. set (R := searchsorted_right l v) in *.
  assert (L <= R)%nat.
  { destruct (Nat.le_gt_cases L R); [assumption|]. specialize (HLlt R ltac:(lia)). specialize (HRgt R ltac:(lia)). lia. }
  split; [lia|]. intros j Hj. split.
  - intros [H1 H2]. specialize (HLge j ltac:(lia)). specialize (HRle j ltac:(lia)). lia.
  - intros E. split.
    + destruct (Nat.le_gt_cases L j); [assumption|]. specialize (HLlt j ltac:(lia)). lia.
    + destruct (Nat.le_gt_cases R j); [|assumption]. specialize (HRgt j ltac:(lia)). lia.
Qed.

(* ================================================================ generic list lemmas *)

Lemma flat_map_ext_in {A B} (f g : A -> list B) l :
  (forall a, In a l -> f a = g a) -> flat_map f l = flat_map g l.
Proof. induction l as [|a l IH]; simpl; intros H; [reflexivity|]. rewrite H, IH; auto. Qed.

Lemma flat_map_flat_map {A B C} (f : A -> list B) (g : B -> list C) l :
  flat_map g (flat_map f l) = flat_map (fun a => flat_map g (f a)) l.
Proof. induction l as [|a l IH]; simpl; [reflexivity|]. rewrite flat_map_app, IH. reflexivity. Qed.

Lemma filter_flat_map {A B} (p : B -> bool) (f : A -> list B) l :
  filter p (flat_map f l) = flat_map (fun a => filter p (f a)) l.
Proof. induction l as [|a l IH]; simpl; [reflexivity|]. rewrite filter_app, IH. reflexivity. Qed.

Lemma filter_filter {A} (p q : A -> bool) l : filter p (filter q l) = filter (fun x => q x && p x) l.
Proof.
  induction l as [|a l IH]; simpl; [reflexivity|]. destruct (q a); simpl; [destruct (p a); rewrite IH; reflexivity|assumption].
Qed.

Lemma SS_app_inv {A} (R : A -> A -> Prop) l1 l2 :
  StronglySorted R (l1 ++ l2) ->
  StronglySorted R l1 /\ StronglySorted R l2 /\ (forall a b, In a l1 -> In b l2 -> R a b).
Proof.
  induction l1 as [|x l1 IH]; simpl; intros H.
  - repeat split; [constructor|assumption|intros a b []].
  - inversion H as [|? ? Hs Hall]; subst. destruct (IH Hs) as [H1 [H2 H3]].
    rewrite Forall_app in Hall. destruct Hall as [Ha1 Ha2]. repeat split; [constructor; assumption|assumption|].
    intros a b [<-|Ha] Hb; [rewrite Forall_forall in Ha2; auto|auto].
Qed.

(* replacing every piece of a sorted concatenation by a sorted sub-piece keeps it sorted *)
Lemma SS_flat_map_refine {A B} (R : B -> B -> Prop) (F G : A -> list B) l :
  StronglySorted R (flat_map F l) ->
  (forall a, In a l -> StronglySorted R (G a)) ->
  (forall a x, In a l -> In x (G a) -> In x (F a)) ->
  StronglySorted R (flat_map G l).
Proof.
  induction l as [|a l IH]; simpl; intros Hs HG Hsub; [constructor|].
  apply SS_app_inv in Hs. destruct Hs as [H1 [H2 H3]].
  apply SS_app.
  - apply HG; left; reflexivity.
  - apply IH; [assumption|intros; apply HG; right; assumption|intros; apply Hsub; [right|]; assumption].
  - intros x y Hx Hy. apply H3; [apply Hsub; [left; reflexivity|assumption]|].
    apply in_flat_map in Hy. destruct Hy as [a' [Ha' Hy]]. apply in_flat_map. exists a'.
    split; [assumption|]. apply Hsub; [right|]; assumption.
Qed.

Lemma NoDup_app_intro {A} (l1 l2 : list A) :
  NoDup l1 -> NoDup l2 -> (forall x, In x l1 -> In x l2 -> False) -> NoDup (l1 ++ l2).
Proof.
  induction l1 as [|a l1 IH]; simpl; intros H1 H2 Hd; [assumption|].
  inversion H1; subst. constructor.
  - rewrite in_app_iff. intros [?|?]; [auto|]. eapply Hd; eauto.
  - apply IH; auto. intros x Hx. apply Hd. auto.
Qed.

Lemma NoDup_app_inv {A} (l1 l2 : list A) :
  NoDup (l1 ++ l2) -> NoDup l1 /\ NoDup l2 /\ (forall x, In x l1 -> In x l2 -> False).
Proof.
  induction l1 as [|a l1 IH]; simpl; intros H.
  - repeat split; [constructor|assumption|intros x []].
  - inversion H as [|? ? Hn Hnd]; subst. destruct (IH Hnd) as [H1 [H2 H3]].
    rewrite in_app_iff in Hn. repeat split; [constructor; tauto|assumption|].
    intros x [<-|Hx] Hx2; [tauto|eauto].
Qed.

Lemma NoDup_flat_map_refine {A B} (F G : A -> list B) l :
  NoDup (flat_map F l) ->
  (forall a, In a l -> NoDup (G a)) ->
  (forall a x, In a l -> In x (G a) -> In x (F a)) ->
  NoDup (flat_map G l).
Proof.
  induction l as [|a l IH]; simpl; intros Hs HG Hsub; [constructor|].
  apply NoDup_app_inv in Hs. destruct Hs as [H1 [H2 H3]].
  apply NoDup_app_intro.
  - apply HG; left; reflexivity.
  - apply IH; [assumption|intros; apply HG; right; assumption|intros; apply Hsub; [right|]; assumption].
  - intros x Hx Hy. apply (H3 x); [apply Hsub; [left; reflexivity|assumption]|].
    apply in_flat_map in Hy. destruct Hy as [a' [Ha' Hy]]. apply in_flat_map. exists a'.
    split; [assumption|]. apply Hsub; [right|]; assumption.
Qed.

(* pieces indexed by distinct keys, pairwise disjoint / ordered *)
Lemma NoDup_flat_map_keys {A B} (F : A -> list B) l :
  NoDup l -> (forall a, In a l -> NoDup (F a)) ->
  (forall a a' x, In a l -> In a' l -> In x (F a) -> In x (F a') -> a = a') ->
  NoDup (flat_map F l).
Proof.
  induction l as [|a l IH]; simpl; intros Hnd HF Hd; [constructor|].
  inversion Hnd as [|? ? Ha Hnd']; subst.
  apply NoDup_app_intro.
  - apply HF; left; reflexivity.
  - apply IH; [assumption|intros; apply HF; right; assumption|].
    intros b b' x Hb Hb'. apply Hd; right; assumption.
  - intros x Hx Hy. apply in_flat_map in Hy. destruct Hy as [a' [Ha' Hy]].
    assert (a = a') by (apply (Hd a a' x); [left; reflexivity|right; assumption|assumption|assumption]). subst. contradiction.
Qed.

Lemma SS_flat_map_keys {A B} (RA : A -> A -> Prop) (R : B -> B -> Prop) (F : A -> list B) l :
  StronglySorted RA l -> (forall a, In a l -> StronglySorted R (F a)) ->
  (forall a a' x y, RA a a' -> In x (F a) -> In y (F a') -> R x y) ->
  StronglySorted R (flat_map F l).
Proof.
  induction 1 as [|a l Hs IH Hall]; simpl; intros HF Ho; [constructor|].
  apply SS_app.
  - apply HF; left; reflexivity.
  - apply IH; [intros; apply HF; right; assumption|assumption].
  - intros x y Hx Hy. apply in_flat_map in Hy. destruct Hy as [a' [Ha' Hy]].
    rewrite Forall_forall in Hall. eapply Ho; eauto.
Qed.

Lemma SS_lt_same_members (l1 l2 : list nat) :
  StronglySorted lt l1 -> StronglySorted lt l2 -> (forall x, In x l1 <-> In x l2) -> l1 = l2.
Proof.
  intros H1. revert l2. induction H1 as [|a l1 Hs1 IH Hall1]; intros l2 H2 Hm.
  - destruct l2 as [|b l2]; [reflexivity|]. exfalso. apply (Hm b). left; reflexivity.
  - destruct H2 as [|b l2 Hs2 Hall2]; [exfalso; apply (Hm a); left; reflexivity|].
    rewrite Forall_forall in Hall1, Hall2.
    assert (a = b).
    { destruct (proj1 (Hm a) (or_introl eq_refl)) as [->|Ha]; [reflexivity|].
      destruct (proj2 (Hm b) (or_introl eq_refl)) as [->|Hb]; [reflexivity|].
      specialize (Hall1 _ Hb). specialize (Hall2 _ Ha). lia. }
    subst b. f_equal. apply IH; [assumption|].
    intros x. split; intros Hx.
    + destruct (proj1 (Hm x) (or_intror Hx)) as [->|?]; [|assumption]. specialize (Hall1 _ Hx). lia.
    + destruct (proj2 (Hm x) (or_intror Hx)) as [->|?]; [|assumption]. specialize (Hall2 _ Hx). lia.
Qed.

Lemma SS_seq a n : StronglySorted lt (seq a n).
Proof.
  revert a; induction n as [|n IH]; intros a; simpl; constructor; [apply IH|].
  apply Forall_forall. intros x Hx. apply in_seq in Hx. lia.
Qed.

Lemma SS_lt_NoDup (l : list nat) : StronglySorted lt l -> NoDup l.
Proof.
  induction 1 as [|a l Hs IH Hall]; constructor; [|assumption].
  intros Hin. rewrite Forall_forall in Hall. specialize (Hall _ Hin). lia.
Qed.

Lemma SS_nth {A} (R : A -> A -> Prop) l d p q :
  StronglySorted R l -> (p < q)%nat -> (q < length l)%nat -> R (nth p l d) (nth q l d).
Proof.
  intros Hs. revert p q. induction Hs as [|a l Hs IH Hall]; intros p q Hpq Hq; simpl in Hq; [lia|].
  destruct q as [|q]; [lia|]. destruct p as [|p]; simpl.
  - rewrite Forall_forall in Hall. apply Hall. apply nth_In. lia.
  - apply IH; lia.
Qed.

(* ================================================================ the mask kernels *)

Definition ranges (ps : list (nat * nat)) : list nat :=
  flat_map (fun p => seq (fst p) (snd p - fst p)) ps.

Lemma ranges_flat_map {A} (f : A -> list (nat * nat)) l :
  ranges (flat_map f l) = flat_map (fun a => ranges (f a)) l.
Proof. apply flat_map_flat_map. Qed.

Lemma seg_length {A} (l : list A) a b : (b <= length l)%nat -> length (seg l a b) = (b - a)%nat.
Proof. intros H. unfold seg. rewrite firstn_length, skipn_length. lia. Qed.

Lemma nth_firstn_lt {A} (l : list A) m k d : (k < m)%nat -> nth k (firstn m l) d = nth k l d.
Proof.
  revert l k. induction m as [|m IH]; intros l k H; [lia|].
  destruct l as [|x l]; simpl; [destruct k; reflexivity|]. destruct k as [|k]; [reflexivity|]. apply IH. lia.
Qed.

Lemma nth_skipn_add {A} (l : list A) a k d : nth k (skipn a l) d = nth (a + k) l d.
Proof.
  revert l. induction a as [|a IH]; intros l; [reflexivity|].
  destruct l as [|x l]; simpl; [destruct k; reflexivity|]. apply IH.
Qed.

Lemma seg_nth {A} (l : list A) a b k d : (k < b - a)%nat -> nth k (seg l a b) d = nth (a + k) l d.
Proof. intros H. unfold seg. rewrite nth_firstn_lt by assumption. apply nth_skipn_add. Qed.

Lemma col_nth i pts j : nth j (col i pts) 0 = nth i (nth j pts []) 0.
Proof.
  unfold col. destruct (Nat.lt_ge_cases j (length pts)) as [H|H].
  - pose (f := fun t : idx => nth i t 0).
    rewrite (nth_indep _ 0 (f [])) by (rewrite map_length; assumption).
    fold f. rewrite map_nth. reflexivity.
  - rewrite (nth_overflow (map _ pts)) by (rewrite map_length; lia).
    rewrite (nth_overflow pts) by lia. destruct i; reflexivity.
Qed.

Lemma lex_prefix_le x y i : lex_lt x y -> firstn i x = firstn i y -> nth i x 0 <= nth i y 0.
Proof.
  revert x y. induction i as [|i IH]; intros [|a x] [|b y]; simpl; try tauto.
  - intros [H|[-> _]] _; lia.
  - intros Hl He. inversion He; subst. destruct Hl as [H|[_ H]]; [lia|]. apply IH; assumption.
Qed.

Lemma firstn_S_eq (x y : idx) i :
  (i < length x)%nat -> (i < length y)%nat ->
  firstn i x = firstn i y -> nth i x 0 = nth i y 0 -> firstn (S i) x = firstn (S i) y.
Proof.
  revert x y. induction i as [|i IH]; intros [|a x] [|b y]; simpl; intros Hx Hy He Hn; try lia.
  - congruence.
  - inversion He; subst. f_equal. apply IH; auto; lia.
Qed.

Lemma match_all_app l1 l2 t :
  match_all (l1 ++ l2) t = match_all l1 t && match_all l2 (skipn (length l1) t).
Proof.
  revert t. induction l1 as [|x l1 IH]; intros t; simpl; [reflexivity|].
  destruct t as [|c t]; [reflexivity|]. rewrite IH, andb_assoc. reflexivity.
Qed.

Lemma skipn_nth_cons (t : idx) i : (i < length t)%nat -> skipn i t = nth i t 0 :: skipn (S i) t.
Proof.
  revert t. induction i as [|i IH]; intros [|c t]; simpl; intros H; try lia; [reflexivity|].
  apply IH. lia.
Qed.

Section Mask.
  Variable pts : points.
  Let n := length pts.
  Definition pt (j : nat) : idx := nth j pts [].
  Hypothesis Hsorted : StronglySorted lex_lt pts.

  Definition block (i a b : nat) : Prop :=
    forall p q, (a <= p < b)%nat -> (a <= q < b)%nat -> firstn i (pt p) = firstn i (pt q).

  Lemma pts_lex p q : (p < q)%nat -> (q < n)%nat -> lex_lt (pt p) (pt q).
  Proof. intros. unfold pt. apply SS_nth; assumption. Qed.

  Lemma block_mono i a b : (b <= n)%nat -> block i a b -> mono (seg (col i pts) a b).
  Proof.
    intros Hb Hbl p q Hpq Hq. rewrite seg_length in Hq by (unfold col; rewrite map_length; exact Hb).
    rewrite !seg_nth by lia. rewrite !col_nth.
    destruct (Nat.eq_dec p q) as [->|Hne]; [lia|].
    apply lex_prefix_le; [apply pts_lex; lia|]. apply Hbl; lia.
  Qed.

  (* the positions one binary-search window denotes *)
  Definition window (i a b : nat) (v : Z) : list nat :=
    let c := seg (col i pts) a b in
    seq (searchsorted_left c v + a) (searchsorted_right c v + a - (searchsorted_left c v + a)).

  Definition colv (i j : nat) : Z := nth i (pt j) 0.

  Lemma window_spec i a b v :
    (a <= b)%nat -> (b <= n)%nat -> block i a b ->
    window i a b v = filter (fun j => colv i j =? v) (seq a (b - a)).
  Proof.
    intros Hab Hb Hbl. pose proof (block_mono i a b Hb Hbl) as Hm.
    destruct (searchsorted_window _ v Hm) as [Hlr Hw].
    assert (Hlen : length (seg (col i pts) a b) = (b - a)%nat)
      by (apply seg_length; unfold col; rewrite map_length; exact Hb).
    rewrite Hlen in Hlr, Hw.
    apply SS_lt_same_members; [apply SS_seq|apply SS_filter, SS_seq|].
    intros j. unfold window. rewrite filter_In, !in_seq, Z.eqb_eq. split.
    - intros Hj. assert (Hk : (j - a < b - a)%nat) by lia.
      split; [lia|]. specialize (Hw (j - a)%nat Hk).
      rewrite seg_nth, col_nth in Hw by lia. replace (a + (j - a))%nat with j in Hw by lia.
      apply Hw. lia.
    - intros [Hj He]. assert (Hk : (j - a < b - a)%nat) by lia.
      specialize (Hw (j - a)%nat Hk).
      rewrite seg_nth, col_nth in Hw by lia. replace (a + (j - a))%nat with j in Hw by lia.
      apply Hw in He. lia.
  Qed.

  Lemma window_bounds i a b v :
    (a <= b)%nat -> (b <= n)%nat -> block i a b ->
    let c := seg (col i pts) a b in
    (a <= searchsorted_left c v + a <= searchsorted_right c v + a)%nat /\ (searchsorted_right c v + a <= b)%nat.
  Proof.
    intros Hab Hb Hbl. pose proof (block_mono i a b Hb Hbl) as Hm.
    destruct (searchsorted_window _ v Hm) as [Hlr _].
    rewrite seg_length in Hlr by (unfold col; rewrite map_length; exact Hb). simpl. lia.
  Qed.

  (* what one pair contributes after narrowing by row t on axis i *)
  Definition sub_pairs (i : nat) (t : triple) (p : nat * nat) : list (nat * nat) :=
    let '(a, b) := p in
    flat_map (fun v =>
      let start := (searchsorted_left (seg (col i pts) a b) v + a)%nat in
      let stop := (searchsorted_right (seg (col i pts) a b) v + a)%nat in
      if (start =? stop)%nat then [] else [(start, stop)]) (row_range t).

  Lemma get_mask_pairs_eq ps i t : get_mask_pairs ps (col i pts) t = flat_map (sub_pairs i t) ps.
  Proof. unfold get_mask_pairs. apply flat_map_ext. intros [a b]. reflexivity. Qed.

  Definition sub_sel (i : nat) (t : triple) (p : nat * nat) : list nat :=
    flat_map (fun v => filter (fun j => colv i j =? v) (seq (fst p) (snd p - fst p))) (row_range t).

  Lemma ranges_sub_pairs i t a b :
    (a <= b)%nat -> (b <= n)%nat -> block i a b ->
    ranges (sub_pairs i t (a, b)) = sub_sel i t (a, b).
  Proof.
    intros Hab Hb Hbl. unfold sub_pairs, sub_sel. cbn [fst snd]. rewrite ranges_flat_map. apply flat_map_ext. intros v.
    rewrite <- (window_spec i a b v Hab Hb Hbl). unfold window. cbv zeta.
    destruct (Nat.eqb_spec (searchsorted_left (seg (col i pts) a b) v + a)
                           (searchsorted_right (seg (col i pts) a b) v + a)) as [E|E].
    - rewrite E, Nat.sub_diag. reflexivity.
    - unfold ranges. simpl. rewrite app_nil_r. reflexivity.
  Qed.

  Definition step_of (t : triple) : Z := snd t.
  Definition row_ok (t : triple) : Prop := step_of t <> 0.

  Lemma match1_In t c : row_ok t -> (match1 t c = true <-> In c (row_range t)).
  Proof.
    destruct t as [[s e] st]. unfold row_ok, step_of. cbn [snd]. intros Hst.
    rewrite match1_spec by assumption. unfold row_range. apply in_row_In. assumption.
  Qed.

  Lemma sub_sel_In i t p j :
    row_ok t -> (In j (sub_sel i t p) <-> In j (seq (fst p) (snd p - fst p)) /\ match1 t (colv i j) = true).
  Proof.
    intros Hok. unfold sub_sel. rewrite in_flat_map. split.
    - intros [v [Hv Hj]]. apply filter_In in Hj. destruct Hj as [Hj He]. apply Z.eqb_eq in He.
      split; [assumption|]. apply match1_In; [assumption|]. rewrite He. assumption.
    - intros [Hj Hm]. apply match1_In in Hm; [|assumption]. exists (colv i j). split; [assumption|].
      apply filter_In. split; [assumption|apply Z.eqb_refl].
  Qed.

  Lemma sub_sel_NoDup i t p : row_ok t -> NoDup (sub_sel i t p).
  Proof.
    intros Hok. unfold sub_sel. apply NoDup_flat_map_keys.
    - destruct t as [[s e] st]. apply range_list_NoDup. exact Hok.
    - intros v _. apply NoDup_filter, seq_NoDup.
    - intros v v' j _ _ H1 H2. apply filter_In in H1, H2. destruct H1 as [_ H1], H2 as [_ H2]. lia.
  Qed.

  Lemma sub_sel_SS i t a b :
    0 < step_of t -> (b <= n)%nat -> block i a b -> StronglySorted lt (sub_sel i t (a, b)).
  Proof.
    intros Hpos Hb Hbl. unfold sub_sel. apply (SS_flat_map_keys Z.lt).
    - destruct t as [[s e] st]. apply range_list_SS_lt. exact Hpos.
    - intros v _. apply SS_filter, SS_seq.
    - intros v v' x y Hv Hx Hy. apply filter_In in Hx, Hy. simpl in Hx, Hy.
      destruct Hx as [Hx Ex], Hy as [Hy Ey]. apply in_seq in Hx, Hy. apply Z.eqb_eq in Ex, Ey.
      destruct (Nat.lt_ge_cases x y) as [?|Hge]; [assumption|exfalso].
      assert (colv i y <= colv i x).
      { destruct (Nat.eq_dec x y) as [->|Hne]; [lia|]. unfold colv. apply lex_prefix_le; [apply pts_lex; lia|].
        apply Hbl; lia. }
      lia.
  Qed.

  (* ---- the invariant of the narrowing loop: `done` = rows consumed so far, i = their number *)
  Definition pairs_ok (i : nat) (ps : list (nat * nat)) : Prop :=
    forall a b, In (a, b) ps -> (a <= b)%nat /\ (b <= n)%nat /\ block i a b.

  Definition points_long (k : nat) : Prop := forall j, (j < n)%nat -> (k <= length (pt j))%nat.

  Record inv (done : list triple) (ps : list (nat * nat)) : Prop := {
    inv_pairs : pairs_ok (length done) ps;
    inv_mem : forall j, In j (ranges ps) <-> (j < n)%nat /\ match_all done (pt j) = true;
    inv_nodup : NoDup (ranges ps);
    inv_sorted : Forall (fun t => 0 < step_of t) done -> StronglySorted lt (ranges ps)
  }.

  Lemma inv_init : inv [] [(0%nat, n)].
  Proof.
    constructor.
    - intros a b [H|[]]. inversion H; subst. split; [lia|]. split; [lia|]. intros p q _ _. reflexivity.
    - intros j. unfold ranges. simpl. rewrite app_nil_r, in_seq. split; [intros; split; [lia|reflexivity]|lia].
    - unfold ranges. simpl. rewrite app_nil_r. apply seq_NoDup.
    - intros _. unfold ranges. simpl. rewrite app_nil_r. apply SS_seq.
  Qed.

  Lemma ranges_step (done : list triple) ps t :
    pairs_ok (length done) ps ->
    ranges (get_mask_pairs ps (col (length done) pts) t) = flat_map (sub_sel (length done) t) ps.
  Proof.
    intros Hok. rewrite get_mask_pairs_eq, ranges_flat_map. apply flat_map_ext_in. intros [a b] Hin.
    destruct (Hok a b Hin) as [H1 [H2 H3]]. apply ranges_sub_pairs; assumption.
  Qed.

  Lemma inv_step (done : list triple) ps t :
    row_ok t -> points_long (S (length done)) -> inv done ps ->
    inv (done ++ [t]) (get_mask_pairs ps (col (length done) pts) t).
  Proof.
    intros Hok Hlong [Hp Hm Hnd Hss]. set (i := length done) in *.
    assert (Hr := ranges_step done ps t Hp). fold i in Hr.
    constructor.
    - (* new pairs are blocks one level deeper *)
      rewrite app_length. cbn [length]. rewrite Nat.add_1_r. fold i.
      intros a' b' Hin. rewrite get_mask_pairs_eq in Hin. apply in_flat_map in Hin.
      destruct Hin as [[a b] [Hab Hin]]. destruct (Hp a b Hab) as [H1 [H2 H3]].
      unfold sub_pairs in Hin. apply in_flat_map in Hin. destruct Hin as [v [Hv Hin]]. cbv zeta in Hin.
      destruct (window_bounds i a b v H1 H2 H3) as [Hb1 Hb2]. cbv zeta in Hb1, Hb2.
      destruct (Nat.eqb_spec (searchsorted_left (seg (col i pts) a b) v + a)
                             (searchsorted_right (seg (col i pts) a b) v + a)) as [E|E]; [destruct Hin|].
      destruct Hin as [Hin|[]]. inversion Hin; subst a' b'. clear Hin.
      repeat split; try lia.
      intros p q Hpq Hq.
      assert (Hwin := window_spec i a b v H1 H2 H3). unfold window in Hwin. cbv zeta in Hwin.
      assert (Hcp : In p (filter (fun j => colv i j =? v) (seq a (b - a)))) by (rewrite <- Hwin; apply in_seq; lia).
      assert (Hcq : In q (filter (fun j => colv i j =? v) (seq a (b - a)))) by (rewrite <- Hwin; apply in_seq; lia).
      apply filter_In in Hcp, Hcq. destruct Hcp as [Hcp Ep], Hcq as [Hcq Eq]. apply in_seq in Hcp, Hcq.
      apply Z.eqb_eq in Ep, Eq.
      apply firstn_S_eq; [apply (Hlong p); lia|apply (Hlong q); lia|apply H3; lia|].
      unfold colv in Ep, Eq. congruence.
    - (* membership *)
      intros j. rewrite Hr, in_flat_map. rewrite match_all_app. split.
      + intros [[a b] [Hab Hj]]. apply sub_sel_In in Hj; [|assumption]. destruct Hj as [Hj Hmj]. simpl in Hj.
        assert (Hjr : In j (ranges ps)) by (unfold ranges; apply in_flat_map; exists (a, b); auto).
        apply Hm in Hjr. destruct Hjr as [Hjn Hmd]. split; [assumption|]. rewrite Hmd. simpl.
        fold i. rewrite (skipn_nth_cons (pt j) i) by (apply (Hlong j); assumption). simpl.
        unfold colv in Hmj. rewrite Hmj. reflexivity.
      + intros [Hjn Hmm]. apply andb_true_iff in Hmm. destruct Hmm as [Hmd Hmt].
        assert (Hjr : In j (ranges ps)) by (apply Hm; auto).
        unfold ranges in Hjr. apply in_flat_map in Hjr. destruct Hjr as [[a b] [Hab Hj]].
        exists (a, b). split; [assumption|]. apply sub_sel_In; [assumption|]. split; [assumption|].
        fold i in Hmt. rewrite (skipn_nth_cons (pt j) i) in Hmt by (apply (Hlong j); assumption). simpl in Hmt.
        apply andb_true_iff in Hmt. unfold colv. tauto.
    - rewrite Hr. apply (NoDup_flat_map_refine (fun p => seq (fst p) (snd p - fst p))); [exact Hnd| |].
      + intros p _. apply sub_sel_NoDup. assumption.
      + intros p x _ Hx. apply sub_sel_In in Hx; tauto.
    - intros Hall. apply Forall_app in Hall. destruct Hall as [Hd Ht]. inversion Ht; subst.
      rewrite Hr. apply (SS_flat_map_refine lt (fun p => seq (fst p) (snd p - fst p))); [apply Hss; assumption| |].
      + intros [a b] Hab. destruct (Hp a b Hab) as [Q1 [Q2 Q3]]. apply sub_sel_SS; assumption.
      + intros p x _ Hx. apply sub_sel_In in Hx; tauto.
  Qed.
End Mask.

Lemma ranges_join_from a b r :
  (a <= b)%nat -> (forall a' b', In (a', b') r -> (a' <= b')%nat) ->
  ranges (join_from a b r) = seq a (b - a) ++ ranges r.
Proof.
  revert a b. induction r as [|[a' b'] r IH]; intros a b Hab Hr; simpl.
  - reflexivity.
  - assert (Hab' : (a' <= b')%nat) by (apply Hr; left; reflexivity).
    assert (Hr' : forall x y, In (x, y) r -> (x <= y)%nat) by (intros; apply Hr; right; assumption).
    destruct (Nat.eqb_spec a' b) as [->|Hne].
    + rewrite IH by (try lia; assumption). unfold ranges at 2. simpl. fold (ranges r).
      rewrite app_assoc. f_equal. replace (b' - a)%nat with ((b - a) + (b' - b))%nat by lia.
      rewrite seq_app. f_equal. f_equal. lia.
    + unfold ranges at 1. simpl. fold (ranges (join_from a' b' r)). rewrite IH by assumption. reflexivity.
Qed.

Lemma ranges_join ps :
  (forall a b, In (a, b) ps -> (a <= b)%nat) -> ranges (join_adjacent_pairs ps) = ranges ps.
Proof.
  destruct ps as [|[a b] r]; intros H; [reflexivity|]. simpl.
  rewrite ranges_join_from; [reflexivity|apply H; left; reflexivity|intros; apply H; right; assumption].
Qed.

Section MaskThm.
  Variable pts : points.
  Hypothesis Hsorted : StronglySorted lex_lt pts.
  Let n := length pts.

  Lemma narrow_inv k : forall inds done ps,
    inv pts done ps -> Forall row_ok inds -> points_long pts (length done + length inds) ->
    exists ps', narrow k (length done) ps pts inds = (length (done ++ firstn k inds), ps', skipn k inds)
                /\ inv pts (done ++ firstn k inds) ps'.
  Proof.
    induction k as [|k IH]; intros inds done ps Hinv Hok Hlong.
    - exists ps. simpl. rewrite app_nil_r. auto.
    - destruct inds as [|t r].
      + exists ps. simpl. rewrite app_nil_r. auto.
      + inversion Hok as [|? ? Ht Hr]; subst. cbn [narrow firstn skipn].
        assert (Hstep : inv pts (done ++ [t]) (get_mask_pairs ps (col (length done) pts) t)).
        { apply inv_step; try assumption. intros j Hj. specialize (Hlong j Hj). simpl in Hlong. lia. }
        destruct (IH r (done ++ [t]) _ Hstep Hr) as [ps' [E Hi]].
        { intros j Hj. specialize (Hlong j Hj). rewrite app_length. simpl in *. lia. }
        exists ps'. rewrite app_length in E. cbn [length] in E. rewrite Nat.add_1_r in E.
        rewrite <- app_assoc in E, Hi. simpl in E, Hi. auto.
  Qed.

  Lemma filter_pairs_eq ps i rest :
    filter_pairs ps (map (skipn i) pts) rest
    = filter (fun j => match_all rest (skipn i (pt pts j))) (ranges ps).
  Proof.
    unfold filter_pairs, ranges. rewrite filter_flat_map. apply flat_map_ext. intros p.
    apply filter_ext. intros j. f_equal. unfold pt.
    transitivity (nth j (map (skipn i) pts) (skipn i [])); [rewrite skipn_nil; reflexivity|apply map_nth].
  Qed.

  Lemma filter_true {A} (f : A -> bool) l : (forall x, f x = true) -> filter f l = l.
  Proof. intros H. induction l as [|a l IH]; simpl; [reflexivity|]. rewrite H, IH. reflexivity. Qed.

  Definition mask_spec (inds : list triple) : list nat :=
    filter (fun j => match_all inds (pt pts j)) (seq 0 n).

  Theorem mask_strategy_irrelevant_proof (inds : list triple) :
    Forall row_ok inds -> points_long pts (length inds) ->
    forall k,
      let m := mask_positions (compute_mask k pts inds) in
      NoDup m /\ (forall j, In j m <-> In j (mask_spec inds))
      /\ (Forall (fun t => 0 < step_of t) (firstn k inds) -> m = mask_spec inds).
  Proof.
    intros Hok Hlong k.
    destruct (narrow_inv k inds [] _ (inv_init pts) Hok Hlong) as [ps' [E Hinv]].
    simpl in E, Hinv. fold n in E.
    assert (Hm : mask_positions (compute_mask k pts inds)
                 = filter (fun j => match_all (skipn k inds) (skipn (length (firstn k inds)) (pt pts j))) (ranges ps')).
    { unfold compute_mask. fold n. rewrite E.
      assert (Hj : ranges (join_adjacent_pairs ps') = ranges ps').
      { apply ranges_join. intros a b Hab. apply (inv_pairs _ _ _ Hinv a b Hab). }
      destruct (skipn k inds) as [|t r] eqn:Er.
      - destruct (join_adjacent_pairs ps') as [|[a b] [|q l]] eqn:Ej.
        + cbn [mask_positions]. rewrite filter_pairs_eq, Hj. reflexivity.
        + cbn [mask_positions]. rewrite filter_true by reflexivity. rewrite <- Hj. unfold ranges. simpl. rewrite app_nil_r. reflexivity.
        + cbn [mask_positions]. rewrite filter_pairs_eq, Hj. reflexivity.
      - destruct (join_adjacent_pairs ps') as [|[a b] [|q l]] eqn:Ej; cbn [mask_positions]; rewrite filter_pairs_eq, Hj; reflexivity. }
    assert (Hmem : forall j, In j (mask_positions (compute_mask k pts inds)) <-> In j (mask_spec inds)).
    { intros j. rewrite Hm. unfold mask_spec. rewrite !filter_In, in_seq.
      rewrite (inv_mem _ _ _ Hinv j). fold n.
      assert (Hsplit : match_all inds (pt pts j)
                       = match_all (firstn k inds) (pt pts j)
                         && match_all (skipn k inds) (skipn (length (firstn k inds)) (pt pts j)))
        by (rewrite <- match_all_app, firstn_skipn; reflexivity).
      rewrite Hsplit, andb_true_iff. split; intros; [split; [lia|tauto]|tauto]. }
    cbv zeta. split; [|split].
    - rewrite Hm. apply NoDup_filter. apply (inv_nodup _ _ _ Hinv).
    - exact Hmem.
    - intros Hpos. apply SS_lt_same_members.
      + rewrite Hm. apply SS_filter. apply (inv_sorted _ _ _ Hinv Hpos).
      + unfold mask_spec. apply SS_filter, SS_seq.
      + exact Hmem.
  Qed.
End MaskThm.

(* the property-level form: for EVERY cut-over position the mask is the filter spec — as a set of
   positions always, as a list when the rows narrowed by binary search have positive steps *)
Theorem mask_strategy_irrelevant_perm (pts : points) (inds : list triple) :
  StronglySorted lex_lt pts -> Forall row_ok inds -> points_long pts (length inds) ->
  forall k,
    Permutation (mask_positions (compute_mask k pts inds)) (mask_spec pts inds)
    /\ (Forall (fun t => 0 < step_of t) (firstn k inds) ->
        mask_positions (compute_mask k pts inds) = mask_spec pts inds).
Proof.
  intros Hs Hok Hlong k. destruct (mask_strategy_irrelevant_proof pts Hs inds Hok Hlong k) as [Hnd [Hmem Heq]].
  split; [|exact Heq]. apply NoDup_Permutation; [exact Hnd|apply NoDup_filter, seq_NoDup|exact Hmem].
Qed.

(* non-vacuity: sorted coordinates of a 2-d array, rows x[1:3, ::-1]; every cut-over gives positions 2,3,4 *)
Example mask_nonvacuous :
  let pts := [[0; 1]; [0; 2]; [1; 0]; [1; 2]; [2; 1]; [3; 0]] in
  let inds := [(1, 3, 1); (2, -1, -1)] in
  StronglySorted lex_lt pts /\ Forall row_ok inds /\ points_long pts (length inds)
  /\ mask_spec pts inds = [2; 3; 4]%nat
  /\ mask_positions (compute_mask 0 pts inds) = [2; 3; 4]%nat
  /\ mask_positions (compute_mask 1 pts inds) = [2; 3; 4]%nat
  /\ Permutation (mask_positions (compute_mask 2 pts inds)) [2; 3; 4]%nat.
Proof.
  cbv zeta. split; [apply sorted_strict_SS; reflexivity|]. split; [repeat constructor; discriminate|].
  split; [intros j Hj; simpl in Hj; do 6 (destruct j as [|j]; [simpl; lia|]); lia|].
  split; [reflexivity|]. split; [reflexivity|]. split; [reflexivity|].
  vm_compute. apply perm_swap.  (* narrowing on the reversed axis visits 3 before 2 *)
Qed.
