(* Proofs/CreateP.v — eye / full / zeros / ones denote what NumPy's functions denote, and are canonical.
   The eye lemmas are about Model.Create.eye, which is assembled from the generated arithmetic
   Gen/S_create.v:s_eye_arith. *)
From Coq Require Import ZArith List Bool Lia ZifyBool.
From Verif Require Import Py PyExt PyCreate S_create Shape COO NpCreate Create.
Import ListNotations.
Open Scope Z_scope.

Ltac split_one :=
  match goal with
  | |- context [if ?a >? ?b then _ else _] => rewrite (Z.gtb_ltb a b)
  | |- context [if ?a >=? ?b then _ else _] => rewrite (Z.geb_leb a b)
  | |- context [if negb _ then _ else _] => rewrite if_negb
  | |- context [if ?a <? ?b then _ else _] => destruct (Z.ltb_spec a b); try lia
  | |- context [if ?a <=? ?b then _ else _] => destruct (Z.leb_spec a b); try lia
  | |- context [if ?a =? ?b then _ else _] => destruct (Z.eqb_spec a b); try lia
  end.

(* ------------------------------------------------------------------ generic list facts *)
Lemma combine_map2 {A B C} (f : A -> B) (g : A -> C) (l : list A) :
  combine (map f l) (map g l) = map (fun x => (f x, g x)) l.
Proof. induction l; simpl; [reflexivity|]. rewrite IHl. reflexivity. Qed.

Lemma lookup_map_const {V A} (f : A -> idx) (v : V) (l : list A) (ix : idx) :
  lookup (map (fun x => (f x, v)) l) ix =
  if existsb (fun x => idx_eqb (f x) ix) l then Some v else None.
Proof.
  induction l as [|a r IH]; simpl; [reflexivity|].
  rewrite IH. destruct (existsb _ r); [rewrite orb_true_r; reflexivity|].
  rewrite orb_false_r. reflexivity.
Qed.

Lemma sorted_strict_diag n0 m0 n s :
  sorted_strict (map (fun i => [n0 + i; m0 + i]) (map Z.of_nat (seq s n))) = true.
Proof.
  revert s; induction n as [|n IH]; intros s; [reflexivity|].
  change (seq s (S n)) with (s :: seq (S s) n).
  destruct n as [|n]; [reflexivity|].
  specialize (IH (S s)).
  change (seq (S s) (S n)) with (S s :: seq (S (S s)) n) in *.
  cbn [map] in *. cbn [sorted_strict]. cbn [sorted_strict] in IH. rewrite IH.
  cbn [lex_ltb]. rewrite andb_true_r.
  apply orb_true_iff. left. apply Z.ltb_lt. lia.
Qed.

Section CreateP.
  Variable V : Type.
  Variable zero one : V.

  (* ---------------------------------------------------------------- full, zeros, ones, *_like *)
  Lemma full_den_proof (sh : shape) (fv : V) :
    canonicalb (full sh fv) = true /\ c_shape (full sh fv) = sh /\ nnz (full sh fv) = 0 /\
    forall ix, den (full sh fv) ix = np_full fv ix.
  Proof. repeat split. Qed.

  Lemma zeros_ones_den_proof (sh : shape) :
    (canonicalb (zeros zero sh) = true /\ c_shape (zeros zero sh) = sh /\
     forall ix, den (zeros zero sh) ix = zero) /\
    (canonicalb (ones one sh) = true /\ c_shape (ones one sh) = sh /\
     forall ix, den (ones one sh) ix = one) /\
    (canonicalb (empty zero sh) = true /\ c_shape (empty zero sh) = sh).
  Proof. repeat split. Qed.

  Lemma like_den_proof (a : coo V) (fv : V) (sh : option shape) :
    canonicalb (full_like a fv sh) = true /\
    c_shape (full_like a fv sh) = match sh with None => c_shape a | Some s => s end /\
    (forall ix, den (full_like a fv sh) ix = fv) /\
    (forall ix, den (zeros_like zero a sh) ix = zero) /\
    (forall ix, den (ones_like one a sh) ix = one).
  Proof. repeat split. Qed.

  (* ---------------------------------------------------------------- eye *)
  (* closed form of what the generated arithmetic computes *)
  Definition eye_n0 (k : Z) := Z.max 0 (- k).
  Definition eye_m0 (k : Z) := Z.max 0 k.
  Definition eye_len (N M k : Z) := Z.max 0 (Z.min (N - eye_n0 k) (M - eye_m0 k)).

  Lemma eye_closed N M k :
    0 <= N -> 0 <= M ->
    eye zero one N (Some M) k =
    Some (mkCOO [N; M] (diag_coords (eye_len N M k) (eye_n0 k) (eye_m0 k))
                (map (fun _ => one) (zrange (eye_len N M k))) zero).
  Proof.
    intros HN HM. unfold eye, s_eye_arith, eye_len, eye_n0, eye_m0, oz, zeros, full, diag_coords.
    repeat (cbn; split_one); cbn;
    repeat match goal with
    | |- context [Z.max ?a ?b] =>
        first [ rewrite (Z.max_l a b) by lia | rewrite (Z.max_r a b) by lia ]
    | |- context [Z.min ?a ?b] =>
        first [ rewrite (Z.min_l a b) by lia | rewrite (Z.min_r a b) by lia ]
    end;
    repeat match goal with
    | H : ?x = 0 |- _ => is_var x; subst x
    | H : 0 = ?x |- _ => is_var x; subst x
    end;
    try reflexivity;
    try (repeat f_equal; lia);
    try (match goal with H : _ = 0 |- _ => rewrite H end; reflexivity);
    try (replace (N - - k) with (N + k) by lia; replace (0 - k) with (- k) by lia; reflexivity).
  Qed.

  Lemma eye_none N k : eye zero one N None k = eye zero one N (Some N) k.
  Proof. reflexivity. Qed.

  Lemma eye_den_proof N M k :
    0 <= N -> 0 <= M ->
    exists c, eye zero one N (Some M) k = Some c /\
      canonicalb c = true /\ c_shape c = np_eye_shape N M /\ c_fill c = zero /\
      nnz c = eye_len N M k /\
      forall i j, in_range [N; M] [i; j] -> den c [i; j] = np_eye zero one k [i; j].
  Proof.
    intros HN HM. eexists. split; [apply eye_closed; assumption|].
    set (L := eye_len N M k). set (n0 := eye_n0 k). set (m0 := eye_m0 k).
    assert (HL : 0 <= L) by (unfold L, eye_len; lia).
    assert (HLN : L <= N - n0 \/ L = 0) by (unfold L, eye_len; lia).
    assert (HLM : L <= M - m0 \/ L = 0) by (unfold L, eye_len; lia).
    assert (Hn0 : 0 <= n0) by (unfold n0, eye_n0; lia).
    assert (Hm0 : 0 <= m0) by (unfold m0, eye_m0; lia).
    split; [|split; [reflexivity|split; [reflexivity|split]]].
    - (* canonical *)
      unfold canonicalb. cbn [c_shape c_coords c_data].
      apply andb_true_iff; split; [apply andb_true_iff; split|].
      + apply forallb_forall. intros x Hx. unfold diag_coords in Hx.
        apply in_map_iff in Hx. destruct Hx as [t [<- Ht]]. apply zrange_In in Ht.
        cbn [in_rangeb]. rewrite !andb_true_iff, !Z.leb_le, !Z.ltb_lt. lia.
      + unfold diag_coords, zrange. apply sorted_strict_diag.
      + unfold diag_coords. rewrite !map_length. apply Nat.eqb_refl.
    - (* nnz *)
      unfold nnz, diag_coords. cbn [c_coords]. unfold zrange. rewrite !map_length, seq_length. lia.
    - (* dense meaning *)
      intros i j [Hi [Hj _]]. unfold den, entries, diag_coords. cbn [c_coords c_data c_fill].
      rewrite combine_map2, lookup_map_const. unfold np_eye.
      destruct (existsb _ (zrange L)) eqn:E.
      + apply existsb_exists in E. destruct E as [t [Ht E]]. apply zrange_In in Ht.
        cbn [idx_eqb] in E. rewrite !andb_true_iff, !Z.eqb_eq in E.
        destruct (Z.eqb_spec (j - i) k) as [_|Hne]; [reflexivity|].
        exfalso. apply Hne. unfold n0, m0, eye_n0, eye_m0 in *. lia.
      + destruct (Z.eqb_spec (j - i) k) as [He|_]; [|reflexivity].
        exfalso. assert (Hex : existsb (fun x => idx_eqb [n0 + x; m0 + x] [i; j]) (zrange L) = true).
        { apply existsb_exists. exists (i - n0). split.
          - apply zrange_In. unfold L, eye_len, n0, m0, eye_n0, eye_m0 in *. lia.
          - cbn [idx_eqb]. rewrite !andb_true_iff, !Z.eqb_eq.
            unfold n0, m0, eye_n0, eye_m0. lia. }
        congruence.
  Qed.
End CreateP.

(* non-vacuity: a non-trivial instance (3 x 4, first superdiagonal) *)
Example eye_den_nonvacuous :
  eye 0 1 3 (Some 4) 1 = Some (mkCOO [3; 4] [[0; 1]; [1; 2]; [2; 3]] [1; 1; 1] 0) /\
  eye 0 1 3 None (-2) = Some (mkCOO [3; 3] [[2; 0]] [1] 0) /\
  eye 0 1 0 (Some 5) 0 = Some (mkCOO [0; 5] [] [] 0) /\
  eye 0 1 2 (Some 2) 7 = Some (mkCOO [2; 2] [] [] 0).
Proof. repeat split. Qed.

Example full_den_nonvacuous : den (full [2; 0; 3] 7) [1; 0; 2] = 7 /\ den (ones 1 [2]) [1] = 1.
Proof. split; reflexivity. Qed.
