(* Proofs/CreateP.v — eye / full / zeros / ones denote what NumPy's functions denote, and are canonical.
   The eye lemmas are about Model.Create.eye, which is assembled from the generated arithmetic
   Gen/S_create.v:s_eye_arith. *)
From Coq Require Import ZArith List Bool Lia ZifyBool.
From Verif Require Import Py PyExt PyCreate S_create Shape COO NpCreate Create ShapeNth.
Import ListNotations.
Open Scope Z_scope.

Ltac split_one :=
  match goal with
  | |- context [if ?a >? ?b then _ else _] => rewrite (Z.gtb_ltb a b)
  | |- context [if ?a >=? ?b then _ else _] => rewrite (Z.geb_leb a b)
  | |- context [if negb _ then _ else _] => rewrite if_negb
  | |- context [if ?a <? ?b then _ else _] => destruct (Z.ltb_spec a b); try lia
  | |- context [if ?a <=? ?b then _ else _] => destruct (Z.leb_spec a b); try lia
  | |- context [if ?a =? ?b then _ else _] => destruct (Z.eqb_spec a b); try lia
  end.

(* ------------------------------------------------------------------ generic list facts *)
Lemma combine_map2 {A B C} (f : A -> B) (g : A -> C) (l : list A) :
  combine (map f l) (map g l) = map (fun x => (f x, g x)) l.
Proof. induction l; simpl; [reflexivity|]. rewrite IHl. reflexivity. Qed.

Lemma lookup_map_const {V A} (f : A -> idx) (v : V) (l : list A) (ix : idx) :
  lookup (map (fun x => (f x, v)) l) ix =
  if existsb (fun x => idx_eqb (f x) ix) l then Some v else None.
Proof.
  induction l as [|a r IH]; simpl; [reflexivity|].
  rewrite IH. destruct (existsb _ r); [rewrite orb_true_r; reflexivity|].
  rewrite orb_false_r. reflexivity.
Qed.

Lemma sorted_strict_diag n0 m0 n s :
  sorted_strict (map (fun i => [n0 + i; m0 + i]) (map Z.of_nat (seq s n))) = true.
Proof.
  revert s; induction n as [|n IH]; intros s; [reflexivity|].
  change (seq s (S n)) with (s :: seq (S s) n).
  destruct n as [|n]; [reflexivity|].
  specialize (IH (S s)).
  change (seq (S s) (S n)) with (S s :: seq (S (S s)) n) in *.
  cbn [map] in *. cbn [sorted_strict]. cbn [sorted_strict] in IH. rewrite IH.
  cbn [lex_ltb]. rewrite andb_true_r.
  apply orb_true_iff. left. apply Z.ltb_lt. lia.
Qed.

Section CreateP.
  Variable V : Type.
  Variable zero one : V.

  (* ---------------------------------------------------------------- full, zeros, ones, *_like *)
  Lemma full_den_proof (sh : shape) (fv : V) :
    canonicalb (full sh fv) = true /\ c_shape (full sh fv) = sh /\ nnz (full sh fv) = 0 /\
    forall ix, den (full sh fv) ix = np_full fv ix.
  Proof. repeat split. Qed.

  Lemma zeros_ones_den_proof (sh : shape) :
    (canonicalb (zeros zero sh) = true /\ c_shape (zeros zero sh) = sh /\
     forall ix, den (zeros zero sh) ix = zero) /\
    (canonicalb (ones one sh) = true /\ c_shape (ones one sh) = sh /\
     forall ix, den (ones one sh) ix = one) /\
    (canonicalb (empty zero sh) = true /\ c_shape (empty zero sh) = sh).
  Proof. repeat split. Qed.

  Lemma like_den_proof (a : coo V) (fv : V) (sh : option shape) :
    canonicalb (full_like a fv sh) = true /\
    c_shape (full_like a fv sh) = match sh with None => c_shape a | Some s => s end /\
    (forall ix, den (full_like a fv sh) ix = fv) /\
    (forall ix, den (zeros_like zero a sh) ix = zero) /\
    (forall ix, den (ones_like one a sh) ix = one).
  Proof. repeat split. Qed.

  (* ---------------------------------------------------------------- eye *)
  (* closed form of what the generated arithmetic computes *)
  Definition eye_n0 (k : Z) := Z.max 0 (- k).
  Definition eye_m0 (k : Z) := Z.max 0 k.
  Definition eye_len (N M k : Z) := Z.max 0 (Z.min (N - eye_n0 k) (M - eye_m0 k)).

  Lemma eye_closed N M k :
    0 <= N -> 0 <= M ->
    eye zero one N (Some M) k =
    Some (mkCOO [N; M] (diag_coords (eye_len N M k) (eye_n0 k) (eye_m0 k))
                (map (fun _ => one) (zrange (eye_len N M k))) zero).
  Proof.
    intros HN HM. unfold eye, s_eye_arith, eye_len, eye_n0, eye_m0, oz, zeros, full, diag_coords.
    repeat (cbn; split_one); cbn;
    repeat match goal with
    | |- context [Z.max ?a ?b] =>
        first [ rewrite (Z.max_l a b) by lia | rewrite (Z.max_r a b) by lia ]
    | |- context [Z.min ?a ?b] =>
        first [ rewrite (Z.min_l a b) by lia | rewrite (Z.min_r a b) by lia ]
    end;
    repeat match goal with
    | H : ?x = 0 |- _ => is_var x; subst x
    | H : 0 = ?x |- _ => is_var x; subst x
    end;
    try reflexivity;
    try (repeat f_equal; lia);
    try (match goal with H : _ = 0 |- _ => rewrite H end; reflexivity);
    try (replace (N - - k) with (N + k) by lia; replace (0 - k) with (- k) by lia; reflexivity).
  Qed.

  Lemma eye_none N k : eye zero one N None k = eye zero one N (Some N) k.
  Proof. reflexivity. Qed.

  Lemma eye_den_proof N M k :
    0 <= N -> 0 <= M ->
    exists c, eye zero one N (Some M) k = Some c /\
      canonicalb c = true /\ c_shape c = np_eye_shape N M /\ c_fill c = zero /\
      nnz c = eye_len N M k /\
      forall i j, in_range [N; M] [i; j] -> den c [i; j] = np_eye zero one k [i; j].
  Proof.
    intros HN HM. eexists. split; [apply eye_closed; assumption|].
    set (L := eye_len N M k). set (n0 := eye_n0 k). set (m0 := eye_m0 k).
    assert (HL : 0 <= L) by (unfold L, eye_len; lia).
    assert (HLN : L <= N - n0 \/ L = 0) by (unfold L, eye_len; lia).
    assert (HLM : L <= M - m0 \/ L = 0) by (unfold L, eye_len; lia).
    assert (Hn0 : 0 <= n0) by (unfold n0, eye_n0; lia).
    assert (Hm0 : 0 <= m0) by (unfold m0, eye_m0; lia).
    split; [|split; [reflexivity|split; [reflexivity|split]]].
    - (* canonical *)
      unfold canonicalb. cbn [c_shape c_coords c_data].
      apply andb_true_iff; split; [apply andb_true_iff; split|].
      + apply forallb_forall. intros x Hx. unfold diag_coords in Hx.
        apply in_map_iff in Hx. destruct Hx as [t [<- Ht]]. apply zrange_In in Ht.
        cbn [in_rangeb]. rewrite !andb_true_iff, !Z.leb_le, !Z.ltb_lt. lia.
      + unfold diag_coords, zrange. apply sorted_strict_diag.
      + unfold diag_coords. rewrite !map_length. apply Nat.eqb_refl.
    - (* nnz *)
      unfold nnz, diag_coords. cbn [c_coords]. unfold zrange. rewrite !map_length, seq_length. lia.
    - (* dense meaning *)
      intros i j [Hi [Hj _]]. unfold den, entries, diag_coords. cbn [c_coords c_data c_fill].
      rewrite combine_map2, lookup_map_const. unfold np_eye.
      destruct (existsb _ (zrange L)) eqn:E.
      + apply existsb_exists in E. destruct E as [t [Ht E]]. apply zrange_In in Ht.
        cbn [idx_eqb] in E. rewrite !andb_true_iff, !Z.eqb_eq in E.
        destruct (Z.eqb_spec (j - i) k) as [_|Hne]; [reflexivity|].
        exfalso. apply Hne. unfold n0, m0, eye_n0, eye_m0 in *. lia.
      + destruct (Z.eqb_spec (j - i) k) as [He|_]; [|reflexivity].
        exfalso. assert (Hex : existsb (fun x => idx_eqb [n0 + x; m0 + x] [i; j]) (zrange L) = true).
        { apply existsb_exists. exists (i - n0). split.
          - apply zrange_In. unfold L, eye_len, n0, m0, eye_n0, eye_m0 in *. lia.
          - cbn [idx_eqb]. rewrite !andb_true_iff, !Z.eqb_eq.
            unfold n0, m0, eye_n0, eye_m0. lia. }
        congruence.
  Qed.
End CreateP.

(* ------------------------------------------------------------------ asarray of a dense array *)
Section AsarrayP.
  Variable V : Type.
  Variable zero : V.
  Variable veqb : V -> V -> bool.
  Hypothesis veqb_sound : forall a b, veqb a b = true -> a = b.

  Lemma lookup_notin (es : list (idx * V)) k : ~ In k (map fst es) -> lookup es k = None.
  Proof.
    induction es as [|[k0 v0] r IH]; simpl; [reflexivity|]. intros Hn.
    rewrite IH by tauto. destruct (idx_eqb k0 k) eqn:E; [|reflexivity].
    apply idx_eqb_eq in E. tauto.
  Qed.

  Lemma lookup_unique (es : list (idx * V)) k v :
    NoDup (map fst es) -> In (k, v) es -> lookup es k = Some v.
  Proof.
    induction es as [|[k0 v0] r IH]; simpl; [tauto|]. intros Hnd Hin.
    inversion Hnd as [|? ? Hk0 Hnd']; subst. destruct Hin as [He|Hin].
    - inversion He; subst. rewrite lookup_notin by assumption. rewrite idx_eqb_refl. reflexivity.
    - rewrite (IH Hnd' Hin). reflexivity.
  Qed.

  Lemma map_fst_combine' {A B} (a : list A) (b : list B) : length a = length b -> map fst (combine a b) = a.
  Proof.
    revert b; induction a as [|x a IH]; intros [|y b]; simpl; try discriminate; [reflexivity|].
    intros H'. f_equal. apply IH. congruence.
  Qed.

  Lemma combine_fst_snd {A B} (l : list (A * B)) : combine (map fst l) (map snd l) = l.
  Proof. induction l as [|[a b] l IH]; simpl; [reflexivity|]. rewrite IH. reflexivity. Qed.

  Lemma NoDup_map_fst_filter {A B} (p : A * B -> bool) (l : list (A * B)) :
    NoDup (map fst l) -> NoDup (map fst (filter p l)).
  Proof.
    induction l as [|x l IH]; simpl; [tauto|]. intros Hnd. inversion Hnd as [|? ? Hx Hnd']; subst.
    destruct (p x); simpl; [|apply IH; assumption].
    constructor; [|apply IH; assumption]. intros Hin. apply Hx.
    apply in_map_iff in Hin. destruct Hin as [y [Ey Hy]]. apply filter_In in Hy.
    apply in_map_iff. exists y. tauto.
  Qed.

  (* the value of a dense array at an index tuple: row-major position ravel sh ix of the flat contents *)
  Definition dense_at (d : dense V) (ix : idx) : V := nth (Z.to_nat (ravel (d_shape d) ix)) (d_flat d) zero.

  (* asarray(ndarray) = COO.from_numpy(x) denotes x (also for the 0-d case, where the value becomes the fill) *)
  Theorem asarray_den_proof (d : dense V) (ix : idx) :
    shape_ok (d_shape d) -> dense_wf d -> in_range (d_shape d) ix ->
    den (asarray_dense zero veqb d) ix = dense_at d ix /\
    c_shape (asarray_dense zero veqb d) = d_shape d.
  Proof.
    intros Hok Hwf Hin. destruct d as [sh fl]. unfold dense_wf, dense_at in *. cbn [d_shape d_flat] in *.
    unfold asarray_dense. cbn [d_shape d_flat].
    destruct sh as [|d0 sh'].
    - (* 0-d *)
      destruct ix; [|contradiction]. destruct fl as [|v fl']; [discriminate|].
      split; reflexivity.
    - set (sh := d0 :: sh') in *. destruct fl as [|v0 fl'] eqn:Efl.
      + (* empty contents: size 0, no index in range *)
        exfalso. pose proof (in_range_size_pos _ _ Hin). rewrite all_indices_length in Hwf by assumption.
        cbn [length] in Hwf. lia.
      + rewrite <- Efl in *. clear Efl v0 fl'.
        split; [|reflexivity].
        unfold from_dense, den, entries. cbn [d_shape d_flat c_coords c_data c_fill].
        rewrite combine_fst_snd.
        set (l := combine (all_indices sh) fl).
        assert (Hkeys : map fst l = all_indices sh) by (apply map_fst_combine'; congruence).
        assert (Hnd : NoDup (map fst l)) by (rewrite Hkeys; apply all_indices_NoDup; assumption).
        pose proof (ravel_bounds _ _ Hin) as Hb.
        set (p := Z.to_nat (ravel sh ix)).
        assert (Hp : (p < length (all_indices sh))%nat) by (rewrite all_indices_length by assumption; lia).
        set (v := nth p fl zero).
        assert (Hinl : In (ix, v) l).
        { assert (E : nth p l (ix, zero) = (ix, v)).
          { unfold l. rewrite combine_nth by congruence. f_equal. apply all_indices_nth; assumption. }
          rewrite <- E. apply nth_In. unfold l. rewrite combine_length, <- Hwf. lia. }
        destruct (veqb v zero) eqn:Ev.
        * (* not stored: the fill is the value *)
          rewrite lookup_notin; [symmetry; apply veqb_sound; assumption|].
          intros Hc. apply in_map_iff in Hc. destruct Hc as [[k w] [Ek Hkw]]. cbn in Ek. subst k.
          apply filter_In in Hkw. destruct Hkw as [Hkw Hw]. cbn in Hw.
          pose proof (lookup_unique _ _ _ Hnd Hkw) as L1. pose proof (lookup_unique _ _ _ Hnd Hinl) as L2.
          assert (w = v) by congruence. subst w. rewrite Ev in Hw. discriminate.
        * rewrite (lookup_unique _ ix v); [reflexivity| |].
          -- apply NoDup_map_fst_filter. assumption.
          -- apply filter_In. split; [assumption|]. cbn. rewrite Ev. reflexivity.
  Qed.
End AsarrayP.

Example asarray_den_nonvacuous :
  let d := mkDense [2; 3] [0; 5; 0; 7; 0; 0] in
  asarray_dense 0 Z.eqb d = mkCOO [2; 3] [[0; 1]; [1; 0]] [5; 7] 0 /\
  den (asarray_dense 0 Z.eqb d) [1; 0] = 7 /\ dense_at Z 0 d [1; 0] = 7 /\
  asarray_dense 0 Z.eqb (mkDense [] [4]) = mkCOO [] [] [] 4.
Proof. repeat split. Qed.

(* non-vacuity: a non-trivial instance (3 x 4, first superdiagonal) *)
Example eye_den_nonvacuous :
  eye 0 1 3 (Some 4) 1 = Some (mkCOO [3; 4] [[0; 1]; [1; 2]; [2; 3]] [1; 1; 1] 0) /\
  eye 0 1 3 None (-2) = Some (mkCOO [3; 3] [[2; 0]] [1] 0) /\
  eye 0 1 0 (Some 5) 0 = Some (mkCOO [0; 5] [] [] 0) /\
  eye 0 1 2 (Some 2) 7 = Some (mkCOO [2; 2] [] [] 0).
Proof. repeat split. Qed.

Example full_den_nonvacuous : den (full [2; 0; 3] 7) [1; 0; 2] = 7 /\ den (ones 1 [2]) [1] = 1.
Proof. split; reflexivity. Qed.
