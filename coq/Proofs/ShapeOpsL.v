(* Proofs/ShapeOpsL.v — support lemmas for the shape-manipulation proofs: positional access,
   the lexicographic order, the constructor's sort, and the two "coordinate remapping" theorems
   (re-sorted and order-preserving) from which every den/canonical theorem of C08 follows. *)
From Coq Require Import ZArith List Bool Lia Sorting.Sorted Sorting.Permutation.
From Verif Require Import Py Shape COO COOP ShapeOps.
Import ListNotations.
Open Scope Z_scope.

(* ------------------------------------------------------------------ positions *)

Lemma in_range_nth sh ix :
  in_range sh ix <->
  (length ix = length sh /\ forall i, (i < length sh)%nat -> 0 <= nth i ix 0 < nth i sh 0).
Proof.
  revert ix; induction sh as [|d sh IH]; intros [|i ix]; simpl.
  - split; [intros _; split; [reflexivity|intros; lia]|auto].
  - split; [tauto|intros [H _]; discriminate].
  - split; [tauto|intros [H _]; discriminate].
  - rewrite IH. split.
    + intros [Hi [Hl Hn]]. split; [lia|]. intros [|k] Hk; [assumption|]. apply Hn. lia.
    + intros [Hl Hn]. split; [apply (Hn O); lia|]. split; [lia|].
      intros k Hk. apply (Hn (S k)). lia.
Qed.

Lemma zget_nth {A} (l : list A) (k : nat) d : zget l (Z.of_nat k) d = nth k l d.
Proof. unfold zget. rewrite Nat2Z.id. reflexivity. Qed.

Lemma zrange_length n : length (zrange n) = Z.to_nat n.
Proof. unfold zrange. rewrite map_length, seq_length. reflexivity. Qed.

Lemma zrange_nth n k : (k < Z.to_nat n)%nat -> nth k (zrange n) 0 = Z.of_nat k.
Proof.
  intros H. unfold zrange. rewrite (nth_indep _ 0 (Z.of_nat 0)) by (rewrite map_length, seq_length; lia).
  rewrite map_nth, seq_nth by lia. reflexivity.
Qed.

Lemma zrange_of_nat n : zrange (Z.of_nat n) = map Z.of_nat (seq 0 n).
Proof. unfold zrange. rewrite Nat2Z.id. reflexivity. Qed.

Lemma memz_In x l : memz x l = true <-> In x l.
Proof.
  unfold memz. rewrite existsb_exists. split.
  - intros [y [Hy He]]. apply Z.eqb_eq in He. subst. assumption.
  - intros H. exists x. split; [assumption|apply Z.eqb_refl].
Qed.

Lemma has_dup_NoDup l : has_dup l = false <-> NoDup l.
Proof.
  induction l as [|a l IH]; simpl; [split; [constructor|reflexivity]|].
  rewrite orb_false_iff, IH. split.
  - intros [Hm Hn]. constructor; [|assumption]. intros Hin. apply memz_In in Hin. congruence.
  - intros H. inversion H; subst. split; [|assumption].
    destruct (memz a l) eqn:E; [|reflexivity]. apply memz_In in E. tauto.
Qed.

(* a duplicate-free list of n numbers below n contains every number below n *)
Lemma perm_covers (ax : list Z) (n : nat) :
  NoDup ax -> length ax = n -> (forall a, In a ax -> 0 <= a < Z.of_nat n) ->
  forall k, (k < n)%nat -> In (Z.of_nat k) ax.
Proof.
  intros Hnd Hl Hr k Hk.
  assert (Hincl : incl (zrange (Z.of_nat n)) ax).
  { apply NoDup_length_incl; [assumption| |].
    - rewrite zrange_length. lia.
    - intros a Ha. apply zrange_In. apply Hr. assumption. }
  apply Hincl. apply zrange_In. lia.
Qed.

Lemma nth_In_lt {A} (l : list A) k d : (k < length l)%nat -> In (nth k l d) l.
Proof. apply nth_In. Qed.

(* ------------------------------------------------------------------ lexicographic order *)

Lemma lex_total a b : length a = length b -> lex_lt a b \/ a = b \/ lex_lt b a.
Proof.
  revert b; induction a as [|x a IH]; intros [|y b] H; simpl in *; try discriminate; [tauto|].
  destruct (Z.lt_trichotomy x y) as [?|[->|?]]; [tauto| |tauto].
  destruct (IH b) as [?|[->|?]]; [lia|tauto|tauto|tauto].
Qed.

Lemma lex_lt_asym a b : lex_lt a b -> ~ lex_lt b a.
Proof. intros H1 H2. apply (lex_lt_irrefl a). eapply lex_lt_trans; eauto. Qed.

(* ------------------------------------------------------------------ sort *)

Section Sort.
  Variable V : Type.
  Variable veqb : V -> V -> bool.
  Hypothesis veqb_eq : forall a b, veqb a b = true <-> a = b.

  Notation ent := (idx * V)%type.

  Lemma insert_entry_perm (e : ent) l : Permutation (insert_entry e l) (e :: l).
  Proof.
    induction l as [|h t IH]; simpl; [reflexivity|].
    destruct (lex_ltb (fst h) (fst e)); [|reflexivity].
    rewrite IH. apply perm_swap.
  Qed.

  Lemma sort_entries_perm (l : list ent) : Permutation (sort_entries l) l.
  Proof.
    induction l as [|e l IH]; simpl; [reflexivity|].
    rewrite insert_entry_perm. constructor. assumption.
  Qed.

  Definition key_lt (a b : ent) : Prop := lex_lt (fst a) (fst b).

  Lemma insert_entry_sorted (e : ent) l n :
    StronglySorted key_lt l -> length (fst e) = n -> Forall (fun h => length (fst h) = n) l ->
    ~ In (fst e) (map fst l) ->
    StronglySorted key_lt (insert_entry e l).
  Proof.
    intros Hs He Hl Hn. induction Hs as [|h t Hs IH Hall]; simpl.
    - constructor; constructor.
    - inversion Hl as [|? ? Hh Hl']; subst. simpl in Hn.
      destruct (lex_ltb (fst h) (fst e)) eqn:E.
      + apply lex_ltb_spec in E. constructor; [apply IH; [assumption|tauto]|].
        apply Forall_forall. intros y Hy.
        apply (Permutation_in _ (insert_entry_perm e t)) in Hy. destruct Hy as [<-|Hy]; [exact E|].
        rewrite Forall_forall in Hall. auto.
      + assert (Hlt : lex_lt (fst e) (fst h)).
        { assert (Hlen : length (fst e) = length (fst h)) by (symmetry; exact Hh).
          destruct (lex_total (fst e) (fst h) Hlen) as [?|[Heq|Hgt]]; [assumption| |].
          - exfalso. apply Hn. left. congruence.
          - apply lex_ltb_spec in Hgt. congruence. }
        constructor; [constructor; assumption|].
        constructor; [assumption|]. apply Forall_forall. intros y Hy.
        rewrite Forall_forall in Hall. unfold key_lt. eapply lex_lt_trans; [exact Hlt|]. apply Hall. assumption.
  Qed.

  Lemma sort_entries_sorted (l : list ent) n :
    Forall (fun h => length (fst h) = n) l -> NoDup (map fst l) ->
    StronglySorted key_lt (sort_entries l).
  Proof.
    induction l as [|e l IH]; simpl; intros Hl Hnd; [constructor|].
    inversion Hl as [|? ? He Hl']; subst. inversion Hnd as [|? ? Hni Hnd']; subst.
    eapply insert_entry_sorted; [apply IH; assumption|reflexivity| |].
    - apply Forall_forall. intros y Hy. apply (Permutation_in _ (sort_entries_perm l)) in Hy.
      rewrite Forall_forall in Hl'. auto.
    - intros Hin. apply Hni. eapply Permutation_in; [|exact Hin].
      apply Permutation_map. apply sort_entries_perm.
  Qed.

  Lemma key_sorted_map_fst (l : list ent) :
    StronglySorted key_lt l -> StronglySorted lex_lt (map fst l).
  Proof.
    induction 1 as [|a l Hs IH Hall]; simpl; constructor; [assumption|].
    apply Forall_forall. intros x Hx. apply in_map_iff in Hx. destruct Hx as [y [<- Hy]].
    rewrite Forall_forall in Hall. apply Hall. assumption.
  Qed.

  (* lookup depends only on the set of entries when keys are distinct *)
  Lemma lookup_perm (l l' : list ent) ix :
    NoDup (map fst l) -> Permutation l l' -> lookup l' ix = lookup l ix.
  Proof.
    intros Hnd Hp.
    assert (Hnd' : NoDup (map fst l')).
    { eapply Permutation_NoDup; [|exact Hnd]. apply Permutation_map. assumption. }
    destruct (lookup l ix) as [v|] eqn:E.
    - apply (lookup_In _ _ _ _ Hnd) in E. apply (lookup_In _ _ _ _ Hnd').
      eapply Permutation_in; eauto.
    - destruct (lookup l' ix) as [w|] eqn:E'; [|reflexivity].
      apply (lookup_In _ _ _ _ Hnd') in E'. apply Permutation_sym in Hp.
      apply (Permutation_in _ Hp) in E'. apply (lookup_In _ _ _ _ Hnd) in E'. congruence.
  Qed.

  Lemma combine_fst_snd (l : list ent) : combine (map fst l) (map snd l) = l.
  Proof. induction l as [|[a b] r IH]; simpl; congruence. Qed.

  Lemma entries_combine (x : coo V) :
    length (c_data x) = length (c_coords x) -> map fst (entries x) = c_coords x.
  Proof. intros H. unfold entries. apply combine_map_fst. lia. Qed.

  Lemma in_entries_coord (x : coo V) k v : In (k, v) (entries x) -> In k (c_coords x).
  Proof. unfold entries. apply in_combine_l. Qed.

  (* ---------------------------------------------------------------- dense meaning of coo_make *)

  Definition lookup_or (es : list ent) (fill : V) (ix : idx) : V :=
    match lookup es ix with Some v => v | None => fill end.

  Lemma den_lookup_or (x : coo V) ix : den x ix = lookup_or (entries x) (c_fill x) ix.
  Proof. reflexivity. Qed.

  Lemma coo_make_canonical sh (es : list ent) fill srt :
    Forall (fun e => in_range sh (fst e)) es -> NoDup (map fst es) ->
    (srt = true -> StronglySorted lex_lt (map fst es)) ->
    canonical V (coo_make sh es fill srt).
  Proof.
    intros Hr Hnd Hs. unfold coo_make, canonical. simpl.
    destruct srt.
    - repeat split; [|auto|rewrite !map_length; reflexivity].
      apply Forall_forall. intros k Hk. apply in_map_iff in Hk. destruct Hk as [e [<- He]].
      rewrite Forall_forall in Hr. auto.
    - repeat split; [| |rewrite !map_length; reflexivity].
      + apply Forall_forall. intros k Hk. apply in_map_iff in Hk. destruct Hk as [e [<- He]].
        apply (Permutation_in _ (sort_entries_perm es)) in He. rewrite Forall_forall in Hr. auto.
      + apply key_sorted_map_fst. apply (sort_entries_sorted es (length sh)); [|assumption].
        eapply Forall_impl; [|exact Hr]. intros e He. apply in_range_length. assumption.
  Qed.

  Lemma coo_make_den sh (es : list ent) fill srt ix :
    NoDup (map fst es) -> den (coo_make sh es fill srt) ix = lookup_or es fill ix.
  Proof.
    intros Hnd. unfold den, coo_make, lookup_or, entries. simpl.
    destruct srt; rewrite combine_fst_snd; [reflexivity|].
    rewrite (lookup_perm es (sort_entries es) ix Hnd); [reflexivity|].
    apply Permutation_sym, sort_entries_perm.
  Qed.

  Lemma coo_make_pruned sh (es : list ent) fill srt :
    forallb (fun e => negb (veqb (snd e) fill)) es = true ->
    prunedb veqb (coo_make sh es fill srt) = true.
  Proof.
    intros H. unfold prunedb, coo_make. simpl. apply forallb_forall. intros v Hv.
    apply in_map_iff in Hv. destruct Hv as [e [<- He]].
    rewrite forallb_forall in H. apply H.
    destruct srt; [assumption|]. apply (Permutation_in _ (sort_entries_perm es)). assumption.
  Qed.

  (* ---------------------------------------------------------------- remapping coordinates *)

  Lemma map_coords_In (f : idx -> idx) (x : coo V) k v :
    In (k, v) (map_coords f x) <-> exists c, k = f c /\ In (c, v) (entries x).
  Proof.
    unfold map_coords. rewrite in_map_iff. split.
    - intros [[c w] [He Hin]]. simpl in He. inversion He; subst. exists c. auto.
    - intros [c [-> Hin]]. exists (c, v). auto.
  Qed.

  Lemma map_coords_keys (f : idx -> idx) (x : coo V) :
    length (c_data x) = length (c_coords x) -> map fst (map_coords f x) = map f (c_coords x).
  Proof.
    intros H. unfold map_coords. rewrite map_map. simpl.
    rewrite <- (entries_combine x H). rewrite map_map. reflexivity.
  Qed.

  Lemma NoDup_map_inj_on {A B} (f : A -> B) (l : list A) :
    NoDup l -> (forall a b, In a l -> In b l -> f a = f b -> a = b) -> NoDup (map f l).
  Proof.
    induction 1 as [|a l Ha Hnd IH]; intros Hinj; simpl; constructor.
    - intros Hin. apply in_map_iff in Hin. destruct Hin as [b [Hb Hin]].
      assert (b = a) by (apply Hinj; simpl; auto). subst. tauto.
    - apply IH. intros; apply Hinj; simpl; auto.
  Qed.

  Lemma map_coords_pruned (f : idx -> idx) (x : coo V) fill :
    prunedb veqb x = true -> fill = c_fill x ->
    forallb (fun e => negb (veqb (snd e) fill)) (map_coords f x) = true.
  Proof.
    intros Hp ->. unfold prunedb in Hp. rewrite forallb_forall in *. intros e He.
    unfold map_coords in He. apply in_map_iff in He. destruct He as [[c v] [<- Hin]]. simpl.
    apply Hp. unfold entries in Hin. eapply in_combine_r; eauto.
  Qed.

  Section Remap.
    Variable x : coo V.
    Variable sh' : shape.
    Variable f : idx -> idx.
    Variable srt : bool.
    Hypothesis Hx : canonical V x.
    Hypothesis Hrange : forall c, in_range (c_shape x) c -> in_range sh' (f c).
    Hypothesis Hinj : forall a b, in_range (c_shape x) a -> in_range (c_shape x) b -> f a = f b -> a = b.
    (* when the constructor is told the coordinates are sorted, f must preserve the order *)
    Hypothesis Hmono : srt = true ->
      forall a b, in_range (c_shape x) a -> in_range (c_shape x) b -> lex_lt a b -> lex_lt (f a) (f b).

    Let r := coo_make sh' (map_coords f x) (c_fill x) srt.

    Lemma remap_keys_NoDup : NoDup (map fst (map_coords f x)).
    Proof.
      destruct Hx as [Hr [Hs Hl]]. rewrite map_coords_keys by assumption.
      rewrite Forall_forall in Hr.
      apply NoDup_map_inj_on; [apply SS_lex_NoDup; assumption|]. intros; apply Hinj; auto.
    Qed.

    Lemma SS_map_mono (l : list idx) :
      (forall a b, In a l -> In b l -> lex_lt a b -> lex_lt (f a) (f b)) ->
      StronglySorted lex_lt l -> StronglySorted lex_lt (map f l).
    Proof.
      intros Hm Hs. induction Hs as [|a l Hs IH Hall]; simpl; constructor.
      - apply IH. intros; apply Hm; simpl; auto.
      - apply Forall_forall. intros y Hy. apply in_map_iff in Hy. destruct Hy as [b [<- Hb]].
        rewrite Forall_forall in Hall. apply Hm; simpl; auto.
    Qed.

    Theorem remap_canonical : canonical V r.
    Proof.
      pose proof Hx as [Hr [Hs Hl]]. apply coo_make_canonical.
      - apply Forall_forall. intros [k v] Hin. simpl. apply map_coords_In in Hin.
        destruct Hin as [c [-> Hc]]. apply Hrange. rewrite Forall_forall in Hr. apply Hr.
        eapply in_entries_coord; eauto.
      - apply remap_keys_NoDup.
      - intros E. rewrite map_coords_keys by assumption. rewrite Forall_forall in Hr.
        apply SS_map_mono; [|assumption]. intros; apply (Hmono E); auto.
    Qed.

    Theorem remap_den_image c : in_range (c_shape x) c -> den r (f c) = den x c.
    Proof.
      intros Hc. pose proof Hx as [Hr [Hs Hl]]. unfold r.
      rewrite coo_make_den by apply remap_keys_NoDup.
      rewrite den_lookup_or. unfold lookup_or.
      assert (Hnd : NoDup (map fst (entries x))).
      { rewrite entries_combine by assumption. apply SS_lex_NoDup. assumption. }
      destruct (lookup (entries x) c) as [v|] eqn:E.
      - apply (lookup_In _ _ _ _ Hnd) in E.
        assert (Hin : In (f c, v) (map_coords f x)) by (apply map_coords_In; eauto).
        apply (lookup_In _ _ _ _ remap_keys_NoDup) in Hin. rewrite Hin. reflexivity.
      - rewrite lookup_notin; [reflexivity|]. intros Hin. apply in_map_iff in Hin.
        destruct Hin as [[k v] [Hk Hin]]. simpl in Hk. apply map_coords_In in Hin.
        destruct Hin as [c' [Hk' Hc']]. subst k.
        assert (c' = c).
        { apply Hinj; [|assumption|congruence]. rewrite Forall_forall in Hr. apply Hr.
          eapply in_entries_coord; eauto. }
        subst c'. apply (lookup_In _ _ _ _ Hnd) in Hc'. congruence.
    Qed.

    Theorem remap_den_outside ix :
      (forall c, in_range (c_shape x) c -> f c <> ix) -> den r ix = c_fill x.
    Proof.
      intros Hout. pose proof Hx as [Hr [Hs Hl]]. unfold r.
      rewrite coo_make_den by apply remap_keys_NoDup. unfold lookup_or.
      rewrite lookup_notin; [reflexivity|]. intros Hin. apply in_map_iff in Hin.
      destruct Hin as [[k v] [Hk Hin]]. simpl in Hk. apply map_coords_In in Hin.
      destruct Hin as [c' [Hk' Hc']]. subst k. apply (Hout c'); [|symmetry; assumption].
      rewrite Forall_forall in Hr. apply Hr. eapply in_entries_coord; eauto.
    Qed.

    (* with an inverse g on the result's index range: the dense meaning is (den x) o g *)
    Theorem remap_den_inverse (g : idx -> idx) ix :
      in_range sh' ix -> in_range (c_shape x) (g ix) -> f (g ix) = ix -> den r ix = den x (g ix).
    Proof. intros Hi Hg He. rewrite <- He at 1. apply remap_den_image. assumption. Qed.

    Theorem remap_pruned : prunedb veqb x = true -> prunedb veqb r = true.
    Proof. intros Hp. apply coo_make_pruned. apply map_coords_pruned; auto. Qed.

    Lemma remap_shape : c_shape r = sh'.
    Proof. reflexivity. Qed.
    Lemma remap_fill : c_fill r = c_fill x.
    Proof. reflexivity. Qed.
  End Remap.
End Sort.
