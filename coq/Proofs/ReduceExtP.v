(* Proofs/ReduceExtP.v — nan-reductions and mean / var on top of reduce_den (C03). *)
From Coq Require Import ZArith List Bool Lia ZifyBool Permutation Sorting.Sorted QArith Qcanon.
From Verif Require Import Py PyExt PyReduce Shape COO COOP GCXS G_reduce S_reduce NpReduce Reduce ReduceExt
  ReduceLemmas ReduceShapeP ReduceKernelP ReduceP.
Import ListNotations.
Open Scope Z_scope.

(* ------------------------------------------------------------------ element-wise map *)
Section Map.
  Variable V : Type.
  Variable veqb : V -> V -> bool.
  Hypothesis veqb_eq : forall a b, veqb a b = true <-> a = b.

  Lemma coo_map_spec (r : V -> V) (c : coo V) :
    COOP.canonical V c ->
    COOP.canonical V (coo_map veqb r c) /\ c_shape (coo_map veqb r c) = c_shape c /\
    c_fill (coo_map veqb r c) = r (c_fill c) /\ prunedb veqb (coo_map veqb r c) = true /\
    forall ix, den (coo_map veqb r c) ix = r (den c ix).
  Proof.
    intros Hc. pose proof Hc as [Hr [Hs Hl]]. unfold coo_map.
    set (f' := r (c_fill c)).
    set (P := fun e : idx * V => negb (veqb (snd e) f')).
    set (es := filter P (map (fun e => (fst e, r (snd e))) (entries c))).
    assert (Hfst : map fst es = map fst (filter (fun e => P (fst e, r (snd e))) (entries c))).
    { unfold es. rewrite filter_map_comm, map_map. reflexivity. }
    assert (Hco : map fst (entries c) = c_coords c) by (unfold entries; apply combine_map_fst; lia).
    assert (Hcan : COOP.canonical V (mkCOO (c_shape c) (map fst es) (map snd es) f')).
    { split; [|split]; cbn.
      - apply Forall_forall. intros ix Hin. rewrite Hfst in Hin. apply in_map_iff in Hin.
        destruct Hin as [e [<- He]]. apply filter_In in He. destruct He as [He _].
        rewrite Forall_forall in Hr. apply Hr. rewrite <- Hco. apply in_map. assumption.
      - rewrite Hfst. rewrite <- Hco in Hs. clear -Hs.
        induction (entries c) as [|e l IH]; cbn; [constructor|]. inversion Hs as [|? ? Hs' Hall]; subst.
        destruct (P (fst e, r (snd e))); cbn; [|auto]. constructor; [auto|].
        rewrite Forall_forall in *. intros y Hy. apply in_map_iff in Hy. destruct Hy as [e' [<- He']].
        apply filter_In in He'. apply Hall. apply in_map. tauto.
      - rewrite !map_length. reflexivity. }
    split; [exact Hcan|]. split; [reflexivity|]. split; [reflexivity|]. split.
    - unfold prunedb. cbn. apply forallb_forall. intros v Hv. apply in_map_iff in Hv.
      destruct Hv as [e [<- He]]. unfold es in He. apply filter_In in He. tauto.
    - intros ix.
      assert (Hent : entries (mkCOO (c_shape c) (map fst es) (map snd es) f') = es).
      { unfold entries. cbn. clear. induction es as [|[a b] l IH]; cbn; congruence. }
      destruct (in_dec (list_eq_dec Z.eq_dec) ix (c_coords c)) as [Hin|Hnin].
      + destruct (coords_in_entries V c ix Hl Hin) as [v Hv].
        rewrite (den_stored V c ix v Hc Hv).
        destruct (veqb (r v) f') eqn:E.
        * apply veqb_eq in E. rewrite E. rewrite den_unstored; [reflexivity|]. cbn.
          intros Hc'. apply in_map_iff in Hc'. destruct Hc' as [[ix' w] [Eq He]]. cbn in Eq. subst ix'.
          unfold es in He. apply filter_In in He. destruct He as [He HP].
          apply in_map_iff in He. destruct He as [[ix2 v2] [Eq2 He2]]. cbn in Eq2. inversion Eq2; subst.
          assert (v2 = v).
          { rewrite <- (den_stored V c ix v2 Hc He2). apply den_stored; assumption. }
          subst. unfold P in HP. cbn in HP. rewrite <- E in HP.
          assert (veqb (r v) (r v) = true) by (apply veqb_eq; reflexivity). rewrite H in HP. discriminate.
        * apply den_stored; [exact Hcan|]. rewrite Hent. unfold es. apply filter_In. split.
          -- apply in_map_iff. exists (ix, v). split; [reflexivity|assumption].
          -- unfold P. cbn. rewrite E. reflexivity.
      + rewrite (den_unstored V c ix Hnin). rewrite den_unstored; [reflexivity|]. cbn.
        intros Hc'. rewrite Hfst in Hc'. apply in_map_iff in Hc'. destruct Hc' as [e [<- He]].
        apply filter_In in He. destruct He as [He _]. apply Hnin. rewrite <- Hco. apply in_map. assumption.
  Qed.
End Map.

(* np_reduce depends on its array only through the values at in-range indices *)
Lemma np_reduce_ext_in {V} (op : V -> V -> V) cast ident sh (f f' : idx -> V) ax kd :
  (forall ix, in_range sh ix -> f ix = f' ix) ->
  match np_reduce V op cast ident ax kd sh f, np_reduce V op cast ident ax kd sh f' with
  | Ok (osh, g), Ok (osh', g') => osh = osh' /\ forall oix, g oix = g' oix
  | Raise e, Raise e' => e = e'
  | _, _ => False
  end.
Proof.
  intros H. unfold np_reduce. destruct (np_norm_axes (Z.of_nat (length sh)) ax); cbn [bind]; [|reflexivity].
  destruct (_ && _); [reflexivity|]. split; [reflexivity|]. intros oix. cbn zeta. f_equal.
  apply map_ext_in. intros ix Hin. apply H. unfold np_cells in Hin. apply filter_In in Hin.
  apply all_indices_In. tauto.
Qed.

(* ------------------------------------------------------------------ nan-reductions *)
Section Nan.
  Variable V : Type.
  Variable veqb : V -> V -> bool.
  Hypothesis veqb_eq : forall a b, veqb a b = true <-> a = b.
  Variable isnan : V -> bool.
  Variable op : V -> V -> V.
  Hypothesis op_assoc : forall a b c, op a (op b c) = op (op a b) c.
  Hypothesis op_comm : forall a b, op a b = op b a.
  Variable cast : V -> V.
  Hypothesis cast_op : forall a b, cast (op (cast a) (cast b)) = op (cast a) (cast b).
  Variable sup : option (V -> Z -> V).
  Variable ident : option V.
  Hypothesis sup_one : forall s f, sup = Some s -> s f 1 = cast f.
  Hypothesis sup_succ : forall s f k, sup = Some s -> 1 <= k -> s f (k + 1) = op (s f k) (cast f).

  (* nanreduce is NumPy's reduction of where(isnan(a), identity, a) *)
  Theorem nanreduce_den_proof (x : coo V) (value : V) ax (kd : bool) :
    COOP.canonical V x -> shape_ok (c_shape x) ->
    let repl := fun v => if isnan v then value else v in
    match nanreduce V veqb isnan op cast sup ident (Some value) ax kd x with
    | Ok r =>
      exists osh g, np_reduce V op cast ident ax kd (c_shape x) (fun ix => repl (den x ix)) = Ok (osh, g) /\
        rres_shape r = osh /\ (forall oix, in_range osh oix -> g oix = Ok (rres_den r oix)) /\
        rres_wf V veqb r
    | Raise e =>
      e = ValueError /\
      (np_reduce V op cast ident ax kd (c_shape x) (fun ix => repl (den x ix)) = Raise ValueError
       \/ admissible V veqb op cast sup (repl (c_fill x)) = false)
    end.
  Proof.
    intros Hc Hok repl. unfold nanreduce, replace_nan. cbv beta iota. fold repl.
    destruct (coo_map_spec V veqb veqb_eq repl x Hc) as [Hc' [Hsh [Hf [_ Hd]]]].
    pose proof (reduce_den_proof V veqb veqb_eq op op_assoc op_comm cast cast_op sup ident sup_one sup_succ
                  (coo_map veqb repl x) ax kd Hc') as Hred.
    rewrite Hsh, Hf in Hred. specialize (Hred Hok).
    pose proof (np_reduce_ext_in op cast ident (c_shape x) (den (coo_map veqb repl x)) (fun ix => repl (den x ix)) ax kd
                  (fun ix _ => Hd ix)) as Hext.
    set (N2 := np_reduce V op cast ident ax kd (c_shape x) (fun ix => repl (den x ix))) in *.
    destruct (reduce_coo V veqb op cast sup ident ax kd (coo_map veqb repl x)) as [r|e].
    - destruct Hred as [osh [g [Hs [H1 [H2 H3]]]]]. rewrite Hs in Hext.
      destruct N2 as [[osh' g']|]; [|contradiction].
      cbv beta iota in Hext. destruct Hext as [Ho Hg]. subst osh'. exists osh, g'. split; [reflexivity|]. split; [assumption|]. split; [|assumption].
      intros oix Hoix. rewrite <- Hg. apply H2. assumption.
    - destruct Hred as [-> [Hs|Hs]]; split; auto. left. rewrite Hs in Hext.
      destruct N2 as [[? ?]|]; [contradiction|congruence].
  Qed.
End Nan.

(* ------------------------------------------------------------------ exact rationals (Qc: canonical fractions) *)
Definition qc_eqb (a b : Qc) : bool := Qc_eq_bool a b.
Definition qc_of_Z (n : Z) : Qc := Q2Qc (inject_Z n).
Definition qc_scale (f : Qc) (n : Z) : Qc := (f * qc_of_Z n)%Qc.
Definition qc_divn (v : Qc) (n : Z) : Qc := (v / qc_of_Z n)%Qc.

Lemma qc_eqb_eq a b : qc_eqb a b = true <-> a = b.
Proof.
  unfold qc_eqb. split; [apply Qc_eq_bool_correct|]. intros ->. unfold Qc_eq_bool.
  destruct (Qc_eq_dec b b); [reflexivity|congruence].
Qed.

Lemma qc_of_Z_succ k : qc_of_Z (k + 1) = (qc_of_Z k + 1)%Qc.
Proof.
  unfold qc_of_Z. apply Qc_is_canon. unfold Qcplus, Q2Qc. cbn [this].
  rewrite !Qred_correct. rewrite inject_Z_plus. reflexivity.
Qed.

Lemma qc_scale_one f : qc_scale f 1 = f.
Proof. unfold qc_scale. change (qc_of_Z 1) with 1%Qc. apply Qcmult_1_r. Qed.

Lemma qc_scale_succ f k : qc_scale f (k + 1) = (qc_scale f k + f)%Qc.
Proof. unfold qc_scale. rewrite qc_of_Z_succ. ring. Qed.

(* ------------------------------------------------------------------ raw axes, shape products *)
Lemma np_norm_list_id n l : axes_ok n l -> np_norm_list n l = Ok l.
Proof.
  induction 1 as [|a l Ha _ IH]; cbn; [reflexivity|]. rewrite (np_norm_axis_id n a Ha). cbn. rewrite IH. reflexivity.
Qed.

Definition raw_axes (n : Z) (ax : axis_arg) : list Z :=
  match ax with AxNone => zrange n | AxInt a => [a] | AxTuple l => l end.

Lemma np_norm_axes_raw n ax : np_norm_axes n (AxTuple (raw_axes n ax)) = np_norm_axes n ax.
Proof.
  destruct ax as [|a|l]; cbn [raw_axes np_norm_axes]; [| |reflexivity].
  - rewrite np_norm_list_id by (apply Forall_forall; intros a Ha; apply zrange_In; assumption).
    cbn [bind]. rewrite (proj2 (np_distinct_NoDup _) (NoDup_zrange n)). reflexivity.
  - cbn. destruct (np_norm_axis n a); cbn; reflexivity.
Qed.

Lemma np_reduce_same_axes {V} (op : V -> V -> V) cast ident ax ax' kd sh f :
  np_norm_axes (Z.of_nat (length sh)) ax = np_norm_axes (Z.of_nat (length sh)) ax' ->
  np_reduce V op cast ident ax kd sh f = np_reduce V op cast ident ax' kd sh f.
Proof. intros H. unfold np_reduce. rewrite H. reflexivity. Qed.

Section Shape2.
  Variable V : Type.
  Variable veqb : V -> V -> bool.
  Variable add sub mul : V -> V -> V.
  Variable zero : V.
  Variable scale : V -> Z -> V.
  Variable divn : V -> Z -> V.

  Lemma py_shape_at_spec sh a :
    match py_shape_at sh a, np_norm_axis (zlen sh) a with
    | Ok d, Ok z => d = nth (Z.to_nat z) sh 0
    | Raise _, Raise _ => True
    | _, _ => False
    end.
  Proof.
    unfold py_shape_at, np_norm_axis. set (n := zlen sh).
    destruct (Z.leb_spec 0 a); destruct (Z.ltb_spec a n); destruct (Z.leb_spec (- n) a); destruct (Z.ltb_spec a 0);
      cbn; try lia; try reflexivity; try exact I.
  Qed.

  Lemma prod_shape_at_spec sh l :
    match prod_shape_at sh l, np_norm_list (zlen sh) l with
    | Ok d, Ok zs => d = size (sel 0 zs sh)
    | Raise _, Raise _ => True
    | _, _ => False
    end.
  Proof.
    induction l as [|a l IH]; cbn; [reflexivity|].
    pose proof (py_shape_at_spec sh a) as Ha.
    destruct (py_shape_at sh a) as [d|e]; destruct (np_norm_axis (zlen sh) a) as [z|e']; cbn; try contradiction; try exact I.
    destruct (prod_shape_at sh l) as [p|e]; destruct (np_norm_list (zlen sh) l) as [zs|e']; cbn; try contradiction; try exact I.
    cbn. subst. reflexivity.
  Qed.
End Shape2.

(* the broadcast index lies in the keepdims shape and keeps the kept coordinates *)
Lemma bcast_numbered axes : forall (sh : shape) (s : nat) (ix : idx),
  in_range sh ix ->
  in_range (map (fun q => if mem_z (fst q) axes then 1 else snd q) (numbered s sh))
           (map (fun q => if mem_z (fst q) axes then 0 else snd q) (numbered s ix))
  /\ map snd (filter (fun q => negb (mem_z (fst q) axes))
                     (numbered s (map (fun q => if mem_z (fst q) axes then 0 else snd q) (numbered s ix))))
     = map snd (filter (fun q => negb (mem_z (fst q) axes)) (numbered s ix)).
Proof.
  unfold numbered. induction sh as [|d sh IH]; intros s ix Hr; destruct ix as [|i ix]; cbn in Hr; try contradiction.
  - cbn. auto.
  - destruct Hr as [Hi Hr]. destruct (IH (S s) ix Hr) as [H1 H2].
    cbn [length seq map combine filter fst snd].
    rewrite !map_length, combine_length, map_length, seq_length, Nat.min_id in *.
    cbn [length seq map combine filter fst snd].
    destruct (mem_z (Z.of_nat s) axes) eqn:E; cbn [negb map snd fst filter]; rewrite ?E; cbn [negb map snd].
    + split; [split; [lia|exact H1]|exact H2].
    + split; [split; [lia|exact H1]|]. f_equal. exact H2.
Qed.

Lemma bcast_idx_spec sh axes ix :
  in_range sh ix ->
  in_range (keep_shape sh axes) (bcast_idx axes ix) /\
  sel 0 (kept_axes (zlen sh) axes) (bcast_idx axes ix) = sel 0 (kept_axes (zlen sh) axes) ix.
Proof.
  intros Hr. assert (Hl : zlen ix = zlen sh) by (apply in_range_length in Hr; unfold zlen; lia).
  assert (Hb : bcast_idx axes ix = map (fun q => if mem_z (fst q) axes then 0 else snd q) (numbered 0 ix)).
  { unfold bcast_idx, numbered, zrange, zlen. rewrite Nat2Z.id. reflexivity. }
  destruct (bcast_numbered axes sh 0 ix Hr) as [H1 H2].
  split.
  - rewrite keep_shape_numbered, Hb. exact H1.
  - assert (Hlb : zlen (bcast_idx axes ix) = zlen sh).
    { rewrite Hb. unfold zlen, numbered. rewrite map_length, combine_length, map_length, seq_length. unfold zlen in Hl. lia. }
    rewrite <- Hlb at 1. rewrite sel_kept_numbered. rewrite <- Hl, sel_kept_numbered. rewrite Hb. exact H2.
Qed.

(* ------------------------------------------------------------------ sum, mean, var over Qc *)
Section MeanVarQ.
  Local Open Scope Qc_scope.
  Notation sumq := (sum_coo Qc qc_eqb Qcplus 0 qc_scale).
  Notation npsum := (np_sum Qc Qcplus 0).
  Notation canonical := (COOP.canonical Qc).

  Lemma sum_den (x : coo Qc) ax kd :
    canonical x -> shape_ok (c_shape x) ->
    match sumq ax kd x with
    | Ok r => exists osh g, npsum ax kd (c_shape x) (den x) = Ok (osh, g) /\
        rres_shape r = osh /\ (forall oix, in_range osh oix -> g oix = Ok (rres_den r oix)) /\ rres_wf Qc qc_eqb r
    | Raise e => e = ValueError /\ npsum ax kd (c_shape x) (den x) = Raise ValueError
    end.
  Proof.
    intros Hc Hok.
    pose proof (reduce_den_proof Qc qc_eqb qc_eqb_eq Qcplus Qcplus_assoc Qcplus_comm (fun v => v)
                  (fun a b => eq_refl) (Some qc_scale) (Some 0)) as H.
    specialize (H ltac:(intros s f E; inversion E; apply qc_scale_one)
                  ltac:(intros s f k E _; inversion E; apply qc_scale_succ) x ax kd Hc Hok).
    unfold sum_coo, np_sum. destruct (reduce_coo _ _ _ _ _ _ ax kd x) as [r|e]; [exact H|].
    destruct H as [-> [H|H]]; [auto|]. unfold admissible in H. cbn in H. rewrite orb_true_r in H. discriminate.
  Qed.

  Lemma rres_map_spec (h : Qc -> Qc) (r : rres Qc) :
    rres_wf Qc qc_eqb r ->
    rres_shape (rres_map qc_eqb h r) = rres_shape r /\ rres_wf Qc qc_eqb (rres_map qc_eqb h r) /\
    forall oix, rres_den (rres_map qc_eqb h r) oix = h (rres_den r oix).
  Proof.
    destruct r as [c|v]; cbn; [|auto]. intros [Hc [_ Hne]].
    destruct (coo_map_spec Qc qc_eqb qc_eqb_eq h c Hc) as [H1 [H2 [_ [H4 H5]]]].
    split; [assumption|]. split; [|assumption]. split; [assumption|]. split; [assumption|]. try rewrite H2. assumption.
  Qed.

  (* mean_var_den, part 1: SparseArray.mean is the exact mean *)
  Theorem mean_den_proof (x : coo Qc) ax (kd : bool) :
    canonical x -> shape_ok (c_shape x) ->
    match mean_coo Qc qc_eqb Qcplus 0 qc_scale qc_divn ax kd x with
    | Ok r => exists osh g, np_mean Qc Qcplus 0 qc_divn ax kd (c_shape x) (den x) = Ok (osh, g) /\
        rres_shape r = osh /\ (forall oix, in_range osh oix -> g oix = Ok (rres_den r oix)) /\ rres_wf Qc qc_eqb r
    | Raise e => np_mean Qc Qcplus 0 qc_divn ax kd (c_shape x) (den x) = Raise ValueError
    end.
  Proof.
    intros Hc Hok. unfold mean_coo, np_mean, np_sum.
    set (sh := c_shape x). set (n := zlen sh). fold (raw_axes n ax).
    assert (Hn : n = Z.of_nat (length sh)) by reflexivity. rewrite <- Hn.
    rewrite <- (np_norm_axes_raw n ax).
    rewrite (np_reduce_same_axes Qcplus (fun v => v) (Some 0) ax (AxTuple (raw_axes n ax)) kd sh (den x))
      by (rewrite <- Hn; symmetry; apply np_norm_axes_raw).
    pose proof (prod_shape_at_spec sh (raw_axes n ax)) as Hp. fold n in Hp.
    cbn [np_norm_axes]. destruct (prod_shape_at sh (raw_axes n ax)) as [d|e].
    2:{ cbn [bind]. destruct (np_norm_list n (raw_axes n ax)) as [zs|e'] eqn:El; [contradiction|]. cbn [bind].
        destruct (norm_axes_raise n (AxTuple (raw_axes n ax)) e') as [-> _]; [|reflexivity].
        cbn. rewrite map_res_np_norm, El. reflexivity. }
    cbn [bind]. destruct (np_norm_list n (raw_axes n ax)) as [zs|e'] eqn:El; [|contradiction]. cbn [bind]. subst d.
    pose proof (sum_den x (AxTuple (raw_axes n ax)) kd Hc Hok) as Hs. fold sh in Hs.
    unfold np_sum in *.
    assert (Hnp : forall osh g, np_reduce Qc Qcplus (fun v => v) (Some 0) (AxTuple (raw_axes n ax)) kd sh (den x) = Ok (osh, g) ->
                  np_distinct zs = true).
    { intros osh g E. unfold np_reduce in E. rewrite <- Hn in E. cbn [np_norm_axes] in E. rewrite El in E. cbn [bind] in E.
      destruct (np_distinct zs); [reflexivity|discriminate]. }
    destruct (sumq (AxTuple (raw_axes n ax)) kd x) as [r|e].
    - destruct Hs as [osh [g [Hs [H1 [H2 H3]]]]]. rewrite (Hnp _ _ Hs). cbn [bind]. rewrite Hs.
      destruct (rres_map_spec (fun v => qc_divn v (size (sel 0%Z zs sh))) r H3) as [M1 [M2 M3]].
      eexists. eexists. split; [reflexivity|]. split; [congruence|]. split; [|assumption].
      intros oix Hoix. rewrite (H2 _ Hoix). cbn [bind]. rewrite M3. reflexivity.
    - destruct Hs as [_ Hs]. destruct (np_distinct zs); cbn [bind]; [rewrite Hs|]; reflexivity.
  Qed.

  (* explicit form of NumPy's sum once the axes are known *)
  Lemma npsum_form ax axes kd sh (f : idx -> Qc) :
    np_norm_axes (Z.of_nat (length sh)) ax = Ok axes ->
    npsum ax kd sh f =
      Ok (if kd then np_keep_shape sh axes else sel 0%Z (np_kept (Z.of_nat (length sh)) axes) sh,
          fun oix => let kix := if kd then sel 0%Z (np_kept (Z.of_nat (length sh)) axes) oix else oix in
                     np_fold Qc Qcplus (fun v => v) (Some 0) (map f (np_cells sh (np_kept (Z.of_nat (length sh)) axes) kix))).
  Proof. intros H. unfold np_sum, np_reduce. rewrite H. cbn [bind]. rewrite andb_false_r. reflexivity. Qed.

  Lemma map_eq_pointwise {A B} (f g : A -> B) l : map f l = map g l -> forall a, In a l -> f a = g a.
  Proof.
    induction l as [|x l IH]; cbn; intros E a Ha; [contradiction|]. inversion E.
    destruct Ha as [->|Ha]; [assumption|auto].
  Qed.

  Lemma sqdev_spec axes (x m : coo Qc) :
    let x2 := coo_sqdev Qc qc_eqb Qcminus Qcmult axes x m in
    canonical x2 /\ c_shape x2 = c_shape x /\
    forall ix, in_range (c_shape x) ix ->
      den x2 ix = (let d := den x ix - den m (bcast_idx axes ix) in d * d).
  Proof.
    cbn zeta. unfold coo_sqdev.
    set (h := fun ix => let d := den x ix - den m (bcast_idx axes ix) in d * d).
    set (f' := let d := c_fill x - c_fill m in d * d).
    set (dd := mkDense (c_shape x) (tabulate (c_shape x) h)).
    destruct (from_dense_canonical Qc qc_eqb dd f') as [Hcb _].
    split; [apply canonicalb_spec; exact Hcb|]. split; [reflexivity|].
    intros ix Hix.
    assert (Hwf : dense_wf dd) by (unfold dense_wf, dd, tabulate; cbn; apply map_length).
    pose proof (todense_from_dense Qc qc_eqb qc_eqb_eq dd f' Hwf) as Ht.
    unfold todense, dd in Ht. cbn [c_shape from_dense d_shape] in Ht. inversion Ht as [Hm].
    unfold tabulate in Hm. apply (map_eq_pointwise _ _ _ Hm). apply all_indices_In. assumption.
  Qed.

  (* mean_var_den, part 2: SparseArray.var is the exact two-pass variance *)
  Theorem var_den_proof (x : coo Qc) (ddof : Z) ax (kd : bool) :
    canonical x -> shape_ok (c_shape x) -> c_shape x <> [] ->
    match var_coo Qc qc_eqb Qcplus Qcminus Qcmult 0 qc_scale qc_divn ddof ax kd x with
    | Ok r => exists osh g, np_var Qc Qcplus Qcminus Qcmult 0 qc_divn ddof ax kd (c_shape x) (den x) = Ok (osh, g) /\
        rres_shape r = osh /\ (forall oix, in_range osh oix -> g oix = Ok (rres_den r oix)) /\ rres_wf Qc qc_eqb r
    | Raise e => np_var Qc Qcplus Qcminus Qcmult 0 qc_divn ddof ax kd (c_shape x) (den x) = Raise ValueError
    end.
  Proof.
    intros Hc Hok Hne. unfold var_coo.
    set (sh := c_shape x) in *. set (n := zlen sh).
    assert (Hn : n = Z.of_nat (length sh)) by reflexivity.
    destruct (norm_axes n ax) as [nax|e] eqn:En.
    2:{ cbn [bind]. destruct (norm_axes_raise _ _ _ En) as [_ Hnp]. unfold np_var. rewrite <- Hn, Hnp. reflexivity. }
    cbn [bind].
    assert (Haxes : exists axes, (match nax with None => zrange n | Some l => l end) = axes /\ axes_ok n axes /\
              (NoDup axes -> np_norm_axes n ax = Ok axes) /\
              (~ NoDup axes -> np_norm_axes n ax = Raise ValueError)).
    { pose proof (norm_axes_spec _ _ _ En) as Hs. destruct nax as [l|].
      - destruct Hs as [H1 [H2 H3]]. exists l. auto.
      - subst ax. exists (zrange n). split; [reflexivity|]. split.
        + apply Forall_forall. intros a Ha. apply zrange_In. assumption.
        + split; [reflexivity|]. intros H. exfalso. apply H. apply NoDup_zrange. }
    destruct Haxes as [axes [-> [Hax [Hnp1 Hnp2]]]].
    pose proof (prod_shape_at_spec sh axes) as Hp. fold n in Hp. rewrite (np_norm_list_id n axes Hax) in Hp.
    destruct (prod_shape_at sh axes) as [rcount|e]; [|contradiction]. subst rcount. cbn [bind].
    set (N := size (sel 0%Z axes sh)).
    assert (Htup : np_norm_axes n (AxTuple axes) = if np_distinct axes then Ok axes else Raise ValueError).
    { cbn. rewrite (np_norm_list_id n axes Hax). reflexivity. }
    pose proof (sum_den x (AxTuple axes) true Hc Hok) as Hs1. fold sh in Hs1.
    destruct (np_distinct axes) eqn:Edist.
    2:{ assert (Hnd : ~ NoDup axes) by (intros H; apply np_distinct_NoDup in H; congruence).
        assert (Hr : npsum (AxTuple axes) true sh (den x) = Raise ValueError).
        { unfold np_sum, np_reduce. rewrite <- Hn, Htup. reflexivity. }
        rewrite Hr in Hs1. destruct (sumq (AxTuple axes) true x) as [r1|e1].
        - destruct Hs1 as [? [? [Hs1 _]]]. discriminate.
        - cbn [bind]. unfold np_var. rewrite <- Hn, (Hnp2 Hnd). reflexivity. }
    apply np_distinct_NoDup in Edist. specialize (Hnp1 Edist). clear Hnp2.
    assert (Hsame : np_norm_axes (Z.of_nat (length sh)) ax = np_norm_axes (Z.of_nat (length sh)) (AxTuple axes)).
    { rewrite <- Hn, Hnp1, Htup. reflexivity. }
    rewrite Hn in Hnp1.
    (* first pass *)
    rewrite (npsum_form (AxTuple axes) axes true sh (den x)) in Hs1 by (rewrite <- Hsame; assumption).
    destruct (sumq (AxTuple axes) true x) as [r1|e1]; [|destruct Hs1; discriminate].
    destruct Hs1 as [osh1 [g1 [Hs1 [Hsh1 [Hd1 Hwf1]]]]]. inversion Hs1 as [[Ho1 Hg1]]. clear Hs1.
    cbn [bind]. change (np_keep_shape sh axes) with (keep_shape sh axes) in Ho1.
    destruct r1 as [m0|v0].
    2:{ exfalso. cbn in Hsh1. rewrite <- Ho1 in Hsh1. apply Hne.
        apply (f_equal (@length Z)) in Hsh1. rewrite keep_shape_length in Hsh1. destruct sh; [reflexivity|discriminate]. }
    cbn in Hsh1, Hwf1. destruct Hwf1 as [Hcm0 _].
    destruct (coo_map_spec Qc qc_eqb qc_eqb_eq (fun v => qc_divn v N) m0 Hcm0) as [Hcam [Hsham [_ [_ Hdam]]]].
    set (arrmean := coo_map qc_eqb (fun v => qc_divn v N) m0) in *.
    destruct (sqdev_spec axes x arrmean) as [Hc2 [Hsh2 Hd2]]. fold sh in Hsh2, Hd2.
    set (x2 := coo_sqdev Qc qc_eqb Qcminus Qcmult axes x arrmean) in *.
    (* second pass *)
    pose proof (sum_den x2 (AxTuple axes) kd Hc2) as Hs2. rewrite Hsh2 in Hs2. specialize (Hs2 Hok).
    rewrite (npsum_form (AxTuple axes) axes kd sh (den x2)) in Hs2 by (rewrite <- Hsame; assumption).
    (* the Spec *)
    assert (Hdev : forall ix, in_range sh ix ->
              den x2 ix = match (v <- g1 (np_bcast_idx axes ix) ;; Ok (qc_divn v N)) with
                          | Ok u => (den x ix - u) * (den x ix - u)
                          | Raise _ => 0
                          end).
    { intros ix Hix. rewrite (Hd2 ix Hix). cbn zeta.
      change (np_bcast_idx axes ix) with (bcast_idx axes ix).
      destruct (bcast_idx_spec sh axes ix Hix) as [Hb _].
      rewrite (Hd1 (bcast_idx axes ix)) by (rewrite <- Ho1; exact Hb). cbn [bind rres_den].
      rewrite Hdam. reflexivity. }
    assert (Hspec : np_var Qc Qcplus Qcminus Qcmult 0 qc_divn ddof ax kd sh (den x) =
              (r <- npsum ax kd sh (fun ix => match (v <- g1 (np_bcast_idx axes ix) ;; Ok (qc_divn v N)) with
                                              | Ok u => (den x ix - u) * (den x ix - u)
                                              | Raise _ => 0 end) ;;
               let '(osh, g) := r in
               Ok (osh, fun oix => v <- g oix ;; Ok (qc_divn v (Z.max (N - ddof) 0))))).
    { unfold np_var, np_mean. rewrite Hnp1. cbn [bind].
      rewrite (npsum_form ax axes true sh (den x) Hnp1). cbn [bind]. rewrite <- Hg1. reflexivity. }
    rewrite Hspec. clear Hspec.
    rewrite (npsum_form ax axes kd sh _ Hnp1). cbn [bind].
    destruct (sumq (AxTuple axes) kd x2) as [r2|e2]; [|destruct Hs2; discriminate].
    destruct Hs2 as [osh2 [g2 [Hs2 [Hsh2' [Hd2' Hwf2]]]]]. inversion Hs2 as [[Ho2 Hg2]]. clear Hs2.
    cbn [bind].
    destruct (rres_map_spec (fun v => qc_divn v (Z.max (N - ddof) 0)) r2 Hwf2) as [M1 [M2 M3]].
    eexists. eexists. split; [reflexivity|]. split; [congruence|]. split; [|assumption].
    intros oix Hoix. rewrite M3.
    pose proof (Hd2' oix ltac:(rewrite <- Ho2; exact Hoix)) as E2. rewrite <- Hg2 in E2. cbn zeta in E2.
    cbn zeta.
    match goal with |- (v <- ?A ;; _) = _ => match type of E2 with ?B = _ => assert (HAB : A = B) end end.
    { f_equal. apply map_ext_in. intros ix Hin. unfold np_cells in Hin. apply filter_In in Hin.
      destruct Hin as [Hin _]. apply all_indices_In in Hin. symmetry. apply Hdev. assumption. }
    rewrite HAB, E2. reflexivity.
  Qed.
End MeanVarQ.

(* ------------------------------------------------------------------ examples (non-vacuity) *)
(* [[1, 2, 0], [0, 4, 0]] with fill 0: mean over axis 1 = [1, 4/3]; var over axis 1 (ddof 1) = [1, 16/3] *)
Definition qz (z : Z) : Qc := Q2Qc (inject_Z z).
Definition ex_q : coo Qc := mkCOO [2; 3] [[0; 0]; [0; 1]; [1; 1]] [qz 1; qz 2; qz 4] (qz 0).

Example ex_mean_var_proof :
  COOP.canonical Qc ex_q /\
  match mean_coo Qc qc_eqb Qcplus (qz 0) qc_scale qc_divn (AxInt (-1)) false ex_q,
        var_coo Qc qc_eqb Qcplus Qcminus Qcmult (qz 0) qc_scale qc_divn 1 (AxInt 1) false ex_q with
  | Ok m, Ok v =>
    qc_eqb (rres_den m [0]) (qz 1) && qc_eqb (rres_den m [1]) (Q2Qc (4 # 3))
    && qc_eqb (rres_den v [0]) (qz 1) && qc_eqb (rres_den v [1]) (Q2Qc (16 # 3))
  | _, _ => false
  end = true.
Proof. split; [apply canonicalb_spec; vm_compute; reflexivity|vm_compute; reflexivity]. Qed.

(* a value type with a NaN token: option Z, None = NaN; addition propagates NaN *)
Definition oz_add (a b : option Z) : option Z :=
  match a, b with Some x, Some y => Some (x + y) | _, _ => None end.
Definition oz_scale (f : option Z) (n : Z) : option Z := option_map (fun v => v * n) f.
Definition oz_eqb (a b : option Z) : bool :=
  match a, b with Some x, Some y => x =? y | None, None => true | _, _ => false end.
Definition oz_isnan (a : option Z) : bool := match a with None => true | Some _ => false end.

Lemma oz_eqb_eq a b : oz_eqb a b = true <-> a = b.
Proof.
  destruct a, b; cbn; try (split; [discriminate|congruence]); [|tauto].
  rewrite Z.eqb_eq. split; [congruence|intros E; inversion E; reflexivity].
Qed.

(* nansum over option Z: NumPy's sum of where(isnan(a), 0, a) *)
Theorem nansum_den_optz_proof (x : coo (option Z)) ax (kd : bool) :
  COOP.canonical (option Z) x -> shape_ok (c_shape x) ->
  let repl := fun v => if oz_isnan v then Some 0 else v in
  match nanreduce (option Z) oz_eqb oz_isnan oz_add (fun v => v) (Some oz_scale) (Some (Some 0)) None ax kd x with
  | Ok r =>
    exists osh g, np_reduce (option Z) oz_add (fun v => v) (Some (Some 0)) ax kd (c_shape x) (fun ix => repl (den x ix)) = Ok (osh, g) /\
      rres_shape r = osh /\ (forall oix, in_range osh oix -> g oix = Ok (rres_den r oix)) /\
      rres_wf (option Z) oz_eqb r
  | Raise e => e = ValueError /\
      np_reduce (option Z) oz_add (fun v => v) (Some (Some 0)) ax kd (c_shape x) (fun ix => repl (den x ix)) = Raise ValueError
  end.
Proof.
  intros Hc Hok repl.
  pose proof (nanreduce_den_proof (option Z) oz_eqb oz_eqb_eq oz_isnan oz_add) as H.
  specialize (H ltac:(intros [a|] [b|] [c|]; cbn; try reflexivity; f_equal; lia)
                ltac:(intros [a|] [b|]; cbn; try reflexivity; f_equal; lia)
                (fun v => v) (fun a b => eq_refl) (Some oz_scale) (Some (Some 0))).
  specialize (H ltac:(intros s [f|] E; inversion E; cbn; [f_equal; lia|reflexivity])
                ltac:(intros s [f|] k E _; inversion E; cbn; [f_equal; lia|reflexivity])
                x (Some 0) ax kd Hc Hok).
  cbn zeta in H. unfold nanreduce in *. cbn [nanreduce] in *.
  destruct (reduce_coo _ _ _ _ _ _ ax kd _) as [r|e]; [exact H|].
  destruct H as [-> [H|H]]; [auto|]. unfold admissible in H. cbn in H. rewrite orb_true_r in H. discriminate.
Qed.

(* [[1, NaN], [NaN, NaN]] with fill NaN: nansum over axis 1 = [1, 0] *)
Example ex_nansum_proof :
  nanreduce (option Z) oz_eqb oz_isnan oz_add (fun v => v) (Some oz_scale) (Some (Some 0)) None (AxInt 1) false
            (mkCOO [2; 2] [[0; 0]] [Some 1] None)
  = Ok (RArr (mkCOO [2] [[0]] [Some 1] (Some 0))).
Proof. vm_compute. reflexivity. Qed.
