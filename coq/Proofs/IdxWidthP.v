(* Proofs/IdxWidthP.v — the index dtype never changes a coordinate: every intermediate of the
   computations of Model/IdxWidth.v lies in the range of the stored type, or a guard fires;
   and the places where that is false of the code as it stands (refutations with witnesses). *)
From Coq Require Import ZArith List Bool Lia ZifyBool.
From Verif Require Import Py MachInt S_idxwidth IdxWidth.
Import ListNotations.
Open Scope Z_scope.

(* ------------------------------------------------------------------ ranges *)
Lemma ilo_nonpos t : 0 < bits t -> ilo t <= 0.
Proof.
  intros. unfold ilo. destruct (sg t); [|lia].
  pose proof (pow2_pos (bits t - 1) ltac:(lia)). lia.
Qed.

Lemma ihi_nonneg t : 0 < bits t -> 0 <= ihi t.
Proof.
  intros. unfold ihi. destruct (sg t).
  - pose proof (pow2_pos (bits t - 1) ltac:(lia)). lia.
  - pose proof (pow2_pos (bits t) ltac:(lia)). lia.
Qed.

Lemma fits_iff t z : fits (DInt t) z = true <-> ilo t <= z <= ihi t.
Proof.
  rewrite fits_spec. unfold in_range_w. destruct t; reflexivity.
Qed.

Lemma fits_between t a b z :
  fits (DInt t) a = true -> fits (DInt t) b = true -> a <= z <= b -> fits (DInt t) z = true.
Proof. rewrite !fits_iff. lia. Qed.

Lemma fits_zero t : 0 < bits t -> fits (DInt t) 0 = true.
Proof. intros. rewrite fits_iff. pose proof (ilo_nonpos t H). pose proof (ihi_nonneg t H). lia. Qed.

Lemma fits_le t m z : 0 < bits t -> fits (DInt t) m = true -> 0 <= z <= m -> fits (DInt t) z = true.
Proof. intros Hb Hm Hz. eapply fits_between; [apply fits_zero, Hb|exact Hm|exact Hz]. Qed.

Lemma wr_fits t z : 0 < bits t -> fits (DInt t) z = true -> wr (DInt t) z = z.
Proof. intros Hb H. cbn. apply wrap_id; [exact Hb|]. apply fits_spec, H. Qed.

Lemma map_wr_id t l :
  0 < bits t -> Forall (fun c => fits (DInt t) c = true) l -> map (wr (DInt t)) l = l.
Proof.
  intros Hb H. induction H; cbn [map]; [reflexivity|].
  rewrite IHForall. f_equal. apply wr_fits; assumption.
Qed.

Lemma map_ext_Forall {A B} (f g : A -> B) (P : A -> Prop) l :
  (forall a, P a -> f a = g a) -> Forall P l -> map f l = map g l.
Proof. intros E H. induction H; cbn; [reflexivity|]. rewrite E, IHForall by assumption. reflexivity. Qed.

(* ------------------------------------------------------------------ can_store, min_scalar_type *)
Theorem can_store_spec_proof t z :
  can_store (DInt t) z = true <-> in_range_w (bits t) (sg t) z.
Proof. unfold can_store, s_can_store. apply fits_spec. Qed.

Lemma can_store_inf z : can_store DInf z = true.
Proof. reflexivity. Qed.

Lemma pyv_dty_roundtrip t : 0 < bits t -> pyv_dty (dty_pyv (DInt t)) = Some (DInt t).
Proof.
  intros Hb. cbn. destruct (Z.eqb_spec (bits t) 0); [lia|]. destruct (Z.eqb_spec (bits t) (-1)); [lia|].
  destruct t; reflexivity.
Qed.

Lemma min_scalar_type_nonneg z :
  0 <= z < 2 ^ 64 ->
  exists t, min_scalar_type z = Some t /\ std t /\ fits (DInt t) z = true.
Proof.
  intros Hz. unfold min_scalar_type.
  destruct (Z.leb_spec 0 z); [|lia].
  destruct (Z.leb_spec z 255); [exists u8; repeat split; [unfold std; cbn; lia|apply fits_iff; cbn; lia]|].
  destruct (Z.leb_spec z 65535); [exists u16; repeat split; [unfold std; cbn; lia|apply fits_iff; cbn; lia]|].
  destruct (Z.leb_spec z 4294967295); [exists u32; repeat split; [unfold std; cbn; lia|apply fits_iff; cbn; lia]|].
  destruct (Z.leb_spec z 18446744073709551615);
    [exists u64; repeat split; [unfold std; cbn; lia|apply fits_iff; cbn; lia]|].
  change (2 ^ 64) with 18446744073709551616 in Hz. lia.
Qed.

Lemma ext_min_scalar_type_nonneg z :
  0 <= z < 2 ^ 64 ->
  exists t, ext_min_scalar_type (VInt z) = Ok (dty_pyv (DInt t)) /\ std t /\ fits (DInt t) z = true.
Proof.
  intros Hz. destruct (min_scalar_type_nonneg z Hz) as [t [E [S F]]].
  exists t. unfold ext_min_scalar_type. cbn [as_int]. rewrite E. auto.
Qed.

(* the shape of every dtype (re-)choice of the code: keep d if it can store m, else
   np.min_scalar_type(m) *)
Definition chosen (d : dty) (m : Z) (d' : dty) : Prop :=
  (can_store d m = true /\ d' = d) \/
  (can_store d m = false /\ exists t, d' = DInt t /\ std t /\ fits (DInt t) m = true).

Lemma concat_dtype_chosen t m :
  std t -> 0 <= m < 2 ^ 64 -> exists d', concat_dtype (DInt t) m = Ok d' /\ chosen (DInt t) m d'.
Proof.
  intros St Hm. unfold concat_dtype. destruct (can_store (DInt t) m) eqn:E; cbn [negb].
  - eexists; split; [reflexivity|left; auto].
  - destruct (ext_min_scalar_type_nonneg m Hm) as [t' [E' [S' F']]].
    unfold g_concat_upcast. rewrite E'. cbn [bind dec_dty1 dec_dty].
    rewrite pyv_dty_roundtrip by (apply std_pos, S').
    eexists; split; [reflexivity|right; split; [exact E|eauto]].
Qed.

Lemma chosen_std t m d' :
  std t -> chosen (DInt t) m d' -> exists t', d' = DInt t' /\ std t' /\ fits (DInt t') m = true.
Proof.
  intros St [[C ->]|[_ [t' [-> [S F]]]]]; eauto.
Qed.

Theorem get_out_dtype_spec_proof t z :
  std t -> 0 <= z < 2 ^ 64 ->
  exists t', get_out_dtype (DInt t) z = Ok (DInt t') /\ std t' /\ fits (DInt t') z = true /\
             (can_store (DInt t) z = true -> t' = t).
Proof.
  intros St Hz. unfold get_out_dtype, g_get_out_dtype. cbn [bind].
  unfold ext_can_store at 1. rewrite pyv_dty_roundtrip by (apply std_pos, St). cbn [as_int].
  change (fits (DInt t) z) with (can_store (DInt t) z).
  destruct (can_store (DInt t) z) eqn:E; cbn [bind py_not truthy cond negb dec_dty].
  - rewrite pyv_dty_roundtrip by (apply std_pos, St). exists t. repeat split; auto.
  - destruct (ext_min_scalar_type_nonneg z Hz) as [t' [E' [S' F']]]. rewrite E'. cbn [bind dec_dty].
    rewrite pyv_dty_roundtrip by (apply std_pos, S'). exists t'. repeat split; auto. discriminate.
Qed.
