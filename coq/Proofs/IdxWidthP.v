(* Proofs/IdxWidthP.v — the index dtype never changes a coordinate: every intermediate of the
   computations of Model/IdxWidth.v lies in the range of the stored type, or a guard fires;
   and the places where that is false of the code as it stands (refutations with witnesses). *)
From Coq Require Import ZArith List Bool Lia ZifyBool FinFun.
From Verif Require Import Py MachInt S_idxwidth IdxWidth.
Import ListNotations.
Open Scope Z_scope.

(* ------------------------------------------------------------------ ranges *)
Lemma ilo_nonpos t : 0 < bits t -> ilo t <= 0.
Proof.
  intros. unfold ilo. destruct (sg t); [|lia].
  pose proof (pow2_pos (bits t - 1) ltac:(lia)). lia.
Qed.

Lemma ihi_nonneg t : 0 < bits t -> 0 <= ihi t.
Proof.
  intros. unfold ihi. destruct (sg t).
  - pose proof (pow2_pos (bits t - 1) ltac:(lia)). lia.
  - pose proof (pow2_pos (bits t) ltac:(lia)). lia.
Qed.

Lemma fits_iff t z : fits (DInt t) z = true <-> ilo t <= z <= ihi t.
Proof.
  rewrite fits_spec. unfold in_range_w. destruct t; reflexivity.
Qed.

Lemma fits_between t a b z :
  fits (DInt t) a = true -> fits (DInt t) b = true -> a <= z <= b -> fits (DInt t) z = true.
Proof. rewrite !fits_iff. lia. Qed.

Lemma fits_zero t : 0 < bits t -> fits (DInt t) 0 = true.
Proof. intros. rewrite fits_iff. pose proof (ilo_nonpos t H). pose proof (ihi_nonneg t H). lia. Qed.

Lemma fits_le t m z : 0 < bits t -> fits (DInt t) m = true -> 0 <= z <= m -> fits (DInt t) z = true.
Proof. intros Hb Hm Hz. eapply fits_between; [apply fits_zero, Hb|exact Hm|exact Hz]. Qed.

Lemma wr_fits t z : 0 < bits t -> fits (DInt t) z = true -> wr (DInt t) z = z.
Proof. intros Hb H. cbn. apply wrap_id; [exact Hb|]. apply fits_spec, H. Qed.

Lemma map_wr_id t l :
  0 < bits t -> Forall (fun c => fits (DInt t) c = true) l -> map (wr (DInt t)) l = l.
Proof.
  intros Hb H. induction H; cbn [map]; [reflexivity|].
  rewrite IHForall. f_equal. apply wr_fits; assumption.
Qed.

Lemma map_ext_Forall {A B} (f g : A -> B) (P : A -> Prop) l :
  (forall a, P a -> f a = g a) -> Forall P l -> map f l = map g l.
Proof. intros E H. induction H; cbn; [reflexivity|]. rewrite E, IHForall by assumption. reflexivity. Qed.

(* ------------------------------------------------------------------ can_store, min_scalar_type *)
Theorem can_store_spec_proof t z :
  can_store (DInt t) z = true <-> in_range_w (bits t) (sg t) z.
Proof. unfold can_store, s_can_store. apply fits_spec. Qed.

Lemma can_store_inf z : can_store DInf z = true.
Proof. reflexivity. Qed.

Lemma pyv_dty_roundtrip t : 0 < bits t -> pyv_dty (dty_pyv (DInt t)) = Some (DInt t).
Proof.
  intros Hb. cbn. destruct (Z.eqb_spec (bits t) 0); [lia|]. destruct (Z.eqb_spec (bits t) (-1)); [lia|].
  destruct t; reflexivity.
Qed.

Lemma min_scalar_type_nonneg z :
  0 <= z < 2 ^ 64 ->
  exists t, min_scalar_type z = Some t /\ std t /\ fits (DInt t) z = true.
Proof.
  intros Hz. unfold min_scalar_type.
  destruct (Z.leb_spec 0 z); [|lia].
  destruct (Z.leb_spec z 255); [exists u8; repeat split; [unfold std; cbn; lia|apply fits_iff; cbn; lia]|].
  destruct (Z.leb_spec z 65535); [exists u16; repeat split; [unfold std; cbn; lia|apply fits_iff; cbn; lia]|].
  destruct (Z.leb_spec z 4294967295); [exists u32; repeat split; [unfold std; cbn; lia|apply fits_iff; cbn; lia]|].
  destruct (Z.leb_spec z 18446744073709551615);
    [exists u64; repeat split; [unfold std; cbn; lia|apply fits_iff; cbn; lia]|].
  change (2 ^ 64) with 18446744073709551616 in Hz. lia.
Qed.

Lemma ext_min_scalar_type_nonneg z :
  0 <= z < 2 ^ 64 ->
  exists t, ext_min_scalar_type (VInt z) = Ok (dty_pyv (DInt t)) /\ std t /\ fits (DInt t) z = true.
Proof.
  intros Hz. destruct (min_scalar_type_nonneg z Hz) as [t [E [S F]]].
  exists t. unfold ext_min_scalar_type. cbn [as_int]. rewrite E. auto.
Qed.

(* the shape of every dtype (re-)choice of the code: keep d if it can store m, else
   np.min_scalar_type(m) *)
Definition chosen (d : dty) (m : Z) (d' : dty) : Prop :=
  (can_store d m = true /\ d' = d) \/
  (can_store d m = false /\ exists t, d' = DInt t /\ std t /\ fits (DInt t) m = true).

Lemma concat_dtype_chosen t m :
  std t -> 0 <= m < 2 ^ 64 -> exists d', concat_dtype (DInt t) m = Ok d' /\ chosen (DInt t) m d'.
Proof.
  intros St Hm. unfold concat_dtype. destruct (can_store (DInt t) m) eqn:E; cbn [negb].
  - eexists; split; [reflexivity|left; auto].
  - destruct (ext_min_scalar_type_nonneg m Hm) as [t' [E' [S' F']]].
    unfold g_concat_upcast. rewrite E'. cbn [bind dec_dty1 dec_dty].
    rewrite pyv_dty_roundtrip by (apply std_pos, S').
    eexists; split; [reflexivity|right; split; [exact E|eauto]].
Qed.

Lemma chosen_std t m d' :
  std t -> chosen (DInt t) m d' -> exists t', d' = DInt t' /\ std t' /\ fits (DInt t') m = true.
Proof.
  intros St [[C ->]|[_ [t' [-> [S F]]]]]; eauto.
Qed.

Theorem get_out_dtype_spec_proof t z :
  std t -> 0 <= z < 2 ^ 64 ->
  exists t', get_out_dtype (DInt t) z = Ok (DInt t') /\ std t' /\ fits (DInt t') z = true /\
             (can_store (DInt t) z = true -> t' = t).
Proof.
  intros St Hz. unfold get_out_dtype, g_get_out_dtype. cbn [bind].
  unfold ext_can_store at 1. rewrite pyv_dty_roundtrip by (apply std_pos, St). cbn [as_int].
  change (fits (DInt t) z) with (can_store (DInt t) z).
  destruct (can_store (DInt t) z) eqn:E; cbn [bind py_not truthy cond negb dec_dty].
  - rewrite pyv_dty_roundtrip by (apply std_pos, St). exists t. repeat split; auto.
  - destruct (ext_min_scalar_type_nonneg z Hz) as [t' [E' [S' F']]]. rewrite E'. cbn [bind dec_dty].
    rewrite pyv_dty_roundtrip by (apply std_pos, S'). exists t'. repeat split; auto. discriminate.
Qed.

(* ------------------------------------------------------------------ concatenate *)
Definition seg_ok (x : Z * list Z) : Prop := 0 <= fst x /\ Forall (fun c => 0 <= c < fst x) (snd x).

Lemma zsum_nonneg_segs xs : Forall seg_ok xs -> 0 <= zsum (map fst xs).
Proof. intros H. induction H as [|x r [H0 _] _ IH]; cbn; [lia|]. unfold zsum in *. lia. Qed.

Lemma concat_segs_inf t m xs : forall dim,
  0 < bits t -> fits (DInt t) m = true -> 0 <= dim -> dim + zsum (map fst xs) <= m ->
  Forall seg_ok xs ->
  concat_segs (DInt t) dim (map (fun x => (fst x, map (wr (DInt t)) (snd x))) xs) = concat_segs DInf dim xs.
Proof.
  induction xs as [|[n seg] r IH]; intros dim Hb Hm Hd Hs Hok; [reflexivity|].
  inversion Hok as [|? ? [Hn Hseg] Hr]; subst. cbn [fst snd] in *.
  pose proof (zsum_nonneg_segs r Hr) as Hnn.
  cbn [map fst snd concat_segs]. cbn [map zsum fold_right fst] in Hs. fold (zsum (map fst r)) in Hs.
  assert (Hw : map (wr (DInt t)) seg = seg).
  { apply map_wr_id; [exact Hb|]. eapply Forall_impl; [|exact Hseg]. cbn. intros c Hc.
    apply (fits_le t m); [exact Hb|exact Hm|lia]. }
  rewrite Hw. rewrite IH by (auto; lia).
  unfold s_concat_skip_zero. cbn [andb].
  destruct (dim =? 0) eqn:E; [reflexivity|].
  unfold s_concat_add, iarr_py, arr_py. cbn [tdt tv].
  rewrite (fits_le t m dim Hb Hm) by lia. cbn [fits rmap tv bind].
  replace (map (fun c => wr (DInt t) (c + dim)) seg) with (map (fun c => wr DInf (c + dim)) seg); [reflexivity|].
  eapply map_ext_Forall; [|exact Hseg]. cbn beta. intros c Hc.
  change (wr DInf (c + dim)) with (c + dim). symmetry. apply wr_fits; [exact Hb|].
  apply (fits_le t m); [exact Hb|exact Hm|lia].
Qed.

Definition concat_pre (t : ity) (mo : Z) (xs : list (Z * list Z)) : Prop :=
  std t /\ 0 <= mo /\ Forall seg_ok xs /\ Z.max mo (zsum (map fst xs)) < 2 ^ 64.

Theorem width_irrelevant_concat_proof t mo xs :
  concat_pre t mo xs ->
  rmap tv (m_concat (DInt t) mo xs) = rmap tv (m_concat DInf mo xs).
Proof.
  intros [St [Hmo [Hok Hlt]]]. unfold m_concat.
  pose proof (zsum_nonneg_segs xs Hok) as Hnn.
  set (m := Z.max mo (zsum (map fst xs))) in *.
  destruct (concat_dtype_chosen t m St ltac:(lia)) as [d' [E C]]. rewrite E. cbn [bind].
  destruct (chosen_std t m d' St C) as [t' [-> [S' F']]].
  unfold concat_dtype. rewrite can_store_inf. cbn [negb bind].
  rewrite (concat_segs_inf t' m xs 0) by (auto using std_pos; lia).
  replace (map (fun x => (fst x, map (wr DInf) (snd x))) xs) with xs.
  2:{ clear. induction xs as [|[n s] r IH]; [reflexivity|]. cbn [map fst snd]. rewrite <- IH.
      f_equal. f_equal. induction s; cbn; congruence. }
  destruct (concat_segs DInf 0 xs); reflexivity.
Qed.

Example width_irrelevant_concat_nonvacuous :
  concat_pre i8 3 [(100, [0; 99]); (100, [5]); (100, [99])] /\
  rmap tv (m_concat (DInt i8) 3 [(100, [0; 99]); (100, [5]); (100, [99])]) = Ok [0; 99; 105; 299].
Proof.
  split; [|reflexivity]. unfold concat_pre, seg_ok. repeat split; cbn; try lia.
  - unfold std; cbn; lia.
  - repeat constructor; cbn; lia.
Qed.

(* ------------------------------------------------------------------ flip *)
Definition coords_in (n : Z) (c : list Z) : Prop := Forall (fun x => 0 <= x < n) c.

Theorem width_irrelevant_flip_proof t n c :
  std t -> can_store (DInt t) n = true -> 1 <= n -> coords_in n c ->
  rmap tv (m_flip (DInt t) n c) = rmap tv (m_flip DInf n c).
Proof.
  intros St Hn H1 Hc. pose proof (std_pos t St) as Hb.
  unfold can_store, s_can_store in Hn.
  unfold m_flip, s_flip_map, py_arr. cbn [tdt tv].
  rewrite (fits_le t n (n - 1) Hb Hn) by lia. cbn [fits bind rmap assign_into astype tv tdt].
  f_equal. rewrite !map_map.
  eapply map_ext_Forall; [|exact Hc]. cbn beta. intros x Hx.
  change (wr DInf (wr DInf (n - 1 - x))) with (n - 1 - x).
  assert (F : fits (DInt t) (n - 1 - x) = true) by (apply (fits_le t n); [exact Hb|exact Hn|lia]).
  rewrite !(wr_fits t (n - 1 - x) Hb F). reflexivity.
Qed.

Example width_irrelevant_flip_nonvacuous :
  std u8 /\ can_store (DInt u8) 255 = true /\ coords_in 255 [0; 7; 254] /\
  rmap tv (m_flip (DInt u8) 255 [0; 7; 254]) = Ok [254; 247; 0].
Proof. repeat split; try reflexivity; [unfold std; cbn; lia|repeat constructor; lia]. Qed.

(* ------------------------------------------------------------------ roll *)
Lemma roll_axis_ok_int t n sh :
  0 < bits t -> roll_axis_ok (DInt t) n sh = Ok (fits (DInt t) sh && fits (DInt t) (n + sh)).
Proof.
  intros Hb. unfold roll_axis_ok, g_roll_axis_ok. cbn [bind py_int as_int].
  unfold ext_can_store. rewrite (pyv_dty_roundtrip t Hb). cbn [as_int bind cond truthy].
  destruct (fits (DInt t) sh); cbn [bind cond truthy py_add arith as_int andb rmap]; reflexivity.
Qed.

Lemma roll_axis_ok_inf n sh : roll_axis_ok DInf n sh = Ok true.
Proof. reflexivity. Qed.

Lemma promote_signed_i64 t : std t -> sg t = true -> promote (DInt t) (DInt i64) = DInt i64.
Proof.
  intros St Hs. cbn. unfold promote_i. rewrite Hs. cbn [sg i64 Bool.eqb bits].
  unfold std in St. replace (Z.max (bits t) 64) with 64 by lia. reflexivity.
Qed.

Lemma promote_unsigned_i64 t :
  std t -> sg t = false -> same_kind (promote (DInt t) (DInt i64)) (DInt t) = false.
Proof.
  intros St Hs. cbn [promote]. unfold promote_i. rewrite Hs. cbn [sg i64 Bool.eqb bits].
  destruct (Z.ltb_spec (bits t) 64); cbn [same_kind sg i64]; [rewrite Hs; reflexivity|].
  destruct (Z.ltb_spec (bits t) 64); [lia|reflexivity].
Qed.

Lemma range_in_i64 t : std t -> - 2 ^ 63 <= ilo t /\ (sg t = true -> ihi t <= 2 ^ 63 - 1).
Proof.
  intros St. unfold std in St. unfold ihi, ilo.
  destruct St as [E|[E|[E|E]]]; rewrite E; destruct (sg t); cbn; split; try lia; discriminate.
Qed.

(* one axis after the guard passed: every intermediate c + sh, c in [0, n), lies between sh and
   n - 1 + sh, both representable *)
Lemma roll_row_py t n sh c :
  0 < bits t -> 0 < n -> fits (DInt t) sh = true -> fits (DInt t) (n + sh) = true ->
  fits (DInt t) n = true -> coords_in n c ->
  rmap tv (t1 <- s_roll_add_py (mkT (DInt t) c) sh ;; s_roll_mod t1 n) =
  Ok (map (fun x => (x + sh) mod n) c).
Proof.
  intros Hb Hn Fs Fns Fn Hc.
  unfold s_roll_add_py, s_roll_mod, iarr_py, arr_py. cbn [tdt tv]. rewrite Fs. cbn [bind tdt tv].
  rewrite Fn. cbn [rmap tv]. f_equal. rewrite map_map.
  eapply map_ext_Forall; [|exact Hc]. cbn beta. intros x Hx.
  assert (Ft : fits (DInt t) (x + sh) = true) by (eapply fits_between; [exact Fs|exact Fns|lia]).
  rewrite (wr_fits t (x + sh) Hb Ft).
  unfold np_mod. destruct (Z.eqb_spec n 0); [lia|].
  apply wr_fits; [exact Hb|]. apply (fits_le t n); [exact Hb|exact Fn|].
  pose proof (Z.mod_pos_bound (x + sh) n ltac:(lia)). lia.
Qed.

Lemma roll_row_inf_py n sh c :
  0 < n ->
  rmap tv (t1 <- s_roll_add_py (mkT DInf c) sh ;; s_roll_mod t1 n) = Ok (map (fun x => (x + sh) mod n) c).
Proof.
  intros Hn. unfold s_roll_add_py, s_roll_mod, iarr_py, arr_py. cbn. f_equal. rewrite map_map.
  apply map_ext. intros x. unfold np_mod. destruct (Z.eqb_spec n 0); [lia|reflexivity].
Qed.

Theorem width_irrelevant_roll_proof t n sh c :
  std t -> can_store (DInt t) n = true -> 0 < n -> coords_in n c ->
  rmap tv (m_roll (DInt t) n sh c) = rmap tv (m_roll DInf n sh c)
  \/ m_roll (DInt t) n sh c = Raise ValueError.
Proof.
  intros St Hm Hn Hc. pose proof (std_pos t St) as Hb.
  unfold can_store, s_can_store in Hm.
  unfold m_roll at 1 3. rewrite (roll_axis_ok_int t n sh Hb). cbn [bind].
  destruct (fits (DInt t) sh) eqn:Fs; cbn [andb negb]; [|right; reflexivity].
  destruct (fits (DInt t) (n + sh)) eqn:Fns; cbn [negb]; [|right; reflexivity].
  (* the reference run *)
  assert (Einf : rmap tv (m_roll DInf n sh c) = Ok (map (fun x => (x + sh) mod n) c)).
  { unfold m_roll. rewrite roll_axis_ok_inf. cbn [bind negb].
    unfold s_roll_scalar_shift_is_np64, s_roll_add_np, iarr_np, s_roll_mod, iarr_py, arr_py.
    cbn [tdt tv promote same_kind bind fits rmap]. f_equal. rewrite map_map. apply map_ext. intros x.
    change (wr DInf (np_mod (wr DInf (wr DInf (x + sh))) n)) with (np_mod (x + sh) n).
    unfold np_mod. destruct (Z.eqb_spec n 0); [lia|reflexivity]. }
  rewrite Einf. clear Einf.
  (* every intermediate x + sh, x in [0, n), lies between sh and n + sh: representable in t *)
  assert (Hval : forall x, 0 <= x < n ->
            wr (DInt t) (np_mod (wr (DInt t) (x + sh)) n) = (x + sh) mod n /\ fits (DInt t) (x + sh) = true).
  { intros x Hx.
    assert (Ft : fits (DInt t) (x + sh) = true) by (eapply fits_between; [exact Fs|exact Fns|lia]).
    split; [|exact Ft]. rewrite (wr_fits t (x + sh) Hb Ft).
    unfold np_mod. destruct (Z.eqb_spec n 0); [lia|].
    apply wr_fits; [exact Hb|]. apply (fits_le t n); [exact Hb|exact Hm|].
    pose proof (Z.mod_pos_bound (x + sh) n ltac:(lia)). lia. }
  unfold s_roll_scalar_shift_is_np64, s_roll_add_np, iarr_np, np_int_type. cbn [tdt tv].
  pose proof (range_in_i64 t St) as [Hlo Hhi].
  destruct (in_range_wb 64 true sh) eqn:K.
  - (* the shift became an int64 scalar *)
    destruct (sg t) eqn:Hs.
    2:{ (* unsigned: the in-place add of an int64 scalar is refused; the handler raises ValueError *)
        right. rewrite (promote_unsigned_i64 t St Hs). cbn [bind].
        unfold s_roll_handler, is_unsigned. rewrite Hs. reflexivity. }
    left. specialize (Hhi eq_refl).
    rewrite (promote_signed_i64 t St Hs). cbn [same_kind sg]. rewrite Hs. cbn [orb bind].
    unfold s_roll_mod, iarr_py, arr_py. cbn [tdt tv]. rewrite Hm. cbn [rmap tv]. f_equal. rewrite !map_map.
    eapply map_ext_Forall; [|exact Hc]. cbn beta. intros x Hx.
    destruct (Hval x Hx) as [Hv Ft].
    assert (F64 : fits (DInt i64) (x + sh) = true).
    { apply fits_iff in Ft. apply fits_iff. cbn. lia. }
    rewrite (wr_fits i64 (x + sh) ltac:(cbn; lia) F64). exact Hv.
  - (* 2^63 <= shift: a uint64 scalar; the guard lets it through for uint64 coordinates only *)
    left. apply fits_iff in Fs.
    assert (Hsh : 2 ^ 63 <= sh).
    { destruct (Z.le_gt_cases (2 ^ 63) sh) as [H|H]; [exact H|exfalso].
      assert (in_range_wb 64 true sh = true); [|congruence].
      apply in_range_wb_spec. unfold in_range_w, ilo, ihi. cbn. lia. }
    assert (Ht : t = u64).
    { destruct t as [b s]. unfold std in St. cbn in St. unfold ihi in Fs, Hhi. cbn [sg bits] in *.
      destruct s; [specialize (Hhi eq_refl); lia|].
      destruct St as [E|[E|[E|E]]]; subst b; cbn in Fs; try lia. reflexivity. }
    subst t. cbn [promote promote_i sg bits u64 Bool.eqb same_kind orb negb bind].
    unfold s_roll_mod, iarr_py, arr_py. cbn [tdt tv]. rewrite Hm. cbn [rmap tv]. f_equal. rewrite !map_map.
    eapply map_ext_Forall; [|exact Hc]. cbn beta. intros x Hx.
    destruct (Hval x Hx) as [Hv Ft].
    change (DInt {| bits := Z.max 64 64; sg := false |}) with (DInt u64).
    rewrite (wr_fits u64 (x + sh) ltac:(cbn; lia) Ft). exact Hv.
Qed.

Example width_irrelevant_roll_nonvacuous :
  std i8 /\ can_store (DInt i8) 100 = true /\ coords_in 100 [0; 5; 99] /\
  rmap tv (m_roll (DInt i8) 100 (-100) [0; 5; 99]) = Ok [0; 5; 99] /\
  rmap tv (m_roll (DInt i8) 100 27 [0; 5; 99]) = Ok [27; 32; 26] /\
  m_roll (DInt i8) 100 (-200) [0; 5; 99] = Raise ValueError /\
  m_roll (DInt u8) 100 27 [0; 5; 99] = Raise ValueError /\
  rmap tv (m_roll (DInt u64) 3 9223372036854775808 [0; 1; 2]) = Ok [2; 0; 1].
Proof. repeat split; try reflexivity; [unfold std; cbn; lia|repeat constructor; lia]. Qed.

(* a tuple of shifts (Python ints), several axes *)
Definition rows_ok (t : ity) (rows : list (Z * Z * list Z)) : Prop :=
  Forall (fun r => let '(n, sh, c) := r in 0 < n /\ can_store (DInt t) n = true /\ coords_in n c) rows.

Lemma roll_rows_inf rows :
  Forall (fun r : Z * Z * list Z => let '(n, sh, c) := r in 0 < n) rows ->
  rmap (map tv) (roll_rows DInf rows) = Ok (map (fun r : Z * Z * list Z => let '(n, sh, c) := r in map (fun x => (x + sh) mod n) c) rows).
Proof.
  intros H. induction H as [|[[n sh] c] r Hn _ IH]; [reflexivity|].
  cbn [roll_rows map]. pose proof (roll_row_inf_py n sh c Hn) as E.
  destruct (t1 <- s_roll_add_py (mkT DInf c) sh ;; s_roll_mod t1 n) as [x|e]; cbn [rmap] in E; [|discriminate].
  cbn [bind]. destruct (roll_rows DInf r) as [rest|e]; cbn [rmap] in IH; [|discriminate].
  cbn [bind rmap map]. congruence.
Qed.

Theorem width_irrelevant_roll_tuple_proof t rows :
  std t -> rows_ok t rows ->
  rmap (map tv) (m_roll_tuple (DInt t) rows) = rmap (map tv) (m_roll_tuple DInf rows)
  \/ m_roll_tuple (DInt t) rows = Raise ValueError.
Proof.
  intros St Hok. pose proof (std_pos t St) as Hb.
  assert (Hinf : m_roll_tuple DInf rows = roll_rows DInf rows /\
                 rmap (map tv) (roll_rows DInf rows) =
                 Ok (map (fun r : Z * Z * list Z => let '(n, sh, c) := r in map (fun x => (x + sh) mod n) c) rows)).
  { assert (E : roll_all_ok DInf rows = Ok true).
    { clear. induction rows as [|[[n sh] c] r IH]; [reflexivity|]. cbn [roll_all_ok]. rewrite roll_axis_ok_inf. exact IH. }
    assert (R := roll_rows_inf rows ltac:(eapply Forall_impl; [|exact Hok]; intros [[n sh] c]; tauto)).
    split; [|exact R]. unfold m_roll_tuple. rewrite E. cbn [bind negb].
    destruct (roll_rows DInf rows) as [x|e]; [reflexivity|discriminate]. }
  destruct Hinf as [E1 E2]. rewrite E1, E2. clear E1 E2.
  unfold m_roll_tuple.
  assert (H : (roll_all_ok (DInt t) rows = Ok false) \/
              (roll_all_ok (DInt t) rows = Ok true /\
               rmap (map tv) (roll_rows (DInt t) rows) =
               Ok (map (fun r : Z * Z * list Z => let '(n, sh, c) := r in map (fun x => (x + sh) mod n) c) rows))).
  { induction Hok as [|[[n sh] c] r [Hn [Hs Hc]] _ IH]; [right; split; reflexivity|].
    unfold can_store, s_can_store in Hs.
    cbn [roll_all_ok]. rewrite (roll_axis_ok_int t n sh Hb). cbn [bind].
    destruct (fits (DInt t) sh) eqn:Fs; cbn [andb]; [|left; reflexivity].
    destruct (fits (DInt t) (n + sh)) eqn:Fns; [|left; reflexivity].
    destruct IH as [IH|[IH1 IH2]]; [left; exact IH|right; split; [exact IH1|]].
    cbn [roll_rows map]. pose proof (roll_row_py t n sh c Hb Hn Fs Fns Hs Hc) as E.
    destruct (t1 <- s_roll_add_py (mkT (DInt t) c) sh ;; s_roll_mod t1 n) as [x|e]; cbn [rmap] in E; [|discriminate].
    cbn [bind]. destruct (roll_rows (DInt t) r) as [rest|e]; cbn [rmap] in IH2; [|discriminate].
    cbn [bind rmap map]. congruence. }
  destruct H as [H|[H1 H2]]; rewrite ?H, ?H1; cbn [bind negb]; [right; reflexivity|left].
  destruct (roll_rows (DInt t) rows) as [x|e]; cbn [rmap] in H2; [exact H2|discriminate].
Qed.

(* ------------------------------------------------------------------ getitem: (coords.astype(intp) - start) // step
   Since 0a2ad47 the map is computed in intp: the stored dtype no longer enters (D6 repaired). *)
(* what normalize_index leaves in a slice facing an axis of extent n (an empty selection with a
   negative step may be left as start = stop = n, e.g. x[1:2:-1] on n = 2) *)
Definition norm_slice (n start step : Z) : Prop :=
  (0 < step /\ 0 <= start <= n) \/ (step < 0 /\ -1 <= start <= n).

Theorem width_irrelevant_getitem_proof t n start stop step c :
  rmap tv (m_getitem (DInt t) n start stop step c) = rmap tv (m_getitem DInf n start stop step c) /\
  (* the dtype of the result: the operand's own for the identity shortcut, intp otherwise *)
  (s_getitem_identity n start stop step = true ->
     m_getitem (DInt t) n start stop step c = Ok (mkT (DInt t) c)) /\
  (s_getitem_identity n start stop step = false ->
     m_getitem (DInt t) n start stop step c = m_getitem DInf n start stop step c).
Proof.
  unfold m_getitem. destruct (s_getitem_identity n start stop step); repeat split; try reflexivity; discriminate.
Qed.

Lemma wr_i64 z : - 2 ^ 63 <= z < 2 ^ 63 -> wr (DInt i64) z = z.
Proof. intros H. apply wr_fits; [cbn; lia|]. apply fits_iff. cbn. lia. Qed.

(* and nothing wraps in intp either: in both cases the result holds the mathematical (c - start) / step
   of the selected coordinates *)
Theorem getitem_exact_proof d n start stop step c :
  norm_slice n start step -> coords_in n c -> n < 2 ^ 63 -> - 2 ^ 63 <= step < 2 ^ 63 ->
  rmap tv (m_getitem d n start stop step c) =
  Ok (map (fun x => (x - start) / step) (filter (sel_mask start stop step) c)).
Proof.
  intros Hsl Hc Hn Hst. unfold m_getitem.
  destruct (s_getitem_identity n start stop step) eqn:Eid.
  { (* identity shortcut: start = 0, stop = n, step = 1; every coordinate is selected and maps to itself *)
    unfold s_getitem_identity in Eid. apply andb_true_iff in Eid. destruct Eid as [Eid E3].
    apply andb_true_iff in Eid. destruct Eid as [E1 E2].
    apply Z.eqb_eq in E1, E2, E3. subst start stop step. cbn [rmap tv]. f_equal.
    induction Hc as [|x r Hx Hr IH]; [reflexivity|]. cbn [filter].
    assert (M : sel_mask 0 n 1 x = true).
    { unfold sel_mask. destruct (Z.ltb_spec 0 1); [|lia]. rewrite Z.mod_1_r.
      destruct (Z.leb_spec 0 x), (Z.ltb_spec x n); try lia; try reflexivity. }
    rewrite M. cbn [map]. rewrite <- IH. f_equal. now rewrite Z.sub_0_r, Z.div_1_r. }
  unfold s_getitem_map, arr_py, astype. cbn [bind tdt tv].
  assert (Fs : fits (DInt i64) start = true) by (apply fits_iff; cbn; destruct Hsl; lia).
  assert (Fp : fits (DInt i64) step = true) by (apply fits_iff; cbn; lia).
  rewrite Fs. cbn [bind tdt tv]. rewrite Fp. cbn [rmap tv]. f_equal. rewrite !map_map.
  assert (Hf : Forall (fun x => 0 <= x < n /\ sel_mask start stop step x = true)
                      (filter (sel_mask start stop step) c)).
  { apply Forall_forall. intros x Hx. apply filter_In in Hx. destruct Hx as [Hi Hm].
    split; [|exact Hm]. unfold coords_in in Hc. rewrite Forall_forall in Hc. apply Hc, Hi. }
  eapply map_ext_Forall; [|exact Hf]. cbn beta. intros x [Hx Hm].
  rewrite (wr_i64 x) by lia.
  unfold sel_mask in Hm. unfold np_div.
  destruct Hsl as [[Hp Hs]|[Hp Hs]].
  - destruct (Z.ltb_spec 0 step); [|lia].
    assert (start <= x) by lia.
    rewrite (wr_i64 (x - start)) by lia. destruct (Z.eqb_spec step 0); [lia|].
    apply wr_i64.
    assert (0 <= (x - start) / step <= x - start).
    { split; [apply Z.div_pos; lia|]. apply Z.div_le_upper_bound; [lia|]. nia. }
    lia.
  - destruct (Z.ltb_spec 0 step); [lia|].
    assert (x <= start) by lia.
    rewrite (wr_i64 (x - start)) by lia. destruct (Z.eqb_spec step 0); [lia|].
    apply wr_i64.
    assert (0 <= (x - start) / step <= start - x).
    { rewrite <- (Z.div_opp_opp (x - start) step) by lia.
      split; [apply Z.div_pos; lia|]. apply Z.div_le_upper_bound; [lia|]. nia. }
    lia.
Qed.

Example width_irrelevant_getitem_nonvacuous :
  norm_slice 100 99 (-3) /\ coords_in 100 [0; 5; 96; 99] /\
  m_getitem (DInt u8) 100 99 (-101) (-3) [0; 5; 96; 99] = Ok (mkT (DInt i64) [33; 1; 0]) /\
  m_getitem (DInt u8) 100 0 100 1 [0; 5; 96; 99] = Ok (mkT (DInt u8) [0; 5; 96; 99]).
Proof. repeat split; try reflexivity; [right; lia|repeat constructor; lia]. Qed.

(* ------------------------------------------------------------------ reshape: dtype re-choice *)
Lemma zmax_ge l x : In x l -> x <= zmax l.
Proof.
  induction l as [|a r IH]; cbn; [tauto|]. intros [->|H]; [lia|]. specialize (IH H). unfold zmax in IH. lia.
Qed.

Lemma zmax_nonneg l : 0 <= zmax l.
Proof. induction l as [|a r IH]; cbn; [lia|]. unfold zmax in IH. lia. Qed.

Lemma reshape_dtype_chosen t shape :
  std t -> zmax shape < 2 ^ 64 ->
  exists d', reshape_dtype (DInt t) shape = Ok d' /\
             (shape = [] \/ exists t', d' = DInt t' /\ std t' /\ fits (DInt t') (zmax shape) = true).
Proof.
  intros St Hm. unfold reshape_dtype. destruct shape as [|a r]; cbn [negb andb].
  - eexists; split; [reflexivity|left; reflexivity].
  - set (m := zmax (a :: r)) in *. destruct (can_store (DInt t) m) eqn:E; cbn [negb].
    + eexists; split; [reflexivity|right; exists t; auto].
    + destruct (ext_min_scalar_type_nonneg m ltac:(pose proof (zmax_nonneg (a :: r)); lia)) as [t' [E' [S' F']]].
      unfold g_reshape_choice. rewrite E'. cbn [bind dec_dty1 dec_dty].
      rewrite pyv_dty_roundtrip by (apply std_pos, S').
      eexists; split; [reflexivity|right; eauto].
Qed.

Lemma digit_rows_inf t m lin : forall rshape stride,
  0 < bits t -> fits (DInt t) m = true -> Forall (fun d => 0 < d <= m) rshape ->
  map tv (digit_rows s_reshape_digit (DInt t) lin stride rshape) =
  map tv (digit_rows s_reshape_digit DInf lin stride rshape).
Proof.
  induction rshape as [|dim r IH]; intros stride Hb Hm Hd; [reflexivity|].
  inversion Hd as [|? ? Hdim Hr]; subst. cbn [digit_rows map]. rewrite IH by assumption. f_equal.
  unfold s_reshape_digit, assign_into, astype. cbn [tv]. rewrite !map_map.
  apply map_ext. intros l. change (wr DInf ?z) with z.
  apply wr_fits; [exact Hb|]. apply (fits_le t m); [exact Hb|exact Hm|].
  unfold np_mod. destruct (Z.eqb_spec dim 0); [lia|].
  pose proof (Z.mod_pos_bound (np_div l stride) dim ltac:(lia)). lia.
Qed.

Theorem width_irrelevant_reshape_proof t lin shape :
  std t -> Forall (fun d => 0 < d) shape -> zmax shape < 2 ^ 64 ->
  rmap (map tv) (m_reshape (DInt t) lin shape) = rmap (map tv) (m_reshape DInf lin shape).
Proof.
  intros St Hpos Hm. unfold m_reshape.
  destruct (reshape_dtype_chosen t shape St Hm) as [d' [E C]]. rewrite E. cbn [bind rmap].
  assert (Einf : reshape_dtype DInf shape = Ok DInf).
  { unfold reshape_dtype. rewrite can_store_inf. cbn [negb]. rewrite andb_false_r. reflexivity. }
  rewrite Einf. cbn [bind rmap]. f_equal. rewrite !map_rev. f_equal.
  destruct C as [->|[t' [-> [S' F']]]]; [reflexivity|].
  apply (digit_rows_inf t' (zmax shape)); [apply std_pos, S'|exact F'|].
  apply Forall_rev. apply Forall_forall. intros d Hd. rewrite Forall_forall in Hpos.
  split; [apply Hpos, Hd|apply zmax_ge, Hd].
Qed.

Example width_irrelevant_reshape_nonvacuous :
  std i8 /\ Forall (fun d => 0 < d) [2000] /\
  m_reshape (DInt i8) [0; 1999; 1000] [2000] = Ok [mkT (DInt u16) [0; 1999; 1000]] /\
  rmap (map tv) (m_reshape (DInt i8) [0; 1999; 1000] [100; 20]) = Ok [[0; 99; 50]; [0; 19; 0]].
Proof. repeat split; try reflexivity; [unfold std; cbn; lia|repeat constructor; lia]. Qed.

(* ------------------------------------------------------------------ reductions: _calc_counts_invidx + reduceat
   Since 5f3fb78 the kernel returns intp arrays: the dtype of `groups` no longer enters. *)
Theorem width_irrelevant_reduce_proof t g x :
  m_grouped_sum (DInt t) g x = m_grouped_sum DInf g x /\
  m_counts_invidx (DInt t) g = m_counts_invidx DInf g.
Proof. split; reflexivity. Qed.

(* and the offsets themselves are the true ones (nothing wraps in intp below 2^63 elements) *)
Fixpoint incr_from (lo : Z) (l : list Z) (hi : Z) : Prop :=
  match l with [] => True | a :: r => lo <= a < hi /\ incr_from (a + 1) r hi end.

Lemma group_starts_incr g : forall prev i, incr_from i (group_starts prev i g) (i + Z.of_nat (length g)).
Proof.
  induction g as [|x r IH]; intros prev i; cbn [group_starts length]; [exact I|].
  rewrite Nat2Z.inj_succ.
  destruct (x =? prev).
  - specialize (IH prev (i + 1)). replace (i + Z.succ (Z.of_nat (length r))) with (i + 1 + Z.of_nat (length r)) by lia.
    revert IH. generalize (group_starts prev (i + 1) r). intros l. destruct l; cbn; [tauto|]. intros [H1 H2]. split; [lia|exact H2].
  - cbn [incr_from]. split; [lia|].
    specialize (IH x (i + 1)). replace (i + Z.succ (Z.of_nat (length r))) with (i + 1 + Z.of_nat (length r)) by lia. exact IH.
Qed.

Lemma incr_from_bounds lo l hi : incr_from lo l hi -> Forall (fun a => lo <= a < hi) l.
Proof.
  revert lo. induction l as [|a r IH]; intros lo H; [constructor|]. destruct H as [H1 H2].
  constructor; [exact H1|]. eapply Forall_impl; [|apply (IH _ H2)]. cbn. lia.
Qed.

Theorem counts_invidx_exact_proof t g :
  Z.of_nat (length g) < 2 ^ 63 ->
  tv (fst (m_counts_invidx (DInt t) g)) = starts g /\
  Forall (fun a => 0 <= a < Z.of_nat (length g)) (starts g).
Proof.
  intros Hn.
  assert (B : Forall (fun a => 0 <= a < Z.of_nat (length g)) (starts g)).
  { destruct g as [|x r]; [constructor|]. unfold starts. cbn [length]. rewrite Nat2Z.inj_succ.
    constructor; [lia|]. pose proof (group_starts_incr r x 1) as H. apply incr_from_bounds in H.
    eapply Forall_impl; [|exact H]. cbn. lia. }
  split; [|exact B].
  unfold m_counts_invidx, s_counts_cast, astype. cbn [fst tv].
  apply map_wr_id; [cbn; lia|]. eapply Forall_impl; [|exact B]. cbn beta. intros a Ha.
  apply fits_iff. cbn. lia.
Qed.

Example width_irrelevant_reduce_nonvacuous :
  m_grouped_sum (DInt u8) (repeat 0 (Z.to_nat 200) ++ repeat 1 (Z.to_nat 200) ++ repeat 2 (Z.to_nat 200))
                (repeat 1 (Z.to_nat 600)) = Ok [(0, 200); (1, 200); (2, 200)].
Proof. vm_compute. reflexivity. Qed.

(* ------------------------------------------------------------------ triu / tril: coords[-2].astype(int64) + k
   Since 972d3f2 both sides are compared in int64: the stored dtype no longer enters. *)
Theorem width_irrelevant_triu_tril_proof t r c k :
  m_triu (DInt t) r c k = m_triu DInf r c k /\ m_tril (DInt t) r c k = m_tril DInf r c k.
Proof. split; reflexivity. Qed.

(* and the int64 comparison is the mathematical one *)
Theorem triu_tril_exact_proof d nr nc r c k :
  coords_in nr r -> coords_in nc c -> nr < 2 ^ 62 -> nc < 2 ^ 63 -> - 2 ^ 62 <= k <= 2 ^ 62 ->
  m_triu d r c k = Ok (map (fun p => fst p + k <=? snd p) (combine r c)) /\
  m_tril d r c k = Ok (map (fun p => fst p + k >=? snd p) (combine r c)).
Proof.
  intros Hr Hc Hnr Hnc Hk.
  assert (Fk : fits (DInt i64) k = true) by (apply fits_iff; cbn; lia).
  assert (Er : map (fun x => wr (DInt i64) (wr (DInt i64) x + k)) r = map (fun x => x + k) r).
  { eapply map_ext_Forall; [|exact Hr]. cbn beta. intros x Hx. rewrite (wr_i64 x) by lia. apply wr_i64. lia. }
  assert (Ec : map (wr (DInt i64)) c = c).
  { rewrite <- (map_id c) at 2. eapply map_ext_Forall; [|exact Hc]. cbn beta. intros x Hx. apply wr_i64. lia. }
  unfold m_triu, m_tril, s_triu_mask, s_tril_mask, arr_py, astype, cmp_arr. cbn [bind tdt tv].
  rewrite Fk. cbn [bind tv]. rewrite !map_map. rewrite Er, Ec.
  split; f_equal; clear; revert c; induction r as [|x r IH]; intros [|y c]; cbn; try reflexivity; rewrite IH; reflexivity.
Qed.

Example width_irrelevant_triu_nonvacuous :
  coords_in 120 [100; 0] /\ coords_in 120 [5; 110] /\
  m_triu (DInt i8) [100; 0] [5; 110] 100 = Ok [false; true] /\
  m_tril (DInt u8) [100; 0] [5; 110] (-1) = Ok [true; false].
Proof. repeat split; try reflexivity; repeat constructor; lia. Qed.

(* ------------------------------------------------------------------ kron, pad, stack: promoted arithmetic *)

Lemma promote_i64_l t : std t -> not_u64 t = true -> promote (DInt t) (DInt i64) = DInt i64.
Proof.
  intros St H. unfold not_u64 in H. cbn [promote]. unfold promote_i. cbn [sg i64 bits].
  unfold std in St. destruct (sg t); cbn [Bool.eqb].
  - replace (Z.max (bits t) 64) with 64 by lia. reflexivity.
  - cbn [orb] in H. change (bits i64) with 64. rewrite H. reflexivity.
Qed.

Lemma promote_i64_r t : std t -> not_u64 t = true -> promote (DInt i64) (DInt t) = DInt i64.
Proof.
  intros St H. unfold not_u64 in H. cbn [promote]. unfold promote_i. cbn [sg i64 bits].
  unfold std in St. destruct (sg t); cbn [Bool.eqb].
  - replace (Z.max 64 (bits t)) with 64 by lia. reflexivity.
  - cbn [orb] in H. change (bits i64) with 64. rewrite H. reflexivity.
Qed.

Lemma promote_u64 t : std t -> not_u64 t = false -> promote (DInt t) (DInt i64) = DFloat.
Proof.
  intros St H. unfold not_u64 in H. apply orb_false_iff in H. destruct H as [Hs Hb].
  cbn [promote]. unfold promote_i. rewrite Hs. cbn [sg i64 bits Bool.eqb]. rewrite Hb.
  destruct (Z.ltb_spec (bits t) 64); [lia|reflexivity].
Qed.


Theorem width_irrelevant_pad_proof t n c p :
  std t -> not_u64 t = true -> coords_in n c -> 0 <= p -> n + p < 2 ^ 63 ->
  rmap tv (m_pad (DInt t) c p) = rmap tv (m_pad DInf c p).
Proof.
  intros St Hn Hc Hp Hlt. unfold m_pad, s_pad_map, arr_np. cbn [tdt tv].
  rewrite (promote_i64_l t St Hn). cbn [promote bind ctor_int tdt rmap tv]. f_equal.
  eapply map_ext_Forall; [|exact Hc]. cbn beta. intros x Hx.
  change (wr DInf (x + p)) with (x + p). apply wr_i64. lia.
Qed.

Theorem pad_u64_proof t c p :
  std t -> not_u64 t = false -> m_pad (DInt t) c p = Raise TypeError.
Proof.
  intros St Hn. unfold m_pad, s_pad_map, arr_np. cbn [tdt tv]. rewrite (promote_u64 t St Hn). reflexivity.
Qed.

Lemma kron_vals bs : forall a b na,
  coords_in na a -> coords_in bs b -> 0 <= bs -> na * bs < 2 ^ 63 ->
  map (fun p => wr (DInt i64) (fst p + snd p)) (combine (map (fun c => wr (DInt i64) (c * bs)) a) b) =
  map (fun p => fst p + snd p) (combine (map (fun c => c * bs) a) b).
Proof.
  induction a as [|x a IH]; intros b na Ha Hb Hbs Hlt; [reflexivity|].
  destruct b as [|y b]; [reflexivity|].
  inversion Ha; subst. inversion Hb; subst. cbn [map combine fst snd].
  rewrite (IH b na) by assumption. f_equal.
  assert (0 <= x * bs /\ x * bs + y < na * bs) by nia.
  rewrite (wr_i64 (x * bs)) by lia. apply wr_i64. lia.
Qed.

Theorem width_irrelevant_kron_proof t na a bs b :
  std t -> not_u64 t = true -> coords_in na a -> coords_in bs b -> 0 <= bs -> na * bs < 2 ^ 63 ->
  rmap tv (m_kron (DInt t) a bs b) = rmap tv (m_kron DInf a bs b).
Proof.
  intros St Hn Ha Hb Hbs Hlt. unfold m_kron, s_kron_map, arr_np, arr_arr. cbn [tdt tv bind].
  rewrite (promote_i64_l t St Hn). rewrite (promote_i64_r t St Hn).
  cbn [promote bind ctor_int tdt rmap tv]. f_equal.
  change (fun p : Z * Z => wr DInf (fst p + snd p)) with (fun p : Z * Z => fst p + snd p).
  change (fun c : Z => wr DInf (c * bs)) with (fun c : Z => c * bs).
  apply (kron_vals bs a b na); assumption.
Qed.

Theorem kron_u64_proof t a bs b :
  std t -> not_u64 t = false -> m_kron (DInt t) a bs b = Raise TypeError.
Proof.
  intros St Hn. unfold m_kron, s_kron_map, arr_np, arr_arr. cbn [tdt tv bind].
  rewrite (promote_u64 t St Hn). reflexivity.
Qed.

Theorem stack_dtype_proof t axis0 :
  std t -> (not_u64 t = true -> m_stack (DInt t) axis0 = Ok (DInt i64)) /\
           (not_u64 t = false -> m_stack (DInt t) axis0 = if axis0 then Ok DFloat else Raise TypeError).
Proof.
  intros St. unfold m_stack, m_stack_dtype, s_stack_new_row. split; intros H.
  - rewrite (promote_i64_l t St H). reflexivity.
  - rewrite (promote_u64 t St H). reflexivity.
Qed.

(* the full statements (all eight types) are false for uint64: promotion to float64 *)
Theorem promoted_ops_refuted_proof :
  exists t, std t /\
    m_pad (DInt t) [1] 1 = Raise TypeError /\ m_pad DInf [1] 1 = Ok (mkT DInf [2]) /\
    m_kron (DInt t) [1] 3 [2] = Raise TypeError /\ m_stack (DInt t) true = Ok DFloat /\
    m_stack (DInt t) false = Raise TypeError.
Proof. exists u64. repeat split; try reflexivity. unfold std; cbn; lia. Qed.

Example width_irrelevant_kron_nonvacuous :
  std u8 /\ not_u64 u8 = true /\ coords_in 101 [100; 3] /\ coords_in 200 [2; 199] /\
  m_kron (DInt u8) [100; 3] 200 [2; 199] = Ok (mkT (DInt i64) [20002; 799]).
Proof. repeat split; try reflexivity; [unfold std; cbn; lia|repeat constructor; lia|repeat constructor; lia]. Qed.

(* ------------------------------------------------------------------ COO constructor with idx_dtype *)
Theorem width_irrelevant_ctor_proof ti t mshape n c :
  std ti -> std t -> can_store (DInt t) mshape = true -> 0 <= n <= mshape -> coords_in n c ->
  rmap tv (m_ctor (Some (DInt ti)) mshape (mkT (DInt t) c)) = Ok c
  \/ m_ctor (Some (DInt ti)) mshape (mkT (DInt t) c) = Raise ValueError.
Proof.
  intros Si St Hm Hn Hc. unfold m_ctor. destruct (can_store (DInt ti) mshape) eqn:E; cbn [negb];
    [left|right; reflexivity].
  unfold astype. cbn [rmap tv]. f_equal. apply map_wr_id; [apply std_pos, Si|].
  eapply Forall_impl; [|exact Hc]. cbn beta. intros x Hx.
  apply (fits_le ti mshape); [apply std_pos, Si|exact E|lia].
Qed.

(* ------------------------------------------------------------------ GCXS._from_coo: idx_dtype choice *)
Theorem from_coo_dtype_proof idx t m :
  std t -> 0 <= m < 2 ^ 64 ->
  match idx with Some (DInt ti) => std ti | Some _ => False | None => True end ->
  (exists t', m_from_coo_dtype idx (DInt t) m = Ok (DInt t') /\ std t' /\ fits (DInt t') m = true)
  \/ m_from_coo_dtype idx (DInt t) m = Raise ValueError.
Proof.
  intros St Hm Hi. unfold m_from_coo_dtype. destruct idx as [[|ti|]|]; try contradiction.
  - destruct (can_store (DInt ti) m) eqn:E; cbn [negb]; [left; exists ti; auto|right; reflexivity].
  - left. unfold g_from_coo_choice. cbn [bind].
    unfold ext_can_store at 1. rewrite pyv_dty_roundtrip by (apply std_pos, St). cbn [as_int].
    destruct (fits (DInt t) m) eqn:E; cbn [bind py_not truthy cond negb dec_dty1 dec_dty].
    + rewrite pyv_dty_roundtrip by (apply std_pos, St). exists t. auto.
    + destruct (ext_min_scalar_type_nonneg m Hm) as [t' [E' [S' F']]]. rewrite E'. cbn [bind dec_dty1 dec_dty].
      rewrite pyv_dty_roundtrip by (apply std_pos, S'). exists t'. auto.
Qed.

(* the column indices and the (uncumulated) row coordinates are digits below the compressed shape *)
Theorem from_coo_digits_proof t m lin stride dim :
  std t -> fits (DInt t) m = true -> 0 < dim <= m ->
  tv (s_from_coo_digit (DInt t) lin stride dim) = tv (s_from_coo_digit DInf lin stride dim).
Proof.
  intros St Fm Hd. pose proof (std_pos t St) as Hb.
  unfold s_from_coo_digit, assign_into, astype. cbn [tv]. rewrite !map_map.
  apply map_ext. intros l. change (wr DInf ?z) with z.
  apply wr_fits; [exact Hb|]. apply (fits_le t m); [exact Hb|exact Fm|].
  unfold np_mod. destruct (Z.eqb_spec dim 0); [lia|].
  pose proof (Z.mod_pos_bound (np_div l stride) dim ltac:(lia)). lia.
Qed.

(* ------------------------------------------------------------------ GCXS concatenate / stack: indptr splice *)
Definition ptr_ok (p : list Z * Z) : Prop := 0 <= snd p /\ Forall (fun v => 0 <= v <= snd p) (fst p).

Lemma add_all_inf t m : forall offs seg base,
  0 < bits t -> fits (DInt t) m = true ->
  Forall (fun o => 0 <= o) offs -> 0 <= base ->
  Forall (fun v => 0 <= v <= base) seg -> base + zsum offs <= m ->
  rmap tv (add_all (mkT (DInt t) seg) offs) = rmap tv (add_all (mkT DInf seg) offs).
Proof.
  induction offs as [|o r IH]; intros seg base Hb Fm Ho Hbase Hseg Hsum; [reflexivity|].
  inversion Ho; subst. cbn [zsum fold_right] in Hsum. fold (zsum r) in Hsum.
  assert (0 <= zsum r) by (clear - H2; induction H2; cbn; unfold zsum in *; lia).
  cbn [add_all]. unfold s_gcxs_concat_add, iarr_py, arr_py. cbn [tdt tv].
  rewrite (fits_le t m o Hb Fm) by lia. cbn [fits bind].
  assert (E : map (fun c => wr (DInt t) (c + o)) seg = map (fun c => wr DInf (c + o)) seg).
  { eapply map_ext_Forall; [|exact Hseg]. cbn beta. intros v Hv. change (wr DInf (v + o)) with (v + o).
    apply wr_fits; [exact Hb|]. apply (fits_le t m); [exact Hb|exact Fm|lia]. }
  rewrite E. apply (IH _ (base + o)); auto; try lia.
  rewrite Forall_map. eapply Forall_impl; [|exact Hseg]. cbn. lia.
Qed.

Lemma zsum_app a b : zsum (a ++ b) = zsum a + zsum b.
Proof. induction a; cbn; unfold zsum in *; cbn; lia. Qed.

Lemma zsum_nonneg l : Forall (fun o => 0 <= o) l -> 0 <= zsum l.
Proof. intros H. induction H; cbn; unfold zsum in *; cbn; lia. Qed.

Lemma join_tail_inf t m : forall segs prev,
  0 < bits t -> fits (DInt t) m = true ->
  Forall (fun o => 0 <= o) prev -> Forall ptr_ok segs ->
  zsum prev + zsum (map snd segs) <= m ->
  join_tail (DInt t) prev segs = join_tail DInf prev segs.
Proof.
  induction segs as [|[p nz] r IH]; intros prev Hb Fm Hprev Hok Hsum; [reflexivity|].
  inversion Hok as [|? ? [Hnz Hp] Hr]; subst. cbn [fst snd] in *.
  cbn [map zsum fold_right snd] in Hsum. fold (zsum (map snd r)) in Hsum.
  assert (0 <= zsum (map snd r)).
  { apply zsum_nonneg. rewrite Forall_map. eapply Forall_impl; [|exact Hr]. intros [a b] [H1 _]. exact H1. }
  pose proof (zsum_nonneg prev Hprev).
  cbn [join_tail].
  assert (Htl : Forall (fun v => 0 <= v <= nz) (tl p)) by (destruct p; [constructor|inversion Hp; assumption]).
  assert (W : map (wr (DInt t)) (tl p) = tl p).
  { apply map_wr_id; [exact Hb|]. eapply Forall_impl; [|exact Htl]. cbn beta. intros v Hv.
    apply (fits_le t m); [exact Hb|exact Fm|lia]. }
  rewrite W. replace (map (wr DInf) (tl p)) with (tl p) by (clear; induction (tl p); cbn; congruence).
  pose proof (add_all_inf t m prev (tl p) nz Hb Fm Hprev Hnz Htl ltac:(lia)) as A.
  rewrite (IH (prev ++ [nz])); auto.
  - destruct (add_all (mkT (DInt t) (tl p)) prev) as [s1|e1], (add_all (mkT DInf (tl p)) prev) as [s2|e2];
      cbn [rmap] in A; try discriminate; cbn [bind]; [|congruence].
    injection A as A. rewrite A. reflexivity.
  - apply Forall_app. split; [exact Hprev|constructor; [exact Hnz|constructor]].
  - rewrite zsum_app. cbn. lia.
Qed.

Lemma add_all_inf_len : forall offs seg, exists l, add_all (mkT DInf seg) offs = Ok (mkT DInf l) /\ length l = length seg.
Proof.
  induction offs as [|o r IH]; intros seg; [exists seg; split; reflexivity|].
  cbn [add_all]. unfold s_gcxs_concat_add, iarr_py, arr_py. cbn [tdt tv fits bind].
  destruct (IH (map (fun c => wr DInf (c + o)) seg)) as [l [E L]]. exists l. split; [exact E|].
  rewrite L. apply map_length.
Qed.

Lemma join_tail_inf_len : forall segs prev, exists l,
  join_tail DInf prev segs = Ok l /\
  Z.of_nat (length l) = zsum (map (fun p => Z.of_nat (length (tl (fst p)))) segs).
Proof.
  induction segs as [|[p nz] r IH]; intros prev; [exists []; split; reflexivity|].
  cbn [join_tail].
  destruct (add_all_inf_len prev (map (wr DInf) (tl p))) as [l1 [E1 L1]]. rewrite E1. cbn [bind tv].
  destruct (IH (prev ++ [nz])) as [l2 [E2 L2]]. rewrite E2. cbn [bind].
  exists (l1 ++ l2). split; [reflexivity|].
  rewrite app_length, Nat2Z.inj_add, L1, map_length, L2. cbn [map fst zsum fold_right]. reflexivity.
Qed.

(* what the generated `needed = ...` of the joins evaluates to *)
Definition jneeded (total plen : Z) : Z := Z.max total (plen - 1).
Lemma gcxs_join_needed_eq total plen : gcxs_join_needed total plen = Ok (jneeded total plen).
Proof.
  unfold gcxs_join_needed, g_gcxs_join_needed, jneeded. cbn [bind py_sub arith as_int py_max2].
  destruct (Z.ltb_spec total (plen - 1)); cbn [bind]; f_equal; lia.
Qed.

(* the join in the type t: which dtype comes out, that it holds max(total nnz, joined row count),
   and that the spliced index pointer is the reference one *)
Lemma gcxs_join_shape t ptrs :
  std t -> Forall ptr_ok ptrs ->
  jneeded (zsum (map snd ptrs)) (joined_len ptrs) < 2 ^ 64 ->
  exists t' vals,
    m_gcxs_join (DInt t) ptrs = Ok (mkT (DInt t') vals) /\ std t' /\
    fits (DInt t') (jneeded (zsum (map snd ptrs)) (joined_len ptrs)) = true /\
    m_gcxs_join DInf ptrs = Ok (mkT DInf vals) /\ Z.of_nat (length vals) = joined_len ptrs.
Proof.
  intros St Hok Hlt. unfold m_gcxs_join. rewrite !gcxs_join_needed_eq. cbn [bind].
  set (total := zsum (map snd ptrs)) in *.
  set (needed := jneeded total (joined_len ptrs)) in *.
  assert (Hnn : 0 <= total).
  { apply zsum_nonneg. rewrite Forall_map. eapply Forall_impl; [|exact Hok]. intros [a b] [H1 _]. exact H1. }
  assert (Hge : total <= needed) by (unfold needed, jneeded; lia).
  assert (D : exists t', gcxs_join_dtype (DInt t) needed = Ok (DInt t') /\ std t' /\ fits (DInt t') needed = true).
  { unfold gcxs_join_dtype. destruct (can_store (DInt t) needed) eqn:E; cbn [negb]; [exists t; auto|].
    destruct (ext_min_scalar_type_nonneg needed ltac:(lia)) as [t' [E' [S' F']]].
    unfold g_gcxs_concat_upcast. rewrite E'. cbn [bind dec_dty1 dec_dty].
    rewrite pyv_dty_roundtrip by (apply std_pos, S'). exists t'. auto. }
  destruct D as [t' [E [S' F']]]. rewrite E. cbn [bind].
  unfold gcxs_join_dtype. rewrite can_store_inf. cbn [negb bind].
  pose proof (std_pos t' S') as Hb.
  assert (Ft : fits (DInt t') total = true) by (apply (fits_le t' needed); [exact Hb|exact F'|lia]).
  destruct ptrs as [|[p0 n0] r]; [exists t', []; repeat split; auto|].
  inversion Hok as [|? ? [Hn0 Hp0] Hr]; subst. cbn [fst snd] in *.
  unfold total in Ft, Hnn. cbn [map zsum fold_right snd] in Ft, Hnn. fold (zsum (map snd r)) in Ft, Hnn.
  assert (0 <= zsum (map snd r)).
  { apply zsum_nonneg. rewrite Forall_map. eapply Forall_impl; [|exact Hr]. intros [a b] [H1 _]. exact H1. }
  rewrite (join_tail_inf t' (n0 + zsum (map snd r)) r [n0] Hb Ft); auto.
  2:{ cbn. lia. }
  assert (W : map (wr (DInt t')) p0 = p0).
  { apply map_wr_id; [exact Hb|]. eapply Forall_impl; [|exact Hp0]. cbn beta. intros v Hv.
    apply (fits_le t' (n0 + zsum (map snd r))); [exact Hb|exact Ft|lia]. }
  rewrite W. replace (map (wr DInf) p0) with p0 by (clear; induction p0; cbn; congruence).
  destruct (join_tail_inf_len r [n0]) as [l [El Ll]]. rewrite El. cbn [bind].
  exists t', (p0 ++ l). repeat split; auto.
  rewrite app_length, Nat2Z.inj_add, Ll. reflexivity.
Qed.

Theorem width_irrelevant_gcxs_join_proof t ptrs :
  std t -> Forall ptr_ok ptrs ->
  jneeded (zsum (map snd ptrs)) (joined_len ptrs) < 2 ^ 64 ->
  rmap tv (m_gcxs_join (DInt t) ptrs) = rmap tv (m_gcxs_join DInf ptrs).
Proof.
  intros St Hok Hlt. destruct (gcxs_join_shape t ptrs St Hok Hlt) as [t' [vals [E1 [_ [_ [E2 _]]]]]].
  rewrite E1, E2. reflexivity.
Qed.

Example width_irrelevant_gcxs_join_nonvacuous :
  std u8 /\ Forall ptr_ok [([0; 100; 200], 200); ([0; 50; 100], 100)] /\
  m_gcxs_join (DInt u8) [([0; 100; 200], 200); ([0; 50; 100], 100)] = Ok (mkT (DInt u16) [0; 100; 200; 250; 300]).
Proof.
  repeat split; try reflexivity; [unfold std; cbn; lia|].
  repeat constructor; cbn; lia.
Qed.

(* ------------------------------------------------------------------ uncompress_dimension: row numbers in
   indptr's dtype.  The kernel itself does not check that the row count fits that dtype; since 36b3bc9
   the joins guarantee it (gcxs_join_uncompress below), _from_coo / _transpose choose a dtype holding
   the compressed shape; a user-supplied indptr, and GCXS fancy indexing with repeated rows, can
   still break the hypothesis. *)
Lemma rows_of_range : forall ptr i,
  Forall (fun v => i <= v < i + Z.of_nat (length ptr) - 1) (rows_of i ptr).
Proof.
  induction ptr as [|a r IH]; intros i; [constructor|].
  destruct r as [|b r']; [constructor|].
  change (rows_of i (a :: b :: r')) with (repeat i (Z.to_nat (b - a)) ++ rows_of (i + 1) (b :: r')).
  apply Forall_app. split.
  - apply Forall_forall. intros v Hv. apply repeat_spec in Hv. subst.
    cbn [length]. rewrite !Nat2Z.inj_succ. lia.
  - eapply Forall_impl; [|apply (IH (i + 1))]. cbn beta. intros v Hv.
    cbn [length] in *. rewrite !Nat2Z.inj_succ in *. lia.
Qed.


Theorem width_irrelevant_uncompress_partial_proof t indptr :
  std t -> uncompress_clause t indptr = true ->
  tv (m_uncompress (DInt t) indptr) = tv (m_uncompress DInf indptr).
Proof.
  intros St Hc. pose proof (std_pos t St) as Hb. unfold uncompress_clause in Hc.
  unfold m_uncompress, s_uncompress_store, assign_into, astype. cbn [tv].
  replace (map (wr DInf) (rows_of 0 indptr)) with (rows_of 0 indptr)
    by (clear; induction (rows_of 0 indptr); cbn; congruence).
  apply map_wr_id; [exact Hb|]. eapply Forall_impl; [|apply rows_of_range]. cbn beta. intros v Hv.
  destruct indptr as [|a r]; [cbn in Hv; lia|].
  apply (fits_le t (Z.of_nat (length (a :: r)) - 1)); [exact Hb|exact Hc|lia].
Qed.

(* after a join the row numbers always fit: full statement *)
Theorem gcxs_join_uncompress_proof t ptrs a :
  std t -> Forall ptr_ok ptrs ->
  jneeded (zsum (map snd ptrs)) (joined_len ptrs) < 2 ^ 64 ->
  m_gcxs_join (DInt t) ptrs = Ok a ->
  tv (m_uncompress (tdt a) (tv a)) = tv (m_uncompress DInf (tv a)).
Proof.
  intros St Hok Hlt Ha.
  destruct (gcxs_join_shape t ptrs St Hok Hlt) as [t' [vals [E1 [S' [F' [_ L]]]]]].
  rewrite E1 in Ha. injection Ha as <-. cbn [tdt tv].
  destruct vals as [|v0 vals]; [reflexivity|].
  apply width_irrelevant_uncompress_partial_proof; [exact S'|].
  unfold uncompress_clause. rewrite L.
  pose proof (std_pos t' S') as Hb.
  cbn [length] in L. rewrite Nat2Z.inj_succ in L.
  apply (fits_le t' (jneeded (zsum (map snd ptrs)) (joined_len ptrs))); [exact Hb|exact F'|].
  unfold jneeded. lia.
Qed.

Theorem uncompress_refuted_proof :
  exists t indptr,
    std t /\ Forall (fun v => fits (DInt t) v = true) indptr /\
    tv (m_uncompress (DInt t) indptr) <> tv (m_uncompress DInf indptr).
Proof.
  exists u8, (repeat 0 (Z.to_nat 300) ++ [1]). split; [unfold std; cbn; lia|]. split.
  - apply Forall_app. split; [apply Forall_forall; intros v Hv; apply repeat_spec in Hv; subst; reflexivity|].
    repeat constructor.
  - vm_compute. congruence.
Qed.

(* ------------------------------------------------------------------ GCXS._from_coo: indices and indptr *)
Lemma zsum_map_add {A} (f g : A -> Z) l :
  zsum (map (fun r => f r + g r) l) = zsum (map f l) + zsum (map g l).
Proof. induction l as [|a r IH]; [reflexivity|]. cbn [map]. unfold zsum in *. cbn [fold_right]. lia. Qed.

Lemma indicator_sum_le x keys :
  NoDup keys -> 0 <= zsum (map (fun r => if x =? r then 1 else 0) keys) <= 1.
Proof.
  intros H. induction H as [|k r Hn Hd IH]; [cbn; lia|].
  cbn [map]. unfold zsum in *. cbn [fold_right].
  destruct (Z.eqb_spec x k); [|lia].
  subst. assert (E : fold_right Z.add 0 (map (fun r0 => if k =? r0 then 1 else 0) r) = 0).
  { clear IH Hd. induction r as [|a r IHr]; [reflexivity|]. cbn [map fold_right].
    destruct (Z.eqb_spec k a); [subst; exfalso; apply Hn; left; reflexivity|].
    rewrite IHr; [lia|]. intros Hin. apply Hn. right. exact Hin. }
  lia.
Qed.

Lemma count_sum_le keys l :
  NoDup keys -> 0 <= zsum (map (fun r => count_eq r l) keys) <= Z.of_nat (length l).
Proof.
  intros Hk. induction l as [|x l IH].
  - cbn [count_eq length]. replace (zsum (map (fun _ : Z => 0) keys)) with 0; [lia|].
    induction keys; [reflexivity|]. cbn. unfold zsum in *. cbn. inversion Hk; subst. rewrite <- IHkeys by assumption. reflexivity.
  - cbn [count_eq length]. rewrite Nat2Z.inj_succ.
    rewrite (zsum_map_add (fun r => if x =? r then 1 else 0) (fun r => count_eq r l)).
    pose proof (indicator_sum_le x keys Hk). lia.
Qed.

Lemma count_eq_nonneg v l : 0 <= count_eq v l.
Proof. induction l as [|x l IH]; cbn [count_eq]; [lia|]. destruct (x =? v); lia. Qed.

Lemma cumsum_bound l : forall acc,
  Forall (fun c => 0 <= c) l -> Forall (fun v => acc <= v <= acc + zsum l) (cumsum_from acc l).
Proof.
  induction l as [|x r IH]; intros acc H; [constructor|].
  inversion H; subst. cbn [cumsum_from]. unfold zsum. cbn [fold_right]. fold (zsum r).
  assert (0 <= zsum r) by (clear - H3; induction H3; cbn; unfold zsum in *; cbn; lia).
  constructor; [lia|]. eapply Forall_impl; [|apply (IH (acc + x) H3)]. cbn beta. lia.
Qed.

Lemma zrange_NoDup n : NoDup (zrange n).
Proof.
  unfold zrange. apply FinFun.Injective_map_NoDup; [|apply seq_NoDup].
  intros a b H. apply Nat2Z.inj, H.
Qed.

Theorem width_irrelevant_from_coo_proof idx t rows cols lin :
  std t -> match idx with Some (DInt ti) => std ti | Some _ => False | None => True end ->
  0 < rows -> 0 < cols -> Z.max (Z.max rows cols) (Z.of_nat (length lin)) < 2 ^ 64 ->
  rmap (fun p => (tv (fst p), tv (snd p))) (m_from_coo idx (DInt t) rows cols lin) =
  rmap (fun p => (tv (fst p), tv (snd p))) (m_from_coo None DInf rows cols lin)
  \/ m_from_coo idx (DInt t) rows cols lin = Raise ValueError.
Proof.
  intros St Hi Hr Hc Hm. unfold m_from_coo.
  set (m := Z.max (Z.max rows cols) (Z.of_nat (length lin))) in *.
  destruct (from_coo_dtype_proof idx t m St ltac:(lia) Hi) as [[t' [E [S' F']]]|E];
    [|right; rewrite E; reflexivity].
  left. rewrite E. cbn [bind rmap fst snd].
  assert (Einf : m_from_coo_dtype None DInf m = Ok DInf) by reflexivity.
  rewrite Einf. cbn [bind rmap fst snd].
  rewrite (from_coo_digits_proof t' m lin 1 cols S' F' ltac:(lia)).
  rewrite (from_coo_digits_proof t' m lin cols rows S' F' ltac:(lia)).
  f_equal. f_equal.
  set (rc := tv (s_from_coo_digit DInf lin cols rows)).
  unfold assign_into, astype. cbn [tv].
  replace (map (wr DInf) (0 :: cumsum_from 0 (map (fun r => count_eq r rc) (zrange rows))))
    with (0 :: cumsum_from 0 (map (fun r => count_eq r rc) (zrange rows)))
    by (generalize (0 :: cumsum_from 0 (map (fun r => count_eq r rc) (zrange rows))); intros l; induction l; cbn; congruence).
  pose proof (std_pos t' S') as Hb.
  apply map_wr_id; [exact Hb|].
  assert (Hlen : length rc = length lin).
  { unfold rc, s_from_coo_digit, assign_into, astype. cbn [tv]. rewrite !map_length. reflexivity. }
  pose proof (count_sum_le (zrange rows) rc (zrange_NoDup rows)) as Hs. rewrite Hlen in Hs.
  constructor; [apply fits_zero, Hb|].
  eapply Forall_impl; [|apply (cumsum_bound _ 0)].
  - cbn beta. intros v Hv. apply (fits_le t' m); [exact Hb|exact F'|lia].
  - rewrite Forall_map. apply Forall_forall. intros r _. apply count_eq_nonneg.
Qed.

Example width_irrelevant_from_coo_nonvacuous :
  rmap (fun p => (tv (fst p), tv (snd p))) (m_from_coo None (DInt i8) 3 100 [0; 5; 299]) = Ok ([0; 5; 99], [0; 2; 2; 3]) /\
  m_from_coo (Some (DInt i8)) (DInt i16) 3 200 [0; 5; 599] = Raise ValueError.
Proof. split; reflexivity. Qed.

(* ------------------------------------------------------------------ convert._transpose: the dtype chosen for the
   new indices and the new indptr holds the compressed shape AND the number of stored elements *)
Lemma transpose_dtype_is_get_out xd R C n :
  transpose_dtype xd R C n = get_out_dtype xd (Z.max (Z.max R C) n).
Proof.
  unfold transpose_dtype, get_out_dtype, g_transpose_dtype. cbn [bind py_max2 as_int].
  destruct (Z.ltb_spec (Z.max R C) n); cbn [bind]; f_equal; f_equal; f_equal; lia.
Qed.

Lemma transpose_dtype_fits t R C n :
  std t -> 0 <= Z.max (Z.max R C) n < 2 ^ 64 ->
  exists t', transpose_dtype (DInt t) R C n = Ok (DInt t') /\ std t' /\
             fits (DInt t') (Z.max (Z.max R C) n) = true.
Proof.
  intros St Hm. rewrite transpose_dtype_is_get_out.
  destruct (get_out_dtype_spec_proof t _ St Hm) as [t' [E [S' [F' _]]]]. eauto.
Qed.

Lemma transpose_store_id t m vals :
  std t -> fits (DInt t) m = true -> Forall (fun v => 0 <= v <= m) vals ->
  tv (s_transpose_store (DInt t) vals) = vals.
Proof.
  intros St Fm H. unfold s_transpose_store, assign_into, astype. cbn [tv].
  apply map_wr_id; [apply std_pos, St|]. eapply Forall_impl; [|exact H]. cbn beta. intros v Hv.
  apply (fits_le t m); [apply std_pos, St|exact Fm|exact Hv].
Qed.

Lemma transpose_store_inf vals : tv (s_transpose_store DInf vals) = vals.
Proof.
  unfold s_transpose_store, assign_into, astype. cbn [tv]. induction vals; cbn; congruence.
Qed.

Theorem width_irrelevant_transpose_proof t R C rc cc :
  std t -> 0 < R -> 0 < C -> coords_in R rc -> coords_in C cc ->
  Z.max (Z.max R C) (Z.of_nat (length rc)) < 2 ^ 64 ->
  exists t',
    rmap (fun p => (tdt (fst p), tdt (snd p))) (m_transpose (DInt t) R C rc cc) = Ok (DInt t', DInt t') /\
    std t' /\
    fits (DInt t') (Z.of_nat (length rc)) = true /\
    rmap (fun p => (tv (fst p), tv (snd p))) (m_transpose (DInt t) R C rc cc) =
    rmap (fun p => (tv (fst p), tv (snd p))) (m_transpose DInf R C rc cc).
Proof.
  intros St HR HC Hrc Hcc Hm.
  set (n := Z.of_nat (length rc)) in *. set (m := Z.max (Z.max R C) n) in *.
  destruct (transpose_dtype_fits t R C n St ltac:(unfold m in *; lia)) as [t' [E [S' F']]]. fold m in F'.
  pose proof (std_pos t' S') as Hb.
  exists t'. unfold m_transpose. fold n. rewrite E. cbn [bind rmap fst snd].
  assert (Einf : transpose_dtype DInf R C n = Ok DInf).
  { rewrite transpose_dtype_is_get_out. reflexivity. }
  rewrite Einf. cbn [bind rmap fst snd].
  split; [reflexivity|]. split; [exact S'|].
  split; [apply (fits_le t' m); [exact Hb|exact F'|unfold m, n; lia]|].
  rewrite (transpose_store_id t' m rc S' F') by (eapply Forall_impl; [|exact Hrc]; cbn; unfold m; lia).
  rewrite (transpose_store_id t' m cc S' F') by (eapply Forall_impl; [|exact Hcc]; cbn; unfold m; lia).
  rewrite !transpose_store_inf.
  f_equal. f_equal.
  unfold assign_into, astype. cbn [tv].
  replace (map (wr DInf) (0 :: cumsum_from 0 (map (fun r => count_eq r rc) (zrange R))))
    with (0 :: cumsum_from 0 (map (fun r => count_eq r rc) (zrange R)))
    by (generalize (0 :: cumsum_from 0 (map (fun r => count_eq r rc) (zrange R))); intros l; induction l; cbn; congruence).
  apply map_wr_id; [exact Hb|].
  pose proof (count_sum_le (zrange R) rc (zrange_NoDup R)) as Hs.
  constructor; [apply fits_zero, Hb|].
  eapply Forall_impl; [|apply (cumsum_bound _ 0)].
  - cbn beta. intros v Hv. apply (fits_le t' m); [exact Hb|exact F'|unfold m, n; lia].
  - rewrite Forall_map. apply Forall_forall. intros r _. apply count_eq_nonneg.
Qed.

(* the situation the joins create: 8-bit indices, more than 255 stored elements, small extents *)
Example width_irrelevant_transpose_nonvacuous :
  let rc := repeat 0 (Z.to_nat 150) ++ repeat 1 (Z.to_nat 150) in
  let cc := repeat 2 (Z.to_nat 300) in
  rmap (fun p => (tdt (snd p), tv (snd p))) (m_transpose (DInt u8) 2 3 rc cc) = Ok (DInt u16, [0; 150; 300]).
Proof. vm_compute. reflexivity. Qed.

(* ------------------------------------------------------------------ canonicalisation in the constructor:
   the sortedness / duplicate tests are exact for every index dtype, because linear_loc yields intp *)
Lemma lin_arr_width t ndim lin : lin_arr (DInt t) ndim lin = lin_arr DInf ndim lin.
Proof. unfold lin_arr, s_linear_loc_dtype. destruct (ndim =? 0); reflexivity. Qed.

Definition lin_ok (lin : list Z) : Prop := Forall (fun v => 0 <= v < 2 ^ 63) lin.

Lemma np_diff_i64 lin :
  lin_ok lin -> np_diff (mkT (DInt i64) lin) = map (fun p => snd p - fst p) (combine lin (tl lin)).
Proof.
  intros H. unfold np_diff. cbn [tv tdt].
  apply map_ext_in. intros [a b] Hin. cbn [fst snd].
  assert (0 <= a < 2 ^ 63 /\ 0 <= b < 2 ^ 63).
  { unfold lin_ok in H. rewrite Forall_forall in H. split.
    - apply H. eapply in_combine_l, Hin.
    - apply H. apply in_combine_r in Hin. destruct lin; [destruct Hin|right; exact Hin]. }
  apply wr_i64. lia.
Qed.

Lemma forallb_map' {A B} (f : A -> B) (g : B -> bool) l : forallb g (map f l) = forallb (fun x => g (f x)) l.
Proof. induction l; cbn; congruence. Qed.
Lemma forallb_ext' {A} (f g : A -> bool) l : (forall a, f a = g a) -> forallb f l = forallb g l.
Proof. intros H. induction l; cbn; [reflexivity|]. rewrite H, IHl. reflexivity. Qed.

Theorem sortedness_test_exact_proof t ndim lin :
  lin_ok lin ->
  m_sorted_test (DInt t) ndim lin = m_sorted_test DInf ndim lin /\
  m_sorted_test (DInt t) ndim lin = forallb (fun p => fst p <=? snd p) (combine lin (tl lin)) /\
  m_dup_mask (DInt t) ndim lin = map (fun p => negb (fst p =? snd p)) (combine lin (tl lin)).
Proof.
  intros H. unfold m_sorted_test, m_dup_mask. rewrite (lin_arr_width t ndim lin).
  split; [reflexivity|].
  assert (E : lin_arr DInf ndim lin = mkT (DInt i64) lin).
  { unfold lin_arr, s_linear_loc_dtype. destruct (ndim =? 0); reflexivity. }
  rewrite E. unfold s_already_sorted, s_dup_mask. rewrite (np_diff_i64 lin H). split.
  - rewrite forallb_map'. apply forallb_ext'. intros [a b]. cbn [fst snd]. lia.
  - rewrite map_map. apply map_ext. intros [a b]. cbn [fst snd]. f_equal. lia.
Qed.

Theorem width_irrelevant_canon_proof t ndim ps :
  m_canon (DInt t) ndim ps = m_canon DInf ndim ps.
Proof.
  unfold m_canon, m_sorted_test, m_dup_mask. rewrite !lin_arr_width. reflexivity.
Qed.

Example canon_nonvacuous :
  m_canon (DInt u8) 1 [(200, 1); (3, 2); (50, 3); (3, 4)] = [(3, 6); (50, 3); (200, 1)] /\
  m_sorted_test (DInt u8) 1 [200; 3; 50] = false.
Proof. split; reflexivity. Qed.

(* ------------------------------------------------------------------ _dot (COO @ COO): the row pointers count stored
   elements in intp, whatever the operands' coordinate dtype *)
Theorem width_irrelevant_dot_indptr_proof t rows rc :
  Z.of_nat (length rc) < 2 ^ 63 ->
  m_dot_indptr (DInt t) rows rc = m_dot_indptr DInf rows rc /\
  tv (m_dot_indptr (DInt t) rows rc) = 0 :: cumsum_from 0 (map (fun r => count_eq r rc) (zrange rows)).
Proof.
  intros Hn. split; [reflexivity|].
  unfold m_dot_indptr, s_dot_indptr_dtype, assign_into, astype. cbn [tv].
  apply map_wr_id; [cbn; lia|].
  pose proof (count_sum_le (zrange rows) rc (zrange_NoDup rows)) as Hs.
  constructor; [reflexivity|].
  eapply Forall_impl; [|apply (cumsum_bound _ 0)].
  - cbn beta. intros v Hv. apply fits_iff. cbn. lia.
  - rewrite Forall_map. apply Forall_forall. intros r _. apply count_eq_nonneg.
Qed.

(* ------------------------------------------------------------------ arrays without stored elements always carry intp
   coordinates, so joining them with ordinary arrays never promotes to float64 *)
Theorem ctor_empty_coords_intp_proof d axis0 :
  m_ctor_empty_dtype d = DInt i64 /\
  m_stack (m_ctor_empty_dtype d) axis0 = Ok (DInt i64) /\
  promote (m_ctor_empty_dtype d) (DInt i64) = DInt i64.
Proof. repeat split. Qed.

Example dot_indptr_nonvacuous :
  tv (m_dot_indptr (DInt u8) 3 (repeat 0 (Z.to_nat 100) ++ repeat 1 (Z.to_nat 100) ++ repeat 2 (Z.to_nat 100)))
  = [0; 100; 200; 300].
Proof. vm_compute. reflexivity. Qed.

(* ------------------------------------------------------------------ _diagonal_idx: the Numba comparison is exact for
   every index type (coordinate + int64 offset is an int64 under Numba's promotion, never an unsigned difference) *)
Lemma nb_sum_exact t offset x :
  std t -> 0 <= x < 2 ^ 62 -> - 2 ^ 62 <= offset <= 2 ^ 62 ->
  wr (nb_promote_d (DInt t) i64) (x + offset) = x + offset.
Proof.
  intros St Hx Ho. unfold nb_promote_d, nb_promote. cbn [sg bits i64].
  destruct (sg t); cbn [Bool.eqb].
  - unfold std in St. replace (Z.max (Z.max (bits t) 64) 64) with 64 by lia. apply wr_i64. lia.
  - apply wr_i64. lia.
Qed.

Theorem diagonal_test_exact_proof t n1 a1 a2 offset :
  std t -> coords_in n1 a1 -> n1 < 2 ^ 62 -> - 2 ^ 62 <= offset <= 2 ^ 62 ->
  m_diagonal_mask (DInt t) a1 a2 offset = map (fun p => fst p + offset =? snd p) (combine a1 a2) /\
  m_diagonal_mask (DInt t) a1 a2 offset = m_diagonal_mask DInf a1 a2 offset.
Proof.
  intros St H1 Hn Ho.
  assert (E : forall d, (d = DInf \/ d = DInt t) ->
            m_diagonal_mask d a1 a2 offset = map (fun p => fst p + offset =? snd p) (combine a1 a2)).
  { intros d Hd. unfold m_diagonal_mask, s_diagonal_mask, nb_arr_sc, cmp_arr. cbn [tdt tv].
    revert a2. induction H1 as [|x r Hx Hr IH]; intros a2; [reflexivity|].
    destruct a2 as [|y a2]; [reflexivity|]. cbn [map combine fst snd]. rewrite IH. f_equal. f_equal.
    destruct Hd as [->| ->]; [reflexivity|]. apply nb_sum_exact; [exact St|lia|exact Ho]. }
  split; [apply E; right; reflexivity|].
  rewrite (E (DInt t)) by (right; reflexivity). rewrite (E DInf) by (left; reflexivity). reflexivity.
Qed.

Example diagonal_test_nonvacuous :
  m_diagonal_mask (DInt u8) [3; 5; 200] [1; 5; 198] (-2) = [true; false; true] /\
  m_diagonal_mask (DInt u64) [3; 5] [1; 5] (-2) = [true; false].
Proof. split; reflexivity. Qed.

(* ------------------------------------------------------------------ GCXS reductions: the row numbers of the
   re-compressed array are exact for every index type (they are made in the re-compressed array's own dtype,
   which _transpose chose to hold its row count) *)
Lemma zrange__bounds n : Forall (fun v => 0 <= v <= n - 1) (zrange_ n).
Proof.
  unfold zrange_. apply Forall_forall. intros v Hv. apply in_map_iff in Hv. destruct Hv as [k [<- Hk]].
  apply in_seq in Hk. lia.
Qed.

Theorem gcxs_reduce_rows_exact_proof t d_self R C nnz :
  std t -> 0 < R -> 0 < C -> 0 <= nnz -> Z.max (Z.max R C) nnz < 2 ^ 64 ->
  rmap tv (m_gcxs_reduce_rows (DInt t) d_self R C nnz) = Ok (zrange_ R) /\
  rmap tv (m_gcxs_reduce_rows (DInt t) d_self R C nnz) = rmap tv (m_gcxs_reduce_rows DInf DInf R C nnz).
Proof.
  intros St HR HC Hn Hm.
  destruct (transpose_dtype_fits t R C nnz St ltac:(lia)) as [t' [E [S' F']]].
  assert (E1 : rmap tv (m_gcxs_reduce_rows (DInt t) d_self R C nnz) = Ok (zrange_ R)).
  { unfold m_gcxs_reduce_rows. rewrite E. cbn [bind rmap]. f_equal.
    unfold s_gcxs_reduce_rows, assign_into, astype. cbn [tv].
    apply map_wr_id; [apply std_pos, S'|]. eapply Forall_impl; [|apply zrange__bounds]. cbn beta. intros v Hv.
    apply (fits_le t' (Z.max (Z.max R C) nnz)); [apply std_pos, S'|exact F'|lia]. }
  split; [exact E1|]. rewrite E1.
  unfold m_gcxs_reduce_rows. rewrite transpose_dtype_is_get_out.
  change (get_out_dtype DInf (Z.max (Z.max R C) nnz)) with (Ok DInf : res dty). cbn [bind rmap]. f_equal.
  unfold s_gcxs_reduce_rows, assign_into, astype. cbn [tv]. symmetry.
  generalize (zrange_ R). intros l. induction l; cbn; congruence.
Qed.

Example gcxs_reduce_rows_nonvacuous :
  rmap (fun a => (tdt a, nth 399 (tv a) 0)) (m_gcxs_reduce_rows (DInt u8) (DInt u8) 400 3 113) = Ok (DInt u16, 399).
Proof. vm_compute. reflexivity. Qed.

(* ------------------------------------------------------------------ broadcasting: positions along a grown axis are
   exact for every coordinate dtype of the operand, whatever the new extent *)
Theorem broadcast_positions_exact_proof t n :
  n < 2 ^ 63 ->
  tv (m_broadcast_positions (DInt t) n) = zrange_ n /\
  m_broadcast_positions (DInt t) n = m_broadcast_positions DInf n.
Proof.
  intros Hn. split; [|reflexivity].
  unfold m_broadcast_positions, s_expanded_coords_dtype, assign_into, astype. cbn [tv].
  apply map_wr_id; [cbn; lia|]. eapply Forall_impl; [|apply zrange__bounds]. cbn beta. intros v Hv.
  apply fits_iff. cbn. lia.
Qed.

Example broadcast_positions_nonvacuous :
  nth 256 (tv (m_broadcast_positions (DInt u8) 258)) 0 = 256.
Proof. vm_compute. reflexivity. Qed.
