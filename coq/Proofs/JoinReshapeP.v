(* Proofs/JoinReshapeP.v — C09 x C08 x C05: the member preparation of GCXS stack,
       arrays[i] = arrays[i].reshape(shape with a 1 inserted at axis).change_compressed_axes((axis,)),
   is modelled in Model/Join.v by its meaning (gcxs_from_coo (gcxs_expand k g) [axis]).  This file shows that C08's
   transcription of GCXS.reshape (Model/ShapeOpsG.gcxs_reshape, the kernel path through _transpose/_convert_coords or
   _1d_reshape/_linearize) followed by C05's change_compressed_axes returns exactly that record, for EVERY well-formed
   GCXS member — so the "by meaning" shortcut of gcxs_stack is a theorem about the transcribed kernels, not an
   assumption. *)
From Coq Require Import ZArith List Bool Lia Sorting.Sorted.
From Verif Require Import Py PyExt Shape COO COOP GCXS Convert ConvertL ConvertM ConvertG ConvertP ConvertU.
From Verif Require Import G_shapeops S_shapeops ShapeOps NpShapeOps ShapeOpsL ShapeOpsP ShapeOpsG ShapeOpsGP ShapeOpsGA.
From Verif Require Import NpJoin G_join S_join Join JoinP JoinG.
Import ListNotations.
Open Scope Z_scope.

Lemma size_ins1 : forall k sh, size (ins k 1 sh) = size sh.
Proof.
  induction k as [|k IH]; intros sh.
  - unfold size. simpl. destruct (fold_right Z.mul 1 sh); reflexivity.
  - destruct sh as [|d sh]; [reflexivity|]. change (d * size (ins k 1 sh) = d * size sh). rewrite IH. reflexivity.
Qed.

Lemma ravel_ins0 : forall k sh ix, length ix = length sh -> ravel (ins k 1 sh) (ins k 0 ix) = ravel sh ix.
Proof.
  induction k as [|k IH]; intros sh ix Hl.
  - simpl. reflexivity.
  - destruct sh as [|d sh]; destruct ix as [|i ix]; try discriminate.
    + reflexivity.
    + simpl in Hl. injection Hl as Hl. cbn [ins ravel]. rewrite size_ins1, IH by exact Hl. reflexivity.
Qed.

Lemma in_range_length : forall sh ix, in_range sh ix -> length ix = length sh.
Proof.
  induction sh as [|d sh IH]; intros [|i ix] H; simpl in H; try contradiction; [reflexivity|].
  simpl. f_equal. apply IH. tauto.
Qed.

Lemma ins_neq_self k v (l : list Z) : (k <= length l)%nat -> ins k v l <> l.
Proof. intros Hk E. apply (f_equal (@length Z)) in E. rewrite ins_length in E by exact Hk. lia. Qed.

Section Member.
  Variable V : Type.
  Variable veqb : V -> V -> bool.
  Variable add : V -> V -> V.

  (* COO.reshape onto the shape with a 1 inserted at position k inserts a 0 into every coordinate *)
  Lemma coo_reshape_ins (c : coo V) (k : nat) :
    canonical V c -> shape_ok (c_shape c) -> (k <= length (c_shape c))%nat ->
    coo_reshape c (ins k 1 (c_shape c)) = Ok (coo_expand V k c).
  Proof.
    intros Hc Hok Hk. rewrite coo_reshape_cases.
    destruct (idx_eqb (c_shape c) (ins k 1 (c_shape c))) eqn:E.
    { apply idx_eqb_eq in E. exfalso. symmetry in E. revert E. apply ins_neq_self. exact Hk. }
    assert (Hok' : shape_ok (ins k 1 (c_shape c))) by (apply shape_ok_ins; [lia|exact Hok]).
    assert (Hs : coo_reshape_shape (c_shape c) (ins k 1 (c_shape c)) = Ok (ins k 1 (c_shape c))).
    { unfold coo_reshape_shape.
      assert (N1 : existsb (fun d => d =? -1) (ins k 1 (c_shape c)) = false).
      { apply Bool.not_true_is_false. intros Hx. apply existsb_exists in Hx. destruct Hx as [d [Hin Hd]].
        unfold shape_ok in Hok'. rewrite Forall_forall in Hok'. specialize (Hok' d Hin). apply Z.eqb_eq in Hd. lia. }
      rewrite N1. cbn [bind]. rewrite size_ins1, Z.eqb_refl. cbn [negb].
      assert (N2 : existsb (fun d => d <? 0) (ins k 1 (c_shape c)) = false).
      { apply Bool.not_true_is_false. intros Hx. apply existsb_exists in Hx. destruct Hx as [d [Hin Hd]].
        unfold shape_ok in Hok'. rewrite Forall_forall in Hok'. specialize (Hok' d Hin). apply Z.ltb_lt in Hd. lia. }
      rewrite N2. reflexivity. }
    rewrite Hs. f_equal. unfold coo_make, coo_expand, map_coords, entries.
    destruct Hc as [Hr [_ Hl]].
    rewrite !map_map. cbn [fst snd]. f_equal.
    - rewrite <- (map_map fst (fun ix => unravel_strided (ins k 1 (c_shape c)) (ravel (c_shape c) ix))).
      rewrite map_fst_combine by lia.
      apply map_ext_in. intros ix Hin. rewrite Forall_forall in Hr. specialize (Hr ix Hin).
      rewrite <- (ravel_ins0 k) by (apply in_range_length; exact Hr).
      assert (Hr' : in_range (ins k 1 (c_shape c)) (ins k 0 ix)) by (apply in_range_ins; [exact Hr|exact Hk|lia]).
      rewrite unravel_strided_eq; [apply unravel_ravel; exact Hr'|exact Hok'|apply ravel_bounds; exact Hr'].
    - apply map_snd_combine. lia.
  Qed.
End Member.

Section StackMember.
  Variable V : Type.
  Variable veqb : V -> V -> bool.
  Variable add : V -> V -> V.

  Lemma caxes_okb_single (n : Z) (k : nat) : 2 <= n -> Z.of_nat k < n -> caxes_okb n [Z.of_nat k] = true.
  Proof.
    intros Hn Hk. unfold caxes_okb. cbn [is_nil negb length forallb andb].
    assert (A : (Z.of_nat 1 <? n) = true) by (apply Z.ltb_lt; lia).
    assert (B : (0 <=? Z.of_nat k) = true) by (apply Z.leb_le; lia).
    assert (C : (Z.of_nat k <? n) = true) by (apply Z.ltb_lt; lia).
    rewrite A, B, C. reflexivity.
  Qed.

  (* GCXS stack's member preparation, on the transcribed kernels: for every well-formed GCXS member g of ndim >= 2
     (1-d members go through the COO joiner) and every insertion position k <= ndim,
        g.reshape(shape with a 1 inserted at k)  succeeds, and
        .change_compressed_axes((k,))            of its result
     is exactly the record Model/Join.gcxs_stack uses for that member. *)
  Theorem gcxs_stack_member_is_reshape_proof (g : gcxs V) (k : nat) :
    gcxs_strictb V g = true -> (2 <= length (g_shape g))%nat -> (k <= length (g_shape g))%nat ->
    exists r,
      gcxs_reshape veqb add g (ins k 1 (g_shape g)) = Some (Ok r) /\
      change_compressed_axes V [Z.of_nat k] r = gcxs_from_coo (gcxs_expand V veqb add k g) [Z.of_nat k].
  Proof.
    intros H Hnd Hk.
    destruct (strict_form V veqb add g H) as [Hc [Hsh [Hf [Hok [Hax Heq]]]]].
    set (c := gcxs_tocoo veqb add g) in *.
    assert (Hk' : (k <= length (c_shape c))%nat) by (rewrite Hsh; exact Hk).
    pose proof (coo_reshape_ins V c k Hc Hok Hk') as Hre. rewrite Hsh in Hre.
    destruct (proj1 (gcxs_reshape_repr_proof V veqb add c (g_caxes g) (ins k 1 (g_shape g)) Hc Hok Hax) _ Hre)
      as [ca' [Hg Hax']].
    rewrite Heq in Hg.
    exists (gcxs_from_coo (coo_expand V k c) ca'). split; [exact Hg|].
    assert (Hlen : length (c_shape (coo_expand V k c)) = S (length (g_shape g))).
    { unfold coo_expand. cbn [c_shape]. rewrite Hsh. apply ins_length. exact Hk. }
    destruct Hax' as [Hlt|Hca']; [rewrite Hlen in Hlt; lia|].
    destruct (reshape_canonical_proof V veqb c Hc Hok _ _ (eq_trans (f_equal (coo_reshape c) (eq_sym (f_equal (ins k 1) Hsh))) 
               (coo_reshape_ins V c k Hc Hok Hk'))) as [Hc' _].
    unfold change_compressed_axes, gcxs_expand. fold c.
    apply change_axes_from_coo_nd.
    - exact Hc'.
    - unfold coo_expand. cbn [c_shape]. apply shape_ok_ins; [lia|exact Hok].
    - exact Hca'.
    - rewrite Hlen. apply caxes_okb_single; lia.
    - rewrite Hlen. lia.
  Qed.
End StackMember.

(* non-vacuity: a 2x3 CSR-like record, a new axis in the middle *)
Example stack_member_example :
  let g := mkGCXS [2; 3] [0] [5; 7; 9] [0; 2; 1] [0; 2; 3] 0 in
  gcxs_strictb Z g = true /\
  option_map (fun r => match r with Ok r' => g_shape (change_compressed_axes Z [1] r') | Raise _ => [] end)
             (gcxs_reshape Z.eqb Z.add g (ins 1 1 (g_shape g))) = Some [2; 1; 3].
Proof. vm_compute. split; reflexivity. Qed.
