(* Proofs/SortSearchDenseP.v — the pointwise (den-level) wrapper theorems of Proofs/SortSearchNdP.v lifted to
   equality with the EXECUTABLE dense-array functions of Spec/NpSort.v that the judge evaluates:
   res_dense (ss_sort x axis desc) = np_sort_axis (todense x) axis desc, and the same for argmax/argmin
   (every axis argument: None, valid, out of range; empty reduced axes included).
   Uses agent-c19's Proofs/ShapeNth.v (position of an index tuple inside all_indices). *)
From Coq Require Import ZArith List Bool Lia Sorting.Sorted Sorting.Permutation.
From Verif Require Import Py Shape COO COOP ShapeNth NpSort SortSearch SortSearchP SortSearchNdP.
Import ListNotations.
Open Scope Z_scope.

Definition res_dense (r : res (coo Z)) : res (dense Z) :=
  match r with Ok c => Ok (todense c) | Raise e => Raise e end.

Lemma dget_todense (x : coo Z) ix :
  shape_ok (c_shape x) -> in_range (c_shape x) ix -> dget (todense x) ix = den x ix.
Proof.
  intros Hok Hr. unfold dget, todense, tabulate. cbn [d_shape d_flat].
  pose proof (ravel_bounds _ _ Hr) as Hb.
  rewrite (nth_indep _ 0 (den x [])).
  - rewrite (map_nth (den x)). rewrite (all_indices_nth (c_shape x) ix [] Hok Hr). reflexivity.
  - rewrite map_length, (ShapeNth.all_indices_length _ Hok). lia.
Qed.

Lemma in_range_set_at sh ix a k :
  in_range sh ix -> (a < length sh)%nat -> 0 <= k < nth a sh 0 -> in_range sh (set_at ix a k).
Proof.
  intros Hr Ha Hk. rewrite set_at_ins by (rewrite (in_range_length _ _ Hr); exact Ha).
  rewrite <- (ins_mvl a sh Ha). apply in_range_ins; [apply in_range_remove; assumption|assumption].
Qed.

Lemma line_todense (x : coo Z) a ix :
  shape_ok (c_shape x) -> in_range (c_shape x) ix -> (a < length (c_shape x))%nat ->
  line (todense x) a ix = line_f (den x) (c_shape x) a ix.
Proof.
  intros Hok Hr Ha. unfold line, line_f. cbn [todense d_shape]. apply map_ext_in. intros k Hk.
  apply zrange_In in Hk. apply dget_todense; [assumption|]. apply in_range_set_at; assumption.
Qed.

(* ================================================================== sort *)

Theorem sort_dense_proof (x : coo Z) (axis : Z) (desc : bool) :
  canonical Z x -> shape_ok (c_shape x) -> (1 <= length (c_shape x))%nat ->
  res_dense (ss_sort x axis desc) = np_sort_axis (todense x) axis desc.
Proof.
  intros Hc Hok Hnd. unfold np_sort_axis. cbn [todense d_shape].
  change (Z.of_nat (length (c_shape x))) with (ndimZ x).
  destruct (NpSort.norm_axis (ndimZ x) axis) as [a|] eqn:Hn.
  - destruct (sort_nd_proof x axis desc a Hc Hok Hnd Hn) as [y [Ey [Hsh [Hfl [Hcy Hden]]]]].
    rewrite Ey. cbn [res_dense]. f_equal. unfold todense, tabulate. rewrite Hsh. f_equal.
    apply map_ext_in. intros ix Hix. apply all_indices_In in Hix.
    rewrite (Hden ix Hix). f_equal. f_equal. symmetry.
    apply (line_todense x a ix Hok Hix). apply (norm_axis_Some _ axis). exact Hn.
  - unfold ss_sort. rewrite Hn. reflexivity.
Qed.

(* ================================================================== argmax / argmin *)

Lemma replace_nth_ins (sh : shape) a v : (a < length sh)%nat -> replace_nth sh a v = ins a v (remove_nth sh a).
Proof. intros Ha. apply (set_at_ins sh a v Ha). Qed.

Lemma map_const_ones (l : list Z) : map (fun _ => 1) l = ones (length l).
Proof. induction l as [|a l IH]; [reflexivity|]. cbn [map length]. rewrite ones_S, IH. reflexivity. Qed.

Lemma all_indices_ones n : all_indices (ones n) = [zeros n].
Proof.
  induction n as [|n IH]; [reflexivity|]. rewrite ones_S. cbn [all_indices]. rewrite IH. reflexivity.
Qed.

(* inserting an axis of extent 1 at position a: the enumeration gets a 0 inserted at a *)
Lemma all_indices_ins1 (a : nat) (rs : shape) :
  (a <= length rs)%nat -> all_indices (ins a 1 rs) = map (ins a 0) (all_indices rs).
Proof.
  revert rs. induction a as [|a IH]; intros rs Ha.
  - unfold ins. cbn [firstn skipn app all_indices]. change (zrange 1) with [0]. cbn [flat_map]. apply app_nil_r.
  - destruct rs as [|d rs]; [cbn in Ha; lia|]. cbn [length] in Ha.
    change (ins (S a) 1 (d :: rs)) with (d :: ins a 1 rs). cbn [all_indices]. rewrite IH by lia.
    induction (zrange d) as [|i l IHl]; [reflexivity|]. cbn [flat_map]. rewrite map_app.
    f_equal; [rewrite !map_map; reflexivity|exact IHl].
Qed.

Lemma all_indices_unravel sh : shape_ok sh -> all_indices sh = map (unravel sh) (zrange (size sh)).
Proof.
  intros Hok. pose proof (ShapeNth.all_indices_length _ Hok) as HL. apply (nth_ext _ _ [] (unravel sh 0)).
  - transitivity (Z.to_nat (size sh)); [exact HL|].
    unfold zrange. rewrite !map_length, seq_length. reflexivity.
  - intros k Hk. assert (Hk' : (k < Z.to_nat (size sh))%nat) by (rewrite <- HL; exact Hk).
    pose proof (size_nonneg _ Hok).
    rewrite (nth_indep (map _ _) _ (unravel sh (Z.of_nat 0)))
      by (unfold zrange; rewrite !map_length, seq_length; assumption).
    unfold zrange. rewrite map_map. rewrite (map_nth (fun q => unravel sh (Z.of_nat q))). rewrite seq_nth by assumption.
    cbn [Nat.add]. rewrite <- (all_indices_nth_unravel sh (Z.of_nat k) [] Hok) by lia. rewrite Nat2Z.id. reflexivity.
Qed.

(* the dense line along axis a through the position with the other coordinates o *)
Lemma line_ins (x : coo Z) (a : nat) (o : idx) (j : Z) :
  shape_ok (c_shape x) -> (a < length (c_shape x))%nat ->
  in_range (remove_nth (c_shape x) a) o -> 0 <= j < nth a (c_shape x) 0 ->
  line (todense x) a (ins a j o) = map (fun i => den x (ins a i o)) (zrange (nth a (c_shape x) 0)).
Proof.
  intros Hok Ha Ho Hj.
  assert (Hlo : (a <= length o)%nat).
  { rewrite (in_range_length _ _ Ho), remove_nth_length by assumption. lia. }
  assert (Hr : in_range (c_shape x) (ins a j o)).
  { rewrite <- (ins_mvl a (c_shape x) Ha). apply in_range_ins; assumption. }
  rewrite (line_todense x a _ Hok Hr Ha). unfold line_f. apply map_ext. intros i.
  rewrite set_at_ins by (rewrite (in_range_length _ _ Hr); exact Ha).
  destruct (remove_nth_ins a j o Hlo) as [R1 _]. rewrite R1. reflexivity.
Qed.

Lemma in_range_ins_inv (rs : shape) a (ix : idx) :
  (a <= length rs)%nat -> in_range (ins a 1 rs) ix ->
  exists o, ix = ins a 0 o /\ in_range rs o.
Proof.
  intros Ha Hr. exists (remove_nth ix a).
  assert (Hl : length (ins a 1 rs) = S (length rs)).
  { unfold ins. rewrite app_length, firstn_length_le by lia. cbn [length]. rewrite skipn_length. lia. }
  assert (Ha' : (a < length (ins a 1 rs))%nat) by lia.
  pose proof (in_range_nth_bound _ _ a Hr Ha') as Hb.
  destruct (remove_nth_ins a 1 rs Ha) as [R1 R2]. rewrite R2 in Hb.
  split.
  - rewrite <- (ins_mvl a ix) at 1 by (rewrite (in_range_length _ _ Hr); exact Ha'). f_equal. lia.
  - rewrite <- R1. apply in_range_remove. assumption.
Qed.

Theorem argminmax_dense_proof (maxm kd : bool) (x : coo Z) (axis : option Z) :
  canonical Z x -> shape_ok (c_shape x) -> (1 <= length (c_shape x))%nat ->
  res_dense (ss_argminmax maxm x axis kd) = np_argbest_axis maxm (todense x) axis kd.
Proof.
  intros Hc Hok Hnd. unfold np_argbest_axis. cbn [todense d_shape d_flat].
  destruct (argminmax_empty_rejected_proof maxm kd x Hnd) as [Hrej0 Hrej1].
  destruct axis as [axis|].
  - (* an axis *)
    change (Z.of_nat (length (c_shape x))) with (ndimZ x).
    destruct (NpSort.norm_axis (ndimZ x) axis) as [a|] eqn:Hn.
    + assert (Ha : (a < length (c_shape x))%nat) by (apply (norm_axis_Some _ axis); exact Hn).
      destruct (Z.eqb_spec (nth a (c_shape x) 0) 0) as [E0|E0].
      { rewrite (Hrej1 axis a Hn E0). reflexivity. }
      assert (HN : 0 < nth a (c_shape x) 0) by (pose proof (shape_ok_nth _ a Hok); lia).
      destruct (Nat.le_gt_cases 2 (length (c_shape x))) as [H2|H1].
      * destruct (argminmax_nd_ge2_proof maxm kd x axis a Hc Hok H2 Hn HN) as [z [Ez [Hsh [Hcz Hden]]]].
        cbv zeta in Hsh, Hden. rewrite Ez. cbn [res_dense]. f_equal.
        set (rs := remove_nth (c_shape x) a) in *.
        assert (Hlrs : (a <= length rs)%nat) by (unfold rs; rewrite remove_nth_length by assumption; lia).
        rewrite (replace_nth_ins _ a 1 Ha). fold rs.
        unfold todense, tabulate. rewrite Hsh.
        destruct kd.
        -- f_equal. apply map_ext_in. intros ix Hix. apply all_indices_In in Hix.
           destruct (in_range_ins_inv rs a ix Hlrs Hix) as [o [-> Ho]].
           rewrite (Hden o Ho). f_equal. symmetry. apply line_ins; try assumption. lia.
        -- f_equal. rewrite (all_indices_ins1 a rs Hlrs), map_map. apply map_ext_in. intros o Ho.
           apply all_indices_In in Ho. rewrite (Hden o Ho). f_equal. symmetry. apply line_ins; try assumption. lia.
      * (* 1-d *)
        destruct x as [sh cs data fill]. cbn [c_shape] in *.
        destruct sh as [|n [|d2 t]]; cbn [length] in *; try lia.
        assert (Ha0 : a = 0%nat) by lia. subst a. cbn [nth] in HN, E0.
        assert (Hax : axis = 0 \/ axis = -1).
        { unfold NpSort.norm_axis, ndimZ, zlen in Hn. cbn [c_shape length] in Hn.
          destruct (Z.leb_spec (- Z.of_nat 1) axis); [|discriminate].
          destruct (Z.ltb_spec axis (Z.of_nat 1)); [|discriminate]. lia. }
        destruct (argminmax_1d_proof maxm kd n axis cs data fill Hax HN Hc) as [z [Ez [Hsh [Hcz Hden]]]].
        rewrite Ez. cbn [res_dense]. f_equal. unfold todense, tabulate. rewrite Hsh.
        change (replace_nth [n] 0 1) with [1]. change (remove_nth [n] 0) with (@nil Z).
        change (all_indices [1]) with [[0]]. cbn [map].
        assert (Hline : line (todense (mkCOO [n] cs data fill)) 0 [0] = flat1 (mkCOO [n] cs data fill) n).
        { unfold line, flat1. cbn [todense d_shape nth]. apply map_ext_in. intros k Hk. apply zrange_In in Hk.
          change (set_at [0] 0 k) with [k]. apply dget_todense; [assumption|]. cbn. tauto. }
        unfold todense, tabulate in Hline. rewrite Hline, <- Hden. destruct kd; reflexivity.
    + (* axis out of range *)
      unfold ss_argminmax. destruct (ndimZ x <=? axis); [reflexivity|].
      destruct (ndimZ x =? 0); [reflexivity|]. rewrite Hn. reflexivity.
  - (* axis=None *)
    destruct (Z.eqb_spec (size (c_shape x)) 0) as [E0|E0].
    { rewrite (Hrej0 E0). reflexivity. }
    assert (HS : 0 < size (c_shape x)) by (pose proof (size_nonneg _ Hok); lia).
    destruct (argminmax_none_proof maxm kd x Hc Hok Hnd HS) as [z [Ez [Hsh [Hcz Hden]]]].
    cbv zeta in Hsh, Hden. rewrite Ez. cbn [res_dense]. f_equal. unfold todense, tabulate. rewrite Hsh.
    rewrite map_const_ones.
    assert (Hflat : map (den x) (all_indices (c_shape x))
                    = map (fun i => den x (unravel (c_shape x) i)) (zrange (size (c_shape x)))).
    { rewrite (all_indices_unravel _ Hok), map_map. reflexivity. }
    rewrite Hflat, <- Hden. destruct kd.
    + rewrite all_indices_ones. reflexivity.
    + reflexivity.
Qed.
