(* Proofs/ConvertU.v — C05, part 4: every well-formed GCXS is the compressed form of a canonical COO
   (gcxs_from_coo (gcxs_tocoo g) = g), hence: the well-formed pruned GCXS record with given compressed
   axes is unique, and change_compressed_axes preserves meaning and well-formedness of ARBITRARY
   well-formed GCXS arrays. *)
From Coq Require Import ZArith List Bool Lia Sorting.Sorted Sorting.Permutation.
From Verif Require Import Py Shape COO GCXS COOP S_convert Convert ConvertL ConvertM ConvertG ConvertP.
Import ListNotations.
Open Scope Z_scope.

(* ------------------------------------------------------------------ an index pointer is the running sum of its differences *)
Fixpoint diffs (l : list Z) : list Z :=
  match l with a :: ((b :: _) as t) => (b - a) :: diffs t | _ => [] end.

Lemma cumsum_diffs t : forall a, a :: cumsum_from a (diffs (a :: t)) = a :: t.
Proof.
  induction t as [|b t IH]; intros a; [reflexivity|].
  change (diffs (a :: b :: t)) with ((b - a) :: diffs (b :: t)). simpl cumsum_from.
  replace (a + (b - a)) with b by lia. f_equal. apply IH.
Qed.

Lemma diffs_length t : forall a, length (diffs (a :: t)) = length t.
Proof. induction t as [|b t IH]; intros a; [reflexivity|]. change (diffs (a :: b :: t)) with ((b - a) :: diffs (b :: t)). simpl. f_equal. apply IH. Qed.

Lemma diffs_nonneg l : StronglySorted Z.le l -> Forall (fun x => 0 <= x) (diffs l).
Proof.
  induction 1 as [|a l Hs IH Hall]; [constructor|]. destruct l as [|b t]; [constructor|].
  change (diffs (a :: b :: t)) with ((b - a) :: diffs (b :: t)). constructor; [|exact IH].
  inversion Hall; subst. lia.
Qed.

(* the row numbers an index pointer with differences ds stands for *)
Definition rowsL (lo : nat) (ds : list Z) : list Z :=
  flat_map (fun p => repeat (fst p) (Z.to_nat (snd p))) (combine (zr lo (length ds)) ds).

Lemma rowsL_cons lo d ds : rowsL lo (d :: ds) = repeat (Z.of_nat lo) (Z.to_nat d) ++ rowsL (S lo) ds.
Proof. reflexivity. Qed.

Lemma row_numbers_go_cumsum ds : forall lo a,
  row_numbers_go (Z.of_nat lo) (a :: cumsum_from a ds) = rowsL lo ds.
Proof.
  induction ds as [|d ds IH]; intros lo a; [reflexivity|].
  rewrite rowsL_cons. simpl cumsum_from.
  change (row_numbers_go (Z.of_nat lo) (a :: (a + d) :: cumsum_from (a + d) ds))
    with (repeat (Z.of_nat lo) (Z.to_nat (a + d - a)) ++ row_numbers_go (Z.of_nat lo + 1) ((a + d) :: cumsum_from (a + d) ds)).
  replace (a + d - a) with d by lia. replace (Z.of_nat lo + 1) with (Z.of_nat (S lo)) by lia.
  rewrite IH. reflexivity.
Qed.

Lemma rowsL_range ds : forall lo x, In x (rowsL lo ds) -> Z.of_nat lo <= x < Z.of_nat lo + Z.of_nat (length ds).
Proof.
  induction ds as [|d ds IH]; intros lo x H; [destruct H|].
  rewrite rowsL_cons in H. apply in_app_or in H. simpl length. destruct H as [H|H].
  - apply repeat_spec in H. lia.
  - apply IH in H. lia.
Qed.

Lemma rowsL_sorted ds : forall lo, StronglySorted Z.le (rowsL lo ds).
Proof.
  induction ds as [|d ds IH]; intros lo; [constructor|]. rewrite rowsL_cons.
  apply SS_app; [|apply IH|].
  - induction (Z.to_nat d); simpl; constructor; auto. apply Forall_forall. intros x Hx. apply repeat_spec in Hx. lia.
  - intros a b Ha Hb. apply repeat_spec in Ha. apply rowsL_range in Hb. lia.
Qed.

Lemma rowsL_length ds : forall lo, Forall (fun x => 0 <= x) ds -> Z.of_nat (length (rowsL lo ds)) = zsum ds.
Proof.
  induction ds as [|d ds IH]; intros lo H; [reflexivity|]. inversion H; subst.
  rewrite rowsL_cons, app_length, repeat_length, Nat2Z.inj_add, IH by assumption. simpl. lia.
Qed.

Lemma count_z_app l1 l2 r : count_z (l1 ++ l2) r = count_z l1 r + count_z l2 r.
Proof. unfold count_z. rewrite filter_app, app_length. lia. Qed.

Lemma count_z_repeat x k r : count_z (repeat x k) r = if r =? x then Z.of_nat k else 0.
Proof.
  unfold count_z. induction k as [|k IH]; simpl; [destruct (r =? x); reflexivity|].
  destruct (Z.eqb_spec r x); simpl in *; lia.
Qed.

Lemma count_z_absent l r : ~ In r l -> count_z l r = 0.
Proof.
  unfold count_z. induction l as [|x l IH]; simpl; intros H; [reflexivity|].
  destruct (Z.eqb_spec r x); [subst; tauto|]. apply IH. tauto.
Qed.

Lemma bincount_rowsL ds : forall lo, Forall (fun x => 0 <= x) ds ->
  map (count_z (rowsL lo ds)) (zr lo (length ds)) = ds.
Proof.
  induction ds as [|d ds IH]; intros lo H; [reflexivity|]. inversion H; subst.
  simpl length. rewrite zr_S. simpl map. rewrite rowsL_cons. f_equal.
  - rewrite count_z_app, count_z_repeat, Z.eqb_refl.
    rewrite count_z_absent; [lia|]. intros Hin. apply rowsL_range in Hin. lia.
  - transitivity (map (count_z (rowsL (S lo) ds)) (zr (S lo) (length ds))); [|apply IH; assumption].
    apply map_ext_in. intros r Hr. apply zr_In in Hr.
    rewrite count_z_app, count_z_repeat. destruct (Z.eqb_spec r (Z.of_nat lo)); lia.
Qed.

Lemma combine_app' {A B} (l1 l2 : list A) (m1 m2 : list B) :
  length l1 = length m1 -> combine (l1 ++ l2) (m1 ++ m2) = combine l1 m1 ++ combine l2 m2.
Proof.
  revert m1; induction l1 as [|a l1 IH]; intros [|b m1] H; simpl in *; try discriminate; [reflexivity|].
  f_equal. apply IH. lia.
Qed.

Lemma SS_same_row_lex r cols :
  StronglySorted Z.lt cols -> StronglySorted lexlt2 (combine (repeat r (length cols)) cols).
Proof.
  induction 1 as [|c cols Hs IH Hall]; simpl; constructor; [exact IH|].
  apply Forall_forall. intros [r' x] Hx. pose proof (in_combine_l _ _ _ _ Hx) as H1. pose proof (in_combine_r _ _ _ _ Hx) as H2.
  apply repeat_spec in H1. subst. rewrite Forall_forall in Hall. specialize (Hall _ H2).
  right. simpl. lia.
Qed.

(* rows strictly increasing inside every row  ==>  (row, column) pairs strictly increasing *)
Lemma rows_of_lex ds : forall lo (pre l : list Z),
  Forall (fun x => 0 <= x) ds -> Z.of_nat (length l) = zsum ds ->
  forallb strictly_increasing (rows_of (pre ++ l) (Z.of_nat (length pre) :: cumsum_from (Z.of_nat (length pre)) ds)) = true ->
  StronglySorted lexlt2 (combine (rowsL lo ds) l).
Proof.
  induction ds as [|d ds IH]; intros lo pre l Hds Hlen Hrows; [constructor|].
  inversion Hds as [|? ? Hd Hds']; subst. simpl in Hlen. pose proof (zsum_nonneg ds Hds') as Hz.
  simpl cumsum_from in Hrows. rewrite rows_of_cons in Hrows. simpl forallb in Hrows.
  apply andb_true_iff in Hrows. destruct Hrows as [Hfirst Hrest].
  rewrite slice_list_app in Hfirst by assumption.
  set (k := Z.to_nat d) in *.
  assert (Hk : (k <= length l)%nat) by (unfold k; lia).
  rewrite rowsL_cons. fold k. rewrite <- (firstn_skipn k l) at 1.
  rewrite combine_app' by (rewrite repeat_length, firstn_length_le; auto).
  apply SS_app.
  - replace k with (length (firstn k l)) at 1 by (apply firstn_length_le; exact Hk).
    apply SS_same_row_lex. apply strictly_increasing_SS. exact Hfirst.
  - apply (IH (S lo) (pre ++ firstn k l) (skipn k l)); [assumption| |].
    + rewrite skipn_length. unfold k. lia.
    + rewrite <- app_assoc, firstn_skipn.
      replace (Z.of_nat (length (pre ++ firstn k l))) with (Z.of_nat (length pre) + d)
        by (rewrite app_length, firstn_length_le by exact Hk; unfold k; lia).
      exact Hrest.
  - intros [r1 c1] [r2 c2] H1 H2. apply in_combine_l in H1. apply in_combine_l in H2.
    apply repeat_spec in H1. apply rowsL_range in H2. left. simpl. lia.
Qed.

(* ------------------------------------------------------------------ the other inverse of an axis permutation *)
Lemma index_of_nth ord : forall k, NoDup ord -> (k < length ord)%nat -> index_of (nth k ord 0) ord = Z.of_nat k.
Proof.
  induction ord as [|x r IH]; intros k Hnd Hk; [simpl in Hk; lia|].
  inversion Hnd as [|? ? Hx Hnd']; subst. destruct k as [|k]; simpl.
  - rewrite Z.eqb_refl. reflexivity.
  - simpl in Hk. destruct (Z.eqb_spec x (nth k r 0)) as [E|E].
    + exfalso. apply Hx. rewrite E. apply nth_In. lia.
    + rewrite IH by (auto; lia). lia.
Qed.

Lemma znth_map_zrange {A} (f : Z -> A) n a d : 0 <= a < n -> znth (map f (zrange n)) a d = f a.
Proof.
  intros Ha. unfold znth, zrange. rewrite map_map.
  rewrite (nth_indep _ d (f (Z.of_nat 0))) by (rewrite map_length, seq_length; lia).
  rewrite (map_nth (fun k => f (Z.of_nat k)) (seq 0 (Z.to_nat n)) 0%nat).
  rewrite seq_nth by lia. simpl. f_equal. lia.
Qed.

Lemma map_via_positions {A} (f : Z -> A) ord :
  map f ord = map (fun k => f (nth k ord 0)) (seq 0 (length ord)).
Proof. rewrite <- (map_map (fun k => nth k ord 0) f), map_nth_seq. reflexivity. Qed.

Lemma gather_perm_inv n ord t :
  perm_of n ord -> length t = n -> gather (gather t (inv_perm ord)) ord = t.
Proof.
  intros Hp Hl. pose proof (perm_of_length n ord Hp) as Hlen.
  assert (Hnd : NoDup ord) by (eapply Permutation_NoDup; [apply Permutation_sym; exact Hp|apply zrange_NoDup]).
  unfold gather at 1. rewrite map_via_positions.
  transitivity (map (fun k => nth k t 0) (seq 0 (length t))); [|apply map_nth_seq].
  rewrite Hlen, Hl.
  apply map_ext_in. intros k Hk. apply in_seq in Hk.
  unfold gather, inv_perm. rewrite Hlen, map_map.
  rewrite znth_map_zrange.
  - rewrite index_of_nth by (auto; lia). unfold znth. rewrite Nat2Z.id. reflexivity.
  - apply (perm_of_range n ord); [exact Hp|]. apply nth_In. lia.
Qed.

Section KeysInv.
  Variable sh : shape.
  Variable ca : list Z.
  Hypothesis Hok : shape_ok sh.
  Hypothesis Hca : caxes_okb (Z.of_nat (length sh)) ca = true.

  Let ord := axis_order (Z.of_nat (length sh)) ca.
  Let rsh := reordered_shape sh ca.

  Lemma unravel_rsh_facts l :
    0 <= l < row_size sh ca * col_size sh ca ->
    in_range rsh (unravel rsh l) /\ length (unravel rsh l) = length sh.
  Proof.
    intros Hl. assert (Hr : in_range rsh (unravel rsh l)).
    { apply unravel_in_range; [apply rsh_ok; exact Hok|]. unfold rsh. rewrite size_rsh. exact Hl. }
    split; [exact Hr|]. rewrite (in_range_length _ _ Hr). apply rsh_length. exact Hca.
  Qed.

  Lemma unkey_in_range l : 0 <= l < row_size sh ca * col_size sh ca -> in_range sh (unkey sh ca l).
  Proof.
    intros Hl. destruct (unravel_rsh_facts l Hl) as [Hr Hlen].
    unfold unkey. fold ord rsh.
    rewrite <- (gather_inv_unpermute (length sh)) by (try apply ord_perm; assumption).
    assert (Hsh : gather rsh (inv_perm ord) = sh).
    { unfold rsh. rewrite reordered_shape_gather. fold ord. apply (gather_inv_perm (length sh)); [apply ord_perm; exact Hca|reflexivity]. }
    rewrite <- Hsh at 1. apply gather_in_range; [exact Hr|].
    intros a Ha. unfold inv_perm in Ha. apply in_map_iff in Ha. destruct Ha as [b [<- Hb]].
    apply zrange_In in Hb. pose proof (ord_perm sh ca Hca) as Hp. fold ord in Hp.
    rewrite (perm_of_length _ _ Hp) in Hb.
    assert (Hin : In b ord) by (eapply Permutation_in; [apply Permutation_sym; exact Hp|apply zrange_In; exact Hb]).
    split; [apply index_of_nonneg|].
    pose proof (rsh_length sh ca Hca) as HL. fold rsh in HL. rewrite HL. rewrite <- (perm_of_length _ _ Hp).
    (* the position of b in ord is below its length *)
    clear -Hin. induction ord as [|x r IH]; simpl in *; [tauto|].
    destruct (Z.eqb_spec x b); [lia|]. destruct Hin as [?|Hin]; [congruence|]. specialize (IH Hin). lia.
  Qed.

  Lemma ckey_unkey l : 0 <= l < row_size sh ca * col_size sh ca -> ckey sh ca (unkey sh ca l) = l.
  Proof.
    intros Hl. destruct (unravel_rsh_facts l Hl) as [Hr Hlen].
    unfold ckey, unkey. fold ord rsh.
    rewrite <- (gather_inv_unpermute (length sh)) by (try apply ord_perm; assumption).
    rewrite (gather_perm_inv (length sh)) by (try apply ord_perm; assumption).
    apply ravel_unravel; [apply rsh_ok; exact Hok|]. unfold rsh. rewrite size_rsh. exact Hl.
  Qed.
End KeysInv.

(* ------------------------------------------------------------------ what gcxs_wfb says (ndim >= 2) *)
Section Surj.
  Variable V : Type.
  Variable veqb : V -> V -> bool.
  Variable add : V -> V -> V.
  Hypothesis veqb_eq : forall a b, veqb a b = true <-> a = b.

  Notation entry := (idx * V)%type.

  Lemma gcxs_wfb_nd_elim sh ca (data : list V) indices indptr fill :
    (2 <= length sh)%nat -> gcxs_wfb (mkGCXS sh ca data indices indptr fill) = true ->
    shape_ok sh /\ length indices = length data /\ caxes_okb (Z.of_nat (length sh)) ca = true
    /\ Z.of_nat (length indptr) = row_size sh ca + 1 /\ znth indptr 0 (-1) = 0
    /\ znth indptr (row_size sh ca) (-1) = Z.of_nat (length data)
    /\ StronglySorted Z.le indptr
    /\ Forall (fun i => 0 <= i < col_size sh ca) indices
    /\ forallb strictly_increasing (rows_of indices indptr) = true.
  Proof.
    intros Hnd H. unfold gcxs_wfb in H. cbn [g_shape g_caxes g_data g_indices g_indptr] in H.
    destruct sh as [|d1 [|d2 t]] eqn:E; [simpl in Hnd; lia|simpl in Hnd; lia|]. rewrite <- E in *.
    rewrite !andb_true_iff in H.
    destruct H as [H0 [[[[[[[[[[H1 H2] H3] H4] H5] H6] H7] H8] H9] H10] H11]].
    repeat split.
    - apply shape_okb_spec. exact H0.
    - apply Nat.eqb_eq. exact H1.
    - unfold caxes_okb. rewrite !andb_true_iff. repeat split; auto.
    - apply Z.eqb_eq. exact H6.
    - apply Z.eqb_eq. exact H7.
    - apply Z.eqb_eq. exact H8.
    - apply nondecreasing_SS. exact H9.
    - apply Forall_forall. intros i Hi. rewrite forallb_forall in H10. specialize (H10 _ Hi).
      apply andb_true_iff in H10. destruct H10 as [A B]. apply Z.leb_le in A. apply Z.ltb_lt in B. lia.
    - exact H11.
  Qed.

  Lemma keys_lt_lex sh (es : list entry) :
    StronglySorted Z.lt (keys_of sh es) -> Forall (in_range sh) (map fst es) -> StronglySorted lex_lt (map fst es).
  Proof.
    induction es as [|[c v] r IH]; intros Hs Hr; [constructor|].
    rewrite keys_of_cons in Hs. simpl in *. inversion Hs as [|? ? Hs' Hall]; subst.
    inversion Hr as [|? ? Hc Hr']; subst. constructor; [apply IH; assumption|].
    apply Forall_forall. intros x Hx. rewrite Forall_forall in Hall, Hr'.
    apply (ravel_lex sh); auto. apply Hall. unfold keys_of.
    apply in_map_iff in Hx. destruct Hx as [kv [<- Hkv]]. apply in_map_iff. exists kv. auto.
  Qed.

  Section Nd.
    Variable sh : shape.
    Variable ca : list Z.
    Variable data : list V.
    Variable indices indptr : list Z.
    Variable fill : V.
    Hypothesis Hnd : (2 <= length sh)%nat.
    Hypothesis Hwf : gcxs_wfb (mkGCXS sh ca data indices indptr fill) = true.

    Let rs := row_size sh ca.
    Let cs := col_size sh ca.
    Let rows := row_numbers indptr.
    Let lin := map (fun rc : Z * Z => fst rc * cs + snd rc) (combine rows indices).
    Let L := combine lin data.
    Let E : list entry := map (fun p : Z * V => (unkey sh ca (fst p), snd p)) L.
    Let S := sort_indices sh E.
    Definition witness : coo V := coo_of_entries sh S fill.

    Let W := gcxs_wfb_nd_elim sh ca data indices indptr fill Hnd Hwf.

    Lemma Hok : shape_ok sh. Proof. apply W. Qed.
    Lemma Hca : caxes_okb (Z.of_nat (length sh)) ca = true. Proof. apply W. Qed.
    Lemma Hlen_id : length indices = length data. Proof. apply W. Qed.
    Lemma Hcols : Forall (fun i => 0 <= i < cs) indices. Proof. apply W. Qed.

    Lemma rs_nn : 0 <= rs. Proof. apply row_size_nonneg, Hok. Qed.

    (* the pointer is the running sum of the row lengths *)
    Lemma indptr_form : indptr = 0 :: cumsum_from 0 (diffs indptr)
                        /\ length (diffs indptr) = Z.to_nat rs /\ Forall (fun x => 0 <= x) (diffs indptr)
                        /\ zsum (diffs indptr) = Z.of_nat (length data).
    Proof.
      destruct W as [_ [_ [_ [Hl [H0 [Hlast [Hs _]]]]]]]. fold rs in Hl, Hlast.
      pose proof rs_nn as Hr.
      destruct indptr as [|a t] eqn:Ei; [simpl in Hl; lia|].
      assert (a = 0) by (unfold znth in H0; simpl in H0; exact H0). subst a.
      assert (Hlt : length t = Z.to_nat rs) by (simpl in Hl; lia).
      split; [symmetry; apply cumsum_diffs|]. split; [rewrite diffs_length; exact Hlt|].
      split; [apply diffs_nonneg; exact Hs|].
      pose proof (cumsum_last (diffs (0 :: t)) 0 (-1)) as Hc. rewrite cumsum_diffs, diffs_length in Hc.
      unfold znth in Hlast. rewrite <- Hlt in Hlast. rewrite Hlast in Hc. lia.
    Qed.

    Lemma rows_form : rows = rowsL 0 (diffs indptr).
    Proof.
      destruct indptr_form as [Hf _]. unfold rows. rewrite row_numbers_eq. rewrite Hf at 1.
      apply (row_numbers_go_cumsum (diffs indptr) 0%nat 0).
    Qed.

    Lemma rows_len : length rows = length data.
    Proof.
      destruct indptr_form as [_ [_ [Hn Hz]]]. rewrite rows_form.
      pose proof (rowsL_length (diffs indptr) 0%nat Hn). lia.
    Qed.

    Lemma rows_rng : Forall (fun r => 0 <= r < rs) rows.
    Proof.
      destruct indptr_form as [_ [Hl _]]. rewrite rows_form. apply Forall_forall. intros x Hx.
      apply rowsL_range in Hx. pose proof rs_nn. lia.
    Qed.

    Lemma rows_idx_lex : StronglySorted lexlt2 (combine rows indices).
    Proof.
      destruct indptr_form as [Hf [_ [Hn Hz]]]. rewrite rows_form.
      apply (rows_of_lex (diffs indptr) 0%nat [] indices); [exact Hn|rewrite Hlen_id; lia|].
      simpl app. simpl length. change (Z.of_nat 0) with 0. rewrite <- Hf. apply W.
    Qed.

    Lemma pair_facts rc : In rc (combine rows indices) ->
      0 <= fst rc < rs /\ 0 <= snd rc < cs /\ 0 <= fst rc * cs + snd rc < rs * cs.
    Proof.
      destruct rc as [r0 c0]. intros H. pose proof (in_combine_l _ _ _ _ H) as H1. pose proof (in_combine_r _ _ _ _ H) as H2.
      pose proof rows_rng as Hr. pose proof Hcols as Hc. rewrite Forall_forall in Hr, Hc.
      specialize (Hr _ H1). specialize (Hc _ H2). simpl in *. repeat split; try lia; nia.
    Qed.

    Lemma lin_lt : StronglySorted Z.lt lin.
    Proof.
      unfold lin. eapply SS_map_mono; [|apply rows_idx_lex].
      intros a b Ha Hb Hab. destruct (pair_facts a Ha) as [A1 [A2 _]]. destruct (pair_facts b Hb) as [B1 [B2 _]].
      unfold lexlt2 in Hab. nia.
    Qed.

    Lemma lin_rng l : In l lin -> 0 <= l < rs * cs.
    Proof. unfold lin. intros H. apply in_map_iff in H. destruct H as [rc [<- Hrc]]. apply pair_facts. exact Hrc. Qed.

    Lemma lin_len : length lin = length data.
    Proof. unfold lin. rewrite map_length, combine_length, rows_len, Hlen_id. lia. Qed.

    Lemma L_keys : map fst L = lin. Proof. unfold L. apply map_fst_combine. apply lin_len. Qed.
    Lemma L_data : map snd L = data. Proof. unfold L. apply map_snd_combine. apply lin_len. Qed.

    Lemma L_rng p : In p L -> 0 <= fst p < rs * cs.
    Proof. intros H. apply lin_rng. rewrite <- L_keys. apply in_map. exact H. Qed.

    Lemma E_in_range : Forall (in_range sh) (map fst E).
    Proof.
      unfold E. rewrite map_map. simpl. rewrite Forall_map. apply Forall_forall. intros p Hp.
      apply unkey_in_range; [apply Hok|apply Hca|apply L_rng; exact Hp].
    Qed.

    Lemma S_perm : Permutation S E. Proof. apply Permutation_sym, (sort_indices_perm V). Qed.

    Lemma E_keys_NoDup : NoDup (keys_of sh E).
    Proof.
      unfold keys_of, E. rewrite map_map. cbn [fst].
      apply NoDup_map_in; [|].
      - intros p q Hp Hq Heq.
        pose proof (unkey_in_range sh ca Hok Hca _ (L_rng p Hp)) as Rp.
        pose proof (unkey_in_range sh ca Hok Hca _ (L_rng q Hq)) as Rq.
        apply (ravel_inj sh) in Heq; auto.
        assert (Hk : fst p = fst q).
        { rewrite <- (ckey_unkey sh ca Hok Hca (fst p)) by (apply L_rng; exact Hp).
          rewrite <- (ckey_unkey sh ca Hok Hca (fst q)) by (apply L_rng; exact Hq). rewrite Heq. reflexivity. }
        (* distinct positions of L have distinct keys *)
        pose proof (SS_lt_NoDup _ lin_lt) as Hnd'. rewrite <- L_keys in Hnd'.
        clear -Hp Hq Hk Hnd'. induction L as [|x l IH]; simpl in *; [tauto|].
        inversion Hnd'; subst. destruct Hp as [->|Hp], Hq as [->|Hq]; auto.
        + exfalso. apply H1. rewrite Hk. apply in_map. exact Hq.
        + exfalso. apply H1. rewrite <- Hk. apply in_map. exact Hp.
      - pose proof (SS_lt_NoDup _ lin_lt) as Hnd'. rewrite <- L_keys in Hnd'. eapply NoDup_map_inv. exact Hnd'.
    Qed.

    Lemma witness_canonical : canonical V witness.
    Proof.
      unfold witness, coo_of_entries, canonical. cbn [c_shape c_coords c_data].
      assert (Hr : Forall (in_range sh) (map fst S)).
      { eapply Permutation_Forall; [apply Permutation_map, Permutation_sym, S_perm|apply E_in_range]. }
      repeat split.
      - exact Hr.
      - apply (keys_lt_lex sh); [|exact Hr]. apply SS_le_NoDup_lt; [apply (sort_indices_sorted V)|].
        eapply Permutation_NoDup; [|apply E_keys_NoDup]. unfold keys_of. apply Permutation_map, Permutation_sym, S_perm.
      - rewrite !map_length. reflexivity.
    Qed.

    Lemma witness_sorted : gsorted V witness ca = L.
    Proof.
      unfold gsorted, witness, coo_of_entries. cbn [c_shape c_coords c_data].
      rewrite combine_map_l. rewrite combine_fst_snd.
      apply stable_sort_unique.
      - eapply perm_trans; [apply Permutation_map, S_perm|].
        unfold E. rewrite map_map. cbn [fst snd].
        rewrite <- (map_id L) at 2. rewrite (map_ext_in _ id); [apply Permutation_refl|].
        intros [l v] Hp. cbn [fst snd]. unfold id. f_equal. apply ckey_unkey; [apply Hok|apply Hca|apply (L_rng (l, v)); exact Hp].
      - apply SS_map_kle. rewrite L_keys. apply SS_lt_le, lin_lt.
      - rewrite map_map. cbn [fst].
        eapply Permutation_NoDup.
        + apply Permutation_map. apply Permutation_sym. apply S_perm.
        + unfold E. rewrite map_map. cbn [fst].
          rewrite (map_ext_in _ fst).
          * rewrite L_keys. apply SS_lt_NoDup, lin_lt.
          * intros p Hp. apply ckey_unkey; [apply Hok|apply Hca|apply L_rng; exact Hp].
    Qed.

    Lemma from_coo_witness : gcxs_from_coo witness ca = mkGCXS sh ca data indices indptr fill.
    Proof.
      assert (Hsh : c_shape witness = sh) by reflexivity.
      rewrite (from_coo_nf V witness ca); [|rewrite Hsh; apply Hok|rewrite Hsh; apply Hca|rewrite Hsh; exact Hnd].
      rewrite witness_sorted. rewrite Hsh. cbn [c_fill witness coo_of_entries]. f_equal.
      - apply L_data.
      - (* columns *)
        unfold colf. rewrite Hsh. fold cs. unfold L, lin. rewrite <- (map_map fst (fun l => l mod cs)).
        rewrite map_fst_combine by (fold lin; apply lin_len).
        rewrite map_map.
        transitivity (map snd (combine rows indices)); [|apply map_snd_combine; rewrite rows_len, Hlen_id; reflexivity].
        apply map_ext_in. intros rc Hrc. destruct (pair_facts rc Hrc) as [A1 [A2 _]].
        rewrite Z.add_comm, Z.mod_add by lia. apply Z.mod_small. lia.
      - (* rows, and the pointer rebuilt from them *)
        assert (Hrows : map (rowf V witness ca) L = rows).
        { unfold rowf. rewrite Hsh. fold cs rs. unfold L, lin. rewrite <- (map_map fst (fun l => (l / cs) mod rs)).
          rewrite map_fst_combine by (fold lin; apply lin_len).
          rewrite map_map.
          transitivity (map fst (combine rows indices)); [|apply map_fst_combine; rewrite rows_len, Hlen_id; reflexivity].
          apply map_ext_in. intros rc Hrc. destruct (pair_facts rc Hrc) as [A1 [A2 _]].
          rewrite Z.add_comm, Z.div_add by lia. rewrite Z.div_small by lia. rewrite Z.add_0_l. apply Z.mod_small. lia. }
        rewrite Hrows. fold rs.
        destruct indptr_form as [Hf [Hl [Hn _]]].
        unfold indptr_of, bincount. rewrite zrange_zr, <- Hl, rows_form, bincount_rowsL by exact Hn.
        symmetry. exact Hf.
    Qed.
  End Nd.
End Surj.

(* ================================================================ the theorems *)
Section Theorems.
  Variable V : Type.
  Variable veqb : V -> V -> bool.
  Variable add : V -> V -> V.
  Hypothesis veqb_eq : forall a b, veqb a b = true <-> a = b.

  (* gcxs_wfb says nothing about the unused fields of a 0-d / 1-d GCXS; the code keeps them empty *)
  Definition gcxs_strictb (g : gcxs V) : bool :=
    gcxs_wfb g && ((2 <=? length (g_shape g))%nat || (is_nil (g_caxes g) && is_nil (g_indptr g))).

  Definition is_image (g : gcxs V) (c : coo V) : Prop :=
    canonical V c /\ c_shape c = g_shape g /\ c_fill c = g_fill g /\ shape_ok (g_shape g)
    /\ axes_ok (g_shape g) (g_caxes g) /\ gcxs_from_coo c (g_caxes g) = g.

  Lemma gcxs_image (g : gcxs V) : gcxs_strictb g = true -> exists c, is_image g c.
  Proof.
    unfold gcxs_strictb. rewrite andb_true_iff. intros [Hwf Hs].
    destruct g as [sh ca data indices indptr fill]. cbn [g_shape g_caxes g_indptr] in Hs.
    destruct (Nat.leb_spec 2 (length sh)) as [Hnd|Hlt].
    - exists (witness V sh ca data indices indptr fill).
      pose proof (gcxs_wfb_nd_elim V sh ca data indices indptr fill Hnd Hwf) as [Hok [_ [Hca _]]].
      unfold is_image. cbn [g_shape g_caxes g_fill].
      split; [apply witness_canonical; assumption|]. split; [reflexivity|]. split; [reflexivity|].
      split; [exact Hok|]. split; [right; exact Hca|]. apply from_coo_witness; assumption.
    - simpl in Hs. apply andb_true_iff in Hs. destruct Hs as [Hc Hp].
      destruct ca; [|discriminate]. destruct indptr; [|discriminate].
      unfold gcxs_wfb in Hwf. cbn [g_shape g_caxes g_data g_indices g_indptr] in Hwf.
      destruct sh as [|d [|d2 t]]; [| |simpl in Hlt; lia].
      + (* 0-d *)
        simpl in Hwf. apply andb_true_iff in Hwf. destruct Hwf as [Hn Hi].
        destruct indices; [|discriminate]. apply Nat.leb_le in Hn.
        exists (mkCOO [] (map (fun _ => []) data) data fill). unfold is_image. cbn [g_shape g_caxes g_fill c_shape c_fill].
        split; [|split; [reflexivity|split; [reflexivity|split; [constructor|split; [left; simpl; lia|reflexivity]]]]].
        unfold canonical. cbn [c_shape c_coords c_data]. repeat split.
        * rewrite Forall_map. apply Forall_forall. intros; exact I.
        * destruct data as [|v [|w l]]; simpl in *; try lia; repeat constructor.
        * rewrite map_length. reflexivity.
      + (* 1-d *)
        rewrite !andb_true_iff in Hwf. destruct Hwf as [Hsh [[[Hl _] Hr] Hinc]].
        apply Nat.eqb_eq in Hl. apply strictly_increasing_SS in Hinc.
        exists (mkCOO [d] (map (fun i => [i]) indices) data fill). unfold is_image. cbn [g_shape g_caxes g_fill c_shape c_fill].
        split; [|split; [reflexivity|split; [reflexivity|split; [apply shape_okb_spec; exact Hsh|split; [left; simpl; lia|]]]]].
        * unfold canonical. cbn [c_shape c_coords c_data]. repeat split.
          -- rewrite Forall_map. apply Forall_forall. intros i Hi. rewrite forallb_forall in Hr. specialize (Hr _ Hi).
             apply andb_true_iff in Hr. destruct Hr as [A B]. apply Z.leb_le in A. apply Z.ltb_lt in B. simpl. lia.
          -- eapply SS_map_mono; [|exact Hinc]. intros a b _ _ Hab. simpl. left. exact Hab.
          -- rewrite map_length. symmetry. exact Hl.
        * unfold gcxs_from_coo. cbn [c_shape c_coords c_data c_fill]. f_equal.
          rewrite map_map. rewrite <- (map_id indices) at 2. apply map_ext. intros i. reflexivity.
  Qed.

  (* (1) surjectivity: every well-formed GCXS is rebuilt exactly from its COO form *)
  Theorem from_coo_tocoo_proof (g : gcxs V) :
    gcxs_strictb g = true -> gcxs_from_coo (gcxs_tocoo veqb add g) (g_caxes g) = g.
  Proof.
    intros H. destruct (gcxs_image g H) as [c [Hc [Hsh [Hf [Hok [Hax Heq]]]]]].
    assert (Ht : gcxs_tocoo veqb add g = c).
    { rewrite <- Heq at 1. apply tocoo_from_coo_proof; [exact Hc|rewrite Hsh; exact Hok|rewrite Hsh; exact Hax]. }
    rewrite Ht. exact Heq.
  Qed.

  Lemma tocoo_canonical (g : gcxs V) :
    gcxs_strictb g = true ->
    canonical V (gcxs_tocoo veqb add g) /\ c_shape (gcxs_tocoo veqb add g) = g_shape g
    /\ c_fill (gcxs_tocoo veqb add g) = g_fill g
    /\ forall ix, den (gcxs_tocoo veqb add g) ix = gden g ix.
  Proof.
    intros H. destruct (gcxs_image g H) as [c [Hc [Hsh [Hf [Hok [Hax Heq]]]]]].
    assert (Ht : gcxs_tocoo veqb add g = c).
    { rewrite <- Heq at 1. apply tocoo_from_coo_proof; [exact Hc|rewrite Hsh; exact Hok|rewrite Hsh; exact Hax]. }
    rewrite Ht. split; [exact Hc|]. split; [exact Hsh|]. split; [exact Hf|]. intros ix. rewrite <- Heq at 1.
    symmetry. apply (gcxs_from_coo_den_proof V veqb add); [exact Hc|rewrite Hsh; exact Hok|rewrite Hsh; exact Hax].
  Qed.

  Lemma from_coo_data_perm (c : coo V) ca :
    canonical V c -> shape_ok (c_shape c) -> axes_ok (c_shape c) ca ->
    Permutation (g_data (gcxs_from_coo c ca)) (c_data c).
  Proof.
    intros Hc Hok Hax. destruct (Nat.lt_ge_cases (length (c_shape c)) 2) as [Hlt|Hge].
    - unfold gcxs_from_coo. destruct (c_shape c) as [|d [|d2 t]]; [| |simpl in Hlt; lia]; apply Permutation_refl.
    - destruct Hax as [?|Hca]; [lia|]. rewrite (from_coo_nf V c ca Hok Hca Hge). cbn [g_data].
      unfold gsorted. eapply perm_trans; [apply Permutation_map, Permutation_sym, stable_sort_perm|].
      rewrite map_snd_combine; [apply Permutation_refl|]. destruct Hc as [_ [_ Hl]]. rewrite map_length. lia.
  Qed.

  (* uniqueness of the well-formed pruned GCXS record with given compressed axes *)
  Theorem gcxs_unique_proof (g1 g2 : gcxs V) :
    gcxs_strictb g1 = true -> gcxs_strictb g2 = true ->
    g_shape g1 = g_shape g2 -> g_caxes g1 = g_caxes g2 -> g_fill g1 = g_fill g2 ->
    forallb (fun v => negb (veqb v (g_fill g1))) (g_data g1) = true ->
    forallb (fun v => negb (veqb v (g_fill g2))) (g_data g2) = true ->
    (forall ix, in_range (g_shape g1) ix -> gden g1 ix = gden g2 ix) ->
    g1 = g2.
  Proof.
    intros H1 H2 Hsh Hca Hf P1 P2 Hden.
    destruct (gcxs_image g1 H1) as [c1 [Hc1 [S1 [F1 [Ok1 [Ax1 E1]]]]]].
    destruct (gcxs_image g2 H2) as [c2 [Hc2 [S2 [F2 [Ok2 [Ax2 E2]]]]]].
    assert (Hpr : forall g c, canonical V c -> c_shape c = g_shape g -> c_fill c = g_fill g -> shape_ok (g_shape g) ->
                   axes_ok (g_shape g) (g_caxes g) -> gcxs_from_coo c (g_caxes g) = g ->
                   forallb (fun v => negb (veqb v (g_fill g))) (g_data g) = true -> prunedb veqb c = true).
    { intros g c Hc Sc Fc Okc Axc Ec Pg. unfold prunedb. rewrite Fc. apply forallb_forall. intros v Hv.
      rewrite forallb_forall in Pg. apply Pg. rewrite <- Ec.
      eapply Permutation_in; [apply Permutation_sym, from_coo_data_perm; [exact Hc|rewrite Sc; exact Okc|rewrite Sc; exact Axc]|exact Hv]. }
    assert (Hc12 : c1 = c2).
    { apply (canonical_unique V veqb veqb_eq); auto.
      - eapply Hpr; eauto.
      - eapply Hpr; eauto.
      - congruence.
      - congruence.
      - intros ix Hix. rewrite S1 in Hix.
        rewrite <- (gcxs_from_coo_den_proof V veqb add c1 (g_caxes g1)) by (try assumption; rewrite S1; assumption).
        rewrite <- (gcxs_from_coo_den_proof V veqb add c2 (g_caxes g2)) by (try assumption; rewrite S2; assumption).
        rewrite E1, E2. apply Hden. exact Hix. }
    rewrite <- E1, <- E2, Hc12, Hca. reflexivity.
  Qed.

  (* change_compressed_axes of an ARBITRARY well-formed GCXS *)
  Theorem change_axes_any_proof (g : gcxs V) ca' :
    gcxs_wfb g = true -> (2 <= length (g_shape g))%nat ->
    caxes_okb (Z.of_nat (length (g_shape g))) ca' = true ->
    gcxs_wfb (gcxs_change_axes g ca') = true
    /\ (forall ix, gden (gcxs_change_axes g ca') ix = gden g ix)
    /\ gcxs_change_axes g ca' = gcxs_from_coo (gcxs_tocoo veqb add g) ca'.
  Proof.
    intros Hwf Hnd Hca'.
    assert (Hs : gcxs_strictb g = true).
    { unfold gcxs_strictb. rewrite Hwf. apply Nat.leb_le in Hnd. rewrite Hnd. reflexivity. }
    destruct (gcxs_image g Hs) as [c [Hc [Hsh [Hf [Hok [Hax Heq]]]]]].
    assert (Ht : gcxs_tocoo veqb add g = c).
    { rewrite <- Heq at 1. apply tocoo_from_coo_proof; [exact Hc|rewrite Hsh; exact Hok|rewrite Hsh; exact Hax]. }
    destruct Hax as [?|Hca]; [lia|].
    assert (Hch : gcxs_change_axes g ca' = gcxs_from_coo c ca').
    { rewrite <- Heq at 1. apply change_axes_from_coo_nd; rewrite ?Hsh; assumption. }
    rewrite Ht, Hch. split; [|split; [|reflexivity]].
    - apply (gcxs_from_coo_wf_proof V veqb add); [exact Hc|rewrite Hsh; exact Hok|right; rewrite Hsh; exact Hca'].
    - intros ix. transitivity (den c ix).
      + apply (gcxs_from_coo_den_proof V veqb add); [exact Hc|rewrite Hsh; exact Hok|right; rewrite Hsh; exact Hca'].
      + rewrite <- Heq at 1. symmetry.
        apply (gcxs_from_coo_den_proof V veqb add); [exact Hc|rewrite Hsh; exact Hok|right; rewrite Hsh; exact Hca].
  Qed.
End Theorems.
