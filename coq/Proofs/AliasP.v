(* Proofs/AliasP.v — soundness of the effect-summary checker: an accepted summary, executed in any
   order and any number of times with any write oracle, leaves every argument buffer unchanged. *)
From Coq Require Import NArith List Bool String Lia.
From Verif Require Import Alias S_alias.
Import ListNotations.

Lemma vmem_in v l : vmem v l = true -> In v l.
Proof.
  unfold vmem. rewrite existsb_exists. intros (x & Hin & Hx). apply N.eqb_eq in Hx. now subst.
Qed.

Lemma buf_eqb_eq x y : buf_eqb x y = true -> x = y.
Proof.
  destruct x, y; cbn; try discriminate.
  - intros H. apply andb_true_iff in H. destruct H as [H1 H2].
    apply N.eqb_eq in H1, H2. now subst.
  - intros H. apply N.eqb_eq in H. now subst.
Qed.

Lemma bmem_in x l : bmem x l = true -> In x l.
Proof.
  unfold bmem. rewrite existsb_exists. intros (y & Hin & Hy). apply buf_eqb_eq in Hy. now subst.
Qed.

Section Sound.
  Variable C : Type.
  Variable body : list stmt.
  Variable T : list var.
  Hypothesis Hclosed : closed_b body T = true.
  Hypothesis Hnw : no_tainted_write body T = true.

  (* a variable that may hold an argument buffer is in T *)
  Definition inv (st : state C) : Prop :=
    forall v a f, In (ABuf a f) (env st v) -> vmem v T = true.

  Lemma exec_stmt_ok wr step st s :
    In s body -> inv st ->
    inv (exec_stmt C wr step st s)
    /\ forall a f, store (exec_stmt C wr step st s) (ABuf a f) = store st (ABuf a f).
  Proof.
    intros Hin Hinv.
    unfold closed_b in Hclosed. rewrite forallb_forall in Hclosed. specialize (Hclosed s Hin).
    unfold no_tainted_write in Hnw. rewrite forallb_forall in Hnw. specialize (Hnw s Hin).
    destruct s as [v [|a0 f0|w]|v]; cbn in *.
    - split; [|reflexivity]. intros x a f. cbn. unfold upd. destruct (N.eqb_spec x v) as [->|]; [|exact (Hinv x a f)].
      intros [Hx|Hx]; [discriminate|]. eapply Hinv; eauto.
    - split; [|reflexivity]. intros x a f. cbn. unfold upd. destruct (N.eqb_spec x v) as [->|]; [|exact (Hinv x a f)].
      intros _. exact Hclosed.
    - split; [|reflexivity]. intros x a f. cbn. unfold upd. destruct (N.eqb_spec x v) as [->|]; [|exact (Hinv x a f)].
      intros Hx. apply in_app_or in Hx. destruct Hx as [Hx|Hx]; [|eapply Hinv; eauto].
      apply Hinv in Hx. rewrite Hx in Hclosed. exact Hclosed.
    - split; [exact Hinv|]. intros a f.
      destruct (bmem (ABuf a f) (env st v)) eqn:E; [|reflexivity].
      apply bmem_in in E. apply Hinv in E. rewrite E in Hnw. discriminate.
  Qed.

  Lemma exec_ok wr sched : forall step st,
    inv st ->
    inv (exec C body wr sched step st)
    /\ forall a f, store (exec C body wr sched step st) (ABuf a f) = store st (ABuf a f).
  Proof.
    induction sched as [|i r IH]; intros step st Hinv; cbn; [auto|].
    destruct (nth_error body i) as [s|] eqn:E.
    - apply nth_error_In in E. destruct (exec_stmt_ok wr step st s E Hinv) as [H1 H2].
      destruct (IH (S step) _ H1) as [H3 H4]. split; [exact H3|].
      intros a f. now rewrite H4, H2.
    - now apply IH.
  Qed.
End Sound.

Lemma start_inv C T sto : inv C T (start C sto).
Proof. intros v a f []. Qed.

Theorem body_safe_sound :
  forall (b : list stmt), body_safe b = true ->
  forall (C : Type) (wr : nat -> buf -> C -> C) (sched : list nat) (sto : buf -> C) (a f : N),
    store (exec C b wr sched 0 (start C sto)) (ABuf a f) = sto (ABuf a f).
Proof.
  intros b Hs C wr sched sto a f. unfold body_safe in Hs.
  apply andb_true_iff in Hs. destruct Hs as [Hc Hw].
  destruct (exec_ok C b (tainted b) Hc Hw wr sched 0 (start C sto) (start_inv C _ sto)) as [_ H].
  apply H.
Qed.

Theorem summary_safe_sound_proof :
  forall (s : summary), summary_safe s = true ->
  forall (C : Type) (wr : nat -> buf -> C -> C) (sched : list nat) (sto : buf -> C) (a f : N),
    store (exec C (s_body s) wr sched 0 (start C sto)) (ABuf a f) = sto (ABuf a f).
Proof. intros s Hs. now apply body_safe_sound. Qed.

(* in particular the statements once each, in program order *)
Corollary summary_safe_sound_seq :
  forall (s : summary), summary_safe s = true ->
  forall (C : Type) (wr : nat -> buf -> C -> C) (sto : buf -> C) (a f : N),
    store (exec_seq C (s_body s) wr (start C sto)) (ABuf a f) = sto (ABuf a f).
Proof. intros. unfold exec_seq. now apply summary_safe_sound_proof. Qed.

(* ------------------------------------------------------------------ the generated table *)
Theorem all_summaries_safe_proof : forallb summary_safe summaries = true.
Proof. vm_compute. reflexivity. Qed.

Theorem operands_unchanged_proof :
  forall (s : summary), In s summaries ->
  forall (C : Type) (wr : nat -> buf -> C -> C) (sched : list nat) (sto : buf -> C) (a f : N),
    store (exec C (s_body s) wr sched 0 (start C sto)) (ABuf a f) = sto (ABuf a f).
Proof.
  intros s Hin. apply summary_safe_sound_proof.
  pose proof all_summaries_safe_proof as H. rewrite forallb_forall in H. now apply H.
Qed.

(* ------------------------------------------------------------------ out= *)
Theorem out_swap_only_target_proof :
  forall (D : Type) (h : oheap D) (self other : nat),
    shallow_copy_of D h self other self = h other
    /\ forall i, i <> self -> shallow_copy_of D h self other i = h i.
Proof.
  intros D h self other. unfold shallow_copy_of. split.
  - now rewrite PeanoNat.Nat.eqb_refl.
  - intros i Hi. destruct (PeanoNat.Nat.eqb_spec i self); congruence.
Qed.

Theorem out_protocol_shape_proof : shallow_copy_is_dict_swap && ufunc_swaps_only_out = true.
Proof. vm_compute. reflexivity. Qed.

(* scipy operands: in-place scipy methods run on a private copy only; dense results are fresh allocations *)
Definition nonempty {A} (l : list A) : bool := match l with [] => false | _ => true end.

Theorem scipy_copy_discipline_proof :
  nonempty scipy_inplace_sites && forallb (fun p => snd p) scipy_inplace_sites = true.
Proof. vm_compute. reflexivity. Qed.

Theorem dense_results_fresh_proof :
  nonempty dense_result_may_alias && forallb (fun p => negb (snd p)) dense_result_may_alias
  && todense_allocates_first && todense_returns_only_allocation = true.
Proof. vm_compute. reflexivity. Qed.

Theorem reductions_return_fresh_proof :
  nonempty reduce_calc_returns_fresh && forallb (fun p => snd p) reduce_calc_returns_fresh = true.
Proof. vm_compute. reflexivity. Qed.

Example out_swap_example :
  let h := fun i => match i with 0 => 10 | 1 => 11 | _ => 12 end in
  shallow_copy_of nat h 0 2 0 = 12 /\ shallow_copy_of nat h 0 2 1 = 11 /\ shallow_copy_of nat h 0 2 2 = 12.
Proof. vm_compute. repeat split; reflexivity. Qed.

(* ------------------------------------------------------------------ non-vacuity *)
(* coords = a.coords.copy(); row = coords[0]; row += 1      (accepted)
   coords = a.coords;        row = coords[0]; row += 1      (rejected, and really changes a.coords) *)
Definition ex_good : summary :=
  mk_summary "good" [bA 0 0 4; bA 1 0 0; bF 2; bV 3 2; wR 3]%N.
Definition ex_bad : summary :=
  mk_summary "bad" [bA 0 0 4; bA 1 0 0; bV 2 1; bV 3 2; wR 3]%N.

Example ex_good_safe : summary_safe ex_good = true.
Proof. vm_compute. reflexivity. Qed.

Example ex_bad_rejected : summary_safe ex_bad = false.
Proof. vm_compute. reflexivity. Qed.

Example ex_bad_really_writes :
  store (exec_seq nat (s_body ex_bad) (fun _ _ _ => 7) (start nat (fun _ => 0))) (ABuf 0 0) = 7.
Proof. vm_compute. reflexivity. Qed.

Example ex_good_runs :
  let st := exec_seq nat (s_body ex_good) (fun _ _ _ => 7) (start nat (fun _ => 0)) in
  store st (ABuf 0 0) = 0 /\ store st (FBuf 0) = 7.
Proof. vm_compute. split; reflexivity. Qed.

Example summaries_nonempty : (100 <= List.length summaries)%nat.
Proof. vm_compute. repeat constructor. Qed.
