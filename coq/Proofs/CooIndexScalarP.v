(* Proofs/CooIndexScalarP.v — part 5 of the COO indexing proofs: the scalar-vs-0-d rule for basic
   indices.  getitem returns a scalar exactly when the result is 0-d and the LAST entry is not an
   Ellipsis; NumPy returns a scalar exactly when every entry is an integer and every axis is indexed.
   They differ when an Ellipsis that is not last swallows nothing (x[..., 1, 2]): domain clause D26. *)
From Coq Require Import ZArith List Bool Lia ZifyBool Sorting.Sorted.
From Verif Require Import Py PyExt PyIndex G_slicing S_indexing PySlice Slicing SlicingP Shape COO COOP
     NpIndex CooIndex CooIndexMaskP CooIndexNormP CooIndexP.
Import ListNotations.
Open Scope Z_scope.

Definition d26_clause (sh : shape) (ix : index) : bool :=
  negb (existsb is_ell ix && negb (last_is_ellipsis ix)
        && forallb (fun e => is_iint e || is_ell e) ix
        && (countb is_iint ix =? Z.of_nat (length sh))).

Definition is_gscalar {V} (r : gres V) : bool := match r with GScalar _ => true | GArr _ => false end.

Lemma out_shape_ints ex : forall sh seen,
  fits ex sh = true -> basic ex = true ->
  (out_shape_aux seen (map to_r (norm_all ex sh)) = [] <-> forallb is_iint ex = true).
Proof.
  induction ex as [|e r IH]; intros sh seen Hf Hb; [simpl; tauto|].
  simpl in Hb. apply andb_true_iff in Hb. destruct Hb as [Hbe Hb].
  destruct e; try discriminate; simpl in Hf.
  - destruct sh as [|d sh']; [discriminate|]. cbn [norm_all nentry_spec map to_r out_shape_aux forallb is_iint andb]. apply IH; assumption.
  - destruct sh as [|d sh']; [discriminate|]. cbn [norm_all nentry_spec forallb is_iint andb]. unfold nslice_of.
    split; [|discriminate]. destruct (normalize_slice _ _) as [[]|]; cbn [map to_r out_shape_aux]; try discriminate.
    destruct a0; try discriminate; destruct b0; try discriminate; destruct c0; discriminate.
  - cbn [norm_all map to_r out_shape_aux forallb is_iint andb]. split; discriminate.
Qed.

Lemma fits_ints_length ex : forall sh, fits ex sh = true -> forallb is_iint ex = true -> length ex = length sh.
Proof.
  induction ex as [|e r IH]; intros sh Hf Hi; [destruct sh; [reflexivity|discriminate]|].
  simpl in Hi. apply andb_true_iff in Hi. destruct Hi as [He Hr]. destruct e; try discriminate.
  simpl in Hf. destruct sh as [|d sh']; [discriminate|]. simpl. f_equal. apply IH; assumption.
Qed.

Lemma last_ell_app pre post : post <> [] -> last_is_ellipsis (pre ++ IEllipsis :: post) = last_is_ellipsis post.
Proof.
  intros Hp. unfold last_is_ellipsis. rewrite rev_app_distr. cbn [rev]. rewrite <- app_assoc.
  destruct (rev post) eqn:E; [|reflexivity]. exfalso. apply Hp. rewrite <- (rev_involutive post), E. reflexivity.
Qed.

Lemma ints_last_not_ell l : forallb is_iint l = true -> last_is_ellipsis l = false.
Proof.
  intros H. unfold last_is_ellipsis. destruct (rev l) as [|e r] eqn:E; [reflexivity|].
  assert (Hin : In e l) by (apply in_rev; rewrite E; left; reflexivity).
  rewrite forallb_forall in H. specialize (H e Hin). destruct e; try discriminate; reflexivity.
Qed.

(* when the expanded index holds only integers *)
Lemma expand_all_ints sh ix ex :
  expand (Z.of_nat (length sh)) ix = Ok ex -> fits ex sh = true -> forallb is_iint ex = true ->
  last_is_ellipsis ix = false -> d26_clause sh ix = true -> np_scalar sh ix = true.
Proof.
  intros E Hf Hi Hl Hd. pose proof (fits_ints_length ex sh Hf Hi) as Hlen.
  unfold expand in E. destruct (1 <? countb is_ell ix) eqn:E1; [discriminate|].
  destruct (Z.of_nat (length sh) - countb consumes ix <? 0); [discriminate|]. inversion E as [E']. clear E.
  destruct (Z.ltb_spec 0 (countb is_ell ix)) as [H0|H0].
  - (* an ellipsis that is not last and swallows nothing: excluded by the clause *)
    exfalso. destruct (first_ell ix H0) as [pre [post [-> Hp]]].
    assert (Hsub : forall fill, subst_ellipsis fill (pre ++ IEllipsis :: post) = pre ++ fill ++ post).
    { intros fill. clear -Hp. induction pre as [|e r IH]; [reflexivity|]. simpl in Hp. apply andb_true_iff in Hp.
      destruct Hp as [He Hr]. simpl. rewrite (IH Hr). destruct e; try discriminate; reflexivity. }
    rewrite Hsub in E'. subst ex. rewrite !forallb_app in Hi. apply andb_true_iff in Hi. destruct Hi as [Hi1 Hi2].
    apply andb_true_iff in Hi2. destruct Hi2 as [Hi2 Hi3].
    assert (Hfill : repeat full_slice (Z.to_nat (Z.of_nat (length sh) - countb consumes (pre ++ IEllipsis :: post))) = []).
    { destruct (repeat full_slice _) as [|f r] eqn:Er; [reflexivity|]. exfalso.
      assert (f = full_slice) by (eapply repeat_spec; rewrite Er; left; reflexivity). subst f. simpl in Hi2. discriminate. }
    rewrite Hfill in Hlen. cbn [app] in Hlen.
    unfold d26_clause in Hd. apply negb_true_iff in Hd.
    assert (Hex : existsb is_ell (pre ++ IEllipsis :: post) = true) by (rewrite existsb_app; simpl; rewrite orb_true_r; reflexivity).
    assert (Hall : forallb (fun e => is_iint e || is_ell e) (pre ++ IEllipsis :: post) = true).
    { rewrite forallb_app. cbn [forallb is_iint is_ell orb andb].
      apply andb_true_iff. split; apply forallb_forall; intros e He.
      - rewrite forallb_forall in Hi1. rewrite (Hi1 e He). reflexivity.
      - rewrite forallb_forall in Hi3. rewrite (Hi3 e He). reflexivity. }
    assert (Hcnt : countb is_iint (pre ++ IEllipsis :: post) = Z.of_nat (length sh)).
    { rewrite countb_app, countb_cons. cbn [is_iint]. rewrite <- Hlen, app_length, Nat2Z.inj_add.
      assert (Hc : forall l, forallb is_iint l = true -> countb is_iint l = Z.of_nat (length l)).
      { intros l Hl'. unfold countb. f_equal. f_equal. clear -Hl'. induction l as [|a l IH]; [reflexivity|].
        simpl in *. apply andb_true_iff in Hl'. destruct Hl' as [Ha Hl']. rewrite Ha. simpl. f_equal. auto. }
      rewrite (Hc pre Hi1), (Hc post Hi3). lia. }
    rewrite Hex, Hl, Hall, Hcnt, Z.eqb_refl in Hd. discriminate.
  - (* no ellipsis: no padding was added, so the index itself is all integers *)
    unfold np_scalar. subst ex. rewrite forallb_app in Hi. apply andb_true_iff in Hi. destruct Hi as [Hi1 Hi2].
    assert (Hfill : repeat full_slice (Z.to_nat (Z.of_nat (length sh) - countb consumes ix)) = []).
    { destruct (repeat full_slice _) as [|f r] eqn:Er; [reflexivity|]. exfalso.
      assert (f = full_slice) by (eapply repeat_spec; rewrite Er; left; reflexivity). subst f. simpl in Hi2. discriminate. }
    rewrite Hfill, app_nil_r in Hlen. rewrite Hi1, Hlen, Nat.eqb_refl. reflexivity.
Qed.

Lemma np_scalar_expand sh ix :
  np_scalar sh ix = true -> expand (Z.of_nat (length sh)) ix = Ok ix /\ last_is_ellipsis ix = false.
Proof.
  unfold np_scalar. intros H. apply andb_true_iff in H. destruct H as [Hi Hl]. apply Nat.eqb_eq in Hl.
  assert (Hne : countb is_ell ix = 0).
  { apply no_ell_count. unfold no_ell. apply forallb_forall. intros e He. rewrite forallb_forall in Hi.
    specialize (Hi e He). destruct e; try discriminate; reflexivity. }
  assert (Hc : countb consumes ix = Z.of_nat (length ix)).
  { unfold countb. f_equal. f_equal. clear -Hi. induction ix as [|a l IH]; [reflexivity|].
    simpl in *. apply andb_true_iff in Hi. destruct Hi as [Ha Hi]. destruct a; try discriminate. simpl. f_equal. auto. }
  split; [|apply ints_last_not_ell; assumption].
  unfold expand. rewrite Hne, Hc, Hl, Z.sub_diag. cbn. rewrite app_nil_r. reflexivity.
Qed.

Section ScalarRule.
  Variable V : Type.

  (* what getitem returns for a basic index, as far as scalar-ness goes *)
  Lemma getitem_scalar_shape (kf : nat -> nat) (x : coo V) (ix : index) nix r :
    normalize_index ix (c_shape x) = Ok nix -> nwf nix (c_shape x) -> no_arr nix = true ->
    shape_okb (c_shape x) = true ->
    getitem kf x ix = Ok r ->
    is_gscalar r = (match out_shape (map to_r nix) with [] => true | _ => false end) && negb (last_is_ellipsis ix).
  Proof.
    intros Hn Hwf Hna Hsh. unfold getitem. rewrite Hn. cbn [bind].
    destruct (all_full nix (c_shape x)) eqn:Eaf.
    - intros H. inversion H; subst r. cbn [is_gscalar]. destruct (all_full_true nix _ Eaf) as [El Ef].
      destruct (all_full_id nix _ Hsh Ef El) as [H1 _]. rewrite H1.
      destruct nix as [|e0 r0]; [discriminate|]. destruct (c_shape x); [discriminate|reflexivity].
    - unfold mask_of.
      assert (Hpna : no_arr (prune_indices nix (c_shape x)) = true)
        by (rewrite (prune_indices_eq nix _ Hwf); apply prune'_no_arr, no_arr_filter; assumption).
      rewrite (adv_of_no_arr _ 0 Hpna). cbn [bind].
      rewrite (build_shape_eq nix (c_shape x) false 0 Hwf)
        by (intros l Hl; exfalso; unfold no_arr in Hna; rewrite forallb_forall in Hna; specialize (Hna _ Hl); discriminate).
      change (out_shape_aux false (map to_r nix)) with (out_shape (map to_r nix)).
      destruct (out_shape (map to_r nix)) as [|d0 osh].
      + destruct (last_is_ellipsis ix).
        * intros H. inversion H. reflexivity.
        * match goal with |- context [match ?es with [] => _ | _ => _ end] => destruct es as [|[k v] es'] end;
            intros H; inversion H; reflexivity.
      + intros H. inversion H. reflexivity.
  Qed.

  Theorem coo_scalar_rule_proof (kf : nat -> nat) (x : coo V) (ix : index) (r : gres V) :
    shape_okb (c_shape x) = true -> no_zero_step ix = true -> basic ix = true ->
    d26_clause (c_shape x) ix = true ->
    getitem kf x ix = Ok r -> is_gscalar r = np_scalar (c_shape x) ix.
  Proof.
    intros Hsh Hz Hb Hd Hg. set (sh := c_shape x) in *.
    assert (Hd29 : d29_clause sh ix = true).
    { unfold d29_clause. destruct (expand (Z.of_nat (length sh)) ix) as [ex|] eqn:E; [|reflexivity].
      apply basic_bool_ok. eapply basic_expand; eauto. }
    destruct (normalize_link sh ix Hsh Hz Hd29) as [[ex [E [Hf [Ha [Hn Hr]]]]]|[Hn Hr]].
    2: { unfold getitem in Hg. fold sh in Hg. rewrite Hn in Hg. discriminate. }
    assert (Hwf : nwf (norm_all ex sh) sh) by (apply norm_all_nwf; auto; eapply expand_nzs; eauto).
    assert (Hna : no_arr (norm_all ex sh) = true) by (apply basic_norm_no_arr; eapply basic_expand; eauto).
    rewrite (getitem_scalar_shape kf x ix _ r Hn Hwf Hna Hsh Hg).
    destruct (np_scalar sh ix) eqn:Enp.
    - destruct (np_scalar_expand sh ix Enp) as [Ee Hl]. rewrite Ee in E. inversion E; subst ex.
      unfold np_scalar in Enp. apply andb_true_iff in Enp. destruct Enp as [Hi _].
      unfold out_shape. rewrite (proj2 (out_shape_ints ix sh false Hf Hb) Hi), Hl. reflexivity.
    - destruct (out_shape (map to_r (norm_all ex sh))) as [|d0 osh] eqn:Eos; [|reflexivity].
      destruct (last_is_ellipsis ix) eqn:El; [reflexivity|]. exfalso.
      pose proof (proj1 (out_shape_ints ex sh false Hf (basic_expand _ _ _ E Hb)) Eos) as Hi.
      rewrite (expand_all_ints sh ix ex E Hf Hi El Hd) in Enp. discriminate.
  Qed.
End ScalarRule.

(* the statement without the D26 clause is false of the code: x[..., 0, 0] on a 1x1 array is a scalar, NumPy's is 0-d *)
Theorem coo_scalar_rule_refuted_proof :
  exists (kf : nat -> nat) (x : coo Z) (ix : index) (r : gres Z),
    shape_okb (c_shape x) = true /\ no_zero_step ix = true /\ basic ix = true
    /\ getitem kf x ix = Ok r /\ is_gscalar r <> np_scalar (c_shape x) ix.
Proof.
  exists (fun _ => 0%nat), (mkCOO [1; 1] [[0; 0]] [5] 0), [IEllipsis; IInt 0; IInt 0], (GScalar 5).
  split; [reflexivity|]. split; [reflexivity|]. split; [reflexivity|]. split; [reflexivity|]. vm_compute. discriminate.
Qed.

Example scalar_rule_nonvacuous :
  d26_clause [2; 3] [IInt 1; IInt (-1)] = true /\ d26_clause [2; 3] [IInt 1; IInt 0; IEllipsis] = true
  /\ d26_clause [2; 3] [IEllipsis; IInt 1; IInt 0] = false
  /\ getitem (fun _ => 0%nat) (mkCOO [2; 3] [[1; 2]] [9] 0) [IInt 1; IInt (-1)] = Ok (GScalar 9).
Proof. repeat split. Qed.

(* ================================================================ indices with index arrays: never a scalar, on either side *)
From Verif Require Import CooIndexArrP.

Lemma build_shape_arr nix alen : n_arr nix <> 0%nat -> build_shape nix false alen <> [].
Proof.
  induction nix as [|e r IH]; intros H; [exfalso; apply H; reflexivity|].
  destruct e; cbn [build_shape]; try discriminate. apply IH. exact H.
Qed.

Section ScalarRuleArr.
  Variable V : Type.

  Theorem coo_scalar_rule_arrays_proof (kf : nat -> nat) (x : coo V) (ix : index) (r : gres V) :
    shape_okb (c_shape x) = true -> no_zero_step ix = true -> d29_clause (c_shape x) ix = true ->
    0 < countb is_iarr ix ->
    getitem kf x ix = Ok r -> is_gscalar r = false /\ np_scalar (c_shape x) ix = false.
  Proof.
    intros Hsh Hz Hd Harr Hg. set (sh := c_shape x) in *. split.
    - destruct (normalize_link sh ix Hsh Hz Hd) as [[ex [E [Hf [Ha [Hn Hr]]]]]|[Hn Hr]].
      2: { unfold getitem in Hg. fold sh in Hg. rewrite Hn in Hg. discriminate. }
      set (nix := norm_all ex sh) in *.
      assert (Hn1 : n_arr nix <> 0%nat).
      { pose proof (n_arr_norm ex sh Hf) as H. fold nix in H. rewrite (expand_count_arr _ _ _ E) in H. lia. }
      unfold getitem in Hg. fold sh in Hg. rewrite Hn in Hg. cbn [bind] in Hg.
      destruct (all_full nix sh) eqn:Eaf.
      + exfalso. apply Hn1. unfold n_arr. destruct (filter is_narr nix) as [|e t] eqn:Efl; [reflexivity|]. exfalso.
        assert (He : In e (filter is_narr nix)) by (rewrite Efl; left; reflexivity). apply filter_In in He. destruct He as [He Hna].
        destruct e; try discriminate. apply in_split in He. destruct He as [pre [post Es]].
        rewrite Es, all_full_arr in Eaf. discriminate.
      + destruct (mask_of kf (c_coords x) nix sh) as [[m adv]|e]; [|discriminate]. cbn [bind] in Hg.
        pose proof (build_shape_arr nix (match adv with Some a => adv_len a | None => 0 end) Hn1) as Hb.
        destruct (build_shape nix false (match adv with Some a => adv_len a | None => 0 end)); [contradiction|].
        inversion Hg. reflexivity.
    - unfold np_scalar. destruct (forallb is_iint ix) eqn:Ei; [|reflexivity]. exfalso.
      rewrite forallb_forall in Ei. unfold countb in Harr.
      destruct (filter is_iarr ix) as [|e t] eqn:Efl; [simpl in Harr; lia|].
      assert (He : In e (filter is_iarr ix)) by (rewrite Efl; left; reflexivity). apply filter_In in He. destruct He as [He Ha].
      specialize (Ei e He). destruct e; discriminate.
  Qed.
End ScalarRuleArr.
