(* Proofs/DispatchP.v — lemmas for C17 (all call paths agree). *)
From Coq Require Import ZArith List String Bool Lia.
From Verif Require Import Dispatch S_dispatch.
Import ListNotations.
Open Scope string_scope.

(* ------------------------------------------------------------------ list / assoc facts *)

Lemma mem_In : forall k l, mem k l = true <-> In k l.
Proof.
  unfold mem. intros k l. rewrite existsb_exists. split.
  - intros [x [Hx He]]. apply String.eqb_eq in He. subst. exact Hx.
  - intros H. exists k. split; [exact H | apply String.eqb_refl].
Qed.

Lemma mem_false : forall k l, mem k l = false <-> ~ In k l.
Proof.
  intros k l. rewrite <- mem_In. destruct (mem k l); split; intros H.
  - discriminate.
  - exfalso. apply H. reflexivity.
  - intros E. discriminate.
  - reflexivity.
Qed.

Lemma nodupb_NoDup : forall l, nodupb l = true <-> NoDup l.
Proof.
  induction l as [|a l IH]; cbn.
  - split; [constructor | reflexivity].
  - rewrite andb_true_iff, negb_true_iff, mem_false, IH. split.
    + intros [H1 H2]. constructor; assumption.
    + intros H. inversion H; subst. split; assumption.
Qed.

Lemma assoc_In : forall A k (l : list (string * A)) v, assoc k l = Some v -> In (k, v) l.
Proof.
  induction l as [|[k' v'] l IH]; cbn; intros v H; [discriminate|].
  destruct (String.eqb_spec k k').
  - inversion H; subst. left. reflexivity.
  - right. apply IH. exact H.
Qed.

Lemma assoc_None : forall A k (l : list (string * A)), assoc k l = None <-> ~ In k (map fst l).
Proof.
  induction l as [|[k' v'] l IH]; cbn.
  - split; [intros _ [] | reflexivity].
  - destruct (String.eqb_spec k k').
    + split; [discriminate | intros H; exfalso; apply H; left; symmetry; exact e].
    + rewrite IH. split.
      * intros H [E|E]; [apply n; symmetry; exact E | apply H; exact E].
      * intros H E. apply H. right. exact E.
Qed.

Lemma assoc_NoDup_In : forall A k v (l : list (string * A)),
  NoDup (map fst l) -> In (k, v) l -> assoc k l = Some v.
Proof.
  induction l as [|[k' v'] l IH]; cbn; intros ND HI; [destruct HI|].
  inversion ND; subst.
  destruct HI as [E|HI].
  - inversion E; subst. rewrite String.eqb_refl. reflexivity.
  - destruct (String.eqb_spec k k').
    + subst. exfalso. apply H1. change k' with (fst (k', v)). apply in_map. exact HI.
    + apply IH; assumption.
Qed.

Lemma assoc_app : forall A k (l1 l2 : list (string * A)),
  assoc k (l1 ++ l2) = match assoc k l1 with Some v => Some v | None => assoc k l2 end.
Proof.
  induction l1 as [|[k' v'] l1 IH]; cbn; intros; [reflexivity|].
  destruct (String.eqb k k'); [reflexivity | apply IH].
Qed.

(* ------------------------------------------------------------------ mapM *)

Lemma mapM_ext : forall A B (f g : A -> option B) l,
  (forall a, In a l -> f a = g a) -> mapM f l = mapM g l.
Proof.
  induction l as [|a l IH]; cbn; intros H; [reflexivity|].
  rewrite (H a (or_introl eq_refl)), IH; [reflexivity|].
  intros; apply H; right; assumption.
Qed.

Lemma mapM_total : forall A B (f : A -> option B) (g : A -> B) l,
  (forall a, In a l -> f a = Some (g a)) -> mapM f l = Some (map g l).
Proof.
  induction l as [|a l IH]; cbn; intros H; [reflexivity|].
  rewrite (H a (or_introl eq_refl)), IH; [reflexivity|].
  intros; apply H; right; assumption.
Qed.

Lemma mapM_None : forall A B (f : A -> option B) l,
  mapM f l = None -> exists a, In a l /\ f a = None.
Proof.
  induction l as [|a l IH]; cbn; intros H; [discriminate|].
  destruct (f a) eqn:Ef.
  - destruct (mapM f l) eqn:Em; [discriminate|].
    destruct (IH eq_refl) as [x [Hx Hf]]. exists x. split; [right; exact Hx | exact Hf].
  - exists a. split; [left; reflexivity | exact Ef].
Qed.

Lemma mapM_Some_all : forall A B (f : A -> option B) l l',
  mapM f l = Some l' -> forall a, In a l -> exists b, f a = Some b.
Proof.
  induction l as [|x l IH]; cbn; intros l' H a HI; [destruct HI|].
  destruct (f x) eqn:Ef; [|discriminate].
  destruct (mapM f l) eqn:Em; [|discriminate].
  destruct HI as [E|HI]; [subst; eauto | eapply IH; eauto].
Qed.

Lemma mapM_app : forall A B (f : A -> option B) l1 l2,
  mapM f (l1 ++ l2) = match mapM f l1, mapM f l2 with Some a, Some b => Some (a ++ b)%list | _, _ => None end.
Proof.
  induction l1 as [|a l1 IH]; cbn; intros l2.
  - destruct (mapM f l2); reflexivity.
  - rewrite IH. destruct (f a); [|reflexivity].
    destruct (mapM f l1); [|reflexivity]. destruct (mapM f l2); reflexivity.
Qed.

(* ------------------------------------------------------------------ signatures *)

Lemma find_param_In : forall s k p, find_param s k = Some p -> In p s /\ p_name p = k.
Proof.
  unfold find_param. intros s k p H. apply find_some in H. destruct H as [H1 H2].
  apply String.eqb_eq in H2. split; assumption.
Qed.

Lemma find_param_NoDup : forall s p, NoDup (map p_name s) -> In p s -> find_param s (p_name p) = Some p.
Proof.
  unfold find_param. induction s as [|q s IH]; cbn; intros p ND HI; [destruct HI|].
  inversion ND; subst. destruct HI as [E|HI].
  - subst. rewrite String.eqb_refl. reflexivity.
  - destruct (String.eqb_spec (p_name q) (p_name p)).
    + exfalso. apply H1. rewrite e. apply in_map. exact HI.
    + apply IH; assumption.
Qed.

Section WrapperSound.
  Variable V : Type.
  Variable inj : lit -> V.
  Variable R : Type.
  Variable body : string -> V -> list (string * V) -> pres R.
  (* literals that compare equal in Python (0 == 0.0) mean the same to every method body *)
  Hypothesis inj_equiv : forall a b, lit_equiv a b = true -> inj a = inj b.

  Notation pval := (pval V inj).
  Notation fill := (fill V inj).
  Notation bind := (bind V inj).

  Lemma fill_ext : forall s g1 g2, (forall p, In p s -> pval g1 p = pval g2 p) -> fill s g1 = fill s g2.
  Proof.
    intros s g1 g2 H. unfold Dispatch.fill.
    rewrite (mapM_ext _ _ _ (fun p => match pval g2 p with Some v => Some (p_name p, v) | None => None end) s).
    - reflexivity.
    - intros p Hp. rewrite (H p Hp). reflexivity.
  Qed.

  (* the environment produced by fill maps every parameter to its pval *)
  Lemma fill_env : forall s g env, NoDup (map p_name s) -> fill s g = POk env ->
    forall p, In p s -> exists v, pval g p = Some v /\ assoc (p_name p) env = Some v.
  Proof.
    intros s g env ND Hf p Hp. unfold Dispatch.fill in Hf.
    destruct (mapM _ s) as [e|] eqn:Em; [|discriminate]. inversion Hf; subst e. clear Hf.
    revert env Em ND Hp. induction s as [|q s IH]; cbn; intros env Em ND Hp; [destruct Hp|].
    inversion ND; subst.
    destruct (pval g q) as [vq|] eqn:Eq; [|discriminate].
    destruct (mapM _ s) as [e'|] eqn:Em'; [|discriminate]. inversion Em; subst env. clear Em.
    destruct Hp as [E|Hp].
    - subst q. exists vq. split; [exact Eq|]. cbn. rewrite String.eqb_refl. reflexivity.
    - destruct (IH e' eq_refl H2 Hp) as [v [Hv Ha]]. exists v. split; [exact Hv|].
      cbn. destruct (String.eqb_spec (p_name p) (p_name q)).
      + exfalso. apply H1. rewrite <- e. apply in_map. exact Hp.
      + exact Ha.
  Qed.

  Lemma fill_None : forall s g, fill s g = PRaise PTypeError \/ exists env, fill s g = POk env.
  Proof. intros. unfold Dispatch.fill. destruct (mapM _ s); [right; eauto | left; reflexivity]. Qed.

  Lemma fill_raise_param : forall s g e, fill s g = PRaise e ->
    e = PTypeError /\ exists p, In p s /\ pval g p = None.
  Proof.
    intros s g e H. unfold Dispatch.fill in H. destruct (mapM _ s) eqn:Em; [discriminate|].
    inversion H; subst. split; [reflexivity|].
    apply mapM_None in Em. destruct Em as [p [Hp Hn]]. exists p. split; [exact Hp|].
    destruct (pval g p); [discriminate | reflexivity].
  Qed.

  Lemma fill_raise_intro : forall s g p, In p s -> pval g p = None -> fill s g = PRaise PTypeError.
  Proof.
    intros s g p Hp Hn. unfold Dispatch.fill.
    destruct (mapM _ s) as [env|] eqn:Em; [|reflexivity].
    destruct (mapM_Some_all _ _ _ _ _ Em p Hp) as [b Hb]. rewrite Hn in Hb. discriminate.
  Qed.

  (* zipn: positional binding commutes with evaluating the arguments *)
  Lemma zipn_mapM : forall A B (f : A -> option B) s (l : list A) l' z,
    mapM f l = Some l' -> zipn s l = Some z ->
    exists z', zipn s l' = Some z' /\
               mapM (fun kv => match f (snd kv) with Some b => Some (fst kv, b) | None => None end) z = Some z'.
  Proof.
    intros A B f s. induction s as [|p s IH]; intros l l' z Hm Hz.
    - destruct l as [|a l]; cbn in *.
      + inversion Hm; inversion Hz; subst. exists []. split; reflexivity.
      + discriminate.
    - destruct l as [|a l]; cbn in *.
      + inversion Hm; inversion Hz; subst. exists []. split; reflexivity.
      + destruct (f a) as [b|] eqn:Ef; [|discriminate].
        destruct (mapM f l) as [lr|] eqn:Em; [|discriminate]. inversion Hm; subst l'. clear Hm.
        cbn. destruct (is_kwonly p); [discriminate|].
        destruct (zipn s l) as [zr|] eqn:Ez; [|discriminate]. inversion Hz; subst z. clear Hz.
        destruct (IH l lr zr Em Ez) as [z' [H1 H2]]. rewrite H1. exists ((p_name p, b) :: z').
        split; [reflexivity|]. cbn. rewrite Ef, H2. reflexivity.
  Qed.

  Lemma zipn_keys_kwok_pos : forall A s (l : list A) z, zipn s l = Some z ->
    forall k, In k (map fst z) -> exists p, In p s /\ p_name p = k.
  Proof.
    intros A s. induction s as [|p s IH]; intros l z Hz k Hk.
    - destruct l; cbn in Hz; [inversion Hz; subst; destruct Hk | discriminate].
    - destruct l as [|a l]; cbn in Hz; [inversion Hz; subst; destruct Hk|].
      destruct (is_kwonly p); [discriminate|].
      destruct (zipn s l) as [zr|] eqn:Ez; [|discriminate]. inversion Hz; subst z. cbn in Hk.
      destruct Hk as [E|Hk].
      + exists p. split; [left; reflexivity | exact E].
      + destruct (IH l zr Ez k Hk) as [q [Hq Hn]]. exists q. split; [right; exact Hq | exact Hn].
  Qed.

  (* ---------------- the main theorem *)

  (* forwarding entries as (target keyword, wrapper parameter) pairs *)
  Definition pairs_of (nf : list (string * fsrc)) : option (list (string * string)) :=
    mapM (fun e => match snd e with FParam p => Some (fst e, p) | FConst _ => None end) nf.

  Lemma all_params_pairs : forall nf ps, all_params nf = Some ps ->
    exists kps, nf = map (fun kp => (fst kp, FParam (snd kp))) kps /\ ps = map snd kps /\ map fst nf = map fst kps.
  Proof.
    unfold all_params. induction nf as [|[k s] nf IH]; cbn; intros ps H.
    - inversion H; subst. exists []. repeat split.
    - destruct s as [p|l]; cbn in H; [|discriminate].
      destruct (mapM _ nf) as [pr|] eqn:Em; [|discriminate]. inversion H; subst ps. clear H.
      destruct (IH pr eq_refl) as [kps [H1 [H2 H3]]].
      exists ((k, p) :: kps). cbn. rewrite <- H1, <- H2, <- H3. repeat split.
  Qed.

  Fixpoint rassoc (p : string) (kps : list (string * string)) : option string :=
    match kps with
    | [] => None
    | (k, p') :: r => if String.eqb p p' then Some k else rassoc p r
    end.

  Lemma fwd_key_rassoc : forall kps p,
    fwd_key (map (fun kp => (fst kp, FParam (snd kp))) kps) p = rassoc p kps.
  Proof.
    induction kps as [|[k p'] kps IH]; cbn; intros p; [reflexivity|].
    destruct (String.eqb p p'); [reflexivity | apply IH].
  Qed.

  Lemma rassoc_In : forall p k kps, rassoc p kps = Some k -> In (k, p) kps.
  Proof.
    induction kps as [|[k' p'] kps IH]; cbn; intros H; [discriminate|].
    destruct (String.eqb_spec p p').
    - inversion H; subst. left. reflexivity.
    - right. apply IH. exact H.
  Qed.

  Lemma rassoc_NoDup_In : forall p k kps, NoDup (map snd kps) -> In (k, p) kps -> rassoc p kps = Some k.
  Proof.
    induction kps as [|[k' p'] kps IH]; cbn; intros ND HI; [destruct HI|].
    inversion ND; subst. destruct HI as [E|HI].
    - inversion E; subst. rewrite String.eqb_refl. reflexivity.
    - destruct (String.eqb_spec p p').
      + subst. exfalso. apply H1. change p' with (snd (k, p')). apply in_map. exact HI.
      + apply IH; assumption.
  Qed.

  Lemma rassoc_None : forall p kps, rassoc p kps = None <-> ~ In p (map snd kps).
  Proof.
    induction kps as [|[k' p'] kps IH]; cbn.
    - split; [intros _ [] | reflexivity].
    - destruct (String.eqb_spec p p').
      + split; [discriminate | intros H; exfalso; apply H; left; symmetry; exact e].
      + rewrite IH. split.
        * intros H [E|E]; [apply n; symmetry; exact E | apply H; exact E].
        * intros H E. apply H. right. exact E.
  Qed.

  (* rename over the pair list *)
  Definition rename_p (kps : list (string * string)) (given : list (string * V)) : list (string * V) :=
    flat_map (fun kv => match rassoc (fst kv) kps with Some k => [(k, snd kv)] | None => [] end) given.

  Lemma rename_rename_p : forall kps g,
    rename V (map (fun kp => (fst kp, FParam (snd kp))) kps) g = rename_p kps g.
  Proof.
    intros kps g. unfold rename, rename_p. apply flat_map_ext. intros [k v]. cbn.
    rewrite fwd_key_rassoc. reflexivity.
  Qed.

  Lemma rename_p_keys : forall kps g k, In k (map fst (rename_p kps g)) ->
    exists p, In (k, p) kps /\ In p (map fst g).
  Proof.
    intros kps g k. unfold rename_p. induction g as [|[p v] g IH]; cbn; intros H; [destruct H|].
    rewrite map_app, in_app_iff in H. destruct H as [H|H].
    - destruct (rassoc p kps) as [k'|] eqn:Er; cbn in H; [|destruct H].
      destruct H as [E|[]]. subst k'. exists p. split; [apply rassoc_In; exact Er | left; reflexivity].
    - destruct (IH H) as [p' [H1 H2]]. exists p'. split; [exact H1 | right; exact H2].
  Qed.

  Lemma pairs_fun : forall (kps : list (string * string)) k p p',
    NoDup (map fst kps) -> In (k, p) kps -> In (k, p') kps -> p = p'.
  Proof.
    intros kps k p p' ND H1 H2.
    assert (assoc k kps = Some p) as A1 by (apply assoc_NoDup_In; assumption).
    assert (assoc k kps = Some p') as A2 by (apply assoc_NoDup_In; assumption).
    rewrite A1 in A2. inversion A2. reflexivity.
  Qed.

  Lemma rename_p_assoc : forall kps g k p,
    NoDup (map fst kps) -> NoDup (map snd kps) -> In (k, p) kps ->
    assoc k (rename_p kps g) = assoc p g.
  Proof.
    intros kps g k p NDk NDp HI. unfold rename_p. induction g as [|[p' v] g IH]; cbn; [reflexivity|].
    rewrite assoc_app. destruct (String.eqb_spec p p').
    - subst p'. rewrite (rassoc_NoDup_In p k kps NDp HI). cbn. rewrite String.eqb_refl. reflexivity.
    - destruct (rassoc p' kps) as [k'|] eqn:Er; cbn.
      + destruct (String.eqb_spec k k').
        * subst k'. exfalso. apply rassoc_In in Er. apply n. eapply pairs_fun; eauto.
        * exact IH.
      + exact IH.
  Qed.

  Lemma rename_p_NoDup : forall kps g, NoDup (map fst kps) -> NoDup (map snd kps) -> NoDup (map fst g) ->
    NoDup (map fst (rename_p kps g)).
  Proof.
    intros kps g NDk NDp. unfold rename_p. induction g as [|[p v] g IH]; cbn; intros ND; [constructor|].
    inversion ND; subst. rewrite map_app.
    destruct (rassoc p kps) as [k|] eqn:Er; cbn; [|apply IH; assumption].
    constructor; [|apply IH; assumption].
    intros HI. destruct (rename_p_keys kps g k HI) as [p' [H3 H4]].
    apply rassoc_In in Er. assert (p = p') by (eapply pairs_fun; eauto). subst p'. contradiction.
  Qed.

  Lemma rename_p_assoc_None : forall kps g k, ~ In k (map fst kps) -> assoc k (rename_p kps g) = None.
  Proof.
    intros kps g k H. apply assoc_None. intros HI.
    destruct (rename_p_keys kps g k HI) as [p [H1 _]]. apply H.
    change k with (fst (k, p)). apply in_map. exact H1.
  Qed.

  Lemma zipn_nil : forall A s, @zipn A s [] = Some [].
  Proof. intros A s. destruct s; reflexivity. Qed.

  Lemma zipn_map : forall A B (f : A -> B) s (l : list A) z,
    zipn s l = Some z -> zipn s (map f l) = Some (map (fun kv => (fst kv, f (snd kv))) z).
  Proof.
    intros A B f s. induction s as [|p s IH]; intros l z Hz.
    - destruct l; cbn in *; [inversion Hz; reflexivity | discriminate].
    - destruct l as [|a l]; cbn in *; [inversion Hz; reflexivity|].
      destruct (is_kwonly p); [discriminate|].
      destruct (zipn s l) as [zr|] eqn:Ez; [|discriminate]. inversion Hz; subst z.
      rewrite (IH l zr Ez). reflexivity.
  Qed.

  Lemma zipn_snd : forall A s (l : list A) z, zipn s l = Some z -> map snd z = l.
  Proof.
    intros A s. induction s as [|p s IH]; intros l z Hz.
    - destruct l; cbn in *; [inversion Hz; reflexivity | discriminate].
    - destruct l as [|a l]; cbn in *; [inversion Hz; reflexivity|].
      destruct (is_kwonly p); [discriminate|].
      destruct (zipn s l) as [zr|] eqn:Ez; [|discriminate]. inversion Hz; subst z.
      cbn. rewrite (IH l zr Ez). reflexivity.
  Qed.

  (* what wrapper_struct_ok establishes *)
  Record struct_facts (msig : list param) (w : wrapper) (nf : list (string * fsrc)) (kps : list (string * string)) : Prop := {
    sf_nf : name_fwd msig (w_fwd w) = Some nf;
    sf_shape : nf = map (fun kp => (fst kp, FParam (snd kp))) kps;
    sf_nd_w : NoDup (map p_name (w_sig w));
    sf_nd_m : NoDup (map p_name msig);
    sf_nd_k : NoDup (map fst kps);
    sf_nd_p : NoDup (map snd kps);
    sf_recv : ~ In (w_recv w) (map snd kps);
    sf_p0 : exists p0 rest, w_sig w = p0 :: rest /\ p_name p0 = w_recv w /\ is_kwonly p0 = false;
    sf_kw : forall k, In k (map fst kps) -> kw_ok msig k = true;
    sf_def : forall k p, In (k, p) kps -> exists pw pm,
               find_param (w_sig w) p = Some pw /\ find_param msig k = Some pm /\
               default_compat (p_default pw) (p_default pm) = true;
    sf_opt : forall p, In p (w_sig w) ->
               p_name p = w_recv w \/ In (p_name p) (map snd kps) \/ exists d, p_default p = Some d }.

  Lemma struct_ok_facts : forall msig w, wrapper_struct_ok msig w = true ->
    exists nf kps, struct_facts msig w nf kps.
  Proof.
    intros msig w H. unfold wrapper_struct_ok in H.
    destruct (name_fwd msig (w_fwd w)) as [nf|] eqn:Enf; [|discriminate].
    destruct (all_params nf) as [ps|] eqn:Eps; [|discriminate].
    destruct (all_params_pairs nf ps Eps) as [kps [Hs [Hp Hk]]].
    repeat rewrite andb_true_iff in H.
    destruct H as [[[[[[[[H1 H2] H3] H4] H5] H6] H7] H8] H9].
    exists nf, kps. subst ps.
    constructor.
    - exact Enf.
    - exact Hs.
    - apply nodupb_NoDup. exact H1.
    - apply nodupb_NoDup. exact H2.
    - rewrite <- Hk. apply nodupb_NoDup. exact H3.
    - apply nodupb_NoDup. exact H4.
    - apply mem_false. apply negb_true_iff. exact H5.
    - destruct (w_sig w) as [|p0 rest]; [discriminate|]. exists p0, rest.
      apply andb_true_iff in H6. destruct H6 as [Ha Hb].
      apply String.eqb_eq in Ha. apply negb_true_iff in Hb. repeat split; assumption.
    - intros k Hkk. rewrite forallb_forall in H7. apply H7. rewrite Hk. exact Hkk.
    - intros k p HI. rewrite forallb_forall in H8.
      assert (In (k, FParam p) nf) as HI'.
      { rewrite Hs. apply in_map_iff. exists (k, p). split; [reflexivity | exact HI]. }
      specialize (H8 _ HI'). cbn in H8.
      destruct (find_param (w_sig w) p) as [pw|]; [|discriminate].
      destruct (find_param msig k) as [pm|]; [|discriminate].
      exists pw, pm. repeat split. exact H8.
    - intros p Hp. rewrite forallb_forall in H9. specialize (H9 p Hp).
      repeat rewrite orb_true_iff in H9. destruct H9 as [[Ha|Hb]|Hc].
      + left. apply String.eqb_eq. exact Ha.
      + right. left. apply mem_In. exact Hb.
      + right. right. destruct (p_default p) as [d|]; [exists d; reflexivity | discriminate].
  Qed.

  Lemma default_compat_None : forall dm, default_compat None dm = true -> dm = None.
  Proof. intros [d|]; cbn; [discriminate | reflexivity]. Qed.

  Lemma default_compat_Some : forall dw dm, default_compat (Some dw) dm = true ->
    exists d', dm = Some d' /\ inj dw = inj d'.
  Proof.
    intros dw [d'|]; cbn; [|discriminate]. intros H. exists d'. split; [reflexivity|].
    apply inj_equiv. exact H.
  Qed.

  Theorem wrapper_struct_sound : forall msig w nf kps, struct_facts msig w nf kps ->
    forall recv ps kws pk,
      assign_pos V (w_sig w) (recv :: ps) = Some ((w_recv w, recv) :: pk) ->
      forallb (kw_ok (w_sig w)) (map fst kws) = true ->
      nodupb (w_recv w :: map fst (pk ++ kws)%list) = true ->
      call_wrapper V inj R body msig w (recv :: ps) kws =
      call_method V inj R body msig (target_name w) recv [] (rename V nf (pk ++ kws)%list).
  Proof.
    intros msig w nf kps F recv ps kws pk Hap Hkw Hnd.
    destruct F as [Fnf Fshape Fndw Fndm Fndk Fndp Frecv Fp0 Fkw Fdef Fopt].
    set (g := (pk ++ kws)%list) in *.
    set (rn := w_recv w) in *.
    assert (NoDup (rn :: map fst g)) as NDG by (apply nodupb_NoDup; exact Hnd).
    assert (NoDup (map fst g)) as NDg by (inversion NDG; assumption).
    assert (~ In rn (map fst g)) as Hrn by (inversion NDG; assumption).
    (* right-hand side *)
    assert (call_method V inj R body msig (target_name w) recv [] (rename V nf g) =
            match fill msig (rename_p kps g) with POk e => body (target_name w) recv e | PRaise e => PRaise e end) as RHS.
    { unfold call_method, Dispatch.bind, assign_pos. rewrite zipn_nil. cbn [app].
      rewrite Fshape, rename_rename_p.
      assert (forallb (kw_ok msig) (map fst (rename_p kps g)) = true) as K1.
      { apply forallb_forall. intros k Hk. destruct (rename_p_keys kps g k Hk) as [p [H1 _]].
        apply Fkw. change k with (fst (k, p)). apply in_map. exact H1. }
      rewrite K1. cbn [negb].
      assert (nodupb (map fst (rename_p kps g)) = true) as K2.
      { apply nodupb_NoDup. apply rename_p_NoDup; assumption. }
      rewrite K2. cbn [negb]. reflexivity. }
    rewrite RHS. clear RHS.
    (* left-hand side: binding of the wrapper's own parameters *)
    unfold call_wrapper, Dispatch.bind. rewrite Hap, Hkw. cbn [negb].
    assert (map fst (((rn, recv) :: pk) ++ kws)%list = rn :: map fst g) as Ekeys by reflexivity.
    rewrite Ekeys, Hnd. cbn [negb].
    change ((((rn, recv) :: pk) ++ kws)%list) with ((rn, recv) :: g).
    set (G := (rn, recv) :: g).
    assert (forall p, p <> rn -> assoc p G = assoc p g) as HG.
    { intros p Hp. unfold G. cbn. destruct (String.eqb_spec p rn); [contradiction | reflexivity]. }
    destruct (fill (w_sig w) G) as [env|e] eqn:Efill.
    2:{ (* a required wrapper parameter is missing: the renamed call misses the same parameter *)
      destruct (fill_raise_param _ _ _ Efill) as [He [p [Hp Hn]]]. subst e.
      unfold Dispatch.pval in Hn.
      destruct (assoc (p_name p) G) eqn:EaG; [discriminate|].
      destruct (p_default p) eqn:Ed; [discriminate|].
      destruct (Fopt p Hp) as [H1|[H2|[d H3]]].
      - exfalso. rewrite H1 in EaG. unfold G in EaG. cbn in EaG. rewrite String.eqb_refl in EaG. discriminate.
      - apply in_map_iff in H2. destruct H2 as [[k p'] [E HI]]. cbn in E. subst p'.
        destruct (Fdef k (p_name p) HI) as [pw [pm [Hw [Hm Hc]]]].
        rewrite (find_param_NoDup _ p Fndw Hp) in Hw. inversion Hw; subst pw.
        rewrite Ed in Hc. apply default_compat_None in Hc.
        destruct (find_param_In _ _ _ Hm) as [Hpm Hnm].
        rewrite (fill_raise_intro msig (rename_p kps g) pm Hpm); [reflexivity|].
        unfold Dispatch.pval. rewrite Hnm, (rename_p_assoc kps g k (p_name p) Fndk Fndp HI).
        assert (p_name p <> rn) as Hne.
        { intros E. apply Frecv. rewrite <- E. change (p_name p) with (snd (k, p_name p)). apply in_map. exact HI. }
        rewrite <- (HG _ Hne), EaG, Hc. reflexivity.
      - rewrite H3 in Ed. discriminate. }
    (* all wrapper parameters are bound *)
    destruct Fp0 as [p0 [rest [Esig [Ep0 Ekw0]]]].
    assert (In p0 (w_sig w)) as Hp0 by (rewrite Esig; left; reflexivity).
    destruct (fill_env _ _ _ Fndw Efill p0 Hp0) as [v0 [Hv0 Ha0]].
    unfold Dispatch.pval in Hv0. rewrite Ep0 in Hv0, Ha0. unfold G in Hv0. cbn in Hv0.
    fold rn in Hv0. rewrite String.eqb_refl in Hv0. inversion Hv0; subst v0. clear Hv0.
    fold rn in Ha0. fold rn. rewrite Ha0.
    (* value of a forwarded source in env *)
    set (vv := fun s : fsrc => match src_val V inj env s with Some v => v | None => recv end).
    assert (forall k p, In (k, p) kps -> exists pw, find_param (w_sig w) p = Some pw /\
              src_val V inj env (FParam p) = pval G pw /\ exists v, pval G pw = Some v) as Hsrc.
    { intros k p HI. destruct (Fdef k p HI) as [pw [pm [Hw _]]]. exists pw. split; [exact Hw|].
      destruct (find_param_In _ _ _ Hw) as [Hin Hnm].
      destruct (fill_env _ _ _ Fndw Efill pw Hin) as [v [Hv Ha]].
      cbn. rewrite <- Hnm, Ha, Hv. split; [reflexivity | eauto]. }
    assert (forall s, In s (map snd nf) -> src_val V inj env s = Some (vv s)) as Hvv.
    { intros s Hs. rewrite Fshape, map_map in Hs. apply in_map_iff in Hs. destruct Hs as [[k p] [E HI]].
      cbn in E. subst s. destruct (Hsrc k p HI) as [pw [_ [H2 [v H3]]]].
      unfold vv. rewrite H2, H3. reflexivity. }
    (* decompose the forwarding map *)
    unfold name_fwd in Fnf.
    set (posf := filter (is_kpos) (w_fwd w)) in *.
    set (kwf := filter (fun e => negb (is_kpos e)) (w_fwd w)) in *.
    destruct (zipn msig (map snd posf)) as [z|] eqn:Ez; [|discriminate].
    inversion Fnf as [Enf]. clear Fnf.
    assert (map snd nf = (map snd posf ++ map snd kwf)%list) as Esnd.
    { rewrite <- Enf, map_app, (zipn_snd _ _ _ _ Ez), map_map. reflexivity. }
    assert (fwd_pos V inj env (w_fwd w) = Some (map (fun e => vv (snd e)) posf)) as Epos.
    { unfold fwd_pos. fold posf. apply mapM_total. intros e He. apply Hvv. rewrite Esnd.
      apply in_or_app. left. apply in_map. exact He. }
    assert (fwd_kws V inj env (w_fwd w) = Some (map (fun e => (fkey_name e, vv (snd e))) kwf)) as Ekws.
    { unfold fwd_kws. fold kwf. apply mapM_total. intros e He. rewrite Hvv; [reflexivity|]. rewrite Esnd.
      apply in_or_app. right. apply in_map. exact He. }
    rewrite Epos, Ekws. clear Epos Ekws.
    unfold call_method, Dispatch.bind, assign_pos.
    rewrite <- (map_map snd vv posf), (zipn_map _ _ vv _ _ _ Ez).
    set (NFv := map (fun kv : string * fsrc => (fst kv, vv (snd kv))) nf).
    assert ((map (fun kv : string * fsrc => (fst kv, vv (snd kv))) z ++
             map (fun e => (fkey_name e, vv (snd e))) kwf)%list = NFv) as ENF.
    { unfold NFv. rewrite <- Enf, map_app, map_map. reflexivity. }
    assert (map fst NFv = map fst kps) as Ekeys2.
    { unfold NFv. rewrite map_map. cbn. rewrite Fshape, map_map. reflexivity. }
    assert (forallb (kw_ok msig) (map fst (map (fun e => (fkey_name e, vv (snd e))) kwf)) = true) as K1.
    { apply forallb_forall. intros k Hk. apply Fkw. rewrite <- Ekeys2, <- ENF, map_app.
      apply in_or_app. right. exact Hk. }
    rewrite K1. cbn [negb]. rewrite ENF.
    assert (nodupb (map fst NFv) = true) as K2 by (rewrite Ekeys2; apply nodupb_NoDup; exact Fndk).
    rewrite K2. cbn [negb].
    (* both sides fill msig; compare parameter by parameter *)
    rewrite (fill_ext msig NFv (rename_p kps g)); [reflexivity|].
    intros pm Hpm. unfold Dispatch.pval.
    assert (NFv = map (fun kp => (fst kp, vv (FParam (snd kp)))) kps) as ENF2.
    { unfold NFv. rewrite Fshape, map_map. reflexivity. }
    destruct (in_dec string_dec (p_name pm) (map fst kps)) as [Hin|Hnin].
    - apply in_map_iff in Hin. destruct Hin as [[k p] [E HI]]. cbn in E. subst k.
      assert (assoc (p_name pm) NFv = Some (vv (FParam p))) as A1.
      { apply assoc_NoDup_In; [rewrite Ekeys2; exact Fndk|].
        rewrite ENF2. apply in_map_iff. exists (p_name pm, p). split; [reflexivity | exact HI]. }
      rewrite A1, (rename_p_assoc kps g (p_name pm) p Fndk Fndp HI).
      destruct (Hsrc _ _ HI) as [pw [Hw [H2 [v H3]]]].
      assert (vv (FParam p) = v) as Evv by (unfold vv; rewrite H2, H3; reflexivity).
      rewrite Evv. clear Evv A1.
      destruct (find_param_In _ _ _ Hw) as [Hpw Hnw].
      assert (p <> rn) as Hne.
      { intros E. apply Frecv. rewrite <- E. change p with (snd (p_name pm, p)). apply in_map. exact HI. }
      unfold Dispatch.pval in H3. rewrite Hnw, (HG _ Hne) in H3.
      destruct (assoc p g) as [vg|] eqn:Eg.
      + inversion H3; subst. reflexivity.
      + destruct (Fdef _ _ HI) as [pw' [pm' [Hw' [Hm' Hc]]]].
        rewrite Hw in Hw'. inversion Hw'; subst pw'.
        rewrite (find_param_NoDup _ pm Fndm Hpm) in Hm'. inversion Hm'; subst pm'.
        destruct (p_default pw) as [dw|]; [|discriminate]. inversion H3; subst v.
        destruct (default_compat_Some _ _ Hc) as [d' [E1 E2]]. rewrite E1, E2. reflexivity.
    - assert (assoc (p_name pm) NFv = None) as A1 by (apply assoc_None; rewrite Ekeys2; exact Hnin).
      rewrite A1, (rename_p_assoc_None kps g _ Hnin). reflexivity.
  Qed.

End WrapperSound.

(* ------------------------------------------------------------------ wrapper_ok_sound *)
Section WrapperOk.
  Variable V : Type.
  Variable inj : lit -> V.
  Variable R : Type.
  Variable body : string -> V -> list (string * V) -> pres R.
  Hypothesis inj_equiv : forall a b, lit_equiv a b = true -> inj a = inj b.

  (* Calling the namespace function is calling the method with the explicitly passed arguments renamed
     through the forwarding map (dropped parameters omitted), for every receiver, every further positional
     and keyword argument that is a well-formed call of the wrapper. *)
  Theorem wrapper_ok_sound_proof : forall msig w, wrapper_ok msig w = true ->
    exists nf, name_fwd msig (w_fwd w) = Some nf /\
    forall recv ps kws pk,
      assign_pos V (w_sig w) (recv :: ps) = Some ((w_recv w, recv) :: pk) ->
      forallb (kw_ok (w_sig w)) (map fst kws) = true ->
      nodupb (w_recv w :: map fst (pk ++ kws)%list) = true ->
      call_wrapper V inj R body msig w (recv :: ps) kws =
      call_method V inj R body msig (target_name w) recv [] (rename V nf (pk ++ kws)%list).
  Proof.
    intros msig w H. unfold wrapper_ok in H. repeat rewrite andb_true_iff in H. destruct H as [[_ Hs] _].
    destruct (struct_ok_facts msig w Hs) as [nf [kps F]].
    exists nf. split; [exact (sf_nf _ _ _ _ F)|].
    intros. eapply wrapper_struct_sound; eauto.
  Qed.

  (* a malformed call of the wrapper (unknown / repeated keyword, too many positionals) is a TypeError *)
  Lemma wrapper_rejects_malformed : forall msig w pos kws,
    (assign_pos V (w_sig w) pos = None \/ forallb (kw_ok (w_sig w)) (map fst kws) = false) ->
    call_wrapper V inj R body msig w pos kws = PRaise PTypeError.
  Proof.
    intros msig w pos kws [H|H]; unfold call_wrapper, Dispatch.bind.
    - rewrite H. reflexivity.
    - destruct (assign_pos V (w_sig w) pos); [|reflexivity]. rewrite H. reflexivity.
  Qed.
End WrapperOk.

(* non-vacuity: an instance of the section hypotheses, and the theorem's equation on a real wrapper *)
Definition norm_lit (l : lit) : lit := match l with LFloat z => LInt z | _ => l end.

Lemma lit_eqb_eq : forall a b, lit_eqb a b = true -> a = b.
Proof.
  intros x y. destruct x, y; cbn; intros H; try discriminate; try reflexivity.
  - apply Bool.eqb_prop in H. subst. reflexivity.
  - apply Z.eqb_eq in H. subst. reflexivity.
  - apply Z.eqb_eq in H. subst. reflexivity.
  - apply String.eqb_eq in H. subst. reflexivity.
  - apply String.eqb_eq in H. subst. reflexivity.
  - apply String.eqb_eq in H. subst. reflexivity.
Qed.

Lemma norm_lit_equiv : forall a b, lit_equiv a b = true -> norm_lit a = norm_lit b.
Proof.
  intros x y. destruct x, y; cbn; intros H; try discriminate; try reflexivity;
    try (apply Z.eqb_eq in H; subst; reflexivity);
    try (apply Bool.eqb_prop in H; subst; reflexivity);
    try (apply String.eqb_eq in H; subst; reflexivity).
Qed.

Definition demo_body (m : string) (recv : lit) (env : list (string * lit)) : pres (string * lit * list (string * lit)) :=
  POk (m, recv, env).

Example wrapper_ok_sound_example :
  exists msig, method_sig tables "GCXS" "var" = Some msig /\ wrapper_ok msig w_var = true /\
  call_wrapper lit norm_lit _ demo_body msig w_var [LStr "x"] [("correction", LInt 1); ("axis", LInt 0)] =
  call_method lit norm_lit _ demo_body msig "var" (LStr "x") [] [("ddof", LInt 1); ("axis", LInt 0)] /\
  call_wrapper lit norm_lit _ demo_body msig w_var [LStr "x"] [] =
  POk ("var", LStr "x", [("axis", LNone); ("dtype", LNone); ("out", LNone); ("ddof", LInt 0); ("keepdims", LBool false)]).
Proof. eexists. split; [reflexivity|]. split; [vm_compute; reflexivity|]. split; vm_compute; reflexivity. Qed.

(* ------------------------------------------------------------------ the generated wrapper table *)

Definition wrapper_faithful_for (cls : string) (w : wrapper) : bool :=
  match method_sig tables cls (target_name w) with
  | Some msig => wrapper_ok msig w
  | None => true       (* the class has no such method: nothing to forward to *)
  end.

Lemma wrappers_faithful_table :
  forallb (fun cls => forallb (fun w => wrapper_faithful_for cls w) wrappers) classes = true.
Proof. vm_compute. reflexivity. Qed.

(* EVERY generated wrapper is faithful for every class that has the target method (no clause left) *)
Lemma wrappers_faithful_proof : forall cls w msig,
  In cls classes -> In w wrappers ->
  method_sig tables cls (target_name w) = Some msig -> wrapper_ok msig w = true.
Proof.
  intros cls w msig Hc Hw Hm.
  pose proof wrappers_faithful_table as H. rewrite forallb_forall in H. specialize (H cls Hc).
  rewrite forallb_forall in H. specialize (H w Hw).
  unfold wrapper_faithful_for in H. rewrite Hm in H. exact H.
Qed.

Ltac in_list := cbn; repeat (first [left; reflexivity | right]).
(* membership in a generated association table, by computation *)
Ltac in_table := apply assoc_In; vm_compute; reflexivity.

Example wrappers_faithful_example :
  In w_clip wrappers /\ exists msig, method_sig tables "GCXS" "clip" = Some msig /\ wrapper_ok msig w_clip = true.
Proof. split; [in_list|]. eexists. split; [reflexivity | vm_compute; reflexivity]. Qed.

(* NumPy's own call shapes against the wrapper's signature: np.sum(x, 0) and np.var(x, ddof=1) bind to the
   method but not to the namespace function that NEP-18 dispatches to *)
Lemma np_call_shapes_refuted_proof :
  exists w msig npos kws, In w wrappers /\ method_sig tables "COO" (target_name w) = Some msig /\
    bind_shape msig npos kws = true /\ bind_shape (w_sig w) (S npos) kws = false.
Proof.
  exists w_sum. eexists. exists 1%nat, []. split; [in_list|]. split; [reflexivity|]. split; vm_compute; reflexivity.
Qed.

Lemma np_keyword_refuted_proof :
  exists w msig kws, In w wrappers /\ method_sig tables "COO" (target_name w) = Some msig /\
    bind_shape msig 0 kws = true /\ bind_shape (w_sig w) 1 kws = false.
Proof.
  exists w_var. eexists. exists ["ddof"]. split; [in_list|]. split; [reflexivity|]. split; vm_compute; reflexivity.
Qed.

(* the named reductions of SparseArray forward every one of their parameters under its own name *)
Definition identity_fwd (fwd : list (fkey * fsrc)) : bool :=
  match fwd with
  | (KPos, FParam "self") :: r =>
      forallb (fun e => match e with (KKw k, FParam p) => String.eqb k p | _ => false end) r
  | _ => false
  end.

Definition method_forwards_ok (a : attr) : bool :=
  match a with
  | AMethod _ (Some sg) (BUfuncMethod _ _ fwd) =>
      identity_fwd fwd && forallb (fun p => existsb (fun e => match e with (KKw k, _) => String.eqb k (p_name p) | _ => false end) fwd) sg
  | _ => true
  end.

Lemma reductions_forward_identically_proof :
  forall cls l name a, In (cls, l) class_attrs -> In (name, a) l -> method_forwards_ok a = true.
Proof.
  assert (forallb (fun cl => forallb (fun na => method_forwards_ok (snd na)) (snd cl)) class_attrs = true) as H
    by (vm_compute; reflexivity).
  intros cls l name a Hc Hn. rewrite forallb_forall in H. specialize (H _ Hc). cbn in H.
  rewrite forallb_forall in H. exact (H _ Hn).
Qed.

(* every binary operator method passes its operands in the order Python's protocol prescribes *)
Lemma operators_operand_order_proof : forall cls, In cls classes -> operand_order_ok tables cls = true.
Proof.
  assert (forallb (operand_order_ok tables) classes = true) as H by (vm_compute; reflexivity).
  intros cls Hc. rewrite forallb_forall in H. exact (H cls Hc).
Qed.

(* ------------------------------------------------------------------ resolve *)

Lemma leaf_eqb_eq : forall a b, leaf_eqb a b = true -> a = b.
Proof.
  induction a; destruct b; cbn; intros H; try discriminate; try reflexivity;
    try (apply andb_true_iff in H; destruct H as [H1 H2]; apply String.eqb_eq in H1; apply String.eqb_eq in H2;
         subst; reflexivity);
    try (apply String.eqb_eq in H; subst; reflexivity).
  f_equal. apply IHa. exact H.
Qed.

Lemma leaf_eqb_refl : forall a, leaf_eqb a a = true.
Proof. induction a; cbn; try reflexivity; try (rewrite !String.eqb_refl; reflexivity); assumption. Qed.

Definition agree_clauses (cls op : string) (ss : list spelling) : bool :=
  supported tables cls ss && clause_single_algorithm cls op.

Lemma spellings_agree_table :
  forallb (fun cls => forallb (fun os => implb (agree_clauses cls (fst os) (snd os)) (all_same_leaf tables cls (snd os)))
                              op_classes) classes = true.
Proof. vm_compute. reflexivity. Qed.

Lemma all_same_leaf_pair : forall T cls ss s1 s2, all_same_leaf T cls ss = true ->
  In s1 ss -> In s2 ss -> resolve T false FUEL cls s1 = resolve T false FUEL cls s2.
Proof.
  intros T cls ss s1 s2 H H1 H2. destruct ss as [|s0 r]; [destruct H1|].
  unfold all_same_leaf in H. rewrite forallb_forall in H.
  assert (forall s, In s (s0 :: r) -> resolve T false FUEL cls s0 = resolve T false FUEL cls s) as A.
  { intros s [E|Hs]; [subst; reflexivity|]. apply leaf_eqb_eq. apply H. exact Hs. }
  rewrite <- (A s1 H1), <- (A s2 H2). reflexivity.
Qed.

Lemma implb_elim : forall a b, implb a b = true -> a = true -> b = true.
Proof. intros a b H Ha. subst. exact H. Qed.

Lemma spellings_agree_partial_proof : forall cls op ss s1 s2,
  In cls classes -> In (op, ss) op_classes ->
  supported tables cls ss = true -> clause_single_algorithm cls op = true ->
  In s1 ss -> In s2 ss ->
  resolve tables false FUEL cls s1 = resolve tables false FUEL cls s2.
Proof.
  intros cls op ss s1 s2 Hc Ho Hs Ha H1 H2.
  pose proof spellings_agree_table as T.
  pose proof (proj1 (forallb_forall _ _) T cls Hc) as T1.
  pose proof (proj1 (forallb_forall _ _) T1 (op, ss) Ho) as T2.
  apply (all_same_leaf_pair tables cls ss s1 s2); [|exact H1|exact H2].
  apply (implb_elim _ _ T2). unfold agree_clauses.
  change (fst (op, ss)) with op. change (snd (op, ss)) with ss.
  rewrite Hs, Ha. reflexivity.
Qed.

(* refutation witnesses, one per clause *)
Lemma spellings_two_algorithms_refuted_proof :
  exists cls op ss s1 s2, In cls classes /\ In (op, ss) op_classes /\ In s1 ss /\ In s2 ss /\
    supported tables cls ss = true /\
    resolve tables false FUEL cls s1 = LfBody "COO" "isnan" /\ resolve tables false FUEL cls s2 = LfElemwise "isnan".
Proof.
  exists "COO", "isnan". eexists. exists (Method "isnan"), (Ufunc "isnan" "__call__").
  split; [in_list|]. split; [in_table|]. split; [in_list|]. split; [in_list|].
  split; [vm_compute; reflexivity|]. split; vm_compute; reflexivity.
Qed.

(* no spelling of any generated class reaches an abstract stub (one that returns None) any more *)
Definition is_stub_leaf (l : leaf) : bool := match l with LfStub _ => true | _ => false end.

Lemma no_spelling_reaches_a_stub_proof : forall cls op ss s,
  In cls classes -> In (op, ss) op_classes -> In s ss -> is_stub_leaf (resolve tables false FUEL cls s) = false.
Proof.
  assert (forallb (fun cls => forallb (fun os => forallb (fun s => negb (is_stub_leaf (resolve tables false FUEL cls s)))
                                                        (snd os)) op_classes) classes = true) as H
    by (vm_compute; reflexivity).
  intros cls op ss s Hc Ho Hs.
  pose proof (proj1 (forallb_forall _ _) H cls Hc) as H1.
  pose proof (proj1 (forallb_forall _ _) H1 (op, ss) Ho) as H2.
  pose proof (proj1 (forallb_forall _ _) H2 s Hs) as H3.
  apply negb_true_iff. exact H3.
Qed.

(* no spelling of any generated class converts its receiver to another format first *)
Definition is_coerced_leaf (l : leaf) : bool := match l with LfCoerced _ => true | _ => false end.

Lemma no_spelling_coerces_proof : forall cls op ss s,
  In cls classes -> In (op, ss) op_classes -> In s ss -> is_coerced_leaf (resolve tables false FUEL cls s) = false.
Proof.
  assert (forallb (fun cls => forallb (fun os => forallb (fun s => negb (is_coerced_leaf (resolve tables false FUEL cls s)))
                                                        (snd os)) op_classes) classes = true) as H
    by (vm_compute; reflexivity).
  intros cls op ss s Hc Ho Hs.
  pose proof (proj1 (forallb_forall _ _) H cls Hc) as H1.
  pose proof (proj1 (forallb_forall _ _) H1 (op, ss) Ho) as H2.
  pose proof (proj1 (forallb_forall _ _) H2 s Hs) as H3.
  apply negb_true_iff. exact H3.
Qed.

(* the own bodies that duplicate a ufunc path construct their result with prune=True (or delegate to the COO body) *)
Lemma dup_bodies_prune_proof : forall cls m b, In (cls, m, b) dup_bodies -> dup_body_prunes b = true.
Proof.
  assert (forallb (fun e => dup_body_prunes (snd e)) dup_bodies = true) as H by (vm_compute; reflexivity).
  intros cls m b Hi. exact (proj1 (forallb_forall _ _) H (cls, m, b) Hi).
Qed.

Example dup_bodies_example :
  In ("COO", "isnan", DupCtor "COO" [("shape", LOpaque "self.shape"); ("fill_value", LName "new_fill_value"); ("prune", LBool true)]) dup_bodies /\
  dup_body_prunes (DupCtor "COO" [("has_duplicates", LBool false); ("sorted", LBool true)]) = false.
Proof. split; [in_list | reflexivity]. Qed.

(* an operation a class does not support at all fails with different exception classes *)
Lemma unsupported_exception_class_refuted_proof :
  exists op ss s1 s2, In (op, ss) op_classes /\ In s1 ss /\ In s2 ss /\
    resolve tables false FUEL "DOK" s1 = LfAttributeError /\ resolve tables false FUEL "DOK" s2 = LfTypeError.
Proof.
  exists "permute_dims". eexists. exists (Method "transpose"), (NumpyFunction "transpose" true).
  split; [in_table|]. split; [in_list|]. split; [in_list|]. split; vm_compute; reflexivity.
Qed.

Example spellings_agree_example :
  In ("sum", [Namespace "sum"; ArrayNamespace "sum"; Method "sum"; NumpyFunction "sum" true; Ufunc "add" "reduce"]) op_classes /\
  agree_clauses "GCXS" "sum" [Namespace "sum"; ArrayNamespace "sum"; Method "sum"; NumpyFunction "sum" true; Ufunc "add" "reduce"] = true /\
  resolve tables false FUEL "GCXS" (NumpyFunction "sum" true) = LfReduce "add" /\
  resolve tables false FUEL "COO" (Operator "add" SideR) = LfElemwise "add" /\
  resolve tables false FUEL "DOK" (Operator "matmul" SideL) = LfFunc "matmul" /\
  resolve tables false FUEL "COO" (Operator "matmul" SideR) = LfFunc "matmul".
Proof. split; [in_table|]. repeat split; vm_compute; reflexivity. Qed.

(* ---------------- a NumPy function the library does not implement *)

Lemma unimplemented_raises_gen : forall T ad fuel cls n name subs unary,
  t_af T = [AfNamespace; AfType; AfProperty; AfNoneNotImplemented; AfCall] ->
  assoc n (t_numpy T) = Some (NpFunction name subs) ->
  (subs = [] -> assoc name (t_namespace T) = None) ->
  attr_lookup T cls name = None -> inst_has T cls name = false ->
  resolve T ad (S (S fuel)) cls (NumpyFunction n unary) = LfTypeError.
Proof.
  intros T ad fuel cls n name subs unary Haf Hn Hns Hat Hin.
  cbn [resolve]. rewrite Hn, Haf.
  destruct subs as [|s0 subs].
  - rewrite (Hns eq_refl), Hat. cbn [andb]. destruct unary; [rewrite Hin|]; reflexivity.
  - rewrite Hat. cbn [andb]. destruct unary; [rewrite Hin|]; reflexivity.
Qed.

Lemma unimplemented_raises_proof : forall cls n name subs unary,
  assoc n numpy_names = Some (NpFunction name subs) ->
  (subs = [] -> assoc name namespace = None) ->
  attr_lookup tables cls name = None -> inst_has tables cls name = false ->
  resolve tables false FUEL cls (NumpyFunction n unary) = LfTypeError.
Proof.
  intros. unfold FUEL. eapply unimplemented_raises_gen; eauto.
Qed.

Example unimplemented_raises_example :
  assoc "cumsum" numpy_names = Some (NpFunction "cumsum" []) /\ assoc "cumsum" namespace = None /\
  attr_lookup tables "COO" "cumsum" = None /\ inst_has tables "COO" "cumsum" = false /\
  resolve tables false FUEL "COO" (NumpyFunction "linalg.norm" true) = LfTypeError.
Proof. repeat split; vm_compute; reflexivity. Qed.

(* ufunc methods other than __call__, reduce, outer are declined *)
Lemma ufunc_method_unhandled_gen : forall T ad fuel cls u name m,
  assoc u (t_numpy T) = Some (NpUfunc name false) ->
  au_branches (t_au T) = [("__call__", AuElemwise); ("reduce", AuReduce)] ->
  au_default_notimplemented (t_au T) = true ->
  m <> "__call__" -> m <> "reduce" -> m <> "outer" ->
  resolve T ad (S fuel) cls (Ufunc u m) = LfTypeError.
Proof.
  intros T ad fuel cls u name m Hu Hb Hd H1 H2 H3.
  cbn [resolve]. rewrite Hu. unfold au_dispatch. rewrite Hb, Hd.
  destruct (String.eqb_spec m "outer"); [contradiction|].
  cbn [assoc]. destruct (String.eqb_spec m "__call__"); [contradiction|].
  destruct (String.eqb_spec m "reduce"); [contradiction|]. reflexivity.
Qed.

Lemma ufunc_method_unhandled_raises_proof : forall cls u name m,
  assoc u numpy_names = Some (NpUfunc name false) ->
  m <> "__call__" -> m <> "reduce" -> m <> "outer" ->
  resolve tables false FUEL cls (Ufunc u m) = LfTypeError.
Proof.
  intros cls u name m Hu H1 H2 H3. unfold FUEL.
  apply (ufunc_method_unhandled_gen tables false _ cls u name m); try assumption; reflexivity.
Qed.

Example ufunc_method_unhandled_example :
  assoc "add" numpy_names = Some (NpUfunc "add" false) /\
  resolve tables false FUEL "GCXS" (Ufunc "add" "accumulate") = LfTypeError /\
  resolve tables false FUEL "GCXS" (Ufunc "add" "reduceat") = LfTypeError /\
  resolve tables false FUEL "GCXS" (Ufunc "add" "outer") = LfOuter "add" /\
  resolve tables false FUEL "GCXS" (Ufunc "add" "reduce") = LfReduce "add".
Proof. repeat split; vm_compute; reflexivity. Qed.

(* the non-dispatched route into __array__ raises while SPARSE_AUTO_DENSIFY is unset *)
Lemma array_coercion_raises_proof : forall cls, resolve tables false FUEL cls ArrayCoercion = LfRuntimeError.
Proof. intros. reflexivity. Qed.

Lemma array_namespace_is_namespace_proof : forall ad fuel cls n,
  resolve tables ad (S fuel) cls (ArrayNamespace n) = resolve tables ad fuel cls (Namespace n).
Proof. intros. reflexivity. Qed.

(* ---------------- no spelling at all reaches a densification while the guard of __array__ is in place *)
Fixpoint has_densify (l : leaf) : bool :=
  match l with LfDensify => true | LfCoerced x => has_densify x | _ => false end.

Lemma never_densifies_table :
  forallb (fun cls => forallb (fun nk =>
     negb (has_densify (resolve tables false FUEL cls (NumpyFunction (fst nk) true))) &&
     negb (has_densify (resolve tables false FUEL cls (NumpyFunction (fst nk) false))) &&
     negb (has_densify (resolve tables false FUEL cls (Ufunc (fst nk) "__call__")))) numpy_names) classes = true.
Proof. vm_compute. reflexivity. Qed.

Lemma numpy_names_never_densify_proof : forall cls n k unary, In cls classes -> In (n, k) numpy_names ->
  has_densify (resolve tables false FUEL cls (NumpyFunction n unary)) = false.
Proof.
  intros cls n k unary Hc Hn. pose proof never_densifies_table as T.
  rewrite forallb_forall in T. specialize (T cls Hc). rewrite forallb_forall in T. specialize (T _ Hn).
  cbn [fst] in T. repeat rewrite andb_true_iff in T. destruct T as [[T1 T2] _].
  destruct unary; [apply negb_true_iff in T1; exact T1 | apply negb_true_iff in T2; exact T2].
Qed.

(* for EVERY spelling (any name, any ufunc method, any operator), with the guard of __array__ in place and
   SPARSE_AUTO_DENSIFY unset, the dispatch never ends in a densification *)
Lemma au_dispatch_nd : forall T u m, has_densify (au_dispatch T u m) = false.
Proof.
  intros. unfold au_dispatch.
  destruct (assoc _ (au_branches (t_au T))) as [[|]|]; try reflexivity.
  - destruct (String.eqb m "outer"); reflexivity.
  - destruct (au_default_notimplemented (t_au T)); reflexivity.
Qed.

Ltac nd_step IH :=
  repeat (first [ reflexivity | apply IH | apply au_dispatch_nd
                | match goal with |- context [match ?x with _ => _ end] => destruct x end ]).

Lemma resolve_never_densifies_proof : forall T, t_array_guard T = true ->
  forall fuel cls s, has_densify (resolve T false fuel cls s) = false.
Proof.
  intros T Hg. induction fuel as [|fuel IH]; intros cls s; [reflexivity|].
  destruct s; cbn [resolve].
  - nd_step IH.
  - nd_step IH.
  - destruct (assoc n (t_namespace T)) as [e|]; [|reflexivity].
    destruct e; try reflexivity; try apply IH.
    destruct (w_coerce w).
    + destruct (String.eqb cls "COO"); [|cbn [has_densify]]; destruct (w_target w); apply IH.
    + destruct (w_target w); apply IH.
  - destruct (String.eqb (t_array_namespace T) "sparse"); [apply IH | reflexivity].
  - destruct (assoc n (t_numpy T)) as [k|]; [|reflexivity].
    destruct k; try reflexivity; try apply IH.
    generalize FoundNothing. generalize (t_af T) as steps.
    induction steps as [|st steps IHs]; intros found; [reflexivity|].
    destruct st.
    + destruct submodules; [|apply IHs]. destruct (assoc name (t_namespace T)); [apply IH | apply IHs].
    + apply IHs.
    + match goal with |- context [if ?c then _ else _] => destruct c end; [|apply IHs].
      pose proof (IH cls (Attr name)) as HA.
      destruct (resolve T false fuel cls (Attr name)); try exact HA; try reflexivity. apply IHs.
    + destruct found; [reflexivity | apply IHs].
    + destruct found as [|a]; [reflexivity|]. destruct a as [d sg b|d b|d]; try reflexivity. nd_step IH.
  - destruct (assoc u (t_numpy T)) as [k|]; [|apply au_dispatch_nd].
    destruct k; try apply au_dispatch_nd.
    destruct gufunc; [|apply au_dispatch_nd].
    destruct (au_gufunc_to_function (t_au T)); [|apply au_dispatch_nd].
    destruct (assoc name (t_namespace T)); [apply IH|]. nd_step IH.
  - apply IH.
  - rewrite Hg. reflexivity.
Qed.

(* ------------------------------------------------------------------ operand order of ufunc.outer *)
Section OuterOrder.
  Variable A : Type.

  Lemma zsum_app : forall l1 l2, zsum (l1 ++ l2) = (zsum l1 + zsum l2)%Z.
  Proof. induction l1 as [|x l1 IH]; intros l2; cbn [zsum app]; [reflexivity|]. rewrite IH. lia. Qed.

  Lemma zsum_rev : forall l, zsum (rev l) = zsum l.
  Proof. induction l as [|x l IH]; cbn [rev zsum]; [reflexivity|]. rewrite zsum_app, IH. cbn [zsum]. lia. Qed.

  Lemma outer_walk_snoc : forall (l : list (A * Z)) a nd c,
    outer_walk A true (l ++ [(a, nd)]) c = (outer_walk A true l c ++ [(a, (c + zsum (map snd l))%Z)])%list.
  Proof.
    induction l as [|[b m] l IH]; intros a nd c; cbn [app outer_walk map zsum snd].
    - f_equal. f_equal. lia.
    - rewrite IH. cbn [app]. f_equal. f_equal. f_equal. f_equal. lia.
  Qed.

  Lemma rev_walk_spec : forall l : list (A * Z), rev (outer_walk A true (rev l) 0%Z) = np_outer_spec A l.
  Proof.
    induction l as [|[a nd] l IH]; [reflexivity|].
    cbn [rev np_outer_spec]. rewrite outer_walk_snoc, rev_app_distr. cbn [rev app].
    rewrite IH, map_rev, zsum_rev. reflexivity.
  Qed.

  (* with the bookkeeping the source has today — walk reversed(inputs), append before incrementing cum_ndim,
     reverse the list back — the operands reach elemwise in CALL order with NumPy's index expansion,
     for every number of operands and every ndim *)
  Lemma outer_inputs_spec : forall o l,
    o = mkOuter true true true -> outer_inputs A o l = np_outer_spec A l.
  Proof. intros o l ->. unfold outer_inputs. cbn. apply rev_walk_spec. Qed.
End OuterOrder.

Lemma ufunc_outer_operand_order_proof : forall (A : Type) (l : list (A * Z)),
  match au_outer_order au_facts with
  | Some o => outer_inputs A o l = np_outer_spec A l
  | None => False
  end.
Proof. intros A l. exact (outer_inputs_spec A (mkOuter true true true) l eq_refl). Qed.

(* dropping either reversal swaps the operands *)
Example outer_order_matters :
  outer_inputs string (mkOuter true false true) [("x", 1%Z); ("y", 1%Z)] = [("y", 0%Z); ("x", 1%Z)] /\
  outer_inputs string (mkOuter true true true) [("x", 1%Z); ("y", 1%Z)] = [("x", 1%Z); ("y", 0%Z)] /\
  outer_inputs string (mkOuter true true true) [("x", 2%Z); ("y", 1%Z); ("z", 3%Z)] = [("x", 4%Z); ("y", 3%Z); ("z", 0%Z)].
Proof. repeat split. Qed.
