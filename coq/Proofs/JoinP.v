(* Proofs/JoinP.v — the COO joiners denote np.concatenate / np.stack and return canonical
   arrays; the indptr splicing loop of the GCXS joiners computes prefix sums. *)
From Coq Require Import ZArith List Bool Lia ZifyBool Sorting.Sorted Sorting.Permutation.
From Verif Require Import Py PyExt Shape COO COOP GCXS NpJoin G_join S_join Join.
Import ListNotations.
Open Scope Z_scope.

(* ================================================================ index-tuple surgery *)

Lemma upd_length k f l : length (upd k f l) = length l.
Proof. revert k; induction l as [|x l IH]; intros [|k]; simpl; auto. Qed.

Lemma upd_upd k f g l : upd k g (upd k f l) = upd k (fun x => g (f x)) l.
Proof. revert k; induction l as [|x l IH]; intros [|k]; simpl; auto. f_equal. apply IH. Qed.

Lemma upd_ext k f g l : (forall x, f x = g x) -> upd k f l = upd k g l.
Proof. intros H. revert k; induction l as [|x l IH]; intros [|k]; simpl; auto; f_equal; auto. Qed.

Lemma upd_id k l : upd k (fun x => x) l = l.
Proof. revert k; induction l as [|x l IH]; intros [|k]; simpl; auto. f_equal. apply IH. Qed.

Lemma upd_add0 k l : upd k (fun c => c + 0) l = l.
Proof. rewrite (upd_ext k _ (fun x => x)); [apply upd_id|intros; lia]. Qed.

Lemma nth_upd k f l d : (k < length l)%nat -> nth k (upd k f l) d = f (nth k l d).
Proof. revert k; induction l as [|x l IH]; intros [|k] H; simpl in *; try lia; auto. apply IH. lia. Qed.

Lemma upd_shift_iff k d a b : upd k (fun c => c + d) a = b <-> a = upd k (fun c => c - d) b.
Proof.
  split; intros H; subst.
  - rewrite upd_upd. rewrite (upd_ext k _ (fun x => x)); [symmetry; apply upd_id|intros; lia].
  - rewrite upd_upd. rewrite (upd_ext k _ (fun x => x)); [apply upd_id|intros; lia].
Qed.

Lemma ins_length k v l : (k <= length l)%nat -> length (ins k v l) = S (length l).
Proof. revert l; induction k as [|k IH]; intros [|x l] H; simpl in *; try lia; auto. rewrite IH; lia. Qed.

Lemma del_ins k v l : (k <= length l)%nat -> del k (ins k v l) = l.
Proof. revert l; induction k as [|k IH]; intros [|x l] H; simpl in *; try lia; auto. f_equal. apply IH. lia. Qed.

Lemma nth_ins k v l d : (k <= length l)%nat -> nth k (ins k v l) d = v.
Proof. revert l; induction k as [|k IH]; intros [|x l] H; simpl in *; try lia; auto. apply IH. lia. Qed.

Lemma ins_del k l d : (k < length l)%nat -> ins k (nth k l d) (del k l) = l.
Proof. revert k; induction l as [|x l IH]; intros [|k] H; simpl in *; try lia; auto. f_equal. apply IH. lia. Qed.

Lemma del_length k l : (k < length l)%nat -> length (del k l) = pred (length l).
Proof.
  revert k; induction l as [|x l IH]; intros [|k] H; simpl in *; try lia; auto.
  rewrite IH by lia. destruct l; simpl in *; lia.
Qed.

Lemma ins_iff k v a b : (k <= length a)%nat ->
  (ins k v a = b <-> ((k < length b)%nat /\ nth k b 0 = v /\ del k b = a)).
Proof.
  intros Hk. split.
  - intros <-. rewrite ins_length by lia. repeat split; [lia|apply nth_ins; lia|apply del_ins; lia].
  - intros [Hb [<- <-]]. apply ins_del. lia.
Qed.

(* ================================================================ lookup *)

Section WithV.
  Variable V : Type.
  Variable veqb : V -> V -> bool.
  Hypothesis veqb_eq : forall a b, veqb a b = true <-> a = b.
  (* (vzero, vadd are explicit arguments of the few statements that need them: section variables of
     type V would be captured by every proof that calls lia) *)

  Notation coo := (coo V).
  Notation canonical := (@canonical V).

  Lemma lookup_app (e1 e2 : list (idx * V)) ix :
    lookup (e1 ++ e2) ix = match lookup e2 ix with Some w => Some w | None => lookup e1 ix end.
  Proof.
    induction e1 as [|[k v] r IH]; simpl.
    - destruct (lookup e2 ix); reflexivity.
    - rewrite IH. destruct (lookup e2 ix); [reflexivity|]. reflexivity.
  Qed.

  (* keys transformed by f; g undoes f on the query side *)
  Lemma lookup_map_key (f g : idx -> idx) (es : list (idx * V)) ix :
    (forall k, In k (map fst es) -> (f k = ix <-> k = g ix)) ->
    lookup (map (fun e => (f (fst e), snd e)) es) ix = lookup es (g ix).
  Proof.
    induction es as [|[k v] r IH]; simpl; intros H; [reflexivity|].
    rewrite IH by (intros; apply H; auto).
    destruct (lookup r (g ix)); [reflexivity|].
    destruct (idx_eqb (f k) ix) eqn:E1, (idx_eqb k (g ix)) eqn:E2; try reflexivity.
    - apply idx_eqb_eq in E1. apply H in E1; [|auto]. subst k. rewrite idx_eqb_refl in E2. discriminate.
    - apply idx_eqb_eq in E2. apply H in E2; [|auto]. rewrite <- E2, idx_eqb_refl in E1. discriminate.
  Qed.

  Lemma lookup_none_keys (es : list (idx * V)) ix :
    (forall k, In k (map fst es) -> k <> ix) -> lookup es ix = None.
  Proof. intros H. apply lookup_notin. intros Hin. apply (H ix Hin). reflexivity. Qed.

  Lemma lookup_perm (e1 e2 : list (idx * V)) ix :
    Permutation e1 e2 -> NoDup (map fst e1) -> lookup e1 ix = lookup e2 ix.
  Proof.
    intros Hp Hnd.
    assert (Hnd2 : NoDup (map fst e2)) by (eapply Permutation_NoDup; [apply Permutation_map; exact Hp|exact Hnd]).
    destruct (lookup e1 ix) as [v|] eqn:E1.
    - apply (lookup_In V) in E1; [|assumption]. symmetry. apply (lookup_In V); [assumption|].
      eapply Permutation_in; eauto.
    - destruct (lookup e2 ix) as [w|] eqn:E2; [|reflexivity].
      apply (lookup_In V) in E2; [|assumption].
      apply Permutation_sym in Hp. pose proof (Permutation_in _ Hp E2) as Hin.
      apply (lookup_In V) in Hin; [|assumption]. congruence.
  Qed.

  Lemma combine_app {A B} (l1 l1' : list A) (l2 l2' : list B) :
    length l1 = length l2 -> combine (l1 ++ l1') (l2 ++ l2') = combine l1 l2 ++ combine l1' l2'.
  Proof. revert l2; induction l1; intros [|b l2] H; simpl in *; try discriminate; auto. f_equal. apply IHl1. lia. Qed.

  Lemma combine_map_l {A A' B} (f : A -> A') (l1 : list A) (l2 : list B) :
    combine (map f l1) l2 = map (fun e => (f (fst e), snd e)) (combine l1 l2).
  Proof. revert l2; induction l1; intros [|b l2]; simpl; auto. f_equal. apply IHl1. Qed.

  Lemma combine_fst_snd {A B} (l : list (A * B)) : combine (map fst l) (map snd l) = l.
  Proof. induction l as [|[a b] l IH]; simpl; congruence. Qed.

  Lemma map_fst_combine {A B} (l1 : list A) (l2 : list B) :
    length l1 = length l2 -> map fst (combine l1 l2) = l1.
  Proof. revert l2; induction l1; intros [|b l2] H; simpl in *; try discriminate; auto. f_equal. apply IHl1. lia. Qed.

  Lemma map_snd_combine {A B} (l1 : list A) (l2 : list B) :
    length l1 = length l2 -> map snd (combine l1 l2) = l2.
  Proof. revert l2; induction l1; intros [|b l2] H; simpl in *; try discriminate; auto. f_equal. apply IHl1. lia. Qed.

  (* ================================================================ the constructor's sort *)

  Lemma insert_by_perm key (e : idx * V) l : Permutation (e :: l) (insert_by V key e l).
  Proof.
    induction l as [|y r IH]; simpl; [apply Permutation_refl|].
    destruct (key (fst e) <=? key (fst y)); [apply Permutation_refl|].
    eapply perm_trans; [apply perm_swap|]. apply perm_skip. exact IH.
  Qed.

  Lemma sort_by_perm key (l : list (idx * V)) : Permutation l (sort_by V key l).
  Proof.
    induction l as [|e r IH]; simpl; [constructor|].
    eapply perm_trans; [apply perm_skip; exact IH|]. apply insert_by_perm.
  Qed.

  Definition key_le (key : idx -> Z) (a b : idx * V) : Prop := key (fst a) <= key (fst b).

  Lemma insert_by_sorted key e l :
    StronglySorted (key_le key) l -> StronglySorted (key_le key) (insert_by V key e l).
  Proof.
    induction 1 as [|y r Hs IH Hall]; simpl; [repeat constructor|].
    destruct (Z.leb_spec (key (fst e)) (key (fst y))) as [Hle|Hgt].
    - constructor; [constructor; assumption|]. constructor; [exact Hle|].
      eapply Forall_impl; [|exact Hall]. intros z Hz. unfold key_le in *. lia.
    - constructor; [exact IH|].
      apply Forall_forall. intros z Hz.
      apply (Permutation_in z (Permutation_sym (insert_by_perm key e r))) in Hz.
      destruct Hz as [<-|Hz]; [unfold key_le; lia|]. rewrite Forall_forall in Hall. auto.
  Qed.

  Lemma sort_by_sorted key (l : list (idx * V)) : StronglySorted (key_le key) (sort_by V key l).
  Proof. induction l as [|e r IH]; simpl; [constructor|]. apply insert_by_sorted. exact IH. Qed.

  (* sorted by linear location + pairwise distinct in-range keys = strictly increasing tuples *)
  Lemma sorted_keys_strict sh (es : list (idx * V)) :
    StronglySorted (key_le (ravel sh)) es -> NoDup (map fst es) ->
    Forall (in_range sh) (map fst es) -> StronglySorted lex_lt (map fst es).
  Proof.
    induction 1 as [|[k v] r Hs IH Hall]; simpl; intros Hnd Hr; [constructor|].
    inversion Hnd as [|? ? Hk Hnd']; subst. inversion Hr as [|? ? Hrk Hr']; subst.
    constructor; [apply IH; assumption|].
    apply Forall_forall. intros k' Hk'. apply in_map_iff in Hk'. destruct Hk' as [[k'' v'] [<- Hin]]. simpl.
    rewrite Forall_forall in Hall, Hr'. specialize (Hall _ Hin). unfold key_le in Hall. simpl in Hall.
    assert (Hin' : In k'' (map fst r)) by (apply in_map_iff; exists (k'', v'); auto).
    apply (ravel_lex sh); [assumption|auto|].
    destruct (Z.eq_dec (ravel sh k) (ravel sh k'')) as [E|E]; [|lia].
    apply ravel_inj in E; [|assumption|auto]. subst. tauto.
  Qed.

  (* ================================================================ the constructor at has_duplicates = prune = false *)

  Definition plain_ctor (sorted : bool) (fill : V) (sh : shape) (es : list (idx * V)) : coo :=
    let es1 := if sorted then es else sort_by V (ravel sh) es in
    mkCOO sh (map fst es1) (map snd es1) fill.

  Lemma coo_ctor_plain (vadd : V -> V -> V) sorted fill sh cs ds :
    Forall (in_range sh) cs ->
    coo_ctor V veqb vadd sorted false false fill sh cs ds = Ok (plain_ctor sorted fill sh (combine cs ds)).
  Proof.
    intros Hr. unfold coo_ctor, plain_ctor.
    assert (E : forallb (in_rangeb sh) cs = true).
    { apply forallb_forall. intros x Hx. apply in_rangeb_spec. rewrite Forall_forall in Hr. auto. }
    rewrite E. rewrite andb_false_r. reflexivity.
  Qed.

  Lemma entries_plain_ctor sorted fill sh es :
    entries (plain_ctor sorted fill sh es) = if sorted then es else sort_by V (ravel sh) es.
  Proof. unfold plain_ctor, entries. simpl. apply combine_fst_snd. Qed.

  (* dense meaning of the constructed array = lookup in the raw entry list *)
  Lemma den_plain_ctor sorted fill sh es ix :
    NoDup (map fst es) ->
    den (plain_ctor sorted fill sh es) ix = match lookup es ix with Some v => v | None => fill end.
  Proof.
    intros Hnd. unfold den. rewrite entries_plain_ctor. simpl.
    destruct sorted; [reflexivity|].
    rewrite <- (lookup_perm es _ ix (sort_by_perm _ es) Hnd). reflexivity.
  Qed.

  Lemma canonical_plain_ctor sorted fill sh es :
    NoDup (map fst es) -> Forall (in_range sh) (map fst es) ->
    (sorted = true -> StronglySorted lex_lt (map fst es)) ->
    canonical (plain_ctor sorted fill sh es).
  Proof.
    intros Hnd Hr Hs. unfold canonical, plain_ctor. simpl.
    destruct sorted.
    - repeat split; [assumption|auto|rewrite !map_length; reflexivity].
    - pose proof (sort_by_perm (ravel sh) es) as Hp.
      assert (Hp' : Permutation (map fst es) (map fst (sort_by V (ravel sh) es))) by (apply Permutation_map; exact Hp).
      assert (Hr' : Forall (in_range sh) (map fst (sort_by V (ravel sh) es))).
      { apply Forall_forall. intros x Hx. rewrite Forall_forall in Hr. apply Hr.
        eapply Permutation_in; [apply Permutation_sym; exact Hp'|exact Hx]. }
      repeat split; [assumption| |rewrite !map_length; reflexivity].
      apply (sorted_keys_strict sh); [apply sort_by_sorted| |assumption].
      eapply Permutation_NoDup; eauto.
  Qed.

  (* ================================================================ axis normalisation (generated) *)

  (* the generated normalize_axis agrees with NumPy's rule on integers *)
  Lemma norm_axis_spec (ndim_expr : pyv -> res pyv) axis ndim n k :
    ndim_expr (VInt ndim) = Ok (VInt n) ->
    np_norm_axis axis n = Some k ->
    norm_axis ndim_expr axis ndim = Ok (Z.of_nat k) /\ (Z.of_nat k < n).
  Proof.
    intros He Hn. unfold norm_axis. rewrite He. cbn.
    unfold np_norm_axis in Hn. unfold g_join_normalize_axis.
    destruct (Z.leb_spec (- n) axis); [|discriminate].
    destruct (Z.ltb_spec axis n); [|discriminate]. cbn in Hn. inversion Hn; subst k; clear Hn.
    cbn. destruct (Z.ltb_spec axis 0); cbn.
    - rewrite Z.geb_leb. destruct (Z.leb_spec n (axis + n)); [lia|]. cbn.
      destruct (Z.ltb_spec (axis + n) 0); [lia|]. cbn. split; [f_equal; lia|lia].
    - rewrite Z.geb_leb. destruct (Z.leb_spec n axis); [lia|]. cbn.
      destruct (Z.ltb_spec axis 0); [lia|]. cbn. split; [f_equal; lia|lia].
  Qed.

  Lemma norm_axis_rejects (ndim_expr : pyv -> res pyv) axis ndim n :
    ndim_expr (VInt ndim) = Ok (VInt n) ->
    np_norm_axis axis n = None ->
    norm_axis ndim_expr axis ndim = Raise ValueError.
  Proof.
    intros He Hn. unfold norm_axis. rewrite He. cbn.
    unfold np_norm_axis in Hn. unfold g_join_normalize_axis.
    destruct (Z.leb_spec (- n) axis); [destruct (Z.ltb_spec axis n); [discriminate|]|]; cbn;
      destruct (Z.ltb_spec axis 0); cbn; rewrite Z.geb_leb.
    - lia.
    - destruct (Z.leb_spec n axis); [reflexivity|lia].
    - destruct (Z.leb_spec n (axis + n)); [reflexivity|]. cbn. destruct (Z.ltb_spec (axis + n) 0); [reflexivity|lia].
    - destruct (Z.leb_spec n axis); [reflexivity|lia].
  Qed.

  (* ================================================================ generic list facts *)

  Lemma NoDup_app_intro {A} (l1 l2 : list A) :
    NoDup l1 -> NoDup l2 -> (forall x, In x l1 -> ~ In x l2) -> NoDup (l1 ++ l2).
  Proof.
    induction l1 as [|a l1 IH]; simpl; intros H1 H2 Hd; [assumption|].
    inversion H1 as [|? ? Ha H1']; subst. constructor.
    - rewrite in_app_iff. intros [?|?]; [tauto|]. eapply Hd; eauto.
    - apply IH; auto.
  Qed.

  Lemma NoDup_map_inj {A B} (f : A -> B) (l : list A) :
    (forall a b, In a l -> In b l -> f a = f b -> a = b) -> NoDup l -> NoDup (map f l).
  Proof.
    induction l as [|a l IH]; simpl; intros Hi Hn; [constructor|].
    inversion Hn as [|? ? Ha Hn']; subst. constructor.
    - intros Hin. apply in_map_iff in Hin. destruct Hin as [b [Hb Hin]].
      assert (b = a) by (apply Hi; auto). subst. tauto.
    - apply IH; auto.
  Qed.

  Lemma SS_map_mono {A} (R : A -> A -> Prop) (f : A -> A) l :
    (forall a b, R a b -> R (f a) (f b)) -> StronglySorted R l -> StronglySorted R (map f l).
  Proof.
    intros Hm. induction 1 as [|a l Hs IH Hall]; simpl; constructor; [assumption|].
    apply Forall_forall. intros x Hx. apply in_map_iff in Hx. destruct Hx as [y [<- Hy]].
    apply Hm. rewrite Forall_forall in Hall. auto.
  Qed.

  Lemma in_range_nth sh ix k :
    in_range sh ix -> (k < length sh)%nat -> 0 <= nth k ix 0 < nth k sh 0.
  Proof.
    revert ix k; induction sh as [|d sh IH]; intros [|i ix] [|k]; simpl; try tauto; try lia.
    intros [_ H] Hk. apply IH; [assumption|lia].
  Qed.

  Lemma lex_lt_by_head a b : a <> [] -> b <> [] -> nth 0 a 0 < nth 0 b 0 -> lex_lt a b.
  Proof. destruct a, b; simpl; try congruence. intros _ _ H. left. exact H. Qed.

  Lemma entries_keys (x : coo) key : In key (map fst (entries x)) -> In key (c_coords x).
  Proof.
    unfold entries. intros H. apply in_map_iff in H. destruct H as [[a b] [<- H]]. simpl.
    eapply in_combine_l; eauto.
  Qed.

  (* ================================================================ COO concatenate *)

  Definition cwf (x : coo) : Prop := canonical x /\ shape_ok (c_shape x).

  Definition shift_key (k : nat) (d : Z) (e : idx * V) : idx * V := (upd k (fun c => c + d) (fst e), snd e).

  (* the entry list the concatenation loop builds, member by member with the running offset d *)
  Fixpoint cparts_e (k : nat) (d : Z) (arrs : list coo) : list (idx * V) :=
    match arrs with
    | [] => []
    | x :: r => map (shift_key k d) (entries x) ++ cparts_e k (d + nth k (c_shape x) 0) r
    end.

  Lemma concat_parts_entries k : forall arrs d,
    Forall (fun x => length (c_data x) = length (c_coords x)) arrs ->
    combine (fst (concat_parts V k d arrs)) (snd (concat_parts V k d arrs)) = cparts_e k d arrs
    /\ length (fst (concat_parts V k d arrs)) = length (snd (concat_parts V k d arrs)).
  Proof.
    induction arrs as [|x r IH]; intros d Hall; simpl; [split; reflexivity|].
    inversion Hall as [|? ? Hx Hr]; subst.
    specialize (IH (d + nth k (c_shape x) 0) Hr).
    destruct (concat_parts V k (d + nth k (c_shape x) 0) r) as [cr dr] eqn:E. simpl in *.
    destruct IH as [IH1 IH2].
    set (cs := if d =? 0 then c_coords x else map (upd k (fun c => c + d)) (c_coords x)).
    assert (Hlen : length cs = length (c_data x)).
    { subst cs. destruct (d =? 0); [|rewrite map_length]; symmetry; exact Hx. }
    split; [|rewrite !app_length; lia].
    rewrite combine_app by exact Hlen. rewrite IH1. f_equal.
    unfold cs, entries. destruct (Z.eqb_spec d 0) as [->|_].
    - symmetry. etransitivity; [|apply map_id]. apply map_ext. intros [a b]. unfold shift_key. simpl.
      rewrite upd_add0. reflexivity.
    - apply combine_map_l.
  Qed.

  (* what a member must satisfy for the loop to be meaningful *)
  Definition member_ok (k : nat) (x : coo) : Prop :=
    Forall (in_range (c_shape x)) (c_coords x) /\ (k < length (c_shape x))%nat
    /\ 0 <= nth k (c_shape x) 0 /\ length (c_data x) = length (c_coords x).

  Lemma cwf_member_ok k x : cwf x -> (k < length (c_shape x))%nat -> member_ok k x.
  Proof.
    intros [[Hr [_ Hl]] Hok] Hk. repeat split; auto.
    unfold shape_ok in Hok. rewrite Forall_forall in Hok. apply Hok. apply nth_In. exact Hk.
  Qed.

  Lemma coord_facts k x c : member_ok k x -> In c (c_coords x) ->
    (k < length c)%nat /\ 0 <= nth k c 0 < nth k (c_shape x) 0.
  Proof.
    intros [Hr [Hk _]] Hc. rewrite Forall_forall in Hr. specialize (Hr _ Hc).
    split; [rewrite (in_range_length _ _ Hr); exact Hk|apply in_range_nth; assumption].
  Qed.

  Lemma shifted_keys k d (x : coo) key :
    In key (map fst (map (shift_key k d) (entries x))) ->
    exists c, In c (c_coords x) /\ key = upd k (fun c => c + d) c.
  Proof.
    rewrite map_map. intros H. apply in_map_iff in H. destruct H as [e [<- He]].
    exists (fst e). split; [|reflexivity]. apply entries_keys. apply in_map. exact He.
  Qed.

  Lemma cparts_keys_ge k : forall arrs d key,
    Forall (member_ok k) arrs -> In key (map fst (cparts_e k d arrs)) -> d <= nth k key 0.
  Proof.
    induction arrs as [|x r IH]; intros d key Hall Hin; simpl in Hin; [tauto|].
    inversion Hall as [|? ? Hx Hr]; subst.
    rewrite map_app, in_app_iff in Hin. destruct Hin as [Hin|Hin].
    - apply shifted_keys in Hin. destruct Hin as [c [Hc ->]].
      destruct (coord_facts k x c Hx Hc) as [Hk Hb]. rewrite nth_upd by exact Hk. lia.
    - specialize (IH _ _ Hr Hin). destruct Hx as [_ [_ [H0 _]]]. lia.
  Qed.

  Lemma lookup_shifted k d (x : coo) ix :
    lookup (map (shift_key k d) (entries x)) ix = lookup (entries x) (upd k (fun c => c - d) ix).
  Proof.
    unfold shift_key. apply (lookup_map_key (upd k (fun c => c + d)) (upd k (fun c => c - d))).
    intros c _. apply upd_shift_iff.
  Qed.

  Lemma lookup_cparts k fill : forall r x d ix,
    Forall (member_ok k) (x :: r) -> Forall (fun y => c_fill y = fill) (x :: r) ->
    (k < length ix)%nat -> d <= nth k ix 0 ->
    match lookup (cparts_e k d (x :: r)) ix with Some v => v | None => fill end
    = np_concat_f k (darr_of_coo x) (map darr_of_coo r) (upd k (fun c => c - d) ix).
  Proof.
    induction r as [|y r' IH]; intros x d ix Hok Hfill Hk Hd.
    - simpl. rewrite app_nil_r, lookup_shifted. unfold den.
      inversion Hfill; subst. reflexivity.
    - inversion Hok as [|? ? Hx Hok']; subst. inversion Hfill as [|? ? Hfx Hfill']; subst.
      change (cparts_e k d (x :: y :: r')) with
        (map (shift_key k d) (entries x) ++ cparts_e k (d + nth k (c_shape x) 0) (y :: r')).
      rewrite lookup_app.
      change (map darr_of_coo (y :: r')) with (darr_of_coo y :: map darr_of_coo r').
      cbn [np_concat_f]. unfold ext at 1. cbn [da_shape darr_of_coo].
      rewrite nth_upd by exact Hk.
      destruct (Z.ltb_spec (nth k ix 0 - d) (nth k (c_shape x) 0)) as [Hlt|Hge].
      + rewrite (lookup_none_keys (cparts_e k (d + nth k (c_shape x) 0) (y :: r')) ix).
        * rewrite lookup_shifted. reflexivity.
        * intros key Hkey ->. apply (cparts_keys_ge k _ _ _ Hok') in Hkey. lia.
      + rewrite (lookup_none_keys (map (shift_key k d) (entries x)) ix).
        * specialize (IH y (d + nth k (c_shape x) 0) ix Hok' Hfill' Hk ltac:(lia)).
          destruct (lookup (cparts_e k (d + nth k (c_shape x) 0) (y :: r')) ix);
            rewrite IH; f_equal; rewrite upd_upd; apply upd_ext; intros; unfold ext; cbn; lia.
        * intros key Hkey ->. apply shifted_keys in Hkey. destruct Hkey as [c [Hc E]].
          destruct (coord_facts k x c Hx Hc) as [Hkc Hb].
          assert (nth k (upd k (fun c0 => c0 + d) c) 0 = nth k c 0 + d) by (apply nth_upd; exact Hkc).
          rewrite <- E in H. lia.
  Qed.

  Lemma upd_shift_inj k d a b : upd k (fun c => c + d) a = upd k (fun c => c + d) b -> a = b.
  Proof. intros H. apply upd_shift_iff in H. rewrite H, upd_upd. rewrite (upd_ext k _ (fun x => x)); [apply upd_id|intros; lia]. Qed.

  Lemma shifted_keys_eq k d (x : coo) :
    length (c_data x) = length (c_coords x) ->
    map fst (map (shift_key k d) (entries x)) = map (upd k (fun c => c + d)) (c_coords x).
  Proof.
    intros Hl. rewrite map_map. unfold shift_key. simpl.
    rewrite <- (map_map fst (upd k (fun c => c + d))). unfold entries. rewrite map_fst_combine by (symmetry; exact Hl). reflexivity.
  Qed.

  Lemma cparts_keys_nodup k : forall arrs d,
    Forall (member_ok k) arrs -> Forall (fun x => NoDup (c_coords x)) arrs ->
    NoDup (map fst (cparts_e k d arrs)).
  Proof.
    induction arrs as [|x r IH]; intros d Hok Hnd; simpl; [constructor|].
    inversion Hok as [|? ? Hx Hok']; subst. inversion Hnd as [|? ? Hnx Hnd']; subst.
    rewrite map_app. apply NoDup_app_intro.
    - rewrite shifted_keys_eq by apply Hx. apply NoDup_map_inj; [|assumption].
      intros a b _ _. apply upd_shift_inj.
    - apply IH; assumption.
    - intros key H1 H2. apply shifted_keys in H1. destruct H1 as [c [Hc ->]].
      destruct (coord_facts k x c Hx Hc) as [Hkc Hb].
      apply (cparts_keys_ge k _ _ _ Hok') in H2. rewrite nth_upd in H2 by exact Hkc. lia.
  Qed.

  Lemma in_range_upd : forall k sh0 sh c d T,
    length sh0 = length sh -> del k sh0 = del k sh -> in_range sh c -> (k < length sh)%nat ->
    0 <= nth k c 0 + d < T ->
    in_range (upd k (fun _ => T) sh0) (upd k (fun x => x + d) c).
  Proof.
    induction k as [|k IH]; intros [|a s0] [|b s] [|i t] d T Hl Hd Hr Hk Hb; simpl in *; try lia; try tauto.
    - subst s0. split; [lia|tauto].
    - injection Hd as -> Hd. split; [tauto|]. apply (IH s0 s); try lia; tauto.
  Qed.

  Lemma zsum_exts_nonneg k (r : list coo) :
    Forall (member_ok k) r -> 0 <= zsum (map (fun x => nth k (c_shape x) 0) r).
  Proof.
    induction 1 as [|y r Hy _ IHr]; simpl; [unfold zsum; simpl; lia|].
    destruct Hy as [_ [_ [Hy _]]]. unfold zsum in *. simpl. lia.
  Qed.

  Definition same_off (k : nat) (s0 s : shape) : Prop := length s0 = length s /\ del k s0 = del k s.

  Lemma cparts_keys_in_range k sh0 : forall arrs d T key,
    Forall (member_ok k) arrs -> Forall (fun x => same_off k sh0 (c_shape x)) arrs ->
    0 <= d -> d + zsum (map (fun x => nth k (c_shape x) 0) arrs) <= T ->
    In key (map fst (cparts_e k d arrs)) -> in_range (upd k (fun _ => T) sh0) key.
  Proof.
    induction arrs as [|x r IH]; intros d T key Hok Hso Hd HT Hin; simpl in Hin; [tauto|].
    inversion Hok as [|? ? Hx Hok']; subst. inversion Hso as [|? ? Hsx Hso']; subst.
    simpl in HT. unfold zsum in HT. simpl in HT. fold (zsum (map (fun x => nth k (c_shape x) 0) r)) in HT.
    assert (H0 : 0 <= zsum (map (fun x0 => nth k (c_shape x0) 0) r)).
    { apply (zsum_exts_nonneg k r Hok'). }
    rewrite map_app, in_app_iff in Hin. destruct Hin as [Hin|Hin].
    - apply shifted_keys in Hin. destruct Hin as [c [Hc ->]].
      destruct (coord_facts k x c Hx Hc) as [Hkc Hb]. destruct Hsx as [Hl Hdel].
      destruct Hx as [Hr [Hk _]]. rewrite Forall_forall in Hr.
      apply (in_range_upd k sh0 (c_shape x)); auto. lia.
    - destruct Hx as [_ [_ [Hx0 _]]].
      apply (IH (d + nth k (c_shape x) 0) T); auto; lia.
  Qed.

  Lemma cparts_keys_nonempty k : forall arrs d key,
    Forall (member_ok k) arrs -> In key (map fst (cparts_e k d arrs)) -> key <> [].
  Proof.
    induction arrs as [|x r IH]; intros d key Hall Hin; simpl in Hin; [tauto|].
    inversion Hall as [|? ? Hx Hr]; subst.
    rewrite map_app, in_app_iff in Hin. destruct Hin as [Hin|Hin]; [|eapply IH; eauto].
    apply shifted_keys in Hin. destruct Hin as [c [Hc ->]].
    destruct (coord_facts k x c Hx Hc) as [Hkc _].
    intros E. apply (f_equal (@length Z)) in E. rewrite upd_length in E. simpl in E. lia.
  Qed.

  Lemma lex_lt_shift0 d a b : lex_lt a b -> lex_lt (upd 0 (fun c => c + d) a) (upd 0 (fun c => c + d) b).
  Proof. destruct a, b; simpl; try tauto. intros [?|[-> ?]]; [left; lia|right; tauto]. Qed.

  Lemma cparts_sorted0 : forall arrs d,
    Forall (member_ok 0) arrs -> Forall (fun x => StronglySorted lex_lt (c_coords x)) arrs ->
    StronglySorted lex_lt (map fst (cparts_e 0 d arrs)).
  Proof.
    induction arrs as [|x r IH]; intros d Hok Hss; simpl; [constructor|].
    inversion Hok as [|? ? Hx Hok']; subst. inversion Hss as [|? ? Hsx Hss']; subst.
    rewrite map_app. apply SS_app.
    - rewrite shifted_keys_eq by apply Hx. apply SS_map_mono; [apply lex_lt_shift0|assumption].
    - apply IH; assumption.
    - intros a b Ha Hb. apply shifted_keys in Ha. destruct Ha as [c [Hc ->]].
      destruct (coord_facts 0 x c Hx Hc) as [Hkc Hbd].
      pose proof (cparts_keys_ge 0 _ _ _ Hok' Hb) as Hge.
      apply lex_lt_by_head.
      + intros E. apply (f_equal (@length Z)) in E. rewrite upd_length in E. simpl in E. lia.
      + eapply cparts_keys_nonempty; eauto.
      + rewrite nth_upd by exact Hkc. lia.
  Qed.

  Lemma SS_NoDup_coords (x : coo) : canonical x -> NoDup (c_coords x).
  Proof. intros [_ [Hs _]]. apply SS_lex_NoDup. exact Hs. Qed.

  (* ---------------------------------------------------------------- the theorem, for arbitrary flags *)

  (* the value the COO joiner returns: the constructor applied to the offset entry lists *)
  Lemma coo_concat_value (vzero : V) (vadd : V -> V -> V)
          (fl : ctor_flags) (ndim_expr : pyv -> res pyv) (checks_fill : bool) (mexc : exc)
          (a : coo) (r : list coo) (axis : Z) (k : nat) :
    ndim_expr (VInt (ndim_of V a)) = Ok (VInt (ndim_of V a)) ->
    np_norm_axis axis (ndim_of V a) = Some k ->
    fl_has_duplicates fl (Z.of_nat k) = false -> fl_prune fl (Z.of_nat k) = false ->
    fl_fill fl <> FillAbsent ->
    Forall cwf (a :: r) ->
    Forall (fun x => same_off k (c_shape a) (c_shape x)) r ->
    Forall (fun x => c_fill x = c_fill a) r ->
    coo_concatenate V veqb vzero vadd fl ndim_expr checks_fill mexc axis (a :: r)
    = Ok (plain_ctor (fl_sorted fl (Z.of_nat k)) (c_fill a)
            (upd k (fun _ => zsum (map (fun x => nth k (c_shape x) 0) (a :: r))) (c_shape a))
            (cparts_e k 0 (a :: r))).
  Proof.
    intros Hnd Hax Hdup Hprune Hfill Hwf Hso Hfl.
    destruct (norm_axis_spec ndim_expr axis _ _ k Hnd Hax) as [Hnorm Hklt].
    assert (Hk : (k < length (c_shape a))%nat) by (unfold ndim_of in Hklt; lia).
    assert (Hso' : Forall (fun x => same_off k (c_shape a) (c_shape x)) (a :: r)).
    { constructor; [split; reflexivity|exact Hso]. }
    assert (Hok : Forall (member_ok k) (a :: r)).
    { apply Forall_forall. intros x Hx. rewrite Forall_forall in Hwf, Hso'.
      apply cwf_member_ok; [auto|]. destruct (Hso' _ Hx) as [Hl _]. lia. }
    assert (Hfl' : Forall (fun x => c_fill x = c_fill a) (a :: r)) by (constructor; auto).
    unfold coo_concatenate.
    assert (E1 : checks_fill && negb (fills_consistent V veqb a (a :: r)) = false).
    { apply andb_false_intro2. apply negb_false_iff. unfold fills_consistent. apply forallb_forall.
      intros x Hx. rewrite Forall_forall in Hfl'. apply veqb_eq. symmetry. auto. }
    rewrite E1, Hnorm. cbn [bind]. rewrite Nat2Z.id.
    assert (E2 : forallb (fun x => same_off_axis k (c_shape a) (c_shape x)) (a :: r) = true).
    { apply forallb_forall. intros x Hx. rewrite Forall_forall in Hso'. destruct (Hso' _ Hx) as [Hl Hd].
      unfold same_off_axis. rewrite Hl, Nat.eqb_refl, Hd, idx_eqb_refl. reflexivity. }
    rewrite E2. cbn [negb].
    assert (Hlens : Forall (fun x => length (c_data x) = length (c_coords x)) (a :: r)).
    { eapply Forall_impl; [|exact Hok]. intros x Hx. apply Hx. }
    destruct (concat_parts_entries k (a :: r) 0 Hlens) as [Hcomb Hlen].
    destruct (concat_parts V k 0 (a :: r)) as [cs ds] eqn:Ecp. cbn [fst snd] in Hcomb, Hlen.
    set (T := zsum (map (fun x => nth k (c_shape x) 0) (a :: r))).
    set (sh := upd k (fun _ => T) (c_shape a)).
    assert (Hkeys : map fst (combine cs ds) = cs) by (apply map_fst_combine; exact Hlen).
    assert (Hrange : Forall (in_range sh) (map fst (cparts_e k 0 (a :: r)))).
    { apply Forall_forall. intros key Hkey.
      apply (cparts_keys_in_range k (c_shape a) (a :: r) 0 T); auto; unfold T; lia. }
    rewrite Hdup, Hprune.
    rewrite coo_ctor_plain by (rewrite <- Hkeys, Hcomb; exact Hrange).
    rewrite Hcomb.
    assert (Hfo : fill_of V vzero (fl_fill fl) (c_fill a) = c_fill a)
      by (destruct (fl_fill fl); [congruence|reflexivity|reflexivity]).
    rewrite Hfo. reflexivity.
  Qed.

  Theorem coo_concat_correct (vzero : V) (vadd : V -> V -> V)
          (fl : ctor_flags) (ndim_expr : pyv -> res pyv) (checks_fill : bool) (mexc : exc)
          (a : coo) (r : list coo) (axis : Z) (k : nat) :
    ndim_expr (VInt (ndim_of V a)) = Ok (VInt (ndim_of V a)) ->
    np_norm_axis axis (ndim_of V a) = Some k ->
    fl_has_duplicates fl (Z.of_nat k) = false -> fl_prune fl (Z.of_nat k) = false ->
    fl_fill fl <> FillAbsent ->
    (fl_sorted fl (Z.of_nat k) = true -> k = 0%nat) ->
    Forall cwf (a :: r) ->
    Forall (fun x => same_off k (c_shape a) (c_shape x)) r ->
    Forall (fun x => c_fill x = c_fill a) r ->
    exists c, coo_concatenate V veqb vzero vadd fl ndim_expr checks_fill mexc axis (a :: r) = Ok c
      /\ canonical c
      /\ c_shape c = da_shape (np_concatenate k (darr_of_coo a) (map darr_of_coo r))
      /\ c_fill c = c_fill a
      /\ forall ix, in_range (c_shape c) ix ->
           den c ix = da_f (np_concatenate k (darr_of_coo a) (map darr_of_coo r)) ix.
  Proof.
    intros Hnd Hax Hdup Hprune Hfill Hsorted Hwf Hso Hfl.
    destruct (norm_axis_spec ndim_expr axis _ _ k Hnd Hax) as [Hnorm Hklt].
    assert (Hk : (k < length (c_shape a))%nat) by (unfold ndim_of in Hklt; lia).
    assert (Hso' : Forall (fun x => same_off k (c_shape a) (c_shape x)) (a :: r)).
    { constructor; [split; reflexivity|exact Hso]. }
    assert (Hok : Forall (member_ok k) (a :: r)).
    { apply Forall_forall. intros x Hx. rewrite Forall_forall in Hwf, Hso'.
      apply cwf_member_ok; [auto|]. destruct (Hso' _ Hx) as [Hl _]. lia. }
    assert (Hfl' : Forall (fun x => c_fill x = c_fill a) (a :: r)) by (constructor; auto).
    unfold coo_concatenate.
    assert (E1 : checks_fill && negb (fills_consistent V veqb a (a :: r)) = false).
    { apply andb_false_intro2. apply negb_false_iff. unfold fills_consistent. apply forallb_forall.
      intros x Hx. rewrite Forall_forall in Hfl'. apply veqb_eq. symmetry. auto. }
    rewrite E1, Hnorm. cbn [bind]. rewrite Nat2Z.id.
    assert (E2 : forallb (fun x => same_off_axis k (c_shape a) (c_shape x)) (a :: r) = true).
    { apply forallb_forall. intros x Hx. rewrite Forall_forall in Hso'. destruct (Hso' _ Hx) as [Hl Hd].
      unfold same_off_axis. rewrite Hl, Nat.eqb_refl, Hd, idx_eqb_refl. reflexivity. }
    rewrite E2. cbn [negb].
    assert (Hlens : Forall (fun x => length (c_data x) = length (c_coords x)) (a :: r)).
    { eapply Forall_impl; [|exact Hok]. intros x Hx. apply Hx. }
    destruct (concat_parts_entries k (a :: r) 0 Hlens) as [Hcomb Hlen].
    destruct (concat_parts V k 0 (a :: r)) as [cs ds] eqn:Ecp. cbn [fst snd] in Hcomb, Hlen.
    set (T := zsum (map (fun x => nth k (c_shape x) 0) (a :: r))).
    set (sh := upd k (fun _ => T) (c_shape a)).
    assert (Hkeys : map fst (combine cs ds) = cs) by (apply map_fst_combine; exact Hlen).
    assert (Hrange : Forall (in_range sh) (map fst (cparts_e k 0 (a :: r)))).
    { apply Forall_forall. intros key Hkey.
      apply (cparts_keys_in_range k (c_shape a) (a :: r) 0 T); auto; unfold T; lia. }
    rewrite Hdup, Hprune.
    rewrite coo_ctor_plain by (rewrite <- Hkeys, Hcomb; exact Hrange).
    rewrite Hcomb.
    assert (Hnodup : NoDup (map fst (cparts_e k 0 (a :: r)))).
    { apply cparts_keys_nodup; [exact Hok|]. eapply Forall_impl; [|exact Hwf].
      intros x [Hx _]. apply SS_NoDup_coords. exact Hx. }
    assert (Hfo : fill_of V vzero (fl_fill fl) (c_fill a) = c_fill a)
      by (destruct (fl_fill fl); [congruence|reflexivity|reflexivity]).
    eexists. split; [reflexivity|]. split; [|split; [|split]].
    - apply canonical_plain_ctor; [exact Hnodup|exact Hrange|].
      intros Hs. apply Hsorted in Hs. subst k. apply cparts_sorted0; [exact Hok|].
      eapply Forall_impl; [|exact Hwf]. intros x [[_ [Hx _]] _]. exact Hx.
    - cbn [plain_ctor c_shape np_concatenate da_shape]. unfold sh, T. apply upd_ext. intros _.
      cbn [map]. rewrite map_map. reflexivity.
    - simpl. exact Hfo.
    - intros ix Hix. rewrite den_plain_ctor by exact Hnodup. rewrite Hfo.
      cbn [np_concatenate da_f].
      assert (Hkix : (k < length ix)%nat).
      { cbn [plain_ctor c_shape] in Hix. rewrite (in_range_length _ _ Hix). unfold sh. rewrite upd_length. exact Hk. }
      assert (H0 : 0 <= nth k ix 0).
      { cbn [plain_ctor c_shape] in Hix. apply (in_range_nth _ _ k) in Hix; [lia|]. unfold sh. rewrite upd_length. exact Hk. }
      rewrite (lookup_cparts k (c_fill a) r a 0 ix Hok Hfl' Hkix H0).
      f_equal. rewrite (upd_ext k _ (fun x => x)); [apply upd_id|intros; lia].
  Qed.

  (* ================================================================ COO stack *)

  Definition ins_key (k : nat) (j : Z) (e : idx * V) : idx * V := (ins k j (fst e), snd e).

  Fixpoint sparts_e (k : nat) (j : Z) (arrs : list coo) : list (idx * V) :=
    match arrs with
    | [] => []
    | x :: r => map (ins_key k j) (entries x) ++ sparts_e k (j + 1) r
    end.

  Lemma stack_parts_entries k : forall arrs j,
    Forall (fun x => length (c_data x) = length (c_coords x)) arrs ->
    combine (fst (stack_parts V k j arrs)) (snd (stack_parts V k j arrs)) = sparts_e k j arrs
    /\ length (fst (stack_parts V k j arrs)) = length (snd (stack_parts V k j arrs)).
  Proof.
    induction arrs as [|x r IH]; intros j Hall; simpl; [split; reflexivity|].
    inversion Hall as [|? ? Hx Hr]; subst.
    specialize (IH (j + 1) Hr).
    destruct (stack_parts V k (j + 1) r) as [cr dr] eqn:E. simpl in *.
    destruct IH as [IH1 IH2].
    assert (Hlen : length (map (ins k j) (c_coords x)) = length (c_data x))
      by (rewrite map_length; symmetry; exact Hx).
    split; [|rewrite !app_length, Hlen; f_equal; exact IH2].
    rewrite combine_app by exact Hlen. rewrite IH1. f_equal. apply combine_map_l.
  Qed.

  (* members of a stack: all of shape sh (n axes), k <= n *)
  Definition smember_ok (sh : shape) (x : coo) : Prop :=
    c_shape x = sh /\ Forall (in_range sh) (c_coords x) /\ length (c_data x) = length (c_coords x).

  Lemma scoord_len sh x c : smember_ok sh x -> In c (c_coords x) -> length c = length sh.
  Proof. intros [_ [Hr _]] Hc. rewrite Forall_forall in Hr. apply in_range_length. auto. Qed.

  Lemma inserted_keys k j (x : coo) key :
    In key (map fst (map (ins_key k j) (entries x))) ->
    exists c, In c (c_coords x) /\ key = ins k j c.
  Proof.
    rewrite map_map. intros H. apply in_map_iff in H. destruct H as [e [<- He]].
    exists (fst e). split; [|reflexivity]. apply entries_keys. apply in_map. exact He.
  Qed.

  Lemma sparts_keys_ge k sh : forall arrs j key,
    (k <= length sh)%nat -> Forall (smember_ok sh) arrs ->
    In key (map fst (sparts_e k j arrs)) -> j <= nth k key 0 /\ length key = S (length sh).
  Proof.
    induction arrs as [|x r IH]; intros j key Hk Hall Hin; simpl in Hin; [tauto|].
    inversion Hall as [|? ? Hx Hr]; subst.
    rewrite map_app, in_app_iff in Hin. destruct Hin as [Hin|Hin].
    - apply inserted_keys in Hin. destruct Hin as [c [Hc ->]].
      pose proof (scoord_len _ _ _ Hx Hc) as Hl.
      rewrite nth_ins by lia. rewrite ins_length by lia. split; lia.
    - destruct (IH _ _ Hk Hr Hin). split; lia.
  Qed.

  Lemma lookup_inserted k j sh (x : coo) ix :
    smember_ok sh x -> (k <= length sh)%nat -> (k < length ix)%nat -> nth k ix 0 = j ->
    lookup (map (ins_key k j) (entries x)) ix = lookup (entries x) (del k ix).
  Proof.
    intros Hx Hk Hkix Hj. unfold ins_key. apply (lookup_map_key (ins k j) (del k)).
    intros c Hc. apply entries_keys in Hc. pose proof (scoord_len _ _ _ Hx Hc) as Hl.
    rewrite ins_iff by lia. split; [intros [_ [_ H]]; auto|intros ->; auto].
  Qed.

  Lemma lookup_sparts k sh fill : forall r x j ix,
    (k <= length sh)%nat ->
    Forall (smember_ok sh) (x :: r) -> Forall (fun y => c_fill y = fill) (x :: r) ->
    (k < length ix)%nat -> j <= nth k ix 0 < j + Z.of_nat (length (x :: r)) ->
    match lookup (sparts_e k j (x :: r)) ix with Some v => v | None => fill end
    = da_f (nth (Z.to_nat (nth k ix 0 - j)) (map darr_of_coo (x :: r)) (darr_of_coo x)) (del k ix).
  Proof.
    induction r as [|y r' IH]; intros x j ix Hk Hok Hfill Hkix Hj.
    - simpl in Hj. assert (Ej : nth k ix 0 = j) by lia.
      pose proof (Forall_inv Hok) as Hx. pose proof (Forall_inv Hfill) as Hfx. simpl in Hfx.
      simpl. rewrite app_nil_r. rewrite (lookup_inserted k j sh); auto.
      replace (nth k ix 0 - j) with 0 by lia. simpl. unfold den. rewrite Hfx. reflexivity.
    - inversion Hok as [|? ? Hx Hok']; subst. inversion Hfill as [|? ? Hfx Hfill']; subst.
      change (sparts_e k j (x :: y :: r')) with (map (ins_key k j) (entries x) ++ sparts_e k (j + 1) (y :: r')).
      rewrite lookup_app.
      destruct (Z.eq_dec (nth k ix 0) j) as [Ej|Ej].
      + rewrite (lookup_none_keys (sparts_e k (j + 1) (y :: r')) ix).
        * rewrite (lookup_inserted k j sh); auto.
          replace (nth k ix 0 - j) with 0 by lia. simpl. unfold den. reflexivity.
        * intros key Hkey ->. apply (sparts_keys_ge k sh _ _ _ Hk Hok') in Hkey. lia.
      + rewrite (lookup_none_keys (map (ins_key k j) (entries x)) ix).
        * assert (Hj' : j + 1 <= nth k ix 0 < j + 1 + Z.of_nat (length (y :: r'))).
          { cbn [length] in Hj |- *. lia. }
          specialize (IH y (j + 1) ix Hk Hok' Hfill' Hkix Hj').
          replace (Z.to_nat (nth k ix 0 - j)) with (S (Z.to_nat (nth k ix 0 - (j + 1)))) by lia.
          assert (Hn : Nat.lt (Z.to_nat (nth k ix 0 - (j + 1))) (length (map darr_of_coo (y :: r')))).
          { unfold Nat.lt. rewrite map_length. cbn [length] in Hj' |- *. lia. }
          remember (Z.to_nat (nth k ix 0 - (j + 1))) as m eqn:Em.
          change (nth (S m) (map darr_of_coo (x :: y :: r')) (darr_of_coo x))
            with (nth m (map darr_of_coo (y :: r')) (darr_of_coo x)).
          rewrite (nth_indep _ (darr_of_coo x) (darr_of_coo y) Hn).
          destruct (lookup (sparts_e k (j + 1) (y :: r')) ix); exact IH.
        * intros key Hkey ->. apply inserted_keys in Hkey. destruct Hkey as [c [Hc E]].
          pose proof (scoord_len _ _ _ Hx Hc) as Hl.
          assert (nth k (ins k j c) 0 = j) by (apply nth_ins; lia). rewrite <- E in H. lia.
  Qed.

  Lemma ins_inj k j a b : (k <= length a)%nat -> (k <= length b)%nat -> ins k j a = ins k j b -> a = b.
  Proof. intros Ha Hb H. rewrite <- (del_ins k j a Ha), <- (del_ins k j b Hb), H. reflexivity. Qed.

  Lemma inserted_keys_eq k j (x : coo) :
    length (c_data x) = length (c_coords x) ->
    map fst (map (ins_key k j) (entries x)) = map (ins k j) (c_coords x).
  Proof.
    intros Hl. rewrite map_map. unfold ins_key. simpl.
    rewrite <- (map_map fst (ins k j)). unfold entries. rewrite map_fst_combine by (symmetry; exact Hl). reflexivity.
  Qed.

  Lemma sparts_keys_nodup k sh : forall arrs j,
    (k <= length sh)%nat ->
    Forall (smember_ok sh) arrs -> Forall (fun x => NoDup (c_coords x)) arrs ->
    NoDup (map fst (sparts_e k j arrs)).
  Proof.
    induction arrs as [|x r IH]; intros j Hk Hok Hnd; simpl; [constructor|].
    inversion Hok as [|? ? Hx Hok']; subst. inversion Hnd as [|? ? Hnx Hnd']; subst.
    rewrite map_app. apply NoDup_app_intro.
    - rewrite inserted_keys_eq by apply Hx. apply NoDup_map_inj; [|assumption].
      intros a b Ha Hb. apply ins_inj; rewrite (scoord_len _ _ _ Hx) by assumption; exact Hk.
    - apply IH; assumption.
    - intros key H1 H2. apply inserted_keys in H1. destruct H1 as [c [Hc ->]].
      pose proof (scoord_len _ _ _ Hx Hc) as Hl.
      apply (sparts_keys_ge k sh _ _ _ Hk Hok') in H2. rewrite nth_ins in H2 by lia. lia.
  Qed.

  Lemma in_range_ins : forall k sh c j N,
    in_range sh c -> (k <= length sh)%nat -> 0 <= j < N -> in_range (ins k N sh) (ins k j c).
  Proof.
    induction k as [|k IH]; intros sh c j N Hr Hk Hj.
    - simpl. split; assumption.
    - destruct sh as [|d sh], c as [|i c]; simpl in *; try lia; try tauto.
      split; [tauto|]. apply IH; [tauto|lia|assumption].
  Qed.

  Lemma sparts_keys_in_range k sh : forall arrs j N key,
    (k <= length sh)%nat -> Forall (smember_ok sh) arrs ->
    0 <= j -> j + Z.of_nat (length arrs) <= N ->
    In key (map fst (sparts_e k j arrs)) -> in_range (ins k N sh) key.
  Proof.
    induction arrs as [|x r IH]; intros j N key Hk Hok Hj HN Hin; simpl in Hin; [tauto|].
    inversion Hok as [|? ? Hx Hok']; subst. cbn [length] in HN.
    rewrite map_app, in_app_iff in Hin. destruct Hin as [Hin|Hin].
    - apply inserted_keys in Hin. destruct Hin as [c [Hc ->]].
      destruct Hx as [_ [Hr _]]. rewrite Forall_forall in Hr.
      apply in_range_ins; [auto|exact Hk|lia].
    - apply (IH (j + 1) N); auto; lia.
  Qed.

  Lemma sparts_sorted0 sh : forall arrs j,
    Forall (smember_ok sh) arrs -> Forall (fun x => StronglySorted lex_lt (c_coords x)) arrs ->
    StronglySorted lex_lt (map fst (sparts_e 0 j arrs)).
  Proof.
    induction arrs as [|x r IH]; intros j Hok Hss; simpl; [constructor|].
    inversion Hok as [|? ? Hx Hok']; subst. inversion Hss as [|? ? Hsx Hss']; subst.
    rewrite map_app. apply SS_app.
    - rewrite inserted_keys_eq by apply Hx. simpl. apply SS_map_cons. assumption.
    - apply IH; assumption.
    - intros a b Ha Hb. apply inserted_keys in Ha. destruct Ha as [c [Hc ->]].
      destruct (sparts_keys_ge 0 sh _ _ _ ltac:(lia) Hok' Hb) as [Hge Hlen].
      apply lex_lt_by_head; [simpl; congruence| |simpl; lia].
      intros ->. simpl in Hlen. lia.
  Qed.

  Theorem coo_stack_correct (vzero : V) (vadd : V -> V -> V)
          (fl : ctor_flags) (ndim_expr : pyv -> res pyv) (checks_fill : bool) (mexc : exc)
          (a : coo) (r : list coo) (axis : Z) (k : nat) :
    ndim_expr (VInt (ndim_of V a)) = Ok (VInt (ndim_of V a + 1)) ->
    np_norm_axis axis (ndim_of V a + 1) = Some k ->
    fl_has_duplicates fl (Z.of_nat k) = false -> fl_prune fl (Z.of_nat k) = false ->
    fl_fill fl <> FillAbsent ->
    (fl_sorted fl (Z.of_nat k) = true -> k = 0%nat) ->
    Forall cwf (a :: r) ->
    Forall (fun x => c_shape x = c_shape a) r ->
    Forall (fun x => c_fill x = c_fill a) r ->
    exists c, coo_stack V veqb vzero vadd fl ndim_expr checks_fill mexc axis (a :: r) = Ok c
      /\ canonical c
      /\ c_shape c = da_shape (np_stack k (darr_of_coo a) (map darr_of_coo r))
      /\ c_fill c = c_fill a
      /\ forall ix, in_range (c_shape c) ix ->
           den c ix = da_f (np_stack k (darr_of_coo a) (map darr_of_coo r)) ix.
  Proof.
    intros Hnd Hax Hdup Hprune Hfill Hsorted Hwf Hsh Hfl.
    destruct (norm_axis_spec ndim_expr axis _ _ k Hnd Hax) as [Hnorm Hklt].
    assert (Hk : (k <= length (c_shape a))%nat) by (unfold ndim_of in Hklt; lia).
    assert (Hsh' : Forall (fun x => c_shape x = c_shape a) (a :: r)) by (constructor; auto).
    assert (Hok : Forall (smember_ok (c_shape a)) (a :: r)).
    { apply Forall_forall. intros x Hx. rewrite Forall_forall in Hwf, Hsh'.
      destruct (Hwf _ Hx) as [[Hr [_ Hl]] _]. specialize (Hsh' _ Hx).
      repeat split; [exact Hsh'|rewrite <- Hsh'; exact Hr|exact Hl]. }
    assert (Hfl' : Forall (fun x => c_fill x = c_fill a) (a :: r)) by (constructor; auto).
    unfold coo_stack.
    assert (E1 : checks_fill && negb (fills_consistent V veqb a (a :: r)) = false).
    { apply andb_false_intro2. apply negb_false_iff. unfold fills_consistent. apply forallb_forall.
      intros x Hx. rewrite Forall_forall in Hfl'. apply veqb_eq. symmetry. auto. }
    rewrite E1.
    assert (E2 : forallb (fun x => idx_eqb (c_shape a) (c_shape x)) (a :: r) = true).
    { apply forallb_forall. intros x Hx. rewrite Forall_forall in Hsh'. rewrite (Hsh' _ Hx). apply idx_eqb_refl. }
    rewrite E2. cbn [negb]. rewrite Hnorm. cbn [bind]. rewrite Nat2Z.id.
    assert (Hlens : Forall (fun x => length (c_data x) = length (c_coords x)) (a :: r)).
    { eapply Forall_impl; [|exact Hok]. intros x Hx. apply Hx. }
    destruct (stack_parts_entries k (a :: r) 0 Hlens) as [Hcomb Hlen].
    destruct (stack_parts V k 0 (a :: r)) as [cs ds] eqn:Ecp. cbn [fst snd] in Hcomb, Hlen.
    set (N := Z.of_nat (length (a :: r))).
    set (sh := ins k N (c_shape a)).
    assert (Hkeys : map fst (combine cs ds) = cs) by (apply map_fst_combine; exact Hlen).
    assert (Hrange : Forall (in_range sh) (map fst (sparts_e k 0 (a :: r)))).
    { apply Forall_forall. intros key Hkey.
      apply (sparts_keys_in_range k (c_shape a) (a :: r) 0 N); auto; unfold N; lia. }
    rewrite Hdup, Hprune.
    rewrite coo_ctor_plain by (rewrite <- Hkeys, Hcomb; exact Hrange).
    rewrite Hcomb.
    assert (Hnodup : NoDup (map fst (sparts_e k 0 (a :: r)))).
    { apply (sparts_keys_nodup k (c_shape a)); [exact Hk|exact Hok|]. eapply Forall_impl; [|exact Hwf].
      intros x [Hx _]. apply SS_NoDup_coords. exact Hx. }
    assert (Hfo : fill_of V vzero (fl_fill fl) (c_fill a) = c_fill a)
      by (destruct (fl_fill fl); [congruence|reflexivity|reflexivity]).
    eexists. split; [reflexivity|]. split; [|split; [|split]].
    - apply canonical_plain_ctor; [exact Hnodup|exact Hrange|].
      intros Hs. apply Hsorted in Hs. subst k. apply (sparts_sorted0 (c_shape a)); [exact Hok|].
      eapply Forall_impl; [|exact Hwf]. intros x [[_ [Hx _]] _]. exact Hx.
    - cbn [plain_ctor c_shape np_stack da_shape]. unfold sh, N. cbn [length]. rewrite map_length. reflexivity.
    - simpl. exact Hfo.
    - intros ix Hix. rewrite den_plain_ctor by exact Hnodup. rewrite Hfo.
      cbn [np_stack da_f]. cbn [plain_ctor c_shape] in Hix.
      assert (Hlix : length ix = S (length (c_shape a))).
      { rewrite (in_range_length _ _ Hix). unfold sh. apply ins_length. exact Hk. }
      assert (Hb : 0 <= nth k ix 0 < N).
      { pose proof (in_range_nth _ _ k Hix) as H. unfold sh in H. rewrite ins_length in H by exact Hk.
        rewrite nth_ins in H by exact Hk. apply H. lia. }
      rewrite (lookup_sparts k (c_shape a) (c_fill a) r a 0 ix Hk Hok Hfl' ltac:(lia) ltac:(unfold N in Hb; lia)).
      rewrite Z.sub_0_r. reflexivity.
  Qed.
End WithV.

(* ================================================================ the joiners at the flags the source has now *)

Section Src.
  Variable V : Type.
  Variable veqb : V -> V -> bool.
  Hypothesis veqb_eq : forall a b, veqb a b = true <-> a = b.
  Variable vzero : V.
  Variable vadd : V -> V -> V.

  Definition join_result (c : coo V) (a : coo V) (spec : darr V) : Prop :=
    c_shape c = da_shape spec /\ c_fill c = c_fill a /\
    forall ix, in_range (c_shape c) ix -> den c ix = da_f spec ix.

  Lemma coo_concat_src_correct (a : coo V) (r : list (coo V)) (axis : Z) (k : nat) :
    np_norm_axis axis (ndim_of V a) = Some k ->
    Forall (cwf V) (a :: r) ->
    Forall (fun x => same_off k (c_shape a) (c_shape x)) r ->
    Forall (fun x => c_fill x = c_fill a) r ->
    exists c, coo_concatenate_src V veqb vzero vadd (Some axis) (a :: r) = Ok c
      /\ canonical V c
      /\ join_result c a (np_concatenate k (darr_of_coo a) (map darr_of_coo r)).
  Proof.
    intros Hax Hwf Hso Hfl. unfold coo_concatenate_src, coo_concatenate_opt, join_result.
    (* fill_value=arrays[0].fill_value is passed on *)
    assert (H5 : fl_fill concat_flags <> FillAbsent) by (cbn; discriminate).
    (* sorted=(axis == 0) promises sortedness for axis 0 only *)
    assert (H6 : fl_sorted concat_flags (Z.of_nat k) = true -> k = 0%nat)
      by (cbn; intros Hs; apply Z.eqb_eq in Hs; lia).
    (* eq_refl: normalize_axis gets arrays[0].ndim; has_duplicates=False; prune absent *)
    exact (coo_concat_correct V veqb veqb_eq vzero vadd concat_flags site_concatenate_axis_ndim
             site_concatenate_checks_consistent_fill site_concatenate_mismatch_exc a r axis k eq_refl Hax eq_refl eq_refl H5 H6 Hwf Hso Hfl).
  Qed.

  Lemma coo_stack_src_correct (a : coo V) (r : list (coo V)) (axis : Z) (k : nat) :
    np_norm_axis axis (ndim_of V a + 1) = Some k ->
    Forall (cwf V) (a :: r) ->
    Forall (fun x => c_shape x = c_shape a) r ->
    Forall (fun x => c_fill x = c_fill a) r ->
    exists c, coo_stack_src V veqb vzero vadd axis (a :: r) = Ok c
      /\ canonical V c
      /\ join_result c a (np_stack k (darr_of_coo a) (map darr_of_coo r)).
  Proof.
    intros Hax Hwf Hso Hfl. unfold coo_stack_src, join_result.
    assert (H5 : fl_fill stack_flags <> FillAbsent) by (cbn; discriminate).
    assert (H6 : fl_sorted stack_flags (Z.of_nat k) = true -> k = 0%nat)
      by (cbn; intros Hs; apply Z.eqb_eq in Hs; lia).
    (* eq_refl: normalize_axis gets arrays[0].ndim + 1; has_duplicates=False; prune absent *)
    exact (coo_stack_correct V veqb veqb_eq vzero vadd stack_flags site_stack_axis_ndim
             site_stack_checks_consistent_fill site_stack_mismatch_exc a r axis k eq_refl Hax eq_refl eq_refl H5 H6 Hwf Hso Hfl).
  Qed.

  (* members with different fill values are rejected (check_consistent_fill_value is called) *)
  Lemma fills_inconsistent (a : coo V) (l : list (coo V)) :
    (exists x, In x l /\ c_fill x <> c_fill a) -> fills_consistent V veqb a l = false.
  Proof.
    intros [x [Hin Hne]]. destruct (fills_consistent V veqb a l) eqn:E; [|reflexivity].
    unfold fills_consistent in E. rewrite forallb_forall in E. specialize (E _ Hin).
    apply veqb_eq in E. congruence.
  Qed.

  Lemma coo_concat_src_mixed_fill (a : coo V) (r : list (coo V)) (axis : option Z) :
    (exists x, In x r /\ c_fill x <> c_fill a) ->
    coo_concatenate_src V veqb vzero vadd axis (a :: r) = Raise ValueError.
  Proof.
    intros [x [Hin Hne]]. unfold coo_concatenate_src, coo_concatenate_opt. destruct axis as [ax|].
    - unfold coo_concatenate. rewrite fills_inconsistent by (exists x; split; [right; exact Hin|exact Hne]).
      reflexivity.
    - cbn [map]. unfold coo_concatenate.
      rewrite fills_inconsistent; [reflexivity|].
      exists (coo_flatten V x). split; [|exact Hne].
      right. apply in_map. exact Hin.
  Qed.

  Lemma coo_stack_src_mixed_fill (a : coo V) (r : list (coo V)) (axis : Z) :
    (exists x, In x r /\ c_fill x <> c_fill a) ->
    coo_stack_src V veqb vzero vadd axis (a :: r) = Raise ValueError.
  Proof.
    intros [x [Hin Hne]]. unfold coo_stack_src, coo_stack.
    rewrite fills_inconsistent by (exists x; split; [right; exact Hin|exact Hne]). reflexivity.
  Qed.

  (* an axis NumPy rejects is rejected with ValueError *)
  Lemma coo_concat_src_bad_axis (a : coo V) (r : list (coo V)) (axis : Z) :
    np_norm_axis axis (ndim_of V a) = None ->
    Forall (fun x => c_fill x = c_fill a) r ->
    coo_concatenate_src V veqb vzero vadd (Some axis) (a :: r) = Raise ValueError.
  Proof.
    intros Hax Hfl. unfold coo_concatenate_src, coo_concatenate_opt, coo_concatenate.
    assert (E1 : fills_consistent V veqb a (a :: r) = true).
    { unfold fills_consistent. apply forallb_forall. intros x [<-|Hx]; apply veqb_eq; [reflexivity|].
      rewrite Forall_forall in Hfl. symmetry. auto. }
    rewrite E1, andb_false_r.
    rewrite (norm_axis_rejects site_concatenate_axis_ndim axis _ (ndim_of V a)); [reflexivity|reflexivity|exact Hax].
  Qed.

  (* members that do not fit are rejected with the generated exception (ValueError, like NumPy) *)
  Lemma coo_concat_src_mismatch (a : coo V) (r : list (coo V)) (axis : Z) (k : nat) :
    np_norm_axis axis (ndim_of V a) = Some k ->
    Forall (fun x => c_fill x = c_fill a) r ->
    (exists x, In x r /\ same_off_axis k (c_shape a) (c_shape x) = false) ->
    coo_concatenate_src V veqb vzero vadd (Some axis) (a :: r) = Raise ValueError.
  Proof.
    intros Hax Hfl [x [Hin Hbad]]. unfold coo_concatenate_src, coo_concatenate_opt, coo_concatenate.
    assert (E1 : fills_consistent V veqb a (a :: r) = true).
    { unfold fills_consistent. apply forallb_forall. intros y [<-|Hy]; apply veqb_eq; [reflexivity|].
      rewrite Forall_forall in Hfl. symmetry. auto. }
    rewrite E1, andb_false_r.
    destruct (norm_axis_spec site_concatenate_axis_ndim axis _ _ k eq_refl Hax) as [Hnorm _].
    rewrite Hnorm. cbn [bind]. rewrite Nat2Z.id.
    assert (E2 : forallb (fun y => same_off_axis k (c_shape a) (c_shape y)) (a :: r) = false).
    { destruct (forallb _ (a :: r)) eqn:E; [|reflexivity]. rewrite forallb_forall in E.
      rewrite (E x (or_intror Hin)) in Hbad. discriminate. }
    rewrite E2. reflexivity.
  Qed.

  Lemma coo_stack_src_mismatch (a : coo V) (r : list (coo V)) (axis : Z) :
    Forall (fun x => c_fill x = c_fill a) r ->
    (exists x, In x r /\ c_shape x <> c_shape a) ->
    coo_stack_src V veqb vzero vadd axis (a :: r) = Raise ValueError.
  Proof.
    intros Hfl [x [Hin Hbad]]. unfold coo_stack_src, coo_stack.
    assert (E1 : fills_consistent V veqb a (a :: r) = true).
    { unfold fills_consistent. apply forallb_forall. intros y [<-|Hy]; apply veqb_eq; [reflexivity|].
      rewrite Forall_forall in Hfl. symmetry. auto. }
    rewrite E1, andb_false_r.
    assert (E2 : forallb (fun y => idx_eqb (c_shape a) (c_shape y)) (a :: r) = false).
    { destruct (forallb _ (a :: r)) eqn:E; [|reflexivity]. rewrite forallb_forall in E.
      specialize (E x (or_intror Hin)). apply idx_eqb_eq in E. congruence. }
    rewrite E2. reflexivity.
  Qed.

  (* ---------------------------------------------------------------- the property-level statements *)
  Lemma coo_concat_den_proof (a : coo V) (r : list (coo V)) (axis : Z) (k : nat) :
    np_norm_axis axis (ndim_of V a) = Some k ->
    Forall (cwf V) (a :: r) ->
    Forall (fun x => same_off k (c_shape a) (c_shape x)) r ->
    Forall (fun x => c_fill x = c_fill a) r ->
    exists c, coo_concatenate_src V veqb vzero vadd (Some axis) (a :: r) = Ok c
      /\ join_result c a (np_concatenate k (darr_of_coo a) (map darr_of_coo r)).
  Proof.
    intros H1 H2 H3 H4. destruct (coo_concat_src_correct a r axis k H1 H2 H3 H4) as [c [Hc [_ Hj]]].
    exists c. split; assumption.
  Qed.

  Lemma coo_concat_canonical_proof (a : coo V) (r : list (coo V)) (axis : Z) (k : nat) :
    np_norm_axis axis (ndim_of V a) = Some k ->
    Forall (cwf V) (a :: r) ->
    Forall (fun x => same_off k (c_shape a) (c_shape x)) r ->
    Forall (fun x => c_fill x = c_fill a) r ->
    exists c, coo_concatenate_src V veqb vzero vadd (Some axis) (a :: r) = Ok c /\ canonical V c.
  Proof.
    intros H1 H2 H3 H4. destruct (coo_concat_src_correct a r axis k H1 H2 H3 H4) as [c [Hc [Hcan _]]].
    exists c. split; assumption.
  Qed.

  Lemma coo_stack_den_proof (a : coo V) (r : list (coo V)) (axis : Z) (k : nat) :
    np_norm_axis axis (ndim_of V a + 1) = Some k ->
    Forall (cwf V) (a :: r) ->
    Forall (fun x => c_shape x = c_shape a) r ->
    Forall (fun x => c_fill x = c_fill a) r ->
    exists c, coo_stack_src V veqb vzero vadd axis (a :: r) = Ok c
      /\ join_result c a (np_stack k (darr_of_coo a) (map darr_of_coo r)).
  Proof.
    intros H1 H2 H3 H4. destruct (coo_stack_src_correct a r axis k H1 H2 H3 H4) as [c [Hc [_ Hj]]].
    exists c. split; assumption.
  Qed.

  Lemma coo_stack_canonical_proof (a : coo V) (r : list (coo V)) (axis : Z) (k : nat) :
    np_norm_axis axis (ndim_of V a + 1) = Some k ->
    Forall (cwf V) (a :: r) ->
    Forall (fun x => c_shape x = c_shape a) r ->
    Forall (fun x => c_fill x = c_fill a) r ->
    exists c, coo_stack_src V veqb vzero vadd axis (a :: r) = Ok c /\ canonical V c.
  Proof.
    intros H1 H2 H3 H4. destruct (coo_stack_src_correct a r axis k H1 H2 H3 H4) as [c [Hc [Hcan _]]].
    exists c. split; assumption.
  Qed.

  Lemma coo_join_mixed_fill_rejected_proof (a : coo V) (r : list (coo V)) :
    (exists x, In x r /\ c_fill x <> c_fill a) ->
    (forall axis, coo_concatenate_src V veqb vzero vadd axis (a :: r) = Raise ValueError)
    /\ (forall axis, coo_stack_src V veqb vzero vadd axis (a :: r) = Raise ValueError).
  Proof.
    intros H. split; intros axis; [apply coo_concat_src_mixed_fill|apply coo_stack_src_mixed_fill]; exact H.
  Qed.
End Src.

(* ================================================================ concatenate with axis=None (members are flattened first) *)

Section AxisNone.
  Variable V : Type.
  Variable veqb : V -> V -> bool.
  Hypothesis veqb_eq : forall a b, veqb a b = true <-> a = b.

  Lemma SS_map_in {A B} (R : A -> A -> Prop) (R' : B -> B -> Prop) (f : A -> B) (l : list A) :
    (forall a b, In a l -> In b l -> R a b -> R' (f a) (f b)) ->
    StronglySorted R l -> StronglySorted R' (map f l).
  Proof.
    intros Hm Hs. induction Hs as [|a l Hs IH Hall]; simpl; constructor.
    - apply IH. intros x y Hx Hy. apply Hm; right; assumption.
    - apply Forall_forall. intros y Hy. apply in_map_iff in Hy. destruct Hy as [z [<- Hz]].
      rewrite Forall_forall in Hall. apply Hm; [left; reflexivity|right; exact Hz|auto].
  Qed.

  Lemma cwf_flatten (x : coo V) : cwf V x -> cwf V (coo_flatten V x).
  Proof.
    intros [[Hr [Hs Hl]] Hok]. unfold coo_flatten. split; [split; [|split]|]; simpl.
    - apply Forall_forall. intros k Hk. apply in_map_iff in Hk. destruct Hk as [c [<- Hc]].
      rewrite Forall_forall in Hr. specialize (Hr _ Hc). pose proof (ravel_bounds _ _ Hr). simpl. split; [lia|exact I].
    - apply (SS_map_in lex_lt lex_lt); [|exact Hs].
      intros a b Ha Hb Hab. rewrite Forall_forall in Hr. simpl. left.
      apply (ravel_lex (c_shape x)); auto.
    - rewrite map_length. exact Hl.
    - constructor; [apply size_nonneg; exact Hok|constructor].
  Qed.

  Lemma den_flatten (x : coo V) (i : Z) :
    cwf V x -> 0 <= i < size (c_shape x) ->
    den (coo_flatten V x) [i] = den x (unravel (c_shape x) i).
  Proof.
    intros [[Hr [Hs Hl]] Hok] Hi. unfold den, coo_flatten, entries. simpl.
    rewrite combine_map_l.
    rewrite (lookup_map_key V (fun c => [ravel (c_shape x) c]) (fun ix => unravel (c_shape x) (nth 0 ix 0))
               (combine (c_coords x) (c_data x)) [i]); [reflexivity|].
    intros c Hc. apply (entries_keys V x) in Hc. rewrite Forall_forall in Hr. specialize (Hr _ Hc). simpl. split.
    - intros E. inversion E; subst i. symmetry. apply unravel_ravel. exact Hr.
    - intros ->. f_equal. apply ravel_unravel; assumption.
  Qed.

  (* 1-d concatenation only looks at the members inside their ranges *)
  Lemma np_concat_f_ext_1d : forall (r r' : list (darr V)) (a a' : darr V) (i : Z),
    Forall2 (fun p q => exists s, 0 <= s /\ da_shape p = [s] /\ da_shape q = [s] /\
                                  forall j, 0 <= j < s -> da_f p [j] = da_f q [j]) (a :: r) (a' :: r') ->
    0 <= i < zsum (map (ext 0) (a :: r)) ->
    np_concat_f 0 a r [i] = np_concat_f 0 a' r' [i].
  Proof.
    induction r as [|b r IH]; intros r' a a' i H Hi; inversion H as [|? ? ? ? Ha Hr]; subst.
    - inversion Hr; subst. simpl. destruct Ha as [s [Hs [E1 [E2 Hf]]]].
      apply Hf. unfold zsum, ext in Hi. simpl in Hi. rewrite E1 in Hi. simpl in Hi. lia.
    - inversion Hr as [|? b' ? r'' Hb Hr']; subst.
      destruct Ha as [s [Hs [E1 [E2 Hf]]]].
      assert (Ea : ext 0 a = s) by (unfold ext; rewrite E1; reflexivity).
      assert (Ea' : ext 0 a' = s) by (unfold ext; rewrite E2; reflexivity).
      cbn [np_concat_f]. rewrite Ea, Ea'. cbn [nth].
      destruct (Z.ltb_spec i s); [apply Hf; lia|].
      cbn [upd]. apply IH; [exact Hr|].
      unfold zsum in *. cbn [map fold_right] in Hi |- *. rewrite Ea in Hi. lia.
  Qed.
End AxisNone.

Section SrcNone.
  Variable V : Type.
  Variable veqb : V -> V -> bool.
  Hypothesis veqb_eq : forall a b, veqb a b = true <-> a = b.
  Variable vzero : V.
  Variable vadd : V -> V -> V.

  Lemma coo_concat_none_proof (a : coo V) (r : list (coo V)) :
    Forall (cwf V) (a :: r) ->
    Forall (fun x => c_fill x = c_fill a) r ->
    exists c, coo_concatenate_src V veqb vzero vadd None (a :: r) = Ok c
      /\ canonical V c
      /\ join_result V c a (np_concatenate_none (darr_of_coo a) (map darr_of_coo r)).
  Proof.
    intros Hwf Hfl.
    assert (Hwf' : Forall (cwf V) (coo_flatten V a :: map (coo_flatten V) r)).
    { change (Forall (cwf V) (map (coo_flatten V) (a :: r))). apply Forall_forall. intros y Hy.
      apply in_map_iff in Hy. destruct Hy as [x [<- Hx]]. apply cwf_flatten. rewrite Forall_forall in Hwf. auto. }
    assert (Hso : Forall (fun x => same_off 0 (c_shape (coo_flatten V a)) (c_shape x)) (map (coo_flatten V) r)).
    { apply Forall_forall. intros y Hy. apply in_map_iff in Hy. destruct Hy as [x [<- _]]. split; reflexivity. }
    assert (Hfl' : Forall (fun x => c_fill x = c_fill (coo_flatten V a)) (map (coo_flatten V) r)).
    { apply Forall_forall. intros y Hy. apply in_map_iff in Hy. destruct Hy as [x [<- Hx]].
      rewrite Forall_forall in Hfl. simpl. auto. }
    destruct (coo_concat_src_correct V veqb veqb_eq vzero vadd (coo_flatten V a) (map (coo_flatten V) r) 0 0%nat
                eq_refl Hwf' Hso Hfl') as [c [Hc [Hcan [Hsh [Hf Hden]]]]].
    exists c. split; [exact Hc|]. split; [exact Hcan|]. unfold join_result.
    assert (Eext : forall l : list (coo V),
               map (ext 0) (map darr_of_coo (map (coo_flatten V) l)) = map (ext 0) (map (@np_flatten V) (map darr_of_coo l))).
    { intros l. rewrite !map_map. apply map_ext. reflexivity. }
    assert (Hsh' : c_shape c = da_shape (np_concatenate_none (darr_of_coo a) (map darr_of_coo r))).
    { rewrite Hsh. unfold np_concatenate_none. cbn [np_concatenate da_shape darr_of_coo coo_flatten c_shape np_flatten upd].
      f_equal. f_equal.
      change (map (ext 0) (map darr_of_coo (map (coo_flatten V) (a :: r)))
              = map (ext 0) (map (@np_flatten V) (map darr_of_coo (a :: r)))). apply Eext. }
    split; [exact Hsh'|]. split; [exact Hf|].
    intros ix Hix. rewrite (Hden ix Hix). unfold np_concatenate_none. cbn [np_concatenate da_f].
    rewrite Hsh in Hix. cbn [np_concatenate da_shape darr_of_coo coo_flatten c_shape upd] in Hix.
    destruct ix as [|i [|? ?]]; simpl in Hix; try tauto. destruct Hix as [Hi _].
    apply (np_concat_f_ext_1d V).
    - change (Forall2 (fun p q => exists s, 0 <= s /\ da_shape p = [s] /\ da_shape q = [s] /\
                                   forall j, 0 <= j < s -> da_f p [j] = da_f q [j])
                (map darr_of_coo (map (coo_flatten V) (a :: r))) (map (@np_flatten V) (map darr_of_coo (a :: r)))).
      clear -Hwf veqb_eq. induction Hwf as [|x l Hx _ IH]; simpl; constructor; [|exact IH].
      exists (size (c_shape x)). split; [apply size_nonneg; apply Hx|]. split; [reflexivity|]. split; [reflexivity|].
      intros j Hj. simpl. apply den_flatten; assumption.
    - exact Hi.
  Qed.
End SrcNone.

(* ================================================================ indptr splicing *)

Lemma add_from_app (pre X : list Z) (n : Z) :
  add_from (length pre) n (pre ++ X) = pre ++ map (Z.add n) X.
Proof.
  unfold add_from. rewrite firstn_app, Nat.sub_diag, firstn_all, firstn_O, app_nil_r.
  rewrite skipn_app, Nat.sub_diag, skipn_all. reflexivity.
Qed.

Lemma splice_loop_spec : forall (r : list (list Z * Z)) (pre : list Z) (n acc : Z),
  splice_loop r (length pre) n (pre ++ map (Z.add acc) (flat_map (fun m => tl (fst m)) r))
  = pre ++ splice_pref (acc + n) r.
Proof.
  induction r as [|[ip m] r IH]; intros pre n acc; simpl.
  - reflexivity.
  - rewrite add_from_app. rewrite map_app, map_app, !map_map.
    rewrite (map_ext (fun x => n + (acc + x)) (Z.add (acc + n))) by (intros; lia).
    rewrite (map_ext (fun x => n + (acc + x)) (Z.add (acc + n))) by (intros; lia).
    rewrite app_assoc.
    assert (Hl : (length pre + (length ip - 1))%nat = length (pre ++ map (Z.add (acc + n)) (tl ip))).
    { rewrite app_length, map_length. destruct ip; simpl; lia. }
    rewrite Hl. rewrite IH. rewrite <- app_assoc. reflexivity.
Qed.

(* the suffix-add loop computes the prefix sums of the members' nnz *)
Theorem indptr_splice_spec_proof (members : list (list Z * Z)) : splice members = splice_spec members.
Proof.
  destruct members as [|[ip0 n0] r]; [reflexivity|]. unfold splice, splice_spec.
  pose proof (splice_loop_spec r ip0 n0 0) as H. rewrite Z.add_0_l in H. rewrite <- H. f_equal. f_equal.
  symmetry. etransitivity; [|apply map_id]. apply map_ext. intros; lia.
Qed.

(* ---------------------------------------------------------------- the spliced pointer is a valid index pointer *)

Lemma SS_le_head_bound (a : Z) (t : list Z) : StronglySorted Z.le (a :: t) -> Forall (fun v => a <= v) t.
Proof. intros H. inversion H; assumption. Qed.

Lemma SS_le_last_bound (l : list Z) d : StronglySorted Z.le l -> Forall (fun v => v <= last l d) l.
Proof.
  induction 1 as [|a l Hs IH Hall]; [constructor|].
  destruct l as [|b l']; [constructor; [simpl; lia|constructor]|].
  change (last (a :: b :: l') d) with (last (b :: l') d).
  constructor; [|exact IH].
  inversion IH as [|? ? Hb _]; subst. inversion Hall as [|? ? Hab _]; subst. lia.
Qed.

Lemma SS_le_map_add off (l : list Z) : StronglySorted Z.le l -> StronglySorted Z.le (map (Z.add off) l).
Proof.
  induction 1 as [|a l Hs IH Hall]; simpl; constructor; [assumption|].
  apply Forall_forall. intros x Hx. apply in_map_iff in Hx. destruct Hx as [y [<- Hy]].
  rewrite Forall_forall in Hall. specialize (Hall _ Hy). lia.
Qed.

Lemma last_default_irrelevant (l : list Z) d d' : l <> [] -> last l d = last l d'.
Proof.
  induction l as [|a l IH]; [congruence|]. intros _. destruct l as [|b l']; [reflexivity|].
  change (last (a :: b :: l') d) with (last (b :: l') d). change (last (a :: b :: l') d') with (last (b :: l') d').
  apply IH. discriminate.
Qed.

Lemma last_app_default (A B : list Z) d : last (A ++ B) d = last B (last A d).
Proof.
  induction A as [|a A IH]; [reflexivity|].
  destruct A as [|a' A'].
  - destruct B as [|z B']; [reflexivity|].
    change (last ([a] ++ z :: B') d) with (last (z :: B') d). change (last [a] d) with a.
    apply last_default_irrelevant. discriminate.
  - change ((a :: a' :: A') ++ B) with (a :: (a' :: A') ++ B).
    change (last (a :: a' :: A') d) with (last (a' :: A') d). rewrite <- IH.
    simpl. destruct (A' ++ B); reflexivity.
Qed.

Lemma last_map_add off (t : list Z) d : last (map (Z.add off) t) (off + d) = off + last t d.
Proof.
  induction t as [|a t IH]; [reflexivity|]. destruct t as [|b t']; [reflexivity|].
  change (last (map (Z.add off) (a :: b :: t')) (off + d)) with (last (map (Z.add off) (b :: t')) (off + d)).
  rewrite IH. reflexivity.
Qed.

(* facts about one valid member pointer 0 :: t with last = n *)
Lemma indptr_ok_facts (ip : list Z) (n : Z) : indptr_ok ip n ->
  exists t, ip = 0 :: t /\ Forall (fun v => 0 <= v <= n) t /\ StronglySorted Z.le t /\ last t 0 = n /\ 0 <= n.
Proof.
  intros [Hh [Hs Hl]]. destruct ip as [|a t]; [simpl in Hh; lia|]. simpl in Hh. subst a.
  exists t. split; [reflexivity|].
  pose proof (SS_le_head_bound 0 t Hs) as Hlo. pose proof (SS_le_last_bound (0 :: t) (-1) Hs) as Hhi.
  rewrite Hl in Hhi. inversion Hhi as [|? ? H0 Hhi']; subst.
  split; [|split; [inversion Hs; assumption|split; [|assumption]]].
  - apply Forall_forall. intros v Hv. rewrite Forall_forall in Hlo, Hhi'. split; auto.
  - destruct t as [|b t']; [reflexivity|].
    change (last (0 :: b :: t') (-1)) with (last (b :: t') (-1)). apply last_default_irrelevant. discriminate.
Qed.

Lemma splice_pref_facts : forall (r : list (list Z * Z)) (off : Z),
  Forall (fun m => indptr_ok (fst m) (snd m)) r ->
  Forall (fun v => off <= v) (splice_pref off r)
  /\ StronglySorted Z.le (splice_pref off r)
  /\ last (splice_pref off r) off = off + zsum (map snd r)
  /\ length (splice_pref off r) = fold_right (fun m s => (length (fst m) - 1 + s)%nat) 0%nat r.
Proof.
  induction r as [|[ip n] r IH]; intros off Hall.
  - simpl. repeat split; [constructor|constructor|unfold zsum; simpl; lia].
  - inversion Hall as [|? ? Hm Hr]; subst. simpl in Hm.
    destruct (indptr_ok_facts ip n Hm) as [t [-> [Hb [Hst [Hlast Hn]]]]].
    destruct (IH (off + n) Hr) as [I1 [I2 [I3 I4]]].
    cbn [splice_pref tl fst snd map fold_right length].
    assert (HA : Forall (fun v => off <= v <= off + n) (map (Z.add off) t)).
    { apply Forall_forall. intros v Hv. apply in_map_iff in Hv. destruct Hv as [y [<- Hy]].
      rewrite Forall_forall in Hb. specialize (Hb _ Hy). lia. }
    split; [|split; [|split]].
    + apply Forall_app. split.
      * eapply Forall_impl; [|exact HA]. intros; simpl in *; lia.
      * eapply Forall_impl; [|exact I1]. intros; simpl in *; lia.
    + apply SS_app; [apply SS_le_map_add; exact Hst|exact I2|].
      intros a b Ha Hb'. rewrite Forall_forall in HA, I1. specialize (HA _ Ha). specialize (I1 _ Hb'). lia.
    + rewrite last_app_default.
      replace (last (map (Z.add off) t) off) with (off + last t 0)
        by (rewrite <- last_map_add; f_equal; lia).
      rewrite Hlast, I3. unfold zsum. simpl. lia.
    + rewrite app_length, map_length, I4. simpl. lia.
Qed.

Theorem indptr_splice_wf_proof (members : list (list Z * Z)) :
  members <> [] -> Forall (fun m => indptr_ok (fst m) (snd m)) members ->
  indptr_ok (splice members) (zsum (map snd members))
  /\ length (splice members) = S (fold_right (fun m s => (length (fst m) - 1 + s)%nat) 0%nat members).
Proof.
  intros Hne Hall. rewrite indptr_splice_spec_proof.
  destruct members as [|[ip0 n0] r]; [congruence|]. inversion Hall as [|? ? Hm Hr]; subst. simpl in Hm.
  destruct (indptr_ok_facts ip0 n0 Hm) as [t [-> [Hb [Hst [Hlast Hn]]]]].
  destruct (splice_pref_facts r n0 Hr) as [I1 [I2 [I3 I4]]].
  destruct Hm as [_ [Hs0 Hl0]].
  unfold splice_spec. split; [split; [reflexivity|split]|].
  - apply SS_app; [exact Hs0|exact I2|].
    intros a b Ha Hb'. rewrite Forall_forall in I1. specialize (I1 _ Hb').
    pose proof (SS_le_last_bound (0 :: t) (-1) Hs0) as Hhi. rewrite Hl0 in Hhi.
    rewrite Forall_forall in Hhi. specialize (Hhi _ Ha). lia.
  - rewrite last_app_default, Hl0, I3. unfold zsum. simpl. lia.
  - rewrite app_length, I4. simpl. lia.
Qed.

(* the number the joiners widen the pointer dtype for bounds every pointer entry AND every row number *)
Theorem indptr_needed_bounds_proof (members : list (list Z * Z)) :
  members <> [] -> Forall (fun m => indptr_ok (fst m) (snd m)) members ->
  exists needed,
    indptr_needed site_gcxs_concatenate_indptr_needed members = Ok needed
    /\ indptr_needed site_gcxs_stack_indptr_needed members = Ok needed
    /\ Forall (fun v => 0 <= v <= needed) (splice members)
    /\ Z.of_nat (length (splice members)) - 1 <= needed.
Proof.
  intros Hne Hall. destruct (indptr_splice_wf_proof members Hne Hall) as [[Hh [Hs Hl]] _].
  set (T := zsum (map snd members)) in *. set (L := Z.of_nat (length (splice members))).
  exists (Z.max T (L - 1)).
  assert (E : forall f, f = site_gcxs_concatenate_indptr_needed \/ f = site_gcxs_stack_indptr_needed ->
                        indptr_needed f members = Ok (Z.max T (L - 1))).
  { intros f [-> | ->]; unfold indptr_needed; fold T; fold L;
      [unfold site_gcxs_concatenate_indptr_needed|unfold site_gcxs_stack_indptr_needed]; cbn;
      destruct (Z.ltb_spec T (L - 1)); cbn; f_equal; lia. }
  split; [apply E; left; reflexivity|]. split; [apply E; right; reflexivity|]. split; [|lia].
  pose proof (SS_le_last_bound _ (-1) Hs) as Hhi. rewrite Hl in Hhi.
  destruct (splice members) as [|a t] eqn:Es; [constructor|]. simpl in Hh. subst a.
  pose proof (SS_le_head_bound 0 t Hs) as Hlo.
  inversion Hhi as [|? ? H0 Hhi']; subst.
  constructor; [lia|]. apply Forall_forall. intros v Hv. rewrite Forall_forall in Hlo, Hhi'.
  specialize (Hlo _ Hv). specialize (Hhi' _ Hv). lia.
Qed.

(* indptr_ok is what GCXS.gcxs_wfb demands of an index pointer with rows+1 entries *)
Lemma nondecreasing_SS (l : list Z) : nondecreasing l = true <-> StronglySorted Z.le l.
Proof.
  induction l as [|a r IH]; simpl.
  - split; [constructor|reflexivity].
  - destruct r as [|b r'].
    + split; [intros _; constructor; constructor|reflexivity].
    + rewrite andb_true_iff, Z.leb_le, IH. split.
      * intros [Hab Hs]. constructor; [assumption|].
        inversion Hs as [|? ? Hs' Hall]; subst. constructor; [assumption|].
        eapply Forall_impl; [|exact Hall]. intros c Hc. simpl in *. lia.
      * intros Hs. inversion Hs as [|? ? Hs' Hall]; subst. split; [|assumption].
        inversion Hall; assumption.
Qed.

Lemma indptr_ok_wfb (ip : list Z) (rows nnz : Z) :
  Z.of_nat (length ip) = rows + 1 -> 0 <= rows ->
  (indptr_ok ip nnz <->
   (znth ip 0 (-1) =? 0) && (znth ip rows (-1) =? nnz) && nondecreasing ip = true).
Proof.
  intros Hlen Hrows. unfold indptr_ok, znth. rewrite !andb_true_iff, !Z.eqb_eq, nondecreasing_SS.
  assert (Hhd : nth (Z.to_nat 0) ip (-1) = hd (-1) ip) by (destruct ip; reflexivity).
  assert (Hlast : nth (Z.to_nat rows) ip (-1) = last ip (-1)).
  { replace (Z.to_nat rows) with (length ip - 1)%nat by lia. clear.
    induction ip as [|a l IH]; [reflexivity|]. destruct l as [|b l']; [reflexivity|].
    change (last (a :: b :: l') (-1)) with (last (b :: l') (-1)). rewrite <- IH.
    simpl. rewrite Nat.sub_0_r. reflexivity. }
  rewrite Hhd, Hlast. tauto.
Qed.

(* ================================================================ non-vacuity (V = Z) *)

Lemma cwf_by_computation (c : coo Z) :
  canonicalb c = true -> forallb (fun d => 0 <=? d) (c_shape c) = true -> cwf Z c.
Proof.
  intros H1 H2. split; [apply (canonicalb_spec Z); exact H1|].
  unfold shape_ok. apply Forall_forall. intros d Hd. rewrite forallb_forall in H2. specialize (H2 _ Hd). lia.
Qed.

(* two members joined along the LAST axis given as -1: the sorted flag is false, the constructor sorts *)
Example coo_concat_nonvacuous :
  let a := mkCOO [2; 2] [[0; 1]; [1; 0]] [5; 7] 0 in
  let b := mkCOO [2; 1] [[1; 0]] [9] 0 in
  np_norm_axis (-1) (ndim_of Z a) = Some 1%nat /\ Forall (cwf Z) [a; b]
  /\ Forall (fun x => same_off 1 (c_shape a) (c_shape x)) [b] /\ Forall (fun x => c_fill x = c_fill a) [b]
  /\ coo_concatenate_src Z Z.eqb 0 Z.add (Some (-1)) [a; b]
     = Ok (mkCOO [2; 3] [[0; 1]; [1; 0]; [1; 2]] [5; 7; 9] 0).
Proof.
  cbv zeta. split; [reflexivity|]. split; [repeat (apply Forall_cons; [apply cwf_by_computation; reflexivity|]); apply Forall_nil|].
  split; [repeat constructor|]. split; [repeat constructor|]. vm_compute. reflexivity.
Qed.

(* three members (one empty) stacked at position -2 of the 3-d result *)
Example coo_stack_nonvacuous :
  let a := mkCOO [2; 2] [[0; 1]; [1; 0]] [5; 7] 3 in
  let b := mkCOO [2; 2] [] [] 3 in
  let c := mkCOO [2; 2] [[1; 1]] [9] 3 in
  np_norm_axis (-2) (ndim_of Z a + 1) = Some 1%nat /\ Forall (cwf Z) [a; b; c]
  /\ Forall (fun x => c_shape x = c_shape a) [b; c] /\ Forall (fun x => c_fill x = c_fill a) [b; c]
  /\ coo_stack_src Z Z.eqb 0 Z.add (-2) [a; b; c]
     = Ok (mkCOO [2; 3; 2] [[0; 0; 1]; [1; 0; 0]; [1; 2; 1]] [5; 7; 9] 3).
Proof.
  cbv zeta. split; [reflexivity|]. split; [repeat (apply Forall_cons; [apply cwf_by_computation; reflexivity|]); apply Forall_nil|].
  split; [repeat constructor|]. split; [repeat constructor|]. vm_compute. reflexivity.
Qed.

Example indptr_splice_nonvacuous :
  splice [([0; 2; 3], 3); ([0; 0; 1], 1); ([0; 4], 4)] = [0; 2; 3; 3; 4; 8].
Proof. reflexivity. Qed.

(* axis=None: members of different shapes *)
Example coo_concat_none_nonvacuous :
  let a := mkCOO [2; 2] [[0; 1]; [1; 0]] [5; 7] 0 in
  let b := mkCOO [3] [[2]] [9] 0 in
  Forall (cwf Z) [a; b] /\ Forall (fun x => c_fill x = c_fill a) [b]
  /\ coo_concatenate_src Z Z.eqb 0 Z.add None [a; b] = Ok (mkCOO [7] [[1]; [2]; [6]] [5; 7; 9] 0).
Proof.
  cbv zeta. split; [repeat (apply Forall_cons; [apply cwf_by_computation; reflexivity|]); apply Forall_nil|].
  split; [repeat constructor|]. vm_compute. reflexivity.
Qed.

Example indptr_splice_wf_nonvacuous :
  Forall (fun m => indptr_ok (fst m) (snd m)) [([0; 2; 3], 3); ([0; 0; 1], 1); ([0], 0); ([0; 4], 4)]
  /\ splice [([0; 2; 3], 3); ([0; 0; 1], 1); ([0], 0); ([0; 4], 4)] = [0; 2; 3; 3; 4; 8].
Proof.
  split; [|reflexivity].
  repeat (apply Forall_cons; [split; [reflexivity|split; [|reflexivity]]; repeat constructor; simpl; lia|]).
  apply Forall_nil.
Qed.
