(* Proofs/ShapeOpsGA.v — C08, GCXS side, lifted from "the compressed form of a canonical COO array" to EVERY
   well-formed GCXS record.  Proofs/ShapeOpsGP.v states the GCXS theorems for g = _from_coo c ca with c canonical;
   C05's surjectivity result (Proofs/ConvertU.v: gcxs_image / from_coo_tocoo_proof) says that every record accepted by
   gcxs_strictb (gcxs_wfb, and for ndim < 2 the unused compressed_axes / indptr fields empty, as the code keeps them)
   IS of that form, with c = GCXS.tocoo of it.  The theorems below combine the two: no hypothesis about how the
   operand was built remains. *)
From Coq Require Import ZArith List Bool Lia.
From Verif Require Import Py Shape COO GCXS COOP Convert ConvertL ConvertM ConvertG ConvertP ConvertU.
From Verif Require Import G_shapeops S_shapeops ShapeOps NpShapeOps ShapeOpsL ShapeOpsP ShapeOpsG ShapeOpsGP.
Import ListNotations.
Open Scope Z_scope.

Section Any.
  Variable V : Type.
  Variable veqb : V -> V -> bool.
  Variable add : V -> V -> V.
  Hypothesis veqb_eq : forall a b, veqb a b = true <-> a = b.

  (* the COO form of a well-formed GCXS record, with everything the GP theorems ask of it *)
  Lemma strict_form (g : gcxs V) :
    gcxs_strictb V g = true ->
    let c := gcxs_tocoo veqb add g in
    canonical V c /\ c_shape c = g_shape g /\ c_fill c = g_fill g /\ shape_ok (c_shape c)
    /\ axes_ok (c_shape c) (g_caxes g) /\ gcxs_from_coo c (g_caxes g) = g.
  Proof.
    intros H c.
    destruct (gcxs_image V g H) as [c0 [Hc [Hsh [Hf [Hok [Hax Heq]]]]]].
    assert (Ht : c = c0).
    { unfold c. rewrite <- Heq at 1.
      apply tocoo_from_coo_proof; [exact Hc|rewrite Hsh; exact Hok|rewrite Hsh; exact Hax]. }
    rewrite Ht, Hsh. split; [exact Hc|]. split; [reflexivity|]. split; [exact Hf|]. split; [exact Hok|]. split; [exact Hax|exact Heq].
  Qed.

  (* GCXS.transpose of ANY well-formed GCXS array: well-formed result with NumPy's dense meaning *)
  Theorem gcxs_transpose_den_any_proof (g : gcxs V) axes r :
    gcxs_strictb V g = true ->
    gcxs_transpose g axes = Ok r ->
    let n := zlen (g_shape g) in
    let perm := tr_perm n axes in
    tr_valid n axes /\
    gcxs_wfb r = true /\
    g_shape r = np_transpose_shape (g_shape g) perm /\
    g_fill r = g_fill g /\
    (forall ix : idx, in_range (g_shape r) ix -> gden r ix = np_transpose perm (gden g) ix).
  Proof.
    intros H Hr n perm.
    destruct (strict_form g H) as [Hc [Hsh [Hf [Hok [Hax Heq]]]]].
    rewrite <- Heq in Hr.
    pose proof (gcxs_transpose_den_proof V veqb add _ _ _ _ Hc Hok Hax Hr) as P.
    cbv zeta in P. unfold ndim in P. rewrite Hsh, Hf, Heq in P. exact P.
  Qed.

  (* ... and it raises exactly when COO.transpose of its COO form raises *)
  Theorem gcxs_transpose_raises_any_proof (g : gcxs V) axes e :
    gcxs_strictb V g = true ->
    coo_transpose (gcxs_tocoo veqb add g) axes = Raise e -> gcxs_transpose g axes = Raise e.
  Proof.
    intros H He.
    destruct (strict_form g H) as [Hc [Hsh [Hf [Hok [Hax Heq]]]]].
    rewrite <- Heq.
    exact (proj2 (gcxs_transpose_repr_proof V _ _ axes Hc Hok Hax) e He).
  Qed.

  (* GCXS.reshape / flatten of ANY well-formed GCXS array *)
  Theorem gcxs_reshape_den_any_proof (g : gcxs V) new r :
    gcxs_strictb V g = true ->
    gcxs_reshape veqb add g new = Some (Ok r) ->
    gcxs_wfb r = true /\
    size (g_shape r) = size (g_shape g) /\
    g_fill r = g_fill g /\
    np_reshape_target (g_shape g) new = Ok (g_shape r) /\
    (forall ix : idx, in_range (g_shape r) ix -> gden r ix = np_reshape (g_shape g) (g_shape r) (gden g) ix).
  Proof.
    intros H Hr.
    destruct (strict_form g H) as [Hc [Hsh [Hf [Hok [Hax Heq]]]]].
    rewrite <- Heq in Hr.
    pose proof (gcxs_reshape_den_proof V veqb add _ _ _ _ Hc Hok Hax Hr) as P.
    rewrite Hsh, Hf, Heq in P. exact P.
  Qed.

  Theorem gcxs_reshape_raises_any_proof (g : gcxs V) new e :
    gcxs_strictb V g = true ->
    coo_reshape (gcxs_tocoo veqb add g) new = Raise e -> gcxs_reshape veqb add g new = Some (Raise e).
  Proof.
    intros H He.
    destruct (strict_form g H) as [Hc [Hsh [Hf [Hok [Hax Heq]]]]].
    rewrite <- Heq at 1.
    exact (proj2 (gcxs_reshape_repr_proof V veqb add _ _ new Hc Hok Hax) e He).
  Qed.

  (* squeeze / broadcast_to / the 0-d detour (x.tocoo().<f>().asformat("gcxs")) of ANY well-formed GCXS array *)
  Theorem gcxs_via_coo_any_proof (g : gcxs V) (f : coo V -> res (coo V)) :
    gcxs_strictb V g = true ->
    via_coo veqb add g f =
    match f (gcxs_tocoo veqb add g) with
    | Ok c' => Ok (gcxs_from_coo c' (default_caxes (c_shape c')))
    | Raise e => Raise e
    end.
  Proof.
    intros H.
    destruct (strict_form g H) as [Hc [Hsh [Hf [Hok [Hax Heq]]]]].
    rewrite <- Heq at 1.
    exact (gcxs_via_coo_repr_proof V veqb add _ _ f Hc Hok Hax).
  Qed.
End Any.

(* non-vacuity: a 2x3 CSR-like record that was NOT produced by the model's _from_coo is accepted by gcxs_strictb *)
Example strict_record_exists :
  gcxs_strictb Z (mkGCXS [2; 3] [0] [5; 7; 9] [0; 2; 1] [0; 2; 3] 0) = true.
Proof. vm_compute. reflexivity. Qed.
