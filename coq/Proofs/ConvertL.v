(* Proofs/ConvertL.v — list lemmas for C05: the stable sort (permutation, sortedness, stability,
   uniqueness of a sorted arrangement with distinct keys), bincount / cumsum / row_numbers /
   rows_of (compress and uncompress are inverse on sorted rows). *)
From Coq Require Import ZArith List Bool Lia Sorting.Sorted Sorting.Permutation.
From Verif Require Import Shape COO GCXS COOP Convert.
Import ListNotations.
Open Scope Z_scope.

(* ------------------------------------------------------------------ combine / map *)
Lemma map_fst_combine {A B} (l1 : list A) (l2 : list B) :
  length l1 = length l2 -> map fst (combine l1 l2) = l1.
Proof. revert l2; induction l1; intros [|b l2]; simpl; try discriminate; auto. intros H. f_equal. apply IHl1. lia. Qed.

Lemma map_snd_combine {A B} (l1 : list A) (l2 : list B) :
  length l1 = length l2 -> map snd (combine l1 l2) = l2.
Proof. revert l2; induction l1; intros [|b l2]; simpl; try discriminate; auto. intros H. f_equal. apply IHl1. lia. Qed.

Lemma combine_fst_snd {A B} (l : list (A * B)) : combine (map fst l) (map snd l) = l.
Proof. induction l as [|[a b] l IH]; simpl; congruence. Qed.

Lemma combine_map_l {A B C} (f : A -> C) (l1 : list A) (l2 : list B) :
  combine (map f l1) l2 = map (fun p => (f (fst p), snd p)) (combine l1 l2).
Proof. revert l2; induction l1; intros [|b l2]; simpl; auto. f_equal. apply IHl1. Qed.

Lemma combine_map_self {A C} (f : A -> C) (l : list A) :
  combine (map f l) l = map (fun x => (f x, x)) l.
Proof. induction l; simpl; congruence. Qed.

Lemma flat_map_ext_in' {A B} (f g : A -> list B) l :
  (forall a, In a l -> f a = g a) -> flat_map f l = flat_map g l.
Proof.
  induction l as [|x l IH]; simpl; intros H; [reflexivity|].
  rewrite H by auto. f_equal. apply IH. auto.
Qed.

(* ------------------------------------------------------------------ stable sort *)
Section Sort.
  Context {A : Type}.
  Definition kle (a b : Z * A) : Prop := fst a <= fst b.

  Lemma insert_key_perm k (x : A) l : Permutation ((k, x) :: l) (insert_key k x l).
  Proof.
    induction l as [|[k' y] r IH]; simpl; [apply Permutation_refl|].
    destruct (k <=? k'); [apply Permutation_refl|].
    eapply perm_trans; [apply perm_swap|]. apply perm_skip. exact IH.
  Qed.

  Lemma stable_sort_perm (l : list (Z * A)) : Permutation l (stable_sort l).
  Proof.
    induction l as [|[k x] r IH]; simpl; [constructor|].
    eapply perm_trans; [apply perm_skip; exact IH|]. apply insert_key_perm.
  Qed.

  Lemma insert_key_sorted k (x : A) l :
    StronglySorted kle l -> StronglySorted kle (insert_key k x l).
  Proof.
    induction 1 as [|[k' y] r Hs IH Hall]; simpl.
    - constructor; constructor.
    - destruct (Z.leb_spec k k').
      + constructor; [constructor; assumption|]. constructor; [unfold kle; simpl; lia|].
        eapply Forall_impl; [|exact Hall]. intros [k2 z]. unfold kle; simpl. lia.
      + constructor; [exact IH|].
        eapply Permutation_Forall; [apply insert_key_perm|].
        constructor; [unfold kle; simpl; lia|exact Hall].
  Qed.

  Lemma stable_sort_sorted (l : list (Z * A)) : StronglySorted kle (stable_sort l).
  Proof. induction l as [|[k x] r IH]; simpl; [constructor|]. apply insert_key_sorted. exact IH. Qed.

  (* stability: the entries of any one key keep their relative order *)
  Lemma insert_key_filter k (x : A) l q :
    filter (fun p => fst p =? q) (insert_key k x l) = filter (fun p => fst p =? q) ((k, x) :: l).
  Proof.
    induction l as [|[k' y] r IH]; simpl; [reflexivity|].
    destruct (Z.leb_spec k k'); [reflexivity|].
    simpl. simpl in IH. rewrite IH.
    destruct (Z.eqb_spec k q), (Z.eqb_spec k' q); try reflexivity. lia.
  Qed.

  Lemma stable_sort_filter (l : list (Z * A)) q :
    filter (fun p => fst p =? q) (stable_sort l) = filter (fun p => fst p =? q) l.
  Proof.
    induction l as [|[k x] r IH]; simpl; [reflexivity|].
    rewrite insert_key_filter. simpl. rewrite IH. reflexivity.
  Qed.

  Lemma stable_sort_length (l : list (Z * A)) : length (stable_sort l) = length l.
  Proof. symmetry. apply Permutation_length, stable_sort_perm. Qed.

  (* a list sorted by key is left alone *)
  Lemma insert_key_head k (x : A) l :
    Forall (fun p => k <= fst p) l -> insert_key k x l = (k, x) :: l.
  Proof.
    destruct l as [|[k' y] r]; simpl; [reflexivity|]. intros H. inversion H; subst. simpl in *.
    destruct (Z.leb_spec k k'); [reflexivity|lia].
  Qed.

  Lemma stable_sort_sorted_id (l : list (Z * A)) : StronglySorted kle l -> stable_sort l = l.
  Proof.
    induction 1 as [|[k x] r Hs IH Hall]; simpl; [reflexivity|].
    rewrite IH. apply insert_key_head. exact Hall.
  Qed.

  (* two arrangements of the same entries, both sorted by key, keys distinct: equal *)
  Lemma sorted_perm_unique (l1 l2 : list (Z * A)) :
    Permutation l1 l2 -> StronglySorted kle l1 -> StronglySorted kle l2 ->
    NoDup (map fst l1) -> l1 = l2.
  Proof.
    revert l2. induction l1 as [|x l1 IH]; intros l2 Hp H1 H2 Hnd.
    - apply Permutation_nil in Hp. subst; reflexivity.
    - destruct l2 as [|y l2]; [apply Permutation_sym, Permutation_nil in Hp; discriminate|].
      inversion H1 as [|? ? H1' Hall1]; subst. inversion H2 as [|? ? H2' Hall2]; subst.
      inversion Hnd as [|? ? Hx Hnd']; subst.
      rewrite Forall_forall in Hall1, Hall2.
      assert (Hxy : x = y).
      { assert (Hxin : In x (y :: l2)) by (eapply Permutation_in; [exact Hp|left; reflexivity]).
        assert (Hyin : In y (x :: l1)) by (eapply Permutation_in; [apply Permutation_sym; exact Hp|left; reflexivity]).
        destruct Hxin as [->|Hxin]; [reflexivity|]. destruct Hyin as [->|Hyin]; [reflexivity|].
        assert (fst x = fst y) by (specialize (Hall1 _ Hyin); specialize (Hall2 _ Hxin); unfold kle in *; lia).
        exfalso. apply Hx. rewrite H. apply in_map. exact Hyin. }
      subst y. f_equal. apply IH; auto. eapply Permutation_cons_inv; exact Hp.
  Qed.

  Lemma stable_sort_unique (l s : list (Z * A)) :
    Permutation l s -> StronglySorted kle s -> NoDup (map fst l) -> stable_sort l = s.
  Proof.
    intros Hp Hs Hnd. apply sorted_perm_unique.
    - eapply perm_trans; [apply Permutation_sym, stable_sort_perm|exact Hp].
    - apply stable_sort_sorted.
    - exact Hs.
    - eapply Permutation_NoDup; [|exact Hnd]. apply Permutation_map, stable_sort_perm.
  Qed.
End Sort.

(* the sort commutes with a key-preserving change of payload *)
Lemma insert_key_map {A B} (h : Z -> A -> B) k x (l : list (Z * A)) :
  insert_key k (h k x) (map (fun p => (fst p, h (fst p) (snd p))) l)
  = map (fun p => (fst p, h (fst p) (snd p))) (insert_key k x l).
Proof.
  induction l as [|[k' y] r IH]; simpl; [reflexivity|].
  destruct (k <=? k'); simpl; [reflexivity|]. f_equal. exact IH.
Qed.

Lemma stable_sort_map {A B} (h : Z -> A -> B) (l : list (Z * A)) :
  stable_sort (map (fun p => (fst p, h (fst p) (snd p))) l)
  = map (fun p => (fst p, h (fst p) (snd p))) (stable_sort l).
Proof.
  induction l as [|[k x] r IH]; simpl; [reflexivity|]. rewrite IH. apply insert_key_map.
Qed.

(* ------------------------------------------------------------------ sortedness predicates *)
Lemma nondecreasing_SS l : nondecreasing l = true <-> StronglySorted Z.le l.
Proof.
  induction l as [|a r IH]; simpl.
  - split; [constructor|reflexivity].
  - destruct r as [|b r'].
    + split; [intros _; constructor; constructor|reflexivity].
    + rewrite andb_true_iff, Z.leb_le, IH. split.
      * intros [Hab Hs]. constructor; [assumption|].
        inversion Hs as [|? ? Hs' Hall]; subst. constructor; [assumption|].
        eapply Forall_impl; [|exact Hall]. intros; lia.
      * intros Hs. inversion Hs as [|? ? Hs' Hall]; subst. split; [|assumption].
        inversion Hall; assumption.
Qed.

Lemma strictly_increasing_SS l : strictly_increasing l = true <-> StronglySorted Z.lt l.
Proof.
  induction l as [|a r IH]; simpl.
  - split; [constructor|reflexivity].
  - destruct r as [|b r'].
    + split; [intros _; constructor; constructor|reflexivity].
    + rewrite andb_true_iff, Z.ltb_lt, IH. split.
      * intros [Hab Hs]. constructor; [assumption|].
        inversion Hs as [|? ? Hs' Hall]; subst. constructor; [assumption|].
        eapply Forall_impl; [|exact Hall]. intros; lia.
      * intros Hs. inversion Hs as [|? ? Hs' Hall]; subst. split; [|assumption].
        inversion Hall; assumption.
Qed.

Lemma SS_lt_le l : StronglySorted Z.lt l -> StronglySorted Z.le l.
Proof.
  induction 1; constructor; auto. eapply Forall_impl; [|eassumption]. intros; lia.
Qed.

Lemma SS_lt_NoDup l : StronglySorted Z.lt l -> NoDup l.
Proof.
  induction 1 as [|a l Hs IH Hall]; constructor; [|assumption].
  intros Hin. rewrite Forall_forall in Hall. specialize (Hall _ Hin). lia.
Qed.

Lemma SS_le_NoDup_lt l : StronglySorted Z.le l -> NoDup l -> StronglySorted Z.lt l.
Proof.
  induction 1 as [|a l Hs IH Hall]; intros Hnd; constructor; inversion Hnd; subst; auto.
  rewrite Forall_forall in *. intros x Hx. specialize (Hall _ Hx).
  assert (a <> x) by (intros ->; contradiction). lia.
Qed.

Lemma adjacent_distinct_SS_lt l : StronglySorted Z.lt l -> adjacent_distinct l = true.
Proof.
  induction 1 as [|a l Hs IH Hall]; simpl; [reflexivity|].
  destruct l as [|b l']; [reflexivity|]. rewrite IH, andb_true_r.
  inversion Hall; subst. apply negb_true_iff, Z.eqb_neq. lia.
Qed.

Lemma SS_map_kle {A} (l : list (Z * A)) : StronglySorted kle l <-> StronglySorted Z.le (map fst l).
Proof.
  induction l as [|x l IH]; simpl; split; intros H; try constructor; inversion H; subst.
  - apply IH; assumption.
  - rewrite Forall_map. assumption.
  - apply IH; assumption.
  - rewrite Forall_map in *. assumption.
Qed.

Lemma SS_app_inv {A} (R : A -> A -> Prop) l1 l2 :
  StronglySorted R (l1 ++ l2) -> StronglySorted R l1 /\ StronglySorted R l2.
Proof.
  induction l1 as [|x l1 IH]; simpl; intros H; [split; [constructor|assumption]|].
  inversion H as [|? ? H' Hall]; subst. destruct (IH H') as [H1 H2]. split; [|assumption].
  constructor; [assumption|]. apply Forall_app in Hall. tauto.
Qed.

Lemma SS_firstn {A} (R : A -> A -> Prop) n l : StronglySorted R l -> StronglySorted R (firstn n l).
Proof. intros H. rewrite <- (firstn_skipn n l) in H. apply SS_app_inv in H. tauto. Qed.

Lemma SS_skipn {A} (R : A -> A -> Prop) n l : StronglySorted R l -> StronglySorted R (skipn n l).
Proof. intros H. rewrite <- (firstn_skipn n l) in H. apply SS_app_inv in H. tauto. Qed.

Lemma SS_map_mono {A B} (R : A -> A -> Prop) (S : B -> B -> Prop) (f : A -> B) l :
  (forall a b, In a l -> In b l -> R a b -> S (f a) (f b)) ->
  StronglySorted R l -> StronglySorted S (map f l).
Proof.
  intros Hf Hs. induction Hs as [|a l Hs IH Hall]; simpl; constructor.
  - apply IH. intros; apply Hf; simpl; auto.
  - rewrite Forall_map. rewrite Forall_forall in *. intros x Hx. apply Hf; simpl; auto.
Qed.

(* ------------------------------------------------------------------ bincount, cumsum, row_numbers *)
Definition zr (lo n : nat) : list Z := map Z.of_nat (seq lo n).

Lemma zrange_zr m : zrange m = zr 0 (Z.to_nat m).
Proof. reflexivity. Qed.

Lemma zr_S lo n : zr lo (S n) = Z.of_nat lo :: zr (S lo) n.
Proof. reflexivity. Qed.

Lemma zr_In lo n x : In x (zr lo n) <-> Z.of_nat lo <= x < Z.of_nat lo + Z.of_nat n.
Proof.
  unfold zr. rewrite in_map_iff. split.
  - intros [k [<- Hk]]. apply in_seq in Hk. lia.
  - intros H. exists (Z.to_nat x). split; [lia|]. apply in_seq. lia.
Qed.

Lemma count_z_nonneg l r : 0 <= count_z l r.
Proof. unfold count_z. lia. Qed.

Lemma count_z_cons l x r : count_z (x :: l) r = (if r =? x then 1 else 0) + count_z l r.
Proof. unfold count_z. simpl. destruct (r =? x); simpl; lia. Qed.

Lemma filter_eqb_repeat l r : filter (Z.eqb r) l = repeat r (Z.to_nat (count_z l r)).
Proof.
  unfold count_z. rewrite Nat2Z.id. induction l as [|x l IH]; simpl; [reflexivity|].
  destruct (Z.eqb_spec r x); simpl; [subst; f_equal|]; exact IH.
Qed.

(* a nondecreasing list is its entries equal to lo followed by the larger ones *)
Lemma sorted_split lo l :
  StronglySorted Z.le l -> Forall (fun x => lo <= x) l ->
  l = filter (Z.eqb lo) l ++ filter (fun x => lo <? x) l.
Proof.
  induction 1 as [|a l Hs IH Hall]; intros Hlo; simpl; [reflexivity|].
  inversion Hlo as [|? ? Ha Hlo']; subst.
  destruct (Z.eqb_spec lo a).
  - subst a. replace (lo <? lo) with false by (symmetry; apply Z.ltb_ge; lia).
    simpl. f_equal. apply IH. assumption.
  - replace (lo <? a) with true by (symmetry; apply Z.ltb_lt; lia).
    (* every later entry is > lo *)
    assert (Hnone : filter (Z.eqb lo) l = []).
    { clear -Hall Ha n. induction l as [|x l IH]; simpl; [reflexivity|]. inversion Hall; subst.
      destruct (Z.eqb_spec lo x); [lia|auto]. }
    assert (Hall' : filter (fun x => lo <? x) l = l).
    { clear -Hall Ha n. induction l as [|x l IH]; simpl; [reflexivity|]. inversion Hall; subst.
      replace (lo <? x) with true by (symmetry; apply Z.ltb_lt; lia). f_equal. auto. }
    rewrite Hnone, Hall'. reflexivity.
Qed.

(* runs: a nondecreasing list with entries in [lo, lo+n) is the concatenation of its runs *)
Lemma sorted_runs n : forall lo l,
  StronglySorted Z.le l -> Forall (fun x => Z.of_nat lo <= x < Z.of_nat lo + Z.of_nat n) l ->
  l = flat_map (fun r => repeat r (Z.to_nat (count_z l r))) (zr lo n).
Proof.
  induction n as [|n IH]; intros lo l Hs Hr.
  - destruct l as [|x l]; [reflexivity|]. inversion Hr; subst. lia.
  - rewrite zr_S. simpl.
    rewrite (sorted_split (Z.of_nat lo) l) at 1; [|assumption|eapply Forall_impl; [|exact Hr]; intros; simpl in *; lia].
    rewrite filter_eqb_repeat. f_equal.
    set (rest := filter (fun x => Z.of_nat lo <? x) l).
    rewrite (IH (S lo) rest).
    + apply flat_map_ext_in'. intros r Hrin. apply zr_In in Hrin. f_equal. f_equal.
      unfold count_z, rest. f_equal. f_equal.
      (* filter (= r) after filter (> lo) *)
      clear -Hrin. induction l as [|x l IHl]; simpl; [reflexivity|].
      destruct (Z.ltb_spec (Z.of_nat lo) x); simpl.
      * destruct (r =? x); [f_equal|]; exact IHl.
      * destruct (Z.eqb_spec r x); [lia|exact IHl].
    + apply SS_filter. assumption.
    + apply Forall_forall. intros x Hx. apply filter_In in Hx. destruct Hx as [Hx Hlt].
      rewrite Forall_forall in Hr. specialize (Hr _ Hx). apply Z.ltb_lt in Hlt. lia.
Qed.

(* top-level copy of the local fixpoint of GCXS.row_numbers *)
Fixpoint row_numbers_go (r : Z) (l : list Z) : list Z :=
  match l with
  | a :: ((b :: _) as t) => repeat r (Z.to_nat (b - a)) ++ row_numbers_go (r + 1) t
  | _ => []
  end.

Lemma row_numbers_eq l : row_numbers l = row_numbers_go 0 l.
Proof. reflexivity. Qed.

Lemma row_numbers_cumsum (cnt : Z -> Z) n : forall lo a,
  row_numbers_go (Z.of_nat lo) (a :: cumsum_from a (map cnt (zr lo n)))
  = flat_map (fun r => repeat r (Z.to_nat (cnt r))) (zr lo n).
Proof.
  induction n as [|n IH]; intros lo a; [reflexivity|].
  rewrite zr_S. simpl map. simpl cumsum_from. simpl flat_map.
  change (row_numbers_go (Z.of_nat lo) (a :: (a + cnt (Z.of_nat lo)) :: cumsum_from (a + cnt (Z.of_nat lo)) (map cnt (zr (S lo) n))))
    with (repeat (Z.of_nat lo) (Z.to_nat (a + cnt (Z.of_nat lo) - a))
          ++ row_numbers_go (Z.of_nat lo + 1) ((a + cnt (Z.of_nat lo)) :: cumsum_from (a + cnt (Z.of_nat lo)) (map cnt (zr (S lo) n)))).
  replace (a + cnt (Z.of_nat lo) - a) with (cnt (Z.of_nat lo)) by lia.
  replace (Z.of_nat lo + 1) with (Z.of_nat (S lo)) by lia.
  rewrite IH. reflexivity.
Qed.

(* uncompress (compress rows) = rows *)
Lemma row_numbers_indptr_of rows m :
  StronglySorted Z.le rows -> Forall (fun r => 0 <= r < m) rows ->
  row_numbers (indptr_of rows m) = rows.
Proof.
  intros Hs Hr. rewrite row_numbers_eq. unfold indptr_of, bincount. rewrite zrange_zr.
  change 0 with (Z.of_nat 0) at 1. rewrite row_numbers_cumsum.
  symmetry. apply sorted_runs; [assumption|].
  eapply Forall_impl; [|exact Hr]. intros; simpl in *; lia.
Qed.

Lemma cumsum_length a l : length (cumsum_from a l) = length l.
Proof. revert a; induction l; intros; simpl; auto. Qed.

Lemma cumsum_nondecreasing l : forall a, Forall (fun x => 0 <= x) l -> StronglySorted Z.le (a :: cumsum_from a l).
Proof.
  induction l as [|x l IH]; intros a Hl; simpl.
  - constructor; constructor.
  - inversion Hl; subst. specialize (IH (a + x) H2). constructor; [assumption|].
    inversion IH as [|? ? _ Hall]; subst. constructor; [lia|].
    eapply Forall_impl; [|exact Hall]. intros; simpl in *; lia.
Qed.

Fixpoint zsum (l : list Z) : Z := match l with [] => 0 | x :: r => x + zsum r end.

Lemma zsum_nonneg l : Forall (fun x => 0 <= x) l -> 0 <= zsum l.
Proof. induction 1; simpl; lia. Qed.

Lemma cumsum_bounds l : forall a, Forall (fun x => 0 <= x) l ->
  Forall (fun p => a <= p <= a + zsum l) (a :: cumsum_from a l).
Proof.
  induction l as [|x l IH]; intros a Hl; simpl.
  - constructor; [lia|constructor].
  - inversion Hl; subst. pose proof (zsum_nonneg l H2). constructor; [lia|].
    specialize (IH (a + x) H2). eapply Forall_impl; [|exact IH]. intros p Hp. simpl in Hp. lia.
Qed.

Lemma cumsum_last l : forall a d, nth (length l) (a :: cumsum_from a l) d = a + zsum l.
Proof.
  induction l as [|x l IH]; intros a d; simpl; [lia|].
  specialize (IH (a + x) d). simpl in IH. rewrite IH. lia.
Qed.

Lemma length_flat_repeat (cnt : Z -> Z) l :
  (forall r, 0 <= cnt r) ->
  Z.of_nat (length (flat_map (fun r => repeat r (Z.to_nat (cnt r))) l)) = zsum (map cnt l).
Proof.
  intros Hc. induction l as [|x l IH]; simpl; [reflexivity|].
  rewrite app_length, repeat_length, Nat2Z.inj_add, IH. specialize (Hc x). lia.
Qed.

Lemma zsum_bincount rows m :
  StronglySorted Z.le rows -> Forall (fun r => 0 <= r < m) rows ->
  zsum (bincount rows m) = Z.of_nat (length rows).
Proof.
  intros Hs Hr. unfold bincount. rewrite zrange_zr.
  rewrite <- (length_flat_repeat (count_z rows)) by (intros; apply count_z_nonneg).
  f_equal. f_equal. symmetry. apply (sorted_runs (Z.to_nat m) 0%nat); [assumption|].
  eapply Forall_impl; [|exact Hr]. intros; simpl in *; lia.
Qed.

(* ------------------------------------------------------------------ rows_of over a compressed index pointer *)
Definition lexlt2 (a b : Z * Z) : Prop := fst a < fst b \/ (fst a = fst b /\ snd a < snd b).

Lemma slice_list_app {A} (pre cur : list A) c :
  0 <= c ->
  slice_list (pre ++ cur) (Z.of_nat (length pre)) (Z.of_nat (length pre) + c) = firstn (Z.to_nat c) cur.
Proof.
  intros Hc. unfold slice_list. rewrite Nat2Z.id.
  replace (Z.of_nat (length pre) + c - Z.of_nat (length pre)) with c by lia.
  rewrite skipn_app, skipn_all, Nat.sub_diag. reflexivity.
Qed.

Lemma rows_of_cons {A} (l : list A) a b t :
  rows_of l (a :: b :: t) = slice_list l a b :: rows_of l (b :: t).
Proof. reflexivity. Qed.

Lemma count_z_skip lo rows r :
  StronglySorted Z.le rows -> Forall (fun x => lo <= x) rows -> lo < r ->
  count_z (skipn (Z.to_nat (count_z rows lo)) rows) r = count_z rows r.
Proof.
  intros Hs Hlo Hr.
  pose proof (sorted_split lo rows Hs Hlo) as Hsp. rewrite filter_eqb_repeat in Hsp.
  set (k := Z.to_nat (count_z rows lo)) in *.
  set (rest := filter (fun x => lo <? x) rows) in *.
  assert (Hsk : skipn k rows = rest).
  { rewrite Hsp at 1. rewrite skipn_app, repeat_length, Nat.sub_diag. simpl.
    rewrite skipn_all2 by (rewrite repeat_length; lia). reflexivity. }
  rewrite Hsk. unfold count_z, rest. f_equal. f_equal.
  clear -Hr. induction rows as [|x l IH]; simpl; [reflexivity|].
  destruct (Z.ltb_spec lo x); simpl.
  - destruct (r =? x); [f_equal|]; exact IH.
  - destruct (Z.eqb_spec r x); [lia|exact IH].
Qed.

Lemma firstn_rows_repeat lo rows :
  StronglySorted Z.le rows -> Forall (fun x => lo <= x) rows ->
  firstn (Z.to_nat (count_z rows lo)) rows = repeat lo (Z.to_nat (count_z rows lo)).
Proof.
  intros Hs Hlo. pose proof (sorted_split lo rows Hs Hlo) as Hsp. rewrite filter_eqb_repeat in Hsp.
  set (k := Z.to_nat (count_z rows lo)) in *.
  set (rest := filter (fun x => lo <? x) rows) in *.
  transitivity (firstn k (repeat lo k ++ rest)); [f_equal; exact Hsp|].
  rewrite firstn_app, repeat_length, Nat.sub_diag. simpl. rewrite app_nil_r.
  apply firstn_all2. rewrite repeat_length. lia.
Qed.

Lemma count_le_length rows lo : (Z.to_nat (count_z rows lo) <= length rows)%nat.
Proof.
  unfold count_z. rewrite Nat2Z.id. induction rows as [|x l IH]; simpl; [lia|].
  destruct (lo =? x); simpl; lia.
Qed.

(* strictly lexicographically sorted (row, col) pairs with one row value: the cols increase *)
Lemma SS_lex_same_row r cols :
  StronglySorted lexlt2 (combine (repeat r (length cols)) cols) -> StronglySorted Z.lt cols.
Proof.
  induction cols as [|c cols IH]; simpl; intros H; [constructor|].
  inversion H as [|? ? Hs Hall]; subst. constructor; [apply IH; assumption|].
  rewrite Forall_forall in *. intros x Hx.
  assert (In (r, x) (combine (repeat r (length cols)) cols)).
  { clear -Hx. induction cols as [|y l IHl]; simpl in *; [tauto|]. destruct Hx as [->|Hx]; auto. }
  specialize (Hall _ H0). unfold lexlt2 in Hall. simpl in Hall. lia.
Qed.

Lemma combine_firstn {A B} n (l1 : list A) (l2 : list B) :
  combine (firstn n l1) (firstn n l2) = firstn n (combine l1 l2).
Proof. revert l1 l2; induction n; intros [|a l1] [|b l2]; simpl; auto. f_equal. apply IHn. Qed.

Lemma combine_skipn {A B} n (l1 : list A) (l2 : list B) :
  combine (skipn n l1) (skipn n l2) = skipn n (combine l1 l2).
Proof.
  revert l1 l2; induction n; intros [|a l1] [|b l2]; simpl; auto.
  destruct (skipn n l1); reflexivity.
Qed.

Lemma rows_of_sorted n : forall lo (pre rows cols : list Z),
  length rows = length cols ->
  StronglySorted Z.le rows ->
  Forall (fun x => Z.of_nat lo <= x < Z.of_nat lo + Z.of_nat n) rows ->
  StronglySorted lexlt2 (combine rows cols) ->
  forallb strictly_increasing
          (rows_of (pre ++ cols) (Z.of_nat (length pre) :: cumsum_from (Z.of_nat (length pre)) (map (count_z rows) (zr lo n))))
  = true.
Proof.
  induction n as [|n IH]; intros lo pre rows cols Hlen Hs Hr Hlex; [reflexivity|].
  rewrite zr_S. simpl map. simpl cumsum_from. rewrite rows_of_cons. simpl forallb.
  set (c0 := count_z rows (Z.of_nat lo)).
  assert (Hc0 : 0 <= c0) by apply count_z_nonneg.
  assert (Hlo : Forall (fun x => Z.of_nat lo <= x) rows)
    by (eapply Forall_impl; [|exact Hr]; intros; simpl in *; lia).
  rewrite slice_list_app by assumption.
  apply andb_true_iff. split.
  - apply strictly_increasing_SS.
    assert (Hk : (Z.to_nat c0 <= length cols)%nat) by (rewrite <- Hlen; apply count_le_length).
    apply (SS_lex_same_row (Z.of_nat lo)).
    rewrite firstn_length_le by assumption. unfold c0.
    rewrite <- (firstn_rows_repeat (Z.of_nat lo) rows) by assumption.
    rewrite combine_firstn. apply SS_firstn. assumption.
  - set (k := Z.to_nat c0).
    assert (Hk : (k <= length cols)%nat) by (rewrite <- Hlen; apply count_le_length).
    replace (pre ++ cols) with ((pre ++ firstn k cols) ++ skipn k cols)
      by (rewrite <- app_assoc, firstn_skipn; reflexivity).
    replace (Z.of_nat (length pre) + c0) with (Z.of_nat (length (pre ++ firstn k cols)))
      by (rewrite app_length, firstn_length_le by assumption; unfold k; lia).
    rewrite (map_ext_in (count_z rows) (count_z (skipn k rows))).
    + apply IH.
      * rewrite !skipn_length. lia.
      * apply SS_skipn. assumption.
      * apply Forall_forall. intros x Hx.
        assert (Hxin : In x rows) by (rewrite <- (firstn_skipn k rows); apply in_or_app; auto).
        rewrite Forall_forall in Hr. specialize (Hr _ Hxin).
        (* x is beyond the run of lo *)
        pose proof (sorted_split (Z.of_nat lo) rows Hs Hlo) as Hsp. rewrite filter_eqb_repeat in Hsp. fold c0 k in Hsp.
        assert (Hsk : skipn k rows = filter (fun x => Z.of_nat lo <? x) rows).
        { rewrite Hsp at 1. rewrite skipn_app, repeat_length, Nat.sub_diag. simpl.
          rewrite skipn_all2 by (rewrite repeat_length; lia). reflexivity. }
        rewrite Hsk in Hx. apply filter_In in Hx. destruct Hx as [_ Hx]. apply Z.ltb_lt in Hx. lia.
      * rewrite combine_skipn. apply SS_skipn. assumption.
    + intros r Hrin. apply zr_In in Hrin. symmetry. apply count_z_skip; [assumption|assumption|lia].
Qed.
