(* Proofs/CooIndexMultiP.v — part 6 of the COO indexing proofs: getitem with SEVERAL 1-D integer
   index arrays of one length (integers and slices anywhere else).  _compute_multi_axis_multi_mask
   builds full_idx = the plain rows at their axes + one row [v, v+1, 1] per array, and calls
   _compute_mask once per position i of the arrays; the arrays share ONE result axis, placed where the
   first array stands; the constructor always sorts (adv_idx.pos is a list, so `sorted` is False).
   Domain clause D30: the kernel indexes full_idx by the axis number, which is out of bounds when
   trailing full slices were pruned while plain rows remain. *)
From Coq Require Import ZArith List Bool Lia ZifyBool Sorting.Sorted Sorting.Permutation.
From Verif Require Import Py PyExt PyIndex G_slicing S_indexing PySlice Slicing SlicingP Shape COO COOP
     NpIndex CooIndex CooIndexMaskP CooIndexNormP CooIndexP CooIndexArrP.
Import ListNotations.
Open Scope Z_scope.

(* every index array replaced by its entry at position i *)
Definition subst1 (i : nat) (e : nentry) : nentry :=
  match e with NArr l => NInt (nth i l 0) | _ => e end.
Definition subst_arrs (i : nat) (nix : list nentry) : list nentry := map (subst1 i) nix.

Lemma subst_no_arr i nix : no_arr (subst_arrs i nix) = true.
Proof.
  unfold no_arr, subst_arrs. apply forallb_forall. intros e He. apply in_map_iff in He.
  destruct He as [x [<- _]]. destruct x; reflexivity.
Qed.

Lemma subst_filter i nix : filter not_none (subst_arrs i nix) = subst_arrs i (filter not_none nix).
Proof.
  unfold subst_arrs. induction nix as [|e r IH]; [reflexivity|].
  destruct e; cbn [map subst1 filter not_none is_nnone negb]; rewrite ?IH; reflexivity.
Qed.

Lemma is_full_subst i e d : is_full (subst1 i e) d = is_full e d.
Proof. destruct e; reflexivity. Qed.

Lemma prune'_subst i l : forall sh, prune' (subst_arrs i l) sh = subst_arrs i (prune' l sh).
Proof.
  unfold subst_arrs. induction l as [|e r IH]; intros sh; [destruct sh; reflexivity|].
  destruct sh as [|d sh']; [reflexivity|]. cbn [map prune']. rewrite IH, is_full_subst.
  destruct (prune' r sh') as [|x r']; cbn [map]; [destruct (is_full e d); reflexivity|reflexivity].
Qed.

Lemma nwf_subst i nix : forall sh,
  nwf nix sh -> (forall l, In (NArr l) nix -> (i < length l)%nat) -> nwf (subst_arrs i nix) sh.
Proof.
  unfold subst_arrs. induction nix as [|e r IH]; intros sh Hwf Hi; [exact Hwf|].
  assert (Hi' : forall l, In (NArr l) r -> (i < length l)%nat) by (intros; apply Hi; right; assumption).
  destruct e as [v|s e st| |l]; cbn [map subst1 nwf] in *.
  - destruct sh; [contradiction|]. destruct Hwf. split; auto.
  - destruct sh; [contradiction|]. destruct Hwf as [? [? ?]]. split; [assumption|split; auto].
  - auto.
  - destruct sh; [contradiction|]. destruct Hwf as [Hl Hwf]. split; [|auto].
    apply Hl. apply nth_In. apply Hi. left. reflexivity.
Qed.

(* the shared array coordinate a selects, in every array, the entry the substituted index asks for *)
Lemma matches_subst nix : forall t a (n : nat),
  (forall l, In (NArr l) nix -> length l = n) -> 0 <= a < Z.of_nat n ->
  matches nix t a = matches (subst_arrs (Z.to_nat a) nix) t 0.
Proof.
  unfold subst_arrs. induction nix as [|e r IH]; intros t a n Hn Ha; [reflexivity|].
  assert (Hn' : forall l, In (NArr l) r -> length l = n) by (intros; apply Hn; right; assumption).
  destruct e as [v|s e st| |l]; cbn [map subst1 matches].
  - destruct t; [reflexivity|]. rewrite (IH _ a n Hn' Ha). reflexivity.
  - destruct t; [reflexivity|]. rewrite (IH _ a n Hn' Ha). reflexivity.
  - apply (IH _ a n Hn' Ha).
  - destruct t as [|c t]; [reflexivity|]. rewrite (IH _ a n Hn' Ha). rewrite (Hn l (or_introl eq_refl)).
    destruct (Z.leb_spec 0 a); [|lia]. destruct (Z.ltb_spec a (Z.of_nat n)); [|lia]. cbn [andb].
    unfold zat. rewrite (Z.eqb_sym c). reflexivity.
Qed.

Lemma matches_arr_bound nix : forall t a,
  existsb is_narr nix = true -> (forall l, In (NArr l) nix -> forall l', In (NArr l') nix -> length l = length l') ->
  matches nix t a = true -> exists l, In (NArr l) nix /\ 0 <= a < Z.of_nat (length l).
Proof.
  induction nix as [|e r IH]; intros t a He Hn Hm; [discriminate|].
  destruct e as [v|s e st| |l]; cbn [existsb is_narr orb matches] in He, Hm.
  - destruct t; [discriminate|]. apply andb_true_iff in Hm. destruct Hm as [_ Hm].
    destruct (IH t a He ltac:(intros; apply Hn; right; assumption) Hm) as [l [Hl Hb]]. exists l. split; [right|]; assumption.
  - destruct t; [discriminate|]. apply andb_true_iff in Hm. destruct Hm as [_ Hm].
    destruct (IH t a He ltac:(intros; apply Hn; right; assumption) Hm) as [l [Hl Hb]]. exists l. split; [right|]; assumption.
  - destruct (IH t a He ltac:(intros; apply Hn; right; assumption) Hm) as [l [Hl Hb]]. exists l. split; [right|]; assumption.
  - destruct t; [discriminate|]. exists l. split; [left; reflexivity|].
    apply andb_true_iff in Hm. destruct Hm as [Hm _]. apply andb_true_iff in Hm. destruct Hm as [Hm _]. lia.
Qed.

(* ================================================================ full_idx *)
Definition plain_cell (e : nentry) : option triple :=
  match e with
  | NInt v => Some (v, v + 1, 1)
  | NSlice s e' st => Some (s, e', st)
  | _ => None
  end.

Definition final_cell (i : nat) (e : nentry) : option triple :=
  match e with
  | NArr l => Some (nth i l 0, nth i l 0 + 1, 1)
  | _ => plain_cell e
  end.

Lemma place_rows_spec advpos : forall (suffix : list nentry) (prefix : list (option triple)),
  forallb not_none suffix = true ->
  (forall k, (k < length suffix)%nat ->
     existsb (Z.eqb (Z.of_nat (length prefix + k))) advpos = is_narr (nth k suffix NNone)) ->
  place_rows (length suffix) (length prefix) advpos (rows suffix) (prefix ++ repeat None (length suffix))
  = Some (prefix ++ map plain_cell suffix).
Proof.
  induction suffix as [|e r IH]; intros prefix Hnn Hadv; [reflexivity|].
  simpl in Hnn. apply andb_true_iff in Hnn. destruct Hnn as [Hne Hnn].
  pose proof (Hadv 0%nat ltac:(simpl; lia)) as H0. rewrite Nat.add_0_r in H0. cbn [nth] in H0.
  assert (Hadv' : forall k, (k < length r)%nat ->
            existsb (Z.eqb (Z.of_nat (length (prefix ++ [plain_cell e]) + k))) advpos = is_narr (nth k r NNone)).
  { intros k Hk. rewrite app_length. cbn [length]. replace (length prefix + 1 + k)%nat with (length prefix + S k)%nat by lia.
    apply (Hadv (S k)). simpl. lia. }
  cbn [length place_rows]. rewrite H0.
  destruct e as [v|s e st| |l]; try discriminate; cbn [is_narr].
  - rewrite rows_cons. cbn [triple_of app].
    destruct (Nat.ltb_spec (length prefix) (length (prefix ++ repeat None (S (length r))))) as [_|Hge];
      [|rewrite app_length in Hge; simpl in Hge; lia].
    rewrite firstn_app, firstn_all, Nat.sub_diag. cbn [firstn]. rewrite app_nil_r.
    replace (skipn (S (length prefix)) (prefix ++ repeat None (S (length r)))) with (repeat (@None triple) (length r))
      by (rewrite skipn_app, skipn_all2 by lia; replace (S (length prefix) - length prefix)%nat with 1%nat by lia; reflexivity).
    specialize (IH (prefix ++ [plain_cell (NInt v)]) Hnn Hadv').
    rewrite app_length in IH. cbn [length] in IH. rewrite Nat.add_1_r in IH. cbn [plain_cell] in IH.
    rewrite <- !app_assoc in IH. exact IH.
  - rewrite rows_cons. cbn [triple_of app].
    destruct (Nat.ltb_spec (length prefix) (length (prefix ++ repeat None (S (length r))))) as [_|Hge];
      [|rewrite app_length in Hge; simpl in Hge; lia].
    rewrite firstn_app, firstn_all, Nat.sub_diag. cbn [firstn]. rewrite app_nil_r.
    replace (skipn (S (length prefix)) (prefix ++ repeat None (S (length r)))) with (repeat (@None triple) (length r))
      by (rewrite skipn_app, skipn_all2 by lia; replace (S (length prefix) - length prefix)%nat with 1%nat by lia; reflexivity).
    specialize (IH (prefix ++ [plain_cell (NSlice s e st)]) Hnn Hadv').
    rewrite app_length in IH. cbn [length] in IH. rewrite Nat.add_1_r in IH. cbn [plain_cell] in IH.
    rewrite <- !app_assoc in IH. exact IH.
  - rewrite rows_cons. cbn [triple_of app].
    specialize (IH (prefix ++ [plain_cell (NArr l)]) Hnn Hadv').
    rewrite app_length in IH. cbn [length] in IH. rewrite Nat.add_1_r in IH. cbn [plain_cell] in IH.
    rewrite <- !app_assoc in IH. exact IH.
Qed.

Lemma set_adv_spec i : forall (suffix : list nentry) (prefix : list (option triple)),
  set_adv (prefix ++ map plain_cell suffix) (adv_of (Z.of_nat (length prefix)) suffix) i
  = prefix ++ map (final_cell i) suffix.
Proof.
  induction suffix as [|e r IH]; intros prefix; [reflexivity|].
  assert (Hnext : forall c, set_adv (prefix ++ c :: map plain_cell r) (adv_of (Z.of_nat (length prefix) + 1) r) i
                            = prefix ++ c :: map (final_cell i) r).
  { intros c. pose proof (IH (prefix ++ [c])) as H. rewrite app_length, Nat2Z.inj_add in H.
    change (Z.of_nat (length [c])) with 1 in H. rewrite <- !app_assoc in H. exact H. }
  destruct e as [v|s e st| |l]; cbn [adv_of map plain_cell final_cell]; try apply Hnext.
  cbn [set_adv]. rewrite Nat2Z.id.
  rewrite firstn_app, firstn_all, Nat.sub_diag. cbn [firstn]. rewrite app_nil_r.
  replace (skipn (S (length prefix)) (prefix ++ None :: map plain_cell r)) with (map plain_cell r)
    by (rewrite skipn_app, skipn_all2 by lia; replace (S (length prefix) - length prefix)%nat with 1%nat by lia; reflexivity).
  apply (Hnext (Some (nth i l 0, nth i l 0 + 1, 1))).
Qed.

Lemma adv_of_ge l : forall k0 p, In p (map fst (adv_of k0 l)) -> k0 <= p.
Proof.
  induction l as [|e r IH]; intros k0 p Hin; [destruct Hin|].
  destruct e; cbn [adv_of map fst] in Hin; try (apply IH in Hin; lia).
  destruct Hin as [<-|Hin]; [lia|apply IH in Hin; lia].
Qed.

Lemma adv_positions l : forall (k0 k : nat), (k < length l)%nat ->
  existsb (Z.eqb (Z.of_nat (k0 + k))) (map fst (adv_of (Z.of_nat k0) l)) = is_narr (nth k l NNone).
Proof.
  induction l as [|e r IH]; intros k0 k Hk; [simpl in Hk; lia|].
  assert (Hnot : existsb (Z.eqb (Z.of_nat (k0 + 0))) (map fst (adv_of (Z.of_nat k0 + 1) r)) = false).
  { apply not_true_is_false. intros H. apply existsb_exists in H. destruct H as [p [Hp E]]. apply Z.eqb_eq in E.
    apply adv_of_ge in Hp. lia. }
  assert (Hrec : forall k', (k' < length r)%nat ->
            existsb (Z.eqb (Z.of_nat (k0 + S k'))) (map fst (adv_of (Z.of_nat k0 + 1) r)) = is_narr (nth k' r NNone)).
  { intros k' Hk'. replace (Z.of_nat k0 + 1) with (Z.of_nat (S k0)) by lia. replace (k0 + S k')%nat with (S k0 + k')%nat by lia.
    apply IH. exact Hk'. }
  destruct k as [|k].
  - destruct e; cbn [adv_of map fst existsb nth is_narr]; try exact Hnot.
    rewrite Nat.add_0_r, Z.eqb_refl. reflexivity.
  - simpl in Hk. destruct e; cbn [adv_of map fst existsb nth]; try (apply Hrec; lia).
    destruct (Z.eqb_spec (Z.of_nat (k0 + S k)) (Z.of_nat k0)); [lia|]. cbn [orb]. apply Hrec. lia.
Qed.

Lemma rows_adv_length l : forallb not_none l = true -> forall k0, (length (rows l) + length (adv_of k0 l) = length l)%nat.
Proof.
  induction l as [|e r IH]; intros Hn k0; [reflexivity|]. simpl in Hn. apply andb_true_iff in Hn. destruct Hn as [He Hn].
  rewrite rows_cons, app_length. destruct e; try discriminate; cbn [triple_of adv_of length]; rewrite <- (IH Hn (k0 + 1)); lia.
Qed.

Lemma rows_nil_all_arr l : forallb not_none l = true -> rows l = [] -> map plain_cell l = repeat None (length l).
Proof.
  induction l as [|e r IH]; intros Hn Hr; [reflexivity|]. simpl in Hn. apply andb_true_iff in Hn. destruct Hn as [He Hn].
  rewrite rows_cons in Hr. destruct e; try discriminate. cbn [triple_of app] in Hr. cbn [map plain_cell length repeat].
  rewrite (IH Hn Hr). reflexivity.
Qed.

Lemma final_rows i l : forallb not_none l = true ->
  map (fun o : option triple => match o with Some t => t | None => (0, 0, 1) end) (map (final_cell i) l)
  = rows (subst_arrs i l).
Proof.
  induction l as [|e r IH]; intros Hn; [reflexivity|]. simpl in Hn. apply andb_true_iff in Hn. destruct Hn as [He Hn].
  unfold subst_arrs in *. cbn [map]. rewrite rows_cons, (IH Hn). destruct e; try discriminate; reflexivity.
Qed.

(* D30: the kernel is within bounds when no plain row remains or nothing was pruned *)
Lemma multi_axis_eval kf pts ndim (pr : list nentry) len :
  forallb not_none pr = true -> (rows pr = [] \/ length pr = ndim) ->
  multi_axis_mask kf pts ndim (rows pr) (adv_of 0 pr) len
  = Ok (flat_map (fun i => map (fun p => (p, Z.of_nat i)) (mask_pos (kf i) pts (rows (subst_arrs i pr)))) (seq 0 len)).
Proof.
  intros Hn Hd. unfold multi_axis_mask. rewrite (rows_adv_length pr Hn 0).
  assert (Hfull : (match rows pr with
                   | [] => Some (repeat None (length pr))
                   | _ :: _ => place_rows ndim 0 (map fst (adv_of 0 pr)) (rows pr) (repeat None (length pr))
                   end) = Some (map plain_cell pr)).
  { destruct (rows pr) as [|t0 r0] eqn:Er.
    - rewrite (rows_nil_all_arr pr Hn Er). reflexivity.
    - destruct Hd as [Hd|Hd]; [discriminate|]. subst ndim. rewrite <- Er.
      apply (place_rows_spec (map fst (adv_of 0 pr)) pr [] Hn). intros k Hk. apply (adv_positions pr 0 k Hk). }
  rewrite Hfull. f_equal. apply flat_map_ext. intros i.
  pose proof (set_adv_spec i pr []) as Hs. cbn [app length Z.of_nat] in Hs. cbv zeta. rewrite Hs.
  pose proof (final_rows i pr Hn) as Hf. cbv beta in Hf. rewrite <- Hf. reflexivity.
Qed.

(* ================================================================ getitem with several index arrays *)

Definition eq_lens (ix : index) : bool :=
  match arr_lens ix with [] => true | n :: r => forallb (Z.eqb n) r end.

Definition multi_array (ix : index) : bool :=
  (2 <=? countb is_iarr ix) && negb (existsb is_ibarr ix) && eq_lens ix.

(* domain clause D30 *)
Definition d30_clause (sh : shape) (ix : index) : bool :=
  match normalize_index ix sh with
  | Ok nix =>
    let pr := prune_indices nix sh in
    match rows pr with [] => true | _ => (length pr =? length sh)%nat end
  | Raise _ => true
  end.

Lemma adv_of_In l0 : forall k p l, In (p, l) (adv_of k l0) -> In (NArr l) l0.
Proof.
  induction l0 as [|e r IH]; intros k p l Hin; [destruct Hin|].
  destruct e; cbn [adv_of] in Hin; try solve [right; eapply IH; eauto].
  destruct Hin as [H|H]; [inversion H; left; reflexivity|right; eapply IH; eauto].
Qed.

Lemma adv_of_length l0 : forall k, length (adv_of k l0) = n_arr l0.
Proof.
  unfold n_arr. induction l0 as [|e r IH]; intros k; [reflexivity|].
  destruct e; cbn [adv_of filter is_narr length]; rewrite ?IH; reflexivity.
Qed.

Lemma n_arr_filter l : n_arr (filter not_none l) = n_arr l.
Proof. unfold n_arr. induction l as [|e r IH]; [reflexivity|]. destruct e; cbn [filter not_none is_nnone negb is_narr length]; rewrite ?IH; reflexivity. Qed.

Lemma n_arr_cons e l : n_arr (e :: l) = ((if is_narr e then 1 else 0) + n_arr l)%nat.
Proof. unfold n_arr. cbn [filter]. destruct (is_narr e); reflexivity. Qed.

Lemma n_arr_prune' l : forall sh, n_arr (prune' l sh) = n_arr l.
Proof.
  induction l as [|e r IH]; intros sh; [destruct sh; reflexivity|]. destruct sh as [|d sh']; [reflexivity|].
  cbn [prune']. specialize (IH sh'). rewrite (n_arr_cons e r), <- IH. destruct (prune' r sh') as [|x r'].
  - destruct e as [v|s e st| |l0]; try reflexivity. destruct (is_full (NSlice s e st) d); reflexivity.
  - apply n_arr_cons.
Qed.

Lemma prune'_not_none l : forall sh, forallb not_none l = true -> forallb not_none (prune' l sh) = true.
Proof.
  intros sh H. apply forallb_forall. intros e He. apply prune'_incl in He. rewrite forallb_forall in H. auto.
Qed.

Lemma no_ibarr_bool_ok ex : forall sh, existsb is_ibarr ex = false -> bool_ok ex sh = true.
Proof.
  induction ex as [|e r IH]; intros sh H; [reflexivity|]. simpl in H. apply orb_false_iff in H. destruct H as [He Hr].
  destruct e; try discriminate; cbn [bool_ok]; try (destruct sh; [reflexivity|]); cbn [andb]; auto.
Qed.

Lemma expand_members nd ix ex e : expand nd ix = Ok ex -> In e ex -> In e ix \/ e = full_slice.
Proof.
  unfold expand. destruct (1 <? countb is_ell ix); [discriminate|].
  destruct (nd - countb consumes ix <? 0); [discriminate|]. intros H He. inversion H; subst ex. clear H.
  assert (Hfull : forall e k, In e (repeat full_slice k) -> e = full_slice) by (intros e0 k Hin; eapply repeat_spec; eauto).
  destruct (0 <? countb is_ell ix).
  - apply subst_In in He. destruct He as [He|He]; [right; eapply Hfull; eauto|left; exact He].
  - apply in_app_iff in He. destruct He as [He|He]; [left; exact He|right; eapply Hfull; eauto].
Qed.

Lemma norm_all_arr ex : forall sh l',
  fits ex sh = true -> In (NArr l') (norm_all ex sh) ->
  (exists l, In (IArr l) ex /\ length l' = length l) \/ (exists l, In (IBArr l) ex).
Proof.
  induction ex as [|e r IH]; intros sh l' Hf Hin; [destruct Hin|].
  destruct e; try discriminate; simpl in Hf.
  - destruct sh as [|d sh']; [discriminate|]. cbn [norm_all nentry_spec] in Hin. destruct Hin as [H|H]; [discriminate|].
    destruct (IH sh' l' Hf H) as [[l [H1 H2]]|[l H1]]; [left; exists l|right; exists l]; simpl; auto.
  - destruct sh as [|d sh']; [discriminate|]. cbn [norm_all nentry_spec] in Hin. destruct Hin as [H|H].
    + exfalso. unfold nslice_of in H. destruct (normalize_slice _ _) as [[]|]; try discriminate.
      destruct a0; try discriminate; destruct b0; try discriminate; destruct c0; discriminate.
    + destruct (IH sh' l' Hf H) as [[l [H1 H2]]|[l H1]]; [left; exists l|right; exists l]; simpl; auto.
  - cbn [norm_all] in Hin. destruct Hin as [H|H]; [discriminate|].
    destruct (IH sh l' Hf H) as [[l [H1 H2]]|[l H1]]; [left; exists l|right; exists l]; simpl; auto.
  - destruct sh as [|d sh']; [discriminate|]. cbn [norm_all nentry_spec] in Hin. destruct Hin as [H|H].
    + inversion H. left. exists l. split; [left; reflexivity|apply map_length].
    + destruct (IH sh' l' Hf H) as [[l0 [H1 H2]]|[l0 H1]]; [left; exists l0|right; exists l0]; simpl; auto.
  - right. exists l. left. reflexivity.
Qed.

Lemma eq_lens_spec ix : eq_lens ix = true ->
  forall l1 l2, In (IArr l1) ix -> In (IArr l2) ix -> length l1 = length l2.
Proof.
  unfold eq_lens. intros H l1 l2 H1 H2.
  assert (Hin : forall l, In (IArr l) ix -> In (Z.of_nat (length l)) (arr_lens ix)).
  { intros l Hl. unfold arr_lens. apply in_flat_map. exists (IArr l). split; [exact Hl|left; reflexivity]. }
  destruct (arr_lens ix) as [|n r] eqn:E; [destruct (Hin l1 H1)|].
  rewrite forallb_forall in H.
  assert (Hall : forall x, In x (n :: r) -> x = n).
  { intros x [<-|Hx]; [reflexivity|]. specialize (H x Hx). apply Z.eqb_eq in H. auto. }
  pose proof (Hall _ (Hin l1 H1)). pose proof (Hall _ (Hin l2 H2)). lia.
Qed.

Lemma stretch_id m rs : (forall v, In (RAdv [v]) rs -> m = 1) -> map (stretch m) rs = rs.
Proof.
  induction rs as [|r rs IH]; intros H; [reflexivity|]. cbn [map]. rewrite IH by (intros v Hv; apply (H v); right; exact Hv).
  f_equal. destruct r as [| | |l]; try reflexivity. destruct l as [|v [|w l']]; try reflexivity.
  cbn [stretch]. rewrite (H v (or_introl eq_refl)). reflexivity.
Qed.

Lemma broadcast_same rs (n : nat) :
  (forall l, In (RAdv l) rs -> length l = n) -> broadcast rs = Ok rs.
Proof.
  intros Hn. unfold broadcast.
  assert (Hlens : Forall (fun a => a = Z.of_nat n) (adv_lens rs)).
  { apply Forall_forall. intros a Ha. unfold adv_lens in Ha. apply in_flat_map in Ha. destruct Ha as [r [Hr Ha]].
    destruct r as [| | |l]; try contradiction. destruct Ha as [<-|[]]. rewrite (Hn l Hr). reflexivity. }
  assert (Hb : exists m, bcast_len (adv_lens rs) = Ok m /\ (adv_lens rs <> [] -> m = Z.of_nat n)).
  { unfold bcast_len. induction Hlens as [|a lens Ha Hl IH].
    - exists 1. split; [reflexivity|congruence].
    - subst a. destruct IH as [m [Em Hm]].
      assert (Hf : fold_right (fun a b : Z => if a =? 1 then b else a) 1 (Z.of_nat n :: lens) = Z.of_nat n).
      { cbn [fold_right]. destruct (Z.eqb_spec (Z.of_nat n) 1) as [E1|E1]; [|reflexivity].
        clear -Hl E1. induction Hl as [|b lens Hb Hl IH]; [simpl; lia|]. cbn [fold_right]. subst b. rewrite E1. simpl. rewrite IH. exact E1. }
      exists (Z.of_nat n). split; [|reflexivity]. rewrite Hf. cbn [forallb]. rewrite Z.eqb_refl. cbn [orb andb].
      assert (Hall : forallb (fun a => (a =? Z.of_nat n) || (a =? 1)) lens = true).
      { apply forallb_forall. intros x Hx. rewrite Forall_forall in Hl. rewrite (Hl x Hx), Z.eqb_refl. reflexivity. }
      rewrite Hall. reflexivity. }
  destruct Hb as [m [Em Hm]]. rewrite Em. cbn [bind]. f_equal.
  apply stretch_id. intros v Hv. rewrite Hm.
  - rewrite <- (Hn [v] Hv). reflexivity.
  - intros E. assert (Hin : In (Z.of_nat (length [v])) (adv_lens rs)).
    { unfold adv_lens. apply in_flat_map. exists (RAdv [v]). split; [exact Hv|left; reflexivity]. }
    rewrite E in Hin. destruct Hin.
Qed.

Lemma all_full_has_arr nix sh l : In (NArr l) nix -> all_full nix sh = false.
Proof. intros Hin. apply in_split in Hin. destruct Hin as [pre [post ->]]. apply all_full_arr. Qed.

Lemma sorted_flag_multi nix ps len : sorted_flag nix (Some (mkAdv (VTuple ps) len)) = false.
Proof.
  unfold sorted_flag, s_sorted_init. cbn.
  assert (H : forall (l : list nentry) e, pv_bool (fold_left (fun acc e0 => match e0 with
              | NSlice s e' st => sv <- acc ;; s_sorted_step sv (slice_pv s e' st) | _ => acc end) l (Raise e)) = false).
  { induction l as [|x l IH]; intros e; [reflexivity|]. destruct x; cbn [fold_left bind]; apply IH. }
  apply H.
Qed.

Section GetitemMulti.
  Variable V : Type.

  Theorem coo_getitem_multi_array_proof (kf : nat -> nat) (x : coo V) (ix : index) :
    canonical V x -> shape_okb (c_shape x) = true -> no_zero_step ix = true ->
    multi_array ix = true -> d30_clause (c_shape x) ix = true ->
    match np_index (c_shape x) ix with
    | Raise e => getitem kf x ix = Raise e /\ e = IndexError
    | Ok (sh', g) =>
      match getitem kf x ix with
      | Ok (GArr y) => c_shape y = sh' /\ c_fill y = c_fill x /\ canonical V y
                       /\ forall j, in_range sh' j -> den y j = den x (g j)
      | Ok (GScalar v) => sh' = [] /\ v = den x (g [])
      | Raise _ => False
      end
    end.
  Proof.
    intros Hcan Hsh Hz Hmulti Hd30. set (sh := c_shape x) in *.
    unfold multi_array in Hmulti. apply andb_true_iff in Hmulti. destruct Hmulti as [Hmulti Heq].
    apply andb_true_iff in Hmulti. destruct Hmulti as [Hcnt Hnb]. apply negb_true_iff in Hnb. apply Z.leb_le in Hcnt.
    assert (Hd : d29_clause sh ix = true).
    { unfold d29_clause. destruct (expand (Z.of_nat (length sh)) ix) as [ex|] eqn:E; [|reflexivity].
      apply no_ibarr_bool_ok. apply not_true_is_false. intros H. apply existsb_exists in H. destruct H as [e [He Hb]].
      destruct (expand_members _ _ _ _ E He) as [Hin|Hin]; [|subst e; discriminate].
      assert (existsb is_ibarr ix = true) by (apply existsb_exists; eauto). congruence. }
    rewrite np_index_eq.
    destruct (normalize_link sh ix Hsh Hz Hd) as [[ex [E [Hf [Ha [Hn Hr]]]]]|[Hn Hr]].
    2: { rewrite Hr. cbn [bind]. unfold getitem. fold sh. rewrite Hn. auto. }
    unfold d30_clause in Hd30. fold sh in Hd30. rewrite Hn in Hd30.
    set (nix := norm_all ex sh) in *.
    assert (Hwf : nwf nix sh) by (apply norm_all_nwf; auto; eapply expand_nzs; eauto).
    (* all arrays have one length *)
    assert (Hlens : exists n : nat, forall l, In (NArr l) nix -> length l = n).
    { destruct (in_dec (fun a b => bool_dec a b) true (map is_narr nix)) as [Hin|Hnin].
      - apply in_map_iff in Hin. destruct Hin as [e0 [He0 Hin0]]. destruct e0 as [| | |l0]; try discriminate.
        exists (length l0). intros l Hl.
        destruct (norm_all_arr ex sh l Hf Hl) as [[l1 [H1 E1]]|[l1 H1]].
        2: { exfalso. destruct (expand_members _ _ _ _ E H1) as [Hi|Hi]; [|discriminate Hi].
             assert (existsb is_ibarr ix = true) by (apply existsb_exists; exists (IBArr l1); auto). congruence. }
        destruct (norm_all_arr ex sh l0 Hf Hin0) as [[l2 [H2 E2]]|[l2 H2]].
        2: { exfalso. destruct (expand_members _ _ _ _ E H2) as [Hi|Hi]; [|discriminate Hi].
             assert (existsb is_ibarr ix = true) by (apply existsb_exists; exists (IBArr l2); auto). congruence. }
        destruct (expand_members _ _ _ _ E H1) as [Hi1|Hi1]; [|discriminate].
        destruct (expand_members _ _ _ _ E H2) as [Hi2|Hi2]; [|discriminate].
        rewrite E1, E2. apply (eq_lens_spec ix Heq); assumption.
      - exists 0%nat. intros l Hl. exfalso. apply Hnin. apply in_map_iff. exists (NArr l). auto. }
    destruct Hlens as [n Hlens].
    assert (Harr : arrs_ok nix) by (intros l l' Hl Hl'; rewrite (Hlens l Hl), (Hlens l' Hl'); reflexivity).
    assert (Hn2 : (2 <= n_arr nix)%nat).
    { pose proof (n_arr_norm ex sh Hf) as H. fold nix in H. rewrite (expand_count_arr _ _ _ E) in H. lia. }
    rewrite Hr. cbn [bind].
    rewrite (broadcast_same (map to_r nix) n).
    2: { intros l Hl. apply in_map_iff in Hl. destruct Hl as [e0 [He0 Hin0]]. destruct e0; try discriminate.
         inversion He0; subst. apply Hlens. exact Hin0. }
    cbn [bind].
    (* the pruned index *)
    pose proof Hcan as [Hrange [Hsorted Hlen]]. set (pts := c_coords x) in *.
    set (pr := prune_indices nix sh) in *.
    assert (Hpr : pr = prune' (filter not_none nix) sh) by (apply prune_indices_eq; assumption).
    assert (Hpr_nn : forallb not_none pr = true) by (rewrite Hpr; apply prune'_not_none, filter_not_none_all).
    assert (Hpr_arr : n_arr pr = n_arr nix) by (rewrite Hpr, n_arr_prune', n_arr_filter; reflexivity).
    assert (Hpr_in : forall e, In e pr -> In e nix).
    { intros e He. rewrite Hpr in He. apply prune'_incl in He. apply filter_In in He. tauto. }
    pose proof (adv_of_length pr 0) as Hadvlen. rewrite Hpr_arr in Hadvlen.
    destruct (adv_of 0 pr) as [|[p0 l0] [|[p1 l1] more]] eqn:Eadv; try (simpl in Hadvlen; lia).
    assert (Hl0 : In (NArr l0) nix) by (apply Hpr_in; eapply (adv_of_In pr 0 p0); rewrite Eadv; left; reflexivity).
    assert (Haf : all_full nix sh = false) by (eapply all_full_has_arr; eauto).
    unfold getitem. fold sh. rewrite Hn. cbn [bind]. rewrite Haf.
    unfold mask_of. fold pr. rewrite Eadv.
    assert (Hall : forallb (fun q : Z * list Z => (length (snd q) =? length l0)%nat) ((p1, l1) :: more) = true).
    { apply forallb_forall. intros [q lq] Hq. cbn [snd]. apply Nat.eqb_eq.
      assert (In (NArr lq) nix) by (apply Hpr_in; eapply (adv_of_In pr 0 q); rewrite Eadv; right; exact Hq).
      rewrite (Hlens lq H), (Hlens l0 Hl0). reflexivity. }
    rewrite Hall. rewrite <- Eadv. fold (rows pr). fold pts. fold sh.
    assert (Hd30' : rows pr = [] \/ length pr = length sh).
    { destruct (rows pr); [left; reflexivity|right; apply Nat.eqb_eq; exact Hd30]. }
    rewrite (multi_axis_eval kf pts (length sh) pr (length l0) Hpr_nn Hd30'). cbn [bind].
    rewrite (Hlens l0 Hl0).
    set (m := flat_map (fun i => map (fun p => (p, Z.of_nat i)) (mask_pos (kf i) pts (rows (subst_arrs i pr)))) (seq 0 n)).
    (* every call is the basic mask of the index with the arrays replaced by their i-th entries *)
    assert (Hsub : forall i, (i < n)%nat ->
               nwf (subst_arrs i nix) sh /\ rows (subst_arrs i pr) = rows (prune_indices (subst_arrs i nix) sh)).
    { intros i Hi.
      assert (Hwi : nwf (subst_arrs i nix) sh) by (apply nwf_subst; [exact Hwf|intros l Hl; rewrite (Hlens l Hl); exact Hi]).
      split; [exact Hwi|]. rewrite (prune_indices_eq _ sh Hwi), subst_filter, prune'_subst, <- Hpr. reflexivity. }
    assert (Hmm : forall i, (i < n)%nat -> forall t, matches nix t (Z.of_nat i) = matches (subst_arrs i nix) t 0).
    { intros i Hi t. rewrite (matches_subst nix t (Z.of_nat i) n Hlens ltac:(lia)), Nat2Z.id. reflexivity. }
    assert (Hhas : existsb is_narr nix = true) by (apply existsb_exists; exists (NArr l0); auto).
    assert (Hm_mem : forall p a, In (p, a) m <->
               (p < length pts)%nat /\ matches nix (pt pts p) a = true /\ (n_arr nix = 0%nat -> a = 0)).
    { intros p a. unfold m. rewrite in_flat_map. split.
      - intros [i [Hi Hin]]. apply in_seq0 in Hi. apply in_map_iff in Hin. destruct Hin as [q [Hq Hin]].
        inversion Hq; subst q a. destruct (Hsub i Hi) as [Hwi Hri]. rewrite Hri in Hin.
        destruct (basic_mask V x _ Hcan Hwi (subst_no_arr i nix) (kf i)) as [_ [Hmem _]]. apply Hmem in Hin.
        destruct Hin as [Hp Hma]. split; [exact Hp|]. split; [rewrite (Hmm i Hi); exact Hma|]. intros H0. exfalso. clear - H0 Hn2. lia.
      - intros [Hp [Hma _]].
        destruct (matches_arr_bound nix _ a Hhas (fun l Hl l' Hl' => Harr l l' Hl Hl') Hma) as [l [Hl Hb]]. rewrite (Hlens l Hl) in Hb.
        exists (Z.to_nat a). assert (Hi : (Z.to_nat a < n)%nat) by (clear - Hb; lia).
        split; [apply in_seq0; exact Hi|]. apply in_map_iff. exists p. split; [f_equal; clear - Hb; lia|].
        destruct (Hsub _ Hi) as [Hwi Hri]. rewrite Hri.
        destruct (basic_mask V x _ Hcan Hwi (subst_no_arr _ nix) (kf (Z.to_nat a))) as [_ [Hmem _]]. apply Hmem.
        split; [exact Hp|]. rewrite <- (Hmm _ Hi). rewrite Z2Nat.id by (clear - Hb; lia). exact Hma. }
    assert (Hm_nodup : NoDup m).
    { unfold m. apply NoDup_flat_map_keys; [apply seq_NoDup| |].
      - intros i Hi. apply in_seq0 in Hi. destruct (Hsub i Hi) as [Hwi Hri]. rewrite Hri.
        destruct (basic_mask V x _ Hcan Hwi (subst_no_arr i nix) (kf i)) as [Hnd _].
        apply NoDup_map_inj_in; [exact Hnd|]. intros a b _ _ H. inversion H. reflexivity.
      - intros i i' [p a] _ _ H1 H2. apply in_map_iff in H1, H2. destruct H1 as [q [Hq _]], H2 as [q' [Hq' _]].
        inversion Hq as [[E1 E2]]. inversion Hq' as [[E3 E4]]. apply Nat2Z.inj. congruence. }
    assert (Halen : forall l', In (NArr l') nix -> Z.of_nat n = Z.of_nat (length l')).
    { intros l' Hl'. rewrite (Hlens l' Hl'). reflexivity. }
    assert (Hflag : sorted_flag nix (Some (mkAdv (VTuple (map (fun q : Z * list Z => VInt (fst q)) (adv_of 0 pr))) (Z.of_nat n))) = true ->
                    StronglySorted lex_lt (map fst (sel_entries V x nix m))).
    { rewrite sorted_flag_multi. discriminate. }
    pose proof (finish V x nix ix Hcan Hwf Harr m Hm_nodup Hm_mem _ Halen _ Hflag) as Hfin.
    exact Hfin.
  Qed.
End GetitemMulti.

(* without the D30 clause the model meets the unchecked out-of-bounds access (4-d x[0:1, [0,1], [1,0]]) *)
Theorem coo_getitem_multi_array_refuted_proof :
  exists (x : coo Z) (ix : index),
    canonical Z x /\ shape_okb (c_shape x) = true /\ no_zero_step ix = true /\ multi_array ix = true
    /\ (exists sh' g, np_index (c_shape x) ix = Ok (sh', g))
    /\ getitem (fun _ => 0%nat) x ix = Raise RuntimeError.
Proof.
  exists (mkCOO [2; 3; 3; 2] [[0; 0; 1; 0]] [5] 0), [ISlice (Some 0) (Some 1) None; IArr [0; 1]; IArr [1; 0]].
  split; [apply canonicalb_spec; reflexivity|]. repeat split.
  eexists. eexists. vm_compute. reflexivity.
Qed.

(* non-vacuity: x[[1, 0, 1], [2, 1, 2]] and x[:, [1,0], 1, [0,2]]-style keys *)
Example getitem_multi_array_nonvacuous :
  let x := mkCOO [2; 3] [[0; 1]; [1; 0]; [1; 2]] [10; 20; 30] 7 in
  let ix := [IArr [1; 0; 1]; IArr [2; -2; 2]] in
  canonical Z x /\ shape_okb (c_shape x) = true /\ no_zero_step ix = true /\ multi_array ix = true
  /\ d30_clause (c_shape x) ix = true
  /\ getitem (fun _ => 1%nat) x ix = Ok (GArr (mkCOO [3] [[0]; [1]; [2]] [30; 10; 30] 7)).
Proof. cbv zeta. split; [apply canonicalb_spec; reflexivity|]. repeat split. Qed.
