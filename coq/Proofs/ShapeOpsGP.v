(* Proofs/ShapeOpsGP.v — C08, GCXS side.  For a GCXS array that is the compressed form of a canonical
   COO array c (g = _from_coo c ca; property C05 proves that form well-formed with the dense meaning
   of c), GCXS.transpose / reshape as modelled in Model/ShapeOpsG.v return EXACTLY the compressed
   form of what COO.transpose / reshape return on c (representation theorems); the dense-meaning
   and well-formedness theorems follow from the COO theorems of Proofs/ShapeOpsP.v and from C05. *)
From Coq Require Import ZArith List Bool Lia Sorting.Sorted Sorting.Permutation.
From Verif Require Import Py Shape COO GCXS COOP Convert ConvertL ConvertM ConvertG ConvertP.
From Verif Require Import G_shapeops S_shapeops ShapeOps NpShapeOps ShapeOpsL ShapeOpsP ShapeOpsG.
Import ListNotations.
Open Scope Z_scope.

Definition U2 (rs cs l : Z) : idx := [(l / cs) mod rs; l mod cs].

Lemma gather_permute ax t : gather t ax = permute_idx ax t.
Proof. reflexivity. Qed.

Section Repr.
  Variable V : Type.
  Variable veqb : V -> V -> bool.
  Variable add : V -> V -> V.

  Notation entry := (idx * V)%type.

  (* ---------------------------------------------------------------- the source: g = _from_coo c ca, ndim >= 2 *)
  Section Source.
    Variable c : coo V.
    Variable ca : list Z.
    Hypothesis Hc : canonical V c.
    Hypothesis Hok : shape_ok (c_shape c).
    Hypothesis Hca : caxes_okb (Z.of_nat (length (c_shape c))) ca = true.
    Hypothesis Hnd : (2 <= length (c_shape c))%nat.

    Let sh := c_shape c.
    Let s := gsorted V c ca.

    Lemma g_linear_from_coo : g_linear (gcxs_from_coo c ca) = map fst s.
    Proof.
      rewrite (from_coo_nf V c ca Hok Hca Hnd). unfold g_linear. cbn [g_shape g_caxes g_indptr g_indices].
      rewrite (rows_roundtrip V c ca Hc Hok Hca). rewrite combine_map_map, map_map.
      apply map_ext_in. intros p Hp. cbn [fst snd]. rewrite ravel_2.
      destruct (rowf_colf V c ca Hc Hok Hca p Hp) as [_ [_ [_ [_ Hrc]]]]. exact Hrc.
    Qed.

    Lemma g_data_from_coo : g_data (gcxs_from_coo c ca) = map snd s.
    Proof. rewrite (from_coo_nf V c ca Hok Hca Hnd). reflexivity. Qed.

    (* every sorted key is the key of a stored, in-range coordinate *)
    Lemma key_of_sorted' p : In p s -> exists ix, in_range sh ix /\ fst p = ckey sh ca ix.
    Proof.
      intros Hp. assert (Hin : In (fst p) (map fst s)) by (apply in_map; exact Hp).
      apply (Permutation_in _ (Permutation_sym (gs_keys_perm V c ca Hc))) in Hin.
      apply in_map_iff in Hin. destruct Hin as [ix [E Hix]]. exists ix.
      pose proof Hc as [Hr _]. rewrite Forall_forall in Hr. auto.
    Qed.

    (* c ordering: unravel in the reordered shape, undo the axis order *)
    Lemma kernel_head ix : in_range sh ix ->
      gather (unravel_k (ckey sh ca ix) (reordered_shape sh ca)) (inv_perm (axis_order (Z.of_nat (length sh)) ca)) = ix.
    Proof.
      intros Hix. assert (Hlen : length ix = length sh) by (apply in_range_length; exact Hix).
      pose proof (ckey_bounds sh ca Hca ix Hix) as Hb.
      rewrite unravel_k_spec.
      - unfold ckey. rewrite unravel_ravel by (apply gather_ord_in_range; assumption).
        apply (gather_inv_perm (length sh)); [apply ord_perm; exact Hca|exact Hlen].
      - intros E. pose proof (rsh_length sh ca Hca) as HL. rewrite E in HL. simpl in HL. unfold sh in HL. lia.
      - apply rsh_ok. exact Hok.
      - rewrite size_rsh. exact Hb.
    Qed.
  End Source.

  (* ---------------------------------------------------------------- the target: c' with >= 2 axes *)
  Section Target.
    Variable c' : coo V.
    Variable ca' : list Z.
    Hypothesis Hc' : canonical V c'.
    Hypothesis Hok' : shape_ok (c_shape c').
    Hypothesis Hca' : caxes_okb (Z.of_nat (length (c_shape c'))) ca' = true.
    Hypothesis Hnd' : (2 <= length (c_shape c'))%nat.

    Let sh' := c_shape c'.
    Let rs' := row_size sh' ca'.
    Let cs' := col_size sh' ca'.

    (* gather in the new axis order, linearise, split into (row, column) *)
    Lemma kernel_tail y : in_range sh' y ->
      ravel_k (gather y (axis_order (Z.of_nat (length sh')) ca')) (reordered_shape sh' ca') = ckey sh' ca' y /\
      unravel_k (ckey sh' ca' y) [rs'; cs'] = U2 rs' cs' (ckey sh' ca' y).
    Proof.
      intros Hy. pose proof (ckey_bounds sh' ca' Hca' y Hy) as Hb. split.
      - apply ravel_k_spec.
        + intros E. pose proof (gather_length y (axis_order (Z.of_nat (length sh')) ca')) as HL.
          rewrite E, (perm_of_length _ _ (ord_perm sh' ca' Hca')) in HL. simpl in HL. unfold sh' in HL. lia.
        + rewrite gather_length, (perm_of_length _ _ (ord_perm sh' ca' Hca')). symmetry. apply rsh_length. exact Hca'.
      - assert (Hok2 : shape_ok [rs'; cs']).
        { constructor; [apply row_size_nonneg; exact Hok'|constructor; [apply col_size_nonneg; assumption|constructor]]. }
        rewrite unravel_k_spec; [|discriminate|exact Hok2|simpl; rewrite Z.mul_1_r; exact Hb].
        rewrite <- ConvertG.unravel_strided_spec; [apply ConvertG.unravel_strided_2|exact Hok2|simpl; rewrite Z.mul_1_r; exact Hb].
    Qed.

    (* the common tail of _transpose / _1d_reshape builds _from_coo of c' when the (new key, datum)
       list sorts to the sorted key list of c' *)
    Lemma assemble_from_coo (l : list (Z * V)) :
      stable_sort l = gsorted V c' ca' ->
      gcxs_assemble sh' ca' (map (fun q => (fst q, U2 rs' cs' (fst q))) l) (map snd l) (c_fill c')
      = gcxs_from_coo c' ca'.
    Proof.
      intros Hs. rewrite (from_coo_nf V c' ca' Hok' Hca' Hnd'). unfold gcxs_assemble.
      rewrite !map_map. cbn [fst snd].
      rewrite combine_map_map. rewrite combine_map_map.
      rewrite (stable_sort_map (fun k v => (U2 rs' cs' k, v)) l). rewrite Hs.
      rewrite !map_map. cbn [fst snd]. unfold U2, rowf, colf. fold sh' rs' cs'. reflexivity.
    Qed.
  End Target.

  (* ---------------------------------------------------------------- re-keying *)
  Section Rekey.
    Variable c c' : coo V.
    Variable ca ca' : list Z.
    Variable phi : idx -> idx.
    Hypothesis Hc : canonical V c.
    Hypothesis Hok : shape_ok (c_shape c).
    Hypothesis Hca : caxes_okb (Z.of_nat (length (c_shape c))) ca = true.
    Hypothesis Hnd : (2 <= length (c_shape c))%nat.
    Hypothesis Hc' : canonical V c'.
    Hypothesis Hca' : caxes_okb (Z.of_nat (length (c_shape c'))) ca' = true.
    Hypothesis Hperm : Permutation (map (fun e : entry => (phi (fst e), snd e)) (entries c)) (entries c').

    Lemma rekey :
      stable_sort (map (fun p : Z * V => (ckey (c_shape c') ca' (phi (unkey (c_shape c) ca (fst p))), snd p))
                       (gsorted V c ca))
      = gsorted V c' ca'.
    Proof.
      assert (Hl : Permutation
                (map (fun p : Z * V => (ckey (c_shape c') ca' (phi (unkey (c_shape c) ca (fst p))), snd p)) (gsorted V c ca))
                (combine (map (ckey (c_shape c') ca') (c_coords c')) (c_data c'))).
      { pose proof (E3_perm V c ca Hc Hok Hca Hnd) as HE.
        apply (Permutation_map (fun e : entry => (phi (fst e), snd e))) in HE.
        pose proof (perm_trans HE Hperm) as H2.
        apply (Permutation_map (fun e : entry => (ckey (c_shape c') ca' (fst e), snd e))) in H2.
        rewrite !map_map in H2. cbn [fst snd] in H2.
        rewrite combine_map_l. fold (entries c'). exact H2. }
      apply stable_sort_unique.
      - eapply perm_trans; [exact Hl|apply gs_perm].
      - apply stable_sort_sorted.
      - eapply Permutation_NoDup; [apply Permutation_map, Permutation_sym, Hl|].
        destruct Hc' as [_ [_ Hlen]]. rewrite map_fst_combine by (rewrite map_length; lia).
        apply lin_NoDup; assumption.
    Qed.
  End Rekey.

  Lemma g_shape_from_coo (c : coo V) ca : g_shape (gcxs_from_coo c ca) = c_shape c.
  Proof. unfold gcxs_from_coo. destruct (c_shape c) as [|d1 [|d2 t]]; reflexivity. Qed.

  Lemma g_fill_from_coo (c : coo V) ca : g_fill (gcxs_from_coo c ca) = c_fill c.
  Proof. unfold gcxs_from_coo. destruct (c_shape c) as [|d1 [|d2 t]]; reflexivity. Qed.

  Lemma g_caxes_from_coo (c : coo V) ca : (2 <= length (c_shape c))%nat -> g_caxes (gcxs_from_coo c ca) = ca.
  Proof. unfold gcxs_from_coo. destruct (c_shape c) as [|d1 [|d2 t]]; simpl; intros; try lia; reflexivity. Qed.

  Lemma entries_coo_make sh (es : list entry) fill srt :
    Permutation es (entries (ShapeOps.coo_make sh es fill srt)).
  Proof.
    unfold ShapeOps.coo_make, entries. cbn [c_coords c_data]. rewrite combine_fst_snd.
    destruct srt; [apply Permutation_refl|apply Permutation_sym, sort_entries_perm].
  Qed.

  Lemma caxes_single_ok (sh : shape) a : (2 <= length sh)%nat -> 0 <= a < Z.of_nat (length sh) ->
    caxes_okb (Z.of_nat (length sh)) [a] = true.
  Proof.
    intros Hn Ha. unfold caxes_okb. simpl.
    repeat (apply andb_true_iff; split); try reflexivity; try (apply Z.ltb_lt; lia); try (apply Z.leb_le; lia).
  Qed.

  Lemma argmin_caxes_ok (sh : shape) : (2 <= length sh)%nat -> caxes_okb (Z.of_nat (length sh)) [argmin sh] = true.
  Proof.
    intros Hn. apply caxes_single_ok; [assumption|]. apply argmin_range. destruct sh; simpl in *; [lia|discriminate].
  Qed.

  (* ================================================================ transpose, n-d path *)
  Section TransposeNd.
    Variable c : coo V.
    Variable ca : list Z.
    Variable ax : list Z.
    Hypothesis Hc : canonical V c.
    Hypothesis Hok : shape_ok (c_shape c).
    Hypothesis Hca : caxes_okb (Z.of_nat (length (c_shape c))) ca = true.
    Hypothesis Hnd : (2 <= length (c_shape c))%nat.
    Hypothesis Hp : perm_ok (length (c_shape c)) ax.

    Let sh := c_shape c.
    Let sh' := permute_idx ax sh.
    Let c' := ShapeOps.coo_make sh' (map_coords (permute_idx ax) c) (c_fill c) false.
    Let ca' := [argmin sh'].

    Lemma tr_sh'_length : length sh' = length sh.
    Proof. unfold sh', permute_idx. rewrite map_length. apply Hp. Qed.

    Lemma tr_c'_canonical : canonical V c'.
    Proof.
      apply remap_canonical; [assumption| | |discriminate].
      - intros x Hx. apply (permute_in_range (length sh) ax Hp); [reflexivity|assumption].
      - intros a b Ha Hb He.
        rewrite <- (unpermute_permute (length sh) ax Hp a), <- (unpermute_permute (length sh) ax Hp b), He;
          [reflexivity|apply in_range_length; assumption|apply in_range_length; assumption].
    Qed.

    Lemma tr_sh'_ok : shape_ok sh'.
    Proof. apply (shape_ok_gather sh ax). exact Hok. Qed.

    Lemma tr_ca'_ok : caxes_okb (Z.of_nat (length (c_shape c'))) ca' = true.
    Proof. apply argmin_caxes_ok. change (c_shape c') with sh'. rewrite tr_sh'_length. exact Hnd. Qed.

    Theorem gcxs_transpose_nd_repr : gcxs_transpose_nd (gcxs_from_coo c ca) ax = gcxs_from_coo c' ca'.
    Proof.
      pose proof tr_c'_canonical as Hc'. pose proof tr_sh'_ok as Hok'. pose proof tr_ca'_ok as Hca'.
      assert (Hnd' : (2 <= length (c_shape c'))%nat) by (change (c_shape c') with sh'; rewrite tr_sh'_length; exact Hnd).
      unfold gcxs_transpose_nd, gndim, zlen.
      rewrite g_shape_from_coo, g_fill_from_coo, (g_caxes_from_coo c ca Hnd).
      rewrite (g_linear_from_coo c ca Hc Hok Hca Hnd), (g_data_from_coo c ca Hok Hca Hnd).
      fold sh. fold sh'. fold ca'.
      unfold s_convert_coords_call, convert_coords_all.
      set (K := fun p : Z * V => ckey sh' ca' (permute_idx ax (unkey sh ca (fst p)))).
      set (l := map (fun p : Z * V => (K p, snd p)) (gsorted V c ca)).
      assert (Hconv : map (fun n => tr_coord n (reordered_shape sh ca) (inv_perm (axis_order (Z.of_nat (length sh)) ca)) ax
                                           (axis_order (Z.of_nat (length sh)) ca') (reordered_shape sh' ca')
                                           [row_size sh' ca'; col_size sh' ca']) (map fst (gsorted V c ca))
                      = map (fun q => (fst q, U2 (row_size sh' ca') (col_size sh' ca') (fst q))) l).
      { unfold l. rewrite !map_map. apply map_ext_in. intros p Hp'. cbn [fst].
        destruct (key_of_sorted' c ca Hc p Hp') as [ix [Hix E]]. fold sh in Hix, E.
        unfold K. rewrite E. rewrite (unkey_ckey sh ca Hca ix Hix).
        unfold tr_coord. pose proof (kernel_head c ca Hok Hca Hnd ix Hix) as Hh. fold sh in Hh. rewrite Hh.
        assert (Hy : in_range sh' (permute_idx ax ix))
          by (apply (permute_in_range (length sh) ax Hp); [reflexivity|assumption]).
        destruct (kernel_tail c' ca' Hok' Hca' Hnd' (permute_idx ax ix) Hy) as [H1 H2].
        change (c_shape c') with sh' in H1, H2. rewrite tr_sh'_length in H1.
        change (gather ix ax) with (permute_idx ax ix). rewrite H1, H2. reflexivity. }
      rewrite Hconv.
      replace (map snd (gsorted V c ca)) with (map snd l) by (unfold l; rewrite map_map; reflexivity).
      change sh' with (c_shape c'). change (c_fill c) with (c_fill c').
      apply (assemble_from_coo c' ca' Hok' Hca' Hnd').
      unfold l, K. change (c_shape c') with sh'.
      apply (rekey c c' ca ca' (permute_idx ax) Hc Hok Hca Hnd Hc' Hca').
      apply entries_coo_make.
    Qed.
  End TransposeNd.

  (* ================================================================ _2d_transpose *)
  Lemma caxes_2d ca : caxes_okb 2 ca = true -> ca = [0] \/ ca = [1].
  Proof.
    intros H. apply caxes_okb_spec in H. destruct H as [Hne [Hl [_ Hr]]].
    destruct ca as [|a [|b t]]; [congruence| |simpl in Hl; lia].
    assert (0 <= a < 2) by (apply Hr; left; reflexivity).
    assert (a = 0 \/ a = 1) as [->| ->] by lia; auto.
  Qed.

  Section Transpose2d.
    Variable c : coo V.
    Variable ca : list Z.
    Variables d0 d1 : Z.
    Hypothesis Hc : canonical V c.
    Hypothesis Hok : shape_ok (c_shape c).
    Hypothesis Hsh : c_shape c = [d0; d1].
    Hypothesis Hca : caxes_okb 2 ca = true.

    Let c' := ShapeOps.coo_make (permute_idx [1; 0] (c_shape c)) (map_coords (permute_idx [1; 0]) c) (c_fill c) false.
    Let ca' := [(hd 0 ca + 1) mod 2].

    Lemma perm_10 : perm_ok 2 [1; 0].
    Proof.
      unfold perm_ok. repeat split; [repeat constructor; simpl; intuition lia| |];
        destruct H as [<-|[<-|[]]]; lia.
    Qed.

    Theorem gcxs_2d_transpose_repr : gcxs_2d_transpose (gcxs_from_coo c ca) = gcxs_from_coo c' ca'.
    Proof.
      assert (Hnd : (2 <= length (c_shape c))%nat) by (rewrite Hsh; simpl; lia).
      assert (Hca2 : caxes_okb (Z.of_nat (length (c_shape c))) ca = true) by (rewrite Hsh; exact Hca).
      assert (Hp : perm_ok (length (c_shape c)) [1; 0]) by (rewrite Hsh; exact perm_10).
      pose proof (tr_c'_canonical c [1; 0] Hc Hp) as Hc'. fold c' in Hc'.
      assert (Hshape' : c_shape c' = [d1; d0]) by (unfold c'; simpl; rewrite Hsh; reflexivity).
      assert (Hok' : shape_ok (c_shape c')).
      { rewrite Hshape'. rewrite Hsh in Hok. inversion Hok as [|? ? H0 Hr]; subst. inversion Hr; subst.
        repeat constructor; assumption. }
      assert (Hnd' : (2 <= length (c_shape c'))%nat) by (rewrite Hshape'; simpl; lia).
      assert (Hca' : caxes_okb (Z.of_nat (length (c_shape c'))) ca' = true).
      { rewrite Hshape'. unfold ca'. destruct (caxes_2d ca Hca) as [-> | ->]; reflexivity. }
      (* the keys do not change *)
      assert (Hkey : forall ix, in_range (c_shape c) ix ->
                ckey (c_shape c') ca' (permute_idx [1; 0] ix) = ckey (c_shape c) ca ix).
      { intros ix Hix. rewrite Hshape', Hsh. rewrite Hsh in Hix.
        destruct ix as [|i [|j [|? ?]]]; simpl in Hix; try tauto.
        unfold ca'. destruct (caxes_2d ca Hca) as [-> | ->]; reflexivity. }
      assert (Hs : gsorted V c' ca' = gsorted V c ca).
      { rewrite <- (rekey c c' ca ca' (permute_idx [1; 0]) Hc Hok Hca2 Hnd Hc' Hca' (entries_coo_make _ _ _ _)).
        rewrite <- (stable_sort_sorted_id (gsorted V c ca)) at 2 by (apply stable_sort_sorted).
        f_equal. rewrite <- (map_id (gsorted V c ca)) at 2. apply map_ext_in. intros [k v] Hp'.
        destruct (key_of_sorted' c ca Hc (k, v) Hp') as [ix [Hix E]]. cbn [fst snd] in *. subst k.
        rewrite (unkey_ckey _ ca Hca2 ix Hix). rewrite (Hkey ix Hix). reflexivity. }
      rewrite (from_coo_nf V c ca Hok Hca2 Hnd), (from_coo_nf V c' ca' Hok' Hca' Hnd').
      unfold gcxs_2d_transpose. cbn [g_shape g_caxes g_data g_indices g_indptr g_fill].
      rewrite Hs. unfold rowf, colf. rewrite Hshape', Hsh. fold ca'.
      unfold ca'. destruct (caxes_2d ca Hca) as [-> | ->]; reflexivity.
    Qed.
  End Transpose2d.

  (* ================================================================ GCXS.transpose *)
  Lemma perm_ok_small n ax : perm_ok n ax -> (n <= 1)%nat -> ax = zrange (Z.of_nat n).
  Proof.
    intros [Hl [Hnd Hr]] Hn. destruct n as [|[|n]]; [| |lia].
    - destruct ax; [reflexivity|discriminate].
    - destruct ax as [|a [|b t]]; try discriminate. assert (0 <= a < 1) by (apply Hr; left; reflexivity).
      assert (a = 0) by lia. subst. reflexivity.
  Qed.

  Lemma perm_ok_2 ax : perm_ok 2 ax -> ax = [0; 1] \/ ax = [1; 0].
  Proof.
    intros [Hl [Hnd Hr]]. destruct ax as [|a [|b [|? ?]]]; try discriminate.
    assert (0 <= a < 2) by (apply Hr; simpl; auto). assert (0 <= b < 2) by (apply Hr; simpl; auto).
    inversion Hnd as [|? ? Hn _]; subst. simpl in Hn.
    assert (a <> b) by (intros ->; tauto).
    assert ((a = 0 /\ b = 1) \/ (a = 1 /\ b = 0)) as [[-> ->]|[-> ->]] by lia; auto.
  Qed.

  Definition tr_axes0 (nd : Z) (axes : option (list Z)) : list Z :=
    match axes with None => rev (zrange nd) | Some a => a end.

  (* COO.transpose and GCXS.transpose run the same argument checks *)
  Lemma transpose_parallel (x : coo V) (g : gcxs V) axes :
    ndim x = gndim g ->
    match norm_axes (ndim x) (tr_axes0 (ndim x) axes) with
    | Raise e => ShapeOps.coo_transpose x axes = Raise e /\ gcxs_transpose g axes = Raise e
    | Ok ax =>
      if has_dup ax || negb (zlen ax =? ndim x)
      then ShapeOps.coo_transpose x axes = Raise ValueError /\ gcxs_transpose g axes = Raise ValueError
      else ShapeOps.coo_transpose x axes
             = Ok (if idx_eqb ax (zrange (ndim x)) then x
                   else ShapeOps.coo_make (permute_idx ax (c_shape x)) (map_coords (permute_idx ax) x) (c_fill x) false)
           /\ gcxs_transpose g axes
             = Ok (if idx_eqb ax (zrange (ndim x)) then g
                   else if ndim x =? 2 then gcxs_2d_transpose g else gcxs_transpose_nd g ax)
    end.
  Proof.
    intros Hn. unfold ShapeOps.coo_transpose, gcxs_transpose. rewrite <- Hn. fold (tr_axes0 (ndim x) axes).
    destruct (norm_axes (ndim x) (tr_axes0 (ndim x) axes)) as [ax|e]; simpl; [|auto].
    destruct (has_dup ax); simpl; [auto|]. destruct (zlen ax =? ndim x); simpl; [|auto].
    destruct (idx_eqb ax (zrange (ndim x))); [auto|]. destruct (ndim x =? 2); auto.
  Qed.

  Theorem gcxs_transpose_repr_proof (c : coo V) ca axes :
    canonical V c -> shape_ok (c_shape c) -> axes_ok (c_shape c) ca ->
    (forall c', ShapeOps.coo_transpose c axes = Ok c' ->
       exists ca', gcxs_transpose (gcxs_from_coo c ca) axes = Ok (gcxs_from_coo c' ca') /\ axes_ok (c_shape c') ca') /\
    (forall e, ShapeOps.coo_transpose c axes = Raise e -> gcxs_transpose (gcxs_from_coo c ca) axes = Raise e).
  Proof.
    intros Hc Hok Hax.
    assert (Hn : ndim c = gndim (gcxs_from_coo c ca)) by (unfold ndim, gndim; rewrite g_shape_from_coo; reflexivity).
    pose proof (transpose_parallel c (gcxs_from_coo c ca) axes Hn) as Hpar.
    destruct (norm_axes (ndim c) (tr_axes0 (ndim c) axes)) as [ax|e] eqn:En.
    2:{ destruct Hpar as [H1 H2]. split; [intros c' H; congruence|intros e' H; congruence]. }
    apply norm_axes_Ok in En; [|apply zlen_nonneg]. destruct En as [Hf Eax].
    destruct (has_dup ax || negb (zlen ax =? ndim c)) eqn:Ebad.
    { destruct Hpar as [H1 H2]. split; [intros c' H; congruence|intros e' H; congruence]. }
    destruct Hpar as [H1 H2]. split; [|intros e' H; congruence].
    intros c' Hc'. rewrite H1 in Hc'. inversion Hc' as [Hc'']. clear Hc'. rewrite H2.
    apply orb_false_iff in Ebad. destruct Ebad as [Hdup Hlen]. apply negb_false_iff, Z.eqb_eq in Hlen.
    assert (Hp : perm_ok (length (c_shape c)) ax).
    { unfold perm_ok. repeat split.
      - unfold zlen, ndim, zlen in Hlen. lia.
      - apply has_dup_NoDup. exact Hdup.
      - subst ax. apply in_map_iff in H. destruct H as [b [<- Hb]]. rewrite Forall_forall in Hf.
        pose proof (mod_in_range _ _ (Hf _ Hb)) as Hm. unfold ndim, zlen in Hm |- *. lia.
      - subst ax. apply in_map_iff in H. destruct H as [b [<- Hb]]. rewrite Forall_forall in Hf.
        pose proof (mod_in_range _ _ (Hf _ Hb)) as Hm. unfold ndim, zlen in Hm |- *. lia. }
    destruct (idx_eqb ax (zrange (ndim c))) eqn:Eid.
    - exists ca. split; [reflexivity|assumption].
    - assert (Hnd : (2 <= length (c_shape c))%nat).
      { destruct (Nat.le_gt_cases 2 (length (c_shape c))) as [?|Hlt]; [assumption|]. exfalso.
        rewrite (perm_ok_small _ ax Hp) in Eid by lia. unfold ndim, zlen in Eid. rewrite idx_eqb_refl in Eid. discriminate. }
      destruct Hax as [Hax|Hca]; [lia|].
      destruct (Z.eqb_spec (ndim c) 2) as [E2|E2].
      + (* 2-d: the constant-time reinterpretation *)
        assert (Hex : exists d0 d1, c_shape c = [d0; d1]).
        { unfold ndim, zlen in E2. destruct (c_shape c) as [|d0 [|d1 [|? ?]]]; simpl in E2; try lia. eauto. }
        destruct Hex as [d0 [d1 Esh]].
        assert (Hl2 : length (c_shape c) = 2%nat) by (rewrite Esh; reflexivity).
        assert (Hp2 : perm_ok 2 ax) by (rewrite <- Hl2; exact Hp).
        assert (Hca2 : caxes_okb 2 ca = true) by (rewrite Hl2 in Hca; exact Hca).
        destruct (perm_ok_2 ax Hp2) as [Eax2|Eax2].
        { exfalso. rewrite Eax2 in Eid. unfold ndim, zlen in Eid. rewrite Hl2 in Eid. simpl in Eid. discriminate. }
        exists [(hd 0 ca + 1) mod 2]. split.
        * f_equal. rewrite Eax2. apply (gcxs_2d_transpose_repr c ca d0 d1 Hc Hok Esh Hca2).
        * right. rewrite Eax2. simpl. destruct (caxes_2d ca Hca2) as [-> | ->]; reflexivity.
      + exists [argmin (permute_idx ax (c_shape c))]. split.
        * f_equal. apply (gcxs_transpose_nd_repr c ca ax Hc Hok Hca Hnd Hp).
        * right. apply (tr_ca'_ok c ax Hnd Hp).
  Qed.

  (* ================================================================ reshape *)
  Definition rphi (sh sh' : shape) (ix : idx) : idx := ShapeOps.unravel_strided sh' (ravel sh ix).

  Definition reshaped (c : coo V) (sh' : shape) : coo V :=
    ShapeOps.coo_make sh' (map_coords (rphi (c_shape c) sh') c) (c_fill c) true.

  Lemma reshaped_canonical (c : coo V) sh' :
    canonical V c -> shape_ok sh' -> size sh' = size (c_shape c) -> canonical V (reshaped c sh').
  Proof.
    intros Hc Hok' Hsz. apply remap_canonical; [assumption| | |].
    - intros x. apply (reshape_f_range (c_shape c) sh' Hok' Hsz).
    - intros a b. apply (reshape_f_inj (c_shape c) sh' Hok' Hsz).
    - intros _ a b. apply (reshape_f_mono (c_shape c) sh' Hok' Hsz).
  Qed.

  Lemma nonempty_of_len {A} (l : list A) : (1 <= length l)%nat -> l <> [].
  Proof. destruct l; simpl; [lia|discriminate]. Qed.

  (* ---- n-d -> n-d: _transpose(..., transpose=False) *)
  Section ReshapeNdNd.
    Variable c : coo V.
    Variable ca ca' : list Z.
    Variable sh' : shape.
    Hypothesis Hc : canonical V c.
    Hypothesis Hok : shape_ok (c_shape c).
    Hypothesis Hca : caxes_okb (Z.of_nat (length (c_shape c))) ca = true.
    Hypothesis Hnd : (2 <= length (c_shape c))%nat.
    Hypothesis Hok' : shape_ok sh'.
    Hypothesis Hsz : size sh' = size (c_shape c).
    Hypothesis Hca' : caxes_okb (Z.of_nat (length sh')) ca' = true.
    Hypothesis Hnd' : (2 <= length sh')%nat.

    Let sh := c_shape c.
    Let c' := reshaped c sh'.

    Theorem gcxs_reshape_nd_nd_repr : gcxs_reshape_nd_nd (gcxs_from_coo c ca) sh' ca' = gcxs_from_coo c' ca'.
    Proof.
      pose proof (reshaped_canonical c sh' Hc Hok' Hsz) as Hc'. fold c' in Hc'.
      unfold gcxs_reshape_nd_nd, gndim, zlen.
      rewrite g_shape_from_coo, g_fill_from_coo, (g_caxes_from_coo c ca Hnd).
      rewrite (g_linear_from_coo c ca Hc Hok Hca Hnd), (g_data_from_coo c ca Hok Hca Hnd).
      fold sh. unfold s_convert_coords_call, convert_coords_all.
      set (K := fun p : Z * V => ckey sh' ca' (rphi sh sh' (unkey sh ca (fst p)))).
      set (l := map (fun p : Z * V => (K p, snd p)) (gsorted V c ca)).
      assert (Hconv : map (fun n => convert_coord n sh (reordered_shape sh ca) (inv_perm (axis_order (Z.of_nat (length sh)) ca)) sh'
                                           (axis_order (Z.of_nat (length sh')) ca') (reordered_shape sh' ca')
                                           [row_size sh' ca'; col_size sh' ca']) (map fst (gsorted V c ca))
                      = map (fun q => (fst q, U2 (row_size sh' ca') (col_size sh' ca') (fst q))) l).
      { unfold l. rewrite !map_map. apply map_ext_in. intros p Hp'. cbn [fst].
        destruct (key_of_sorted' c ca Hc p Hp') as [ix [Hix E]]. fold sh in Hix, E.
        unfold K. rewrite E. rewrite (unkey_ckey sh ca Hca ix Hix).
        unfold convert_coord. pose proof (kernel_head c ca Hok Hca Hnd ix Hix) as Hh. fold sh in Hh. rewrite Hh.
        assert (Hixne : ix <> []).
        { apply nonempty_of_len. apply in_range_length in Hix. rewrite Hix. unfold sh. lia. }
        rewrite (ravel_k_spec ix sh Hixne (in_range_length _ _ Hix)).
        pose proof (ravel_bounds _ _ Hix) as Hb.
        rewrite (unravel_k_spec sh' (ravel sh ix)); [|apply nonempty_of_len; lia|exact Hok'|rewrite Hsz; exact Hb].
        assert (Hy : in_range sh' (rphi sh sh' ix)) by (apply (reshape_f_range sh sh' Hok' Hsz); exact Hix).
        assert (Hphi : rphi sh sh' ix = unravel sh' (ravel sh ix)) by (apply (reshape_f_eq sh sh' Hok' Hsz); exact Hix).
        rewrite <- Hphi.
        destruct (kernel_tail c' ca' Hok' Hca' Hnd' (rphi sh sh' ix) Hy) as [H1 H2].
        change (c_shape c') with sh' in H1, H2. rewrite H1, H2. reflexivity. }
      rewrite Hconv.
      replace (map snd (gsorted V c ca)) with (map snd l) by (unfold l; rewrite map_map; reflexivity).
      change sh' with (c_shape c') at 1. change (c_fill c) with (c_fill c').
      change (row_size sh' ca') with (row_size (c_shape c') ca'). change (col_size sh' ca') with (col_size (c_shape c') ca').
      apply (assemble_from_coo c' ca' Hok' Hca' Hnd').
      unfold l, K. change (c_shape c') with sh'.
      apply (rekey c c' ca ca' (rphi sh sh') Hc Hok Hca Hnd Hc' Hca').
      apply entries_coo_make.
    Qed.
  End ReshapeNdNd.

  Lemma rphi_1d sh n ix : in_range sh ix -> size sh = n -> rphi sh [n] ix = [ravel sh ix].
  Proof.
    intros Hix Hn. unfold rphi. simpl. rewrite Z.div_1_r. f_equal. apply Z.mod_small.
    rewrite <- Hn. apply ravel_bounds. exact Hix.
  Qed.

  Lemma data_of_reshaped (c : coo V) sh' : canonical V c -> c_data (reshaped c sh') = c_data c.
  Proof.
    intros [_ [_ Hl]]. unfold reshaped, ShapeOps.coo_make, map_coords. cbn [c_data]. rewrite map_map. cbn [snd].
    unfold entries. clear -Hl. revert Hl. generalize (c_data c). induction (c_coords c) as [|k ks IH]; intros [|v vs] Hl;
      simpl in *; try discriminate; [reflexivity|]. f_equal. apply IH. lia.
  Qed.

  Lemma coords_of_reshaped (c : coo V) sh' :
    canonical V c -> c_coords (reshaped c sh') = map (rphi (c_shape c) sh') (c_coords c).
  Proof.
    intros [_ [_ Hl]]. unfold reshaped, ShapeOps.coo_make. cbn [c_coords]. apply map_coords_keys. exact Hl.
  Qed.

  (* ---- n-d -> 1-d: _c_ordering, stable argsort *)
  Section ReshapeNd1.
    Variable c : coo V.
    Variable ca : list Z.
    Variable n : Z.
    Hypothesis Hc : canonical V c.
    Hypothesis Hok : shape_ok (c_shape c).
    Hypothesis Hca : caxes_okb (Z.of_nat (length (c_shape c))) ca = true.
    Hypothesis Hnd : (2 <= length (c_shape c))%nat.
    Hypothesis Hsz : size (c_shape c) = n.

    Let sh := c_shape c.
    Let c' := reshaped c [n].

    Theorem gcxs_reshape_nd_1_repr ca' : gcxs_reshape_nd_1 (gcxs_from_coo c ca) [n] = gcxs_from_coo c' ca'.
    Proof.
      pose proof Hc as [Hr [Hs Hlen]]. rewrite Forall_forall in Hr.
      unfold gcxs_reshape_nd_1, gndim, zlen.
      rewrite g_shape_from_coo, g_fill_from_coo, (g_caxes_from_coo c ca Hnd).
      rewrite (g_linear_from_coo c ca Hc Hok Hca Hnd), (g_data_from_coo c ca Hok Hca Hnd).
      fold sh. unfold s_c_ordering_call, c_ordering_all.
      set (l := map (fun p : Z * V => (ravel sh (unkey sh ca (fst p)), snd p)) (gsorted V c ca)).
      assert (Hcl : combine (map (fun k => c_order k (reordered_shape sh ca) (inv_perm (axis_order (Z.of_nat (length sh)) ca)) sh)
                                 (map fst (gsorted V c ca))) (map snd (gsorted V c ca)) = l).
      { unfold l. rewrite map_map, combine_map_map. apply map_ext_in. intros p Hp'.
        destruct (key_of_sorted' c ca Hc p Hp') as [ix [Hix E]]. fold sh in Hix, E.
        rewrite E, (unkey_ckey sh ca Hca ix Hix). unfold c_order.
        pose proof (kernel_head c ca Hok Hca Hnd ix Hix) as Hh. fold sh in Hh. rewrite Hh.
        rewrite ravel_k_spec; [reflexivity| |apply in_range_length; exact Hix].
        apply nonempty_of_len. apply in_range_length in Hix. rewrite Hix. unfold sh. lia. }
      rewrite Hcl.
      assert (Hsorted : stable_sort l = combine (map (ravel sh) (c_coords c)) (c_data c)).
      { assert (Hl : Permutation l (combine (map (ravel sh) (c_coords c)) (c_data c))).
        { pose proof (E3_perm V c ca Hc Hok Hca Hnd) as HE.
          apply (Permutation_map (fun e : entry => (ravel sh (fst e), snd e))) in HE.
          rewrite map_map in HE. cbn [fst snd] in HE. rewrite combine_map_l. exact HE. }
        assert (Hkeys : StronglySorted Z.lt (map (ravel sh) (c_coords c))).
        { apply (SS_map_gen Z.lt lex_lt); [exact Hs|]. intros a b Ha Hb Hab. apply (ravel_lex sh); auto. }
        apply stable_sort_unique.
        - exact Hl.
        - apply SS_map_kle. rewrite map_fst_combine by (rewrite map_length; lia).
          apply SS_lt_le. exact Hkeys.
        - eapply Permutation_NoDup; [apply Permutation_map, Permutation_sym, Hl|].
          rewrite map_fst_combine by (rewrite map_length; lia).
          apply SS_lt_NoDup. exact Hkeys. }
      rewrite Hsorted.
      rewrite map_fst_combine by (rewrite map_length; lia).
      assert (Hsnd : map snd (combine (map (ravel sh) (c_coords c)) (c_data c)) = c_data c).
      { clear -Hlen. revert Hlen. generalize (c_data c). induction (c_coords c) as [|k ks IH]; intros [|v vs] Hl;
          simpl in *; try discriminate; [reflexivity|]. f_equal. apply IH. lia. }
      rewrite Hsnd.
      unfold gcxs_from_coo. change (c_shape c') with [n]. cbv iota.
      unfold c'. rewrite (data_of_reshaped c [n] Hc), (coords_of_reshaped c [n] Hc). rewrite map_map.
      f_equal. apply map_ext_in. intros ix Hix. fold sh. rewrite (rphi_1d sh n ix (Hr _ Hix) Hsz). reflexivity.
    Qed.
  End ReshapeNd1.

  Lemma filter_all_id {A} (f : A -> bool) l : forallb f l = true -> filter f l = l.
  Proof.
    induction l as [|a l IH]; simpl; [reflexivity|]. intros H. apply andb_true_iff in H. destruct H as [Ha Hl].
    rewrite Ha. f_equal. auto.
  Qed.

  (* ---- 1-d -> n-d: _1d_reshape / _linearize *)
  Section Reshape1Nd.
    Variable c : coo V.
    Variable ca0 ca' : list Z.
    Variable d : Z.
    Variable sh' : shape.
    Hypothesis Hc : canonical V c.
    Hypothesis Hsh : c_shape c = [d].
    Hypothesis Hok' : shape_ok sh'.
    Hypothesis Hsz : size sh' = size (c_shape c).
    Hypothesis Hca' : caxes_okb (Z.of_nat (length sh')) ca' = true.
    Hypothesis Hnd' : (2 <= length sh')%nat.

    Let c' := reshaped c sh'.

    Theorem gcxs_reshape_1_nd_repr : gcxs_reshape_1_nd (gcxs_from_coo c ca0) sh' ca' = gcxs_from_coo c' ca'.
    Proof.
      pose proof (reshaped_canonical c sh' Hc Hok' Hsz) as Hc'. fold c' in Hc'.
      pose proof Hc as [Hr [Hs Hlen]].
      destruct (coords_1d V c d Hc Hsh) as [H1 [H2 H3]].
      set (inds := map (fun ix => znth ix 0 0) (c_coords c)) in *.
      assert (Hg : gcxs_from_coo c ca0 = mkGCXS [d] [] (c_data c) inds [] (c_fill c)).
      { unfold gcxs_from_coo. rewrite Hsh. reflexivity. }
      rewrite Hg. unfold gcxs_reshape_1_nd. cbn [g_indices g_data g_fill].
      assert (Hsize : size sh' = d) by (rewrite Hsz, Hsh; simpl; lia).
      assert (Hkept : filter (fun iv : Z * V => fst iv <? size sh') (combine inds (c_data c)) = combine inds (c_data c)).
      { apply filter_all_id. apply forallb_forall. intros [i v] Hin. apply in_combine_l in Hin. cbn [fst].
        rewrite Forall_forall in H2. specialize (H2 _ Hin). apply Z.ltb_lt. lia. }
      rewrite Hkept. unfold s_linearize_call, linearize_all.
      assert (Hli : length inds = length (c_data c)) by (unfold inds; rewrite map_length; symmetry; exact Hlen).
      rewrite (map_fst_combine inds (c_data c) Hli).
      set (K := fun i : Z => ckey sh' ca' (unravel sh' i)).
      set (l := map (fun iv : Z * V => (K (fst iv), snd iv)) (combine inds (c_data c))).
      assert (Hconv : map (fun i => lin_coord i sh' (axis_order (zlen sh') ca') (reordered_shape sh' ca')
                                          [row_size sh' ca'; col_size sh' ca']) inds
                      = map (fun q => (fst q, U2 (row_size sh' ca') (col_size sh' ca') (fst q))) l).
      { unfold l. rewrite map_map. cbn [fst].
        rewrite <- (map_fst_combine inds (c_data c) Hli) at 1. rewrite map_map.
        apply map_ext_in. intros [i v] Hin. cbn [fst]. apply in_combine_l in Hin.
        rewrite Forall_forall in H2. specialize (H2 _ Hin).
        unfold lin_coord, K.
        rewrite (unravel_k_spec sh' i); [|apply nonempty_of_len; lia|exact Hok'|lia].
        assert (Hy : in_range sh' (unravel sh' i)) by (apply unravel_in_range; [exact Hok'|lia]).
        destruct (kernel_tail c' ca' Hok' Hca' Hnd' (unravel sh' i) Hy) as [E1 E2].
        change (c_shape c') with sh' in E1, E2. unfold zlen. rewrite E1, E2. reflexivity. }
      rewrite Hconv.
      assert (Hsnd : map snd (combine inds (c_data c)) = map snd l) by (unfold l; rewrite map_map; reflexivity).
      rewrite Hsnd.
      change sh' with (c_shape c') at 1. change (c_fill c) with (c_fill c').
      change (row_size sh' ca') with (row_size (c_shape c') ca'). change (col_size sh' ca') with (col_size (c_shape c') ca').
      apply (assemble_from_coo c' ca' Hok' Hca' Hnd').
      unfold gsorted. f_equal. unfold c'. rewrite (data_of_reshaped c sh' Hc), (coords_of_reshaped c sh' Hc).
      unfold l. change (c_shape (reshaped c sh')) with sh'. rewrite map_map.
      unfold inds. rewrite combine_map_l, combine_map_l, map_map. apply map_ext_in. intros [ix v] Hin. cbn [fst snd].
      f_equal. unfold K. f_equal. apply in_combine_l in Hin.
      rewrite Forall_forall in Hr. specialize (Hr _ Hin). rewrite Hsh in Hr.
      destruct ix as [|i [|? ?]]; simpl in Hr; try tauto.
      unfold rphi. rewrite Hsh. cbn [ravel size fold_right znth nth Z.to_nat].
      replace (i * 1 + 0) with i by lia. symmetry. apply unravel_strided_eq; [exact Hok'|lia].
    Qed.
  End Reshape1Nd.

  (* ================================================================ GCXS.reshape *)
  Lemma gcxs_reshape_shape_eq sh new : shape_ok sh -> gcxs_reshape_shape sh new = coo_reshape_shape sh new.
  Proof.
    intros Hok. unfold gcxs_reshape_shape, coo_reshape_shape.
    change g_gcxs_reshape_infer with g_reshape_infer.
    destruct (if existsb (fun d => d =? -1) new then _ else Ok new) as [n'|e]; simpl; [|reflexivity].
    destruct (idx_eqb sh n') eqn:E; [|reflexivity].
    apply idx_eqb_eq in E. subst n'. rewrite Z.eqb_refl. simpl.
    apply shape_ok_existsb in Hok. rewrite Hok. reflexivity.
  Qed.

  Lemma coo_reshape_shape_self sh : shape_ok sh -> coo_reshape_shape sh sh = Ok sh.
  Proof.
    intros Hok. unfold coo_reshape_shape.
    assert (Hn : existsb (fun d => d =? -1) sh = false).
    { apply shape_ok_existsb in Hok. clear -Hok. induction sh as [|d l IH]; simpl in *; [reflexivity|].
      apply orb_false_iff in Hok. destruct Hok as [Hd Hl]. rewrite (IH Hl).
      destruct (Z.eqb_spec d (-1)); [lia|reflexivity]. }
    rewrite Hn. simpl. rewrite Z.eqb_refl. simpl. apply shape_ok_existsb in Hok. rewrite Hok. reflexivity.
  Qed.

  Lemma reshaped_same (c : coo V) : canonical V c -> shape_ok (c_shape c) -> reshaped c (c_shape c) = c.
  Proof.
    intros Hc Hok. pose proof Hc as [Hr [_ Hl]]. rewrite Forall_forall in Hr.
    unfold reshaped, ShapeOps.coo_make.
    assert (Hm : map_coords (rphi (c_shape c) (c_shape c)) c = entries c).
    { unfold map_coords. rewrite <- (map_id (entries c)) at 2. apply map_ext_in. intros [k v] Hin. simpl. f_equal.
      assert (Hk : in_range (c_shape c) k) by (apply Hr; eapply in_entries_coord; eauto).
      unfold rphi. rewrite (reshape_f_eq (c_shape c) (c_shape c) Hok eq_refl k Hk). apply unravel_ravel. exact Hk. }
    rewrite Hm. unfold entries. rewrite combine_map_fst by lia.
    assert (Hs : map snd (combine (c_coords c) (c_data c)) = c_data c).
    { clear -Hl. revert Hl. generalize (c_data c). induction (c_coords c) as [|k ks IH]; intros [|v vs] Hl;
        simpl in *; try discriminate; [reflexivity|]. f_equal. apply IH. lia. }
    rewrite Hs. destruct c; reflexivity.
  Qed.

  Lemma default_caxes_ok sh' : axes_ok sh' (default_caxes sh').
  Proof.
    unfold axes_ok, default_caxes. destruct (Nat.leb_spec 2 (length sh')) as [H|H]; [right|left; lia].
    apply argmin_caxes_ok. exact H.
  Qed.

  Theorem gcxs_reshape_repr_proof (c : coo V) ca new :
    canonical V c -> shape_ok (c_shape c) -> axes_ok (c_shape c) ca ->
    (forall c', ShapeOps.coo_reshape c new = Ok c' ->
       exists ca', gcxs_reshape veqb add (gcxs_from_coo c ca) new = Some (Ok (gcxs_from_coo c' ca')) /\ axes_ok (c_shape c') ca') /\
    (forall e, ShapeOps.coo_reshape c new = Raise e -> gcxs_reshape veqb add (gcxs_from_coo c ca) new = Some (Raise e)).
  Proof.
    intros Hc Hok Hax. unfold gcxs_reshape. rewrite g_shape_from_coo, (gcxs_reshape_shape_eq _ _ Hok).
    rewrite coo_reshape_cases. destruct (idx_eqb (c_shape c) new) eqn:Eid.
    - apply idx_eqb_eq in Eid. subst new. rewrite (coo_reshape_shape_self _ Hok), idx_eqb_refl.
      split; [|intros e H; discriminate]. intros c' H. inversion H; subst. exists ca. auto.
    - destruct (coo_reshape_shape (c_shape c) new) as [sh'|e] eqn:Es; [|split; [intros c' H; discriminate|intros e' H; congruence]].
      split; [|intros e' H; discriminate].
      intros c' H. inversion H as [Hc'']. clear H. try subst c'.
      fold (rphi (c_shape c) sh'). fold (reshaped c sh').
      destruct (coo_reshape_shape_facts V c new sh' Es) as [Hok' Hsz].
      destruct (idx_eqb (c_shape c) sh') eqn:Esame.
      + apply idx_eqb_eq in Esame. subst sh'. rewrite (reshaped_same c Hc Hok). exists ca. auto.
      + (* the detour through COO for a 0-d source or target *)
        assert (Hvia : via_coo veqb add (gcxs_from_coo c ca) (fun c0 => ShapeOps.coo_reshape c0 sh')
                       = Ok (gcxs_from_coo (reshaped c sh') (default_caxes sh'))).
        { unfold via_coo. rewrite (tocoo_from_coo_proof V veqb add c ca Hc Hok Hax).
          rewrite coo_reshape_cases, Esame.
          assert (Hs' : coo_reshape_shape (c_shape c) sh' = Ok sh').
          { rewrite (reshape_minus1_spec_proof _ _ Hok). apply np_reshape_target_same_size; assumption. }
          rewrite Hs'. reflexivity. }
        remember (c_shape c) as sh0 eqn:Esh0 in |- *.
        destruct sh0 as [|d [|d2 t]].
        * (* 0-d source *)
          exists (default_caxes sh'). split; [|apply default_caxes_ok].
          destruct sh'; [rewrite <- Esh0 in Esame; discriminate|]. rewrite Hvia. reflexivity.
        * (* 1-d source *)
          symmetry in Esh0.
          destruct sh' as [|e1 [|e2 t']].
          -- exists (default_caxes []). split; [rewrite Hvia; reflexivity|apply default_caxes_ok].
          -- exfalso. rewrite Esh0 in Hsz, Esame. simpl in Hsz. assert (e1 = d) by lia. subst.
             simpl in Esame. rewrite Z.eqb_refl in Esame. discriminate.
          -- exists [argmin (e1 :: e2 :: t')]. split.
             ++ f_equal. f_equal.
                apply (gcxs_reshape_1_nd_repr c ca [argmin (e1 :: e2 :: t')] d (e1 :: e2 :: t') Hc Esh0 Hok' Hsz);
                  [apply argmin_caxes_ok; simpl; lia|simpl; lia].
             ++ right. apply argmin_caxes_ok. simpl; lia.
        * (* n-d source *)
          assert (Hnd : (2 <= length (c_shape c))%nat) by (rewrite <- Esh0; simpl; lia).
          destruct Hax as [Hax|Hca]; [lia|].
          destruct sh' as [|e1 [|e2 t']].
          -- exists (default_caxes []). split; [rewrite Hvia; reflexivity|apply default_caxes_ok].
          -- exists []. split; [|left; simpl; lia]. f_equal. f_equal.
             assert (Hs1 : size (c_shape c) = e1) by (rewrite <- Hsz; simpl; lia).
             apply (gcxs_reshape_nd_1_repr c ca e1 Hc Hok Hca Hnd Hs1).
          -- set (sh' := e1 :: e2 :: t') in *.
             set (ca' := if (length sh' =? length (d :: d2 :: t))%nat then g_caxes (gcxs_from_coo c ca) else [argmin sh']).
             assert (Hca' : caxes_okb (Z.of_nat (length sh')) ca' = true).
             { unfold ca'. destruct (Nat.eqb_spec (length sh') (length (d :: d2 :: t))) as [El|El].
               - rewrite (g_caxes_from_coo c ca Hnd). rewrite El, Esh0. exact Hca.
               - apply argmin_caxes_ok. unfold sh'. simpl; lia. }
             exists ca'. split; [|right; exact Hca'].
             f_equal. f_equal.
             apply (gcxs_reshape_nd_nd_repr c ca ca' sh' Hc Hok Hca Hnd Hok' Hsz Hca'). unfold sh'. simpl; lia.
  Qed.

  (* GCXS.squeeze / broadcast_to: the COO function on tocoo(), recompressed *)
  Theorem gcxs_via_coo_repr_proof (c : coo V) ca (f : coo V -> res (coo V)) :
    canonical V c -> shape_ok (c_shape c) -> axes_ok (c_shape c) ca ->
    via_coo veqb add (gcxs_from_coo c ca) f
    = match f c with Ok c' => Ok (gcxs_from_coo c' (default_caxes (c_shape c'))) | Raise e => Raise e end.
  Proof.
    intros Hc Hok Hax. unfold via_coo. rewrite (tocoo_from_coo_proof V veqb add c ca Hc Hok Hax).
    destruct (f c); reflexivity.
  Qed.

  (* ================================================================ dense meaning and well-formedness *)
  Let dummy_eqb : V -> V -> bool := veqb.
  Let dummy_add : V -> V -> V := add.

  Theorem gcxs_transpose_den_proof (c : coo V) ca axes r :
    canonical V c -> shape_ok (c_shape c) -> axes_ok (c_shape c) ca ->
    gcxs_transpose (gcxs_from_coo c ca) axes = Ok r ->
    let perm := tr_perm (ndim c) axes in
    tr_valid (ndim c) axes /\
    gcxs_wfb r = true /\
    g_shape r = np_transpose_shape (c_shape c) perm /\ g_fill r = c_fill c /\
    forall ix, in_range (g_shape r) ix -> gden r ix = np_transpose perm (gden (gcxs_from_coo c ca)) ix.
  Proof.
    intros Hc Hok Hax Hr perm.
    destruct (gcxs_transpose_repr_proof c ca axes Hc Hok Hax) as [HOk HRaise].
    destruct (ShapeOps.coo_transpose c axes) as [c'|e] eqn:Ec; [|rewrite (HRaise e eq_refl) in Hr; discriminate].
    destruct (HOk c' eq_refl) as [ca' [Hg Hax']]. rewrite Hg in Hr. inversion Hr; subst r. clear Hr.
    destruct (transpose_den_proof V c Hc axes c' Ec) as [Hv [Hs [Hf Hd]]]. fold perm in Hs, Hd.
    destruct (transpose_canonical_proof V dummy_eqb c Hc axes c' Ec) as [Hc' _].
    assert (Hok' : shape_ok (c_shape c')) by (rewrite Hs; apply (shape_ok_gather (c_shape c) perm); exact Hok).
    split; [exact Hv|]. split; [apply (gcxs_from_coo_wf_proof V dummy_eqb dummy_add); assumption|].
    rewrite g_shape_from_coo, g_fill_from_coo. split; [exact Hs|]. split; [exact Hf|].
    intros ix Hi. rewrite (gcxs_from_coo_den_proof V dummy_eqb dummy_add c' ca' ix Hc' Hok' Hax').
    rewrite (Hd ix Hi). unfold np_transpose.
    rewrite (gcxs_from_coo_den_proof V dummy_eqb dummy_add c ca _ Hc Hok Hax). reflexivity.
  Qed.

  Theorem gcxs_reshape_den_proof (c : coo V) ca new r :
    canonical V c -> shape_ok (c_shape c) -> axes_ok (c_shape c) ca ->
    gcxs_reshape veqb add (gcxs_from_coo c ca) new = Some (Ok r) ->
    gcxs_wfb r = true /\
    size (g_shape r) = size (c_shape c) /\ g_fill r = c_fill c /\
    np_reshape_target (c_shape c) new = Ok (g_shape r) /\
    forall ix, in_range (g_shape r) ix ->
      gden r ix = np_reshape (c_shape c) (g_shape r) (gden (gcxs_from_coo c ca)) ix.
  Proof.
    intros Hc Hok Hax Hr.
    destruct (gcxs_reshape_repr_proof c ca new Hc Hok Hax) as [HOk HRaise].
    destruct (ShapeOps.coo_reshape c new) as [c'|e] eqn:Ec; [|rewrite (HRaise e eq_refl) in Hr; discriminate].
    destruct (reshape_den_proof V c Hc Hok new c' Ec) as [Hok' [Hsz [Hf [Ht Hd]]]].
    destruct (reshape_canonical_proof V dummy_eqb c Hc Hok new c' Ec) as [Hc' _].
    destruct (HOk c' eq_refl) as [ca' [Hg Hax']]. rewrite Hg in Hr. inversion Hr; subst r. clear Hr.
    split; [apply (gcxs_from_coo_wf_proof V dummy_eqb dummy_add); assumption|].
    rewrite g_shape_from_coo, g_fill_from_coo. split; [exact Hsz|]. split; [exact Hf|]. split; [exact Ht|].
    intros ix Hi. rewrite (gcxs_from_coo_den_proof V dummy_eqb dummy_add c' ca' ix Hc' Hok' Hax').
    rewrite (Hd ix Hi). unfold np_reshape.
    rewrite (gcxs_from_coo_den_proof V dummy_eqb dummy_add c ca _ Hc Hok Hax). reflexivity.
  Qed.
End Repr.

(* non-vacuity: a 3-d array compressed along axis 1 *)
Example gcxs_example :
  let c := mkCOO [2; 2; 3] [[0; 0; 1]; [0; 1; 2]; [1; 0; 0]; [1; 1; 1]] [4; 5; 6; 7] 0 in
  let g := gcxs_from_coo c [1] in
  canonical Z c /\ gcxs_wfb g = true /\
  gcxs_transpose g (Some [2; 0; 1]) = Ok (gcxs_from_coo (mkCOO [3; 2; 2] [[0; 1; 0]; [1; 0; 0]; [1; 1; 1]; [2; 0; 1]] [6; 4; 7; 5] 0) [1]) /\
  gcxs_reshape Z.eqb Z.add g [3; -1] = Some (Ok (gcxs_from_coo (mkCOO [3; 4] [[0; 1]; [1; 1]; [1; 2]; [2; 2]] [4; 5; 6; 7] 0) [0])) /\
  gcxs_flatten Z.eqb Z.add g = Some (Ok (gcxs_from_coo (mkCOO [12] [[1]; [5]; [6]; [10]] [4; 5; 6; 7] 0) [])).
Proof. cbv zeta. split; [apply canonical_of_b; reflexivity|]. repeat split; vm_compute; reflexivity. Qed.
