(* Proofs/SparseOpsP.v — C16: the sparse-only reference of Model/SparseOps.v
   (a) builds no list longer than a small multiple of the numbers of stored elements
       ([mem_bound_*], independent of the logical size), and
   (b) computes the NumPy meaning of every operation ([*_sparse_den]), for all shapes in
       unbounded Z — so it is a legitimate oracle for arrays with 10^18 logical elements. *)
From Coq Require Import ZArith List Bool Lia Sorting.Sorted.
From Verif Require Import Shape COO COOP SparseOps.
Import ListNotations.
Open Scope Z_scope.

(* ================================================================= generic list facts *)

Lemma combine_fst_snd {A B} (l : list (A * B)) : combine (map fst l) (map snd l) = l.
Proof. induction l as [|[a b] r IH]; simpl; congruence. Qed.

Lemma entries_of_entries sh es fill : entries (of_entries sh es fill) = es.
Proof. apply combine_fst_snd. Qed.

Lemma zlen_nonneg {A} (l : list A) : 0 <= zlen l.
Proof. unfold zlen. lia. Qed.

Lemma zlen_map {A B} (f : A -> B) l : zlen (map f l) = zlen l.
Proof. unfold zlen. rewrite map_length. reflexivity. Qed.

Lemma zlen_app {A} (l1 l2 : list A) : zlen (l1 ++ l2) = zlen l1 + zlen l2.
Proof. unfold zlen. rewrite app_length. lia. Qed.

Lemma zlen_filter {A} (p : A -> bool) l : zlen (filter p l) <= zlen l.
Proof. unfold zlen. induction l as [|a r IH]; simpl; [lia|]. destruct (p a); simpl; lia. Qed.

Lemma zlen_entries (x : coo Z) : zlen (entries x) <= nnz x.
Proof.
  unfold zlen, nnz, entries. rewrite combine_length. lia.
Qed.

Lemma entries_keys_incl (x : coo Z) k : In k (map fst (entries x)) -> In k (c_coords x).
Proof.
  unfold entries. intros H. apply in_map_iff in H. destruct H as [[a b] [<- H]].
  apply in_combine_l in H. exact H.
Qed.

(* cost: maximum of a trace *)
Lemma max_le_all (l : list Z) (b : Z) : 0 <= b -> Forall (fun v => v <= b) l -> fold_right Z.max 0 l <= b.
Proof. intros Hb H. induction H; simpl; lia. Qed.

(* ================================================================= lookup algebra *)

Lemma lookup_app (l1 l2 : list ent) ix :
  lookup (l1 ++ l2) ix = match lookup l2 ix with Some w => Some w | None => lookup l1 ix end.
Proof.
  induction l1 as [|[k v] r IH]; simpl.
  - destruct (lookup l2 ix); reflexivity.
  - rewrite IH. destruct (lookup l2 ix); [reflexivity|]. reflexivity.
Qed.

Lemma lookup_filter (p : idx -> bool) (es : list ent) ix :
  lookup (filter (fun kv => p (fst kv)) es) ix = if p ix then lookup es ix else None.
Proof.
  induction es as [|[k v] r IH]; simpl.
  - destruct (p ix); reflexivity.
  - destruct (p k) eqn:Ek; simpl; rewrite IH.
    + destruct (p ix) eqn:Ei.
      * reflexivity.
      * destruct (idx_eqb k ix) eqn:E; [|reflexivity]. apply idx_eqb_eq in E. congruence.
    + destruct (p ix) eqn:Ei; [|reflexivity].
      destruct (lookup r ix); [reflexivity|].
      destruct (idx_eqb k ix) eqn:E; [|reflexivity]. apply idx_eqb_eq in E. congruence.
Qed.

(* values recomputed from (key, value) *)
Lemma lookup_valmap (F : idx -> Z -> Z) (es : list ent) ix :
  lookup (map (fun kv => (fst kv, F (fst kv) (snd kv))) es) ix = option_map (F ix) (lookup es ix).
Proof.
  induction es as [|[k v] r IH]; simpl; [reflexivity|].
  rewrite IH. destruct (lookup r ix); simpl; [reflexivity|].
  destruct (idx_eqb k ix) eqn:E; [|reflexivity]. apply idx_eqb_eq in E. subst. reflexivity.
Qed.

(* keys moved by g, read back through h *)
Lemma lookup_keymap (g : idx -> idx) (es : list ent) ix hx :
  (forall k, In k (map fst es) -> (g k = ix <-> k = hx)) ->
  lookup (map (fun kv => (g (fst kv), snd kv)) es) ix = lookup es hx.
Proof.
  induction es as [|[k v] r IH]; simpl; intros H; [reflexivity|].
  rewrite IH by (intros k' Hk'; apply H; auto).
  destruct (lookup r hx); [reflexivity|].
  specialize (H k (or_introl eq_refl)).
  destruct (idx_eqb (g k) ix) eqn:E1, (idx_eqb k hx) eqn:E2; try reflexivity.
  - apply idx_eqb_eq in E1. apply H in E1. apply idx_eqb_eq in E1. congruence.
  - apply idx_eqb_eq in E2. apply H in E2. apply idx_eqb_eq in E2. congruence.
Qed.

(* a table key |-> F key *)
Lemma lookup_table (F : idx -> Z) (ks : list idx) ix :
  lookup (map (fun k => (k, F k)) ks) ix = if memb ix ks then Some (F ix) else None.
Proof.
  unfold memb. induction ks as [|k r IH]; simpl; [reflexivity|].
  rewrite IH. destruct (existsb (idx_eqb ix) r) eqn:E.
  - rewrite orb_true_r. reflexivity.
  - rewrite orb_false_r. destruct (idx_eqb k ix) eqn:E1.
    + apply idx_eqb_eq in E1. subst. rewrite idx_eqb_refl. reflexivity.
    + destruct (idx_eqb ix k) eqn:E2; [|reflexivity]. apply idx_eqb_eq in E2. subst.
      rewrite idx_eqb_refl in E1. discriminate.
Qed.

Lemma memb_In k ks : memb k ks = true <-> In k ks.
Proof.
  unfold memb. rewrite existsb_exists. split.
  - intros [x [Hx E]]. apply idx_eqb_eq in E. subst. exact Hx.
  - intros H. exists k. split; [exact H|apply idx_eqb_refl].
Qed.

Lemma lookup_In_Some (es : list ent) ix : In ix (map fst es) -> exists v, lookup es ix = Some v.
Proof.
  induction es as [|[k v] r IH]; simpl; [tauto|]. intros H.
  destruct (lookup r ix) as [w|] eqn:El; [exists w; reflexivity|].
  destruct H as [H|H].
  - subst. rewrite idx_eqb_refl. exists v. reflexivity.
  - destruct (IH H) as [w Hw]. discriminate.
Qed.

Lemma lookup_None_iff (es : list ent) ix : lookup es ix = None <-> ~ In ix (map fst es).
Proof.
  split.
  - intros H Hin. destruct (lookup_In_Some _ _ Hin) as [v Hv]. congruence.
  - apply lookup_notin.
Qed.

Lemma lookup_Some_In (es : list ent) ix v : lookup es ix = Some v -> In ix (map fst es).
Proof.
  intros H. destruct (in_dec (list_eq_dec Z.eq_dec) ix (map fst es)) as [Hi|Hn]; [exact Hi|].
  apply lookup_None_iff in Hn. congruence.
Qed.

(* ================================================================= element-wise *)

Theorem map_sparse_den_proof (f : Z -> Z) (x : coo Z) ix :
  den (sp_map f x) ix = f (den x ix).
Proof.
  unfold sp_map, sp_map_tr, den. cbn [fst c_fill of_entries]. rewrite entries_of_entries.
  rewrite (lookup_valmap (fun _ v => f v)). destruct (lookup (entries x) ix); reflexivity.
Qed.

Theorem mem_bound_map_proof (f : Z -> Z) (x : coo Z) : cost_of (sp_map_tr f x) <= nnz x.
Proof.
  unfold cost_of, sp_map_tr. cbn [snd]. pose proof (zlen_entries x). pose proof (zlen_nonneg (entries x)).
  apply max_le_all; [lia|]. repeat constructor; rewrite ?zlen_map; lia.
Qed.

Theorem zip_sparse_den_proof (f : Z -> Z -> Z) (x y : coo Z) ix :
  den (sp_zip f x y) ix = f (den x ix) (den y ix).
Proof.
  unfold sp_zip, sp_zip_tr. cbn [fst]. unfold den at 1. cbn [c_fill of_entries]. rewrite entries_of_entries.
  rewrite lookup_app.
  rewrite (lookup_valmap (fun k v => f v (den y k))).
  unfold den at 2. destruct (lookup (entries x) ix) as [v|] eqn:Ex; cbn [option_map]; [reflexivity|].
  rewrite (lookup_valmap (fun _ w => f (c_fill x) w)).
  rewrite (lookup_filter (fun k => negb (storedb (entries x) k))).
  unfold storedb. rewrite Ex. cbn [negb]. unfold den. destruct (lookup (entries y) ix); reflexivity.
Qed.

Theorem mem_bound_zip_proof (f : Z -> Z -> Z) (x y : coo Z) : cost_of (sp_zip_tr f x y) <= nnz x + nnz y.
Proof.
  unfold cost_of, sp_zip_tr. cbn [snd].
  pose proof (zlen_entries x). pose proof (zlen_entries y).
  pose proof (zlen_nonneg (entries x)). pose proof (zlen_nonneg (entries y)).
  set (yo := filter _ (entries y)).
  assert (zlen yo <= zlen (entries y)) by apply zlen_filter.
  assert (0 <= zlen yo) by apply zlen_nonneg.
  apply max_le_all; [lia|]. repeat constructor; rewrite ?zlen_app, ?zlen_map; lia.
Qed.

Theorem zipl_sparse_den_proof (f : Z -> Z -> Z) (h : idx -> idx) (x y : coo Z) ix :
  (forall w, f (c_fill x) w = f (c_fill x) (c_fill y)) ->
  den (sp_zipl f h x y) ix = f (den x ix) (den y (h ix)).
Proof.
  intros Hann. unfold sp_zipl, sp_zipl_tr. cbn [fst]. unfold den at 1. cbn [c_fill of_entries].
  rewrite entries_of_entries. rewrite (lookup_valmap (fun k v => f v (den y (h k)))).
  unfold den at 2. destruct (lookup (entries x) ix); cbn [option_map]; [reflexivity|].
  symmetry. apply Hann.
Qed.

Theorem mem_bound_zipl_proof f h (x y : coo Z) : cost_of (sp_zipl_tr f h x y) <= nnz x + nnz y.
Proof.
  unfold cost_of, sp_zipl_tr. cbn [snd].
  pose proof (zlen_entries x). pose proof (zlen_entries y).
  pose proof (zlen_nonneg (entries x)). pose proof (zlen_nonneg (entries y)).
  apply max_le_all; [lia|]. repeat constructor; rewrite ?zlen_map; lia.
Qed.

(* ================================================================= coordinate maps *)

Lemma remap_den_bwd sh' p g (x : coo Z) ix hx :
  (forall k, In k (c_coords x) -> p k = true -> (g k = ix <-> k = hx)) ->
  p hx = true ->
  den (sp_remap sh' p g x) ix = den x hx.
Proof.
  intros Hg Hp. unfold sp_remap, sp_remap_tr. cbn [fst]. unfold den. cbn [c_fill of_entries].
  rewrite entries_of_entries.
  rewrite (lookup_keymap g _ ix hx).
  - rewrite (lookup_filter p). rewrite Hp. reflexivity.
  - intros k Hk. apply in_map_iff in Hk. destruct Hk as [[k' v] [<- Hk]]. apply filter_In in Hk.
    destruct Hk as [Hin Hpk]. cbn [fst] in *. apply Hg; [|exact Hpk].
    apply entries_keys_incl. apply in_map_iff. exists (k', v). auto.
Qed.

Lemma mem_bound_remap sh' p g (x : coo Z) : cost_of (sp_remap_tr sh' p g x) <= nnz x.
Proof.
  unfold cost_of, sp_remap_tr. cbn [snd]. pose proof (zlen_entries x). pose proof (zlen_nonneg (entries x)).
  set (a := filter _ (entries x)). assert (zlen a <= zlen (entries x)) by apply zlen_filter.
  pose proof (zlen_nonneg a).
  apply max_le_all; [lia|]. repeat constructor; rewrite ?zlen_map; lia.
Qed.

(* ---------------------------------------------------------------- transpose *)

Lemma is_permb_spec perm n : is_permb perm n = true ->
  length perm = n /\ forall a, (a < n)%nat -> In a perm.
Proof.
  unfold is_permb. rewrite andb_true_iff, Nat.eqb_eq, forallb_forall. intros [Hl H]. split; [exact Hl|].
  intros a Ha. specialize (H a). rewrite existsb_exists in H. destruct H as [b [Hb E]].
  - apply in_seq. lia.
  - apply Nat.eqb_eq in E. subst. exact Hb.
Qed.

Lemma permute_inj perm (k k' : idx) :
  (forall a, (a < length k)%nat -> In a perm) -> length k' = length k ->
  permute perm k' = permute perm k -> k' = k.
Proof.
  intros Hall Hlen He. apply (nth_ext _ _ 0 0); [exact Hlen|]. intros a Ha. rewrite Hlen in Ha.
  specialize (Hall a Ha). unfold permute in He.
  apply (proj1 (@map_ext_in_iff _ _ (fun a => nth a k' 0) (fun a => nth a k 0) perm) He). exact Hall.
Qed.

Theorem transpose_sparse_den_proof (perm : list nat) (x : coo Z) (k : idx) :
  is_permb perm (length (c_shape x)) = true ->
  Forall (in_range (c_shape x)) (c_coords x) ->
  in_range (c_shape x) k ->
  den (sp_transpose perm x) (permute perm k) = den x k.
Proof.
  intros Hp Hr Hk. apply is_permb_spec in Hp. destruct Hp as [_ Hall].
  unfold sp_transpose, sp_transpose_tr. apply remap_den_bwd; [|reflexivity].
  intros k' Hin _. rewrite Forall_forall in Hr. specialize (Hr _ Hin).
  apply in_range_length in Hr. apply in_range_length in Hk. split.
  - apply permute_inj; [rewrite Hk; exact Hall|congruence].
  - intros ->. reflexivity.
Qed.

Theorem mem_bound_transpose_proof perm (x : coo Z) : cost_of (sp_transpose_tr perm x) <= nnz x.
Proof. apply mem_bound_remap. Qed.

(* ---------------------------------------------------------------- reshape *)

Theorem reshape_sparse_den_proof (sh' : shape) (x : coo Z) (ix : idx) :
  shape_ok (c_shape x) -> shape_ok sh' -> size sh' = size (c_shape x) ->
  Forall (in_range (c_shape x)) (c_coords x) ->
  in_range sh' ix ->
  den (sp_reshape sh' x) ix = den x (unravel (c_shape x) (ravel sh' ix)).
Proof.
  intros Hok Hok' Hsz Hr Hix. unfold sp_reshape, sp_reshape_tr. apply remap_den_bwd; [|reflexivity].
  intros k Hin _. rewrite Forall_forall in Hr. specialize (Hr _ Hin).
  pose proof (ravel_bounds _ _ Hr) as Hb. pose proof (ravel_bounds _ _ Hix) as Hb'.
  split.
  - intros <-. rewrite ravel_unravel by (auto; lia). symmetry. apply unravel_ravel. exact Hr.
  - intros ->. rewrite ravel_unravel by (auto; lia). apply unravel_ravel. exact Hix.
Qed.

Theorem mem_bound_reshape_proof sh' (x : coo Z) : cost_of (sp_reshape_tr sh' x) <= nnz x.
Proof. apply mem_bound_remap. Qed.

(* ---------------------------------------------------------------- basic indexing *)

Lemma sel_src_match sel ix :
  sel_okb sel = true -> in_range (sel_shape sel) ix -> sel_match sel (sel_src sel ix) = true.
Proof.
  revert ix. induction sel as [|[i|st sp n] s IH]; intros ix Hok Hr; simpl in *.
  - reflexivity.
  - rewrite Z.eqb_refl. simpl. apply IH; assumption.
  - apply andb_true_iff in Hok. destruct Hok as [Hsp Hok]. apply andb_true_iff in Hsp. destruct Hsp as [Hsp _].
    apply negb_true_iff, Z.eqb_neq in Hsp.
    destruct ix as [|j ix']; simpl in Hr; [tauto|]. destruct Hr as [Hj Hr].
    replace (st + sp * j - st) with (j * sp) by ring.
    rewrite Z.mod_mul, Z.div_mul by assumption. rewrite Z.eqb_refl. simpl.
    rewrite (proj2 (Z.leb_le 0 j)) by lia. rewrite (proj2 (Z.ltb_lt j n)) by lia. simpl.
    apply IH; assumption.
Qed.

Lemma sel_map_iff sel k ix :
  sel_okb sel = true -> sel_match sel k = true -> in_range (sel_shape sel) ix ->
  (sel_map sel k = ix <-> k = sel_src sel ix).
Proof.
  revert k ix. induction sel as [|[i|st sp n] s IH]; intros k ix Hok Hm Hr; simpl in *.
  - destruct k; [|discriminate]. destruct ix; simpl in Hr; tauto.
  - destruct k as [|c k']; [discriminate|]. apply andb_true_iff in Hm. destruct Hm as [Hc Hm].
    apply Z.eqb_eq in Hc. subst c. specialize (IH k' ix Hok Hm Hr). split.
    + intros H. f_equal. apply IH. exact H.
    + intros H. injection H as H1. apply IH. exact H1.
  - apply andb_true_iff in Hok. destruct Hok as [Hsp Hok]. apply andb_true_iff in Hsp. destruct Hsp as [Hsp _].
    apply negb_true_iff, Z.eqb_neq in Hsp.
    destruct k as [|c k']; [discriminate|].
    rewrite !andb_true_iff in Hm. destruct Hm as [[[Hmod _] _] Hm]. apply Z.eqb_eq in Hmod.
    destruct ix as [|j ix']; simpl in Hr; [tauto|]. destruct Hr as [Hj Hr].
    specialize (IH k' ix' Hok Hm Hr).
    assert (Hc : (c - st) / sp = j <-> c = st + sp * j).
    { split.
      - intros <-. pose proof (proj2 (Z.div_exact (c - st) sp Hsp) Hmod). lia.
      - intros ->. replace (st + sp * j - st) with (j * sp) by ring. apply Z.div_mul. assumption. }
    split.
    + intros H. injection H as H1 H2. f_equal; [apply Hc; exact H1|apply IH; exact H2].
    + intros H. injection H as H1 H2. f_equal; [apply Hc; exact H1|apply IH; exact H2].
Qed.

Theorem getitem_sparse_den_proof (sel : list asel) (x : coo Z) (ix : idx) :
  sel_okb sel = true -> in_range (sel_shape sel) ix ->
  den (sp_getitem sel x) ix = den x (sel_src sel ix).
Proof.
  intros Hok Hr. unfold sp_getitem, sp_getitem_tr. apply remap_den_bwd.
  - intros k _ Hm. apply sel_map_iff; assumption.
  - apply sel_src_match; assumption.
Qed.

Theorem mem_bound_getitem_proof sel (x : coo Z) : cost_of (sp_getitem_tr sel x) <= nnz x.
Proof. apply mem_bound_remap. Qed.

(* ---------------------------------------------------------------- concatenate *)

Lemma shift_axis_nil a off : shift_axis a off [] = [].
Proof. unfold shift_axis. destruct a; reflexivity. Qed.

Lemma shift_axis_0 off c r : shift_axis 0 off (c :: r) = (c + off) :: r.
Proof. reflexivity. Qed.

Lemma shift_axis_S a off c r : shift_axis (S a) off (c :: r) = c :: shift_axis a off r.
Proof. reflexivity. Qed.

Lemma shift_axis_inv a off k : shift_axis a (- off) (shift_axis a off k) = k.
Proof.
  revert k. induction a as [|a IH]; intros [|c r]; rewrite ?shift_axis_nil; try reflexivity.
  - rewrite !shift_axis_0. f_equal. lia.
  - rewrite !shift_axis_S. f_equal. apply IH.
Qed.

Lemma shift_axis_nth a off k : (a < length k)%nat -> nth a (shift_axis a off k) 0 = nth a k 0 + off.
Proof.
  revert k. induction a as [|a IH]; intros [|c r] H; simpl in H; try lia.
  - reflexivity.
  - rewrite shift_axis_S. simpl. apply IH. lia.
Qed.

Lemma shift_axis_length a off k : length (shift_axis a off k) = length k.
Proof.
  revert k. induction a as [|a IH]; intros [|c r]; rewrite ?shift_axis_nil; try reflexivity.
  rewrite shift_axis_S. simpl. f_equal. apply IH.
Qed.

Lemma in_range_nth sh k a : in_range sh k -> (a < length sh)%nat -> 0 <= nth a k 0 < nth a sh 0.
Proof.
  revert k a. induction sh as [|d sh IH]; intros [|c k] a Hr Ha; simpl in *; try tauto; try lia.
  destruct Hr as [Hc Hr]. destruct a as [|a]; [exact Hc|]. apply IH; [exact Hr|lia].
Qed.

Theorem concat_sparse_den_proof (a : nat) (x y : coo Z) (ix : idx) :
  (a < length (c_shape x))%nat -> length (c_shape y) = length (c_shape x) ->
  Forall (in_range (c_shape x)) (c_coords x) -> Forall (in_range (c_shape y)) (c_coords y) ->
  c_fill y = c_fill x -> length ix = length (c_shape x) ->
  den (sp_concat a x y) ix =
    if nth a ix 0 <? nth a (c_shape x) 0 then den x ix
    else den y (shift_axis a (- nth a (c_shape x) 0) ix).
Proof.
  intros Ha Hly Hrx Hry Hfill Hlix. unfold sp_concat, sp_concat_tr. cbn [fst].
  set (da := nth a (c_shape x) 0). unfold den at 1. cbn [c_fill of_entries]. rewrite entries_of_entries.
  rewrite lookup_app.
  rewrite (lookup_keymap (shift_axis a da) _ ix (shift_axis a (- da) ix)).
  2:{ intros k _. split.
      - intros <-. symmetry. apply shift_axis_inv.
      - intros ->. replace da with (- - da) at 1 by lia. apply shift_axis_inv. }
  rewrite Forall_forall in Hrx, Hry.
  destruct (Z.ltb_spec (nth a ix 0) da) as [Hlt|Hge].
  - rewrite (lookup_notin _ (entries y)); [reflexivity|].
    intros Hin. apply entries_keys_incl in Hin. specialize (Hry _ Hin).
    pose proof (in_range_nth _ _ a Hry ltac:(lia)) as Hb.
    rewrite shift_axis_nth in Hb by lia. lia.
  - unfold den. destruct (lookup (entries y) (shift_axis a (- da) ix)); [reflexivity|].
    rewrite (lookup_notin _ (entries x)); [symmetry; exact Hfill|].
    intros Hin. apply entries_keys_incl in Hin. specialize (Hrx _ Hin).
    pose proof (in_range_nth _ _ a Hrx Ha) as Hb. fold da in Hb. lia.
Qed.

Theorem mem_bound_concat_proof a (x y : coo Z) : cost_of (sp_concat_tr a x y) <= nnz x + nnz y.
Proof.
  unfold cost_of, sp_concat_tr. cbn [snd].
  pose proof (zlen_entries x). pose proof (zlen_entries y).
  pose proof (zlen_nonneg (entries x)). pose proof (zlen_nonneg (entries y)).
  apply max_le_all; [lia|]. repeat constructor; rewrite ?zlen_app, ?zlen_map; lia.
Qed.

Lemma nnz_of_entries sh es fill : nnz (of_entries sh es fill) = zlen es.
Proof. unfold nnz, of_entries, zlen. cbn. rewrite map_length. reflexivity. Qed.

Lemma fold_max_app l1 l2 : fold_right Z.max 0 (l1 ++ l2) = Z.max (fold_right Z.max 0 l1) (fold_right Z.max 0 l2).
Proof. induction l1; simpl; [|rewrite IHl1; lia]. assert (0 <= fold_right Z.max 0 l2) by (induction l2; simpl; lia). lia. Qed.

Lemma nnz_remap sh' p g (x : coo Z) : nnz (sp_remap sh' p g x) <= nnz x.
Proof.
  unfold sp_remap, sp_remap_tr. cbn [fst]. rewrite nnz_of_entries, zlen_map.
  etransitivity; [apply zlen_filter|apply zlen_entries].
Qed.

Theorem mem_bound_stack_proof a (x y : coo Z) : cost_of (sp_stack_tr a x y) <= nnz x + nnz y.
Proof.
  unfold cost_of, sp_stack_tr. cbn [snd]. rewrite !fold_max_app.
  pose proof (mem_bound_reshape_proof (insert_at a 1 (c_shape x)) x) as H1.
  pose proof (mem_bound_reshape_proof (insert_at a 1 (c_shape y)) y) as H2.
  pose proof (mem_bound_concat_proof a (fst (sp_reshape_tr (insert_at a 1 (c_shape x)) x))
                                       (fst (sp_reshape_tr (insert_at a 1 (c_shape y)) y))) as H3.
  pose proof (nnz_remap (insert_at a 1 (c_shape x)) (fun _ => true) (fun k => unravel (insert_at a 1 (c_shape x)) (ravel (c_shape x) k)) x) as N1.
  pose proof (nnz_remap (insert_at a 1 (c_shape y)) (fun _ => true) (fun k => unravel (insert_at a 1 (c_shape y)) (ravel (c_shape y) k)) y) as N2.
  unfold cost_of in *. unfold sp_reshape_tr in *. unfold sp_remap in N1, N2.
  assert (0 <= nnz x) by (unfold nnz; lia). assert (0 <= nnz y) by (unfold nnz; lia).
  lia.
Qed.

(* ================================================================= reductions *)

Lemma merge_kept_red mask k : length k = length mask -> merge mask (kept mask k) (red mask k) = k.
Proof.
  revert k. induction mask as [|m ms IH]; intros [|c k] H; simpl in *; try discriminate; [reflexivity|].
  destruct m; simpl; f_equal; apply IH; lia.
Qed.

Lemma split_merge mask sh jx r :
  length sh = length mask -> in_range (kept mask sh) jx -> in_range (red mask sh) r ->
  kept mask (merge mask jx r) = jx /\ red mask (merge mask jx r) = r /\ in_range sh (merge mask jx r).
Proof.
  revert sh jx r. induction mask as [|m ms IH]; intros [|d sh] jx r Hl Hj Hr; simpl in *; try discriminate.
  - destruct jx, r; simpl in *; tauto.
  - destruct m; simpl in *.
    + destruct r as [|c r']; simpl in Hr; [tauto|]. destruct Hr as [Hc Hr].
      destruct (IH sh jx r' ltac:(lia) Hj Hr) as [H1 [H2 H3]]. simpl. repeat split; try assumption; try lia.
      f_equal. assumption.
    + destruct jx as [|c j']; simpl in Hj; [tauto|]. destruct Hj as [Hc Hj].
      destruct (IH sh j' r ltac:(lia) Hj Hr) as [H1 [H2 H3]]. simpl. repeat split; try assumption; try lia.
      f_equal. assumption.
Qed.

Lemma in_range_kept_red mask sh k :
  length sh = length mask -> in_range sh k ->
  in_range (kept mask sh) (kept mask k) /\ in_range (red mask sh) (red mask k).
Proof.
  revert sh k. induction mask as [|m ms IH]; intros [|d sh] [|c k] Hl Hr; simpl in *; try discriminate; try tauto.
  destruct Hr as [Hc Hr]. destruct (IH sh k ltac:(lia) Hr) as [H1 H2]. destruct m; simpl; tauto.
Qed.

Lemma shape_ok_kept_red mask sh : shape_ok sh -> shape_ok (kept mask sh) /\ shape_ok (red mask sh).
Proof.
  unfold shape_ok. revert sh. induction mask as [|m ms IH]; intros sh H; simpl.
  - split; constructor.
  - destruct sh as [|d sh]; [split; constructor|]. inversion H; subst. destruct (IH sh H3) as [H4 H5].
    destruct m; split; try constructor; assumption.
Qed.

Lemma all_indices_length sh : shape_ok sh -> zlen (all_indices sh) = size sh.
Proof.
  unfold zlen. induction 1 as [|d sh Hd Hok IH]; simpl; [reflexivity|].
  assert (H : forall zs, length (flat_map (fun i => map (cons i) (all_indices sh)) zs)
                       = (length zs * length (all_indices sh))%nat).
  { induction zs as [|z zs IHz]; simpl; [reflexivity|]. rewrite app_length, map_length, IHz. reflexivity. }
  rewrite H. unfold zrange. rewrite map_length, seq_length. rewrite Nat2Z.inj_mul, IH. rewrite Z2Nat.id by assumption. reflexivity.
Qed.

Lemma NoDup_map_inj_in {A B} (f : A -> B) (l : list A) :
  (forall a b, In a l -> In b l -> f a = f b -> a = b) -> NoDup l -> NoDup (map f l).
Proof.
  intros Hinj Hnd. induction Hnd as [|a l Ha Hnd IH]; simpl; constructor.
  - intros Hin. apply in_map_iff in Hin. destruct Hin as [b [Hb Hbl]].
    assert (b = a) by (apply Hinj; simpl; auto). subst. contradiction.
  - apply IH. intros; apply Hinj; simpl; auto.
Qed.

Lemma dedup_In k l : In k (dedup l) <-> In k l.
Proof.
  unfold dedup. induction l as [|a l IH]; simpl; [tauto|].
  destruct (memb a _) eqn:E.
  - rewrite IH. split; [auto|]. intros [->|H]; [|exact H]. apply IH. apply memb_In. exact E.
  - simpl. rewrite IH. tauto.
Qed.

Lemma dedup_length l : zlen (dedup l) <= zlen l.
Proof.
  unfold zlen, dedup. induction l as [|a l IH]; simpl; [lia|]. destruct (memb a _); simpl; lia.
Qed.

Lemma bool_eq_iff (a b : bool) : (a = true <-> b = true) -> a = b.
Proof. destruct a, b; intuition congruence. Qed.

(* --- sums over lists *)
Lemma zsum_map_add {A} (f g : A -> Z) l : zsum (map (fun a => f a + g a) l) = zsum (map f l) + zsum (map g l).
Proof. unfold zsum. induction l; simpl; lia. Qed.

Lemma zsum_map_const {A} (c : Z) (l : list A) : zsum (map (fun _ => c) l) = c * zlen l.
Proof. unfold zsum, zlen. induction l; simpl length; simpl fold_right; [lia|]. simpl map. simpl fold_right. lia. Qed.

Lemma zsum_map_filter {A} (p : A -> bool) (h : A -> Z) l :
  zsum (map (fun a => if p a then h a else 0) l) = zsum (map h (filter p l)).
Proof. unfold zsum. induction l as [|a l IH]; simpl; [reflexivity|]. destruct (p a); simpl; lia. Qed.

Lemma zsum_map_ext_in {A} (f g : A -> Z) l : (forall a, In a l -> f a = g a) -> zsum (map f l) = zsum (map g l).
Proof. intros H. f_equal. apply map_ext_in. exact H. Qed.

Lemma sum_indicator (k : idx) (c : idx -> Z) (L : list idx) : NoDup L ->
  zsum (map (fun ix => if idx_eqb k ix then c ix else 0) L) = if memb k L then c k else 0.
Proof.
  unfold memb, zsum. induction 1 as [|a L Ha Hnd IH]; simpl; [reflexivity|].
  rewrite IH. destruct (idx_eqb k a) eqn:E; simpl.
  - apply idx_eqb_eq in E. subst a.
    destruct (existsb (idx_eqb k) L) eqn:E2; [|lia].
    exfalso. apply Ha. apply memb_In. exact E2.
  - reflexivity.
Qed.

Definition delta (es : list ent) (fill : Z) (ix : idx) : Z :=
  match lookup es ix with Some v => v - fill | None => 0 end.

Lemma den_delta (x : coo Z) ix : den x ix = c_fill x + delta (entries x) (c_fill x) ix.
Proof. unfold den, delta. destruct (lookup (entries x) ix); lia. Qed.

Lemma delta_cons k v r fill ix : ~ In k (map fst r) ->
  delta ((k, v) :: r) fill ix = delta r fill ix + (if idx_eqb k ix then v - fill else 0).
Proof.
  intros Hk. unfold delta. simpl. destruct (lookup r ix) as [w|] eqn:El.
  - destruct (idx_eqb k ix) eqn:E; [|lia]. apply idx_eqb_eq in E. subst.
    exfalso. apply Hk. eapply lookup_Some_In. exact El.
  - destruct (idx_eqb k ix); lia.
Qed.

(* weighted sum of the non-fill parts over a duplicate-free list of positions = sum over the stored
   entries that lie in that list *)
Lemma sum_delta_reindex (w : idx -> Z) (es : list ent) fill (L : list idx) :
  NoDup (map fst es) -> NoDup L ->
  zsum (map (fun ix => w ix * delta es fill ix) L)
  = zsum (map (fun kv => if memb (fst kv) L then w (fst kv) * (snd kv - fill) else 0) es).
Proof.
  intros Hnd HL. induction es as [|[k v] r IH].
  - simpl. unfold delta. simpl. rewrite (zsum_map_ext_in _ (fun _ => 0)) by (intros; lia).
    rewrite zsum_map_const. lia.
  - simpl in Hnd. inversion Hnd as [|? ? Hk Hnd']; subst.
    rewrite (zsum_map_ext_in _ (fun ix => w ix * delta r fill ix + (if idx_eqb k ix then w ix * (v - fill) else 0))).
    2:{ intros ix _. rewrite delta_cons by assumption. destruct (idx_eqb k ix); lia. }
    rewrite zsum_map_add, IH by assumption. rewrite sum_indicator by assumption.
    simpl. unfold zsum. simpl. lia.
Qed.

(* --- the generic reduction *)
Lemma group_nil_notin mask es jx :
  memb jx (dedup (map (fun kv => kept mask (fst kv)) es)) = false -> group mask es jx = [].
Proof.
  intros H. unfold group. induction es as [|[k v] r IH]; simpl; [reflexivity|].
  destruct (idx_eqb (kept mask k) jx) eqn:E.
  - exfalso. apply idx_eqb_eq in E.
    assert (Hin : memb jx (dedup (map (fun kv => kept mask (fst kv)) ((k, v) :: r))) = true).
    { apply memb_In. apply dedup_In. simpl. left. exact E. }
    congruence.
  - apply IH. apply not_true_is_false. intros Ht. apply memb_In in Ht. apply (proj1 (dedup_In _ _)) in Ht.
    assert (Hin : memb jx (dedup (map (fun kv => kept mask (fst kv)) ((k, v) :: r))) = true).
    { apply memb_In. apply dedup_In. simpl. right. exact Ht. }
    congruence.
Qed.

Lemma reduce_den_value value newfill mask (x : coo Z) jx :
  (group mask (entries x) jx = [] ->
     value mask (entries x) (c_fill x) (size (red mask (c_shape x))) jx = newfill (c_fill x) (size (red mask (c_shape x)))) ->
  den (fst (sp_reduce_tr value newfill mask x)) jx
  = value mask (entries x) (c_fill x) (size (red mask (c_shape x))) jx.
Proof.
  intros Hnil. unfold sp_reduce_tr. cbn [fst]. unfold den. cbn [c_fill of_entries]. rewrite entries_of_entries.
  rewrite (lookup_table (fun jx => value mask (entries x) (c_fill x) (size (red mask (c_shape x))) jx)).
  destruct (memb jx _) eqn:E; [reflexivity|]. symmetry. apply Hnil. apply group_nil_notin. exact E.
Qed.

Lemma memb_merge_kept mask sh jx k :
  length sh = length mask -> in_range (kept mask sh) jx -> in_range sh k ->
  memb k (map (merge mask jx) (all_indices (red mask sh))) = idx_eqb (kept mask k) jx.
Proof.
  intros Hl Hj Hk. apply bool_eq_iff. rewrite memb_In, idx_eqb_eq, in_map_iff. split.
  - intros [r [<- Hr]]. apply all_indices_In in Hr. apply (split_merge mask sh jx r Hl Hj Hr).
  - intros <-. exists (red mask k). split.
    + apply merge_kept_red. apply in_range_length in Hk. lia.
    + apply all_indices_In. apply (in_range_kept_red mask sh k Hl Hk).
Qed.

Lemma NoDup_merge mask sh jx :
  length sh = length mask -> in_range (kept mask sh) jx ->
  NoDup (map (merge mask jx) (all_indices (red mask sh))).
Proof.
  intros Hl Hj. apply NoDup_map_inj_in; [|apply all_indices_NoDup].
  intros a b Ha Hb He. apply all_indices_In in Ha, Hb.
  destruct (split_merge mask sh jx a Hl Hj Ha) as [_ [<- _]].
  destruct (split_merge mask sh jx b Hl Hj Hb) as [_ [<- _]]. rewrite He. reflexivity.
Qed.

Lemma zsum_snd_minus (g : list ent) fill : zsum (map (fun kv => snd kv - fill) g) = zsum (map snd g) - fill * zlen g.
Proof. unfold zsum, zlen. induction g as [|a g IH]; simpl length; simpl map; simpl fold_right; lia. Qed.

Theorem sum_sparse_den_proof (mask : list bool) (x : coo Z) (jx : idx) :
  length (c_shape x) = length mask -> shape_ok (c_shape x) ->
  NoDup (map fst (entries x)) -> Forall (in_range (c_shape x)) (c_coords x) ->
  in_range (kept mask (c_shape x)) jx ->
  den (sp_sum mask x) jx
  = zsum (map (fun r => den x (merge mask jx r)) (all_indices (red mask (c_shape x)))).
Proof.
  intros Hl Hok Hnd Hr Hj. unfold sp_sum, sp_sum_tr.
  rewrite reduce_den_value.
  2:{ intros Hg. unfold sum_value. rewrite Hg. simpl. unfold zsum, zlen. simpl. lia. }
  set (sh := c_shape x) in *. set (rs := red mask sh). set (fill := c_fill x).
  set (L := map (merge mask jx) (all_indices rs)).
  assert (HL : NoDup L) by (apply NoDup_merge; assumption).
  transitivity (zsum (map (fun ix => den x ix) L)).
  2:{ unfold L. rewrite map_map. reflexivity. }
  rewrite (zsum_map_ext_in _ (fun ix => fill + 1 * delta (entries x) fill ix)) by (intros; rewrite den_delta; fold fill; lia).
  rewrite (zsum_map_add (fun _ => fill) (fun ix => 1 * delta (entries x) fill ix)).
  rewrite zsum_map_const. rewrite (sum_delta_reindex (fun _ => 1)) by assumption.
  assert (HzL : zlen L = size rs).
  { unfold L. rewrite zlen_map. apply all_indices_length. apply (shape_ok_kept_red mask sh Hok). }
  rewrite HzL.
  rewrite (zsum_map_ext_in _ (fun kv => if idx_eqb (kept mask (fst kv)) jx then snd kv - fill else 0)).
  2:{ intros [k v] Hin. cbn [fst snd]. unfold L, rs. rewrite (memb_merge_kept mask sh jx k Hl Hj).
      - destruct (idx_eqb (kept mask k) jx); lia.
      - rewrite Forall_forall in Hr. apply Hr. apply entries_keys_incl. apply in_map_iff. exists (k, v). auto. }
  rewrite (zsum_map_filter (fun kv => idx_eqb (kept mask (fst kv)) jx) (fun kv => snd kv - fill)).
  fold (group mask (entries x) jx). rewrite zsum_snd_minus. unfold sum_value. fold fill. fold sh. fold rs. lia.
Qed.

Lemma mem_bound_reduce value newfill mask (x : coo Z) : cost_of (sp_reduce_tr value newfill mask x) <= nnz x.
Proof.
  unfold cost_of, sp_reduce_tr. cbn [snd].
  pose proof (zlen_entries x). pose proof (zlen_nonneg (entries x)).
  set (kk := map _ (entries x)).
  assert (zlen kk = zlen (entries x)) by apply zlen_map.
  pose proof (dedup_length kk). pose proof (zlen_nonneg (dedup kk)).
  apply max_le_all; [lia|]. apply Forall_app. split.
  - repeat constructor; rewrite ?zlen_map; lia.
  - apply Forall_forall. intros v Hv. apply in_map_iff in Hv. destruct Hv as [jx [<- _]].
    unfold group. eapply Z.le_trans; [apply zlen_filter|exact H].
Qed.

Theorem mem_bound_sum_proof mask (x : coo Z) : cost_of (sp_sum_tr mask x) <= nnz x.
Proof. apply mem_bound_reduce. Qed.
Theorem mem_bound_max_proof mask (x : coo Z) : cost_of (sp_max_tr mask x) <= nnz x.
Proof. apply mem_bound_reduce. Qed.

(* ---------------------------------------------------------------- max *)

Lemma lookup_Some_In_pair (es : list ent) ix v : lookup es ix = Some v -> In (ix, v) es.
Proof.
  induction es as [|[k w] r IH]; simpl; [discriminate|].
  destruct (lookup r ix) as [u|] eqn:E.
  - intros H. right. apply IH. exact H.
  - destruct (idx_eqb k ix) eqn:E1; [|discriminate]. intros H. inversion H; subst.
    apply idx_eqb_eq in E1. subst. left. reflexivity.
Qed.

Lemma fold_max_spec vs v0 :
  In (fold_left Z.max vs v0) (v0 :: vs) /\ forall v, In v (v0 :: vs) -> v <= fold_left Z.max vs v0.
Proof.
  revert v0. induction vs as [|a vs IH]; intros v0; simpl.
  - split; [left; reflexivity|]. intros v [->|[]]. lia.
  - destruct (IH (Z.max v0 a)) as [H1 H2]. split.
    + simpl in H1. destruct H1 as [H1|H1]; [|right; right; exact H1].
      rewrite <- H1. destruct (Z.max_spec v0 a) as [[_ ->]|[_ ->]]; auto.
    + intros v Hv. assert (Z.max v0 a <= fold_left Z.max vs (Z.max v0 a)) by (apply H2; left; reflexivity).
      destruct Hv as [->|[->|Hv]]; try lia. apply H2. right. exact Hv.
Qed.

Lemma NoDup_map_fst_filter (p : ent -> bool) (es : list ent) :
  NoDup (map fst es) -> NoDup (map fst (filter p es)).
Proof.
  induction es as [|[k v] r IH]; simpl; intros H; [constructor|]. inversion H as [|? ? Hk Hnd]; subst.
  destruct (p (k, v)); simpl; [|apply IH; assumption]. constructor; [|apply IH; assumption].
  intros Hin. apply Hk. apply in_map_iff in Hin. destruct Hin as [kv [<- Hin]]. apply filter_In in Hin.
  apply in_map. tauto.
Qed.

Theorem max_sparse_den_proof (mask : list bool) (x : coo Z) (jx : idx) :
  length (c_shape x) = length mask -> shape_ok (c_shape x) ->
  NoDup (map fst (entries x)) -> Forall (in_range (c_shape x)) (c_coords x) ->
  in_range (kept mask (c_shape x)) jx -> 0 < size (red mask (c_shape x)) ->
  is_max (den (sp_max mask x) jx)
         (map (fun r => den x (merge mask jx r)) (all_indices (red mask (c_shape x)))).
Proof.
  intros Hl Hok Hnd Hr Hj HR. unfold sp_max, sp_max_tr.
  rewrite reduce_den_value.
  2:{ intros Hg. unfold max_value. rewrite Hg. reflexivity. }
  set (sh := c_shape x) in *. set (rs := red mask sh) in *. set (fill := c_fill x).
  set (ex := entries x) in *. set (AI := all_indices rs).
  set (g := group mask ex jx).
  rewrite Forall_forall in Hr.
  assert (Hkeys : forall k v, In (k, v) ex -> in_range sh k).
  { intros k v Hin. apply Hr. apply entries_keys_incl. apply in_map_iff. exists (k, v). auto. }
  assert (F1 : forall k v, In (k, v) g -> In (k, v) ex /\ kept mask k = jx /\ in_range sh k).
  { intros k v Hin. apply filter_In in Hin. cbn [fst] in Hin. destruct Hin as [Hin E].
    apply idx_eqb_eq in E. split; [exact Hin|]. split; [exact E|]. eapply Hkeys; eauto. }
  assert (F2 : forall r v, In r AI -> lookup ex (merge mask jx r) = Some v -> In (merge mask jx r, v) g).
  { intros r v Hrin Hlk. apply lookup_Some_In_pair in Hlk. apply filter_In. split; [exact Hlk|].
    cbn [fst]. apply idx_eqb_eq. apply all_indices_In in Hrin. apply (split_merge mask sh jx r Hl Hj Hrin). }
  assert (F3 : forall k v, In (k, v) g -> den x k = v /\ k = merge mask jx (red mask k) /\ In (red mask k) AI).
  { intros k v Hin. destruct (F1 k v Hin) as [Hex [Hk Hkr]]. split; [|split].
    - unfold den. fold ex. rewrite (proj2 (lookup_In _ ex k v Hnd) Hex). reflexivity.
    - rewrite <- Hk. symmetry. apply merge_kept_red. apply in_range_length in Hkr. unfold sh in *. lia.
    - apply all_indices_In. apply (in_range_kept_red mask sh k Hl Hkr). }
  set (G' := map (red mask) (map fst g)).
  assert (F4 : NoDup G').
  { apply NoDup_map_inj_in; [|apply NoDup_map_fst_filter; exact Hnd].
    intros a b Ha Hb He. apply in_map_iff in Ha, Hb.
    destruct Ha as [[ka va] [<- Ha]]. destruct Hb as [[kb vb] [<- Hb]]. cbn [fst] in *.
    destruct (F3 _ _ Ha) as [_ [Ea _]]. destruct (F3 _ _ Hb) as [_ [Eb _]]. rewrite Ea, Eb, He. reflexivity. }
  assert (F5 : incl G' AI).
  { intros r Hin. apply in_map_iff in Hin. destruct Hin as [k [<- Hin]]. apply in_map_iff in Hin.
    destruct Hin as [[k' v] [<- Hin]]. apply (F3 _ _ Hin). }
  assert (F6 : length G' = length g) by (unfold G'; rewrite !map_length; reflexivity).
  assert (HAI : zlen AI = size rs) by (apply all_indices_length; apply (shape_ok_kept_red mask sh Hok)).
  assert (HG'key : forall r, In r AI -> In r G' -> exists v, lookup ex (merge mask jx r) = Some v).
  { intros r _ Hin. apply in_map_iff in Hin. destruct Hin as [k [<- Hin]]. apply in_map_iff in Hin.
    destruct Hin as [[k' v] [<- Hin]]. cbn [fst]. destruct (F3 _ _ Hin) as [_ [Ek _]]. rewrite <- Ek.
    apply lookup_In_Some. apply in_map_iff. exists (k', v). split; [reflexivity|]. apply (F1 _ _ Hin). }
  assert (Hunst : forall r, In r AI -> ~ In r G' -> den x (merge mask jx r) = fill).
  { intros r Hrin Hn. unfold den. fold ex. destruct (lookup ex (merge mask jx r)) as [v|] eqn:E; [|reflexivity].
    exfalso. apply Hn. apply F2 in E; [|exact Hrin]. unfold G'. apply in_map_iff. exists (merge mask jx r). split.
    - apply all_indices_In in Hrin. apply (split_merge mask sh jx r Hl Hj Hrin).
    - apply in_map_iff. exists (merge mask jx r, v). auto. }
  assert (Hstored_le : forall m, (forall v, In v (map snd g) -> v <= m) ->
            forall r v, In r AI -> lookup ex (merge mask jx r) = Some v -> v <= m).
  { intros m Hm r v Hrin E. apply Hm. apply in_map_iff. exists (merge mask jx r, v). split; [reflexivity|].
    apply F2; assumption. }
  unfold max_value. fold g. fold fill. fold rs.
  destruct (map snd g) as [|v0 vs] eqn:Evals.
  - (* empty group: every position of the group holds the fill *)
    assert (Hgnil : g = []) by (destruct g; [reflexivity|discriminate]).
    assert (Hall : forall r, In r AI -> den x (merge mask jx r) = fill).
    { intros r Hrin. apply Hunst; [exact Hrin|]. unfold G'. rewrite Hgnil. simpl. tauto. }
    split.
    + destruct AI as [|r0 AI'] eqn:EAI; [unfold zlen in HAI; simpl in HAI; lia|].
      simpl. left. apply Hall. left. reflexivity.
    + intros v Hv. apply in_map_iff in Hv. destruct Hv as [r [<- Hrin]]. rewrite Hall by exact Hrin. lia.
  - destruct (fold_max_spec vs v0) as [Hmin Hmle]. set (m := fold_left Z.max vs v0) in *.
    rewrite <- Evals in Hmin, Hmle, Hstored_le.
    assert (Hatt : In m (map (fun r => den x (merge mask jx r)) AI)).
    { apply in_map_iff in Hmin. destruct Hmin as [[k v] [Hv Hin]]. cbn [snd] in Hv. subst v.
      destruct (F3 _ _ Hin) as [Hd [Ek Hrk]]. apply in_map_iff. exists (red mask k). split; [|exact Hrk].
      rewrite <- Ek. exact Hd. }
    destruct (zlen g <? size rs) eqn:Elt.
    + apply Z.ltb_lt in Elt. split.
      * destruct (Z.le_gt_cases fill m) as [Hfm|Hfm].
        -- rewrite Z.max_l by lia. exact Hatt.
        -- rewrite Z.max_r by lia.
           destruct (Forall_Exists_dec (fun r => In r G') (fun r => in_dec (list_eq_dec Z.eq_dec) r G') AI) as [Hfa|Hex].
           ++ exfalso. rewrite Forall_forall in Hfa.
              assert (length AI <= length G')%nat by (apply NoDup_incl_length; [apply all_indices_NoDup|exact Hfa]).
              unfold zlen in *. lia.
           ++ apply Exists_exists in Hex. destruct Hex as [r [Hrin Hn]]. apply in_map_iff. exists r.
              split; [|exact Hrin]. apply Hunst; assumption.
      * intros v Hv. apply in_map_iff in Hv. destruct Hv as [r [<- Hrin]]. unfold den. fold ex.
        destruct (lookup ex (merge mask jx r)) as [w|] eqn:E.
        -- pose proof (Hstored_le m Hmle r w Hrin E). lia.
        -- fold fill. lia.
    + apply Z.ltb_ge in Elt. split; [exact Hatt|].
      intros v Hv. apply in_map_iff in Hv. destruct Hv as [r [<- Hrin]]. unfold den. fold ex.
      destruct (lookup ex (merge mask jx r)) as [w|] eqn:E.
      * apply (Hstored_le m Hmle r w Hrin E).
      * exfalso.
        assert (Hincl : incl AI G').
        { apply NoDup_length_incl; [exact F4| |exact F5]. unfold zlen in *. lia. }
        destruct (HG'key r Hrin (Hincl r Hrin)) as [w Hw]. congruence.
Qed.

(* ================================================================= 2-d product *)

Lemma zrange_NoDup n : NoDup (zrange n).
Proof.
  unfold zrange. apply NoDup_map_inj_in; [|apply seq_NoDup]. intros a b _ _ H. lia.
Qed.

Lemma in_range2 n m k : in_range [n; m] k -> exists a b, k = [a; b] /\ 0 <= a < n /\ 0 <= b < m.
Proof.
  destruct k as [|a [|b [|c k]]]; simpl; try tauto. intros [Ha [Hb _]]. exists a, b. auto.
Qed.

Theorem matmul_sparse_den_proof (x y : coo Z) (n m p i j : Z) :
  c_shape x = [n; m] -> c_shape y = [m; p] -> c_fill x = 0 -> c_fill y = 0 ->
  NoDup (map fst (entries x)) -> Forall (in_range (c_shape x)) (c_coords x) ->
  den (sp_matmul x y) [i; j] = zsum (map (fun k => den x [i; k] * den y [k; j]) (zrange m)).
Proof.
  intros Hsx Hsy Hfx Hfy Hnd Hr. unfold sp_matmul, sp_matmul_tr. cbn [fst].
  unfold den at 1. cbn [c_fill of_entries]. rewrite entries_of_entries.
  set (ex := entries x) in *. set (ey := entries y).
  rewrite (lookup_table (fun ij => mm_value ex y ij)).
  match goal with |- context [dedup ?c] => set (cand := c) end.
  assert (HF : (if memb [i; j] (dedup cand) then Some (mm_value ex y [i; j]) else None) = Some (mm_value ex y [i; j])
               \/ mm_value ex y [i; j] = 0 /\ memb [i; j] (dedup cand) = false).
  { destruct (memb [i; j] (dedup cand)) eqn:E; [left; reflexivity|right]. split; [|reflexivity].
    unfold mm_value. cbn [nth]. unfold zsum.
    assert (Hz : forall l : list ent, (forall kv, In kv l -> In kv ex /\ nth 0 (fst kv) 0 = i) ->
                 fold_right Z.add 0 (map (fun kv => snd kv * den y [nth 1 (fst kv) 0; j]) l) = 0).
    { induction l as [|kv l IHl]; intros Hl; simpl; [reflexivity|].
      rewrite IHl by (intros; apply Hl; right; assumption).
      destruct (Hl kv (or_introl eq_refl)) as [Hin Hi].
      assert (Hd : den y [nth 1 (fst kv) 0; j] = 0).
      { unfold den. destruct (lookup (entries y) [nth 1 (fst kv) 0; j]) as [w|] eqn:El; [|exact Hfy].
        exfalso. apply lookup_Some_In_pair in El.
        assert (Hc : In [i; j] cand).
        { unfold cand. apply in_flat_map. exists kv. split; [exact Hin|]. apply in_map_iff.
          exists ([nth 1 (fst kv) 0; j], w). cbn [fst]. split; [apply (f_equal2 (fun a b : Z => [a; b])); [exact Hi|reflexivity]|].
          apply filter_In. split; [exact El|]. cbn [fst]. apply Z.eqb_eq. reflexivity. }
        apply dedup_In, memb_In in Hc. congruence. }
      transitivity (snd kv * 0 + 0); [|lia]. f_equal. f_equal. exact Hd. }
    apply Hz. intros kv Hin. apply filter_In in Hin. destruct Hin as [Hin E2]. apply Z.eqb_eq in E2. auto. }
  assert (Hval : match (if memb [i; j] (dedup cand) then Some (mm_value ex y [i; j]) else None) with
                 | Some v => v | None => 0 end = mm_value ex y [i; j]).
  { destruct HF as [->|[Hz ->]]; [reflexivity|]. symmetry. exact Hz. }
  rewrite Hval. clear HF Hval.
  (* the specification sum, reindexed over the stored entries of x *)
  set (L := map (fun k => [i; k]) (zrange m)).
  assert (HL : NoDup L).
  { unfold L. apply NoDup_map_inj_in; [|apply zrange_NoDup]. intros a b _ _ H. inversion H. reflexivity. }
  transitivity (zsum (map (fun ix => den y [nth 1 ix 0; j] * delta ex 0 ix) L)).
  2:{ unfold L. rewrite map_map. apply zsum_map_ext_in. intros k _. cbn [nth].
      rewrite (den_delta x). fold ex. rewrite Hfx. lia. }
  rewrite sum_delta_reindex by assumption.
  unfold mm_value. cbn [nth]. rewrite <- (zsum_map_filter (fun kv : ent => nth 0 (fst kv) 0 =? i)).
  apply zsum_map_ext_in. intros [k v] Hin. cbn [fst snd].
  rewrite Forall_forall in Hr.
  assert (Hk : in_range [n; m] k).
  { rewrite <- Hsx. apply Hr. apply entries_keys_incl. apply in_map_iff. exists (k, v). auto. }
  destruct (in_range2 _ _ _ Hk) as [a [b [-> [Ha Hb]]]]. cbn [nth].
  assert (Hm : memb [a; b] L = (a =? i)).
  { apply bool_eq_iff. rewrite memb_In, Z.eqb_eq. unfold L. rewrite in_map_iff. split.
    - intros [k' [H _]]. inversion H. reflexivity.
    - intros ->. exists b. split; [reflexivity|]. apply zrange_In. exact Hb. }
  rewrite Hm. destruct (a =? i); lia.
Qed.

Lemma flat_map_length_le {A B} (f : A -> list B) (l : list A) (c : Z) :
  (forall a, zlen (f a) <= c) -> 0 <= c -> zlen (flat_map f l) <= zlen l * c.
Proof.
  intros H Hc. unfold zlen in *. induction l as [|a l IH]; [simpl; lia|]. cbn [flat_map length].
  rewrite app_length, Nat2Z.inj_add, Nat2Z.inj_succ. specialize (H a). nia.
Qed.

Theorem mem_bound_matmul_proof (x y : coo Z) : cost_of (sp_matmul_tr x y) <= nnz x * nnz y + nnz x + nnz y.
Proof.
  unfold cost_of, sp_matmul_tr. cbn [snd].
  pose proof (zlen_entries x). pose proof (zlen_entries y).
  pose proof (zlen_nonneg (entries x)). pose proof (zlen_nonneg (entries y)).
  match goal with |- context [dedup ?c] => set (cand := c) end.
  assert (Hc : zlen cand <= zlen (entries x) * zlen (entries y)).
  { apply flat_map_length_le; [|assumption]. intros kv. rewrite zlen_map. apply zlen_filter. }
  pose proof (dedup_length cand). pose proof (zlen_nonneg (dedup cand)). pose proof (zlen_nonneg cand).
  assert (zlen (entries x) * zlen (entries y) <= nnz x * nnz y) by nia.
  assert (0 <= nnz x * nnz y) by nia.
  apply max_le_all; [lia|]. assert (Hd : zlen (dedup cand) <= nnz x * nnz y + nnz x + nnz y).
  { eapply Z.le_trans; [apply dedup_length|]. eapply Z.le_trans; [exact Hc|]. lia. }
  repeat (apply Forall_cons; [cbv beta; rewrite ?zlen_map; first [exact Hd | eapply Z.le_trans; [exact Hc|lia] | lia]|]). constructor.
Qed.

(* ================================================================= COO <-> GCXS-like rows *)

Lemma zlen_zrange n : 0 <= n -> zlen (zrange n) = n.
Proof. intros H. unfold zlen, zrange. rewrite map_length, seq_length. lia. Qed.

Lemma combine_map_self {A B} (F : A -> B) (l : list A) : combine l (map F l) = map (fun a => (a, F a)) l.
Proof. induction l; simpl; congruence. Qed.

Lemma flat_map_map {A B C} (g : A -> B) (f : B -> list C) (l : list A) :
  flat_map f (map g l) = flat_map (fun a => f (g a)) l.
Proof. induction l; simpl; congruence. Qed.

Lemma flat_map_ext_in {A B} (f g : A -> list B) (l : list A) :
  (forall a, In a l -> f a = g a) -> flat_map f l = flat_map g l.
Proof. induction l as [|a l IH]; simpl; intros H; [reflexivity|]. rewrite H, IH; auto. Qed.

Lemma lookup_flat_filter (rowf : idx -> Z) (es : list ent) (rs : list Z) ix :
  lookup (flat_map (fun r => filter (fun kv => rowf (fst kv) =? r) es) rs) ix
  = if existsb (Z.eqb (rowf ix)) rs then lookup es ix else None.
Proof.
  induction rs as [|r0 rs IH]; simpl; [reflexivity|].
  rewrite lookup_app, IH. rewrite (lookup_filter (fun k => rowf k =? r0)).
  destruct (existsb (Z.eqb (rowf ix)) rs).
  - rewrite orb_true_r. destruct (lookup es ix); [reflexivity|]. destruct (rowf ix =? r0); reflexivity.
  - rewrite orb_false_r. reflexivity.
Qed.

Theorem rows_roundtrip_den_proof (mask : list bool) (x : coo Z) (ix : idx) :
  length (c_shape x) = length mask -> shape_ok (c_shape x) ->
  Forall (in_range (c_shape x)) (c_coords x) -> in_range (c_shape x) ix ->
  den (coo_of_rows mask (c_shape x) (c_fill x) (rows_of_coo mask x)) ix = den x ix.
Proof.
  intros Hl Hok Hr Hix. set (sh := c_shape x) in *.
  destruct (shape_ok_kept_red mask sh Hok) as [Hoku Hokc].
  pose proof (size_nonneg _ Hokc) as HR.
  unfold coo_of_rows, coo_of_rows_tr, rows_of_coo, rows_of_coo_tr. cbn [fst]. fold sh.
  unfold den. cbn [c_fill of_entries]. rewrite entries_of_entries.
  set (ex := entries x). set (R := size (red mask sh)) in *.
  rewrite zlen_map, (zlen_zrange R HR). rewrite combine_map_self, flat_map_map. cbn [fst snd].
  rewrite (flat_map_ext_in _ (fun r => filter (fun kv => row_of mask sh (fst kv) =? r) ex)).
  - rewrite (lookup_flat_filter (row_of mask sh)).
    assert (Hin : existsb (Z.eqb (row_of mask sh ix)) (zrange R) = true).
    { apply existsb_exists. exists (row_of mask sh ix). split; [|apply Z.eqb_refl].
      apply zrange_In. unfold row_of, R. apply ravel_bounds. apply (in_range_kept_red mask sh ix Hl Hix). }
    rewrite Hin. reflexivity.
  - intros r _. rewrite map_map. cbn [fst snd].
    rewrite <- (map_id (filter _ ex)) at 2. apply map_ext_in. intros [k v] Hin. cbn [fst snd].
    apply filter_In in Hin. destruct Hin as [Hin Hrow]. cbn [fst] in Hrow. apply Z.eqb_eq in Hrow.
    rewrite Forall_forall in Hr.
    assert (Hk : in_range sh k).
    { apply Hr. apply entries_keys_incl. apply in_map_iff. exists (k, v). auto. }
    destruct (in_range_kept_red mask sh k Hl Hk) as [Hku Hkc].
    f_equal. rewrite <- Hrow. unfold row_of, col_of.
    rewrite !unravel_ravel by assumption. apply merge_kept_red. apply in_range_length in Hk. lia.
Qed.

Theorem mem_bound_rows_of_coo_proof (mask : list bool) (x : coo Z) :
  shape_ok (c_shape x) ->
  cost_of (rows_of_coo_tr mask x) <= nnz x + size (red mask (c_shape x)).
Proof.
  intros Hok. destruct (shape_ok_kept_red mask _ Hok) as [_ Hokc]. pose proof (size_nonneg _ Hokc) as HR.
  unfold cost_of, rows_of_coo_tr. cbn [snd].
  pose proof (zlen_entries x) as Hx. pose proof (zlen_nonneg (entries x)).
  apply max_le_all; [lia|]. apply Forall_app. split.
  - repeat (apply Forall_cons; [cbv beta; rewrite ?zlen_map, ?zlen_zrange by assumption; lia|]). constructor.
  - apply Forall_forall. intros v Hv. apply in_map_iff in Hv. destruct Hv as [row [<- Hrow]].
    apply in_map_iff in Hrow. destruct Hrow as [r [<- _]]. rewrite zlen_map.
    eapply Z.le_trans; [apply zlen_filter|]. lia.
Qed.

Lemma zlen_flat_combine {A} (f : Z * list A -> list ent) (rs : list Z) (rows : list (list A)) :
  (forall rr, zlen (f rr) = zlen (snd rr)) ->
  zlen (flat_map f (combine rs rows)) <= zlen (concat rows).
Proof.
  intros Hf. revert rs. induction rows as [|row rows IH]; intros rs.
  - destruct rs; simpl; unfold zlen; simpl; lia.
  - destruct rs as [|r rs].
    + cbn [combine flat_map]. apply zlen_nonneg.
    + cbn [combine flat_map concat]. rewrite !zlen_app, Hf. cbn [snd]. specialize (IH rs). lia.
Qed.

Theorem mem_bound_coo_of_rows_proof (mask : list bool) (sh : shape) (fill : Z) (rows : crows) :
  cost_of (coo_of_rows_tr mask sh fill rows) <= zlen rows + zlen (concat rows).
Proof.
  unfold cost_of, coo_of_rows_tr. cbn [snd].
  pose proof (zlen_nonneg rows). pose proof (zlen_nonneg (concat rows)).
  assert (Hrs : zlen (zrange (zlen rows)) = zlen rows) by (apply zlen_zrange; assumption).
  assert (Htag : zlen (combine (zrange (zlen rows)) rows) <= zlen rows).
  { unfold zlen at 1. rewrite combine_length. unfold zlen in *. lia. }
  pose proof (zlen_nonneg (combine (zrange (zlen rows)) rows)).
  set (f := fun rr : Z * list (Z * Z) => map _ (snd rr)).
  assert (Hes : zlen (flat_map f (combine (zrange (zlen rows)) rows)) <= zlen (concat rows)).
  { apply zlen_flat_combine. intros rr. unfold f. apply zlen_map. }
  apply max_le_all; [lia|].
  repeat (apply Forall_cons; [cbv beta; first [exact Hes | lia | eapply Z.le_trans; [exact Hes|lia]]|]). constructor.
Qed.

(* ================================================================= comparison on the union of supports *)

Theorem same_denb_sound_proof (a b : coo Z) :
  same_denb a b = true -> forall ix, den a ix = den b ix.
Proof.
  unfold same_denb. rewrite !andb_true_iff, !forallb_forall. intros [[Hf Ha] Hb] ix.
  apply Z.eqb_eq in Hf.
  destruct (lookup (entries a) ix) as [v|] eqn:Ea.
  - apply Z.eqb_eq. apply Ha. apply entries_keys_incl. eapply lookup_Some_In. exact Ea.
  - destruct (lookup (entries b) ix) as [w|] eqn:Eb.
    + apply Z.eqb_eq. apply Hb. apply entries_keys_incl. eapply lookup_Some_In. exact Eb.
    + unfold den. rewrite Ea, Eb. exact Hf.
Qed.

(* ================================================================= well-formed operands *)

Lemma nodupb_spec l : nodupb l = true -> NoDup l.
Proof.
  induction l as [|a r IH]; simpl; intros H; constructor.
  - apply andb_true_iff in H. destruct H as [H _]. apply negb_true_iff in H.
    intros Hin. apply memb_In in Hin. congruence.
  - apply IH. apply andb_true_iff in H. tauto.
Qed.

Theorem wfb_spec_proof (x : coo Z) : wfb x = true ->
  shape_ok (c_shape x) /\ Forall (in_range (c_shape x)) (c_coords x) /\ NoDup (map fst (entries x)).
Proof.
  unfold wfb. rewrite !andb_true_iff. intros [[[Hs Hr] Hn] Hl]. apply Nat.eqb_eq in Hl. repeat split.
  - unfold shape_ok. apply Forall_forall. intros d Hd. rewrite forallb_forall in Hs. apply Z.leb_le. auto.
  - apply Forall_forall. intros k Hk. rewrite forallb_forall in Hr. apply in_rangeb_spec. auto.
  - unfold entries. rewrite combine_map_fst by lia. apply nodupb_spec. exact Hn.
Qed.

(* ================================================================= non-vacuity: the hypotheses of every
   theorem hold on non-trivial values, including an array with 10^18 logical elements *)

Definition ex_x : coo Z := mkCOO [2; 3; 4] [[0;0;1]; [0;2;3]; [1;1;0]; [1;2;2]] [5; -2; 7; 3] 0.
Definition ex_y : coo Z := mkCOO [2; 3; 4] [[0;0;1]; [1;0;0]] [4; 9] 0.
Definition ex_h : coo Z :=
  mkCOO [1000000; 1000000; 1000000]
        [[5; 999999; 17]; [5; 0; 999999]; [123456; 7; 17]; [999999; 999999; 999999]] [3; -4; 10; 6] 0.
Definition ex_a : coo Z := mkCOO [2; 3] [[0;0]; [0;2]; [1;1]] [2; 3; 5] 0.
Definition ex_b : coo Z := mkCOO [3; 2] [[0;1]; [1;0]; [2;1]] [7; 11; 13] 0.

Example ex_wf : wfb ex_x = true /\ wfb ex_y = true /\ wfb ex_h = true /\ wfb ex_a = true /\ wfb ex_b = true.
Proof. vm_compute. repeat split; reflexivity. Qed.

Example ex_zip : den (sp_zip Z.add ex_x ex_y) [0;0;1] = 9 /\ den (sp_zip Z.add ex_x ex_y) [1;0;0] = 9
                 /\ cost_of (sp_zip_tr Z.add ex_x ex_y) = 5.
Proof. vm_compute. repeat split; reflexivity. Qed.

Example ex_zipl : (forall w, Z.mul (c_fill ex_h) w = Z.mul (c_fill ex_h) (c_fill ex_h))
                  /\ den (sp_zipl Z.mul (bcast_idx [1; 1000000; 1]) ex_h
                                  (mkCOO [1; 1000000; 1] [[0; 7; 0]; [0; 999999; 0]] [2; 5] 0)) [5; 999999; 17] = 15.
Proof. split; [intros w; reflexivity|vm_compute; reflexivity]. Qed.

Example ex_transpose : is_permb [2; 0; 1]%nat (length (c_shape ex_h)) = true
                       /\ in_range (c_shape ex_h) [123456; 7; 17]
                       /\ den (sp_transpose [2; 0; 1]%nat ex_h) [17; 123456; 7] = 10.
Proof. vm_compute. repeat split; try reflexivity; try discriminate. Qed.

Example ex_reshape : size [1000000000; 1000000000] = size (c_shape ex_h)
                     /\ in_range [1000000000; 1000000000] [123456000; 7000017]
                     /\ den (sp_reshape [1000000000; 1000000000] ex_h) [123456000; 7000017] = 10.
Proof. vm_compute. repeat split; try reflexivity; try discriminate. Qed.

Example ex_getitem : sel_okb [AInt 5; ASlice 999999 (-3) 333334; ASlice 1 2 499999] = true
                     /\ in_range (sel_shape [AInt 5; ASlice 999999 (-3) 333334; ASlice 1 2 499999]) [0; 8]
                     /\ den (sp_getitem [AInt 5; ASlice 999999 (-3) 333334; ASlice 1 2 499999] ex_h) [0; 8] = 3
                     /\ sel_src [AInt 5; ASlice 999999 (-3) 333334; ASlice 1 2 499999] [0; 8] = [5; 999999; 17].
Proof. vm_compute. repeat split; try reflexivity; try discriminate. Qed.

Example ex_concat : den (sp_concat 1 ex_h ex_h) [5; 1999999; 17] = 3 /\ den (sp_concat 1 ex_h ex_h) [5; 999999; 17] = 3
                    /\ c_shape (sp_concat 1 ex_h ex_h) = [1000000; 2000000; 1000000].
Proof. vm_compute. repeat split; reflexivity. Qed.

Example ex_sum : length (c_shape ex_h) = length [false; true; true]
                 /\ in_range (kept [false; true; true] (c_shape ex_h)) [5]
                 /\ den (sp_sum [false; true; true] ex_h) [5] = -1
                 /\ c_shape (sp_sum [false; true; true] ex_h) = [1000000].
Proof. vm_compute. repeat split; try reflexivity; try discriminate. Qed.

Example ex_sum_small :
  den (sp_sum [true; false; true] ex_x) [2]
  = zsum (map (fun r => den ex_x (merge [true; false; true] [2] r)) (all_indices (red [true; false; true] (c_shape ex_x)))).
Proof. vm_compute. reflexivity. Qed.

Example ex_max : 0 < size (red [true; false; true] (c_shape ex_h))
                 /\ den (sp_max [true; false; true] ex_h) [999999] = 6 /\ den (sp_max [true; false; true] ex_h) [7] = 10
                 /\ den (sp_max [true; false; true] ex_h) [8] = 0.
Proof. vm_compute. repeat split; reflexivity. Qed.

Example ex_matmul : den (sp_matmul ex_a ex_b) [0; 1] = 53 /\ den (sp_matmul ex_a ex_b) [1; 0] = 55
                    /\ den (sp_matmul ex_a ex_b) [0; 0] = 0
                    /\ zsum (map (fun k => den ex_a [0; k] * den ex_b [k; 1]) (zrange 3)) = 53.
Proof. vm_compute. repeat split; reflexivity. Qed.

Example ex_rows :
  rows_of_coo [true; false] ex_a = [[(0, 2); (2, 3)]; [(1, 5)]]
  /\ indptr_of (rows_of_coo [true; false] ex_a) = [0; 2; 3]
  /\ same_denb (coo_of_rows [true; false] [2; 3] 0 (rows_of_coo [true; false] ex_a)) ex_a = true.
Proof. vm_compute. repeat split; reflexivity. Qed.

(* ================================================================= canonical form of a reference result
   (sorting + pruning), so that the judge can compare raw coords/data with what the implementation
   returned in O(n log n).  The sort is Coq's verified bottom-up merge sort. *)
From Coq Require Import Sorting.Mergesort Sorting.Permutation Orders.

Module EntOrder <: TotalLeBool.
  Definition t := ent.
  Definition leb (a b : t) : bool := negb (lex_ltb (fst b) (fst a)).
  Theorem leb_total : forall a b, leb a b = true \/ leb b a = true.
  Proof.
    intros a b. unfold leb. destruct (lex_ltb (fst b) (fst a)) eqn:E1; [|left; reflexivity].
    destruct (lex_ltb (fst a) (fst b)) eqn:E2; [|right; reflexivity].
    exfalso. apply lex_ltb_spec in E1, E2. apply (lex_lt_irrefl (fst a)). eapply lex_lt_trans; eauto.
  Qed.
End EntOrder.
Module EntSort := Sort EntOrder.

Definition sort_entries (es : list ent) : list ent := EntSort.sort es.
Definition prune_entries (fill : Z) (es : list ent) : list ent := filter (fun kv => negb (snd kv =? fill)) es.

(* sorted by coordinates, entries equal to the fill dropped *)
Definition canon (x : coo Z) : coo Z :=
  of_entries (c_shape x) (prune_entries (c_fill x) (sort_entries (entries x))) (c_fill x).

(* the operand hypotheses of the den-theorems, checked in O(n log n): after sorting, the coordinates
   are strictly increasing (hence pairwise distinct) *)
Definition wfsb (x : coo Z) : bool :=
  forallb (fun d => 0 <=? d) (c_shape x)
  && forallb (in_rangeb (c_shape x)) (c_coords x)
  && sorted_strict (map fst (sort_entries (entries x)))
  && (length (c_data x) =? length (c_coords x))%nat.

Lemma lookup_perm (es es' : list ent) ix :
  Permutation es es' -> NoDup (map fst es) -> lookup es ix = lookup es' ix.
Proof.
  intros Hp Hnd.
  assert (Hnd' : NoDup (map fst es')) by (eapply Permutation_NoDup; [apply Permutation_map; exact Hp|exact Hnd]).
  destruct (lookup es ix) as [v|] eqn:E.
  - symmetry. apply (lookup_In _ es' ix v Hnd'). eapply Permutation_in; [exact Hp|].
    apply (lookup_In _ es ix v Hnd). exact E.
  - destruct (lookup es' ix) as [w|] eqn:E'; [|reflexivity].
    apply (lookup_In _ es' ix w Hnd') in E'. apply Permutation_sym in Hp.
    apply (Permutation_in _ Hp) in E'. apply (lookup_In _ es ix w Hnd) in E'. congruence.
Qed.

Lemma lookup_prune fill (es : list ent) ix : NoDup (map fst es) ->
  lookup (prune_entries fill es) ix
  = match lookup es ix with Some v => if v =? fill then None else Some v | None => None end.
Proof.
  unfold prune_entries. induction es as [|[k v] r IH]; simpl; intros Hnd; [reflexivity|].
  inversion Hnd as [|? ? Hk Hnd']; subst. specialize (IH Hnd').
  assert (Hkey : forall w, lookup r ix = Some w -> idx_eqb k ix = false).
  { intros w Hw. destruct (idx_eqb k ix) eqn:E; [|reflexivity]. apply idx_eqb_eq in E. subst.
    exfalso. apply Hk. eapply lookup_Some_In. exact Hw. }
  destruct (v =? fill) eqn:Ev; simpl.
  - rewrite IH. destruct (lookup r ix) as [w|] eqn:El; [reflexivity|].
    destruct (idx_eqb k ix); [rewrite Ev|]; reflexivity.
  - rewrite IH. destruct (lookup r ix) as [w|] eqn:El.
    + destruct (w =? fill); [|reflexivity]. rewrite (Hkey w eq_refl). reflexivity.
    + destruct (idx_eqb k ix); [rewrite Ev|]; reflexivity.
Qed.

Theorem canon_den_proof (x : coo Z) ix : NoDup (map fst (entries x)) -> den (canon x) ix = den x ix.
Proof.
  intros Hnd. unfold canon, den. cbn [c_fill of_entries]. rewrite entries_of_entries.
  pose proof (EntSort.Permuted_sort (entries x)) as Hp. fold (sort_entries (entries x)) in Hp.
  rewrite lookup_prune.
  - rewrite <- (lookup_perm _ _ ix Hp Hnd). destruct (lookup (entries x) ix) as [v|]; [|reflexivity].
    destruct (v =? c_fill x) eqn:E; [|reflexivity]. apply Z.eqb_eq in E. auto.
  - eapply Permutation_NoDup; [apply Permutation_map; exact Hp|exact Hnd].
Qed.

Theorem wfsb_spec_proof (x : coo Z) : wfsb x = true ->
  shape_ok (c_shape x) /\ Forall (in_range (c_shape x)) (c_coords x) /\ NoDup (map fst (entries x)).
Proof.
  unfold wfsb. rewrite !andb_true_iff. intros [[[Hs Hr] Hn] Hl]. repeat split.
  - unfold shape_ok. apply Forall_forall. intros d Hd. rewrite forallb_forall in Hs. apply Z.leb_le. auto.
  - apply Forall_forall. intros k Hk. rewrite forallb_forall in Hr. apply in_rangeb_spec. auto.
  - apply sorted_strict_SS, SS_lex_NoDup in Hn.
    eapply Permutation_NoDup; [|exact Hn]. apply Permutation_map. apply Permutation_sym.
    apply EntSort.Permuted_sort.
Qed.

(* equal canonical forms (raw coords/data) => equal dense meaning everywhere *)
Theorem canon_eq_sound_proof (a b : coo Z) :
  wfsb a = true -> wfsb b = true -> c_fill a = c_fill b ->
  entries (canon a) = entries (canon b) -> forall ix, den a ix = den b ix.
Proof.
  intros Ha Hb Hf He ix. apply wfsb_spec_proof in Ha, Hb. destruct Ha as [_ [_ Ha]]. destruct Hb as [_ [_ Hb]].
  rewrite <- (canon_den_proof a ix Ha), <- (canon_den_proof b ix Hb).
  unfold den. rewrite He. unfold canon. cbn [c_fill of_entries]. rewrite Hf. reflexivity.
Qed.

Example ex_canon : wfsb (sp_transpose [2; 0; 1]%nat ex_h) = true
  /\ c_coords (canon (sp_transpose [2; 0; 1]%nat ex_h)) = [[17; 5; 999999]; [17; 123456; 7]; [999999; 5; 0]; [999999; 999999; 999999]]
  /\ c_data (canon (sp_transpose [2; 0; 1]%nat ex_h)) = [3; 10; -4; 6]
  /\ c_coords (canon (sp_zip Z.add ex_x (sp_map Z.opp ex_x))) = [].
Proof. vm_compute. repeat split; reflexivity. Qed.

(* ================================================================= stack (= reshape with a new length-1 axis, then concatenate) *)

Lemma insert_at_0 (v : Z) k : insert_at 0 v k = v :: k.
Proof. reflexivity. Qed.
Lemma insert_at_S a (v c : Z) k : insert_at (S a) v (c :: k) = c :: insert_at a v k.
Proof. reflexivity. Qed.

Lemma size_insert_1 a sh : (a <= length sh)%nat -> size (insert_at a 1 sh) = size sh.
Proof.
  revert sh. induction a as [|a IH]; intros sh H.
  - rewrite insert_at_0. change (size (1 :: sh)) with (1 * size sh). lia.
  - destruct sh as [|d sh]; simpl in H; [lia|]. rewrite insert_at_S.
    change (size (d :: insert_at a 1 sh)) with (d * size (insert_at a 1 sh)). rewrite IH by lia. reflexivity.
Qed.

Lemma ravel_insert a sh k : (a <= length sh)%nat -> length k = length sh ->
  ravel (insert_at a 1 sh) (insert_at a 0 k) = ravel sh k.
Proof.
  revert sh k. induction a as [|a IH]; intros sh k H Hl.
  - rewrite !insert_at_0. cbn [ravel]. lia.
  - destruct sh as [|d sh]; simpl in H; [lia|]. destruct k as [|c k]; [discriminate|].
    rewrite !insert_at_S. cbn [ravel]. simpl in Hl. rewrite IH, size_insert_1 by lia. reflexivity.
Qed.

Lemma in_range_insert a sh k v i : (a <= length sh)%nat -> in_range sh k -> 0 <= i < v ->
  in_range (insert_at a v sh) (insert_at a i k).
Proof.
  revert sh k. induction a as [|a IH]; intros sh k H Hr Hi.
  - rewrite !insert_at_0. simpl. auto.
  - destruct sh as [|d sh]; simpl in H; [lia|]. destruct k as [|c k]; simpl in Hr; [tauto|].
    rewrite !insert_at_S. simpl. destruct Hr as [Hc Hr]. split; [exact Hc|]. apply IH; [lia|exact Hr|exact Hi].
Qed.

Lemma In_firstn_aux {A} n (l : list A) x : In x (firstn n l) -> In x l.
Proof. revert l. induction n as [|n IH]; intros [|a l]; simpl; try tauto. intros [H|H]; auto. Qed.
Lemma In_skipn_aux {A} n (l : list A) x : In x (skipn n l) -> In x l.
Proof. revert l. induction n as [|n IH]; intros [|a l]; simpl; try tauto. intros H; auto. Qed.

Lemma shape_ok_insert a sh : shape_ok sh -> shape_ok (insert_at a 1 sh).
Proof.
  unfold shape_ok, insert_at. intros H. apply Forall_app. split.
  - apply Forall_forall. intros d Hd. rewrite Forall_forall in H. apply H. eapply In_firstn_aux; eauto.
  - constructor; [lia|]. apply Forall_forall. intros d Hd. rewrite Forall_forall in H. apply H. eapply In_skipn_aux; eauto.
Qed.

Lemma insert_at_length a (v : Z) k : (a <= length k)%nat -> length (insert_at a v k) = S (length k).
Proof.
  intros H. unfold insert_at. rewrite app_length. simpl. rewrite firstn_length, skipn_length. lia.
Qed.

Lemma nth_insert_at a (v : Z) k : (a <= length k)%nat -> nth a (insert_at a v k) 0 = v.
Proof.
  revert k. induction a as [|a IH]; intros k H; [reflexivity|].
  destruct k as [|c k]; simpl in H; [lia|]. rewrite insert_at_S. simpl. apply IH. lia.
Qed.

Lemma shift_insert_at a (v off : Z) k : (a <= length k)%nat ->
  shift_axis a off (insert_at a v k) = insert_at a (v + off) k.
Proof.
  revert k. induction a as [|a IH]; intros k H; [reflexivity|].
  destruct k as [|c k]; simpl in H; [lia|]. rewrite !insert_at_S, shift_axis_S. f_equal. apply IH. lia.
Qed.

Lemma reshape_shape_fill sh' (x : coo Z) : c_shape (sp_reshape sh' x) = sh' /\ c_fill (sp_reshape sh' x) = c_fill x.
Proof. split; reflexivity. Qed.

Lemma reshape_coords_in_range sh' (x : coo Z) :
  shape_ok sh' -> size sh' = size (c_shape x) -> Forall (in_range (c_shape x)) (c_coords x) ->
  Forall (in_range sh') (c_coords (sp_reshape sh' x)).
Proof.
  intros Hok Hsz Hr. unfold sp_reshape, sp_reshape_tr, sp_remap_tr. cbn [fst c_coords of_entries].
  apply Forall_forall. intros k Hk. rewrite map_map in Hk. apply in_map_iff in Hk. destruct Hk as [[k0 v] [<- Hin]].
  cbn [fst]. apply filter_In in Hin. destruct Hin as [Hin _].
  rewrite Forall_forall in Hr.
  assert (Hk0 : in_range (c_shape x) k0).
  { apply Hr. apply entries_keys_incl. apply in_map_iff. exists (k0, v). auto. }
  apply unravel_in_range; [exact Hok|]. rewrite Hsz. apply ravel_bounds. exact Hk0.
Qed.

(* position i (0 or 1) along the new axis a selects the operand *)
Theorem stack_sparse_den_proof (a : nat) (x y : coo Z) (k : idx) (i : Z) :
  (a <= length (c_shape x))%nat -> c_shape y = c_shape x -> shape_ok (c_shape x) ->
  Forall (in_range (c_shape x)) (c_coords x) -> Forall (in_range (c_shape y)) (c_coords y) ->
  c_fill y = c_fill x -> in_range (c_shape x) k -> 0 <= i < 2 ->
  den (sp_stack a x y) (insert_at a i k) = if i =? 0 then den x k else den y k.
Proof.
  intros Ha Hsy Hok Hrx Hry Hfill Hk Hi. set (sh := c_shape x) in *. set (sh1 := insert_at a 1 sh).
  unfold sp_stack, sp_stack_tr. cbn [fst]. rewrite Hsy. fold sh. fold sh1.
  fold (sp_reshape sh1 x). fold (sp_reshape sh1 y). fold (sp_concat a (sp_reshape sh1 x) (sp_reshape sh1 y)).
  assert (Hok1 : shape_ok sh1) by (apply shape_ok_insert; exact Hok).
  assert (Hsz : size sh1 = size sh) by (apply size_insert_1; exact Ha).
  assert (Hlk : length k = length sh) by (apply in_range_length; exact Hk).
  rewrite concat_sparse_den_proof.
  - change (c_shape (sp_reshape sh1 x)) with (insert_at a 1 sh).
    rewrite !nth_insert_at by lia.
    assert (Hback : forall j, 0 <= j < 1 -> forall z : coo Z, c_shape z = sh ->
              Forall (in_range sh) (c_coords z) ->
              den (sp_reshape sh1 z) (insert_at a j k) = den z k).
    { intros j Hj z Hz Hrz. rewrite reshape_sparse_den_proof; rewrite ?Hz; auto.
      - assert (j = 0) by lia. subst j. unfold sh1. rewrite ravel_insert by lia.
        rewrite unravel_ravel by exact Hk. reflexivity.
      - apply in_range_insert; [exact Ha|exact Hk|lia]. }
    destruct (Z.ltb_spec i 1) as [Hlt|Hge].
    + assert (i = 0) by lia. subst i. change (0 =? 0) with true. cbv iota.
      apply (Hback 0); [lia|reflexivity|exact Hrx].
    + assert (i = 1) by lia. subst i. change (1 =? 0) with false. cbv iota.
      rewrite shift_insert_at by lia. replace (1 + - (1)) with 0 by lia.
      apply (Hback 0); [lia|exact Hsy|]. rewrite <- Hsy. exact Hry.
  - change (c_shape (sp_reshape sh1 x)) with (insert_at a 1 sh). rewrite insert_at_length by exact Ha. lia.
  - reflexivity.
  - apply reshape_coords_in_range; auto.
  - assert (E : c_shape (sp_reshape sh1 y) = c_shape (sp_reshape sh1 x)) by reflexivity.
    apply reshape_coords_in_range; [exact Hok1|rewrite Hsy; exact Hsz|exact Hry].
  - cbn. exact Hfill.
  - change (c_shape (sp_reshape sh1 x)) with (insert_at a 1 sh). rewrite !insert_at_length by lia. lia.
Qed.

Example ex_stack : den (sp_stack 1 ex_h (sp_map Z.opp ex_h)) (insert_at 1 1 [5; 999999; 17]) = -3
                   /\ den (sp_stack 1 ex_h (sp_map Z.opp ex_h)) (insert_at 1 0 [5; 999999; 17]) = 3
                   /\ c_shape (sp_stack 1 ex_h ex_h) = [1000000; 2; 1000000; 1000000].
Proof. vm_compute. repeat split; reflexivity. Qed.
