(* Proofs/ReduceP.v — the reduction model denotes NumPy's reduction (property C03). *)
From Coq Require Import ZArith List Bool Lia ZifyBool Permutation Sorting.Sorted.
From Verif Require Import Py PyExt PyReduce Shape COO COOP GCXS G_reduce S_reduce NpReduce Reduce
  ReduceLemmas ReduceShapeP ReduceKernelP.
Import ListNotations.
Open Scope Z_scope.

(* ------------------------------------------------------------------ axis normalisation *)

(* the generated integer branch of _utils.normalize_axis is NumPy's normalisation of one axis *)
Lemma norm_axis1_spec ndim a : norm_axis1 ndim a = np_norm_axis ndim a.
Proof.
  unfold norm_axis1, g_normalize_axis, np_norm_axis. cbn.
  destruct (Z.ltb_spec a 0); cbn.
  - rewrite Z.geb_leb. destruct (Z.leb_spec ndim (a + ndim)); cbn.
    + destruct (Z.leb_spec (- ndim) a); destruct (Z.ltb_spec a ndim); cbn; try lia; reflexivity.
    + destruct (Z.ltb_spec (a + ndim) 0); cbn;
      destruct (Z.leb_spec (- ndim) a); destruct (Z.ltb_spec a ndim); cbn; try lia; reflexivity.
  - rewrite Z.geb_leb. destruct (Z.leb_spec ndim a); cbn.
    + destruct (Z.leb_spec (- ndim) a); destruct (Z.ltb_spec a ndim); cbn; try lia; reflexivity.
    + destruct (Z.ltb_spec a 0); cbn; [lia|].
      destruct (Z.leb_spec (- ndim) a); destruct (Z.ltb_spec a ndim); cbn; try lia; reflexivity.
Qed.

Lemma np_norm_axis_range n a z : np_norm_axis n a = Ok z -> 0 <= z < n.
Proof.
  unfold np_norm_axis. destruct (Z.leb_spec (- n) a); destruct (Z.ltb_spec a n); cbn; try discriminate.
  destruct (Z.ltb_spec a 0); intros E; inversion E; lia.
Qed.

Lemma np_norm_axis_id n a : 0 <= a < n -> np_norm_axis n a = Ok a.
Proof.
  intros H. unfold np_norm_axis. destruct (Z.leb_spec (- n) a); destruct (Z.ltb_spec a n); cbn; try lia.
  destruct (Z.ltb_spec a 0); [lia|reflexivity].
Qed.

Lemma map_res_ok {A B} (f : A -> res B) l r :
  map_res f l = Ok r -> Forall2 (fun a b => f a = Ok b) l r.
Proof.
  revert r. induction l as [|a l IH]; intros r; cbn.
  - intros E; inversion E. constructor.
  - destruct (f a) eqn:Ea; cbn; [|discriminate]. destruct (map_res f l) eqn:El; cbn; [|discriminate].
    intros E; inversion E; subst. constructor; [assumption|]. apply IH. reflexivity.
Qed.

Lemma map_res_id {A} (f : A -> res A) l : (forall a, In a l -> f a = Ok a) -> map_res f l = Ok l.
Proof.
  induction l as [|a l IH]; intros H; cbn; [reflexivity|].
  rewrite H by (left; reflexivity). cbn. rewrite IH by (intros; apply H; right; assumption). reflexivity.
Qed.

Lemma map_res_np_norm n l : map_res (norm_axis1 n) l = np_norm_list n l.
Proof.
  induction l as [|a l IH]; cbn; [reflexivity|]. rewrite norm_axis1_spec, IH. reflexivity.
Qed.

Lemma np_norm_list_ok n l zs : np_norm_list n l = Ok zs -> axes_ok n zs.
Proof.
  revert zs. induction l as [|a l IH]; intros zs; cbn.
  - intros E; inversion E. constructor.
  - destruct (np_norm_axis n a) eqn:Ea; cbn; [|discriminate].
    destruct (np_norm_list n l) eqn:El; cbn; [|discriminate].
    intros E; inversion E; subst. constructor; [eapply np_norm_axis_range; eassumption|].
    apply IH. reflexivity.
Qed.

Lemma np_distinct_NoDup l : np_distinct l = true <-> NoDup l.
Proof.
  induction l as [|a l IH]; simpl.
  - split; [constructor|reflexivity].
  - rewrite andb_true_iff, negb_true_iff, IH. split.
    + intros [Hm Hn]. constructor; [|assumption]. intros H. apply mem_z_In in H. unfold mem_z in H. unfold np_mem in Hm. congruence.
    + intros H. inversion H; subst. split; [|assumption].
      destruct (np_mem a l) eqn:E; [|reflexivity]. apply (mem_z_In a l) in E. tauto.
Qed.

(* what the code hands to _reduce_calc against NumPy's normalised axis tuple *)
Lemma norm_axes_spec n ax nax :
  norm_axes n ax = Ok nax ->
  match nax with
  | None => ax = AxNone
  | Some l => axes_ok n l /\ (NoDup l -> np_norm_axes n ax = Ok l) /\ (~ NoDup l -> np_norm_axes n ax = Raise ValueError)
  end.
Proof.
  destruct ax as [|a|l]; cbn.
  - intros E; inversion E. reflexivity.
  - rewrite norm_axis1_spec. destruct (np_norm_axis n a) eqn:Ea; cbn; [|discriminate].
    intros E; inversion E; subst. split; [|split].
    + constructor; [eapply np_norm_axis_range; eassumption|constructor].
    + reflexivity.
    + intros H. exfalso. apply H. constructor; [simpl; tauto|constructor].
  - rewrite map_res_np_norm. destruct (np_norm_list n l) as [zs|] eqn:El; cbn; [|discriminate].
    intros E; inversion E; subst. split; [eapply np_norm_list_ok; eassumption|]. split.
    + intros H. apply np_distinct_NoDup in H. rewrite H. reflexivity.
    + intros H. destruct (np_distinct zs) eqn:Ed; [|reflexivity]. apply np_distinct_NoDup in Ed. tauto.
Qed.

Lemma norm_axes_raise n ax e : norm_axes n ax = Raise e -> e = ValueError /\ np_norm_axes n ax = Raise ValueError.
Proof.
  destruct ax as [|a|l]; cbn; [discriminate| |].
  - rewrite norm_axis1_spec. unfold np_norm_axis.
    destruct ((- n <=? a) && (a <? n)); cbn; [discriminate|]. intros E; inversion E. auto.
  - rewrite map_res_np_norm.
    assert (H : forall e', np_norm_list n l = Raise e' -> e' = ValueError).
    { induction l as [|a l IH]; cbn; [discriminate|]. unfold np_norm_axis at 1.
      destruct ((- n <=? a) && (a <? n)); cbn; [|intros e' E; inversion E; reflexivity].
      destruct (np_norm_list n l); cbn; [discriminate|]. intros e' E; inversion E; subst. apply IH. reflexivity. }
    destruct (np_norm_list n l) eqn:El; cbn; [discriminate|]. intros E; inversion E; subst.
    rewrite (H e eq_refl). auto.
Qed.

Lemma calc_axes_some n l : axes_ok n l -> calc_axes n (Some l) = Ok l.
Proof.
  intros H. cbn. apply map_res_id. intros a Ha. unfold axes_ok in H. rewrite Forall_forall in H.
  specialize (H _ Ha). unfold s_calc_axis_elt. cbn. rewrite Z.geb_leb.
  destruct (Z.leb_spec 0 a); [reflexivity|lia].
Qed.

(* ------------------------------------------------------------------ sorting *)
Section Sort.
  Variable A : Type.

  Lemma insert_by_perm k (x : A) l : Permutation (insert_by k x l) ((k, x) :: l).
  Proof.
    induction l as [|[k' y] r IH]; simpl; [apply Permutation_refl|].
    destruct (k' <? k); [|apply Permutation_refl].
    eapply Permutation_trans; [apply perm_skip; exact IH|apply perm_swap].
  Qed.

  Lemma sort_by_perm (l : list (Z * A)) : Permutation (sort_by l) l.
  Proof.
    induction l as [|[k x] r IH]; simpl; [constructor|].
    eapply Permutation_trans; [apply insert_by_perm|]. constructor. exact IH.
  Qed.

  Lemma insert_by_sorted k (x : A) l :
    Sorted Z.le (map fst l) -> Sorted Z.le (map fst (insert_by k x l)).
  Proof.
    induction l as [|[k' y] r IH]; simpl; intros Hs; [repeat constructor|].
    destruct (Z.ltb_spec k' k); simpl.
    - inversion Hs as [|? ? Hs' Hhd]; subst. constructor; [apply IH; assumption|].
      destruct r as [|[k2 y2] r2]; simpl.
      + constructor. lia.
      + inversion Hhd; subst. destruct (k2 <? k); simpl; constructor; lia.
    - constructor; [assumption|]. constructor. lia.
  Qed.

  Lemma sort_by_sorted (l : list (Z * A)) : Sorted Z.le (map fst (sort_by l)).
  Proof.
    induction l as [|[k x] r IH]; simpl; [constructor|]. apply insert_by_sorted. exact IH.
  Qed.
End Sort.

Lemma nondecreasing_Sorted l : nondecreasing l = true -> Sorted Z.le l.
Proof.
  induction l as [|a r IH]; simpl; [constructor|].
  destruct r as [|b r']; [repeat constructor|].
  rewrite andb_true_iff. intros [Hab Hr]. constructor; [apply IH; assumption|]. constructor. lia.
Qed.

Lemma combine_map2 {A B C} (f : A -> B) (g : A -> C) (l : list A) :
  combine (map f l) (map g l) = map (fun x => (f x, g x)) l.
Proof. induction l; simpl; congruence. Qed.

Section WithV.
  Variable V : Type.

  Lemma coo_sorted_spec sh (es : list (idx * V)) fill :
    let a := coo_sorted V sh es fill in
    c_shape a = sh /\ c_fill a = fill /\ length (c_data a) = length (c_coords a) /\
    Permutation (entries a) es /\ Sorted Z.le (map (ravel sh) (c_coords a)).
  Proof.
    unfold coo_sorted.
    set (keyed := map (fun e => (ravel sh (fst e), e)) es).
    set (s := if nondecreasing (map fst keyed) then keyed else sort_by keyed).
    assert (Hp : Permutation s keyed).
    { unfold s. destruct (nondecreasing (map fst keyed)); [apply Permutation_refl|apply sort_by_perm]. }
    assert (Hs : Sorted Z.le (map fst s)).
    { unfold s. destruct (nondecreasing (map fst keyed)) eqn:E; [apply nondecreasing_Sorted; assumption|apply sort_by_sorted]. }
    assert (Hk : forall p, In p s -> fst p = ravel sh (fst (snd p))).
    { intros p Hin. apply (Permutation_in _ Hp) in Hin. unfold keyed in Hin. apply in_map_iff in Hin.
      destruct Hin as [e [<- _]]. reflexivity. }
    cbn. repeat split.
    - rewrite !map_length. reflexivity.
    - unfold entries. cbn. rewrite combine_map2.
      eapply Permutation_trans; [|].
      + apply Permutation_map. exact Hp.
      + unfold keyed. rewrite map_map. cbn. rewrite (map_ext _ (fun x => x)) by (intros [? ?]; reflexivity).
        rewrite map_id. apply Permutation_refl.
    - rewrite map_map. rewrite (map_ext_in _ fst); [assumption|]. intros p Hin. symmetry. apply Hk. assumption.
  Qed.
End WithV.

(* ------------------------------------------------------------------ COO.reshape / COO.transpose *)
Lemma zlist_eqb_eq a b : zlist_eqb a b = true <-> a = b.
Proof.
  revert b. induction a as [|x a IH]; intros [|y b]; simpl; try (split; [discriminate|congruence]); try tauto.
  rewrite andb_true_iff, IH, Z.eqb_eq. split; [intros [-> ->]; reflexivity|intros H; inversion H; auto].
Qed.

Lemma SS_map {A B} (R : A -> A -> Prop) (R' : B -> B -> Prop) (f : A -> B) l :
  StronglySorted R l -> (forall a b, In a l -> In b l -> R a b -> R' (f a) (f b)) ->
  StronglySorted R' (map f l).
Proof.
  induction 1 as [|a l Hs IH Hall]; intros Hf; simpl; constructor.
  - apply IH. intros x y Hx Hy. apply Hf; simpl; auto.
  - rewrite Forall_forall in *. intros y Hy. apply in_map_iff in Hy. destruct Hy as [x [<- Hx]].
    apply Hf; simpl; auto.
Qed.

Lemma SS_lt_Sorted_le l : StronglySorted Z.lt l -> Sorted Z.le l.
Proof.
  induction 1 as [|a l Hs IH Hall]; constructor; [assumption|].
  destruct l as [|b l']; constructor. inversion Hall; subst. lia.
Qed.

Lemma combine_map_l {A B C} (f : A -> C) (ks : list A) (vs : list B) :
  combine (map f ks) vs = map (fun e => (f (fst e), snd e)) (combine ks vs).
Proof.
  revert vs. induction ks as [|k ks IH]; intros [|v vs]; simpl; try reflexivity. rewrite IH. reflexivity.
Qed.

Section Structure.
  Variable V : Type.
  Notation canonical := (COOP.canonical V).

  Lemma canonical_ravel_sorted (c : coo V) :
    canonical c -> StronglySorted Z.lt (map (ravel (c_shape c)) (c_coords c)).
  Proof.
    intros [Hr [Hs _]]. eapply SS_map; [exact Hs|]. rewrite Forall_forall in Hr.
    intros a b Ha Hb Hab. apply ravel_lex; auto.
  Qed.

  Lemma in_entries_coords (c : coo V) ix v : In (ix, v) (entries c) -> In ix (c_coords c).
  Proof. unfold entries. apply in_combine_l. Qed.

  Lemma coords_in_entries (c : coo V) ix :
    length (c_data c) = length (c_coords c) -> In ix (c_coords c) -> exists v, In (ix, v) (entries c).
  Proof.
    unfold entries. generalize (c_data c). induction (c_coords c) as [|k ks IH]; intros [|v vs] Hl Hin;
      simpl in *; try tauto; try discriminate.
    destruct Hin as [->|Hin]; [exists v; auto|]. destruct (IH vs) as [w Hw]; auto. exists w; auto.
  Qed.

  Variable veqb : V -> V -> bool.

  Lemma reshape_spec (c : coo V) S' :
    canonical c -> shape_ok (c_shape c) -> shape_ok S' -> size (c_shape c) = size S' ->
    exists c', coo_reshape V S' c = Ok c' /\ c_shape c' = S' /\ c_fill c' = c_fill c /\ canonical c' /\
      (forall ix', in_range S' ix' -> den c' ix' = den c (unravel (c_shape c) (ravel S' ix'))) /\
      (prunedb veqb c = true -> prunedb veqb c' = true).
  Proof.
    intros Hc Hok Hok' Hsz. unfold coo_reshape.
    destruct (zlist_eqb (c_shape c) S') eqn:Eq.
    - apply zlist_eqb_eq in Eq. subst S'. exists c. repeat split; auto; try apply Hc.
      intros ix' Hr. rewrite unravel_ravel by assumption. reflexivity.
    - rewrite Hsz, Z.eqb_refl. cbn [negb].
      set (S := c_shape c) in *.
      set (phi := fun ix => unravel_code S' (ravel S ix)).
      destruct Hc as [Hr [Hs Hl]]. rewrite Forall_forall in Hr.
      assert (Hphi : forall ix, in_range S ix -> phi ix = unravel S' (ravel S ix)).
      { intros ix Hix. unfold phi. apply unravel_code_eq; [assumption|]. rewrite <- Hsz. apply ravel_bounds. assumption. }
      assert (Hphi_r : forall ix, in_range S ix -> in_range S' (phi ix)).
      { intros ix Hix. rewrite Hphi by assumption. apply unravel_in_range; [assumption|].
        rewrite <- Hsz. apply ravel_bounds. assumption. }
      assert (Hphi_rav : forall ix, in_range S ix -> ravel S' (phi ix) = ravel S ix).
      { intros ix Hix. rewrite Hphi by assumption. apply ravel_unravel; [assumption|].
        rewrite <- Hsz. apply ravel_bounds. assumption. }
      eexists. split; [reflexivity|]. cbn [c_shape c_fill c_coords c_data].
      assert (Hcan : canonical (mkCOO S' (map phi (c_coords c)) (c_data c) (c_fill c))).
      { split; [|split]; cbn.
        - apply Forall_forall. intros y Hy. apply in_map_iff in Hy. destruct Hy as [k [<- Hk]]. auto.
        - eapply SS_map; [exact Hs|]. intros a b Ha Hb Hab.
          apply (ravel_lex S'); auto. rewrite !Hphi_rav by auto. apply (ravel_lex S); auto.
        - rewrite map_length. assumption. }
      repeat split; try apply Hcan; auto.
      intros ix' Hix'.
      assert (Hb : 0 <= ravel S' ix' < size S) by (rewrite Hsz; apply ravel_bounds; assumption).
      set (ix := unravel S (ravel S' ix')).
      assert (Hix : in_range S ix) by (apply unravel_in_range; assumption).
      assert (Hback : phi ix = ix').
      { rewrite Hphi by assumption. unfold ix. rewrite ravel_unravel by assumption. apply unravel_ravel. assumption. }
      destruct (in_dec (list_eq_dec Z.eq_dec) ix (c_coords c)) as [Hin|Hnin].
      + destruct (coords_in_entries c ix Hl Hin) as [v Hv].
        rewrite (den_stored V c ix v); [|repeat split; auto; apply Forall_forall; assumption|assumption].
        apply den_stored; [exact Hcan|]. unfold entries. cbn. rewrite combine_map_l.
        apply in_map_iff. exists (ix, v). split; [cbn; rewrite Hback; reflexivity|exact Hv].
      + rewrite (den_unstored V c ix Hnin). rewrite den_unstored; [reflexivity|]. cbn. intros Hin.
        apply in_map_iff in Hin. destruct Hin as [k [Ek Hk]]. apply Hnin.
        assert (Hk' : k = ix); [|rewrite <- Hk'; assumption].
        apply (ravel_inj S); auto. rewrite <- Hphi_rav by auto. rewrite Ek, <- Hback. apply Hphi_rav. assumption.
  Qed.

  Lemma norm_axes_map_ok n p : axes_ok n p -> map_res (norm_axis1 n) p = Ok p.
  Proof.
    intros H. apply map_res_id. intros a Ha. rewrite norm_axis1_spec. apply np_norm_axis_id.
    unfold axes_ok in H. rewrite Forall_forall in H. auto.
  Qed.

  Lemma transpose_spec (x : coo V) p :
    canonical x -> is_perm (zlen (c_shape x)) p ->
    exists a, coo_transpose V p x = Ok a /\ c_shape a = sel 0 p (c_shape x) /\ c_fill a = c_fill x /\
      length (c_data a) = length (c_coords a) /\
      Permutation (entries a) (map (fun e => (sel 0 p (fst e), snd e)) (entries x)) /\
      Sorted Z.le (map (ravel (c_shape a)) (c_coords a)).
  Proof.
    intros Hc Hp. unfold coo_transpose.
    rewrite norm_axes_map_ok by (apply is_perm_axes_ok; assumption). cbn [bind].
    destruct Hp as [Hnd Hm]. rewrite (proj2 (nodupb_NoDup p) Hnd). cbn [negb].
    rewrite (is_perm_length (zlen (c_shape x)) p) by (unfold zlen; try lia; split; assumption).
    rewrite Z.eqb_refl. cbn [negb].
    destruct (zlist_eqb p (zrange (zlen (c_shape x)))) eqn:Eq.
    - apply zlist_eqb_eq in Eq. subst p. exists x. rewrite sel_id.
      split; [reflexivity|]. split; [reflexivity|]. split; [reflexivity|]. split; [apply Hc|]. split.
      + rewrite <- (map_id (entries x)) at 1. apply Permutation_refl'. apply map_ext_in.
        intros [ix v] Hin. cbn. f_equal. destruct Hc as [Hr _]. rewrite Forall_forall in Hr.
        apply in_entries_coords in Hin. specialize (Hr _ Hin). apply in_range_length in Hr.
        replace (zlen (c_shape x)) with (zlen ix) by (unfold zlen; lia). symmetry. apply sel_id.
      + apply SS_lt_Sorted_le. apply canonical_ravel_sorted. assumption.
    - eexists. split; [reflexivity|].
      destruct (coo_sorted_spec V (sel 0 p (c_shape x)) (map (fun e => (sel 0 p (fst e), snd e)) (entries x)) (c_fill x))
        as [H1 [H2 [H3 [H4 H5]]]].
      repeat split; try assumption.
  Qed.
End Structure.

(* ------------------------------------------------------------------ one dense row *)
Lemma app_inj_len {A} (a b c d : list A) : length a = length c -> a ++ b = c ++ d -> a = c /\ b = d.
Proof.
  revert c. induction a as [|x a IH]; intros [|y c] Hl H; simpl in *; try discriminate; [auto|].
  inversion H; subst. destruct (IH c) as [-> ->]; auto.
Qed.

Lemma NoDup_map_filter {A B} (f : A -> B) (p : A -> bool) l : NoDup (map f l) -> NoDup (map f (filter p l)).
Proof.
  induction l as [|a l IH]; simpl; intros H; [constructor|]. inversion H; subst.
  destruct (p a); simpl; [|auto]. constructor; [|auto].
  intros Hin. apply H2. apply in_map_iff in Hin. destruct Hin as [x [E Hx]]. apply filter_In in Hx.
  apply in_map_iff. exists x. tauto.
Qed.

Section Row.
  Variable V : Type.
  Variable x : coo V.
  Hypothesis Hcan : COOP.canonical V x.
  Hypothesis Hok : shape_ok (c_shape x).
  Variable axes : list Z.
  Hypothesis Hnd : NoDup axes.
  Hypothesis Hax : axes_ok (zlen (c_shape x)) axes.

  Let sh := c_shape x.
  Let n := zlen sh.
  Let kept := kept_axes n axes.
  Let K := sel 0 kept sh.
  Let R := sel 0 axes sh.
  Let p := kept ++ axes.

  Lemma row_perm : is_perm n p.
  Proof. apply kept_perm; assumption. Qed.

  Lemma sel_p_shape : sel 0 p sh = K ++ R.
  Proof. unfold p, K, R. apply sel_app. Qed.

  Lemma in_range_zlen ix : in_range sh ix -> zlen ix = n.
  Proof. intros H. apply in_range_length in H. unfold n, zlen. lia. Qed.

  (* the cells of the input that project to the kept coordinates oix *)
  Definition cells (oix : idx) : list idx := np_cells sh kept oix.
  (* the stored entries among them *)
  Definition row_entries (oix : idx) : list (idx * V) :=
    filter (fun e => idx_eqb (sel 0 kept (fst e)) oix) (entries x).

  Lemma cells_In oix ix : In ix (cells oix) <-> in_range sh ix /\ sel 0 kept ix = oix.
  Proof. unfold cells, np_cells. rewrite filter_In, all_indices_In, idx_eqb_eq. tauto. Qed.

  Lemma cells_NoDup oix : NoDup (cells oix).
  Proof. unfold cells, np_cells. apply NoDup_filter. apply all_indices_NoDup. Qed.

  Lemma cells_length oix : in_range K oix -> Z.of_nat (length (cells oix)) = size R.
  Proof.
    intros Hoix. pose proof row_perm as Hp.
    assert (HokR : shape_ok R) by (apply sel_shape_ok; assumption).
    rewrite <- (length_all_indices R HokR). f_equal.
    rewrite <- (map_length (sel 0 axes)). apply Permutation_length.
    apply NoDup_Permutation.
    - apply NoDup_map_inj; [|apply cells_NoDup].
      intros a b Ha Hb He. apply cells_In in Ha, Hb. destruct Ha as [Ha1 Ha2], Hb as [Hb1 Hb2].
      apply (sel_inj n p); auto using in_range_zlen.
      unfold p. rewrite !sel_app. congruence.
    - apply all_indices_NoDup.
    - intros y. rewrite all_indices_In, in_map_iff. split.
      + intros [ix [<- Hix]]. apply cells_In in Hix. apply sel_in_range; tauto.
      + intros Hy.
        assert (Hl1 : length K = length oix) by (symmetry; apply in_range_length; assumption).
        assert (Hl2 : length R = length y) by (symmetry; apply in_range_length; assumption).
        assert (Hr : in_range (sel 0 p sh) (oix ++ y)).
        { rewrite sel_p_shape. apply in_range_app; [assumption|]. tauto. }
        pose proof (place_in_range sh p (oix ++ y) Hp Hr) as Hpl.
        assert (Hsel : sel 0 p (place p (oix ++ y) n) = oix ++ y).
        { apply sel_place; [unfold n, zlen; lia|assumption|].
          unfold p. rewrite !app_length. unfold K, R in Hl1, Hl2. rewrite sel_length in Hl1, Hl2. lia. }
        unfold p in Hsel at 1. rewrite sel_app in Hsel.
        apply app_inj_len in Hsel; [|rewrite sel_length; unfold K in Hl1; rewrite sel_length in Hl1; lia].
        destruct Hsel as [Hs1 Hs2].
        exists (place p (oix ++ y) n). split; [assumption|]. apply cells_In. split; assumption.
  Qed.

  Definition memb (ix : idx) : bool := existsb (idx_eqb ix) (c_coords x).
  Lemma memb_In ix : memb ix = true <-> In ix (c_coords x).
  Proof.
    unfold memb. rewrite existsb_exists. split.
    - intros [y [Hy He]]. apply idx_eqb_eq in He. subst. assumption.
    - intros H. exists ix. split; [assumption|apply idx_eqb_refl].
  Qed.

  Lemma row_entries_In oix ix v :
    In (ix, v) (row_entries oix) <-> In (ix, v) (entries x) /\ sel 0 kept ix = oix.
  Proof. unfold row_entries. rewrite filter_In. cbn. rewrite idx_eqb_eq. tauto. Qed.

  (* the dense row is the stored entries of the row plus copies of the fill value *)
  Lemma dense_row_perm oix : in_range K oix ->
    exists m, Permutation (map (den x) (cells oix)) (map snd (row_entries oix) ++ repeat (c_fill x) m)
              /\ Z.of_nat (length (row_entries oix)) + Z.of_nat m = size R.
  Proof.
    intros Hoix. destruct Hcan as [Hr [Hs Hl]]. rewrite Forall_forall in Hr.
    set (st := filter memb (cells oix)). set (un := filter (fun ix => negb (memb ix)) (cells oix)).
    exists (length un).
    assert (Hperm : Permutation st (map fst (row_entries oix))).
    { apply NoDup_Permutation.
      - apply NoDup_filter. apply cells_NoDup.
      - unfold row_entries. apply NoDup_map_filter. unfold entries.
        rewrite combine_map_fst by lia. apply SS_lex_NoDup. assumption.
      - intros ix. unfold st. rewrite filter_In, cells_In, memb_In, in_map_iff. split.
        + intros [[Hir Hsel] Hin]. destruct (coords_in_entries V x ix Hl Hin) as [v Hv].
          exists (ix, v). split; [reflexivity|]. apply row_entries_In. tauto.
        + intros [[ix' v] [<- Hin]]. cbn. apply row_entries_In in Hin. destruct Hin as [Hin Hsel].
          pose proof (in_entries_coords V x _ _ Hin). auto. }
    split.
    - eapply Permutation_trans; [apply Permutation_map; apply (perm_filter_split memb)|].
      rewrite map_app. apply Permutation_app.
      + eapply Permutation_trans; [apply Permutation_map; exact Hperm|].
        rewrite map_map. apply Permutation_refl'. apply map_ext_in. intros [ix v] Hin. cbn.
        apply row_entries_In in Hin. apply den_stored; [exact Hcan|tauto].
      + fold un. apply Permutation_refl'. apply map_repeat_const. intros ix Hin. unfold un in Hin.
        apply filter_In in Hin. destruct Hin as [_ Hm]. apply den_unstored.
        intros Hc. apply memb_In in Hc. rewrite Hc in Hm. discriminate.
    - rewrite <- (cells_length oix Hoix). rewrite (filter_length_split memb (cells oix)).
      fold st un. rewrite (Permutation_length Hperm), map_length. lia.
  Qed.
End Row.

(* ------------------------------------------------------------------ the value of one output cell *)
Section Cell.
  Variable V : Type.
  Variable veqb : V -> V -> bool.
  Hypothesis veqb_eq : forall a b, veqb a b = true <-> a = b.
  Variable op : V -> V -> V.
  Hypothesis op_assoc : forall a b c, op a (op b c) = op (op a b) c.
  Hypothesis op_comm : forall a b, op a b = op b a.
  Variable cast : V -> V.
  Hypothesis cast_op : forall a b, cast (op (cast a) (cast b)) = op (cast a) (cast b).
  Variable sup : option (V -> Z -> V).
  Variable ident : option V.
  (* the super-ufunc iterates the ufunc: s f k is the fold of k >= 1 copies of f *)
  Hypothesis sup_one : forall s f, sup = Some s -> s f 1 = cast f.
  Hypothesis sup_succ : forall s f k, sup = Some s -> 1 <= k -> s f (k + 1) = op (s f k) (cast f).

  Notation ofold := (ofold op).
  Notation fold1 := (fold1 V op).

  Lemma np_fold_ofold vals :
    np_fold V op cast ident vals =
    match ofold (map cast vals) with
    | Some v => Ok v
    | None => match ident with Some e => Ok e | None => Raise ValueError end
    end.
  Proof.
    destruct vals as [|v r]; [reflexivity|]. cbn [np_fold map].
    rewrite (ofold_cons_fold_left V op op_assoc). reflexivity.
  Qed.

  Lemma ofold_fold1 d l : l <> [] -> ofold l = Some (fold1 d l).
  Proof. destruct l as [|v r]; [congruence|]. intros _. apply (ofold_cons_fold_left V op op_assoc). Qed.

  Lemma fold1_perm d l l' : l <> [] -> Permutation l l' -> fold1 d l = fold1 d l'.
  Proof.
    intros Hne Hp. assert (Hne' : l' <> []).
    { intros ->. apply Permutation_sym, Permutation_nil in Hp. contradiction. }
    pose proof (ofold_perm V op op_assoc op_comm _ _ Hp) as E.
    rewrite (ofold_fold1 d l Hne), (ofold_fold1 d l' Hne') in E. congruence.
  Qed.

  Lemma ofold_repeat_sup s f m : sup = Some s ->
    ofold (repeat (cast f) (S m)) = Some (s f (Z.of_nat (S m))).
  Proof.
    intros Hs. induction m as [|m IH].
    - cbn. rewrite (sup_one s f Hs). reflexivity.
    - change (repeat (cast f) (S (S m))) with (cast f :: repeat (cast f) (S m)).
      cbn [ReduceLemmas.ofold fold_right]. fold (ofold (repeat (cast f) (S m))). rewrite IH.
      cbn [oop]. f_equal. replace (Z.of_nat (S (S m))) with (Z.of_nat (S m) + 1) by lia.
      rewrite (sup_succ s f _ Hs) by lia. apply op_comm.
  Qed.

  (* grouped_reduce_row: the corrected value of a row (complete, deficient or absent group) is
     the fold over the dense row *)
  Lemma row_value (f : V) (ncols : Z) (stored : list V) (m : nat) (dense_row : list V) (dflt : V) :
    admissible V veqb op cast sup f = true ->
    Permutation dense_row (stored ++ repeat f m) ->
    zlen stored + Z.of_nat m = ncols ->
    np_fold V op cast ident dense_row =
      match stored with
      | [] => result_fill V sup ident f ncols
      | _ => Ok (fix_cell V op cast sup f ncols (fold1 dflt (map cast stored)) (zlen stored))
      end.
  Proof.
    intros Hadm Hperm Hlen.
    rewrite np_fold_ofold.
    rewrite (ofold_perm V op op_assoc op_comm _ _ (Permutation_map cast Hperm)).
    rewrite map_app, map_repeat', (ofold_app V op op_assoc).
    unfold admissible in Hadm.
    unfold fix_cell, result_fill. unfold zlen in *.
    assert (Hcase : (exists s, sup = Some s) \/ sup = None) by (destruct sup; eauto).
    destruct Hcase as [[s Es]|Es]; rewrite Es in Hadm |- *.
    - (* add / multiply *)
      destruct stored as [|v r].
      + cbn [map ReduceLemmas.ofold fold_right oop length] in *.
        destruct m as [|m].
        * destruct (Z.eqb_spec ncols 0); [reflexivity|lia].
        * rewrite (ofold_repeat_sup s f m Es). destruct (Z.eqb_spec ncols 0); [lia|]. cbn [oop]. f_equal. f_equal. lia.
      + rewrite (ofold_fold1 dflt (map cast (v :: r))) by discriminate.
        cbn [length] in Hlen. destruct (Z.eqb_spec ncols 0); [lia|].
        destruct m as [|m].
        * cbn [repeat ReduceLemmas.ofold fold_right oop].
          destruct (Z.eqb_spec (Z.of_nat (length (v :: r))) ncols); [reflexivity|cbn [length] in *; lia].
        * rewrite (ofold_repeat_sup s f m Es). cbn [oop].
          destruct (Z.eqb_spec (Z.of_nat (length (v :: r))) ncols); [cbn [length] in *; lia|].
          cbn [negb]. f_equal. f_equal. f_equal. cbn [length] in *. lia.
    - (* op f f = f *)
      cbn [is_none negb orb] in *. rewrite orb_false_r in Hadm. apply veqb_eq in Hadm.
      assert (Hcf : cast f = f) by (rewrite <- Hadm at 1; rewrite cast_op; assumption).
      rewrite Hcf in *.
      destruct stored as [|v r].
      + cbn [map ReduceLemmas.ofold fold_right oop length] in *.
        destruct m as [|m].
        * destruct (Z.eqb_spec ncols 0); [reflexivity|lia].
        * rewrite (ofold_repeat_idem V op f (S m) Hadm) by lia. destruct (Z.eqb_spec ncols 0); [lia|reflexivity].
      + rewrite (ofold_fold1 dflt (map cast (v :: r))) by discriminate.
        cbn [length] in Hlen. destruct (Z.eqb_spec ncols 0); [lia|].
        destruct m as [|m].
        * cbn [repeat ReduceLemmas.ofold fold_right oop].
          destruct (Z.eqb_spec (Z.of_nat (length (v :: r))) ncols); [reflexivity|cbn [length] in *; lia].
        * rewrite (ofold_repeat_idem V op f (S m) Hadm) by lia. cbn [oop].
          destruct (Z.eqb_spec (Z.of_nat (length (v :: r))) ncols); [cbn [length] in *; lia|reflexivity].
  Qed.
End Cell.

(* ------------------------------------------------------------------ COO._reduce_calc *)
Lemma Sorted_le_map_mono {A} (f g : A -> Z) l :
  Sorted Z.le (map f l) -> (forall a b, In a l -> In b l -> f a <= f b -> g a <= g b) ->
  Sorted Z.le (map g l).
Proof.
  intros Hs Hm. apply StronglySorted_Sorted.
  apply Sorted_StronglySorted in Hs; [|intros a b c; lia].
  revert Hs Hm. induction l as [|a l IH]; simpl; intros Hs Hm; [constructor|].
  inversion Hs as [|? ? Hs' Hall]; subst. constructor.
  - apply IH; [assumption|]. intros; apply Hm; auto.
  - rewrite Forall_forall in *. intros y Hy. apply in_map_iff in Hy. destruct Hy as [b [<- Hb]].
    apply Hm; auto. apply Hall. apply in_map. assumption.
Qed.

Lemma firstn_app_len {A} (a b : list A) : firstn (length a) (a ++ b) = a.
Proof. induction a; simpl; congruence. Qed.

Section Calc.
  Variable V : Type.
  Variable op : V -> V -> V.
  Variable cast : V -> V.
  Variable x : coo V.
  Hypothesis Hcan : COOP.canonical V x.
  Hypothesis Hok : shape_ok (c_shape x).
  Variable axes : list Z.
  Hypothesis Hnd : NoDup axes.
  Hypothesis Hax : axes_ok (zlen (c_shape x)) axes.

  Let sh := c_shape x.
  Let n := zlen sh.
  Let kept := kept_axes n axes.
  Let K := sel 0 kept sh.
  Let R := sel 0 axes sh.
  Let p := kept ++ axes.
  Let nrows := size K.
  Let ncols := size R.

  (* the row number of a stored entry of x *)
  Definition rowof (e : idx * V) : Z := ravel K (sel 0 kept (fst e)).

  Lemma rowof_bounds e : In e (entries x) -> 0 <= rowof e < nrows.
  Proof.
    intros Hin. destruct e as [ix v]. apply in_entries_coords in Hin.
    destruct Hcan as [Hr _]. rewrite Forall_forall in Hr. specialize (Hr _ Hin).
    apply ravel_bounds. apply sel_in_range; [assumption|apply kept_axes_ok].
  Qed.

  Lemma calc_rows nax :
    calc_axes n nax = Ok axes ->
    exists rows data2,
      coo_reduce_calc V op cast nax x =
        (g <- grouped_reduce V op cast (c_fill x) data2 rows ;;
         let '(data, inv, counts) := g in Ok (mkCalc data counts axes ncols nrows rows inv kept))
      /\ length data2 = length rows /\ Sorted Z.le rows
      /\ Permutation (combine rows data2) (map (fun e => (rowof e, snd e)) (entries x))
      /\ (* the transposed array the rows were read from *)
         exists a : coo V,
           c_shape a = K ++ R /\ length (c_data a) = length (c_coords a) /\
           Permutation (entries a) (map (fun e => (sel 0 p (fst e), snd e)) (entries x)) /\
           Sorted Z.le (map (ravel (K ++ R)) (c_coords a)) /\
           data2 = c_data a /\
           rows = map (fun ix' => ravel K (firstn (length kept) ix')) (c_coords a).
  Proof.
    intros Hcalc. unfold coo_reduce_calc. fold sh n. rewrite Hcalc. cbn [bind]. fold kept.
    pose proof (row_perm V x axes Hnd Hax) as Hp. fold sh n kept in Hp.
    destruct (transpose_spec V x (kept ++ axes) Hcan Hp) as [a [Ha [Hsh [Hfill [Hlen [Hperm Hsorted]]]]]].
    rewrite Ha. cbn [bind]. fold K R nrows ncols.
    assert (Hsh' : c_shape a = K ++ R) by (rewrite Hsh; apply sel_app).
    assert (HokK : shape_ok K) by (apply sel_shape_ok; assumption).
    assert (HokR : shape_ok R) by (apply sel_shape_ok; assumption).
    pose proof (size_nonneg _ HokK) as HnK. pose proof (size_nonneg _ HokR) as HnR. fold nrows in HnK. fold ncols in HnR.
    (* every coordinate of a is sel p ix for a stored ix *)
    assert (Hco : forall ix', In ix' (c_coords a) ->
                  exists ix, In ix (c_coords x) /\ in_range sh ix /\ ix' = sel 0 kept ix ++ sel 0 axes ix).
    { intros ix' Hin. destruct (coords_in_entries V a ix' Hlen Hin) as [v Hv].
      apply (Permutation_in _ Hperm) in Hv. apply in_map_iff in Hv. destruct Hv as [[ix w] [E He]].
      cbn in E. inversion E; subst. exists ix. apply in_entries_coords in He.
      destruct Hcan as [Hr _]. rewrite Forall_forall in Hr. split; [assumption|]. split; [auto|apply sel_app]. }
    set (rowc := fun ix' : idx => ravel K (firstn (length kept) ix')).
    assert (Hrowc : forall ix, rowc (sel 0 kept ix ++ sel 0 axes ix) = ravel K (sel 0 kept ix)).
    { intros ix. unfold rowc. rewrite <- (sel_length 0 kept ix) at 1. rewrite firstn_app_len. reflexivity. }
    (* the linear location splits into row * ncols + col *)
    assert (Hlin : forall ix, in_range sh ix ->
               let ix' := sel 0 kept ix ++ sel 0 axes ix in
               ravel (K ++ R) ix' = ravel K (sel 0 kept ix) * ncols + ravel R (sel 0 axes ix)
               /\ 0 <= ravel K (sel 0 kept ix) < nrows /\ 0 <= ravel R (sel 0 axes ix) < ncols
               /\ in_range (K ++ R) ix').
    { intros ix Hix. cbn zeta.
      assert (H1 : in_range K (sel 0 kept ix)) by (apply sel_in_range; [assumption|apply kept_axes_ok]).
      assert (H2 : in_range R (sel 0 axes ix)) by (apply sel_in_range; assumption).
      assert (Hl : length K = length (sel 0 kept ix)) by (unfold K; rewrite !sel_length; reflexivity).
      split; [apply ravel_app; assumption|]. split; [apply ravel_bounds; assumption|].
      split; [apply ravel_bounds; assumption|]. apply in_range_app; auto. }
    (* the first coordinate after the reshape to 2-D is the row number *)
    assert (Hrow2 : forall ix', In ix' (c_coords a) ->
               nth 0 (unravel_code [nrows; ncols] (ravel (K ++ R) ix')) 0 = rowc ix').
    { intros ix' Hin. destruct (Hco _ Hin) as [ix [_ [Hix ->]]]. rewrite Hrowc.
      destruct (Hlin ix Hix) as [E [Hb1 [Hb2 _]]]. cbn zeta in E. rewrite E.
      cbn [unravel_code nth size fold_right]. rewrite Z.mul_1_r.
      rewrite Z.div_add_l by lia. rewrite (Z.div_small (ravel R _)) by lia.
      rewrite Z.add_0_r. apply Z.mod_small. assumption. }
    assert (Hsz : size (c_shape a) = size [nrows; ncols]).
    { rewrite Hsh', size_app. cbn. fold nrows ncols. lia. }
    assert (Hrows : exists a2, coo_reshape V [nrows; ncols] a = Ok a2 /\ c_data a2 = c_data a /\
                     map (fun ix => nth 0 ix 0) (c_coords a2) = map rowc (c_coords a)).
    { unfold coo_reshape. destruct (zlist_eqb (c_shape a) [nrows; ncols]) eqn:Eq.
      - exists a. split; [reflexivity|]. split; [reflexivity|]. apply map_ext_in. intros ix' Hin.
        rewrite <- (Hrow2 _ Hin). apply zlist_eqb_eq in Eq. rewrite <- Hsh', Eq.
        rewrite unravel_code_ravel; [reflexivity| |].
        + repeat constructor; assumption.
        + rewrite <- Eq, Hsh'. destruct (Hco _ Hin) as [ix [_ [Hix ->]]]. apply (Hlin ix Hix).
      - rewrite Hsz, Z.eqb_refl. cbn [negb]. eexists. split; [reflexivity|]. split; [reflexivity|].
        cbn [c_coords]. rewrite map_map. apply map_ext_in. intros ix' Hin. rewrite Hsh'. apply Hrow2. assumption. }
    destruct Hrows as [a2 [Ha2 [Hd2 Hr2]]]. rewrite Ha2. cbn [bind].
    exists (map rowc (c_coords a)), (c_data a). rewrite Hr2, Hd2.
    rewrite Hsh' in Hsorted.
    split; [reflexivity|]. split; [rewrite map_length; assumption|]. split; [|split].
    - (* rows are non-decreasing because the linear locations are *)
      eapply Sorted_le_map_mono; [exact Hsorted|].
      intros u w Hu Hw Hle. destruct (Hco _ Hu) as [iu [_ [Hiu ->]]]. destruct (Hco _ Hw) as [iw [_ [Hiw ->]]].
      rewrite !Hrowc. destruct (Hlin iu Hiu) as [Eu [Hu1 [Hu2 _]]]. destruct (Hlin iw Hiw) as [Ew [Hw1 [Hw2 _]]].
      cbn zeta in Eu, Ew. rewrite Eu, Ew in Hle. nia.
    - rewrite combine_map_l. fold (entries a).
      eapply Permutation_trans; [apply Permutation_map; exact Hperm|].
      rewrite map_map. apply Permutation_refl'. apply map_ext. intros [ix v]. cbn.
      unfold rowof. cbn. f_equal. rewrite sel_app. apply Hrowc.
    - exists a. repeat split; try assumption; reflexivity.
  Qed.
End Calc.

(* ------------------------------------------------------------------ COO._reduce_return *)
Lemma map2_res_map {A B C K} (f : A -> B -> C) (fa : K -> A) (fb : K -> B) (ks : list K) :
  map2_res (fun a b => Ok (f a b)) (map fa ks) (map fb ks) = Ok (map (fun g => f (fa g) (fb g)) ks).
Proof. induction ks as [|g ks IH]; cbn; [reflexivity|]. rewrite IH. reflexivity. Qed.

Section Return.
  Variable V : Type.
  Variable veqb : V -> V -> bool.
  Hypothesis veqb_eq : forall a b, veqb a b = true <-> a = b.

  Lemma return_spec (sh : shape) (kept ks : list Z) (VAL : Z -> V) (rfill : V) (k : calc V) (data : list V) :
    let K := sel 0 kept sh in
    shape_ok K ->
    StronglySorted Z.lt ks -> Forall (fun g => 0 <= g < size K) ks ->
    k_nrows V k = size K -> k_kept V k = kept ->
    map (fun i => [nth (Z.to_nat i) (k_rows V k) 0]) (k_inv V k) = map (fun g => [g]) ks ->
    data = map VAL ks ->
    exists out, coo_reduce_return V veqb sh k data rfill = Ok out /\ c_shape out = K /\ c_fill out = rfill /\
      COOP.canonical V out /\ prunedb veqb out = true /\
      forall oix, in_range K oix ->
        den out oix = if in_dec Z.eq_dec (ravel K oix) ks then VAL (ravel K oix) else rfill.
  Proof.
    intros K HokK Hss Hrange Hnr Hkept Hcoords ->. unfold coo_reduce_return.
    rewrite Hcoords, Hnr, Hkept. fold K. rewrite combine_map2.
    rewrite filter_map_comm. cbn [snd].
    set (ks' := filter (fun g => negb (veqb (VAL g) rfill)) ks).
    rewrite !map_map. cbn [fst snd].
    set (out1 := mkCOO [size K] (map (fun g => [g]) ks') (map VAL ks') rfill).
    assert (Hks' : forall g, In g ks' <-> In g ks /\ VAL g <> rfill).
    { intros g. unfold ks'. rewrite filter_In, negb_true_iff. split; intros [H1 H2]; split; auto.
      - intros E. apply veqb_eq in E. congruence.
      - destruct (veqb (VAL g) rfill) eqn:E; [|reflexivity]. apply veqb_eq in E. contradiction. }
    rewrite Forall_forall in Hrange.
    assert (Hcan1 : COOP.canonical V out1).
    { split; [|split]; cbn.
      - apply Forall_forall. intros y Hy. apply in_map_iff in Hy. destruct Hy as [g [<- Hg]].
        apply Hks' in Hg. cbn. split; [apply Hrange; tauto|exact I].
      - eapply SS_map; [apply SS_filter; exact Hss|]. intros a b _ _ Hab. cbn. left. assumption.
      - rewrite !map_length. reflexivity. }
    assert (Hpr1 : prunedb veqb out1 = true).
    { unfold prunedb. cbn. apply forallb_forall. intros v Hv. apply in_map_iff in Hv.
      destruct Hv as [g [<- Hg]]. unfold ks' in Hg. apply filter_In in Hg. tauto. }
    assert (Hden1 : forall g0, den out1 [g0] = if in_dec Z.eq_dec g0 ks then VAL g0 else rfill).
    { intros g0. destruct (in_dec Z.eq_dec g0 ks) as [Hin|Hnin].
      - destruct (veqb (VAL g0) rfill) eqn:E.
        + apply veqb_eq in E. rewrite E. rewrite den_unstored; [reflexivity|]. cbn.
          intros Hc. apply in_map_iff in Hc. destruct Hc as [g [Eg Hg]]. inversion Eg; subst.
          apply Hks' in Hg. tauto.
        + apply den_stored; [exact Hcan1|]. unfold entries. cbn. rewrite combine_map2.
          apply in_map_iff. exists g0. split; [reflexivity|]. apply Hks'. split; [assumption|].
          intros Ev. apply veqb_eq in Ev. congruence.
      - rewrite den_unstored; [reflexivity|]. cbn. intros Hc. apply in_map_iff in Hc.
        destruct Hc as [g [Eg Hg]]. inversion Eg; subst. apply Hks' in Hg. tauto. }
    pose proof (size_nonneg _ HokK) as HnK.
    destruct (reshape_spec V veqb out1 K Hcan1) as [out [Hout [Hsh [Hf [Hc [Hd Hp]]]]]].
    - cbn. repeat constructor. assumption.
    - assumption.
    - cbn. lia.
    - exists out. split; [exact Hout|]. split; [assumption|]. split; [assumption|]. split; [assumption|].
      split; [apply Hp; assumption|]. intros oix Hoix. rewrite (Hd _ Hoix). cbn [c_shape out1 unravel size fold_right].
      rewrite Z.div_1_r. apply Hden1.
  Qed.
End Return.

(* ------------------------------------------------------------------ the core: calc, correction, return *)
Lemma in_combine_ex {A B} (l1 : list A) (l2 : list B) a :
  length l2 = length l1 -> In a l1 -> exists b, In (a, b) (combine l1 l2).
Proof.
  revert l2. induction l1 as [|x l1 IH]; intros [|y l2] Hl Hin; simpl in *; try tauto; try discriminate.
  destruct Hin as [->|Hin]; [eauto|]. destruct (IH l2) as [b Hb]; [lia|assumption|]. eauto.
Qed.

Section Core.
  Variable V : Type.
  Variable veqb : V -> V -> bool.
  Hypothesis veqb_eq : forall a b, veqb a b = true <-> a = b.
  Variable op : V -> V -> V.
  Hypothesis op_assoc : forall a b c, op a (op b c) = op (op a b) c.
  Hypothesis op_comm : forall a b, op a b = op b a.
  Variable cast : V -> V.
  Hypothesis cast_op : forall a b, cast (op (cast a) (cast b)) = op (cast a) (cast b).
  Variable sup : option (V -> Z -> V).
  Variable ident : option V.
  Hypothesis sup_one : forall s f, sup = Some s -> s f 1 = cast f.
  Hypothesis sup_succ : forall s f k, sup = Some s -> 1 <= k -> s f (k + 1) = op (s f k) (cast f).

  Variable x : coo V.
  Hypothesis Hcan : COOP.canonical V x.
  Hypothesis Hok : shape_ok (c_shape x).
  Variable axes : list Z.
  Hypothesis Hnd : NoDup axes.
  Hypothesis Hax : axes_ok (zlen (c_shape x)) axes.
  Hypothesis Hadm : admissible V veqb op cast sup (c_fill x) = true.

  Let sh := c_shape x.
  Let n := zlen sh.
  Let kept := kept_axes n axes.
  Let K := sel 0 kept sh.
  Let R := sel 0 axes sh.
  Let ncols := size R.
  Let f := c_fill x.

  Theorem core_den nax :
    calc_axes n nax = Ok axes ->
    exists k data,
      coo_reduce_calc V op cast nax x = Ok k /\ k_axes V k = axes /\ k_ncols V k = ncols /\
      map2_res (fun d c => Ok (fix_cell V op cast sup f (k_ncols V k) d c)) (k_data V k) (k_counts V k) = Ok data /\
      forall rf, result_fill V sup ident f ncols = Ok rf ->
      exists out,
      coo_reduce_return V veqb sh k data rf = Ok out /\
      c_shape out = K /\ c_fill out = rf /\
      COOP.canonical V out /\ prunedb veqb out = true /\
      forall oix, in_range K oix ->
        np_fold V op cast ident (map (den x) (np_cells sh kept oix)) = Ok (den out oix).
  Proof.
    intros Hcalc.
    destruct (calc_rows V op cast x Hcan Hok axes Hnd Hax nax Hcalc) as [rows [data2 [Hk [Hlen [Hsorted [Hperm _]]]]]].
    fold sh n kept K R ncols in Hk.
    rewrite (grouped_reduce_sorted V op cast (c_fill x) data2 rows Hlen Hsorted) in Hk. cbn [bind] in Hk.
    set (vals := vals_of V rows data2) in *.
    set (VAL := fun g => fix_cell V op cast sup f ncols (fold1 V op (c_fill x) (map cast (vals g))) (zlen (vals g))).
    assert (HokK : shape_ok K) by (apply sel_shape_ok; assumption).
    (* group numbers are row numbers of stored entries *)
    assert (Hrows : forall g, In g rows -> exists e, In e (entries x) /\ g = rowof V x axes e).
    { intros g Hg. destruct (in_combine_ex rows data2 g Hlen Hg) as [v Hv].
      apply (Permutation_in _ Hperm) in Hv. apply in_map_iff in Hv. destruct Hv as [e [E He]].
      inversion E; subst. eauto. }
    eexists. exists (map VAL (keys rows)).
    split; [exact Hk|]. split; [reflexivity|]. split; [reflexivity|].
    split; [cbn [k_data k_counts k_ncols]; apply map2_res_map|].
    intros rf Hrf.
    destruct (return_spec V veqb veqb_eq sh kept (keys rows) VAL rf
                (mkCalc (map (fun g => fold1 V op (c_fill x) (map cast (vals g))) (keys rows))
                        (map (fun g => zlen (vals g)) (keys rows)) axes ncols (size K) rows
                        (psums 0 (map snd (runlens rows))) kept) (map VAL (keys rows)))
      as [out [Hout [Hsh [Hfill [Hc [Hp Hden]]]]]]; try reflexivity.
    - assumption.
    - apply keys_sorted. assumption.
    - apply Forall_forall. intros g Hg. apply (proj1 (keys_incl rows g)) in Hg. destruct (Hrows _ Hg) as [e [He ->]].
      apply (rowof_bounds V x Hcan axes). assumption.
    - cbn [k_rows k_inv]. rewrite <- (rows_at_starts rows). rewrite map_map. reflexivity.
    - exists out.
      split; [exact Hout|]. split; [assumption|]. split; [assumption|]. split; [assumption|]. split; [assumption|].
      intros oix Hoix. rewrite (Hden _ Hoix). fold K. set (g0 := ravel K oix).
      destruct (dense_row_perm V x Hcan Hok axes Hnd Hax oix Hoix) as [m [Hdp Hm]].
      fold sh n kept K R ncols f in Hdp, Hm.
      (* the stored values of the group are the stored entries of the row *)
      assert (Hvp : Permutation (vals g0) (map snd (row_entries V x axes oix))).
      { unfold vals, vals_of.
        eapply Permutation_trans; [apply Permutation_map; apply Permutation_filter; exact Hperm|].
        rewrite filter_map_comm, map_map. cbn [fst snd]. apply Permutation_refl'. f_equal.
        unfold row_entries. apply filter_ext_in. intros [ix v] Hin. cbn [fst].
        apply in_entries_coords in Hin. destruct Hcan as [Hr _]. rewrite Forall_forall in Hr.
        assert (Hk1 : in_range K (sel 0 kept ix)) by (apply sel_in_range; [auto|apply kept_axes_ok]).
        unfold rowof. cbn [fst]. fold sh n kept K.
        destruct (idx_eqb (sel 0 kept ix) oix) eqn:E.
        - apply idx_eqb_eq in E. rewrite E. apply Z.eqb_refl.
        - apply Z.eqb_neq. intros Er. apply (ravel_inj K) in Er; auto. subst.
          rewrite idx_eqb_refl in E. discriminate. }
      change (np_cells sh kept oix) with (cells V x axes oix).
      rewrite (row_value V veqb veqb_eq op op_assoc op_comm cast cast_op sup ident sup_one sup_succ
                 f ncols (map snd (row_entries V x axes oix)) m _ (c_fill x) Hadm Hdp).
      + destruct (in_dec Z.eq_dec g0 (keys rows)) as [Hin|Hnin].
        * assert (Hne : vals g0 <> []).
          { apply (proj1 (keys_incl rows g0)) in Hin. destruct (in_combine_ex rows data2 g0 Hlen Hin) as [v Hv].
            unfold vals, vals_of. intros E. apply map_eq_nil in E.
            assert (Hf : In (g0, v) (filter (fun p => fst p =? g0) (combine rows data2))).
            { apply filter_In. split; [assumption|apply Z.eqb_refl]. }
            rewrite E in Hf. inversion Hf. }
          destruct (map snd (row_entries V x axes oix)) as [|v0 r0] eqn:Er.
          { apply Permutation_sym, Permutation_nil in Hvp. contradiction. }
          f_equal. unfold VAL. f_equal.
          -- apply (fold1_perm V op op_assoc op_comm).
             ++ discriminate.
             ++ apply Permutation_map. apply Permutation_sym. exact Hvp.
          -- unfold zlen. rewrite (Permutation_length Hvp). reflexivity.
        * assert (Hv0 : vals g0 = []).
          { apply vals_of_absent. intros Hin. apply Hnin. apply (proj2 (keys_incl rows g0)). assumption. }
          rewrite Hv0 in Hvp. apply Permutation_nil in Hvp. rewrite Hvp. exact Hrf.
      + unfold zlen. rewrite map_length. exact Hm.
  Qed.
End Core.

(* ------------------------------------------------------------------ keepdims *)
Lemma keep_shape_length sh axes : length (keep_shape sh axes) = length sh.
Proof.
  unfold keep_shape, zrange, zlen. rewrite map_length, combine_length, map_length, seq_length, Nat2Z.id. lia.
Qed.

Lemma keep_shape_ok sh axes : shape_ok sh -> shape_ok (keep_shape sh axes).
Proof.
  intros H. unfold shape_ok, keep_shape. apply Forall_forall. intros y Hy.
  apply in_map_iff in Hy. destruct Hy as [[i d] [<- Hin]]. cbn.
  destruct (mem_z i axes); [lia|]. apply in_combine_r in Hin.
  unfold shape_ok in H. rewrite Forall_forall in H. auto.
Qed.

Lemma keepdims_spec sh axes oix :
  let n := zlen sh in
  let K := sel 0 (kept_axes n axes) sh in
  let KD := keep_shape sh axes in
  size KD = size K /\
  (in_range KD oix ->
   in_range K (sel 0 (kept_axes n axes) oix) /\ ravel KD oix = ravel K (sel 0 (kept_axes n axes) oix)).
Proof.
  cbn zeta. rewrite keep_shape_numbered, sel_kept_numbered. split; [apply keepdims_size|].
  intros Hr. assert (Hl : zlen oix = zlen sh).
  { apply in_range_length in Hr. rewrite map_length in Hr. unfold numbered in Hr.
    rewrite combine_length, map_length, seq_length in Hr. unfold zlen. lia. }
  rewrite <- Hl, sel_kept_numbered. apply (keepdims_ravel axes sh 0 oix). assumption.
Qed.

(* ------------------------------------------------------------------ reduce_den (COO) *)
Section Main.
  Variable V : Type.
  Variable veqb : V -> V -> bool.
  Hypothesis veqb_eq : forall a b, veqb a b = true <-> a = b.
  Variable op : V -> V -> V.
  Hypothesis op_assoc : forall a b c, op a (op b c) = op (op a b) c.
  Hypothesis op_comm : forall a b, op a b = op b a.
  Variable cast : V -> V.
  Hypothesis cast_op : forall a b, cast (op (cast a) (cast b)) = op (cast a) (cast b).
  Variable sup : option (V -> Z -> V).
  Variable ident : option V.
  Hypothesis sup_one : forall s f, sup = Some s -> s f 1 = cast f.
  Hypothesis sup_succ : forall s f k, sup = Some s -> 1 <= k -> s f (k + 1) = op (s f k) (cast f).

  (* what is returned is in canonical pruned form (an array) or a scalar (0-d) *)
  Definition rres_wf (r : rres V) : Prop :=
    match r with
    | RArr c => COOP.canonical V c /\ prunedb veqb c = true /\ c_shape c <> []
    | RScalar _ => True
    end.

  Lemma finish_spec (c : coo V) :
    COOP.canonical V c -> prunedb veqb c = true ->
    exists r, (match c_shape c with [] => Ok (RScalar (den c [])) | _ => Ok (RArr c) end) = Ok r /\
      rres_shape r = c_shape c /\ (forall oix, in_range (c_shape c) oix -> rres_den r oix = den c oix) /\ rres_wf r.
  Proof.
    intros Hc Hp. destruct (c_shape c) as [|d sh'] eqn:E.
    - eexists. split; [reflexivity|]. split; [reflexivity|]. split; [|exact I].
      intros oix Hr. destruct oix; [reflexivity|inversion Hr].
    - eexists. split; [reflexivity|]. split; [cbn; assumption|]. split; [reflexivity|].
      cbn. split; [assumption|]. split; [assumption|]. rewrite E. discriminate.
  Qed.

  Lemma NoDup_app_r {A} (l1 l2 : list A) : NoDup (l1 ++ l2) -> NoDup l2.
  Proof. induction l1; simpl; [auto|]. intros H. inversion H; auto. Qed.

  Lemma calc_dup_raises (x : coo V) l :
    axes_ok (zlen (c_shape x)) l -> ~ NoDup l ->
    coo_reduce_calc V op cast (Some l) x = Raise ValueError.
  Proof.
    intros Hok Hnd. unfold coo_reduce_calc. rewrite (calc_axes_some _ _ Hok). cbn [bind].
    unfold coo_transpose. rewrite norm_axes_map_ok.
    2:{ apply Forall_app. split; [apply kept_axes_ok|assumption]. }
    cbn [bind]. destruct (nodupb (kept_axes (zlen (c_shape x)) l ++ l)) eqn:E; [|reflexivity].
    apply nodupb_NoDup in E. apply NoDup_app_r in E. contradiction.
  Qed.

  Theorem reduce_den_proof (x : coo V) ax kd :
    COOP.canonical V x -> shape_ok (c_shape x) ->
    match reduce_coo V veqb op cast sup ident ax kd x with
    | Ok r =>
      exists osh g, np_reduce V op cast ident ax kd (c_shape x) (den x) = Ok (osh, g) /\
        rres_shape r = osh /\ (forall oix, in_range osh oix -> g oix = Ok (rres_den r oix)) /\ rres_wf r
    | Raise e =>
      e = ValueError /\
      (np_reduce V op cast ident ax kd (c_shape x) (den x) = Raise ValueError
       \/ admissible V veqb op cast sup (c_fill x) = false)
    end.
  Proof.
    intros Hcan Hok. unfold reduce_coo, reduce_coo_with, head_generic.
    set (sh := c_shape x). set (n := zlen sh). set (f := c_fill x).
    assert (Hn : n = Z.of_nat (length sh)) by reflexivity.
    destruct (norm_axes n ax) as [nax|e] eqn:En.
    2:{ cbn [bind]. destruct (norm_axes_raise _ _ _ En) as [-> Hnp]. split; [reflexivity|]. left.
        unfold np_reduce. fold sh. rewrite <- Hn, Hnp. reflexivity. }
    cbn [bind]. destruct (admissible V veqb op cast sup f) eqn:Hadm; cbn [negb bind].
    2:{ split; [reflexivity|right; reflexivity]. }
    assert (Haxes : exists axes, calc_axes n nax = Ok axes /\ axes_ok n axes /\
              (NoDup axes -> np_norm_axes n ax = Ok axes) /\
              (~ NoDup axes -> np_norm_axes n ax = Raise ValueError /\ nax = Some axes)).
    { pose proof (norm_axes_spec _ _ _ En) as Hs. destruct nax as [l|].
      - destruct Hs as [H1 [H2 H3]]. exists l. split; [apply calc_axes_some; assumption|].
        split; [assumption|]. split; [assumption|]. intros H. split; [apply H3; assumption|reflexivity].
      - subst ax. exists (zrange n). split; [reflexivity|]. split.
        + apply Forall_forall. intros a Ha. apply zrange_In. assumption.
        + split; [reflexivity|]. intros H. exfalso. apply H. apply NoDup_zrange. }
    destruct Haxes as [axes [Hcalc [Hax [Hnp1 Hnp2]]]].
    destruct (nodupb axes) eqn:End.
    2:{ assert (Hnd : ~ NoDup axes) by (intros H; apply nodupb_NoDup in H; congruence).
        destruct (Hnp2 Hnd) as [Hnp ->]. rewrite (calc_dup_raises x axes Hax Hnd). cbn [bind].
        split; [reflexivity|]. left. unfold np_reduce. fold sh. rewrite <- Hn, Hnp. reflexivity. }
    apply nodupb_NoDup in End. specialize (Hnp1 End).
    destruct (core_den V veqb veqb_eq op op_assoc op_comm cast cast_op sup ident sup_one sup_succ
                x Hcan Hok axes End Hax Hadm nax Hcalc) as [k [data [Hk [Hka [Hkn [Hm2 Hcore]]]]]].
    fold sh n f in Hk, Hm2, Hcore, Hkn |- *. rewrite Hk. cbn [bind]. rewrite Hm2. cbn [bind]. rewrite Hkn.
    set (kept := kept_axes n axes) in *. set (K := sel 0 kept sh) in *. set (ncols := size (sel 0 axes sh)) in *.
    assert (Hspec : np_reduce V op cast ident ax kd sh (den x) =
              if (ncols =? 0) && match ident with None => true | Some _ => false end then Raise ValueError
              else Ok (if kd then keep_shape sh axes else K,
                       fun oix => let kix := if kd then sel 0 kept oix else oix in
                                  np_fold V op cast ident (map (den x) (np_cells sh kept kix)))).
    { unfold np_reduce. rewrite <- Hn, Hnp1. reflexivity. }
    destruct (result_fill V sup ident f ncols) as [rf|e] eqn:Erf.
    2:{ cbn [bind]. unfold result_fill in Erf. destruct (ncols =? 0) eqn:E0; [|discriminate].
        assert (Hi : (exists e0, ident = Some e0) \/ ident = None) by (destruct ident; eauto).
        destruct Hi as [[e0 Hi]|Hi]; rewrite Hi in Erf; [discriminate|]. inversion Erf.
        split; [reflexivity|]. left. rewrite Hspec, Hi. reflexivity. }
    cbn [bind].
    assert (Hcond : (ncols =? 0) && match ident with None => true | Some _ => false end = false).
    { unfold result_fill in Erf. destruct (ncols =? 0); [|reflexivity].
      assert (Hi : (exists e0, ident = Some e0) \/ ident = None) by (destruct ident; eauto).
      destruct Hi as [[e0 Hi]|Hi]; rewrite Hi in Erf |- *; [reflexivity|discriminate]. }
    rewrite Hcond in Hspec.
    destruct (Hcore rf eq_refl) as [out [Hout [Hsh [Hfill [Hc [Hp Hden]]]]]].
    rewrite Hout. cbn [bind].
    destruct kd.
    - (* keepdims *)
      rewrite Hka.
      destruct (keepdims_spec sh axes []) as [Hsz _]. cbn zeta in Hsz. fold n kept K in Hsz.
      destruct (reshape_spec V veqb out (keep_shape sh axes) Hc) as [out' [Ho' [Hsh' [Hf' [Hc' [Hd' Hp']]]]]].
      + rewrite Hsh. apply sel_shape_ok. assumption.
      + apply keep_shape_ok. assumption.
      + rewrite Hsh. symmetry. exact Hsz.
      + rewrite Ho'. cbn [bind].
        destruct (finish_spec out' Hc' (Hp' Hp)) as [r [Hr [Hrs [Hrd Hwf]]]]. rewrite Hr.
        exists (keep_shape sh axes), (fun oix => np_fold V op cast ident (map (den x) (np_cells sh kept (sel 0 kept oix)))).
        split; [exact Hspec|]. split; [congruence|]. split; [|assumption].
        intros oix Hoix. rewrite Hrd by (rewrite Hsh'; assumption). rewrite Hd' by assumption.
        destruct (keepdims_spec sh axes oix) as [_ Hkr]. cbn zeta in Hkr. fold n kept K in Hkr.
        destruct (Hkr Hoix) as [Hk1 Hk2]. rewrite Hsh, Hk2. rewrite unravel_ravel by assumption.
        apply Hden. assumption.
    - cbn [bind]. destruct (finish_spec out Hc Hp) as [r [Hr [Hrs [Hrd Hwf]]]]. rewrite Hr.
      exists K, (fun oix => np_fold V op cast ident (map (den x) (np_cells sh kept oix))).
      split; [exact Hspec|]. split; [congruence|]. split; [|assumption].
      intros oix Hoix. rewrite Hrd by (rewrite Hsh; assumption). apply Hden. assumption.
  Qed.
End Main.

(* ------------------------------------------------------------------ the Z instances (generated pieces) *)
Definition valid_code (m : Z) : Prop := In m [0; 1; 2; 3; 4; 5; 6; 7; 8].

Lemma b2z_nzb_idem a : b2z (nzb (b2z (nzb a))) = b2z (nzb a).
Proof. unfold b2z, nzb. destruct (a =? 0); reflexivity. Qed.

Lemma op_z_assoc m : valid_code m -> forall a b c, op_z m a (op_z m b c) = op_z m (op_z m a b) c.
Proof.
  unfold valid_code. simpl. intros H a b c.
  destruct H as [<-|[<-|[<-|[<-|[<-|[<-|[<-|[<-|[<-|[]]]]]]]]]]; unfold op_z; cbn [ufunc_z].
  - lia.
  - lia.
  - apply Z.min_assoc.
  - apply Z.max_assoc.
  - unfold b2z, nzb. destruct (a =? 0), (b =? 0), (c =? 0); reflexivity.
  - unfold b2z, nzb. destruct (a =? 0), (b =? 0), (c =? 0); reflexivity.
  - apply Z.lor_assoc.
  - apply Z.land_assoc.
  - symmetry. apply Z.lxor_assoc.
Qed.

Lemma op_z_comm m : valid_code m -> forall a b, op_z m a b = op_z m b a.
Proof.
  unfold valid_code. simpl. intros H a b.
  destruct H as [<-|[<-|[<-|[<-|[<-|[<-|[<-|[<-|[<-|[]]]]]]]]]]; unfold op_z; cbn [ufunc_z].
  - lia.
  - lia.
  - apply Z.min_comm.
  - apply Z.max_comm.
  - unfold b2z, nzb. destruct (a =? 0), (b =? 0); reflexivity.
  - unfold b2z, nzb. destruct (a =? 0), (b =? 0); reflexivity.
  - apply Z.lor_comm.
  - apply Z.land_comm.
  - apply Z.lxor_comm.
Qed.

Lemma cast_z_op m : valid_code m -> forall a b,
  ufunc_cast m (op_z m (ufunc_cast m a) (ufunc_cast m b)) = op_z m (ufunc_cast m a) (ufunc_cast m b).
Proof.
  unfold valid_code. simpl. intros H a b.
  destruct H as [<-|[<-|[<-|[<-|[<-|[<-|[<-|[<-|[<-|[]]]]]]]]]]; unfold op_z, ufunc_cast; cbn; try reflexivity.
  - unfold b2z, nzb. destruct (a =? 0), (b =? 0); reflexivity.
  - unfold b2z, nzb. destruct (a =? 0), (b =? 0); reflexivity.
Qed.

(* evaluate comparisons of numerals (Z.eqb is `simpl never` after importing Lib/Py.v) *)
Ltac closed_eqb :=
  repeat match goal with
  | |- context [?a =? ?b] =>
    is_ground a; is_ground b;
    let v := eval vm_compute in (a =? b) in change (a =? b) with v
  end.

Lemma nzb_b2z b : nzb (b2z b) = b.
Proof. destruct b; reflexivity. Qed.

Ltac zeqb_cases :=
  repeat match goal with
  | |- context [?a =? ?b] => destruct (Z.eqb_spec a b); try lia
  end; cbn [orb andb negb].

Lemma sup_z_one m s f : sup_z m = Some s -> s f 1 = ufunc_cast m f.
Proof.
  unfold sup_z, s_super_table. cbn [find fst].
  destruct (Z.eqb_spec 0 m) as [<-|H0].
  - intros E; inversion E; subst. unfold op_z, ufunc_cast. cbn [ufunc_z]. zeqb_cases. lia.
  - destruct (Z.eqb_spec 1 m) as [<-|H1]; [|discriminate].
    intros E; inversion E; subst. unfold op_z, ufunc_cast. cbn [ufunc_z]. zeqb_cases. apply Z.pow_1_r.
Qed.

Lemma sup_z_succ m s f k : sup_z m = Some s -> 1 <= k -> s f (k + 1) = op_z m (s f k) (ufunc_cast m f).
Proof.
  unfold sup_z, s_super_table. cbn [find fst].
  destruct (Z.eqb_spec 0 m) as [<-|H0].
  - intros E Hk; inversion E; subst. unfold op_z, ufunc_cast. cbn [ufunc_z]. zeqb_cases. lia.
  - destruct (Z.eqb_spec 1 m) as [<-|H1]; [|discriminate].
    intros E Hk; inversion E; subst. unfold op_z, ufunc_cast. cbn [ufunc_z]. zeqb_cases.
    rewrite Z.pow_add_r by lia. rewrite Z.pow_1_r. reflexivity.
Qed.

(* the generated integer branch, before unwrapping *)
Lemma g_normalize_axis_int ndim a :
  g_normalize_axis (VInt a) (VInt ndim) =
  match np_norm_axis ndim a with Ok z => Ok (VInt z) | Raise e => Raise e end.
Proof.
  unfold g_normalize_axis, np_norm_axis. cbn.
  destruct (Z.ltb_spec a 0); cbn.
  - rewrite Z.geb_leb. destruct (Z.leb_spec ndim (a + ndim)); cbn.
    + destruct (Z.leb_spec (- ndim) a); destruct (Z.ltb_spec a ndim); cbn; try lia; reflexivity.
    + destruct (Z.ltb_spec (a + ndim) 0); cbn;
      destruct (Z.leb_spec (- ndim) a); destruct (Z.ltb_spec a ndim); cbn; try lia; reflexivity.
  - rewrite Z.geb_leb. destruct (Z.leb_spec ndim a); cbn.
    + destruct (Z.leb_spec (- ndim) a); destruct (Z.ltb_spec a ndim); cbn; try lia; reflexivity.
    + destruct (Z.ltb_spec a 0); cbn; [lia|].
      destruct (Z.leb_spec (- ndim) a); destruct (Z.ltb_spec a ndim); cbn; try lia; reflexivity.
Qed.

Definition adm_z (m f : Z) : bool := admissible Z Z.eqb (op_z m) (ufunc_cast m) (sup_z m) f.

Definition has_ufunc (m : Z) : Prop := exists g, ufunc_z m = Some g.

Lemma valid_has_ufunc m : valid_code m -> has_ufunc m.
Proof.
  unfold valid_code. simpl. intros H.
  destruct H as [<-|[<-|[<-|[<-|[<-|[<-|[<-|[<-|[<-|[]]]]]]]]]]; eexists; reflexivity.
Qed.

Lemma ext_apply_ok m a b : has_ufunc m -> ext_apply (VInt m) (VInt a) (VInt b) = Ok (VInt (op_z m a b)).
Proof. intros [g Hg]. unfold ext_apply, op_z. cbn [as_int]. rewrite Hg. reflexivity. Qed.

Lemma op_cast_absorb m : valid_code m -> forall a b, op_z m (ufunc_cast m a) (ufunc_cast m b) = op_z m a b.
Proof.
  unfold valid_code. simpl. intros H a b.
  destruct H as [<-|[<-|[<-|[<-|[<-|[<-|[<-|[<-|[<-|[]]]]]]]]]]; unfold ufunc_cast; closed_eqb; cbn [orb];
    try reflexivity; unfold op_z; cbn [ufunc_z]; rewrite !nzb_b2z; reflexivity.
Qed.

(* the super-ufunc table: either no entry, or an entry naming a ufunc of the code table *)
Lemma rsu_cases m :
  (rsu_z m = VNone /\ sup_z m = None /\ ext_table_get s_super_table (VInt m) = Ok VNone) \/
  (exists s, rsu_z m = VInt s /\ sup_z m = Some (op_z s) /\ has_ufunc s /\
             ext_table_get s_super_table (VInt m) = Ok (VInt s)).
Proof.
  unfold rsu_z, sup_z, ext_table_get, s_super_table. cbn [find fst].
  destruct (0 =? m).
  - right. exists 1. repeat split; try reflexivity. eexists; reflexivity.
  - destruct (1 =? m).
    + right. exists 9. repeat split; try reflexivity. eexists; reflexivity.
    + left. repeat split; reflexivity.
Qed.

(* the generated head of SparseArray.reduce: admissibility test and wrapping of the axis *)
Lemma head_after_norm m f (axv : pyv) :
  valid_code m -> (axv = VNone \/ exists z, axv = VInt z) ->
  (zero_reduce_result <- ext_apply (VInt m) (VInt f) (VInt f) ;;
   reduce_super_ufunc <- ext_table_get s_super_table (VInt m) ;;
   t1_ <- (t2_ <- (t3_ <- py_eq zero_reduce_result (VInt f) ;; py_not t3_) ;;
           if cond t2_ then (py_is_none reduce_super_ufunc) else Ok t2_) ;;
   if cond t1_ then Raise ValueError
   else (axis <- (t4_ <- (py_not (VBool (isinst_tuple axv))) ;;
                  if cond t4_ then (axis <- Ok (VTuple [axv]) ;; Ok (axis)) else Ok (axv)) ;;
         Ok (VTuple [axis; reduce_super_ufunc])))
  = if adm_z m f then Ok (VTuple [VTuple [axv]; rsu_z m]) else Raise ValueError.
Proof.
  intros Hm Hax.
  assert (Ht : isinst_tuple axv = false) by (destruct Hax as [->|[z ->]]; reflexivity).
  unfold adm_z, admissible. rewrite (op_cast_absorb m Hm).
  rewrite (ext_apply_ok m f f (valid_has_ufunc m Hm)). cbn [bind].
  destruct (rsu_cases m) as [[Hr [Hs Ht']]|[s [Hr [Hs [_ Ht']]]]]; rewrite Ht', Hr, Hs; cbn [bind is_none negb];
    unfold py_eq; cbn [as_int bind py_not truthy cond]; rewrite Ht;
    destruct (op_z m f f =? f); reflexivity.
Qed.

Lemma s_reduce_head_spec m f axv0 ndim :
  valid_code m ->
  (forall v, g_normalize_axis axv0 (VInt ndim) = Ok v -> v = VNone \/ exists z, v = VInt z) ->
  s_reduce_head (VInt m) (VInt f) axv0 (VInt ndim) =
  (axv <- g_normalize_axis axv0 (VInt ndim) ;;
   if adm_z m f then Ok (VTuple [VTuple [axv]; rsu_z m]) else Raise ValueError).
Proof.
  intros Hm Hv. unfold s_reduce_head. cbn [bind].
  destruct (g_normalize_axis axv0 (VInt ndim)) as [v|e] eqn:E; cbn [bind]; [|reflexivity].
  apply (head_after_norm m f v Hm). apply Hv. reflexivity.
Qed.

Lemma head_z_eq m : valid_code m -> forall ndim f ax,
  head_z m ndim f ax = head_generic Z Z.eqb (op_z m) (ufunc_cast m) (sup_z m) ndim f ax.
Proof.
  intros Hm ndim f ax. unfold head_generic. fold (adm_z m f).
  destruct ax as [|a|l]; cbn [head_z norm_axes bind].
  - rewrite s_reduce_head_spec; [|assumption|].
    + change (g_normalize_axis VNone (VInt ndim)) with (Ok VNone : res pyv). cbn [bind].
      destruct (adm_z m f); reflexivity.
    + change (g_normalize_axis VNone (VInt ndim)) with (Ok VNone : res pyv). intros v E. inversion E. auto.
  - rewrite s_reduce_head_spec; [|assumption|].
    + unfold norm_axis1. rewrite g_normalize_axis_int.
      destruct (np_norm_axis ndim a) as [z|e]; cbn [bind as_z]; [|reflexivity].
      destruct (adm_z m f); reflexivity.
    + rewrite g_normalize_axis_int. intros v E. destruct (np_norm_axis ndim a); inversion E. eauto.
  - destruct (map_res (norm_axis1 ndim) l) as [zs|e]; cbn [bind]; [|reflexivity].
    rewrite s_reduce_head_spec; [|assumption|].
    + change (g_normalize_axis VNone (VInt ndim)) with (Ok VNone : res pyv). cbn [bind].
      destruct (adm_z m f); reflexivity.
    + change (g_normalize_axis VNone (VInt ndim)) with (Ok VNone : res pyv). intros v E. inversion E. auto.
Qed.

Lemma op_cast_r m : valid_code m -> forall a b, op_z m a (ufunc_cast m b) = op_z m a b.
Proof.
  unfold valid_code. simpl. intros H a b.
  destruct H as [<-|[<-|[<-|[<-|[<-|[<-|[<-|[<-|[<-|[]]]]]]]]]]; unfold ufunc_cast; closed_eqb; cbn [orb];
    try reflexivity; unfold op_z; cbn [ufunc_z]; rewrite !nzb_b2z; reflexivity.
Qed.

(* the generated three-way correction is the hand-transcribed one *)
Lemma s_reduce_fix_spec m f d c ncols :
  valid_code m ->
  s_reduce_fix (VInt m) (rsu_z m) (VInt f) (VInt d) (VInt c) (VInt ncols) =
  (rf <- result_fill Z (sup_z m) (ufunc_ident m) f ncols ;;
   Ok (VTuple [VInt (fix_cell Z (op_z m) (ufunc_cast m) (sup_z m) f ncols d c); VInt rf])).
Proof.
  intros Hm. unfold s_reduce_fix, result_fill, fix_cell. cbn [bind].
  unfold py_eq, py_ne, py_eq. cbn [as_int bind truthy cond negb].
  destruct (ncols =? 0) eqn:E0; cbn [bind truthy cond].
  - unfold ext_identity. destruct (ufunc_ident m) as [e|]; cbn [bind py_is_none Py.is_none truthy cond]; reflexivity.
  - destruct (rsu_cases m) as [[Hr [Hs _]]|[s [Hr [Hs [Hu _]]]]]; rewrite Hr, Hs;
      cbn [py_is_none Py.is_none bind truthy cond negb].
    + destruct (c =? ncols); cbn [negb bind truthy cond].
      * reflexivity.
      * rewrite (ext_apply_ok m d f (valid_has_ufunc m Hm)). cbn [bind]. rewrite (op_cast_r m Hm). reflexivity.
    + rewrite (ext_apply_ok s f ncols Hu). 
      destruct (c =? ncols); cbn [negb bind truthy cond].
      * reflexivity.
      * unfold py_sub, arith. cbn [as_int bind].
        rewrite (ext_apply_ok s f (ncols - c) Hu). cbn [bind].
        rewrite (ext_apply_ok m d _ (valid_has_ufunc m Hm)). reflexivity.
Qed.

Lemma fix_z_eq m : valid_code m -> forall f ncols d c,
  (exists rf, result_fill Z (sup_z m) (ufunc_ident m) f ncols = Ok rf) ->
  fix_z m f ncols d c = Ok (fix_cell Z (op_z m) (ufunc_cast m) (sup_z m) f ncols d c).
Proof.
  intros Hm f ncols d c [rf Hrf]. unfold fix_z. rewrite (s_reduce_fix_spec m f d c ncols Hm), Hrf. reflexivity.
Qed.

Lemma rfill_z_eq m : valid_code m -> forall f ncols,
  rfill_z m f ncols = result_fill Z (sup_z m) (ufunc_ident m) f ncols.
Proof.
  intros Hm f ncols. unfold rfill_z. rewrite (s_reduce_fix_spec m f 0 0 ncols Hm).
  destruct (result_fill Z (sup_z m) (ufunc_ident m) f ncols); reflexivity.
Qed.

Lemma map2_res_ext {A B C} (f g : A -> B -> res C) l1 l2 :
  (forall a b, f a b = g a b) -> map2_res f l1 l2 = map2_res g l1 l2.
Proof.
  intros H. revert l2. induction l1 as [|a l1 IH]; intros [|b l2]; cbn; try reflexivity.
  rewrite H, IH. reflexivity.
Qed.

Lemma map2_res_raise {A B C} (f : A -> B -> res C) e l1 l2 :
  (forall a b, f a b = Raise e) -> map2_res f l1 l2 = Ok [] \/ map2_res f l1 l2 = Raise e.
Proof.
  intros H. destruct l1 as [|a l1]; [left; reflexivity|]. destruct l2 as [|b l2]; [left; reflexivity|].
  right. cbn. rewrite H. reflexivity.
Qed.

Lemma map2_res_total {A B C} (f : A -> B -> C) l1 l2 :
  exists r, map2_res (fun a b => Ok (f a b)) l1 l2 = Ok r.
Proof.
  revert l2. induction l1 as [|a l1 IH]; intros [|b l2]; cbn; eauto.
  destruct (IH l2) as [r Hr]. rewrite Hr. cbn. eauto.
Qed.

(* the tail of the pipeline after _reduce_calc agrees for the generated and the transcribed pieces *)
Lemma tail_z_eq m (Hm : valid_code m) f ncols (kd_ kc : list Z) {T} (cont : list Z -> Z -> res T) :
  (data <- map2_res (fix_z m f ncols) kd_ kc ;; rfill <- rfill_z m f ncols ;; cont data rfill) =
  (data <- map2_res (fun d c => Ok (fix_cell Z (op_z m) (ufunc_cast m) (sup_z m) f ncols d c)) kd_ kc ;;
   rfill <- result_fill Z (sup_z m) (ufunc_ident m) f ncols ;; cont data rfill).
Proof.
  rewrite (rfill_z_eq m Hm).
  destruct (result_fill Z (sup_z m) (ufunc_ident m) f ncols) as [rf|e] eqn:Erf.
  - rewrite (map2_res_ext (fix_z m f ncols) (fun d c => Ok (fix_cell Z (op_z m) (ufunc_cast m) (sup_z m) f ncols d c))).
    + reflexivity.
    + intros d c. apply fix_z_eq; [assumption|eauto].
  - destruct (map2_res_total (fix_cell Z (op_z m) (ufunc_cast m) (sup_z m) f ncols) kd_ kc) as [r Hr].
    rewrite Hr. cbn [bind].
    destruct (map2_res_raise (fix_z m f ncols) e kd_ kc) as [H|H].
    + intros d c. unfold fix_z. rewrite (s_reduce_fix_spec m f d c ncols Hm), Erf. reflexivity.
    + rewrite H. reflexivity.
    + rewrite H. reflexivity.
Qed.

Theorem reduce_coo_z_eq m : valid_code m -> forall ax kd x,
  reduce_coo_z m ax kd x =
  reduce_coo Z Z.eqb (op_z m) (ufunc_cast m) (sup_z m) (ufunc_ident m) ax kd x.
Proof.
  intros Hm ax kd x. unfold reduce_coo_z, reduce_coo, reduce_coo_with.
  rewrite (head_z_eq m Hm).
  destruct (head_generic Z Z.eqb (op_z m) (ufunc_cast m) (sup_z m) (zlen (c_shape x)) (c_fill x) ax) as [nax|e];
    cbn [bind]; [|reflexivity].
  destruct (coo_reduce_calc Z (op_z m) (ufunc_cast m) nax x) as [k|e]; cbn [bind]; [|reflexivity].
  apply (tail_z_eq m Hm).
Qed.

(* ------------------------------------------------------------------ property-level statements at Z *)
Theorem reduce_den_z_proof m : valid_code m -> forall (x : coo Z) ax kd,
  COOP.canonical Z x -> shape_ok (c_shape x) ->
  match reduce_coo_z m ax kd x with
  | Ok r =>
    exists osh g,
      np_reduce Z (op_z m) (ufunc_cast m) (ufunc_ident m) ax kd (c_shape x) (den x) = Ok (osh, g) /\
      rres_shape r = osh /\ (forall oix, in_range osh oix -> g oix = Ok (rres_den r oix)) /\
      rres_wf Z Z.eqb r
  | Raise e =>
    e = ValueError /\
    (np_reduce Z (op_z m) (ufunc_cast m) (ufunc_ident m) ax kd (c_shape x) (den x) = Raise ValueError
     \/ adm_z m (c_fill x) = false)
  end.
Proof.
  intros Hm x ax kd Hc Hok. rewrite (reduce_coo_z_eq m Hm).
  apply (reduce_den_proof Z Z.eqb Z.eqb_eq (op_z m) (op_z_assoc m Hm) (op_z_comm m Hm) (ufunc_cast m)
           (cast_z_op m Hm) (sup_z m) (ufunc_ident m)); try assumption.
  - intros s f. apply sup_z_one.
  - intros s f k. apply sup_z_succ.
Qed.

(* the run-length code decodes to the list it encodes, and its runs are maximal *)
Lemma runlens_decodes gs :
  flat_map (fun p => repeat (fst p) (Z.to_nat (snd p))) (runlens gs) = gs.
Proof.
  induction gs as [|g r IH]; [reflexivity|]. pose proof (runlens_pos r) as Hpos. cbn [runlens].
  destruct (runlens r) as [|[g' c] rest] eqn:E.
  - cbn in IH. subst r. reflexivity.
  - cbn [map snd] in Hpos. assert (Hc : 0 < c) by (inversion Hpos; assumption). clear Hpos.
    cbn [flat_map fst snd] in IH.
    destruct (Z.eqb_spec g g') as [->|Hne]; cbn [flat_map fst snd].
    + replace (Z.to_nat (c + 1)) with (S (Z.to_nat c)) by lia. cbn [repeat app]. f_equal. exact IH.
    + change (Z.to_nat 1) with 1%nat. cbn [repeat app]. f_equal. exact IH.
Qed.

Lemma runlens_maximal gs : forall i, (S i < length (runlens gs))%nat ->
  fst (nth i (runlens gs) (0, 0)) <> fst (nth (S i) (runlens gs) (0, 0)).
Proof.
  induction gs as [|g r IH]; intros i Hi; [cbn in Hi; lia|].
  cbn [runlens] in *. destruct (runlens r) as [|[g' c] rest] eqn:E; [cbn in Hi; lia|].
  destruct (Z.eqb_spec g g') as [->|Hne].
  - destruct i as [|i]; [apply (IH 0%nat); cbn in *; lia|]. apply (IH (S i)). cbn in *. lia.
  - destruct i as [|i]; [cbn; assumption|]. apply (IH i). cbn in *. lia.
Qed.

(* ------------------------------------------------------------------ examples (non-vacuity) *)
Definition ex_x : coo Z :=
  mkCOO [2; 3; 2] [[0; 0; 1]; [0; 2; 0]; [1; 0; 0]; [1; 0; 1]; [1; 1; 0]; [1; 1; 1]; [1; 2; 0]; [1; 2; 1]]
        [5; -2; 1; 2; 3; 4; 7; 6] 3.

Lemma ex_x_canonical : COOP.canonical Z ex_x /\ shape_ok (c_shape ex_x).
Proof.
  split; [apply canonicalb_spec; vm_compute; reflexivity|]. repeat constructor; cbn; lia.
Qed.

(* sum over axes (-1, 0) given in that order, fill 3: an absent, a deficient and a complete+deficient row *)
Example ex_sum_proof :
  reduce_coo_z 0 (AxTuple [-1; 0]) false ex_x
  = Ok (RArr (mkCOO [3] [[0]; [1]; [2]] [11; 13; 14] 12)).
Proof. vm_compute. reflexivity. Qed.

Example ex_prod_proof :
  reduce_coo_z 1 (AxInt 1) true ex_x
  = Ok (RArr (mkCOO [2; 1; 2] [[0; 0; 0]; [0; 0; 1]; [1; 0; 0]; [1; 0; 1]] [-18; 45; 21; 48] 27)).
Proof. vm_compute. reflexivity. Qed.

Example ex_min_proof :
  reduce_coo_z 2 AxNone false ex_x = Ok (RScalar (-2)).
Proof. vm_compute. reflexivity. Qed.

Example ex_max_proof :
  reduce_coo_z 3 (AxTuple [0; 2]) false ex_x = Ok (RArr (mkCOO [3] [[0]; [1]; [2]] [5; 4; 7] 3)).
Proof. vm_compute. reflexivity. Qed.

(* an inadmissible reduction raises ValueError: logical_or with fill 3 *)
Example ex_inadmissible_proof :
  reduce_coo_z 4 AxNone false ex_x = Raise ValueError.
Proof. vm_compute. reflexivity. Qed.

(* nothing to reduce: sum gives the identity 0, min raises as NumPy does *)
Definition ex_empty : coo Z := mkCOO [3; 0] [] [] 3.
Example ex_zero_extent_proof :
  reduce_coo_z 0 (AxInt 1) false ex_empty = Ok (RArr (mkCOO [3] [] [] 0))
  /\ reduce_coo_z 2 (AxInt (-1)) false ex_empty = Raise ValueError
  /\ reduce_coo_z 5 (AxInt 1) false (mkCOO [3; 0] [] [] 1) = Ok (RArr (mkCOO [3] [] [] 1)).
Proof. vm_compute. repeat split; reflexivity. Qed.

Example ex_kernel_proof :
  calc_counts_invidx [0; 0; 2; 2; 2; 5] = ([0; 2; 5], [2; 3; 1])
  /\ grouped_reduce Z Z.add (fun v => v) 0 [1; 2; 3; 4; 5; 6] [0; 0; 2; 2; 2; 5] = Ok ([3; 12; 6], [0; 2; 5], [2; 3; 1]).
Proof. vm_compute. split; reflexivity. Qed.

(* the row theorem on a concrete deficient row: stored [5; -2], fill 3, 6 cells *)
Example ex_row_proof :
  np_fold Z Z.add (fun v => v) (Some 0) [3; 5; 3; 3; -2; 3]
  = Ok (fix_cell Z Z.add (fun v => v) (Some Z.mul) 3 6 (fold1 Z Z.add 0 [5; -2]) 2).
Proof. vm_compute. reflexivity. Qed.

Definition ex_g : gcxs Z := mkGCXS [2; 2] [0] [1; 2] [0; 1] [0; 1; 2] 0.

(* ------------------------------------------------------------------ dtype promotion of mean / var *)
(* integer and bool inputs are accumulated and returned in float64 (as numpy.mean / numpy.var do);
   float16 is accumulated in float32; other floating dtypes are kept; an explicit dtype= is used for both *)
Theorem mean_dtype_promotion_proof :
  (forall k, In k int_or_bool_dtypes -> mean_dtypes k None = Ok (11, 11)) /\
  mean_dtypes 9 None = Ok (9, 10) /\
  (forall k, In k [10; 11; 12; 13] -> mean_dtypes k None = Ok (k, k)) /\
  (forall k d, In k [0; 1; 2; 3; 4; 5; 6; 7; 8; 9; 10; 11; 12; 13] -> mean_dtypes k (Some d) = Ok (d, d)).
Proof.
  split; [|split; [vm_compute; reflexivity|split]].
  - intros k H. cbn in H. repeat (destruct H as [<-|H]; [vm_compute; reflexivity|]). contradiction.
  - intros k H. cbn in H. repeat (destruct H as [<-|H]; [vm_compute; reflexivity|]). contradiction.
  - intros k d H. cbn in H. repeat (destruct H as [<-|H]; [reflexivity|]). contradiction.
Qed.

Theorem var_dtype_promotion_proof :
  (forall k, In k int_or_bool_dtypes -> var_dtype k None = Ok (Some 11)) /\
  (forall k, In k [9; 10; 11; 12; 13] -> var_dtype k None = Ok None) /\
  (forall k d, In k [0; 1; 2; 3; 4; 5; 6; 7; 8; 9; 10; 11; 12; 13] -> var_dtype k (Some d) = Ok (Some d)).
Proof.
  split; [|split].
  - intros k H. cbn in H. repeat (destruct H as [<-|H]; [vm_compute; reflexivity|]). contradiction.
  - intros k H. cbn in H. repeat (destruct H as [<-|H]; [vm_compute; reflexivity|]). contradiction.
  - intros k d H. cbn in H. repeat (destruct H as [<-|H]; [reflexivity|]). contradiction.
Qed.

(* the add / multiply fill correction takes the fill value cast to data.dtype, the accumulation dtype of
   the grouped reduction (NumPy's platform integer for narrow integers) — flag generated from the source *)
Theorem fill_correction_in_accumulation_dtype_proof : s_fix_fill_in_acc_dtype = 1.
Proof. reflexivity. Qed.

(* sparse.nanmean keeps the dtype of the sum for array results — flag generated from the source *)
Theorem nanmean_result_in_sum_dtype_proof : s_nanmean_keeps_sum_dtype = 1.
Proof. reflexivity. Qed.
