(* Proofs/ReduceIndptrP.v — the index-pointer arithmetic of GCXS._reduce_calc computes the grouped
   reduction of the COO path (C03): the groups read off an index pointer are the runs of the
   uncompressed row numbers, and on the image of a canonical COO array the whole re-compression path
   (change_compressed_axes, diff(indptr) != 0, reduceat on indptr, counts) equals COO._reduce_calc
   for the complementary axes in increasing order. *)
From Coq Require Import ZArith List Bool Lia ZifyBool Permutation Sorting.Sorted.
From Verif Require Import Py PyExt PyReduce Shape COO COOP GCXS Convert ConvertL ConvertG NpReduce Reduce ReduceGcxs
  ReduceLemmas ReduceShapeP ReduceKernelP ReduceP ReduceGcxsP.
Import ListNotations.
Open Scope Z_scope.

(* ------------------------------------------------------------------ groups of an index pointer *)
Lemma row_numbers_go_ge r l x : In x (row_numbers_go r l) -> r <= x.
Proof.
  revert r. induction l as [|a l IH]; intros r; [cbn; tauto|].
  destruct l as [|b t]; [cbn; tauto|]. cbn [row_numbers_go]. rewrite in_app_iff. intros [H|H].
  - apply repeat_spec in H. lia.
  - apply IH in H. lia.
Qed.

Lemma runlens_repeat_app r (c : nat) rest :
  (0 < c)%nat -> (forall x, In x rest -> x <> r) ->
  runlens (repeat r c ++ rest) = (r, Z.of_nat c) :: runlens rest.
Proof.
  intros Hc Hrest. destruct c as [|c]; [lia|]. clear Hc. induction c as [|c IH].
  - cbn [repeat app runlens]. destruct rest as [|h rest'].
    + reflexivity.
    + destruct (runlens_head h rest') as [c' [rs [E _]]]. rewrite E.
      destruct (Z.eqb_spec r h) as [->|Hne]; [exfalso; apply (Hrest h); [left; reflexivity|reflexivity]|reflexivity].
  - change (repeat r (S (S c)) ++ rest) with (r :: (repeat r (S c) ++ rest)). cbn [runlens]. rewrite IH.
    rewrite Z.eqb_refl. f_equal. f_equal. lia.
Qed.

Lemma gg_cons r a b t :
  gcxs_groups_go r (a :: b :: t) =
  if negb (b - a =? 0) then (a, r, b - a) :: gcxs_groups_go (r + 1) (b :: t) else gcxs_groups_go (r + 1) (b :: t).
Proof. reflexivity. Qed.

Lemma rn_cons r a b t :
  row_numbers_go r (a :: b :: t) = repeat r (Z.to_nat (b - a)) ++ row_numbers_go (r + 1) (b :: t).
Proof. reflexivity. Qed.

Lemma gcxs_groups_go_spec : forall l r a, StronglySorted Z.le (a :: l) ->
  let gr := gcxs_groups_go r (a :: l) in
  let rl := runlens (row_numbers_go r (a :: l)) in
  map (fun t => snd (fst t)) gr = map fst rl /\ map snd gr = map snd rl /\
  map (fun t => fst (fst t)) gr = psums a (map snd rl).
Proof.
  induction l as [|b t IH]; intros r a Hs; cbn zeta; [cbn; auto|].
  inversion Hs as [|? ? Hs' Hall]; subst. inversion Hall as [|? ? Hab _]; subst.
  specialize (IH (r + 1) b Hs'). cbn zeta in IH. destruct IH as [I1 [I2 I3]].
  rewrite gg_cons, rn_cons.
  destruct (Z.eqb_spec (b - a) 0) as [E0|E0]; cbn [negb].
  - replace (Z.to_nat (b - a)) with 0%nat by lia. cbn [repeat app].
    replace a with b by lia. auto.
  - rewrite runlens_repeat_app.
    + cbn [map fst snd psums]. rewrite Z2Nat.id by lia. rewrite I1, I2, I3.
      replace (a + (b - a)) with b by lia. auto.
    + lia.
    + intros x Hx. apply row_numbers_go_ge in Hx. lia.
Qed.

(* the groups of indptr_of rows m are the runs of rows *)
Lemma gcxs_groups_rows rows m :
  StronglySorted Z.le rows -> Forall (fun r => 0 <= r < m) rows ->
  let gr := gcxs_groups (indptr_of rows m) in
  map (fun t => fst (fst t)) gr = psums 0 (map snd (runlens rows)) /\
  map snd gr = map snd (runlens rows) /\
  map (fun t => snd (fst t)) gr = map fst (runlens rows).
Proof.
  intros Hs Hr. cbn zeta. pose proof (row_numbers_indptr_of rows m Hs Hr) as Hrn.
  rewrite row_numbers_eq in Hrn. unfold gcxs_groups. unfold indptr_of in *.
  assert (Hnd : StronglySorted Z.le (0 :: cumsum_from 0 (bincount rows m))).
  { apply cumsum_nondecreasing. unfold bincount. apply Forall_forall. intros x Hx.
    apply in_map_iff in Hx. destruct Hx as [r [<- _]]. unfold count_z. lia. }
  destruct (gcxs_groups_go_spec (cumsum_from 0 (bincount rows m)) 0 0 Hnd) as [H1 [H2 H3]].
  cbn zeta in H1, H2, H3. rewrite Hrn in H1, H2, H3. auto.
Qed.

(* ------------------------------------------------------------------ kernel level *)
Section IPK.
  Variable V : Type.
  Variable op : V -> V -> V.
  Variable cast : V -> V.

  (* the index-pointer form of the grouped reduction is _grouped_reduce on the uncompressed rows *)
  Theorem gcxs_ip_calc_eq_proof (x : gcxs V) rows m :
    g_indptr x = indptr_of rows m ->
    StronglySorted Z.le rows -> Forall (fun r => 0 <= r < m) rows ->
    gcxs_ip_calc V op cast x =
      (g <- grouped_reduce V op cast (g_fill x) (g_data x) rows ;;
       let '(data, inv, counts) := g in
       Ok (data, counts, map (fun i => nth (Z.to_nat i) rows 0) inv, col_size (g_shape x) (g_caxes x))).
  Proof.
    intros Hip Hs Hr. unfold gcxs_ip_calc, grouped_reduce. rewrite Hip.
    destruct (gcxs_groups_rows rows m Hs Hr) as [H1 [H2 H3]]. cbn zeta in H1, H2, H3.
    rewrite counts_invidx_spec_proof. rewrite H1, H2, H3.
    destruct (reduceat V op (g_fill x) (map cast (g_data x)) (psums 0 (map snd (runlens rows)))); cbn [bind]; [|reflexivity].
    rewrite rows_at_starts. reflexivity.
  Qed.
End IPK.

(* ------------------------------------------------------------------ path level *)
Lemma kept_kept3 n l : kept_axes n (kept_axes n (kept_axes n l)) = kept_axes n l.
Proof.
  unfold kept_axes at 1 4. apply filter_ext_in. intros a Ha. apply zrange_In in Ha. f_equal.
  destruct (mem_z a (kept_axes n (kept_axes n l))) eqn:E1; destruct (mem_z a l) eqn:E2; try reflexivity.
  - apply (proj1 (mem_z_In _ _)) in E1. apply kept_axes_In in E1. destruct E1 as [_ E1]. exfalso. apply E1.
    apply kept_axes_In. split; [assumption|]. intros H. apply (proj2 (mem_z_In _ _)) in H. congruence.
  - apply (proj1 (mem_z_In _ _)) in E2. exfalso.
    assert (H : In a (kept_axes n (kept_axes n l))).
    { apply kept_axes_In. split; [assumption|]. intros H. apply kept_axes_In in H. tauto. }
    apply (proj2 (mem_z_In _ _)) in H. congruence.
Qed.

Lemma skipn_app_len {A} (l1 l2 : list A) : skipn (length l1) (l1 ++ l2) = l2.
Proof. induction l1; cbn; auto. Qed.

Lemma col_size_sel sh ca :
  col_size sh ca = size (sel 0 (kept_axes (zlen sh) ca) sh).
Proof.
  unfold col_size, reordered_shape, axis_order. rewrite map_app.
  rewrite <- (map_length (fun a => znth sh a 0) ca) at 1. rewrite skipn_app_len. reflexivity.
Qed.

Lemma sorted_keys_SS {A} (l : list (Z * A)) : Sorted Z.le (map fst l) -> StronglySorted kle l.
Proof.
  intros H. apply Sorted_StronglySorted in H; [|intros a b c; lia].
  induction l as [|x l IH]; [constructor|]. cbn in H. inversion H as [|? ? Hs Hall]; subst.
  constructor; [apply IH; assumption|]. rewrite Forall_forall in *. intros y Hy. unfold kle.
  apply Hall. apply in_map. assumption.
Qed.

Section Path.
  Variable V : Type.
  Variable op : V -> V -> V.
  Variable cast : V -> V.

  (* GCXS._reduce_calc (re-compression path) on the GCXS image of a canonical COO array computes
     what COO._reduce_calc computes for the complementary axes in increasing order *)
  Theorem gcxs_recompress_eq_proof (c : coo V) (ca axes : list Z) :
    COOP.canonical V c -> shape_ok (c_shape c) -> (2 <= length (c_shape c))%nat ->
    let n := zlen (c_shape c) in
    caxes_okb n ca = true -> caxes_okb n (kept_axes n axes) = true ->
    gcxs_recompress_calc V op cast (gcxs_from_coo c ca) axes =
      (k <- coo_reduce_calc V op cast (Some (kept_axes n (kept_axes n axes))) c ;;
       Ok (k_data V k, k_counts V k, map (fun i => nth (Z.to_nat i) (k_rows V k) 0) (k_inv V k), k_ncols V k)).
  Proof.
    intros Hc Hok Hnd n Hca Hcax.
    set (sh := c_shape c) in *. set (caxes := kept_axes n axes) in *. set (red := kept_axes n caxes).
    unfold gcxs_recompress_calc.
    assert (Hgs : g_shape (gcxs_from_coo c ca) = sh) by (rewrite (from_coo_nf V c ca Hok Hca Hnd); reflexivity).
    rewrite Hgs. fold n caxes.
    rewrite (change_axes_from_coo_nd V c ca caxes Hc Hok Hca Hcax Hnd).
    rewrite (from_coo_nf V c caxes Hok Hcax Hnd).
    set (s := gsorted V c caxes).
    rewrite (gcxs_ip_calc_eq_proof V op cast _ (map (rowf V c caxes) s) (row_size sh caxes)); cbn [g_indptr];
      [|reflexivity|apply rows_sorted; assumption|apply rows_in_range; assumption].
    cbn [g_fill g_data g_shape g_caxes].
    (* the COO side *)
    assert (Hrnd : NoDup red) by (unfold red, kept_axes; apply NoDup_filter, NoDup_zrange).
    assert (Hrok : axes_ok n red) by apply kept_axes_ok.
    destruct (calc_rows V op cast c Hc Hok red Hrnd Hrok (Some red) (calc_axes_some _ _ Hrok))
      as [rows [data2 [Hk [Hlen [_ [_ [a [Hsha [Hla [Hperm [Hsorted [Hd2 Hrows]]]]]]]]]]]].
    fold sh n in Hk, Hsha, Hperm, Hsorted, Hrows.
    assert (Hkk : kept_axes n red = caxes) by apply kept_kept3.
    rewrite Hkk in Hk, Hsha, Hperm, Hsorted, Hrows.
    set (K := sel 0 caxes sh) in *. set (R := sel 0 red sh) in *.
    (* the entries of a, keyed by their linear location, are Convert's sorted list *)
    set (Ka := map (fun e' : idx * V => (ravel (K ++ R) (fst e'), snd e')) (entries a)).
    assert (Hckey : forall ix, ckey sh caxes ix = ravel (K ++ R) (sel 0 (caxes ++ red) ix)).
    { intros ix. unfold ckey, K, R. rewrite <- sel_app. reflexivity. }
    assert (HKa : s = Ka).
    { unfold s, gsorted. apply stable_sort_unique.
      - rewrite combine_map_l. fold (entries c).
        eapply Permutation_trans; [|apply Permutation_sym; apply Permutation_map; exact Hperm].
        rewrite map_map. apply Permutation_refl'. apply map_ext. intros [ix v]. cbn. rewrite Hckey. reflexivity.
      - apply sorted_keys_SS. unfold Ka. rewrite map_map. cbn [fst].
        rewrite <- (map_map fst (ravel (K ++ R))). unfold entries. rewrite combine_map_fst by lia. exact Hsorted.
      - rewrite combine_map_fst by (rewrite map_length; destruct Hc as [_ [_ Hl]]; lia).
        apply (Permutation_NoDup (l := map fst (gsorted V c caxes))).
        + apply Permutation_sym. apply gs_keys_perm. assumption.
        + pose proof (gs_keys_lt V c caxes Hc Hcax) as Hlt. clear -Hlt.
          induction Hlt as [|x l Hs IH Hall]; constructor; [|assumption].
          intros Hin. rewrite Forall_forall in Hall. specialize (Hall _ Hin). lia. }
    assert (Hdata : data2 = map snd s).
    { rewrite Hd2, HKa. unfold Ka. rewrite map_map. cbn [snd]. unfold entries.
      symmetry. clear -Hla. revert Hla. generalize (c_data a). induction (c_coords a) as [|k ks IH]; intros [|v vs] H;
        cbn in *; try discriminate; [reflexivity|]. f_equal. apply IH. lia. }
    assert (Hcs : col_size sh caxes = size R) by (apply col_size_sel).
    assert (Hrowsq : rows = map (rowf V c caxes) s).
    { rewrite Hrows. rewrite <- (combine_map_fst (c_coords a) (c_data a)) by lia. fold (entries a).
      rewrite HKa at 1. unfold Ka. rewrite !map_map. apply map_ext_in. intros [ix' v] Hin. cbn [fst snd].
      (* ix' is the permuted coordinate tuple of a stored entry *)
      pose proof (Permutation_in _ Hperm Hin) as Hin2. apply in_map_iff in Hin2.
      destruct Hin2 as [[ix w] [E He]]. cbn in E. inversion E; subst ix' w. clear E.
      apply in_entries_coords in He. pose proof Hc as [Hr _]. rewrite Forall_forall in Hr. specialize (Hr _ He). fold sh in Hr.
      assert (H1 : in_range K (sel 0 caxes ix)) by (apply sel_in_range; [assumption|apply kept_axes_ok]).
      assert (H2 : in_range R (sel 0 red ix)) by (apply sel_in_range; assumption).
      rewrite sel_app. rewrite <- (sel_length 0 caxes ix) at 1. rewrite firstn_app_len.
      assert (Hp : In (ravel (K ++ R) (sel 0 caxes ix ++ sel 0 red ix), v) s).
      { rewrite HKa. unfold Ka. apply in_map_iff. exists (sel 0 caxes ix ++ sel 0 red ix, v).
        split; [reflexivity|]. rewrite <- sel_app. exact Hin. }
      destruct (rowf_colf V c caxes Hc Hok Hcax _ Hp) as [Hcpos [_ [Hrb [Hcb Heq]]]]. cbn [fst] in Heq.
      fold sh in Hcpos, Hrb, Hcb, Heq. rewrite Hcs in *.
      set (rf := rowf V c caxes (ravel (K ++ R) (sel 0 caxes ix ++ sel 0 red ix), v)) in *.
      set (cf := colf V c caxes (ravel (K ++ R) (sel 0 caxes ix ++ sel 0 red ix), v)) in *.
      rewrite ravel_app in Heq by (unfold K; rewrite !sel_length; reflexivity).
      pose proof (ravel_bounds _ _ H1) as B1. pose proof (ravel_bounds _ _ H2) as B2.
      set (rk := ravel K (sel 0 caxes ix)) in *. set (rr := ravel R (sel 0 red ix)) in *. set (S := size R) in *.
      destruct (Z.lt_trichotomy rf rk) as [Hlt|[Heq'|Hgt]]; [|symmetry; exact Heq'|].
      - assert ((rf + 1) * S <= rk * S) by (apply Z.mul_le_mono_nonneg_r; lia). lia.
      - assert ((rk + 1) * S <= rf * S) by (apply Z.mul_le_mono_nonneg_r; lia). lia. }
    rewrite Hk, Hdata, Hrowsq.
    destruct (grouped_reduce V op cast (c_fill c) (map snd s) (map (rowf V c caxes) s)) as [[[data inv] counts]|e];
      cbn [bind]; [|reflexivity].
    cbn [k_data k_counts k_rows k_inv k_ncols]. repeat f_equal. apply col_size_sel.
  Qed.
End Path.
