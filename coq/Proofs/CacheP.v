(* Proofs/CacheP.v — the memo of sparse.COO is transparent: for every history of calls the
   cache-enabled run returns values equal to the run without caching; the deques stay bounded. *)
From Coq Require Import ZArith List Bool String Lia Arith.
From Verif Require Import Py S_cache Cache.
Import ListNotations.
Local Open Scope nat_scope.

(* ------------------------------------------------------------------ deque facts *)
Section DequeP.
  Context {K V : Type}.
  Variable keqb : K -> K -> bool.

  Lemma dq_lookup_some (d : @deque K V) k v :
    dq_lookup keqb d k = Some v -> exists k', In (k', v) d /\ keqb k' k = true.
  Proof.
    induction d as [|[k' v'] r IH]; cbn; [discriminate|].
    destruct (keqb k' k) eqn:E.
    - intros [= ->]. exists k'. auto.
    - intros H. destruct (IH H) as (k2 & Hin & Hk). exists k2. auto.
  Qed.

  Lemma in_skipn {A} (x : A) n l : In x (skipn n l) -> In x l.
  Proof.
    intros H. rewrite <- (firstn_skipn n l). apply in_or_app. now right.
  Qed.

  Lemma dq_append_in cap (d : @deque K V) e x :
    In x (dq_append cap d e) -> In x d \/ x = e.
  Proof.
    unfold dq_append. intros H. apply in_skipn in H. apply in_app_or in H.
    destruct H as [H|[H|[]]]; auto.
  Qed.

  Lemma dq_append_length cap (d : @deque K V) e :
    List.length (dq_append cap d e) <= cap.
  Proof.
    unfold dq_append. rewrite skipn_length. lia.
  Qed.

  Lemma dq_append_length_le cap (d : @deque K V) e :
    List.length (dq_append cap d e) <= S (List.length d).
  Proof.
    unfold dq_append. rewrite skipn_length, app_length. cbn. lia.
  Qed.
End DequeP.

(* ------------------------------------------------------------------ one memo in isolation *)
Section MemoP.
  Variables (A E K V : Type).
  Variable keqb : K -> K -> bool.
  Variable cap : nat.
  Variable m_pre : A -> pre E.
  Variables (lkey skey : E -> K).
  Variable f : E -> V.
  (* an entry stored under the key of e0 answers a lookup with the key of e only if f agrees *)
  Hypothesis key_determines_result :
    forall e0 e, keqb (skey e0) (lkey e) = true -> f e0 = f e.

  Definition memo_inv (d : @deque K V) : Prop :=
    forall k v, In (k, v) d -> exists e0, k = skey e0 /\ v = f e0.

  Lemma memo_call_ok d a :
    memo_inv d ->
    fst (memo_call_cached A E K V keqb cap m_pre lkey skey f d a) = memo_call_uncached A E V m_pre f a
    /\ memo_inv (snd (memo_call_cached A E K V keqb cap m_pre lkey skey f d a)).
  Proof.
    intros Hinv. unfold memo_call_cached, memo_call_uncached.
    destruct (m_pre a) as [e| |env]; cbn; auto.
    destruct (dq_lookup keqb d (lkey env)) as [v|] eqn:El; cbn.
    - split; auto. apply dq_lookup_some in El. destruct El as (k' & Hin & Hk).
      destruct (Hinv _ _ Hin) as (e0 & -> & ->). f_equal. now apply key_determines_result.
    - split; auto. intros k v Hin. apply dq_append_in in Hin. destruct Hin as [Hin|[= -> ->]]; eauto.
  Qed.

  Theorem memo_transparent_from d ops :
    memo_inv d ->
    fst (memo_run_cached A E K V keqb cap m_pre lkey skey f d ops) = memo_run_uncached A E V m_pre f ops.
  Proof.
    revert d. induction ops as [|a r IH]; intros d Hinv; cbn; [reflexivity|].
    destruct (memo_call_ok d a Hinv) as [H1 H2].
    destruct (memo_call_cached A E K V keqb cap m_pre lkey skey f d a) as [o d1]; cbn in *.
    specialize (IH d1 H2).
    destruct (memo_run_cached A E K V keqb cap m_pre lkey skey f d1 r) as [os d2]; cbn in *.
    now rewrite H1, IH.
  Qed.

  Theorem memo_transparent ops :
    fst (memo_run_cached A E K V keqb cap m_pre lkey skey f [] ops) = memo_run_uncached A E V m_pre f ops.
  Proof. apply memo_transparent_from. intros k v []. Qed.

  Theorem memo_bounded ops d :
    List.length d <= cap ->
    List.length (snd (memo_run_cached A E K V keqb cap m_pre lkey skey f d ops)) <= cap.
  Proof.
    revert d. induction ops as [|a r IH]; intros d Hd; cbn; [exact Hd|].
    destruct (memo_call_cached A E K V keqb cap m_pre lkey skey f d a) as [o d1] eqn:Ec.
    assert (Hd1 : List.length d1 <= cap).
    { unfold memo_call_cached in Ec. destruct (m_pre a); try (injection Ec as _ <-; exact Hd).
      destruct (dq_lookup keqb d (lkey env)); injection Ec as _ <-; [exact Hd|apply dq_append_length]. }
    specialize (IH d1 Hd1).
    destruct (memo_run_cached A E K V keqb cap m_pre lkey skey f d1 r) as [os d2]; cbn in *. exact IH.
  Qed.
End MemoP.

(* ------------------------------------------------------------------ list extension *)
Lemma nth_error_ext {A} (l x : list A) i v : nth_error l i = Some v -> nth_error (l ++ x) i = Some v.
Proof.
  intros H. rewrite nth_error_app1; [exact H|]. apply nth_error_Some. congruence.
Qed.

Lemma nth_error_new {A} (l : list A) v : nth_error (l ++ [v]) (List.length l) = Some v.
Proof. rewrite nth_error_app2 by lia. now rewrite Nat.sub_diag. Qed.

(* ------------------------------------------------------------------ the family of objects *)
Section FamilyP.
  Variable V : Type.
  Variables (AT AR ET ER KT KR : Type).
  Variables (kt_eqb : KT -> KT -> bool) (kr_eqb : KR -> KR -> bool).
  Variable cap : nat.
  Variable pre_t : V -> AT -> pre ET.
  Variables (lkey_t skey_t : ET -> KT).
  Variable comp_t : V -> ET -> V.
  Variable pre_r : V -> AR -> pre ER.
  Variables (lkey_r skey_r : ER -> KR).
  Variable comp_r : V -> ER -> V.
  Variable guard_m : V -> option exc.
  Variable mk_csr : V -> res V.
  Variables (csr2csc csc2csr : V -> V).

  Hypothesis kd_t : forall v e0 e, kt_eqb (skey_t e0) (lkey_t e) = true -> comp_t v e0 = comp_t v e.
  Hypothesis kd_r : forall v e0 e, kr_eqb (skey_r e0) (lkey_r e) = true -> comp_r v e0 = comp_r v e.

  Notation st := (st V KT KR).
  Notation cache_t := (cache KT KR).
  Notation step := (step V AT AR ET ER KT KR kt_eqb kr_eqb cap pre_t lkey_t skey_t comp_t
                         pre_r lkey_r skey_r comp_r guard_m mk_csr csr2csc csc2csr).
  Notation run := (run V AT AR ET ER KT KR kt_eqb kr_eqb cap pre_t lkey_t skey_t comp_t
                       pre_r lkey_r skey_r comp_r guard_m mk_csr csr2csc csc2csr).
  Notation csr_cached := (csr_cached V KT KR mk_csr csc2csr).

  (* every memo entry of object t holds what the uncached computation on t would return *)
  Definition cache_ok (vs : list V) (t : nat) (c : cache_t) : Prop :=
    (forall k id, In (k, id) (c_tr c) ->
       exists v e0, nth_error vs t = Some v /\ k = skey_t e0 /\ nth_error vs id = Some (comp_t v e0)) /\
    (forall k id, In (k, id) (c_rs c) ->
       exists v e0, nth_error vs t = Some v /\ k = skey_r e0 /\ nth_error vs id = Some (comp_r v e0)) /\
    (forall id, c_csr c = Some id ->
       exists v m, nth_error vs t = Some v /\ mk_csr v = Ok m /\ nth_error vs id = Some m) /\
    (forall id, c_csc c = Some id ->
       exists v m, nth_error vs t = Some v /\ mk_csr v = Ok m /\ nth_error vs id = Some (csr2csc m)
                   /\ c_csr c <> None).

  Definition wfc (vs : list V) (cs : nat -> cache_t) : Prop := forall t, cache_ok vs t (cs t).

  Lemma cache_ok_ext vs x t c : cache_ok vs t c -> cache_ok (vs ++ x) t c.
  Proof.
    intros (H1 & H2 & H3 & H4). repeat split.
    - intros k id Hin. destruct (H1 _ _ Hin) as (v & e0 & Ha & Hb & Hc).
      exists v, e0. auto using nth_error_ext.
    - intros k id Hin. destruct (H2 _ _ Hin) as (v & e0 & Ha & Hb & Hc).
      exists v, e0. auto using nth_error_ext.
    - intros id Hc. destruct (H3 _ Hc) as (v & m & Ha & Hb & Hd). exists v, m. auto using nth_error_ext.
    - intros id Hc. destruct (H4 _ Hc) as (v & m & Ha & Hb & Hd & He). exists v, m. auto using nth_error_ext.
  Qed.

  Lemma wfc_ext vs x cs : wfc vs cs -> wfc (vs ++ x) cs.
  Proof. intros H t. apply cache_ok_ext, H. Qed.

  Lemma wfc_set vs cs t c : wfc vs cs -> cache_ok vs t c -> wfc vs (set_cache KT KR cs t c).
  Proof.
    intros H Hc t'. unfold set_cache. destruct (Nat.eqb_spec t' t) as [->|]; [exact Hc|apply H].
  Qed.

  Lemma empty_ok vs t : cache_ok vs t (empty_cache KT KR).
  Proof. repeat split; cbn; intros; try contradiction; discriminate. Qed.

  (* observable agreement of two outputs *)
  Definition orel (vc vu : list V) (oc ou : out) : Prop :=
    match oc, ou with
    | ORaise e, ORaise e' => e = e'
    | OSkip, OSkip => True
    | OObj i, OObj j => exists v, nth_error vc i = Some v /\ nth_error vu j = Some v
    | _, _ => False
    end.

  Lemma orel_ext vc vu x y oc ou : orel vc vu oc ou -> orel (vc ++ x) (vu ++ y) oc ou.
  Proof.
    destruct oc, ou; cbn; auto. intros (v & Ha & Hb). exists v. auto using nth_error_ext.
  Qed.

  Definition R (sc su : st) : Prop :=
    Forall2 (orel (vals sc) (vals su)) (outs sc) (outs su)
    /\ (exists v0, nth_error (vals sc) 0 = Some v0 /\ nth_error (vals su) 0 = Some v0).

  Lemma Forall2_orel_ext vc vu x y l1 l2 :
    Forall2 (orel vc vu) l1 l2 -> Forall2 (orel (vc ++ x) (vu ++ y)) l1 l2.
  Proof. induction 1; constructor; auto using orel_ext. Qed.

  Lemma R_finish sc su x y csc csu oc ou :
    R sc su -> orel (vals sc ++ x) (vals su ++ y) oc ou ->
    R (finish V KT KR sc (vals sc ++ x) csc oc) (finish V KT KR su (vals su ++ y) csu ou).
  Proof.
    intros [HF (v0 & Ha & Hb)] Ho. split.
    - cbn. apply Forall2_app; [now apply Forall2_orel_ext|]. constructor; [exact Ho|constructor].
    - exists v0. unfold finish; cbn [vals]. split; apply nth_error_ext; assumption.
  Qed.

  Lemma R_finish0 sc su csc csu oc ou :
    R sc su -> orel (vals sc) (vals su) oc ou ->
    R (finish V KT KR sc (vals sc) csc oc) (finish V KT KR su (vals su) csu ou).
  Proof.
    intros HR Ho. pose proof (R_finish sc su [] [] csc csu oc ou HR) as H.
    rewrite !app_nil_r in H. now apply H.
  Qed.

  Lemma R_finish_l sc su x csc csu oc ou :
    R sc su -> orel (vals sc ++ x) (vals su) oc ou ->
    R (finish V KT KR sc (vals sc ++ x) csc oc) (finish V KT KR su (vals su) csu ou).
  Proof.
    intros HR Ho. pose proof (R_finish sc su x [] csc csu oc ou HR) as H.
    rewrite !app_nil_r in H. now apply H.
  Qed.

  Lemma R_finish_r sc su y csc csu oc ou :
    R sc su -> orel (vals sc) (vals su ++ y) oc ou ->
    R (finish V KT KR sc (vals sc) csc oc) (finish V KT KR su (vals su ++ y) csu ou).
  Proof.
    intros HR Ho. pose proof (R_finish sc su [] y csc csu oc ou HR) as H.
    rewrite !app_nil_r in H. now apply H.
  Qed.

  Lemma Forall2_nth {A B} (P : A -> B -> Prop) l1 l2 i :
    Forall2 P l1 l2 ->
    match nth_error l1 i, nth_error l2 i with
    | Some a, Some b => P a b
    | None, None => True
    | _, _ => False
    end.
  Proof.
    intros H. revert i. induction H; intros [|i]; cbn; auto. apply IHForall2.
  Qed.

  Lemma resolve_rel sc su tg :
    R sc su ->
    match resolve V KT KR sc tg, resolve V KT KR su tg with
    | Some tc, Some tu => exists v, nth_error (vals sc) tc = Some v /\ nth_error (vals su) tu = Some v
    | None, None => True
    | _, _ => False
    end.
  Proof.
    intros [HF (v0 & Ha & Hb)]. destruct tg as [|i]; cbn.
    - exists v0. auto.
    - pose proof (Forall2_nth _ _ _ i HF) as H.
      destruct (nth_error (outs sc) i) as [oc|], (nth_error (outs su) i) as [ou|]; try contradiction; auto.
      destruct oc, ou; cbn in H; try contradiction; auto.
  Qed.

  Definition wf (s : st) : Prop := wfc (vals s) (caches s).

  (* self.tocsr() in caching mode *)
  Lemma csr_cached_ok (s : st) t v :
    wf s -> nth_error (vals s) t = Some v ->
    match csr_cached s t v with
    | (r, vs, cs) =>
      (exists x, vs = vals s ++ x) /\ wfc vs cs /\
      match r, mk_csr v with
      | OObj id, Ok m => nth_error vs id = Some m /\ c_csr (cs t) = Some id
      | ORaise e, Raise e' => e = e' /\ vs = vals s /\ cs = caches s
      | _, _ => False
      end
    end.
  Proof.
    intros Hwf Hv. unfold csr_cached.
    pose proof (Hwf t) as (H1 & H2 & H3 & H4).
    destruct (c_csr (caches s t)) as [id|] eqn:Ecsr.
    - destruct (H3 _ eq_refl) as (v' & m & Ha & Hb & Hc).
      rewrite Hv in Ha. injection Ha as <-. rewrite Hb.
      split; [exists []; now rewrite app_nil_r|]. split; [exact Hwf|]. auto.
    - destruct (c_csc (caches s t)) as [idc|] eqn:Ecsc.
      + destruct (H4 _ eq_refl) as (v' & m & _ & _ & _ & Hne). congruence.
      + destruct (mk_csr v) as [m|e] eqn:Em.
        * unfold alloc; cbn.
          split; [now eexists|]. split.
          -- apply wfc_set; [now apply wfc_ext|].
             repeat split; cbn.
             ++ intros k id Hin. destruct (H1 _ _ Hin) as (v' & e0 & Ha & Hb & Hc).
                exists v', e0. auto using nth_error_ext.
             ++ intros k id Hin. destruct (H2 _ _ Hin) as (v' & e0 & Ha & Hb & Hc).
                exists v', e0. auto using nth_error_ext.
             ++ intros id [= <-]. exists v, m. split; [now apply nth_error_ext|]. split; [exact Em|].
                apply nth_error_new.
             ++ intros id Hx; try rewrite Ecsc in Hx; discriminate.
          -- split; [apply nth_error_new|]. unfold set_cache. now rewrite Nat.eqb_refl.
        * split; [exists []; now rewrite app_nil_r|]. split; [exact Hwf|]. auto.
  Qed.

  Ltac same_val Hv Ha :=
    rewrite Hv in Ha; injection Ha as <-.

  Lemma step_ok sc su tg o :
    wf sc -> R sc su -> wf (step true sc tg o) /\ R (step true sc tg o) (step false su tg o).
  Proof.
    intros Hwf HR. unfold step.
    pose proof (resolve_rel sc su tg HR) as Hres.
    destruct (resolve V KT KR sc tg) as [tc|], (resolve V KT KR su tg) as [tu|]; try contradiction.
    2:{ split; [exact Hwf|]. apply R_finish0; cbn; auto. }
    destruct Hres as (v & Hvc & Hvu). rewrite Hvc, Hvu.
    pose proof (Hwf tc) as (H1 & H2 & H3 & H4).
    destruct o as [a|a| |].
    - (* transpose *)
      destruct (pre_t v a) as [e| |env].
      + split; [exact Hwf|]. apply R_finish0; cbn; auto.
      + split; [exact Hwf|]. apply R_finish0; cbn; eauto.
      + destruct (dq_lookup kt_eqb (c_tr (caches sc tc)) (lkey_t env)) as [id|] eqn:El.
        * apply dq_lookup_some in El. destruct El as (k' & Hin & Hk).
          destruct (H1 _ _ Hin) as (v' & e0 & Ha & -> & Hc). same_val Hvc Ha.
          unfold alloc; cbn. split; [exact Hwf|].
          apply R_finish_r; auto. cbn. exists (comp_t v e0). split; [exact Hc|].
          rewrite (kd_t v e0 env Hk). apply nth_error_new.
        * unfold alloc; cbn. split.
          -- unfold wf; cbn. apply wfc_set; [now apply wfc_ext|].
             repeat split; cbn.
             ++ intros k id Hin. apply dq_append_in in Hin. destruct Hin as [Hin|[= -> ->]].
                ** destruct (H1 _ _ Hin) as (v' & e0 & Ha & Hb & Hc). exists v', e0. auto using nth_error_ext.
                ** exists v, env. split; [now apply nth_error_ext|]. split; [reflexivity|apply nth_error_new].
             ++ intros k id Hin. destruct (H2 _ _ Hin) as (v' & e0 & Ha & Hb & Hc).
                exists v', e0. auto using nth_error_ext.
             ++ intros id Hc. destruct (H3 _ Hc) as (v' & m & Ha & Hb & Hd). exists v', m. auto using nth_error_ext.
             ++ intros id Hc. destruct (H4 _ Hc) as (v' & m & Ha & Hb & Hd & He).
                exists v', m. auto using nth_error_ext.
          -- apply R_finish; auto. cbn. exists (comp_t v env). split; apply nth_error_new.
    - (* reshape *)
      destruct (pre_r v a) as [e| |env].
      + split; [exact Hwf|]. apply R_finish0; cbn; auto.
      + split; [exact Hwf|]. apply R_finish0; cbn; eauto.
      + destruct (dq_lookup kr_eqb (c_rs (caches sc tc)) (lkey_r env)) as [id|] eqn:El.
        * apply dq_lookup_some in El. destruct El as (k' & Hin & Hk).
          destruct (H2 _ _ Hin) as (v' & e0 & Ha & -> & Hc). same_val Hvc Ha.
          unfold alloc; cbn. split; [exact Hwf|].
          apply R_finish_r; auto. cbn. exists (comp_r v e0). split; [exact Hc|].
          rewrite (kd_r v e0 env Hk). apply nth_error_new.
        * unfold alloc; cbn. split.
          -- unfold wf; cbn. apply wfc_set; [now apply wfc_ext|].
             repeat split; cbn.
             ++ intros k id Hin. destruct (H1 _ _ Hin) as (v' & e0 & Ha & Hb & Hc).
                exists v', e0. auto using nth_error_ext.
             ++ intros k id Hin. apply dq_append_in in Hin. destruct Hin as [Hin|[= -> ->]].
                ** destruct (H2 _ _ Hin) as (v' & e0 & Ha & Hb & Hc). exists v', e0. auto using nth_error_ext.
                ** exists v, env. split; [now apply nth_error_ext|]. split; [reflexivity|apply nth_error_new].
             ++ intros id Hc. destruct (H3 _ Hc) as (v' & m & Ha & Hb & Hd). exists v', m. auto using nth_error_ext.
             ++ intros id Hc. destruct (H4 _ Hc) as (v' & m & Ha & Hb & Hd & He).
                exists v', m. auto using nth_error_ext.
          -- apply R_finish; auto. cbn. exists (comp_r v env). split; apply nth_error_new.
    - (* tocsr *)
      destruct (guard_m v) as [e|].
      { split; [exact Hwf|]. apply R_finish0; cbn; auto. }
      pose proof (csr_cached_ok sc tc v Hwf Hvc) as Hc.
      destruct (csr_cached sc tc v) as [[r vs] cs]. destruct Hc as ((x & ->) & Hwf' & Hr).
      destruct r as [e|id|], (mk_csr v) as [m|e'] eqn:Em; try contradiction.
      + destruct Hr as (-> & Hx & ->). split; [exact Hwf'|]. apply R_finish_l; cbn; auto.
      + destruct Hr as (Hid & _). unfold alloc; cbn. split; [exact Hwf'|].
        apply R_finish; auto. cbn. exists m. split; [exact Hid|apply nth_error_new].
    - (* tocsc *)
      destruct (guard_m v) as [e|].
      { split; [exact Hwf|]. apply R_finish0; cbn; auto. }
      destruct (c_csc (caches sc tc)) as [id|] eqn:Ecsc.
      { destruct (H4 _ eq_refl) as (v' & m & Ha & Hb & Hd & _). same_val Hvc Ha. rewrite Hb.
        unfold alloc; cbn. split; [exact Hwf|]. apply R_finish_r; auto. cbn.
        exists (csr2csc m). split; [exact Hd|apply nth_error_new]. }
      destruct (c_csr (caches sc tc)) as [idr|] eqn:Ecsr.
      { destruct (H3 _ eq_refl) as (v' & m & Ha & Hb & Hd). same_val Hvc Ha. rewrite Hb, Hd.
        unfold alloc; cbn. split.
        - unfold wf; cbn. apply wfc_set; [now apply wfc_ext|].
          repeat split; cbn.
          + intros k id Hin. destruct (H1 _ _ Hin) as (v' & e0 & Ha & Hb' & Hc).
            exists v', e0. auto using nth_error_ext.
          + intros k id Hin. destruct (H2 _ _ Hin) as (v' & e0 & Ha & Hb' & Hc).
            exists v', e0. auto using nth_error_ext.
          + try rewrite Ecsr. intros id [= <-]. exists v, m. auto using nth_error_ext.
          + intros id [= <-]. exists v, m. split; [now apply nth_error_ext|]. split; [exact Hb|].
            split; [apply nth_error_new|]. try rewrite Ecsr. discriminate.
        - apply R_finish; auto. cbn. exists (csr2csc m). split; apply nth_error_new. }
      pose proof (csr_cached_ok sc tc v Hwf Hvc) as Hc.
      destruct (csr_cached sc tc v) as [[r vs] cs]. destruct Hc as ((x & ->) & Hwf' & Hr).
      destruct r as [e|id|], (mk_csr v) as [m|e'] eqn:Em; try contradiction.
      + destruct Hr as (-> & Hx & ->). split; [exact Hwf'|]. apply R_finish_l; cbn; auto.
      + destruct Hr as (Hid & Hcsr). rewrite Hid. unfold alloc; cbn. split.
        * unfold wf; cbn. apply wfc_set; [now apply wfc_ext|].
          pose proof (Hwf' tc) as (G1 & G2 & G3 & G4).
          repeat split; cbn.
          -- intros k id' Hin. destruct (G1 _ _ Hin) as (v' & e0 & Ha & Hb' & Hc).
             exists v', e0. auto using nth_error_ext.
          -- intros k id' Hin. destruct (G2 _ _ Hin) as (v' & e0 & Ha & Hb' & Hc).
             exists v', e0. auto using nth_error_ext.
          -- intros id' Hc. destruct (G3 _ Hc) as (v' & m' & Ha & Hb' & Hd).
             exists v', m'. auto using nth_error_ext.
          -- intros id' [= <-]. exists v, m.
             split; [apply nth_error_ext; now apply nth_error_ext|]. split; [exact Em|].
             split; [apply nth_error_new|]. rewrite Hcsr. discriminate.
        * rewrite <- app_assoc. apply R_finish; auto. cbn. exists (csr2csc m).
          split; [|apply nth_error_new]. rewrite app_assoc. apply nth_error_new.
  Qed.

  Lemma run_ok h : forall sc su,
    wf sc -> R sc su -> wf (run true h sc) /\ R (run true h sc) (run false h su).
  Proof.
    induction h as [|[tg o] r IH]; intros sc su Hwf HR; cbn; [auto|].
    destruct (step_ok sc su tg o Hwf HR) as [Hwf' HR']. now apply IH.
  Qed.

  Lemma R_out_vals sc su : R sc su -> out_vals V KT KR sc = out_vals V KT KR su.
  Proof.
    intros [HF _]. unfold out_vals. induction HF as [|oc ou lc lu Ho HF IH]; cbn; [reflexivity|].
    f_equal; [|exact IH].
    destruct oc, ou; cbn in Ho; try contradiction; cbn; [now subst| |reflexivity].
    destruct Ho as (v & Ha & Hb). now rewrite Ha, Hb.
  Qed.

  Lemma init_ok v0 : wf (init V KT KR v0) /\ R (init V KT KR v0) (init V KT KR v0).
  Proof.
    split.
    - intros t. apply empty_ok.
    - split; cbn; [constructor|eauto].
  Qed.

  Theorem family_transparent h v0 :
    out_vals V KT KR (run true h (init V KT KR v0)) = out_vals V KT KR (run false h (init V KT KR v0)).
  Proof.
    destruct (init_ok v0) as [Hwf HR]. apply R_out_vals. now apply run_ok.
  Qed.

  (* the deques never exceed the capacity *)
  Definition bounded (s : st) : Prop :=
    forall t, List.length (c_tr (caches s t)) <= cap /\ List.length (c_rs (caches s t)) <= cap.

  Lemma bounded_set (s : st) vs cs' o t c :
    bounded s -> (forall i, i <> t -> cs' i = caches s i) -> cs' t = c ->
    List.length (c_tr c) <= cap -> List.length (c_rs c) <= cap ->
    bounded (finish V KT KR s vs cs' o).
  Proof.
    intros Hb Hother Ht H1 H2 t'. cbn. destruct (Nat.eq_dec t' t) as [->|Hne].
    - now rewrite Ht.
    - rewrite (Hother _ Hne). apply Hb.
  Qed.

  Lemma set_cache_other (cs : nat -> cache_t) t c i : i <> t -> set_cache KT KR cs t c i = cs i.
  Proof. intros H. unfold set_cache. destruct (Nat.eqb_spec i t); congruence. Qed.

  Lemma set_cache_same (cs : nat -> cache_t) t c : set_cache KT KR cs t c t = c.
  Proof. unfold set_cache. now rewrite Nat.eqb_refl. Qed.

  Lemma csr_cached_bounded (s : st) t v :
    bounded s ->
    match csr_cached s t v with
    | (_, _, cs) => forall t', List.length (c_tr (cs t')) <= cap /\ List.length (c_rs (cs t')) <= cap
    end.
  Proof.
    intros Hb. unfold csr_cached.
    destruct (c_csr (caches s t)); [exact Hb|].
    destruct (c_csc (caches s t)).
    - destruct (nth_error (vals s) n); [|exact Hb]. unfold alloc; cbn.
      intros t'. unfold set_cache. destruct (Nat.eqb_spec t' t) as [->|]; cbn; apply Hb.
    - destruct (mk_csr v); [|exact Hb]. unfold alloc; cbn.
      intros t'. unfold set_cache. destruct (Nat.eqb_spec t' t) as [->|]; cbn; apply Hb.
  Qed.

  Lemma step_bounded mode s tg o : bounded s -> bounded (step mode s tg o).
  Proof.
    intros Hb. unfold step.
    destruct (resolve V KT KR s tg) as [t|]; [|exact Hb].
    destruct (nth_error (vals s) t) as [v|]; [|exact Hb].
    destruct o as [a|a| |].
    - destruct (pre_t v a); try exact Hb. destruct mode; [|unfold alloc; exact Hb].
      destruct (dq_lookup kt_eqb (c_tr (caches s t)) (lkey_t env)); [exact Hb|].
      unfold alloc; cbn. eapply bounded_set; eauto using set_cache_other, set_cache_same; cbn.
      + apply dq_append_length.
      + apply Hb.
    - destruct (pre_r v a); try exact Hb. destruct mode; [|unfold alloc; exact Hb].
      destruct (dq_lookup kr_eqb (c_rs (caches s t)) (lkey_r env)); [exact Hb|].
      unfold alloc; cbn. eapply bounded_set; eauto using set_cache_other, set_cache_same; cbn.
      + apply Hb.
      + apply dq_append_length.
    - destruct (guard_m v); [exact Hb|]. destruct mode.
      + pose proof (csr_cached_bounded s t v Hb) as H. destruct (csr_cached s t v) as [[r vs] cs]. exact H.
      + destruct (mk_csr v); [unfold alloc|]; exact Hb.
    - destruct (guard_m v); [exact Hb|]. destruct mode.
      + destruct (c_csc (caches s t)); [exact Hb|].
        destruct (c_csr (caches s t)).
        * destruct (nth_error (vals s) n); [|exact Hb]. unfold alloc; cbn.
          intros t'. cbn. unfold set_cache. destruct (Nat.eqb_spec t' t) as [->|]; cbn; apply Hb.
        * pose proof (csr_cached_bounded s t v Hb) as H. destruct (csr_cached s t v) as [[r vs] cs].
          destruct r; try exact H. destruct (nth_error vs id); [|exact H].
          intros t'. cbn. unfold set_cache. destruct (Nat.eqb_spec t' t) as [->|]; cbn; apply H.
      + destruct (mk_csr v); [unfold alloc|]; exact Hb.
  Qed.

  Theorem family_bounded mode h : forall s, bounded s -> bounded (run mode h s).
  Proof.
    induction h as [|[tg o] r IH]; intros s Hb; cbn; [exact Hb|]. apply IH, step_bounded, Hb.
  Qed.

  Lemma init_bounded v0 : bounded (init V KT KR v0).
  Proof. intros t; cbn; lia. Qed.
End FamilyP.

(* ------------------------------------------------------------------ keys built from named locals *)
Lemma str_mem_in s l : str_mem s l = true -> In s l.
Proof.
  induction l as [|x r IH]; cbn; [discriminate|].
  destruct (String.eqb_spec s x) as [->|]; cbn; auto.
Qed.

Lemma strs_eqb_eq a b : strs_eqb a b = true -> a = b.
Proof.
  revert b. induction a as [|x r IH]; intros [|y q]; cbn; try discriminate; auto.
  destruct (String.eqb_spec x y) as [->|]; cbn; [|discriminate]. intros H. f_equal. now apply IH.
Qed.

Section KeysP.
  Variable W : Type.
  Variable weqb : W -> W -> bool.
  Hypothesis weqb_sound : forall a b, weqb a b = true -> a = b.

  Lemma keys_eqb_map names (e0 e : env W) :
    keys_eqb weqb (key_of names e0) (key_of names e) = true -> forall n, In n names -> e0 n = e n.
  Proof.
    unfold key_of. induction names as [|x r IH]; cbn; [contradiction|].
    intros H n [<-|Hin].
    - apply weqb_sound. now apply andb_true_iff in H.
    - apply IH; [|exact Hin]. now apply andb_true_iff in H.
  Qed.

  (* the generated protocol, if it passes the static test, gives the memo hypothesis *)
  Lemma proto_key_determines_result (p : proto) (V : Type) (g : V -> list W -> V) :
    proto_ok p = true ->
    forall v e0 e,
      keys_eqb weqb (key_of (p_store_key p) e0) (key_of (p_lookup_key p) e) = true ->
      g v (key_of (p_result_deps p) e0) = g v (key_of (p_result_deps p) e).
  Proof.
    unfold proto_ok. intros Hok v e0 e Hk.
    repeat (apply andb_true_iff in Hok; destruct Hok as [Hok ?]).
    match goal with H : strs_eqb _ _ = true |- _ => apply strs_eqb_eq in H; rewrite <- H in Hk end.
    f_equal. unfold key_of. apply map_ext_in. intros n Hin.
    eapply keys_eqb_map; [exact Hk|].
    match goal with H : forallb _ _ = true |- _ => rewrite forallb_forall in H; specialize (H _ Hin) end.
    now apply str_mem_in.
  Qed.
End KeysP.

(* ------------------------------------------------------------------ COO *)
Lemma transpose_proto_ok : proto_ok transpose_proto = true.
Proof. vm_compute. reflexivity. Qed.

Lemma reshape_proto_ok : proto_ok reshape_proto = true.
Proof. vm_compute. reflexivity. Qed.

Lemma csr_csc_memo_shape_proof : attr_proto_ok tocsr_proto tocsc_proto = true.
Proof. vm_compute. reflexivity. Qed.

Theorem coo_cache_transparent :
  forall (V W AT AR : Type) (weqb : W -> W -> bool),
    (forall a b, weqb a b = true -> a = b) ->
  forall (cap : nat)
         (pre_t : V -> AT -> pre (env W)) (g_t : V -> list W -> V)
         (pre_r : V -> AR -> pre (env W)) (g_r : V -> list W -> V)
         (guard_m : V -> option exc) (mk_csr : V -> res V) (csr2csc csc2csr : V -> V)
         (h : list (target * op AT AR)) (v0 : V),
    out_vals V (list W) (list W)
      (coo_run V W AT AR weqb cap pre_t g_t pre_r g_r guard_m mk_csr csr2csc csc2csr true h (init V _ _ v0))
    = out_vals V (list W) (list W)
      (coo_run V W AT AR weqb cap pre_t g_t pre_r g_r guard_m mk_csr csr2csc csc2csr false h (init V _ _ v0)).
Proof.
  intros. unfold coo_run. apply family_transparent.
  - intros v e0 e Hk. now apply (proto_key_determines_result W weqb H transpose_proto V g_t transpose_proto_ok).
  - intros v e0 e Hk. now apply (proto_key_determines_result W weqb H reshape_proto V g_r reshape_proto_ok).
Qed.

Theorem coo_cache_bounded :
  forall (V W AT AR : Type) (weqb : W -> W -> bool) (cap : nat)
         (pre_t : V -> AT -> pre (env W)) (g_t : V -> list W -> V)
         (pre_r : V -> AR -> pre (env W)) (g_r : V -> list W -> V)
         (guard_m : V -> option exc) (mk_csr : V -> res V) (csr2csc csc2csr : V -> V)
         (mode : bool) (h : list (target * op AT AR)) (v0 : V) (t : nat),
    let s := coo_run V W AT AR weqb cap pre_t g_t pre_r g_r guard_m mk_csr csr2csc csc2csr mode h (init V _ _ v0) in
    (List.length (c_tr (caches s t)) <= cap /\ List.length (c_rs (caches s t)) <= cap)%nat.
Proof.
  intros. subst s. unfold coo_run. apply family_bounded. apply init_bounded.
Qed.

(* ------------------------------------------------------------------ non-vacuity *)
Local Open Scope Z_scope.

(* the memo hypothesis is satisfiable: keys are the arguments themselves, compared with Z.eqb *)
Example memo_hypothesis_satisfiable :
  forall e0 e : Z, Z.eqb (id e0) (id e) = true -> Z.succ e0 = Z.succ e.
Proof. intros e0 e H. apply Z.eqb_eq in H. unfold id in H. now subst. Qed.

(* capacity 1: the second call hits, key 2 evicts key 1, key 1 is recomputed, 0 is the identity short-cut *)
Example memo_example :
  let r := memo_run_cached Z Z Z Z Z.eqb 1%nat (fun a => if a =? 0 then PSelf else PGo a) id id Z.succ [] [1; 1; 2; 1; 0] in
  fst r = [MVal 2; MVal 2; MVal 3; MVal 2; MSelf] /\ snd r = [(1, 2)]
  /\ fst r = memo_run_uncached Z Z Z (fun a => if a =? 0 then PSelf else PGo a) Z.succ [1; 1; 2; 1; 0].
Proof. vm_compute. repeat split; reflexivity. Qed.

Fixpoint zs_eqb (a b : list Z) : bool :=
  match a, b with
  | [], [] => true
  | x :: r, y :: q => (x =? y) && zs_eqb r q
  | _, _ => false
  end.

Lemma zs_eqb_sound a b : zs_eqb a b = true -> a = b.
Proof.
  revert b. induction a as [|x r IH]; intros [|y q]; cbn; try discriminate; auto.
  intros H. apply andb_true_iff in H. destruct H as [H1 H2]. apply Z.eqb_eq in H1. subst. f_equal. now apply IH.
Qed.

(* a concrete family: values are shapes; capacity 1.  Call 2 returns the identical object as call 1
   (id 1); key [2] evicts key [1]; call 4 recomputes (a new object, id 3); the uncached twin creates a
   new object per call; the values agree call by call. *)
Definition ex_family (mode : bool) :=
  coo_run (list Z) (list Z) (list Z) (list Z) zs_eqb 1%nat
          (fun _ a => match a with [] => PSelf | _ => PGo (fun _ => a) end) (fun v k => List.concat k ++ v)
          (fun _ a => match a with [] => PSelf | _ => PGo (fun _ => a) end) (fun v k => v ++ List.concat k)
          (fun _ => None) (fun v => Ok v) (fun m => 0 :: m) (fun m => m)
          mode
          [(TRoot, OpT [1]); (TRoot, OpT [1]); (TRoot, OpT [2]); (TRoot, OpT [1]); (TOut 0, OpR [5]);
           (TOut 1, OpR [5]); (TRoot, OpCsc); (TRoot, OpCsr); (TRoot, OpT [])]
          (init (list Z) _ _ [7]).

Example ex_family_identities :
  outs (ex_family true)
  = [OObj 1; OObj 1; OObj 2; OObj 3; OObj 4; OObj 4; OObj 6; OObj 5; OObj 0]%nat
  /\ outs (ex_family false)
  = [OObj 1; OObj 2; OObj 3; OObj 4; OObj 5; OObj 6; OObj 7; OObj 8; OObj 0]%nat.
Proof. vm_compute. split; reflexivity. Qed.

Example ex_family_values :
  out_vals _ _ _ (ex_family true) = out_vals _ _ _ (ex_family false)
  /\ nth_error (out_vals _ _ _ (ex_family true)) 4 = Some (VVal [1; 7; 5]).
Proof. vm_compute. split; reflexivity. Qed.
