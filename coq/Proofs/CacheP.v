(* Proofs/CacheP.v — the memo of sparse.COO is transparent: for every history of calls the
   cache-enabled run returns values equal to the run without caching; the deques stay bounded. *)
From Coq Require Import ZArith List Bool String Lia Arith.
From Verif Require Import Py S_cache Cache.
Import ListNotations.
Local Open Scope nat_scope.

(* ------------------------------------------------------------------ deque facts *)
Section DequeP.
  Context {K V : Type}.
  Variable keqb : K -> K -> bool.

  Lemma dq_lookup_some (d : @deque K V) k v :
    dq_lookup keqb d k = Some v -> exists k', In (k', v) d /\ keqb k' k = true.
  Proof.
    induction d as [|[k' v'] r IH]; cbn; [discriminate|].
    destruct (keqb k' k) eqn:E.
    - intros [= ->]. exists k'. auto.
    - intros H. destruct (IH H) as (k2 & Hin & Hk). exists k2. auto.
  Qed.

  Lemma in_skipn {A} (x : A) n l : In x (skipn n l) -> In x l.
  Proof.
    intros H. rewrite <- (firstn_skipn n l). apply in_or_app. now right.
  Qed.

  Lemma dq_append_in cap (d : @deque K V) e x :
    In x (dq_append cap d e) -> In x d \/ x = e.
  Proof.
    unfold dq_append. intros H. apply in_skipn in H. apply in_app_or in H.
    destruct H as [H|[H|[]]]; auto.
  Qed.

  Lemma dq_append_length cap (d : @deque K V) e :
    List.length (dq_append cap d e) <= cap.
  Proof.
    unfold dq_append. rewrite skipn_length. lia.
  Qed.

  Lemma dq_append_length_le cap (d : @deque K V) e :
    List.length (dq_append cap d e) <= S (List.length d).
  Proof.
    unfold dq_append. rewrite skipn_length, app_length. cbn. lia.
  Qed.
End DequeP.

(* ------------------------------------------------------------------ one memo in isolation *)
Section MemoP.
  Variables (A E K V : Type).
  Variable keqb : K -> K -> bool.
  Variable cap : nat.
  Variable m_pre : A -> pre E.
  Variables (lkey skey : E -> K).
  Variable f : E -> V.
  (* an entry stored under the key of e0 answers a lookup with the key of e only if f agrees *)
  Hypothesis key_determines_result :
    forall e0 e, keqb (skey e0) (lkey e) = true -> f e0 = f e.

  Definition memo_inv (d : @deque K V) : Prop :=
    forall k v, In (k, v) d -> exists e0, k = skey e0 /\ v = f e0.

  Lemma memo_call_ok d a :
    memo_inv d ->
    fst (memo_call_cached A E K V keqb cap m_pre lkey skey f d a) = memo_call_uncached A E V m_pre f a
    /\ memo_inv (snd (memo_call_cached A E K V keqb cap m_pre lkey skey f d a)).
  Proof.
    intros Hinv. unfold memo_call_cached, memo_call_uncached.
    destruct (m_pre a) as [e| |env]; cbn; auto.
    destruct (dq_lookup keqb d (lkey env)) as [v|] eqn:El; cbn.
    - split; auto. apply dq_lookup_some in El. destruct El as (k' & Hin & Hk).
      destruct (Hinv _ _ Hin) as (e0 & -> & ->). f_equal. now apply key_determines_result.
    - split; auto. intros k v Hin. apply dq_append_in in Hin. destruct Hin as [Hin|[= -> ->]]; eauto.
  Qed.

  Theorem memo_transparent_from d ops :
    memo_inv d ->
    fst (memo_run_cached A E K V keqb cap m_pre lkey skey f d ops) = memo_run_uncached A E V m_pre f ops.
  Proof.
    revert d. induction ops as [|a r IH]; intros d Hinv; cbn; [reflexivity|].
    destruct (memo_call_ok d a Hinv) as [H1 H2].
    destruct (memo_call_cached A E K V keqb cap m_pre lkey skey f d a) as [o d1]; cbn in *.
    specialize (IH d1 H2).
    destruct (memo_run_cached A E K V keqb cap m_pre lkey skey f d1 r) as [os d2]; cbn in *.
    now rewrite H1, IH.
  Qed.

  Theorem memo_transparent ops :
    fst (memo_run_cached A E K V keqb cap m_pre lkey skey f [] ops) = memo_run_uncached A E V m_pre f ops.
  Proof. apply memo_transparent_from. intros k v []. Qed.

  Theorem memo_bounded ops d :
    List.length d <= cap ->
    List.length (snd (memo_run_cached A E K V keqb cap m_pre lkey skey f d ops)) <= cap.
  Proof.
    revert d. induction ops as [|a r IH]; intros d Hd; cbn; [exact Hd|].
    destruct (memo_call_cached A E K V keqb cap m_pre lkey skey f d a) as [o d1] eqn:Ec.
    assert (Hd1 : List.length d1 <= cap).
    { unfold memo_call_cached in Ec. destruct (m_pre a); try (injection Ec as _ <-; exact Hd).
      destruct (dq_lookup keqb d (lkey env)); injection Ec as _ <-; [exact Hd|apply dq_append_length]. }
    specialize (IH d1 Hd1).
    destruct (memo_run_cached A E K V keqb cap m_pre lkey skey f d1 r) as [os d2]; cbn in *. exact IH.
  Qed.
End MemoP.

(* ------------------------------------------------------------------ list extension *)
Lemma nth_error_ext {A} (l x : list A) i v : nth_error l i = Some v -> nth_error (l ++ x) i = Some v.
Proof.
  intros H. rewrite nth_error_app1; [exact H|]. apply nth_error_Some. congruence.
Qed.

Lemma nth_error_new {A} (l : list A) v : nth_error (l ++ [v]) (List.length l) = Some v.
Proof. rewrite nth_error_app2 by lia. now rewrite Nat.sub_diag. Qed.

(* ------------------------------------------------------------------ the family of objects *)
Lemma nth_error_snoc {A} (l : list A) v t v0 :
  nth_error (l ++ [v]) t = Some v0 ->
  (t < List.length l /\ nth_error l t = Some v0) \/ (t = List.length l /\ v0 = v).
Proof.
  intros H. destruct (Nat.lt_ge_cases t (List.length l)) as [Hlt|Hge].
  - left. split; [exact Hlt|]. now rewrite nth_error_app1 in H.
  - right. rewrite nth_error_app2 in H by exact Hge.
    destruct (t - List.length l) as [|k] eqn:E; cbn in H.
    + split; [lia|congruence].
    + destruct k; discriminate.
Qed.

Lemma nth_error_lt {A} (l : list A) i v : nth_error l i = Some v -> i < List.length l.
Proof. intros H. apply nth_error_Some. congruence. Qed.

Lemma updn_same {A} (f : nat -> A) i a : updn f i a i = a.
Proof. unfold updn. now rewrite Nat.eqb_refl. Qed.

Lemma updn_other {A} (f : nat -> A) i a j : j <> i -> updn f i a j = f j.
Proof. intros H. unfold updn. destruct (Nat.eqb_spec j i); congruence. Qed.

Local Arguments Nat.ltb : simpl never.
Local Arguments Nat.leb : simpl never.
Local Arguments Nat.sub : simpl never.
Local Arguments Nat.add : simpl never.

Section FamilyP.
  Variable V : Type.
  Variables (AT AR ET ER KT KR F : Type).
  Variables (kt_eqb : KT -> KT -> bool) (kr_eqb : KR -> KR -> bool).
  Variable cap : nat.
  Variable site : copy_site.
  Variable pre_t : V -> AT -> pre ET.
  Variables (lkey_t skey_t : ET -> KT).
  Variable comp_t : V -> ET -> V.
  Variable pre_r : V -> AR -> pre ER.
  Variables (lkey_r skey_r : ER -> KR).
  Variable comp_r : V -> ER -> V.
  Variable guard_m : V -> option exc.
  Variable mk_csr : V -> res V.
  Variables (csr2csc csc2csr : V -> V).
  Variable refill : V -> F -> V.

  Hypothesis kd_t : forall v e0 e, kt_eqb (skey_t e0) (lkey_t e) = true -> comp_t v e0 = comp_t v e.
  Hypothesis kd_r : forall v e0 e, kr_eqb (skey_r e0) (lkey_r e) = true -> comp_r v e0 = comp_r v e.
  (* the copy constructor gives a copy with another fill value a cache of its own *)
  Hypothesis site_ok : copy_site_ok site = true.
  (* self._tocsr() builds the matrix from coords and data only: the fill value does not enter *)
  Hypothesis mk_csr_refill : forall v f, mk_csr (refill v f) = mk_csr v.

  Notation st := (st V KT KR).
  Notation dq_t := (dq KT KR).
  Notation step := (step V AT AR ET ER KT KR F kt_eqb kr_eqb cap site pre_t lkey_t skey_t comp_t
                         pre_r lkey_r skey_r comp_r guard_m mk_csr csr2csc csc2csr refill).
  Notation run := (run V AT AR ET ER KT KR F kt_eqb kr_eqb cap site pre_t lkey_t skey_t comp_t
                       pre_r lkey_r skey_r comp_r guard_m mk_csr csr2csc csc2csr refill).
  Notation csr_cached := (csr_cached V KT KR mk_csr csc2csr).
  Notation new_fresh := (new_fresh V KT KR).
  Notation new_shared := (new_shared V KT KR).
  Notation set_deq := (set_deq V KT KR).
  Notation set_attr := (set_attr V KT KR).
  Notation emit := (emit V KT KR).

  Lemma fill_resets : cs_fill_resets site = true.
  Proof.
    pose proof site_ok as H. unfold copy_site_ok in H.
    apply andb_true_iff in H. destruct H as [_ H]. exact H.
  Qed.

  (* every memo entry holds what the uncached computation on a value v would return *)
  Definition ent_t (vs : list V) (v : V) (l : list (KT * nat)) : Prop :=
    forall k id, In (k, id) l -> exists e0, k = skey_t e0 /\ nth_error vs id = Some (comp_t v e0).
  Definition ent_r (vs : list V) (v : V) (l : list (KR * nat)) : Prop :=
    forall k id, In (k, id) l -> exists e0, k = skey_r e0 /\ nth_error vs id = Some (comp_r v e0).
  Definition attr_ok (vs : list V) (v : V) (a : attrs) : Prop :=
    (forall id, a_csr a = Some id -> exists m, mk_csr v = Ok m /\ nth_error vs id = Some m) /\
    (forall id, a_csc a = Some id ->
       exists m, mk_csr v = Ok m /\ nth_error vs id = Some (csr2csc m) /\ a_csr a <> None).

  Definition obj_ok (s : st) (t : nat) (v : V) : Prop :=
    cell s t < ncell s
    /\ ent_t (vals s) v (d_tr (deqs s (cell s t)))
    /\ ent_r (vals s) v (d_rs (deqs s (cell s t)))
    /\ attr_ok (vals s) v (attr s t).

  (* objects that share a cell (plain copies) have the same value *)
  Definition wf (s : st) : Prop :=
    (forall t v, nth_error (vals s) t = Some v -> obj_ok s t v)
    /\ (forall t t' v v', nth_error (vals s) t = Some v -> nth_error (vals s) t' = Some v' ->
                          cell s t = cell s t' -> v = v').

  Lemma ent_t_ext vs x v l : ent_t vs v l -> ent_t (vs ++ x) v l.
  Proof. intros H k id Hin. destruct (H _ _ Hin) as (e0 & -> & Hn). exists e0. auto using nth_error_ext. Qed.
  Lemma ent_r_ext vs x v l : ent_r vs v l -> ent_r (vs ++ x) v l.
  Proof. intros H k id Hin. destruct (H _ _ Hin) as (e0 & -> & Hn). exists e0. auto using nth_error_ext. Qed.
  Lemma attr_ok_ext vs x v a : attr_ok vs v a -> attr_ok (vs ++ x) v a.
  Proof.
    intros [H1 H2]. split.
    - intros id Hc. destruct (H1 _ Hc) as (m & Ha & Hb). exists m. auto using nth_error_ext.
    - intros id Hc. destruct (H2 _ Hc) as (m & Ha & Hb & Hd). exists m. auto using nth_error_ext.
  Qed.
  Lemma attr_ok_none vs v : attr_ok vs v no_attrs.
  Proof. split; cbn; intros; discriminate. Qed.
  Lemma ent_t_nil vs v : ent_t vs v []. Proof. intros k id []. Qed.
  Lemma ent_r_nil vs v : ent_r vs v []. Proof. intros k id []. Qed.

  Lemma wf_emit s o : wf s -> wf (emit s o).
  Proof. intros H. exact H. Qed.

  Lemma wf_new_fresh s v b a :
    wf s -> attr_ok (vals s ++ [v]) v a -> wf (fst (new_fresh s v b a)).
  Proof.
    intros [H1 H2] Ha. unfold new_fresh; cbn. split.
    - intros t v0 Hn. cbn in Hn. apply nth_error_snoc in Hn. destruct Hn as [[Hlt Hn]|[-> ->]].
      + destruct (H1 _ _ Hn) as (Hc & Ht & Hr & Hat). unfold obj_ok; cbn.
        repeat (rewrite updn_other by lia).
        repeat split; try lia; auto using ent_t_ext, ent_r_ext; apply attr_ok_ext; assumption.
      + unfold obj_ok; cbn. repeat rewrite updn_same. cbn.
        repeat split; try lia; auto using ent_t_nil, ent_r_nil; apply Ha.
    - intros t t' v1 v2 Hn Hn'. cbn in Hn, Hn'. cbn.
      apply nth_error_snoc in Hn. apply nth_error_snoc in Hn'.
      destruct Hn as [[Hlt Hn]|[-> ->]], Hn' as [[Hlt' Hn']|[-> ->]].
      + repeat (rewrite updn_other by lia). eauto.
      + rewrite updn_same, updn_other by lia. intros E. destruct (H1 _ _ Hn) as (Hc & _). lia.
      + rewrite updn_same, updn_other by lia. intros E. destruct (H1 _ _ Hn') as (Hc & _). lia.
      + reflexivity.
  Qed.

  Lemma wf_new_shared s v t0 a :
    wf s -> nth_error (vals s) t0 = Some v -> attr_ok (vals s ++ [v]) v a ->
    wf (fst (new_shared s v (cell s t0) a)).
  Proof.
    intros [H1 H2] H0 Ha. unfold new_shared; cbn. split.
    - intros t v0 Hn. cbn in Hn. apply nth_error_snoc in Hn. destruct Hn as [[Hlt Hn]|[-> ->]].
      + destruct (H1 _ _ Hn) as (Hc & Ht & Hr & Hat). unfold obj_ok; cbn.
        repeat (rewrite updn_other by lia).
        repeat split; auto using ent_t_ext, ent_r_ext; apply attr_ok_ext; assumption.
      + destruct (H1 _ _ H0) as (Hc & Ht & Hr & Hat). unfold obj_ok; cbn. repeat rewrite updn_same.
        repeat split; auto using ent_t_ext, ent_r_ext; apply Ha.
    - intros t t' v1 v2 Hn Hn'. cbn in Hn, Hn'. cbn.
      apply nth_error_snoc in Hn. apply nth_error_snoc in Hn'.
      destruct Hn as [[Hlt Hn]|[-> ->]], Hn' as [[Hlt' Hn']|[-> ->]].
      + repeat (rewrite updn_other by lia). eauto.
      + rewrite updn_same, updn_other by lia. intros E. eapply H2; eauto.
      + rewrite updn_same, updn_other by lia. intros E. symmetry. eapply H2; eauto.
      + reflexivity.
  Qed.

  Lemma wf_set_deq s t0 v c (d : dq_t) :
    wf s -> nth_error (vals s) t0 = Some v -> c = cell s t0 ->
    ent_t (vals s) v (d_tr d) -> ent_r (vals s) v (d_rs d) -> wf (set_deq s c d).
  Proof.
    intros [H1 H2] H0 -> Ht Hr. split.
    - intros t v0 Hn. cbn in Hn. destruct (H1 _ _ Hn) as (Hc & Ht0 & Hr0 & Hat).
      unfold obj_ok; cbn. destruct (Nat.eq_dec (cell s t) (cell s t0)) as [E|E].
      + rewrite E, updn_same. assert (v0 = v) by (eapply H2; eauto). subst.
        split; [lia|]. split; [assumption|]. split; assumption.
      + rewrite updn_other by exact E. split; [assumption|]. split; [assumption|]. split; assumption.
    - exact H2.
  Qed.

  Lemma wf_set_attr s t0 v a :
    wf s -> nth_error (vals s) t0 = Some v -> attr_ok (vals s) v a -> wf (set_attr s t0 a).
  Proof.
    intros [H1 H2] H0 Ha. split.
    - intros t v0 Hn. cbn in Hn. destruct (H1 _ _ Hn) as (Hc & Ht0 & Hr0 & Hat).
      unfold obj_ok; cbn. destruct (Nat.eq_dec t t0) as [->|E].
      + rewrite updn_same. rewrite H0 in Hn. injection Hn as <-.
        split; [assumption|]. split; [assumption|]. split; assumption.
      + rewrite updn_other by exact E. split; [assumption|]. split; [assumption|]. split; assumption.
    - exact H2.
  Qed.

  (* observable agreement of two outputs *)
  Definition orel (vc vu : list V) (oc ou : out) : Prop :=
    match oc, ou with
    | ORaise e, ORaise e' => e = e'
    | OSkip, OSkip => True
    | OObj i, OObj j => exists v, nth_error vc i = Some v /\ nth_error vu j = Some v
    | _, _ => False
    end.

  Lemma orel_ext vc vu x y oc ou : orel vc vu oc ou -> orel (vc ++ x) (vu ++ y) oc ou.
  Proof.
    destruct oc, ou; cbn; auto. intros (v & Ha & Hb). exists v. auto using nth_error_ext.
  Qed.

  Definition R (sc su : st) : Prop :=
    Forall2 (orel (vals sc) (vals su)) (outs sc) (outs su)
    /\ (exists v0, nth_error (vals sc) 0 = Some v0 /\ nth_error (vals su) 0 = Some v0).

  Lemma Forall2_orel_ext vc vu x y l1 l2 :
    Forall2 (orel vc vu) l1 l2 -> Forall2 (orel (vc ++ x) (vu ++ y)) l1 l2.
  Proof. induction 1; constructor; auto using orel_ext. Qed.

  (* one call on both sides: the heaps grew, one output each, the outputs agree *)
  Lemma R_step (sc su sc' su' : st) x y oc ou :
    R sc su -> vals sc' = vals sc ++ x -> vals su' = vals su ++ y ->
    outs sc' = outs sc ++ [oc] -> outs su' = outs su ++ [ou] ->
    orel (vals sc') (vals su') oc ou -> R sc' su'.
  Proof.
    intros [HF (v0 & Ha & Hb)] Hx Hy Hoc Hou Ho. split.
    - rewrite Hoc, Hou. apply Forall2_app.
      + rewrite Hx, Hy. now apply Forall2_orel_ext.
      + constructor; [exact Ho|constructor].
    - exists v0. rewrite Hx, Hy. auto using nth_error_ext.
  Qed.

  Lemma Forall2_nth {A B} (P : A -> B -> Prop) l1 l2 i :
    Forall2 P l1 l2 ->
    match nth_error l1 i, nth_error l2 i with
    | Some a, Some b => P a b
    | None, None => True
    | _, _ => False
    end.
  Proof.
    intros H. revert i. induction H; intros [|i]; cbn; auto. apply IHForall2.
  Qed.

  Lemma resolve_rel sc su tg :
    R sc su ->
    match resolve V KT KR sc tg, resolve V KT KR su tg with
    | Some tc, Some tu => exists v, nth_error (vals sc) tc = Some v /\ nth_error (vals su) tu = Some v
    | None, None => True
    | _, _ => False
    end.
  Proof.
    intros [HF (v0 & Ha & Hb)]. destruct tg as [|i]; cbn.
    - exists v0. auto.
    - pose proof (Forall2_nth _ _ _ i HF) as H.
      destruct (nth_error (outs sc) i) as [oc|], (nth_error (outs su) i) as [ou|]; try contradiction; auto.
      destruct oc, ou; cbn in H; try contradiction; auto.
  Qed.

  (* self.tocsr() in caching mode *)
  Lemma csr_cached_ok (s : st) t v :
    wf s -> nth_error (vals s) t = Some v ->
    match csr_cached s t v with
    | (r, s1) =>
      (exists x, vals s1 = vals s ++ x) /\ outs s1 = outs s /\ wf s1 /\
      match r, mk_csr v with
      | OObj id, Ok m => nth_error (vals s1) id = Some m /\ a_csr (attr s1 t) = Some id
      | ORaise e, Raise e' => e = e' /\ s1 = s
      | _, _ => False
      end
    end.
  Proof.
    intros Hwf Hv. unfold csr_cached.
    pose proof (proj1 Hwf _ _ Hv) as (Hc & Ht & Hr & (Ha1 & Ha2)).
    destruct (a_csr (attr s t)) as [id|] eqn:Ecsr.
    - destruct (Ha1 _ eq_refl) as (m & Hm & Hid). rewrite Hm.
      split; [exists []; now rewrite app_nil_r|]. auto.
    - destruct (a_csc (attr s t)) as [idc|] eqn:Ecsc.
      + destruct (Ha2 _ eq_refl) as (m & _ & _ & Hne). congruence.
      + destruct (mk_csr v) as [m|e] eqn:Em.
        * unfold new_fresh; cbn. split; [now eexists|]. split; [reflexivity|]. split.
          -- eapply (wf_set_attr (fst (new_fresh s m false no_attrs)) t v).
             ++ apply wf_new_fresh; [exact Hwf|apply attr_ok_none].
             ++ cbn. now apply nth_error_ext.
             ++ split; cbn.
                ** intros id [= <-]. exists m. split; [exact Em|apply nth_error_new].
                ** intros id Hx. discriminate.
          -- split; [apply nth_error_new|]. now rewrite updn_same.
        * split; [exists []; now rewrite app_nil_r|]. auto.
  Qed.

  (* R_step with the heap extensions x (cached side) and y (uncached side); leaves the agreement of the outputs *)
  Ltac rstep x y :=
    eapply (R_step _ _ _ _ x y);
    [ eassumption
    | cbn; rewrite ?app_nil_r; reflexivity
    | cbn; rewrite ?app_nil_r; reflexivity
    | cbn; reflexivity
    | cbn; reflexivity
    | cbn ].

  (* in the run that starts from an array without a cache no object ever caches *)
  Definition allunc (s : st) : Prop := forall t, flag s t = false.

  Lemma allunc_fresh s v a : allunc s -> allunc (fst (new_fresh s v false a)).
  Proof. intros H t. cbn. unfold updn. destruct (Nat.eqb t (List.length (vals s))); [reflexivity|apply H]. Qed.

  Lemma step_allunc s tg o : allunc s -> allunc (step s tg o).
  Proof.
    intros HU. unfold step.
    destruct (resolve V KT KR s tg) as [t|]; [|exact HU].
    destruct (nth_error (vals s) t) as [v|]; [|exact HU].
    rewrite (HU t).
    destruct o as [a|a| | |f| |].
    - destruct (pre_t v a); try exact HU. exact (allunc_fresh s _ _ HU).
    - destruct (pre_r v a); try exact HU. exact (allunc_fresh s _ _ HU).
    - destruct (guard_m v); [exact HU|]. destruct (mk_csr v); [exact (allunc_fresh s _ _ HU)|exact HU].
    - destruct (guard_m v); [exact HU|]. destruct (mk_csr v); [exact (allunc_fresh s _ _ HU)|exact HU].
    - exact (allunc_fresh s _ _ HU).
    - exact (allunc_fresh s _ _ HU).
    - exact HU.
  Qed.

  (* both sides compute afresh *)
  Lemma both_fresh sc su v b :
    wf sc -> R sc su ->
    wf (emit (fst (new_fresh sc v b no_attrs)) (OObj (List.length (vals sc))))
    /\ R (emit (fst (new_fresh sc v b no_attrs)) (OObj (List.length (vals sc))))
         (emit (fst (new_fresh su v false no_attrs)) (OObj (List.length (vals su)))).
  Proof.
    intros Hwf HR. split.
    - apply wf_emit. apply wf_new_fresh; [exact Hwf|apply attr_ok_none].
    - rstep [v] [v]. exists v. split; apply nth_error_new.
  Qed.

  Lemma step_ok sc su tg o :
    wf sc -> R sc su -> allunc su -> wf (step sc tg o) /\ R (step sc tg o) (step su tg o).
  Proof.
    intros Hwf HR HU. unfold step.
    pose proof (resolve_rel sc su tg HR) as Hres.
    destruct (resolve V KT KR sc tg) as [tc|], (resolve V KT KR su tg) as [tu|]; try contradiction.
    2:{ split; [exact Hwf|]. rstep (@nil V) (@nil V). exact I. }
    destruct Hres as (v & Hvc & Hvu). rewrite Hvc, Hvu. rewrite (HU tu).
    pose proof (proj1 Hwf _ _ Hvc) as (Hc & Ht & Hr & (Ha1 & Ha2)).
    assert (Hne : tc <> List.length (vals sc)) by (apply nth_error_lt in Hvc; lia).
    destruct o as [a|a| | |f| |].
    - (* transpose *)
      destruct (pre_t v a) as [e| |env].
      + split; [exact Hwf|]. rstep (@nil V) (@nil V). reflexivity.
      + split; [exact Hwf|]. rstep (@nil V) (@nil V). eauto.
      + destruct (flag sc tc); [|exact (both_fresh sc su _ _ Hwf HR)].
        destruct (dq_lookup kt_eqb (d_tr (deqs sc (cell sc tc))) (lkey_t env)) as [id|] eqn:El.
        * apply dq_lookup_some in El. destruct El as (k' & Hin & Hk).
          destruct (Ht _ _ Hin) as (e0 & -> & Hid).
          unfold new_fresh. split; [exact Hwf|].
          rstep (@nil V) [comp_t v env].
          exists (comp_t v e0). split; [exact Hid|]. rewrite (kd_t v e0 env Hk). apply nth_error_new.
        * unfold new_fresh. split.
          -- eapply (wf_set_deq (fst (new_fresh sc (comp_t v env) true no_attrs)) tc v).
             ++ apply wf_new_fresh; [exact Hwf|apply attr_ok_none].
             ++ cbn. now apply nth_error_ext.
             ++ cbn. now rewrite updn_other.
             ++ cbn. intros k id Hin. apply dq_append_in in Hin. destruct Hin as [Hin|[= -> ->]].
                ** destruct (Ht _ _ Hin) as (e0 & -> & Hid). exists e0. auto using nth_error_ext.
                ** exists env. split; [reflexivity|apply nth_error_new].
             ++ cbn. now apply ent_r_ext.
          -- rstep [comp_t v env] [comp_t v env].
             exists (comp_t v env). split; apply nth_error_new.
    - (* reshape *)
      destruct (pre_r v a) as [e| |env].
      + split; [exact Hwf|]. rstep (@nil V) (@nil V). reflexivity.
      + split; [exact Hwf|]. rstep (@nil V) (@nil V). eauto.
      + destruct (flag sc tc); [|exact (both_fresh sc su _ _ Hwf HR)].
        destruct (dq_lookup kr_eqb (d_rs (deqs sc (cell sc tc))) (lkey_r env)) as [id|] eqn:El.
        * apply dq_lookup_some in El. destruct El as (k' & Hin & Hk).
          destruct (Hr _ _ Hin) as (e0 & -> & Hid).
          unfold new_fresh. split; [exact Hwf|].
          rstep (@nil V) [comp_r v env].
          exists (comp_r v e0). split; [exact Hid|]. rewrite (kd_r v e0 env Hk). apply nth_error_new.
        * unfold new_fresh. split.
          -- eapply (wf_set_deq (fst (new_fresh sc (comp_r v env) true no_attrs)) tc v).
             ++ apply wf_new_fresh; [exact Hwf|apply attr_ok_none].
             ++ cbn. now apply nth_error_ext.
             ++ cbn. now rewrite updn_other.
             ++ cbn. now apply ent_t_ext.
             ++ cbn. intros k id Hin. apply dq_append_in in Hin. destruct Hin as [Hin|[= -> ->]].
                ** destruct (Hr _ _ Hin) as (e0 & -> & Hid). exists e0. auto using nth_error_ext.
                ** exists env. split; [reflexivity|apply nth_error_new].
          -- rstep [comp_r v env] [comp_r v env].
             exists (comp_r v env). split; apply nth_error_new.
    - (* tocsr *)
      destruct (guard_m v) as [e|].
      { split; [exact Hwf|]. rstep (@nil V) (@nil V). reflexivity. }
      destruct (flag sc tc).
      2:{ destruct (mk_csr v) as [m|e']; [exact (both_fresh sc su _ _ Hwf HR)|].
          split; [exact Hwf|]. rstep (@nil V) (@nil V). reflexivity. }
      pose proof (csr_cached_ok sc tc v Hwf Hvc) as Hcs.
      destruct (csr_cached sc tc v) as [r s1]. destruct Hcs as ((x & Hx) & Ho & Hwf' & Hres).
      destruct r as [e|id|], (mk_csr v) as [m|e'] eqn:Em; try contradiction.
      + destruct Hres as (-> & ->). split; [exact Hwf|]. rstep (@nil V) (@nil V). reflexivity.
      + destruct Hres as (Hid & _). unfold new_fresh. split; [exact Hwf'|].
        eapply (R_step sc su _ _ x [m]); [exact HR|exact Hx|reflexivity|cbn; now rewrite Ho|reflexivity|].
        cbn. exists m. split; [exact Hid|apply nth_error_new].
    - (* tocsc *)
      destruct (guard_m v) as [e|].
      { split; [exact Hwf|]. rstep (@nil V) (@nil V). reflexivity. }
      destruct (flag sc tc).
      2:{ destruct (mk_csr v) as [m|e']; [exact (both_fresh sc su _ _ Hwf HR)|].
          split; [exact Hwf|]. rstep (@nil V) (@nil V). reflexivity. }
      destruct (a_csc (attr sc tc)) as [id|] eqn:Ecsc.
      { destruct (Ha2 _ eq_refl) as (m & Hm & Hid & _). rewrite Hm.
        unfold new_fresh. split; [exact Hwf|].
        rstep (@nil V) [csr2csc m].
        exists (csr2csc m). split; [exact Hid|apply nth_error_new]. }
      destruct (a_csr (attr sc tc)) as [idr|] eqn:Ecsr.
      { destruct (Ha1 _ eq_refl) as (m & Hm & Hid). rewrite Hm, Hid.
        unfold new_fresh. split.
        - eapply (wf_set_attr (fst (new_fresh sc (csr2csc m) false no_attrs)) tc v).
          + apply wf_new_fresh; [exact Hwf|apply attr_ok_none].
          + cbn. now apply nth_error_ext.
          + split; cbn.
            * intros id [= <-]. exists m. split; [exact Hm|now apply nth_error_ext].
            * intros id [= <-]. exists m. split; [exact Hm|]. split; [apply nth_error_new|discriminate].
        - rstep [csr2csc m] [csr2csc m].
          exists (csr2csc m). split; apply nth_error_new. }
      pose proof (csr_cached_ok sc tc v Hwf Hvc) as Hcs.
      destruct (csr_cached sc tc v) as [r s1]. destruct Hcs as ((x & Hx) & Ho & Hwf' & Hres).
      destruct r as [e|id|], (mk_csr v) as [m|e'] eqn:Em; try contradiction.
      + destruct Hres as (-> & ->). split; [exact Hwf|]. rstep (@nil V) (@nil V). reflexivity.
      + destruct Hres as (Hid & Hcsr). rewrite Hid. unfold new_fresh. split.
        * eapply (wf_set_attr (fst (new_fresh s1 (csr2csc m) false no_attrs)) tc v).
          -- apply wf_new_fresh; [exact Hwf'|apply attr_ok_none].
          -- cbn. rewrite Hx. apply nth_error_ext. now apply nth_error_ext.
          -- split; cbn.
             ++ rewrite Hcsr. intros id' [= <-]. exists m. split; [exact Em|now apply nth_error_ext].
             ++ intros id' [= <-]. exists m. split; [exact Em|]. split; [apply nth_error_new|].
                rewrite Hcsr. discriminate.
        * eapply (R_step sc su _ _ (x ++ [csr2csc m]) [csr2csc m]);
            [exact HR|cbn; now rewrite Hx, app_assoc|reflexivity|cbn; now rewrite Ho|reflexivity|].
          cbn. exists (csr2csc m). split; apply nth_error_new.
    - (* COO(t) / COO(t, fill_value=f) *)
      set (v' := match f with Some x => refill v x | None => v end).
      destruct (flag sc tc); [|exact (both_fresh sc su _ _ Hwf HR)].
      assert (Hat' : attr_ok (vals sc ++ [v']) v' (attr sc tc)).
      { apply attr_ok_ext. unfold v'. destruct f as [x|]; [|split; assumption].
        split.
        - intros id Hx. rewrite mk_csr_refill. auto.
        - intros id Hx. rewrite mk_csr_refill. auto. }
      destruct (match f with Some _ => cs_fill_resets site | None => cs_plain_resets site end) eqn:Efresh.
      + unfold new_fresh. split.
        * apply (wf_new_fresh sc v' true (attr sc tc) Hwf Hat').
        * rstep [v'] [v']. exists v'. split; apply nth_error_new.
      + assert (f = None) by (destruct f; [rewrite fill_resets in Efresh; discriminate|reflexivity]). subst f.
        unfold new_shared, new_fresh. split.
        * apply (wf_new_shared sc v tc (attr sc tc) Hwf Hvc Hat').
        * rstep [v] [v]. exists v. split; apply nth_error_new.
    - (* t.copy(), t.copy(deep=False) *)
      exact (both_fresh sc su _ _ Hwf HR).
    - (* return self *)
      split; [exact Hwf|]. rstep (@nil V) (@nil V). eauto.
  Qed.

  Lemma run_ok h : forall sc su,
    wf sc -> R sc su -> allunc su -> wf (run h sc) /\ R (run h sc) (run h su).
  Proof.
    induction h as [|[tg o] r IH]; intros sc su Hwf HR HU; cbn; [auto|].
    destruct (step_ok sc su tg o Hwf HR HU) as [Hwf' HR']. apply IH; auto using step_allunc.
  Qed.

  Lemma R_out_vals sc su : R sc su -> out_vals V KT KR sc = out_vals V KT KR su.
  Proof.
    intros [HF _]. unfold out_vals. induction HF as [|oc ou lc lu Ho HF IH]; cbn; [reflexivity|].
    f_equal; [|exact IH].
    destruct oc, ou; cbn in Ho; try contradiction; cbn; [now subst| |reflexivity].
    destruct Ho as (v & Ha & Hb). now rewrite Ha, Hb.
  Qed.

  Lemma init_wf b v0 : wf (init V KT KR b v0).
  Proof.
    split.
    - intros t v Hn. unfold obj_ok; cbn. repeat split; try lia; auto using ent_t_nil, ent_r_nil;
        cbn; intros; discriminate.
    - intros t t' v v' Hn Hn' _. cbn in Hn, Hn'.
      destruct t as [|[|?]]; cbn in Hn; try discriminate.
      destruct t' as [|[|?]]; cbn in Hn'; try discriminate. congruence.
  Qed.

  (* the run from the cache-enabled root and the run from the same root without a cache *)
  Theorem family_transparent h v0 :
    out_vals V KT KR (run h (init V KT KR true v0)) = out_vals V KT KR (run h (init V KT KR false v0)).
  Proof.
    apply R_out_vals. apply run_ok.
    - apply init_wf.
    - split; cbn; [constructor|eauto].
    - intros t. reflexivity.
  Qed.

  (* the deques never exceed the capacity *)
  Definition bounded (s : st) : Prop :=
    forall c, List.length (d_tr (deqs s c)) <= cap /\ List.length (d_rs (deqs s c)) <= cap.

  Lemma bounded_fresh s v b a : bounded s -> bounded (fst (new_fresh s v b a)).
  Proof.
    intros Hb c. cbn. unfold updn. destruct (Nat.eqb c (ncell s)); [cbn; lia|apply Hb].
  Qed.

  Lemma bounded_set s c d :
    bounded s -> List.length (d_tr d) <= cap -> List.length (d_rs d) <= cap -> bounded (set_deq s c d).
  Proof.
    intros Hb H1 H2 c'. cbn. unfold updn. destruct (Nat.eqb c' c); [auto|apply Hb].
  Qed.

  Lemma csr_cached_bounded (s : st) t v : bounded s -> bounded (snd (csr_cached s t v)).
  Proof.
    intros Hb. unfold csr_cached.
    destruct (a_csr (attr s t)); [exact Hb|].
    destruct (a_csc (attr s t)).
    - destruct (nth_error (vals s) n); [|exact Hb]. exact (bounded_fresh s _ _ _ Hb).
    - destruct (mk_csr v); [|exact Hb]. exact (bounded_fresh s _ _ _ Hb).
  Qed.

  Lemma step_bounded s tg o : bounded s -> bounded (step s tg o).
  Proof.
    intros Hb. unfold step.
    destruct (resolve V KT KR s tg) as [t|]; [|exact Hb].
    destruct (nth_error (vals s) t) as [v|]; [|exact Hb].
    destruct o as [a|a| | |f| |].
    - destruct (pre_t v a); try exact Hb. destruct (flag s t); [|exact (bounded_fresh s _ _ _ Hb)].
      destruct (dq_lookup kt_eqb (d_tr (deqs s (cell s t))) (lkey_t env)); [exact Hb|].
      apply (bounded_set (fst (new_fresh s (comp_t v env) true no_attrs))); cbn.
      + exact (bounded_fresh s _ _ _ Hb).
      + apply dq_append_length.
      + apply Hb.
    - destruct (pre_r v a); try exact Hb. destruct (flag s t); [|exact (bounded_fresh s _ _ _ Hb)].
      destruct (dq_lookup kr_eqb (d_rs (deqs s (cell s t))) (lkey_r env)); [exact Hb|].
      apply (bounded_set (fst (new_fresh s (comp_r v env) true no_attrs))); cbn.
      + exact (bounded_fresh s _ _ _ Hb).
      + apply Hb.
      + apply dq_append_length.
    - destruct (guard_m v); [exact Hb|]. destruct (flag s t).
      + pose proof (csr_cached_bounded s t v Hb) as H. destruct (csr_cached s t v) as [r s1]. exact H.
      + destruct (mk_csr v); [exact (bounded_fresh s _ _ _ Hb)|exact Hb].
    - destruct (guard_m v); [exact Hb|]. destruct (flag s t).
      + destruct (a_csc (attr s t)); [exact Hb|].
        destruct (a_csr (attr s t)).
        * destruct (nth_error (vals s) n); [|exact Hb]. exact (bounded_fresh s _ _ _ Hb).
        * pose proof (csr_cached_bounded s t v Hb) as H. destruct (csr_cached s t v) as [r s1]. cbn in H.
          destruct r; try exact H. destruct (nth_error (vals s1) id); [|exact H].
          exact (bounded_fresh s1 _ _ _ H).
      + destruct (mk_csr v); [exact (bounded_fresh s _ _ _ Hb)|exact Hb].
    - destruct (flag s t); [|exact (bounded_fresh s _ _ _ Hb)].
      destruct (match f with Some _ => cs_fill_resets site | None => cs_plain_resets site end).
      + exact (bounded_fresh s _ _ _ Hb).
      + exact Hb.
    - exact (bounded_fresh s _ _ _ Hb).
    - exact Hb.
  Qed.

  Theorem family_bounded h : forall s, bounded s -> bounded (run h s).
  Proof.
    induction h as [|[tg o] r IH]; intros s Hb; cbn; [exact Hb|]. apply IH, step_bounded, Hb.
  Qed.

  Lemma init_bounded b v0 : bounded (init V KT KR b v0).
  Proof. intros c; cbn; lia. Qed.
End FamilyP.

(* ------------------------------------------------------------------ keys built from named locals *)
Lemma str_mem_in s l : str_mem s l = true -> In s l.
Proof.
  induction l as [|x r IH]; cbn; [discriminate|].
  destruct (String.eqb_spec s x) as [->|]; cbn; auto.
Qed.

Lemma strs_eqb_eq a b : strs_eqb a b = true -> a = b.
Proof.
  revert b. induction a as [|x r IH]; intros [|y q]; cbn; try discriminate; auto.
  destruct (String.eqb_spec x y) as [->|]; cbn; [|discriminate]. intros H. f_equal. now apply IH.
Qed.

Section KeysP.
  Variable W : Type.
  Variable weqb : W -> W -> bool.
  Hypothesis weqb_sound : forall a b, weqb a b = true -> a = b.

  Lemma keys_eqb_map names (e0 e : env W) :
    keys_eqb weqb (key_of names e0) (key_of names e) = true -> forall n, In n names -> e0 n = e n.
  Proof.
    unfold key_of. induction names as [|x r IH]; cbn; [contradiction|].
    intros H n [<-|Hin].
    - apply weqb_sound. now apply andb_true_iff in H.
    - apply IH; [|exact Hin]. now apply andb_true_iff in H.
  Qed.

  (* the generated protocol, if it passes the static test, gives the memo hypothesis *)
  Lemma proto_key_determines_result (p : proto) (V : Type) (g : V -> list W -> V) :
    proto_ok p = true ->
    forall v e0 e,
      keys_eqb weqb (key_of (p_store_key p) e0) (key_of (p_lookup_key p) e) = true ->
      g v (key_of (p_result_deps p) e0) = g v (key_of (p_result_deps p) e).
  Proof.
    unfold proto_ok. intros Hok v e0 e Hk.
    repeat (apply andb_true_iff in Hok; destruct Hok as [Hok ?]).
    match goal with H : strs_eqb _ _ = true |- _ => apply strs_eqb_eq in H; rewrite <- H in Hk end.
    f_equal. unfold key_of. apply map_ext_in. intros n Hin.
    eapply keys_eqb_map; [exact Hk|].
    match goal with H : forallb _ _ = true |- _ => rewrite forallb_forall in H; specialize (H _ Hin) end.
    now apply str_mem_in.
  Qed.
End KeysP.

(* ------------------------------------------------------------------ COO *)
Lemma transpose_proto_ok : proto_ok transpose_proto = true.
Proof. vm_compute. reflexivity. Qed.

Lemma reshape_proto_ok : proto_ok reshape_proto = true.
Proof. vm_compute. reflexivity. Qed.

Lemma csr_csc_memo_shape_proof : attr_proto_ok tocsr_proto tocsc_proto = true.
Proof. vm_compute. reflexivity. Qed.

(* the copy constructor as the source has it now gives a re-filled copy a cache of its own *)
Lemma coo_copy_site_ok : copy_site_ok coo_copy_site = true.
Proof. vm_compute. reflexivity. Qed.

Theorem coo_cache_transparent :
  forall (V W AT AR F : Type) (weqb : W -> W -> bool),
    (forall a b, weqb a b = true -> a = b) ->
  forall (cap : nat)
         (pre_t : V -> AT -> pre (env W)) (g_t : V -> list W -> V)
         (pre_r : V -> AR -> pre (env W)) (g_r : V -> list W -> V)
         (guard_m : V -> option exc) (mk_csr : V -> res V) (csr2csc csc2csr : V -> V)
         (refill : V -> F -> V),
    (forall v f, mk_csr (refill v f) = mk_csr v) ->
  forall (h : list (target * op AT AR F)) (v0 : V),
    out_vals V (list W) (list W)
      (coo_run V W AT AR F weqb cap pre_t g_t pre_r g_r guard_m mk_csr csr2csc csc2csr refill h (init V _ _ true v0))
    = out_vals V (list W) (list W)
      (coo_run V W AT AR F weqb cap pre_t g_t pre_r g_r guard_m mk_csr csr2csc csc2csr refill h (init V _ _ false v0)).
Proof.
  intros. unfold coo_run. apply family_transparent.
  - intros v e0 e Hk. now apply (proto_key_determines_result W weqb H transpose_proto V g_t transpose_proto_ok).
  - intros v e0 e Hk. now apply (proto_key_determines_result W weqb H reshape_proto V g_r reshape_proto_ok).
  - exact coo_copy_site_ok.
  - assumption.
Qed.

Theorem coo_cache_bounded :
  forall (V W AT AR F : Type) (weqb : W -> W -> bool) (cap : nat)
         (pre_t : V -> AT -> pre (env W)) (g_t : V -> list W -> V)
         (pre_r : V -> AR -> pre (env W)) (g_r : V -> list W -> V)
         (guard_m : V -> option exc) (mk_csr : V -> res V) (csr2csc csc2csr : V -> V)
         (refill : V -> F -> V)
         (mode : bool) (h : list (target * op AT AR F)) (v0 : V) (c : nat),
    let s := coo_run V W AT AR F weqb cap pre_t g_t pre_r g_r guard_m mk_csr csr2csc csc2csr refill h (init V _ _ mode v0) in
    (List.length (d_tr (deqs s c)) <= cap /\ List.length (d_rs (deqs s c)) <= cap)%nat.
Proof.
  intros. subst s. unfold coo_run. apply family_bounded. apply init_bounded.
Qed.

(* ------------------------------------------------------------------ non-vacuity *)
Local Open Scope Z_scope.

(* the memo hypothesis is satisfiable: keys are the arguments themselves, compared with Z.eqb *)
Example memo_hypothesis_satisfiable :
  forall e0 e : Z, Z.eqb (id e0) (id e) = true -> Z.succ e0 = Z.succ e.
Proof. intros e0 e H. apply Z.eqb_eq in H. unfold id in H. now subst. Qed.

(* capacity 1: the second call hits, key 2 evicts key 1, key 1 is recomputed, 0 is the identity short-cut *)
Example memo_example :
  let r := memo_run_cached Z Z Z Z Z.eqb 1%nat (fun a => if a =? 0 then PSelf else PGo a) id id Z.succ [] [1; 1; 2; 1; 0] in
  fst r = [MVal 2; MVal 2; MVal 3; MVal 2; MSelf] /\ snd r = [(1, 2)]
  /\ fst r = memo_run_uncached Z Z Z (fun a => if a =? 0 then PSelf else PGo a) Z.succ [1; 1; 2; 1; 0].
Proof. vm_compute. repeat split; reflexivity. Qed.

Fixpoint zs_eqb (a b : list Z) : bool :=
  match a, b with
  | [], [] => true
  | x :: r, y :: q => (x =? y) && zs_eqb r q
  | _, _ => false
  end.

Lemma zs_eqb_sound a b : zs_eqb a b = true -> a = b.
Proof.
  revert b. induction a as [|x r IH]; intros [|y q]; cbn; try discriminate; auto.
  intros H. apply andb_true_iff in H. destruct H as [H1 H2]. apply Z.eqb_eq in H1. subst. f_equal. now apply IH.
Qed.

(* a concrete family: values are (fill, payload); capacity 1.  Call 1 returns the identical object as
   call 0; key [2] evicts key [1]; call 3 recomputes; the plain copy (call 9) shares the root's memo: its
   transpose (call 10) is the object the root's last transpose returned; the re-filled copy (call 11)
   starts with an empty memo (call 12 creates a new object) but inherits _csc, and its tocsc raises
   because of the fill value (call 13); x.copy() (call 14) does not cache at all: calls 15 and 16 return
   two different new objects.  The uncached twin creates a new object per call; the
   values agree call by call. *)
Definition ex_pre (_ : Z * list Z) (a : list Z) : pre (env (list Z)) :=
  match a with [] => PSelf | _ => PGo (fun _ => a) end.
Definition ex_hist : list (target * op (list Z) (list Z) Z) :=
  [(TRoot, OpT [1]); (TRoot, OpT [1]); (TRoot, OpT [2]); (TRoot, OpT [1]); (TOut 0, OpR [5]);
   (TOut 1, OpR [5]); (TRoot, OpCsc); (TRoot, OpCsr); (TRoot, OpT []);
   (TRoot, OpCopy None); (TOut 9, OpT [1]); (TRoot, OpCopy (Some 5)); (TOut 11, OpT [1]); (TOut 11, OpCsc);
   (TRoot, OpPickle); (TOut 14, OpT [1]); (TOut 14, OpT [1]); (TOut 14, OpSame)].
Definition ex_family (mode : bool) :=
  coo_run (Z * list Z) (list Z) (list Z) (list Z) Z zs_eqb 1%nat
          ex_pre (fun v k => (fst v, List.concat k ++ snd v))
          ex_pre (fun v k => (fst v, snd v ++ List.concat k))
          (fun v => if fst v =? 0 then None else Some ValueError) (fun v => Ok (0, snd v))
          (fun m => (fst m, 0 :: snd m)) (fun m => m) (fun v f => (f, snd v))
          ex_hist (init (Z * list Z) _ _ mode (0, [7])).

Example ex_refill_hypothesis_satisfiable :
  forall (v : Z * list Z) (f : Z), (fun v => @Ok (Z * list Z) (0, snd v)) ((fun v f => (f, snd v)) v f)
                                   = (fun v => Ok (0, snd v)) v.
Proof. reflexivity. Qed.

Example ex_family_identities :
  outs (ex_family true)
  = [OObj 1; OObj 1; OObj 2; OObj 3; OObj 4; OObj 4; OObj 6; OObj 5; OObj 0;
     OObj 7; OObj 3; OObj 8; OObj 9; ORaise ValueError; OObj 10; OObj 11; OObj 12; OObj 10]%nat
  /\ outs (ex_family false)
  = [OObj 1; OObj 2; OObj 3; OObj 4; OObj 5; OObj 6; OObj 7; OObj 8; OObj 0;
     OObj 9; OObj 10; OObj 11; OObj 12; ORaise ValueError; OObj 13; OObj 14; OObj 15; OObj 13]%nat.
Proof. vm_compute. split; reflexivity. Qed.

Example ex_family_values :
  out_vals _ _ _ (ex_family true) = out_vals _ _ _ (ex_family false)
  /\ nth_error (out_vals _ _ _ (ex_family true)) 4 = Some (VVal (0, [1; 7; 5]))
  /\ nth_error (out_vals _ _ _ (ex_family true)) 12 = Some (VVal (5, [1; 7])).
Proof. vm_compute. repeat split; reflexivity. Qed.
