(* Proofs/ShapeOpsP.v — C08: every COO shape-manipulation function of Model/ShapeOps.v returns a
   canonical array whose dense meaning is NumPy's function (Spec/NpShapeOps.v) of the dense meaning
   of its input; pruned-ness, shape law and fill value included.  For ALL shapes, axes, patterns. *)
From Coq Require Import ZArith List Bool Lia ZifyBool Sorting.Sorted Sorting.Permutation.
From Verif Require Import Py PyExt Shape COO COOP G_shapeops S_shapeops ShapeOps NpShapeOps ShapeOpsL SlicingP.
Import ListNotations.
Open Scope Z_scope.

(* ================================================================== axis normalisation (F3) *)

Theorem normalize_axis_spec_proof nd a : 0 <= nd -> norm_axis nd a = np_normalize_axis nd a.
Proof.
  intros Hnd. unfold norm_axis, g_normalize_axis_int, np_normalize_axis.
  repeat (cbn; split_one); cbn;
    repeat match goal with
    | |- context [?a <=? ?b] => destruct (Z.leb_spec a b); try lia
    | |- context [?a <? ?b] => destruct (Z.ltb_spec a b); try lia
    end; cbn; try reflexivity; try lia.
  - f_equal. apply (Z.mod_unique_pos _ _ (-1)); lia.
  - f_equal. symmetry. apply Z.mod_small. lia.
Qed.

Lemma mapM_Ok {A B} (f : A -> res B) l l' :
  mapM f l = Ok l' <-> Forall2 (fun a b => f a = Ok b) l l'.
Proof.
  revert l'; induction l as [|a l IH]; intros l'; simpl.
  - split; [intros H; inversion H; constructor|intros H; inversion H; reflexivity].
  - destruct (f a) as [b|e] eqn:E; simpl.
    + destruct (mapM f l) as [bs|e] eqn:E'; simpl.
      * split.
        -- intros H; inversion H; subst. constructor; [assumption|]. apply IH. reflexivity.
        -- intros H; inversion H; subst. apply IH in H4. congruence.
      * split; [discriminate|]. intros H; inversion H; subst. apply IH in H4. discriminate.
    + split; [discriminate|]. intros H; inversion H; subst. congruence.
Qed.

Lemma mapM_Raise {A B} (f : A -> res B) l e :
  mapM f l = Raise e -> exists a, In a l /\ f a = Raise e.
Proof.
  induction l as [|a l IH]; simpl; [discriminate|].
  destruct (f a) as [b|e'] eqn:E; simpl.
  - destruct (mapM f l) as [bs|e''] eqn:E'; simpl; [discriminate|].
    intros H; inversion H; subst. destruct (IH eq_refl) as [a' [Hin Ha']]. exists a'; auto.
  - intros H; inversion H; subst. exists a; auto.
Qed.

Definition axis_ok (nd a : Z) : Prop := - nd <= a < nd.

Lemma np_normalize_axis_Ok nd a b :
  np_normalize_axis nd a = Ok b <-> (axis_ok nd a /\ b = a mod nd).
Proof.
  unfold np_normalize_axis, axis_ok.
  destruct (Z.leb_spec (- nd) a); destruct (Z.ltb_spec a nd); simpl; split;
    try discriminate; try (intros [? ?]; lia).
  - intros H1; inversion H1; auto.
  - intros [_ ->]; reflexivity.
Qed.

Lemma norm_axes_Ok nd l l' : 0 <= nd ->
  (norm_axes nd l = Ok l' <-> (Forall (axis_ok nd) l /\ l' = map (fun a => a mod nd) l)).
Proof.
  intros Hnd. unfold norm_axes. rewrite mapM_Ok. revert l'. induction l as [|a l IH]; intros l'.
  - split; [intros H; inversion H; split; [constructor|reflexivity]|intros [_ ->]; constructor].
  - split.
    + intros H; inversion H as [|? b ? bs Hab Hr]; subst.
      rewrite normalize_axis_spec_proof in Hab by assumption. apply np_normalize_axis_Ok in Hab.
      apply IH in Hr. destruct Hab as [Ha ->], Hr as [Hl ->]. split; [constructor; assumption|reflexivity].
    + intros [Hf ->]. inversion Hf; subst. simpl. constructor.
      * rewrite normalize_axis_spec_proof by assumption. apply np_normalize_axis_Ok. auto.
      * apply IH. auto.
Qed.

Lemma norm_axes_Raise nd l e : 0 <= nd ->
  norm_axes nd l = Raise e -> e = ValueError /\ ~ Forall (axis_ok nd) l.
Proof.
  intros Hnd H. apply mapM_Raise in H. destruct H as [a [Hin Ha]].
  rewrite normalize_axis_spec_proof in Ha by assumption. unfold np_normalize_axis in Ha.
  destruct ((- nd <=? a) && (a <? nd)) eqn:E; [discriminate|]. inversion Ha; subst. split; [reflexivity|].
  intros Hf. rewrite Forall_forall in Hf. specialize (Hf _ Hin). unfold axis_ok in Hf. lia.
Qed.

Lemma mod_in_range nd a : axis_ok nd a -> 0 <= a mod nd < nd.
Proof. unfold axis_ok. intros H. apply Z.mod_pos_bound. lia. Qed.

(* ================================================================== positional lemmas *)

Lemma nth_map_lt {A B} (f : A -> B) l k d d' : (k < length l)%nat -> nth k (map f l) d' = f (nth k l d).
Proof. intros H. rewrite (nth_indep _ d' (f d)) by (rewrite map_length; assumption). apply map_nth. Qed.

Lemma zlen_nonneg {A} (l : list A) : 0 <= zlen l.
Proof. unfold zlen. lia. Qed.

Lemma zget_in_range sh c k :
  in_range sh c -> 0 <= k < zlen sh -> 0 <= zget c k 0 < zget sh k 0.
Proof.
  intros H Hk. apply in_range_nth in H. destruct H as [_ H]. unfold zget, zlen in *. apply H. lia.
Qed.

Lemma in_range_map2 (f g : Z -> Z) l :
  in_range (map f l) (map g l) <-> Forall (fun a => 0 <= g a < f a) l.
Proof.
  induction l as [|a l IH]; simpl; [split; [constructor|tauto]|].
  rewrite IH. split; [intros [? ?]; constructor; assumption|intros H; inversion H; auto].
Qed.

Lemma index_of_In a l :
  In a l -> exists j, (j < length l)%nat /\ index_of a l = Z.of_nat j /\ nth j l 0 = a.
Proof.
  induction l as [|b l IH]; simpl; [tauto|]. intros H.
  destruct (Z.eqb_spec a b) as [->|Hne].
  - exists O. repeat split; lia.
  - destruct H as [->|H]; [congruence|]. destruct (IH H) as [j [Hj [Hi Hn]]].
    exists (S j). repeat split; [lia|lia|assumption].
Qed.

Lemma index_of_nth l j : NoDup l -> (j < length l)%nat -> index_of (nth j l 0) l = Z.of_nat j.
Proof.
  revert j; induction l as [|b l IH]; intros j Hnd Hj; simpl in *; [lia|].
  inversion Hnd; subst. destruct j as [|j].
  - rewrite Z.eqb_refl. reflexivity.
  - destruct (Z.eqb_spec (nth j l 0) b) as [He|Hne].
    + exfalso. apply H1. rewrite <- He. apply nth_In. lia.
    + rewrite IH by (assumption || lia). lia.
Qed.

(* ================================================================== transpose *)

Section Transpose.
  Variable V : Type.
  Variable veqb : V -> V -> bool.
  Hypothesis veqb_eq : forall a b, veqb a b = true <-> a = b.

  (* a valid permutation: n distinct axis numbers in [0, n) *)
  Definition perm_ok (n : nat) (ax : list Z) : Prop :=
    length ax = n /\ NoDup ax /\ forall a, In a ax -> 0 <= a < Z.of_nat n.

  Lemma is_perm_ok n ax : is_perm (Z.of_nat n) ax = true <-> perm_ok n ax.
  Proof.
    unfold is_perm, perm_ok, slen. rewrite !andb_true_iff, negb_true_iff, forallb_forall.
    assert (Hd : sdup ax = false <-> NoDup ax).
    { clear. induction ax as [|a l IH]; simpl; [split; [constructor|reflexivity]|].
      rewrite orb_false_iff, IH. split.
      - intros [Hm Hn]. constructor; [|assumption]. intros Hin.
        assert (smem a l = true) by (unfold smem; apply existsb_exists; exists a; split; [assumption|apply Z.eqb_refl]).
        congruence.
      - intros H. inversion H; subst. split; [|assumption]. destruct (smem a l) eqn:E; [|reflexivity].
        unfold smem in E. apply existsb_exists in E. destruct E as [y [Hy He]]. apply Z.eqb_eq in He. subst. tauto. }
    rewrite Hd. split.
    - intros [[Hl Hr] Hn]. repeat split; [lia|assumption|specialize (Hr _ H); lia|specialize (Hr _ H); lia].
    - intros [Hl [Hn Hr]]. repeat split; [lia| |assumption]. intros a Ha. specialize (Hr _ Ha). lia.
  Qed.

  Section Perm.
    Variable n : nat.
    Variable ax : list Z.
    Hypothesis Hp : perm_ok n ax.

    Lemma perm_nth_lt j : (j < n)%nat -> exists k, (k < n)%nat /\ nth j ax 0 = Z.of_nat k.
    Proof.
      destruct Hp as [Hl [Hnd Hr]]. intros Hj.
      assert (Hin : In (nth j ax 0) ax) by (apply nth_In; lia).
      specialize (Hr _ Hin). exists (Z.to_nat (nth j ax 0)). split; lia.
    Qed.

    Lemma perm_index k : (k < n)%nat ->
      exists j, (j < n)%nat /\ index_of (Z.of_nat k) ax = Z.of_nat j /\ nth j ax 0 = Z.of_nat k.
    Proof.
      destruct Hp as [Hl [Hnd Hr]]. intros Hk.
      destruct (index_of_In (Z.of_nat k) ax) as [j [Hj [Hi Hn]]].
      { apply (perm_covers ax n); assumption. }
      exists j. repeat split; [lia|assumption|assumption].
    Qed.

    Lemma permute_length (c : idx) : length (permute_idx ax c) = n.
    Proof. unfold permute_idx. rewrite map_length. apply Hp. Qed.

    Lemma unpermute_length (ix : idx) : length (unpermute ax ix) = n.
    Proof. unfold unpermute, slen. rewrite map_length, zrange_length. destruct Hp as [-> _]. lia. Qed.

    Lemma permute_nth (c : idx) j k : (j < n)%nat -> nth j ax 0 = Z.of_nat k ->
      nth j (permute_idx ax c) 0 = nth k c 0.
    Proof.
      intros Hj Hk. unfold permute_idx. rewrite (nth_map_lt _ _ _ 0) by (destruct Hp; lia).
      rewrite Hk. apply zget_nth.
    Qed.

    Lemma unpermute_nth (ix : idx) k j : (k < n)%nat -> index_of (Z.of_nat k) ax = Z.of_nat j ->
      nth k (unpermute ax ix) 0 = nth j ix 0.
    Proof.
      intros Hk Hj. unfold unpermute, slen. destruct Hp as [Hl _]. rewrite Hl.
      rewrite (nth_map_lt _ _ _ 0) by (rewrite zrange_length; lia).
      rewrite zrange_nth by lia. rewrite Hj. unfold sget. rewrite Nat2Z.id. reflexivity.
    Qed.

    Lemma permute_in_range sh c : length sh = n ->
      in_range sh c -> in_range (permute_idx ax sh) (permute_idx ax c).
    Proof.
      intros Hn Hc. unfold permute_idx. apply in_range_map2. apply Forall_forall. intros a Ha.
      apply zget_in_range; [assumption|]. destruct Hp as [_ [_ Hr]]. unfold zlen. specialize (Hr _ Ha). lia.
    Qed.

    Lemma unpermute_in_range sh ix : length sh = n ->
      in_range (permute_idx ax sh) ix -> in_range sh (unpermute ax ix).
    Proof.
      intros Hn Hi. apply in_range_nth. split; [rewrite unpermute_length; lia|].
      intros k Hk. rewrite Hn in Hk. destruct (perm_index k Hk) as [j [Hj [Hi' Hnj]]].
      rewrite (unpermute_nth ix k j Hk Hi').
      apply in_range_nth in Hi. destruct Hi as [_ Hi]. rewrite permute_length in Hi.
      specialize (Hi j Hj). rewrite (permute_nth sh j k Hj Hnj) in Hi. assumption.
    Qed.

    Lemma permute_unpermute (ix : idx) : length ix = n -> permute_idx ax (unpermute ax ix) = ix.
    Proof.
      intros Hl. apply (nth_ext _ _ 0 0); [rewrite permute_length; lia|].
      intros j Hj. rewrite permute_length in Hj.
      destruct (perm_nth_lt j Hj) as [k [Hk Hjk]].
      rewrite (permute_nth _ j k Hj Hjk).
      apply unpermute_nth; [assumption|]. rewrite <- Hjk. apply index_of_nth; destruct Hp as [? [? ?]]; [assumption|lia].
    Qed.

    Lemma unpermute_permute (c : idx) : length c = n -> unpermute ax (permute_idx ax c) = c.
    Proof.
      intros Hl. apply (nth_ext _ _ 0 0); [rewrite unpermute_length; lia|].
      intros k Hk. rewrite unpermute_length in Hk.
      destruct (perm_index k Hk) as [j [Hj [Hi Hnj]]].
      rewrite (unpermute_nth _ k j Hk Hi). apply permute_nth; assumption.
    Qed.
  End Perm.

  Lemma permute_id (c : idx) : permute_idx (zrange (zlen c)) c = c.
  Proof.
    unfold permute_idx, zlen. apply (nth_ext _ _ 0 0); [rewrite map_length, zrange_length; lia|].
    intros j Hj. rewrite map_length, zrange_length in Hj.
    rewrite (nth_map_lt _ _ _ 0) by (rewrite zrange_length; lia).
    rewrite zrange_nth by lia. apply zget_nth.
  Qed.

  Lemma perm_ok_id n : perm_ok n (zrange (Z.of_nat n)).
  Proof.
    unfold perm_ok. repeat split.
    - rewrite zrange_length. lia.
    - rewrite zrange_of_nat. apply FinFun.Injective_map_NoDup; [intros a b H; lia|apply seq_NoDup].
    - apply zrange_In in H. lia.
    - apply zrange_In in H. lia.
  Qed.

  Definition tr_perm (nd : Z) (axes : option (list Z)) : list Z :=
    map (fun a => a mod nd) (match axes with None => rev (zrange nd) | Some l => l end).

  Definition tr_valid (nd : Z) (axes : option (list Z)) : Prop :=
    Forall (axis_ok nd) (match axes with None => rev (zrange nd) | Some l => l end) /\
    is_perm nd (tr_perm nd axes) = true.

  (* what coo_transpose computes, case by case *)
  Lemma coo_transpose_cases (x : coo V) axes :
    let nd := ndim x in let ax := tr_perm nd axes in
    (tr_valid nd axes /\
       coo_transpose x axes =
         Ok (if idx_eqb ax (zrange nd) then x
             else coo_make (permute_idx ax (c_shape x)) (map_coords (permute_idx ax) x) (c_fill x) false))
    \/ (~ tr_valid nd axes /\ coo_transpose x axes = Raise ValueError).
  Proof.
    intros nd ax. unfold coo_transpose. fold nd.
    set (axes0 := match axes with None => rev (zrange nd) | Some a => a end).
    assert (Hnd : 0 <= nd) by apply zlen_nonneg.
    destruct (norm_axes nd axes0) as [l|e] eqn:E; simpl.
    - apply (norm_axes_Ok nd axes0 l Hnd) in E. destruct E as [Hf ->].
      change (map (fun a : Z => a mod nd) axes0) with ax.
      assert (Hrange : forall a, In a ax -> 0 <= a < nd).
      { intros a Ha. apply in_map_iff in Ha. destruct Ha as [b [<- Hb]].
        rewrite Forall_forall in Hf. apply mod_in_range. apply Hf. exact Hb. }
      assert (Hiff : is_perm nd ax = true <-> (length ax = length (c_shape x) /\ NoDup ax)).
      { unfold nd, ndim, zlen. rewrite is_perm_ok. unfold perm_ok. split; [tauto|].
        intros [? ?]. repeat split; try assumption; apply Hrange in H1; unfold nd, ndim, zlen in H1; lia. }
      destruct (has_dup ax) eqn:Ed; simpl.
      { right. split; [|reflexivity]. intros [_ Hp]. apply Hiff in Hp. destruct Hp as [_ Hn].
        apply has_dup_NoDup in Hn. congruence. }
      apply has_dup_NoDup in Ed.
      destruct (Z.eqb_spec (zlen ax) nd) as [El|El]; simpl.
      + left. split; [|destruct (idx_eqb ax (zrange nd)); reflexivity]. split; [exact Hf|]. apply Hiff. split; [|assumption].
        unfold nd, ndim, zlen in El. lia.
      + right. split; [|reflexivity]. intros [_ Hp]. apply Hiff in Hp. destruct Hp as [Hl _].
        apply El. unfold nd, ndim, zlen. lia.
    - apply norm_axes_Raise in E; [|assumption]. destruct E as [-> Hn]. right. split; [|reflexivity].
      intros [Hf _]. apply Hn. exact Hf.
  Qed.

  Section Den.
    Variable x : coo V.
    Hypothesis Hx : canonical V x.

    Let n := length (c_shape x).

    Lemma coords_length c : in_range (c_shape x) c -> length c = n.
    Proof. apply in_range_length. Qed.

    Theorem transpose_den_proof axes r :
      coo_transpose x axes = Ok r ->
      let perm := tr_perm (ndim x) axes in
      tr_valid (ndim x) axes /\
      c_shape r = np_transpose_shape (c_shape x) perm /\ c_fill r = c_fill x /\
      forall ix, in_range (c_shape r) ix -> den r ix = np_transpose perm (den x) ix.
    Proof.
      intros Hr perm. destruct (coo_transpose_cases x axes) as [[Hv Hc]|[_ Hc]]; [|congruence].
      rewrite Hc in Hr. clear Hc. cbv zeta in Hr. change (tr_perm (ndim x) axes) with perm in Hr.
      split; [assumption|].
      destruct Hv as [_ Hp]. change (tr_perm (ndim x) axes) with perm in Hp.
      unfold ndim, zlen in Hp. apply is_perm_ok in Hp. fold n in Hp.
      assert (Hshape : np_transpose_shape (c_shape x) perm = permute_idx perm (c_shape x)) by reflexivity.
      destruct (idx_eqb perm (zrange (ndim x))) eqn:Eid; inversion Hr as [Hr']; clear Hr.
      - (* identity: return self *)
        apply idx_eqb_eq in Eid. subst r.
        assert (Hsh : permute_idx perm (c_shape x) = c_shape x) by (rewrite Eid; apply permute_id).
        split; [rewrite Hshape; symmetry; exact Hsh|]. split; [reflexivity|].
        intros ix Hi. unfold np_transpose. f_equal.
        pose proof (permute_unpermute n perm Hp ix (in_range_length _ _ Hi)) as H1.
        pose proof (permute_id (unpermute perm ix)) as H2.
        assert (H3 : zlen (unpermute perm ix) = ndim x)
          by (unfold zlen, ndim; rewrite (unpermute_length n perm Hp); reflexivity).
        rewrite H3 in H2. rewrite <- Eid in H2. congruence.
      - subst r. simpl. repeat split. intros ix Hi.
        unfold np_transpose.
        apply (remap_den_inverse V x (permute_idx perm (c_shape x)) (permute_idx perm) false Hx).
        + intros a b Ha Hb He. rewrite <- (unpermute_permute n perm Hp a), <- (unpermute_permute n perm Hp b), He;
            [reflexivity|apply coords_length; assumption|apply coords_length; assumption].
        + exact Hi.
        + apply (unpermute_in_range n perm Hp); [reflexivity|exact Hi].
        + apply (permute_unpermute n perm Hp). apply in_range_length in Hi. rewrite Hi. apply permute_length. assumption.
    Qed.

    Theorem transpose_canonical_proof axes r :
      coo_transpose x axes = Ok r ->
      canonical V r /\ (prunedb veqb x = true -> prunedb veqb r = true).
    Proof.
      intros Hr. destruct (coo_transpose_cases x axes) as [[Hv Hc]|[_ Hc]]; [|congruence].
      rewrite Hc in Hr. clear Hc. cbv zeta in Hr.
      set (perm := tr_perm (ndim x) axes) in *.
      destruct Hv as [_ Hp]. unfold ndim, zlen in Hp. apply is_perm_ok in Hp. fold n in Hp.
      destruct (idx_eqb perm (zrange (ndim x))); inversion Hr as [Hr']; clear Hr; [subst r; auto|]. subst r. split.
      - apply remap_canonical; [assumption| | |discriminate].
        + intros c Hc. apply (permute_in_range n perm Hp); [reflexivity|assumption].
        + intros a b Ha Hb He. rewrite <- (unpermute_permute n perm Hp a), <- (unpermute_permute n perm Hp b), He;
            [reflexivity|apply coords_length; assumption|apply coords_length; assumption].
      - intros Hpr. apply remap_pruned. exact Hpr.
    Qed.

    Theorem transpose_accepts_iff_proof axes :
      (exists r, coo_transpose x axes = Ok r) <-> tr_valid (ndim x) axes.
    Proof.
      destruct (coo_transpose_cases x axes) as [[Hv Hc]|[Hv Hc]]; rewrite Hc; split; eauto.
      - intros [r Hr]. discriminate.
      - tauto.
    Qed.

    Theorem transpose_rejects_proof axes e :
      coo_transpose x axes = Raise e -> e = ValueError /\ ~ tr_valid (ndim x) axes.
    Proof.
      destruct (coo_transpose_cases x axes) as [[Hv Hc]|[Hv Hc]]; rewrite Hc; [discriminate|].
      intros H; inversion H; auto.
    Qed.
  End Den.
End Transpose.

(* ================================================================== reshape: the target shape (F10) *)

Definition not_m1 (d : Z) : bool := negb (d =? -1).
Definition count_m1 (l : list Z) : nat := length (filter (fun d => d =? -1) l).
Definition subst_m1 (e : Z) (l : list Z) : list Z := map (fun d => if d =? -1 then e else d) l.

Lemma mapM_unVInt l :
  mapM (fun x : pyv => match x with VInt z => Ok z | _ => Raise TypeError end) (map VInt l) = Ok l.
Proof. induction l as [|a l IH]; simpl; [reflexivity|]. rewrite IH. reflexivity. Qed.

Lemma unpyints_pyints l : unpyints (pyints l) = Ok l.
Proof. apply mapM_unVInt. Qed.

Lemma fold_prod_pyints l :
  fold_right (fun v acc => match as_int v with Some d => if d =? -1 then acc else d * acc | None => acc end) 1
             (map VInt l) = size (filter not_m1 l).
Proof.
  induction l as [|a l IH]; simpl; [reflexivity|]. rewrite IH. unfold not_m1.
  destruct (a =? -1); simpl; reflexivity.
Qed.

Lemma map_subst_pyints e l :
  map (fun v => match as_int v with Some d => if d =? -1 then VInt e else v | None => v end) (map VInt l)
  = map VInt (subst_m1 e l).
Proof.
  unfold subst_m1. rewrite !map_map. apply map_ext. intros a. simpl. destruct (a =? -1); reflexivity.
Qed.

Lemma count_pyints l :
  Z.of_nat (length (filter (fun v => match as_int v with Some d => d =? -1 | None => false end) (map VInt l)))
  = Z.of_nat (count_m1 l).
Proof.
  unfold count_m1. f_equal. induction l as [|a l IH]; simpl; [reflexivity|]. destruct (a =? -1); simpl; auto.
Qed.

(* the generated `-1` inference, in closed form *)
Lemma reshape_infer_closed new sz :
  g_reshape_infer (pyints new) (VInt sz) =
  let known := size (filter not_m1 new) in
  if (1 <? Z.of_nat (count_m1 new)) || (known =? 0) || negb (sz mod known =? 0) then Raise ValueError
  else Ok (VTuple [pyints (subst_m1 (sz / known) new)]).
Proof.
  unfold g_reshape_infer, pyints. cbn. rewrite fold_prod_pyints, count_pyints.
  set (known := size (filter not_m1 new)).
  rewrite (Z.gtb_ltb (Z.of_nat (count_m1 new)) 1).
  destruct (Z.ltb_spec 1 (Z.of_nat (count_m1 new))) as [Ec|Ec]; cbn; [reflexivity|].
  destruct (Z.eqb_spec known 0) as [E0|E0]; cbn; [reflexivity|].
  destruct (Z.eqb_spec known 0); [contradiction|]. cbn.
  destruct (Z.eqb_spec (sz mod known) 0) as [Em|Em]; cbn; [|reflexivity].
  destruct (Z.eqb_spec known 0); [contradiction|]. cbn.
  rewrite map_subst_pyints. reflexivity.
Qed.

Lemma existsb_m1_count l : existsb (fun d => d =? -1) l = negb (Nat.eqb (count_m1 l) 0).
Proof.
  unfold count_m1. induction l as [|a l IH]; simpl; [reflexivity|].
  destruct (a =? -1); simpl; [reflexivity|assumption].
Qed.

Lemma filter_not_m1_id l : count_m1 l = O -> filter not_m1 l = l.
Proof.
  unfold count_m1, not_m1. induction l as [|a l IH]; simpl; [reflexivity|].
  destruct (a =? -1); simpl; [discriminate|]. intros H. f_equal. auto.
Qed.

Lemma size_subst_one e l : count_m1 l = 1%nat -> size (subst_m1 e l) = e * size (filter not_m1 l).
Proof.
  unfold count_m1, subst_m1, not_m1. induction l as [|a l IH]; simpl; [discriminate|].
  destruct (a =? -1) eqn:E; simpl.
  - intros H. f_equal. assert (H0 : count_m1 l = O) by (unfold count_m1; lia).
    pose proof (filter_not_m1_id l H0) as Hf. unfold not_m1 in Hf. rewrite Hf.
    f_equal. clear -H0. unfold count_m1 in H0. induction l as [|b l IH]; simpl in *; [reflexivity|].
    destruct (b =? -1); simpl in *; [discriminate|]. f_equal. auto.
  - intros H. rewrite IH by assumption. lia.
Qed.

Lemma neg_subst_one e l : count_m1 l = 1%nat ->
  existsb (fun d => d <? 0) (subst_m1 e l) = existsb (fun d => d <? 0) (filter not_m1 l) || (e <? 0).
Proof.
  unfold count_m1, subst_m1, not_m1. induction l as [|a l IH]; simpl; [discriminate|].
  destruct (a =? -1) eqn:E; simpl.
  - intros H. assert (H0 : count_m1 l = O) by (unfold count_m1; lia).
    pose proof (filter_not_m1_id l H0) as Hf. unfold not_m1 in Hf. rewrite Hf.
    replace (map (fun d : Z => if d =? -1 then e else d) l) with l.
    + destruct (e <? 0); simpl; [rewrite orb_true_r; reflexivity|rewrite orb_false_r; reflexivity].
    + clear -H0. unfold count_m1 in H0. induction l as [|b l IH]; simpl in *; [reflexivity|].
      destruct (b =? -1); simpl in *; [discriminate|]. f_equal. auto.
  - intros H. rewrite IH by assumption. rewrite orb_assoc. reflexivity.
Qed.

Lemma shape_ok_existsb sh : shape_ok sh <-> existsb (fun d => d <? 0) sh = false.
Proof.
  unfold shape_ok. induction sh as [|d sh IH]; simpl; [split; [reflexivity|constructor]|].
  rewrite orb_false_iff, <- IH. split.
  - intros H; inversion H; subst. split; [lia|assumption].
  - intros [? ?]. constructor; [lia|assumption].
Qed.

Lemma size_pos_of_ok l : shape_ok l -> size l <> 0 -> 0 < size l.
Proof. intros H Hn. pose proof (size_nonneg _ H). lia. Qed.

Theorem reshape_minus1_spec_proof sh new :
  shape_ok sh -> coo_reshape_shape sh new = np_reshape_target sh new.
Proof.
  intros Hok. pose proof (size_nonneg _ Hok) as Hsz.
  unfold coo_reshape_shape, np_reshape_target.
  change (filter (fun d => negb (d =? -1)) new) with (filter not_m1 new).
  change (length (filter (fun d => d =? -1) new)) with (count_m1 new).
  rewrite existsb_m1_count.
  destruct (count_m1 new) as [|[|k]] eqn:Ec; simpl.
  - (* no -1 *)
    rewrite (filter_not_m1_id new Ec).
    rewrite (Z.eqb_sym (size sh) (size new)).
    destruct (existsb (fun d => d <? 0) new); destruct (size new =? size sh); reflexivity.
  - (* exactly one -1 *)
    rewrite reshape_infer_closed. cbv zeta. rewrite Ec.
    change (1 <? Z.of_nat 1) with false. cbn [orb].
    set (known := size (filter not_m1 new)).
    destruct (existsb (fun d => d <? 0) (filter not_m1 new)) eqn:En.
    + (* a negative known extent: both reject *)
      destruct ((known =? 0) || negb (size sh mod known =? 0)); simpl; [reflexivity|].
      rewrite mapM_unVInt. simpl.
      destruct (negb (size sh =? size (subst_m1 (size sh / known) new))); simpl; [reflexivity|].
      rewrite (neg_subst_one _ _ Ec), En. reflexivity.
    + apply shape_ok_existsb in En.
      destruct (Z.eqb_spec known 0) as [E0|E0]; simpl; [reflexivity|].
      pose proof (size_pos_of_ok _ En E0) as Hkp. fold known in Hkp.
      destruct (Z.eqb_spec (size sh mod known) 0) as [Em|Em]; simpl; [|reflexivity].
      rewrite mapM_unVInt. simpl.
      rewrite (size_subst_one _ _ Ec). fold known.
      assert (Hdiv : size sh / known * known = size sh).
      { pose proof (Z.div_mod (size sh) known E0). lia. }
      rewrite Hdiv, Z.eqb_refl. simpl.
      rewrite (neg_subst_one _ _ Ec).
      apply shape_ok_existsb in En. rewrite En. simpl.
      destruct (Z.ltb_spec (size sh / known) 0) as [Hlt|Hge]; [|reflexivity].
      exfalso. pose proof (Z.div_pos (size sh) known Hsz Hkp). lia.
  - (* several -1: rejected by the count test (commit dbf0c20), as NumPy does *)
    rewrite reshape_infer_closed. cbv zeta. rewrite Ec.
    assert (H1 : (1 <? Z.of_nat (S (S k))) = true) by (apply Z.ltb_lt; lia). rewrite H1. simpl.
    destruct (existsb (fun d => d <? 0) (filter not_m1 new)); reflexivity.
Qed.

(* the GCXS.reshape site: the generated text is the same inference; only the order of the tests differs *)
Theorem gcxs_reshape_minus1_spec_proof sh new :
  shape_ok sh -> gcxs_reshape_shape sh new = np_reshape_target sh new.
Proof.
  intros Hok. rewrite <- (reshape_minus1_spec_proof sh new Hok).
  unfold gcxs_reshape_shape, coo_reshape_shape.
  change g_gcxs_reshape_infer with g_reshape_infer.
  destruct (if existsb (fun d => d =? -1) new then _ else Ok new) as [n'|e]; simpl; [|reflexivity].
  destruct (idx_eqb sh n') eqn:E; [|reflexivity].
  apply idx_eqb_eq in E. subst n'. rewrite Z.eqb_refl. simpl.
  apply shape_ok_existsb in Hok. rewrite Hok. reflexivity.
Qed.

(* facts about an accepted target *)
Lemma reshape_target_facts sh new t :
  shape_ok sh -> np_reshape_target sh new = Ok t -> shape_ok t /\ size t = size sh /\ (count_m1 new <= 1)%nat.
Proof.
  intros Hok. pose proof (size_nonneg _ Hok) as Hsz. unfold np_reshape_target.
  change (filter (fun d => negb (d =? -1)) new) with (filter not_m1 new).
  change (length (filter (fun d => d =? -1) new)) with (count_m1 new).
  destruct (existsb (fun d => d <? 0) (filter not_m1 new)) eqn:En; [discriminate|].
  destruct (count_m1 new) as [|[|k]] eqn:Ec; [| |discriminate].
  - destruct (Z.eqb_spec (size new) (size sh)); [|discriminate]. intros H; inversion H; subst.
    rewrite (filter_not_m1_id _ Ec) in En. apply shape_ok_existsb in En. repeat split; [assumption|assumption|lia].
  - set (known := size (filter not_m1 new)).
    destruct (Z.eqb_spec known 0) as [E0|E0]; [discriminate|].
    destruct (Z.eqb_spec (size sh mod known) 0) as [Em|Em]; [|discriminate].
    intros H; inversion H; subst. clear H.
    change (map (fun d => if d =? -1 then size sh / known else d) new) with (subst_m1 (size sh / known) new).
    pose proof En as En'. apply shape_ok_existsb in En'.
    pose proof (size_pos_of_ok _ En' E0) as Hkp. fold known in Hkp.
    repeat split; [| |lia].
    + apply shape_ok_existsb. rewrite (neg_subst_one _ _ Ec), En. simpl.
      destruct (Z.ltb_spec (size sh / known) 0) as [Hlt|Hge]; [|reflexivity].
      exfalso. pose proof (Z.div_pos (size sh) known Hsz Hkp). lia.
    + rewrite (size_subst_one _ _ Ec). fold known. pose proof (Z.div_mod (size sh) known E0). lia.
Qed.

(* ================================================================== reshape: coordinates *)

Lemma size_pos_all sh : shape_ok sh -> 0 < size sh -> Forall (fun d => 0 < d) sh.
Proof.
  induction 1 as [|d sh Hd Hok IH]; simpl; intros Hp; constructor.
  - pose proof (size_nonneg _ Hok). nia.
  - apply IH. pose proof (size_nonneg _ Hok). nia.
Qed.

Lemma size_pos_of_all sh : Forall (fun d => 0 < d) sh -> 0 < size sh.
Proof. induction 1; simpl; [lia|nia]. Qed.

(* (linear // strides) % d  is the row-major unravel *)
Lemma unravel_strided_mod sh n :
  Forall (fun d => 0 < d) sh -> unravel_strided sh n = unravel sh (n mod size sh).
Proof.
  induction 1 as [|d sh Hd Hall IH]; simpl; [reflexivity|].
  pose proof (size_pos_of_all _ Hall) as Hs.
  assert (Hm : n mod (d * size sh) = n mod size sh + size sh * ((n / size sh) mod d)).
  { rewrite (Z.mul_comm d). apply Z.rem_mul_r; lia. }
  pose proof (Z.mod_pos_bound n (size sh) Hs) as Hb.
  f_equal.
  - rewrite Hm. rewrite (Z.mul_comm (size sh)). rewrite Z.div_add by lia.
    rewrite (Z.div_small (n mod size sh)) by lia. apply Z.add_0_l.
  - rewrite IH. f_equal. rewrite Hm. rewrite (Z.mul_comm (size sh)). rewrite Z.mod_add by lia.
    symmetry. apply Z.mod_mod. lia.
Qed.

Lemma unravel_strided_eq sh n :
  shape_ok sh -> 0 <= n < size sh -> unravel_strided sh n = unravel sh n.
Proof.
  intros Hok Hn. rewrite unravel_strided_mod by (apply size_pos_all; [assumption|lia]).
  rewrite Z.mod_small by assumption. reflexivity.
Qed.

Section Reshape.
  Variable V : Type.
  Variable veqb : V -> V -> bool.

  Section Bij.
    Variables sh sh' : shape.
    Hypothesis Hok : shape_ok sh.
    Hypothesis Hok' : shape_ok sh'.
    Hypothesis Hsize : size sh' = size sh.

    Let f (c : idx) := unravel_strided sh' (ravel sh c).
    Let g (ix : idx) := unravel sh (ravel sh' ix).

    Lemma reshape_f_eq c : in_range sh c -> f c = unravel sh' (ravel sh c).
    Proof. intros Hc. unfold f. apply unravel_strided_eq; [assumption|]. rewrite Hsize. apply ravel_bounds. assumption. Qed.

    Lemma reshape_f_range c : in_range sh c -> in_range sh' (f c).
    Proof.
      intros Hc. rewrite reshape_f_eq by assumption. apply unravel_in_range; [assumption|].
      rewrite Hsize. apply ravel_bounds. assumption.
    Qed.

    Lemma reshape_f_ravel c : in_range sh c -> ravel sh' (f c) = ravel sh c.
    Proof.
      intros Hc. rewrite reshape_f_eq by assumption. apply ravel_unravel; [assumption|].
      rewrite Hsize. apply ravel_bounds. assumption.
    Qed.

    Lemma reshape_f_inj a b : in_range sh a -> in_range sh b -> f a = f b -> a = b.
    Proof.
      intros Ha Hb He. apply (ravel_inj sh); [assumption|assumption|].
      rewrite <- (reshape_f_ravel a Ha), <- (reshape_f_ravel b Hb), He. reflexivity.
    Qed.

    Lemma reshape_f_mono a b : in_range sh a -> in_range sh b -> lex_lt a b -> lex_lt (f a) (f b).
    Proof.
      intros Ha Hb Hl. apply (ravel_lex sh'); [apply reshape_f_range; assumption|apply reshape_f_range; assumption|].
      rewrite (reshape_f_ravel a Ha), (reshape_f_ravel b Hb). apply (ravel_lex sh); assumption.
    Qed.

    Lemma reshape_g_range ix : in_range sh' ix -> in_range sh (g ix).
    Proof.
      intros Hi. unfold g. apply unravel_in_range; [assumption|]. rewrite <- Hsize. apply ravel_bounds. assumption.
    Qed.

    Lemma reshape_f_g ix : in_range sh' ix -> f (g ix) = ix.
    Proof.
      intros Hi. rewrite reshape_f_eq by (apply reshape_g_range; assumption). unfold g.
      rewrite ravel_unravel; [apply unravel_ravel; assumption|assumption|].
      rewrite <- Hsize. apply ravel_bounds. assumption.
    Qed.
  End Bij.

  Variable x : coo V.
  Hypothesis Hx : canonical V x.
  Hypothesis Hsh : shape_ok (c_shape x).

  Lemma coo_reshape_cases new :
    coo_reshape x new =
    if idx_eqb (c_shape x) new then Ok x
    else match coo_reshape_shape (c_shape x) new with
         | Ok sh' => Ok (coo_make sh' (map_coords (fun c => unravel_strided sh' (ravel (c_shape x) c)) x) (c_fill x) true)
         | Raise e => Raise e
         end.
  Proof. unfold coo_reshape. destruct (idx_eqb (c_shape x) new); [reflexivity|]. destruct (coo_reshape_shape (c_shape x) new); reflexivity. Qed.

  (* whatever target the model accepts has the same size and no negative extent *)
  Lemma coo_reshape_shape_facts new sh' :
    coo_reshape_shape (c_shape x) new = Ok sh' -> shape_ok sh' /\ size sh' = size (c_shape x).
  Proof.
    unfold coo_reshape_shape.
    destruct (if existsb (fun d => d =? -1) new then _ else Ok new) as [n'|e]; simpl; [|discriminate].
    destruct (Z.eqb_spec (size (c_shape x)) (size n')) as [E|E]; simpl; [|discriminate].
    destruct (existsb (fun d => d <? 0) n') eqn:En; [discriminate|].
    intros H; inversion H; subst. split; [apply shape_ok_existsb; assumption|lia].
  Qed.

  Theorem reshape_den_proof new r :
    coo_reshape x new = Ok r ->
    shape_ok (c_shape r) /\ size (c_shape r) = size (c_shape x) /\ c_fill r = c_fill x /\
    np_reshape_target (c_shape x) new = Ok (c_shape r) /\
    forall ix, in_range (c_shape r) ix -> den r ix = np_reshape (c_shape x) (c_shape r) (den x) ix.
  Proof.
    rewrite coo_reshape_cases. destruct (idx_eqb (c_shape x) new) eqn:Eid.
    - apply idx_eqb_eq in Eid. intros H; inversion H; subst r. clear H.
      repeat split; try assumption.
      + rewrite <- (reshape_minus1_spec_proof _ _ Hsh). rewrite <- Eid.
        unfold coo_reshape_shape.
        assert (Hn : existsb (fun d => d =? -1) (c_shape x) = false).
        { apply shape_ok_existsb in Hsh. clear -Hsh. induction (c_shape x) as [|d l IH]; simpl in *; [reflexivity|].
          apply orb_false_iff in Hsh. destruct Hsh as [Hd Hl]. rewrite (IH Hl).
          destruct (Z.eqb_spec d (-1)); [lia|reflexivity]. }
        rewrite Hn. simpl. rewrite Z.eqb_refl. simpl.
        apply shape_ok_existsb in Hsh. rewrite Hsh. reflexivity.
      + intros ix Hi. unfold np_reshape. rewrite unravel_ravel by assumption. reflexivity.
    - destruct (coo_reshape_shape (c_shape x) new) as [sh'|e] eqn:Es; [|discriminate].
      destruct (coo_reshape_shape_facts new sh' Es) as [Hok' Hsize].
      intros H; inversion H; subst r; clear H. simpl.
      repeat split; try assumption.
      + rewrite <- (reshape_minus1_spec_proof _ _ Hsh). assumption.
      + intros ix Hi. unfold np_reshape.
        apply (remap_den_inverse V x sh' (fun c => unravel_strided sh' (ravel (c_shape x) c)) true Hx
                 (reshape_f_inj (c_shape x) sh' Hok' Hsize)
                 (fun ix => unravel (c_shape x) (ravel sh' ix))).
        * exact Hi.
        * apply (reshape_g_range (c_shape x) sh' Hsh Hsize). exact Hi.
        * apply (reshape_f_g (c_shape x) sh' Hsh Hok' Hsize). exact Hi.
  Qed.

  Theorem reshape_canonical_proof new r :
    coo_reshape x new = Ok r -> canonical V r /\ (prunedb veqb x = true -> prunedb veqb r = true).
  Proof.
    rewrite coo_reshape_cases. destruct (idx_eqb (c_shape x) new).
    - intros H; inversion H; subst; auto.
    - destruct (coo_reshape_shape (c_shape x) new) as [sh'|e] eqn:Es; [|discriminate].
      destruct (coo_reshape_shape_facts new sh' Es) as [Hok' Hsize].
      intros H; inversion H; subst r; clear H. split.
      + apply remap_canonical; [assumption| | |].
        * intros c. apply (reshape_f_range (c_shape x) sh' Hok' Hsize).
        * intros a b. apply (reshape_f_inj (c_shape x) sh' Hok' Hsize).
        * intros _ a b. apply (reshape_f_mono (c_shape x) sh' Hok' Hsize).
      + intros Hp. apply remap_pruned. exact Hp.
  Qed.

  (* acceptance: exactly the targets NumPy accepts (at most one -1 written) *)
  Theorem reshape_accepts_proof new t :
    np_reshape_target (c_shape x) new = Ok t -> exists r, coo_reshape x new = Ok r /\ c_shape r = t.
  Proof.
    intros Ht.
    rewrite coo_reshape_cases. destruct (idx_eqb (c_shape x) new) eqn:Eid.
    - exists x. split; [reflexivity|]. apply idx_eqb_eq in Eid.
      destruct (reshape_den_proof new x) as [_ [_ [_ [Ht' _]]]].
      { rewrite coo_reshape_cases. rewrite <- Eid, idx_eqb_refl. reflexivity. }
      rewrite Ht' in Ht. congruence.
    - rewrite (reshape_minus1_spec_proof _ _ Hsh), Ht. eexists. split; reflexivity.
  Qed.

  (* every target NumPy rejects (several -1 included, since commit dbf0c20) raises ValueError *)
  Theorem reshape_rejects_proof new e :
    np_reshape_target (c_shape x) new = Raise e -> coo_reshape x new = Raise ValueError.
  Proof.
    intros Ht. rewrite coo_reshape_cases. destruct (idx_eqb (c_shape x) new) eqn:Eid.
    - exfalso. destruct (reshape_den_proof new x) as [_ [_ [_ [Ht' _]]]].
      { rewrite coo_reshape_cases, Eid. reflexivity. }
      rewrite Ht' in Ht. discriminate.
    - rewrite (reshape_minus1_spec_proof _ _ Hsh), Ht.
      unfold np_reshape_target in Ht.
      repeat match type of Ht with
      | (if ?b then _ else _) = _ => destruct b
      | match ?n with O => _ | S _ => _ end = _ => destruct n
      end; inversion Ht; reflexivity.
  Qed.

  (* flatten = reshape(-1): a 1-d array holding the row-major sequence of the elements *)
  Theorem flatten_den_proof r :
    coo_flatten x = Ok r ->
    c_shape r = [size (c_shape x)] /\ c_fill r = c_fill x /\
    forall i, 0 <= i < size (c_shape x) -> den r [i] = den x (unravel (c_shape x) i).
  Proof.
    unfold coo_flatten. intros Hr.
    destruct (reshape_den_proof [-1] r Hr) as [_ [_ [Hf [Ht Hd]]]].
    unfold np_reshape_target in Ht. simpl in Ht.
    rewrite Z.mod_1_r in Ht. simpl in Ht. rewrite Z.div_1_r in Ht. inversion Ht as [Hs].
    split; [reflexivity|]. split; [assumption|]. intros i Hi.
    rewrite Hd by (rewrite <- Hs; simpl; lia). unfold np_reshape. rewrite <- Hs. simpl.
    f_equal. f_equal. lia.
  Qed.
End Reshape.

(* ================================================================== pointwise index maps (flip, roll) *)

Lemma mapi_aux_length {A B} (g : Z -> A -> B) o l : length (mapi_aux g o l) = length l.
Proof. revert o; induction l; intros o; simpl; auto. Qed.

Lemma mapi_aux_nth {A B} (g : Z -> A -> B) o l k d d' :
  (k < length l)%nat -> nth k (mapi_aux g o l) d' = g (o + Z.of_nat k) (nth k l d).
Proof.
  revert o k; induction l as [|a l IH]; intros o k Hk; simpl in *; [lia|].
  destruct k as [|k]; [f_equal; lia|]. rewrite IH by lia. f_equal. lia.
Qed.

Lemma mapi_length {A B} (g : Z -> A -> B) l : length (mapi g l) = length l.
Proof. apply mapi_aux_length. Qed.

Lemma mapi_nth {A B} (g : Z -> A -> B) l k d d' :
  (k < length l)%nat -> nth k (mapi g l) d' = g (Z.of_nat k) (nth k l d).
Proof. intros H. unfold mapi. rewrite (mapi_aux_nth g 0 l k d d' H). f_equal. Qed.

Lemma zset_cons_0 {A} (a : A) l v : zset (a :: l) 0 v = v :: l.
Proof. reflexivity. Qed.

Lemma zset_cons_S {A} (a : A) l (i : nat) v : zset (a :: l) (Z.of_nat (S i)) v = a :: zset l (Z.of_nat i) v.
Proof. unfold zset. rewrite !Nat2Z.id. reflexivity. Qed.

Lemma zset_length {A} (l : list A) (i : nat) v : length (zset l (Z.of_nat i) v) = length l.
Proof.
  revert i; induction l as [|a l IH]; intros i.
  - unfold zset. rewrite Nat2Z.id. destruct i; reflexivity.
  - destruct i as [|i]; [reflexivity|]. rewrite zset_cons_S. simpl. f_equal. apply IH.
Qed.

Lemma zset_nth {A} (l : list A) (i : nat) v k d :
  (i < length l)%nat -> nth k (zset l (Z.of_nat i) v) d = if Nat.eqb k i then v else nth k l d.
Proof.
  revert i k; induction l as [|a l IH]; intros i k Hi; simpl in Hi; [lia|].
  destruct i as [|i].
  - change (Z.of_nat 0) with 0. rewrite zset_cons_0. destruct k; reflexivity.
  - rewrite zset_cons_S. destruct k as [|k]; [reflexivity|]. simpl. apply IH. lia.
Qed.

(* a family of per-axis maps that are inverse bijections of [0, extent) *)
Section Pointwise.
  Variable sh : shape.
  Variables g h : Z -> Z -> Z.
  Hypothesis Hg : forall k i, (k < length sh)%nat -> 0 <= i < nth k sh 0 ->
    0 <= g (Z.of_nat k) i < nth k sh 0 /\ h (Z.of_nat k) (g (Z.of_nat k) i) = i.
  Hypothesis Hh : forall k i, (k < length sh)%nat -> 0 <= i < nth k sh 0 ->
    0 <= h (Z.of_nat k) i < nth k sh 0 /\ g (Z.of_nat k) (h (Z.of_nat k) i) = i.

  Lemma pointwise_range c : in_range sh c -> in_range sh (mapi g c).
  Proof.
    intros Hc. apply in_range_nth in Hc. destruct Hc as [Hl Hn]. apply in_range_nth.
    split; [rewrite mapi_length; assumption|]. intros k Hk.
    rewrite (mapi_nth g c k 0 0) by lia. apply Hg; auto.
  Qed.

  Lemma pointwise_inv c : in_range sh c -> mapi h (mapi g c) = c.
  Proof.
    intros Hc. apply in_range_nth in Hc. destruct Hc as [Hl Hn].
    apply (nth_ext _ _ 0 0); [rewrite !mapi_length; reflexivity|].
    intros k Hk. rewrite !mapi_length in Hk.
    rewrite (mapi_nth h _ k 0 0) by (rewrite mapi_length; lia).
    rewrite (mapi_nth g c k 0 0) by lia. apply Hg; [lia|apply Hn; lia].
  Qed.
End Pointwise.

Section FlipRoll.
  Variable V : Type.
  Variable veqb : V -> V -> bool.
  Variable x : coo V.
  Hypothesis Hx : canonical V x.

  Let sh := c_shape x.
  Let n := length (c_shape x).

  (* every model index map that acts as `mapi g` on in-range tuples, for a per-axis bijection g/h *)
  Lemma pointwise_remap (f : idx -> idx) (g h : Z -> Z -> Z) :
    (forall c, in_range sh c -> f c = mapi g c) ->
    (forall k i, (k < n)%nat -> 0 <= i < nth k sh 0 ->
        0 <= g (Z.of_nat k) i < nth k sh 0 /\ h (Z.of_nat k) (g (Z.of_nat k) i) = i) ->
    (forall k i, (k < n)%nat -> 0 <= i < nth k sh 0 ->
        0 <= h (Z.of_nat k) i < nth k sh 0 /\ g (Z.of_nat k) (h (Z.of_nat k) i) = i) ->
    let r := coo_make sh (map_coords f x) (c_fill x) false in
    canonical V r /\ (prunedb veqb x = true -> prunedb veqb r = true) /\
    forall ix, in_range sh ix -> den r ix = den x (mapi h ix).
  Proof.
    intros Hf Hg Hh r.
    assert (Hinj : forall a b, in_range sh a -> in_range sh b -> f a = f b -> a = b).
    { intros a b Ha Hb He. rewrite (Hf a Ha), (Hf b Hb) in He.
      rewrite <- (pointwise_inv sh g h Hg a Ha), <- (pointwise_inv sh g h Hg b Hb), He. reflexivity. }
    split; [|split].
    - apply remap_canonical; [assumption| |assumption|discriminate].
      intros c Hc. rewrite (Hf c Hc). apply (pointwise_range sh g h Hg). assumption.
    - intros Hp. apply remap_pruned. assumption.
    - intros ix Hi. apply (remap_den_inverse V x sh f false Hx Hinj (mapi h)).
      + assumption.
      + apply (pointwise_range sh h g Hh). assumption.
      + rewrite Hf by (apply (pointwise_range sh h g Hh); assumption).
        apply (pointwise_inv sh h g Hh). assumption.
  Qed.

  (* ---------------------------------------------------------------- flip *)

  Definition flip_g (ax : list Z) (k i : Z) : Z := if memz k ax then zget sh k 0 - 1 - i else i.

  Lemma flip_fold_nth (ax : list Z) (c acc : idx) k :
    (forall a, In a ax -> 0 <= a < Z.of_nat (length acc)) ->
    nth k (fold_left (fun nc a => zset nc a (zget sh a 0 - 1 - zget c a 0)) ax acc) 0 =
    if memz (Z.of_nat k) ax then zget sh (Z.of_nat k) 0 - 1 - zget c (Z.of_nat k) 0 else nth k acc 0.
  Proof.
    revert acc. induction ax as [|a ax IH]; intros acc Hr; simpl; [reflexivity|].
    assert (Ha : 0 <= a < Z.of_nat (length acc)) by (apply Hr; left; reflexivity).
    rewrite IH.
    - destruct (memz (Z.of_nat k) ax) eqn:Em; [rewrite orb_true_r; reflexivity|]. rewrite orb_false_r.
      rewrite <- (Z2Nat.id a) at 1 by lia. rewrite zset_nth by lia.
      destruct (Z.eqb_spec (Z.of_nat k) a) as [E|E].
      + subst a. rewrite Nat2Z.id, Nat.eqb_refl. reflexivity.
      + destruct (Nat.eqb_spec k (Z.to_nat a)); [lia|reflexivity].
    - intros b Hb. rewrite <- (Z2Nat.id a) by lia. rewrite zset_length. apply Hr. right. assumption.
  Qed.

  Lemma flip_fold_length (ax : list Z) (c acc : idx) :
    (forall a, In a ax -> 0 <= a < Z.of_nat (length acc)) ->
    length (fold_left (fun nc a => zset nc a (zget sh a 0 - 1 - zget c a 0)) ax acc) = length acc.
  Proof.
    revert acc. induction ax as [|a ax IH]; intros acc Hr; simpl; [reflexivity|].
    assert (Ha : 0 <= a < Z.of_nat (length acc)) by (apply Hr; left; reflexivity).
    assert (Hl : length (zset acc a (zget sh a 0 - 1 - zget c a 0)) = length acc).
    { rewrite <- (Z2Nat.id a) by lia. apply zset_length. }
    rewrite IH; [assumption|]. intros b Hb. rewrite Hl. apply Hr. right. assumption.
  Qed.

  Lemma flip_idx_mapi (ax : list Z) c :
    (forall a, In a ax -> 0 <= a < Z.of_nat n) -> in_range sh c -> flip_idx sh ax c = mapi (flip_g ax) c.
  Proof.
    intros Hr Hc. pose proof (in_range_length _ _ Hc) as Hl. fold n in Hl. unfold flip_idx.
    assert (Hr' : forall a, In a ax -> 0 <= a < Z.of_nat (length c)) by (intros a Ha; rewrite Hl; auto).
    apply (nth_ext _ _ 0 0).
    - rewrite mapi_length. apply flip_fold_length. assumption.
    - intros k Hk. rewrite flip_fold_length in Hk by assumption.
      rewrite flip_fold_nth by assumption.
      rewrite (mapi_nth (flip_g ax) c k 0 0) by lia. unfold flip_g. rewrite !zget_nth. reflexivity.
  Qed.

  Definition flip_axes (axis : axarg) : list Z :=
    match axis with AxNone => zrange (Z.of_nat n) | AxInt a => [a] | AxTup l => l end.

  Theorem flip_den_proof axis r :
    coo_flip x axis = Ok r ->
    let ax := map (fun a => a mod Z.of_nat n) (flip_axes axis) in
    Forall (axis_ok (Z.of_nat n)) (flip_axes axis) /\ NoDup ax /\
    c_shape r = sh /\ c_fill r = c_fill x /\
    canonical V r /\ (prunedb veqb x = true -> prunedb veqb r = true) /\
    forall ix, in_range sh ix -> den r ix = np_flip sh ax (den x) ix.
  Proof.
    unfold coo_flip. change (ndim x) with (Z.of_nat n).
    change (match axis with AxNone => zrange (Z.of_nat n) | AxInt a => [a] | AxTup l => l end) with (flip_axes axis).
    destruct (norm_axes (Z.of_nat n) (flip_axes axis)) as [ax|e] eqn:E; simpl; [|discriminate].
    apply norm_axes_Ok in E; [|lia]. destruct E as [Hf ->].
    destruct (has_dup (map (fun a => a mod Z.of_nat n) (flip_axes axis))) eqn:Ed; [discriminate|].
    apply has_dup_NoDup in Ed.
    intros H; inversion H; subst r; clear H.
    set (ax := map (fun a => a mod Z.of_nat n) (flip_axes axis)) in *.
    assert (Hr : forall a, In a ax -> 0 <= a < Z.of_nat n).
    { intros a Ha. apply in_map_iff in Ha. destruct Ha as [b [<- Hb]]. apply mod_in_range.
      rewrite Forall_forall in Hf. auto. }
    destruct (pointwise_remap (flip_idx sh ax) (flip_g ax) (flip_g ax)) as [Hc [Hp Hd]].
    - intros c Hc. apply flip_idx_mapi; assumption.
    - intros k i Hk Hi. unfold flip_g. rewrite zget_nth. destruct (memz (Z.of_nat k) ax); lia.
    - intros k i Hk Hi. unfold flip_g. rewrite zget_nth. destruct (memz (Z.of_nat k) ax); lia.
    - split; [assumption|]. split; [assumption|]. split; [reflexivity|]. split; [reflexivity|]. split; [exact Hc|].
      split; [exact Hp|]. intros ix Hi. exact (Hd ix Hi).
  Qed.

  (* accepted exactly when NumPy accepts: axes in range and, once normalised, distinct (commit 7be2e09);
     every rejection is a ValueError *)
  Theorem flip_accepts_iff_proof axis :
    ((exists r, coo_flip x axis = Ok r) <->
     (Forall (axis_ok (Z.of_nat n)) (flip_axes axis) /\ NoDup (map (fun a => a mod Z.of_nat n) (flip_axes axis)))) /\
    (forall e, coo_flip x axis = Raise e -> e = ValueError).
  Proof.
    unfold coo_flip. change (ndim x) with (Z.of_nat n).
    change (match axis with AxNone => zrange (Z.of_nat n) | AxInt a => [a] | AxTup l => l end) with (flip_axes axis).
    destruct (norm_axes (Z.of_nat n) (flip_axes axis)) as [ax|e] eqn:E; simpl.
    - apply norm_axes_Ok in E; [|lia]. destruct E as [Hf ->].
      destruct (has_dup (map (fun a => a mod Z.of_nat n) (flip_axes axis))) eqn:Ed.
      + split; [|intros e H; inversion H; reflexivity]. split; [intros [r Hr]; discriminate|].
        intros [_ Hn]. apply has_dup_NoDup in Hn. congruence.
      + apply has_dup_NoDup in Ed. split; [|intros e H; discriminate]. split; [tauto|eauto].
    - apply norm_axes_Raise in E; [|lia]. destruct E as [-> Hn].
      split; [|intros e H; inversion H; reflexivity]. split; [intros [r Hr]; discriminate|tauto].
  Qed.
End FlipRoll.

(* ================================================================== roll *)

Lemma total_shift_notin pairs k : memz k (map snd pairs) = false -> total_shift pairs k = 0.
Proof.
  induction pairs as [|[s a] ps IH]; simpl; [reflexivity|]. intros H. apply orb_false_iff in H.
  destruct H as [Hk Hm]. rewrite (Z.eqb_sym a k), Hk. auto.
Qed.

Section Roll.
  Variable V : Type.
  Variable veqb : V -> V -> bool.
  Variable x : coo V.
  Hypothesis Hx : canonical V x.

  Let sh := c_shape x.
  Let n := length (c_shape x).

  Definition roll_step (nc : idx) (p : Z * Z) : idx :=
    let '(s, a) := p in zset nc a (s_roll_step (zget nc a 0) s (zget sh a 0)).

  Lemma roll_idx_fold pairs c : roll_idx sh pairs c = fold_left roll_step pairs c.
  Proof. reflexivity. Qed.

  Lemma roll_fold_length pairs (acc : idx) :
    (forall p, In p pairs -> 0 <= snd p < Z.of_nat (length acc)) ->
    length (fold_left roll_step pairs acc) = length acc.
  Proof.
    revert acc. induction pairs as [|[s a] ps IH]; intros acc Hr; simpl; [reflexivity|].
    assert (Ha : 0 <= a < Z.of_nat (length acc)) by (apply (Hr (s, a)); left; reflexivity).
    unfold s_roll_step.
    assert (Hl : length (zset acc a ((zget acc a 0 + s) mod zget sh a 0)) = length acc).
    { rewrite <- (Z2Nat.id a) at 1 by lia. apply zset_length. }
    rewrite IH; [assumption|]. intros p Hp. rewrite Hl. apply Hr. right. assumption.
  Qed.

  Lemma roll_fold_nth pairs (acc : idx) k :
    (forall p, In p pairs -> 0 <= snd p < Z.of_nat (length acc)) -> (k < length acc)%nat ->
    nth k (fold_left roll_step pairs acc) 0 =
    if memz (Z.of_nat k) (map snd pairs)
    then (nth k acc 0 + total_shift pairs (Z.of_nat k)) mod nth k sh 0 else nth k acc 0.
  Proof.
    revert acc. induction pairs as [|[s a] ps IH]; intros acc Hr Hk; simpl; [reflexivity|].
    assert (Ha : 0 <= a < Z.of_nat (length acc)) by (apply (Hr (s, a)); left; reflexivity).
    unfold s_roll_step.
    assert (Hl : length (zset acc a ((zget acc a 0 + s) mod zget sh a 0)) = length acc).
    { rewrite <- (Z2Nat.id a) at 1 by lia. apply zset_length. }
    rewrite IH; [|intros p Hp; rewrite Hl; apply Hr; right; assumption|rewrite Hl; assumption].
    assert (Hz : nth k (zset acc a ((zget acc a 0 + s) mod zget sh a 0)) 0 =
                 if Z.of_nat k =? a then (nth k acc 0 + s) mod nth k sh 0 else nth k acc 0).
    { rewrite <- (Z2Nat.id a) at 1 by lia. rewrite zset_nth by lia.
      destruct (Z.eqb_spec (Z.of_nat k) a) as [E|E].
      - subst a. rewrite Nat2Z.id, Nat.eqb_refl, !zget_nth. reflexivity.
      - destruct (Nat.eqb_spec k (Z.to_nat a)); [lia|reflexivity]. }
    rewrite Hz. rewrite (Z.eqb_sym a (Z.of_nat k)).
    destruct (Z.eqb_spec (Z.of_nat k) a) as [E|E]; simpl.
    - destruct (memz (Z.of_nat k) (map snd ps)) eqn:Em.
      + rewrite Zplus_mod_idemp_l. f_equal. lia.
      + rewrite (total_shift_notin _ _ Em). f_equal. lia.
    - reflexivity.
  Qed.

  Definition roll_g (pairs : list (Z * Z)) (k i : Z) : Z := (i + total_shift pairs k) mod zget sh k 0.
  Definition roll_h (pairs : list (Z * Z)) (k i : Z) : Z := (i - total_shift pairs k) mod zget sh k 0.

  Lemma roll_idx_mapi pairs c :
    (forall p, In p pairs -> 0 <= snd p < Z.of_nat n) -> in_range sh c ->
    roll_idx sh pairs c = mapi (roll_g pairs) c.
  Proof.
    intros Hr Hc. pose proof (in_range_length _ _ Hc) as Hl. fold n in Hl.
    assert (Hr' : forall p, In p pairs -> 0 <= snd p < Z.of_nat (length c)) by (intros p Hp; rewrite Hl; auto).
    rewrite roll_idx_fold. apply (nth_ext _ _ 0 0).
    - rewrite mapi_length. apply roll_fold_length. assumption.
    - intros k Hk. rewrite roll_fold_length in Hk by assumption.
      rewrite roll_fold_nth by assumption.
      rewrite (mapi_nth (roll_g pairs) c k 0 0) by lia. unfold roll_g. rewrite zget_nth.
      destruct (memz (Z.of_nat k) (map snd pairs)) eqn:Em; [reflexivity|].
      rewrite (total_shift_notin _ _ Em), Z.add_0_r. symmetry. apply Z.mod_small.
      apply in_range_nth in Hc. apply Hc. fold n. lia.
  Qed.

  Lemma roll_bij pairs k i : (k < n)%nat -> 0 <= i < nth k sh 0 ->
    0 <= roll_g pairs (Z.of_nat k) i < nth k sh 0 /\ roll_h pairs (Z.of_nat k) (roll_g pairs (Z.of_nat k) i) = i.
  Proof.
    intros Hk Hi. unfold roll_g, roll_h. rewrite zget_nth. split; [apply Z.mod_pos_bound; lia|].
    rewrite Zminus_mod_idemp_l. replace (i + total_shift pairs (Z.of_nat k) - total_shift pairs (Z.of_nat k)) with i by lia.
    apply Z.mod_small. assumption.
  Qed.

  Lemma roll_bij' pairs k i : (k < n)%nat -> 0 <= i < nth k sh 0 ->
    0 <= roll_h pairs (Z.of_nat k) i < nth k sh 0 /\ roll_g pairs (Z.of_nat k) (roll_h pairs (Z.of_nat k) i) = i.
  Proof.
    intros Hk Hi. unfold roll_g, roll_h. rewrite zget_nth. split; [apply Z.mod_pos_bound; lia|].
    rewrite Zplus_mod_idemp_l. replace (i - total_shift pairs (Z.of_nat k) + total_shift pairs (Z.of_nat k)) with i by lia.
    apply Z.mod_small. assumption.
  Qed.

  Definition roll_shifts (shift : shiftarg) (k : nat) : list Z :=
    let sl := match shift with ShInt s => [s] | ShTup l => l end in
    if (length sl =? 1)%nat then repeat (hd 0 sl) k else sl.

  Theorem roll_axes_den_proof shift axis r :
    coo_roll_axes x shift axis = Ok r ->
    let ax := map (fun a => a mod Z.of_nat n) axis in
    let shifts := roll_shifts shift (length axis) in
    Forall (axis_ok (Z.of_nat n)) axis /\ length shifts = length axis /\
    c_shape r = sh /\ c_fill r = c_fill x /\
    canonical V r /\ (prunedb veqb x = true -> prunedb veqb r = true) /\
    forall ix, in_range sh ix -> den r ix = np_roll sh (combine shifts ax) (den x) ix.
  Proof.
    unfold coo_roll_axes. change (ndim x) with (Z.of_nat n).
    destruct (norm_axes (Z.of_nat n) axis) as [ax|e] eqn:E; simpl; [|discriminate].
    apply norm_axes_Ok in E; [|lia]. destruct E as [Hf ->].
    set (ax := map (fun a => a mod Z.of_nat n) axis).
    assert (Hlen : length ax = length axis) by (unfold ax; apply map_length).
    rewrite Hlen. fold (roll_shifts shift (length axis)).
    set (shifts := roll_shifts shift (length axis)).
    destruct (Nat.eqb_spec (length axis) (length shifts)) as [El|El]; simpl; [|discriminate].
    intros H; inversion H; subst r; clear H.
    assert (Hr : forall p, In p (combine shifts ax) -> 0 <= snd p < Z.of_nat n).
    { intros [s a] Hp. apply in_combine_r in Hp. simpl. apply in_map_iff in Hp. destruct Hp as [b [<- Hb]].
      apply mod_in_range. rewrite Forall_forall in Hf. auto. }
    destruct (pointwise_remap V veqb x Hx (roll_idx sh (combine shifts ax)) (roll_g (combine shifts ax)) (roll_h (combine shifts ax)))
      as [Hc [Hp Hd]].
    - intros c Hc. apply roll_idx_mapi; assumption.
    - intros k i. apply roll_bij.
    - intros k i. apply roll_bij'.
    - split; [assumption|]. split; [lia|]. split; [reflexivity|]. split; [reflexivity|]. split; [exact Hc|].
      split; [exact Hp|]. intros ix Hi. exact (Hd ix Hi).
  Qed.

  Theorem roll_axes_accepts_iff_proof shift axis :
    (exists r, coo_roll_axes x shift axis = Ok r) <->
    (Forall (axis_ok (Z.of_nat n)) axis /\ length (roll_shifts shift (length axis)) = length axis).
  Proof.
    unfold coo_roll_axes. change (ndim x) with (Z.of_nat n).
    destruct (norm_axes (Z.of_nat n) axis) as [ax|e] eqn:E; simpl.
    - apply norm_axes_Ok in E; [|lia]. destruct E as [Hf ->]. rewrite map_length.
      fold (roll_shifts shift (length axis)).
      destruct (Nat.eqb_spec (length axis) (length (roll_shifts shift (length axis)))) as [El|El]; simpl.
      + split; [intros _; split; [assumption|lia]|eauto].
      + split; [intros [r Hr]; discriminate|intros [_ H]; lia].
    - apply norm_axes_Raise in E; [|lia]. split; [intros [r Hr]; discriminate|tauto].
  Qed.
End Roll.

(* roll without axis: flatten, roll, restore the shape — as the code composes it *)
Lemma count_m1_ok sh : shape_ok sh -> count_m1 sh = O.
Proof.
  unfold count_m1. induction 1 as [|d sh Hd Hok IH]; simpl; [reflexivity|].
  destruct (Z.eqb_spec d (-1)); [lia|assumption].
Qed.

Lemma np_reshape_target_same_size sh t :
  shape_ok t -> size t = size sh -> np_reshape_target sh t = Ok t.
Proof.
  intros Hok Hs. unfold np_reshape_target.
  change (filter (fun d => negb (d =? -1)) t) with (filter not_m1 t).
  change (length (filter (fun d => d =? -1) t)) with (count_m1 t).
  rewrite (count_m1_ok _ Hok), (filter_not_m1_id _ (count_m1_ok _ Hok)).
  apply shape_ok_existsb in Hok. rewrite Hok, Hs, Z.eqb_refl. reflexivity.
Qed.

Section RollFlat.
  Variable V : Type.
  Variable veqb : V -> V -> bool.
  Variable x : coo V.
  Hypothesis Hx : canonical V x.
  Hypothesis Hsh : shape_ok (c_shape x).

  Theorem roll_flat_den_proof s r :
    coo_roll x (ShInt s) AxNone = Ok r ->
    c_shape r = c_shape x /\ c_fill r = c_fill x /\
    canonical V r /\ (prunedb veqb x = true -> prunedb veqb r = true) /\
    forall ix, in_range (c_shape x) ix -> den r ix = np_roll_flat (c_shape x) s (den x) ix.
  Proof.
    unfold coo_roll.
    destruct (coo_reshape x [-1]) as [f|e] eqn:Ef; simpl; [|discriminate].
    destruct (coo_roll_axes f (ShInt s) [0]) as [r2|e] eqn:E2; simpl; [|discriminate].
    intros E3.
    destruct (flatten_den_proof V x Hx Hsh f Ef) as [Hfs [Hff Hfd]].
    destruct (reshape_canonical_proof V veqb x Hx Hsh [-1] f Ef) as [Hcf Hpf].
    pose proof (roll_axes_den_proof V veqb f Hcf (ShInt s) [0] r2 E2) as H2.
    cbv zeta in H2. rewrite Hfs in H2. simpl in H2. rewrite Z.mod_1_r in H2.
    destruct H2 as [_ [_ [H2s [H2f [Hc2 [Hp2 H2d]]]]]].
    assert (Hok2 : shape_ok (c_shape r2)).
    { rewrite H2s. constructor; [apply size_nonneg; assumption|constructor]. }
    destruct (reshape_den_proof V r2 Hc2 Hok2 (c_shape x) r E3) as [Hokr [Hsr [Hfr [Htr Hdr]]]].
    destruct (reshape_canonical_proof V veqb r2 Hc2 Hok2 (c_shape x) r E3) as [Hcr Hpr].
    assert (Hshape : c_shape r = c_shape x).
    { rewrite np_reshape_target_same_size in Htr; [congruence|assumption|].
      rewrite H2s. simpl. lia. }
    split; [assumption|]. split; [congruence|]. split; [assumption|]. split; [auto|].
    intros ix Hi. rewrite Hdr by (rewrite Hshape; assumption).
    unfold np_reshape. rewrite Hshape, H2s. simpl. rewrite Z.div_1_r.
    pose proof (ravel_bounds _ _ Hi) as Hb.
    assert (Hm : 0 <= (ravel (c_shape x) ix - s) mod size (c_shape x) < size (c_shape x)) by (apply Z.mod_pos_bound; lia).
    rewrite H2d by (simpl; lia).
    unfold np_roll, mapi. simpl. unfold sget. simpl.
    rewrite Z.add_0_r.
    rewrite Hfd by assumption. reflexivity.
  Qed.
End RollFlat.

(* ================================================================== expand_dims *)

Lemma in_range_app s1 s2 c1 c2 :
  length s1 = length c1 -> (in_range (s1 ++ s2) (c1 ++ c2) <-> in_range s1 c1 /\ in_range s2 c2).
Proof.
  revert c1; induction s1 as [|d s1 IH]; intros [|i c1] Hl; simpl in *; try discriminate; [tauto|].
  rewrite IH by lia. tauto.
Qed.

Lemma in_range_firstn sh c k : in_range sh c -> in_range (firstn k sh) (firstn k c).
Proof.
  revert sh c; induction k as [|k IH]; intros [|d sh] [|i c]; simpl; try tauto.
  intros [Hi H]. split; [assumption|apply IH; assumption].
Qed.

Lemma in_range_skipn sh c k : in_range sh c -> in_range (skipn k sh) (skipn k c).
Proof.
  revert sh c; induction k as [|k IH]; intros [|d sh] [|i c]; simpl; try tauto.
  intros [Hi H]. apply IH; assumption.
Qed.

Lemma firstn_app_exact {A} (l1 l2 : list A) k : length l1 = k -> firstn k (l1 ++ l2) = l1.
Proof. intros <-. rewrite firstn_app, Nat.sub_diag, firstn_all. simpl. apply app_nil_r. Qed.

Lemma skipn_app_exact {A} (l1 l2 : list A) k : length l1 = k -> skipn k (l1 ++ l2) = l2.
Proof. intros <-. rewrite skipn_app, Nat.sub_diag, skipn_all. reflexivity. Qed.

Lemma skipn_S_tl {A} (l : list A) a : skipn (S a) l = tl (skipn a l).
Proof.
  revert l; induction a as [|a IH]; intros l; [destruct l; reflexivity|].
  destruct l as [|y l]; [reflexivity|]. change (skipn (S (S a)) (y :: l)) with (skipn (S a) l).
  change (skipn (S a) (y :: l)) with (skipn a l). apply IH.
Qed.

Section ExpandDims.
  Variable V : Type.
  Variable veqb : V -> V -> bool.
  Variable x : coo V.
  Hypothesis Hx : canonical V x.

  Let sh := c_shape x.
  Let n := length sh.

  Lemma expand_bij (a : nat) : (a <= n)%nat ->
    let f := fun c : idx => zinsert c (Z.of_nat a) 0 in
    let g := fun ix : idx => firstn a ix ++ skipn (S a) ix in
    let sh' := zinsert sh (Z.of_nat a) 1 in
    (forall c, in_range sh c -> in_range sh' (f c) /\ g (f c) = c) /\
    (forall ix, in_range sh' ix -> in_range sh (g ix) /\ f (g ix) = ix).
  Proof.
    intros Ha f g sh'. unfold f, g, sh', zinsert. rewrite !Nat2Z.id. split.
    - intros c Hc. pose proof (in_range_length _ _ Hc) as Hl. fold n in Hl. split.
      + apply in_range_app; [rewrite !firstn_length; lia|]. split; [apply in_range_firstn; assumption|].
        simpl. split; [lia|apply in_range_skipn; assumption].
      + rewrite firstn_app_exact by (rewrite firstn_length; lia).
        change (0 :: skipn a c) with ([0] ++ skipn a c). rewrite app_assoc.
        rewrite skipn_app_exact by (rewrite app_length, firstn_length; simpl; lia).
        apply firstn_skipn.
    - intros ix Hi. pose proof (in_range_length _ _ Hi) as Hl.
      rewrite app_length, firstn_length in Hl. simpl in Hl. rewrite skipn_length in Hl. fold n in Hl.
      rewrite <- (firstn_skipn a ix) in Hi.
      apply in_range_app in Hi; [|rewrite !firstn_length; fold n; lia]. destruct Hi as [H1 H2].
      destruct (skipn a ix) as [|j rest] eqn:Es; simpl in H2; [tauto|]. destruct H2 as [Hj H2].
      assert (j = 0) by lia. subst j.
      assert (Hs : skipn (S a) ix = rest).
      { rewrite skipn_S_tl, Es. reflexivity. }
      rewrite Hs. split.
      + rewrite <- (firstn_skipn a sh). apply in_range_app; [rewrite !firstn_length; fold n; lia|]. auto.
      + rewrite firstn_app_exact by (rewrite firstn_length; lia).
        rewrite skipn_app_exact by (rewrite firstn_length; lia).
        rewrite <- Es. apply firstn_skipn.
  Qed.

  Theorem expand_dims_den_proof axis r :
    coo_expand_dims x axis = Ok r ->
    let a := axis mod (Z.of_nat n + 1) in
    axis_ok (Z.of_nat n + 1) axis /\
    c_shape r = np_expand_dims_shape sh a /\ c_fill r = c_fill x /\
    canonical V r /\ (prunedb veqb x = true -> prunedb veqb r = true) /\
    forall ix, in_range (c_shape r) ix -> den r ix = np_expand_dims a (den x) ix.
  Proof.
    unfold coo_expand_dims. change (ndim x) with (Z.of_nat n).
    rewrite normalize_axis_spec_proof by lia.
    destruct (np_normalize_axis (Z.of_nat n + 1) axis) as [a|e] eqn:E; simpl; [|discriminate].
    apply np_normalize_axis_Ok in E. destruct E as [Hok ->].
    intros H; inversion H; subst r; clear H. cbv zeta.
    pose proof (mod_in_range _ _ Hok) as Hr.
    set (a := axis mod (Z.of_nat n + 1)) in *.
    assert (Han : (Z.to_nat a <= n)%nat) by lia.
    destruct (expand_bij (Z.to_nat a) Han) as [Hf Hg]. cbv zeta in Hf, Hg. rewrite Z2Nat.id in Hf, Hg by lia.
    assert (Hinj : forall c1 c2, in_range sh c1 -> in_range sh c2 -> zinsert c1 a 0 = zinsert c2 a 0 -> c1 = c2).
    { intros c1 c2 H1 H2 He. rewrite <- (proj2 (Hf c1 H1)), <- (proj2 (Hf c2 H2)), He. reflexivity. }
    split; [assumption|]. split; [reflexivity|]. split; [reflexivity|]. split; [|split].
    - apply remap_canonical; [assumption| |assumption|discriminate]. intros c Hc. apply Hf. assumption.
    - intros Hp. apply remap_pruned. assumption.
    - simpl. intros ix Hi. unfold np_expand_dims.
      apply (remap_den_inverse V x _ (fun c => zinsert c a 0) false Hx Hinj
               (fun ix => firstn (Z.to_nat a) ix ++ skipn (S (Z.to_nat a)) ix)).
      + exact Hi.
      + apply Hg. exact Hi.
      + apply Hg. exact Hi.
  Qed.

  Theorem expand_dims_accepts_iff_proof axis :
    (exists r, coo_expand_dims x axis = Ok r) <-> axis_ok (Z.of_nat n + 1) axis.
  Proof.
    unfold coo_expand_dims. change (ndim x) with (Z.of_nat n).
    rewrite normalize_axis_spec_proof by lia.
    destruct (np_normalize_axis (Z.of_nat n + 1) axis) as [a|e] eqn:E; simpl.
    - apply np_normalize_axis_Ok in E. split; [tauto|eauto].
    - split; [intros [r Hr]; discriminate|]. intros Hok.
      assert (np_normalize_axis (Z.of_nat n + 1) axis = Ok (axis mod (Z.of_nat n + 1))) by (apply np_normalize_axis_Ok; auto).
      congruence.
  Qed.
End ExpandDims.

(* ================================================================== squeeze *)

Fixpoint keep_at (keep : list bool) (c : idx) : idx :=
  match keep, c with
  | true :: ks, i :: r => i :: keep_at ks r
  | false :: ks, _ :: r => keep_at ks r
  | _, _ => []
  end.

Fixpoint unkeep (keep : list bool) (ix : idx) : idx :=
  match keep with
  | [] => []
  | true :: ks => match ix with i :: r => i :: unkeep ks r | [] => [] end
  | false :: ks => 0 :: unkeep ks ix
  end.

(* the dropped axes have extent 1 *)
Fixpoint mask_ok (keep : list bool) (sh : shape) : Prop :=
  match keep, sh with
  | [], [] => True
  | k :: ks, d :: ds => (k = false -> d = 1) /\ mask_ok ks ds
  | _, _ => False
  end.

Lemma keep_range keep sh c : mask_ok keep sh -> in_range sh c -> in_range (keep_at keep sh) (keep_at keep c).
Proof.
  revert sh c; induction keep as [|k ks IH]; intros [|d sh] [|i c]; simpl; try tauto;
    try (destruct k; simpl; tauto).
  intros [Hk Hm] [Hi Hc]. destruct k; simpl; [split; [assumption|]|]; apply IH; assumption.
Qed.

Lemma unkeep_keep keep sh c : mask_ok keep sh -> in_range sh c -> unkeep keep (keep_at keep c) = c.
Proof.
  revert sh c; induction keep as [|k ks IH]; intros [|d sh] [|i c]; simpl; try tauto;
    try (destruct k; simpl; tauto).
  intros [Hk Hm] [Hi Hc]. destruct k; simpl.
  - f_equal. eapply IH; eauto.
  - specialize (Hk eq_refl). f_equal; [lia|]. eapply IH; eauto.
Qed.

Lemma unkeep_range keep sh ix : mask_ok keep sh -> in_range (keep_at keep sh) ix -> in_range sh (unkeep keep ix).
Proof.
  revert sh ix; induction keep as [|k ks IH]; intros [|d sh] ix; simpl; try tauto;
    try (destruct k; simpl; tauto).
  intros [Hk Hm]. destruct k; simpl.
  - destruct ix as [|i r]; simpl; [tauto|]. intros [Hi Hr]. split; [assumption|]. apply IH; assumption.
  - intros Hr. specialize (Hk eq_refl). split; [lia|]. apply IH; assumption.
Qed.

Lemma keep_unkeep keep sh ix : mask_ok keep sh -> in_range (keep_at keep sh) ix -> keep_at keep (unkeep keep ix) = ix.
Proof.
  revert sh ix; induction keep as [|k ks IH]; intros [|d sh] ix; simpl; try tauto;
    try (destruct k; simpl; tauto); try (destruct ix; simpl; tauto).
  intros [Hk Hm]. destruct k; simpl.
  - destruct ix as [|i r]; simpl; [tauto|]. intros [Hi Hr]. f_equal. eapply IH; eauto.
  - intros Hr. eapply IH; eauto.
Qed.

Lemma keep_mono keep sh a b :
  mask_ok keep sh -> in_range sh a -> in_range sh b -> lex_lt a b -> lex_lt (keep_at keep a) (keep_at keep b).
Proof.
  revert sh a b; induction keep as [|k ks IH]; intros [|d sh] [|x a] [|y b]; simpl; try tauto.
  intros [Hk Hm] [Hx Ha] [Hy Hb] Hl. destruct k; simpl.
  - destruct Hl as [?|[-> Hl]]; [left; assumption|right; split; [reflexivity|]]. eapply IH; eauto.
  - specialize (Hk eq_refl). destruct Hl as [?|[_ Hl]]; [lia|]. eapply IH; eauto.
Qed.

Lemma mask_ok_nth keep sh :
  length keep = length sh ->
  (forall j, (j < length sh)%nat -> nth j keep true = false -> nth j sh 0 = 1) -> mask_ok keep sh.
Proof.
  revert sh; induction keep as [|k ks IH]; intros [|d sh] Hl H; simpl in *; try discriminate; [exact I|].
  split.
  - intros ->. apply (H O); [lia|reflexivity].
  - apply IH; [lia|]. intros j Hj. apply (H (S j)). lia.
Qed.

(* positional selection = structural selection *)
Lemma select_keep_gen (p : Z -> bool) (c pre : idx) :
  map (fun a => zget (pre ++ c) a 0) (filter p (map Z.of_nat (seq (length pre) (length c)))) =
  keep_at (map p (map Z.of_nat (seq (length pre) (length c)))) c.
Proof.
  revert pre; induction c as [|i c IH]; intros pre; simpl; [reflexivity|].
  assert (Hpre : (pre ++ i :: c) = (pre ++ [i]) ++ c) by (rewrite <- app_assoc; reflexivity).
  specialize (IH (pre ++ [i])). rewrite app_length in IH. simpl in IH.
  replace (length pre + 1)%nat with (S (length pre)) in IH by lia. rewrite <- Hpre in IH.
  destruct (p (Z.of_nat (length pre))) eqn:Ep; simpl.
  - f_equal; [|exact IH]. rewrite zget_nth. rewrite app_nth2 by lia. rewrite Nat.sub_diag. reflexivity.
  - exact IH.
Qed.

Lemma select_keep (p : Z -> bool) (c : idx) :
  select_axes (filter p (zrange (zlen c))) c 0 = keep_at (map p (zrange (zlen c))) c.
Proof.
  unfold select_axes, zlen. rewrite zrange_of_nat. exact (select_keep_gen p c []).
Qed.

Lemma insert_zeros_unkeep removed (k : nat) (m : nat) ix :
  insert_zeros removed (Z.of_nat k) m ix =
  unkeep (map (fun j => negb (smem j removed)) (map Z.of_nat (seq k m))) ix.
Proof.
  revert k ix; induction m as [|m IH]; intros k ix; simpl; [reflexivity|].
  replace (Z.of_nat k + 1) with (Z.of_nat (S k)) by lia.
  destruct (smem (Z.of_nat k) removed); simpl.
  - f_equal. exact (IH (S k) ix).
  - destruct ix as [|i r]; [reflexivity|]. f_equal. exact (IH (S k) r).
Qed.

Section Squeeze.
  Variable V : Type.
  Variable veqb : V -> V -> bool.
  Variable x : coo V.
  Hypothesis Hx : canonical V x.

  Let sh := c_shape x.
  Let n := length sh.

  Definition squeezable : list Z := filter (fun d => zget sh d 0 =? 1) (zrange (Z.of_nat n)).

  (* the axes after `d + ndim if -ndim <= d < 0 else d` *)
  Definition squeeze_axes (axis : axarg) : list Z :=
    map (fun d => if (- Z.of_nat n <=? d) && (d <? 0) then d + Z.of_nat n else d)
        (match axis with AxNone => squeezable | AxInt a => [a] | AxTup l => l end).

  Lemma squeezable_In d : In d squeezable <-> (0 <= d < Z.of_nat n /\ zget sh d 0 = 1).
  Proof. unfold squeezable. rewrite filter_In, zrange_In, Z.eqb_eq. tauto. Qed.

  Lemma squeeze_check_Ok (ax : list Z) :
    (exists u, mapM (fun d => if memz d squeezable then Ok tt
                              else if (- Z.of_nat n <=? d) && (d <? Z.of_nat n) then Raise ValueError
                              else Raise IndexError) ax = Ok u) <-> Forall (fun d => In d squeezable) ax.
  Proof.
    induction ax as [|d ax IH]; simpl.
    - split; [constructor|eauto].
    - destruct (memz d squeezable) eqn:Em; simpl.
      + apply memz_In in Em. destruct (mapM _ ax) as [u|e] eqn:E; simpl.
        * split; [intros _; constructor; [assumption|apply IH; eauto]|eauto].
        * split; [intros [u Hu]; discriminate|]. intros H; inversion H; subst.
          apply IH in H3. destruct H3; discriminate.
      + split.
        * intros [u Hu]. destruct ((- Z.of_nat n <=? d) && (d <? Z.of_nat n)); discriminate.
        * intros H; inversion H; subst. apply memz_In in H2. congruence.
  Qed.

  Theorem squeeze_den_proof axis r :
    coo_squeeze x axis = Ok r ->
    let ax := squeeze_axes axis in
    NoDup ax /\ Forall (fun d => In d squeezable) ax /\
    c_shape r = np_squeeze_shape sh ax /\ c_fill r = c_fill x /\
    canonical V r /\ (prunedb veqb x = true -> prunedb veqb r = true) /\
    forall ix, in_range (c_shape r) ix -> den r ix = np_squeeze sh ax (den x) ix.
  Proof.
    unfold coo_squeeze. change (ndim x) with (Z.of_nat n). fold sh. fold squeezable.
    change (map (fun d => if (- Z.of_nat n <=? d) && (d <? 0) then d + Z.of_nat n else d)
                (match axis with AxNone => squeezable | AxInt a => [a] | AxTup l => l end)) with (squeeze_axes axis).
    set (ax := squeeze_axes axis).
    destruct (has_dup ax) eqn:Edup; [discriminate|]. apply has_dup_NoDup in Edup.
    destruct (mapM _ ax) as [u|e] eqn:E; simpl; [|discriminate].
    assert (Hall : Forall (fun d => In d squeezable) ax) by (apply squeeze_check_Ok; eauto).
    intros H; inversion H; subst r; clear H.
    set (p := fun d => negb (memz d ax)).
    set (keep := map p (zrange (Z.of_nat n))).
    assert (Hmask : mask_ok keep sh).
    { apply mask_ok_nth.
      - unfold keep. rewrite map_length, zrange_length. fold n. lia.
      - intros j Hj. fold n in Hj. unfold keep.
        rewrite (nth_map_lt p (zrange (Z.of_nat n)) j 0 true) by (rewrite zrange_length; lia).
        rewrite zrange_nth by lia. unfold p. rewrite negb_false_iff. intros Hm. apply memz_In in Hm.
        rewrite Forall_forall in Hall. apply Hall in Hm. apply squeezable_In in Hm.
        destruct Hm as [_ Hm]. rewrite zget_nth in Hm. exact Hm. }
    assert (Hsel : forall c, length c = n -> select_axes (filter p (zrange (Z.of_nat n))) c 0 = keep_at keep c).
    { intros c Hc. unfold keep. rewrite <- Hc. apply (select_keep p c). }
    assert (Hshape : select_axes (filter p (zrange (Z.of_nat n))) sh 0 = keep_at keep sh) by (apply Hsel; reflexivity).
    assert (Hf : forall c, in_range sh c -> select_axes (filter p (zrange (Z.of_nat n))) c 0 = keep_at keep c).
    { intros c Hc. apply Hsel. apply in_range_length in Hc. exact Hc. }
    assert (Hinj : forall a b, in_range sh a -> in_range sh b ->
              select_axes (filter p (zrange (Z.of_nat n))) a 0 = select_axes (filter p (zrange (Z.of_nat n))) b 0 -> a = b).
    { intros a b Ha Hb He. rewrite (Hf a Ha), (Hf b Hb) in He.
      rewrite <- (unkeep_keep keep sh a Hmask Ha), <- (unkeep_keep keep sh b Hmask Hb), He. reflexivity. }
    split; [assumption|]. split; [assumption|]. split; [reflexivity|]. split; [reflexivity|].
    change (filter (fun d => negb (memz d ax)) (zrange (Z.of_nat n))) with (filter p (zrange (Z.of_nat n))).
    split; [|split].
    - apply remap_canonical; [assumption| |assumption|].
      + intros c Hc. rewrite (Hf c Hc), Hshape. apply keep_range; assumption.
      + intros _ a b Ha Hb Hl. rewrite (Hf a Ha), (Hf b Hb). eapply keep_mono; eauto.
    - intros Hp. apply remap_pruned. assumption.
    - simpl. intros ix Hi. unfold np_squeeze.
      assert (Hi' : in_range (keep_at keep sh) ix) by (rewrite <- Hshape; exact Hi).
      replace (insert_zeros ax 0 (length sh) ix) with (unkeep keep ix).
      + apply (remap_den_inverse V x _ _ true Hx Hinj (unkeep keep)).
        * exact Hi.
        * apply unkeep_range; assumption.
        * rewrite Hf by (apply unkeep_range; assumption). apply (keep_unkeep keep sh); assumption.
      + change 0 with (Z.of_nat 0). rewrite insert_zeros_unkeep. unfold keep. rewrite zrange_of_nat. reflexivity.
  Qed.

  (* accepted exactly when the normalised axes are distinct and all of length 1 (as NumPy, commit 71cae31) *)
  Theorem squeeze_accepts_iff_proof axis :
    (exists r, coo_squeeze x axis = Ok r) <->
    (NoDup (squeeze_axes axis) /\ Forall (fun d => In d squeezable) (squeeze_axes axis)).
  Proof.
    unfold coo_squeeze. change (ndim x) with (Z.of_nat n). fold sh. fold squeezable.
    change (map (fun d => if (- Z.of_nat n <=? d) && (d <? 0) then d + Z.of_nat n else d)
                (match axis with AxNone => squeezable | AxInt a => [a] | AxTup l => l end)) with (squeeze_axes axis).
    rewrite <- squeeze_check_Ok.
    destruct (has_dup (squeeze_axes axis)) eqn:Edup.
    - split; [intros [r Hr]; discriminate|]. intros [Hn _]. apply has_dup_NoDup in Hn. congruence.
    - apply has_dup_NoDup in Edup.
      destruct (mapM _ (squeeze_axes axis)) as [u|e]; simpl; split; eauto; try (intros [r Hr]; discriminate).
      intros [_ [u Hu]]. discriminate.
  Qed.
End Squeeze.

(* ================================================================== T, mT, swapaxes, moveaxis: corollaries of transpose *)

Lemma map_mod_id nd l : (forall a, In a l -> 0 <= a < nd) -> map (fun a => a mod nd) l = l.
Proof.
  induction l as [|a l IH]; simpl; intros H; [reflexivity|]. f_equal.
  - apply Z.mod_small. apply H. left; reflexivity.
  - apply IH. intros; apply H; right; assumption.
Qed.

Lemma zrange_snoc2 (m : nat) :
  zrange (Z.of_nat (m + 2)) = zrange (Z.of_nat m) ++ [Z.of_nat m; Z.of_nat m + 1].
Proof.
  rewrite !zrange_of_nat. rewrite seq_app, map_app. simpl. f_equal. f_equal. f_equal. lia.
Qed.

Lemma swap_last2_spec (m : nat) :
  swap_last2 (zrange (Z.of_nat (m + 2))) = swap_perm (Z.of_nat (m + 2)) (Z.of_nat (m + 2) - 2) (Z.of_nat (m + 2) - 1).
Proof.
  unfold swap_last2, swap_perm. rewrite zrange_snoc2. rewrite rev_app_distr. simpl.
  rewrite rev_involutive. rewrite map_app. simpl.
  replace (Z.of_nat (m + 2) - 2) with (Z.of_nat m) by lia.
  replace (Z.of_nat (m + 2) - 1) with (Z.of_nat m + 1) by lia.
  rewrite Z.eqb_refl.
  destruct (Z.eqb_spec (Z.of_nat m + 1) (Z.of_nat m)); [lia|]. rewrite Z.eqb_refl.
  rewrite <- app_assoc. simpl. f_equal.
  rewrite <- (map_id (zrange (Z.of_nat m))) at 1. apply map_ext_in. intros k Hk. apply zrange_In in Hk.
  destruct (Z.eqb_spec k (Z.of_nat m)); [lia|]. destruct (Z.eqb_spec k (Z.of_nat m + 1)); [lia|]. reflexivity.
Qed.

Lemma zset_length_Z {A} (l : list A) i v : 0 <= i -> length (zset l i v) = length l.
Proof. intros H. rewrite <- (Z2Nat.id i H). apply zset_length. Qed.

Lemma zset_nth_Z {A} (l : list A) i v k d : 0 <= i < Z.of_nat (length l) ->
  nth k (zset l i v) d = if Z.of_nat k =? i then v else nth k l d.
Proof.
  intros H. rewrite <- (Z2Nat.id i) at 1 by lia. rewrite zset_nth by lia.
  destruct (Nat.eqb_spec k (Z.to_nat i)); destruct (Z.eqb_spec (Z.of_nat k) i); try lia; reflexivity.
Qed.

Lemma swap_axes_list_spec (m : nat) a b :
  0 <= a < Z.of_nat m -> 0 <= b < Z.of_nat m -> swap_axes_list (Z.of_nat m) a b = swap_perm (Z.of_nat m) a b.
Proof.
  intros Ha Hb. unfold swap_axes_list, swap_perm.
  assert (Hl : length (zrange (Z.of_nat m)) = m) by (rewrite zrange_length; lia).
  assert (Hga : zget (zrange (Z.of_nat m)) a 0 = a).
  { rewrite <- (Z2Nat.id a) at 1 by lia. rewrite zget_nth, zrange_nth by lia. lia. }
  assert (Hgb : zget (zrange (Z.of_nat m)) b 0 = b).
  { rewrite <- (Z2Nat.id b) at 1 by lia. rewrite zget_nth, zrange_nth by lia. lia. }
  rewrite Hga, Hgb.
  assert (Hl1 : length (zset (zrange (Z.of_nat m)) a b) = m) by (rewrite zset_length_Z by lia; assumption).
  apply (nth_ext _ _ 0 0).
  - rewrite map_length, Hl, zset_length_Z by lia. assumption.
  - intros k Hk. rewrite zset_length_Z, Hl1 in Hk by lia.
    rewrite zset_nth_Z by lia. rewrite zset_nth_Z by lia.
    rewrite (nth_map_lt _ _ _ 0) by lia. rewrite zrange_nth by lia.
    destruct (Z.eqb_spec (Z.of_nat k) a); destruct (Z.eqb_spec (Z.of_nat k) b); try lia; reflexivity.
Qed.

Lemma zinsert_In {A} (l : list A) i v y : In y (zinsert l i v) <-> y = v \/ In y l.
Proof.
  unfold zinsert. rewrite in_app_iff. simpl.
  assert (Hl : In y l <-> In y (firstn (Z.to_nat i) l) \/ In y (skipn (Z.to_nat i) l))
    by (rewrite <- in_app_iff, firstn_skipn; tauto).
  rewrite Hl. intuition congruence.
Qed.

Lemma moveaxis_order_range nd src dst :
  (forall a, In a src -> 0 <= a < nd) -> forall a, In a (moveaxis_order nd src dst) -> 0 <= a < nd.
Proof.
  intros Hs. unfold moveaxis_order.
  assert (Hp : forall p, In p (sort_pairs (combine dst src)) -> 0 <= snd p < nd).
  { intros p Hp. assert (Hin : In p (combine dst src)).
    { revert Hp. clear. unfold sort_pairs. induction (combine dst src) as [|q l IH]; simpl; [tauto|].
      assert (Hi : forall q l p, In p (insert_pair q l) -> p = q \/ In p l).
      { clear. intros q l. induction l as [|h t IH]; simpl; intros p H; [destruct H; [left; congruence|tauto]|].
        destruct ((fst h <? fst q) || ((fst h =? fst q) && (snd h <? snd q))); simpl in H.
        - destruct H as [->|H]; [tauto|]. apply IH in H. tauto.
        - destruct H as [->|[->|H]]; tauto. }
      intros H. apply Hi in H. destruct H as [->|H]; [left; reflexivity|right; apply IH; assumption]. }
    destruct p as [d s]. apply in_combine_r in Hin. simpl. auto. }
  revert Hp. generalize (sort_pairs (combine dst src)) as ps.
  assert (H0 : forall a, In a (filter (fun k => negb (memz k src)) (zrange nd)) -> 0 <= a < nd).
  { intros a Ha. apply filter_In in Ha. destruct Ha as [Ha _]. apply zrange_In in Ha. assumption. }
  revert H0. generalize (filter (fun k => negb (memz k src)) (zrange nd)) as order.
  intros order H0 ps. revert order H0. induction ps as [|p ps IH]; intros order H0 Hp a; simpl; [apply H0|].
  apply IH.
  - intros y Hy. apply zinsert_In in Hy. destruct Hy as [->|Hy]; [apply Hp; left; reflexivity|apply H0; assumption].
  - intros q Hq. apply Hp. right. assumption.
Qed.

Section TransposeCorollaries.
  Variable V : Type.
  Variable veqb : V -> V -> bool.
  Variable x : coo V.
  Hypothesis Hx : canonical V x.

  Let sh := c_shape x.
  Let n := length sh.

  (* x.T : always defined; the axes reversed *)
  Theorem T_den_proof :
    exists r, coo_T x = Ok r /\
      let perm := rev (zrange (Z.of_nat n)) in
      c_shape r = np_transpose_shape sh perm /\ c_fill r = c_fill x /\
      canonical V r /\ (prunedb veqb x = true -> prunedb veqb r = true) /\
      forall ix, in_range (c_shape r) ix -> den r ix = np_transpose perm (den x) ix.
  Proof.
    unfold coo_T. change (ndim x) with (Z.of_nat n).
    assert (Hr : forall a, In a (rev (zrange (Z.of_nat n))) -> 0 <= a < Z.of_nat n).
    { intros a Ha. apply in_rev in Ha. apply zrange_In in Ha. assumption. }
    assert (Hperm : tr_perm (Z.of_nat n) (Some (rev (zrange (Z.of_nat n)))) = rev (zrange (Z.of_nat n))).
    { unfold tr_perm. apply map_mod_id. assumption. }
    assert (Hv : tr_valid (ndim x) (Some (rev (zrange (Z.of_nat n))))).
    { change (ndim x) with (Z.of_nat n). split.
      - apply Forall_forall. intros a Ha. apply Hr in Ha. unfold axis_ok. lia.
      - rewrite Hperm. apply is_perm_ok. destruct (perm_ok_id n) as [Hl [Hnd Hrg]]. repeat split.
        + rewrite rev_length. assumption.
        + apply NoDup_rev. assumption.
        + apply Hr in H. lia.
        + apply Hr in H. lia. }
    apply (transpose_accepts_iff_proof V x) in Hv. destruct Hv as [r Hr'].
    exists r. split; [assumption|].
    destruct (transpose_den_proof V x Hx _ r Hr') as [_ [Hs [Hf Hd]]].
    destruct (transpose_canonical_proof V veqb x Hx _ r Hr') as [Hc Hp].
    change (ndim x) with (Z.of_nat n) in Hs, Hd. rewrite Hperm in Hs, Hd. cbv zeta. auto.
  Qed.

  (* swapaxes *)
  Theorem swapaxes_den_proof a1 a2 r :
    coo_swapaxes x a1 a2 = Ok r ->
    let b1 := a1 mod Z.of_nat n in let b2 := a2 mod Z.of_nat n in
    let perm := swap_perm (Z.of_nat n) b1 b2 in
    axis_ok (Z.of_nat n) a1 /\ axis_ok (Z.of_nat n) a2 /\
    c_shape r = np_transpose_shape sh perm /\ c_fill r = c_fill x /\
    canonical V r /\ (prunedb veqb x = true -> prunedb veqb r = true) /\
    forall ix, in_range (c_shape r) ix -> den r ix = np_transpose perm (den x) ix.
  Proof.
    unfold coo_swapaxes. change (ndim x) with (Z.of_nat n).
    destruct (norm_axes (Z.of_nat n) [a1; a2]) as [l|e] eqn:E; simpl; [|discriminate].
    apply norm_axes_Ok in E; [|lia]. destruct E as [Hf ->]. simpl.
    inversion Hf as [|? ? H1 Hf']; subst. inversion Hf' as [|? ? H2 _]; subst.
    pose proof (mod_in_range _ _ H1) as Hb1. pose proof (mod_in_range _ _ H2) as Hb2.
    rewrite swap_axes_list_spec by assumption.
    set (perm := swap_perm (Z.of_nat n) (a1 mod Z.of_nat n) (a2 mod Z.of_nat n)).
    intros Hr'.
    assert (Hrange : forall a, In a perm -> 0 <= a < Z.of_nat n).
    { intros a Ha. unfold perm, swap_perm in Ha. apply in_map_iff in Ha. destruct Ha as [k [<- Hk]].
      apply zrange_In in Hk.
      destruct (k =? a1 mod Z.of_nat n); [assumption|]. destruct (k =? a2 mod Z.of_nat n); assumption. }
    assert (Hperm : tr_perm (Z.of_nat n) (Some perm) = perm) by (unfold tr_perm; apply map_mod_id; assumption).
    destruct (transpose_den_proof V x Hx _ r Hr') as [_ [Hs [Hfl Hd]]].
    destruct (transpose_canonical_proof V veqb x Hx _ r Hr') as [Hc Hp].
    change (ndim x) with (Z.of_nat n) in Hs, Hd. rewrite Hperm in Hs, Hd. cbv zeta. auto 10.
  Qed.

  (* moveaxis: the transposition by the axis order NumPy's own moveaxis computes *)
  Theorem moveaxis_den_proof source destination r :
    coo_moveaxis x source destination = Ok r ->
    let src := map (fun a => a mod Z.of_nat n) (ax_list source) in
    let dst := map (fun a => a mod Z.of_nat n) (ax_list destination) in
    let perm := moveaxis_order (Z.of_nat n) src dst in
    Forall (axis_ok (Z.of_nat n)) (ax_list source) /\ Forall (axis_ok (Z.of_nat n)) (ax_list destination) /\
    length src = length dst /\ NoDup dst /\ is_perm (Z.of_nat n) perm = true /\
    c_shape r = np_transpose_shape sh perm /\ c_fill r = c_fill x /\
    canonical V r /\ (prunedb veqb x = true -> prunedb veqb r = true) /\
    forall ix, in_range (c_shape r) ix -> den r ix = np_transpose perm (den x) ix.
  Proof.
    unfold coo_moveaxis. change (ndim x) with (Z.of_nat n).
    destruct (norm_axes (Z.of_nat n) (ax_list source)) as [src|e] eqn:Es; simpl; [|discriminate].
    destruct (norm_axes (Z.of_nat n) (ax_list destination)) as [dst|e] eqn:Ed; simpl; [|discriminate].
    apply norm_axes_Ok in Es; [|lia]. apply norm_axes_Ok in Ed; [|lia].
    destruct Es as [Hfs ->], Ed as [Hfd ->].
    set (src := map (fun a => a mod Z.of_nat n) (ax_list source)).
    set (dst := map (fun a => a mod Z.of_nat n) (ax_list destination)).
    destruct (has_dup dst) eqn:Edd; [discriminate|]. apply has_dup_NoDup in Edd.
    destruct (Nat.eqb_spec (length src) (length dst)) as [El|El]; simpl; [|discriminate].
    set (perm := moveaxis_order (Z.of_nat n) src dst). intros Hr'.
    assert (Hrange : forall a, In a perm -> 0 <= a < Z.of_nat n).
    { apply moveaxis_order_range. intros a Ha. unfold src in Ha. apply in_map_iff in Ha.
      destruct Ha as [b [<- Hb]]. apply mod_in_range. rewrite Forall_forall in Hfs. auto. }
    assert (Hperm : tr_perm (Z.of_nat n) (Some perm) = perm) by (unfold tr_perm; apply map_mod_id; assumption).
    destruct (transpose_den_proof V x Hx _ r Hr') as [[_ Hv] [Hs [Hfl Hd]]].
    destruct (transpose_canonical_proof V veqb x Hx _ r Hr') as [Hc Hp].
    change (ndim x) with (Z.of_nat n) in Hs, Hd, Hv. rewrite Hperm in Hs, Hd, Hv. cbv zeta. auto 14.
  Qed.
  (* repeated destination axes are rejected, as NumPy does (commit 1529999); every rejection is a ValueError *)
  Theorem moveaxis_rejects_proof source destination :
    (Forall (axis_ok (Z.of_nat n)) (ax_list destination) ->
     Forall (axis_ok (Z.of_nat n)) (ax_list source) ->
     ~ NoDup (map (fun a => a mod Z.of_nat n) (ax_list destination)) ->
     coo_moveaxis x source destination = Raise ValueError) /\
    (forall e, coo_moveaxis x source destination = Raise e -> e = ValueError).
  Proof.
    unfold coo_moveaxis. change (ndim x) with (Z.of_nat n). split.
    - intros Hfd Hfs Hn.
      assert (Es : norm_axes (Z.of_nat n) (ax_list source) = Ok (map (fun a => a mod Z.of_nat n) (ax_list source)))
        by (apply norm_axes_Ok; [lia|auto]).
      assert (Ed : norm_axes (Z.of_nat n) (ax_list destination) = Ok (map (fun a => a mod Z.of_nat n) (ax_list destination)))
        by (apply norm_axes_Ok; [lia|auto]).
      rewrite Es, Ed. simpl.
      destruct (has_dup (map (fun a => a mod Z.of_nat n) (ax_list destination))) eqn:E; [reflexivity|].
      apply has_dup_NoDup in E. tauto.
    - intros e.
      destruct (norm_axes (Z.of_nat n) (ax_list source)) as [src|e1] eqn:Es; simpl.
      2:{ apply norm_axes_Raise in Es; [|lia]. destruct Es as [-> _]. intros H; inversion H; reflexivity. }
      destruct (norm_axes (Z.of_nat n) (ax_list destination)) as [dst|e1] eqn:Ed; simpl.
      2:{ apply norm_axes_Raise in Ed; [|lia]. destruct Ed as [-> _]. intros H; inversion H; reflexivity. }
      destruct (has_dup dst); [intros H; inversion H; reflexivity|].
      destruct (negb (length src =? length dst)%nat); [intros H; inversion H; reflexivity|].
      intros H. apply (transpose_rejects_proof V x) in H. tauto.
  Qed.
End TransposeCorollaries.

(* x.mT: defined for ndim >= 2; swaps the last two axes *)
Theorem mT_den_proof (V : Type) (veqb : V -> V -> bool) (x : coo V) :
  canonical V x ->
  let n := length (c_shape x) in
  ((n < 2)%nat -> coo_mT x = Raise ValueError) /\
  ((2 <= n)%nat -> exists r, coo_mT x = Ok r /\
      let perm := swap_perm (Z.of_nat n) (Z.of_nat n - 2) (Z.of_nat n - 1) in
      c_shape r = np_transpose_shape (c_shape x) perm /\ c_fill r = c_fill x /\
      canonical V r /\ (prunedb veqb x = true -> prunedb veqb r = true) /\
      forall ix, in_range (c_shape r) ix -> den r ix = np_transpose perm (den x) ix).
Proof.
  intros Hx n. unfold coo_mT. change (ndim x) with (Z.of_nat n). split.
  - intros Hn. destruct (Z.ltb_spec (Z.of_nat n) 2); [reflexivity|lia].
  - intros Hn. destruct (Z.ltb_spec (Z.of_nat n) 2); [lia|].
    destruct (Nat.le_exists_sub 2 n Hn) as [m [Hm _]]. rewrite Nat.add_comm in Hm.
    assert (Hz : Z.of_nat n = Z.of_nat (m + 2)) by lia.
    rewrite Hz. rewrite swap_last2_spec. rewrite <- Hz.
    set (perm := swap_perm (Z.of_nat n) (Z.of_nat n - 2) (Z.of_nat n - 1)).
    assert (Hrange : forall a, In a perm -> 0 <= a < Z.of_nat n).
    { intros a Ha. unfold perm, swap_perm in Ha. apply in_map_iff in Ha. destruct Ha as [k [<- Hk]].
      apply zrange_In in Hk.
      destruct (k =? Z.of_nat n - 2); [lia|]. destruct (k =? Z.of_nat n - 1); lia. }
    assert (Hperm : tr_perm (Z.of_nat n) (Some perm) = perm) by (unfold tr_perm; apply map_mod_id; assumption).
    assert (Hv : tr_valid (ndim x) (Some perm)).
    { change (ndim x) with (Z.of_nat n). split.
      - apply Forall_forall. intros a Ha. apply Hrange in Ha. unfold axis_ok. lia.
      - rewrite Hperm. apply is_perm_ok. unfold perm_ok, perm, swap_perm. repeat split.
        + rewrite map_length, zrange_length. lia.
        + apply NoDup_map_inj_on; [destruct (perm_ok_id n) as [_ [Hnd _]]; exact Hnd|].
          intros a b Ha Hb. apply zrange_In in Ha. apply zrange_In in Hb.
          destruct (Z.eqb_spec a (Z.of_nat n - 2)); destruct (Z.eqb_spec a (Z.of_nat n - 1));
          destruct (Z.eqb_spec b (Z.of_nat n - 2)); destruct (Z.eqb_spec b (Z.of_nat n - 1)); lia.
        + apply Hrange in H0. lia.
        + apply Hrange in H0. lia. }
    apply (transpose_accepts_iff_proof V x) in Hv. destruct Hv as [r Hr'].
    exists r. split; [assumption|].
    destruct (transpose_den_proof V x Hx _ r Hr') as [_ [Hs [Hf Hd]]].
    destruct (transpose_canonical_proof V veqb x Hx _ r Hr') as [Hc Hp].
    change (ndim x) with (Z.of_nat n) in Hs, Hd. rewrite Hperm in Hs, Hd. cbv zeta. auto.
Qed.

(* ================================================================== pad (constant) *)

Fixpoint add_off (c : idx) (prs : list (Z * Z)) : idx :=
  match c, prs with i :: c', p :: ps => (i + fst p) :: add_off c' ps | _, _ => [] end.
Fixpoint sub_off (ix : idx) (prs : list (Z * Z)) : idx :=
  match ix, prs with i :: r, p :: ps => (i - fst p) :: sub_off r ps | _, _ => [] end.
Fixpoint pad_sh (sh : shape) (prs : list (Z * Z)) : shape :=
  match sh, prs with d :: sh', p :: ps => (d + fst p + snd p) :: pad_sh sh' ps | _, _ => [] end.

Lemma add_off_eq c prs : map (fun cb => s_pad_coord (fst cb) (snd cb)) (combine c (map fst prs)) = add_off c prs.
Proof. unfold s_pad_coord. revert prs; induction c as [|i c IH]; intros [|p ps]; simpl; try reflexivity. f_equal. apply IH. Qed.

Lemma sub_off_eq ix prs : map (fun ib => fst ib - fst (snd ib)) (combine ix prs) = sub_off ix prs.
Proof. revert prs; induction ix as [|i c IH]; intros [|p ps]; simpl; try reflexivity. f_equal. apply IH. Qed.

Lemma pad_sh_eq sh prs : map (fun dp => fst dp + fst (snd dp) + snd (snd dp)) (combine sh prs) = pad_sh sh prs.
Proof. revert prs; induction sh as [|d sh IH]; intros [|p ps]; simpl; try reflexivity. f_equal. apply IH. Qed.

Lemma pad_sh_eq_gen sh prs :
  map (fun dp => s_pad_extent (fst dp) (fst (snd dp)) (snd (snd dp))) (combine sh prs) = pad_sh sh prs.
Proof. unfold s_pad_extent. apply pad_sh_eq. Qed.

Definition pads_nonneg (prs : list (Z * Z)) : Prop := Forall (fun p => 0 <= fst p /\ 0 <= snd p) prs.

Lemma add_off_range sh c prs : length prs = length sh -> pads_nonneg prs ->
  in_range sh c -> in_range (pad_sh sh prs) (add_off c prs).
Proof.
  revert c prs; induction sh as [|d sh IH]; intros c prs Hl Hn Hc; destruct c as [|i c], prs as [|p ps];
    simpl in *; try tauto; try discriminate.
  destruct Hc as [Hi Hc]. inversion Hn as [|? ? [Hp1 Hp2] Hn']; subst. split; [lia|]. apply IH; [lia|assumption|assumption].
Qed.

Lemma sub_add_off c prs : length c = length prs -> sub_off (add_off c prs) prs = c.
Proof.
  revert prs; induction c as [|i c IH]; intros [|p ps]; simpl; try discriminate; [reflexivity|].
  intros Hl. f_equal; [lia|]. apply IH. lia.
Qed.

Lemma add_sub_off ix prs : length ix = length prs -> add_off (sub_off ix prs) prs = ix.
Proof.
  revert prs; induction ix as [|i c IH]; intros [|p ps]; simpl; try discriminate; [reflexivity|].
  intros Hl. f_equal; [lia|]. apply IH. lia.
Qed.

Lemma pad_sh_ok sh prs : length prs = length sh -> pads_nonneg prs -> shape_ok sh -> shape_ok (pad_sh sh prs).
Proof.
  revert prs; induction sh as [|d sh IH]; intros prs Hl Hn Hok; destruct prs as [|p ps]; simpl in *;
    try discriminate; try constructor.
  - inversion Hn as [|? ? [Hp1 Hp2] Hn']; subst. inversion Hok; subst. lia.
  - inversion Hn as [|? ? [Hp1 Hp2] Hn']; subst. inversion Hok; subst. apply IH; [lia|assumption|assumption].
Qed.

Lemma pad_sh_length sh prs : length prs = length sh -> length (pad_sh sh prs) = length sh.
Proof. revert prs; induction sh as [|d sh IH]; intros [|p ps]; simpl; try discriminate; auto. Qed.

Lemma repeat_Forall {A} (P : A -> Prop) a k : P a -> Forall P (repeat a k).
Proof. intros H. induction k; simpl; constructor; auto. Qed.

Lemma pad_pairs_length k pw prs : pad_pairs k pw = Ok prs -> length prs = k.
Proof.
  destruct pw as [p|l|rows]; simpl.
  - intros H; inversion H. apply repeat_length.
  - destruct (pad_row l) as [pr|e]; simpl; [|discriminate]. intros H; inversion H. apply repeat_length.
  - destruct rows as [|r0 rows]; [discriminate|].
    destruct (negb _); [discriminate|].
    destruct (mapM pad_row (r0 :: rows)) as [prs'|e]; simpl; [|discriminate].
    destruct prs' as [|p1 [|p2 ps]].
    + destruct (Nat.eqb_spec (length (@nil (Z * Z))) k) as [E|E]; [|discriminate]. intros H; inversion H; subst. reflexivity.
    + intros H; inversion H. apply repeat_length.
    + destruct (Nat.eqb_spec (length (p1 :: p2 :: ps)) k) as [E|E]; [|discriminate]. intros H; inversion H; subst. reflexivity.
Qed.

Lemma pad_row_nonneg r pr : pad_row r = Ok pr -> existsb (fun p => p <? 0) r = false -> 0 <= fst pr /\ 0 <= snd pr.
Proof.
  destruct r as [|p [|a [|? ?]]]; simpl; try discriminate; intros H; inversion H; subst; simpl;
    repeat rewrite orb_false_iff; rewrite ?Z.ltb_ge; intuition lia.
Qed.

Lemma pad_pairs_nonneg k pw prs : pad_pairs k pw = Ok prs -> padw_neg pw = false -> pads_nonneg prs.
Proof.
  unfold pads_nonneg. destruct pw as [p|l|rows]; simpl.
  - intros H Hn; inversion H; subst. apply repeat_Forall. apply Z.ltb_ge in Hn. simpl. lia.
  - destruct (pad_row l) as [pr|e] eqn:E; simpl; [|discriminate]. intros H Hn; inversion H; subst.
    apply repeat_Forall. eapply pad_row_nonneg; eauto.
  - destruct rows as [|r0 rows]; [discriminate|].
    destruct (negb _); [discriminate|].
    destruct (mapM pad_row (r0 :: rows)) as [prs'|e] eqn:E; simpl; [|discriminate].
    intros H Hn.
    assert (Hgen : forall rs prs0, mapM pad_row rs = Ok prs0 -> existsb (existsb (fun p => p <? 0)) rs = false ->
                     Forall (fun p : Z * Z => 0 <= fst p /\ 0 <= snd p) prs0).
    { clear. induction rs as [|r rs IH]; intros prs0 Hm Hn; simpl in Hm.
      - inversion Hm. constructor.
      - destruct (pad_row r) as [pr|e] eqn:Er; simpl in Hm; [|discriminate].
        destruct (mapM pad_row rs) as [ps|e] eqn:Em; simpl in Hm; [|discriminate]. inversion Hm; subst.
        simpl in Hn. apply orb_false_iff in Hn. destruct Hn as [H1 H2].
        constructor; [eapply pad_row_nonneg; eauto|apply IH; auto]. }
    pose proof (Hgen _ _ E Hn) as Hall.
    destruct prs' as [|p1 [|p2 ps]].
    + destruct (Nat.eqb_spec (length (@nil (Z * Z))) k); [|discriminate]. inversion H; subst. constructor.
    + inversion H; subst. apply repeat_Forall. inversion Hall; assumption.
    + destruct (Nat.eqb_spec (length (p1 :: p2 :: ps)) k); [|discriminate]. inversion H; subst. exact Hall.
Qed.

Section Pad.
  Variable V : Type.
  Variable veqb : V -> V -> bool.
  Hypothesis veqb_eq : forall a b, veqb a b = true <-> a = b.
  Variable x : coo V.
  Hypothesis Hx : canonical V x.
  Hypothesis Hsh : shape_ok (c_shape x).

  Let sh := c_shape x.

  Theorem pad_den_proof pw cv prs :
    veqb cv (c_fill x) = true -> padw_neg pw = false -> pad_pairs (length sh) pw = Ok prs ->
    exists r, coo_pad veqb x pw cv = Ok r /\
      c_shape r = np_pad_shape sh prs /\ c_fill r = c_fill x /\
      canonical V r /\ (prunedb veqb x = true -> prunedb veqb r = true) /\
      forall ix, in_range (c_shape r) ix -> den r ix = np_pad sh prs cv (den x) ix.
  Proof.
    intros Hcv Hneg Hpw. pose proof (pad_pairs_nonneg _ _ _ Hpw Hneg) as Hnn. pose proof (pad_pairs_length _ _ _ Hpw) as Hlen.
    unfold coo_pad. rewrite Hcv. simpl. rewrite Hneg. fold sh. rewrite Hpw. simpl.
    unfold coo_make_checked. rewrite pad_sh_eq_gen.
    assert (Hok' : existsb (fun d => d <? 0) (pad_sh sh prs) = false).
    { apply shape_ok_existsb. apply pad_sh_ok; assumption. }
    rewrite Hok'.
    set (f := fun c : idx => map (fun cb => s_pad_coord (fst cb) (snd cb)) (combine c (map fst prs))).
    assert (Hf : forall c, f c = add_off c prs) by (intros c; apply add_off_eq).
    assert (Hrange : forall c, in_range sh c -> in_range (pad_sh sh prs) (f c)).
    { intros c Hc. rewrite Hf. apply add_off_range; assumption. }
    assert (Hall : forallb (fun e => in_rangeb (pad_sh sh prs) (fst e)) (map_coords f x) = true).
    { apply forallb_forall. intros [k v] Hin. simpl. apply map_coords_In in Hin. destruct Hin as [c [-> Hc]].
      apply in_rangeb_spec. apply Hrange. destruct Hx as [Hr _]. rewrite Forall_forall in Hr. apply Hr.
      eapply in_entries_coord; eauto. }
    rewrite Hall. simpl. eexists. split; [reflexivity|].
    assert (Hinj : forall a b, in_range sh a -> in_range sh b -> f a = f b -> a = b).
    { intros a b Ha Hb He. rewrite !Hf in He.
      rewrite <- (sub_add_off a prs), <- (sub_add_off b prs), He; [reflexivity| |];
        rewrite Hlen; apply in_range_length; assumption. }
    split; [unfold np_pad_shape; rewrite pad_sh_eq; reflexivity|]. split; [reflexivity|].
    split; [apply remap_canonical; [assumption|assumption|assumption|discriminate]|].
    split; [intros Hp; apply remap_pruned; assumption|].
    simpl. intros ix Hi. unfold np_pad. rewrite sub_off_eq.
    pose proof (in_range_length _ _ Hi) as Hli. rewrite pad_sh_length in Hli by assumption.
    destruct (in_rangeb sh (sub_off ix prs)) eqn:Er.
    - apply in_rangeb_spec in Er.
      apply (remap_den_inverse V x _ f false Hx Hinj (fun ix => sub_off ix prs)); [assumption|assumption|].
      rewrite Hf. apply add_sub_off. lia.
    - apply veqb_eq in Hcv. rewrite Hcv.
      apply (remap_den_outside V x _ f false Hx Hinj).
      intros c Hc He. rewrite Hf in He. subst ix.
      rewrite sub_add_off in Er by (rewrite Hlen; apply in_range_length; assumption).
      apply in_rangeb_spec in Hc. unfold sh in *. congruence.
  Qed.

  (* a constant other than the fill value, a negative width (as NumPy, commit d798d44) or a pad_width that does not
     broadcast to (ndim, 2) is rejected *)
  Theorem pad_rejects_proof pw cv :
    (veqb cv (c_fill x) = false -> coo_pad veqb x pw cv = Raise ValueError) /\
    (veqb cv (c_fill x) = true -> padw_neg pw = true -> coo_pad veqb x pw cv = Raise ValueError) /\
    (forall e, veqb cv (c_fill x) = true -> padw_neg pw = false -> pad_pairs (length sh) pw = Raise e ->
               coo_pad veqb x pw cv = Raise e).
  Proof.
    unfold coo_pad. split; [|split].
    - intros ->. reflexivity.
    - intros -> ->. reflexivity.
    - intros e -> -> H. simpl. fold sh. rewrite H. reflexivity.
  Qed.
End Pad.

(* ================================================================== witnesses and non-vacuity examples *)

Definition ex_x : coo Z := mkCOO [2; 3] [[0; 1]; [1; 0]; [1; 2]] [4; 5; 6] 0.
Definition ex_y : coo Z := mkCOO [2; 1; 3] [[0; 0; 1]; [1; 0; 0]; [1; 0; 2]] [4; 5; 6] 9.

Lemma canonical_of_b {V} (c : coo V) : canonicalb c = true -> canonical V c.
Proof. intros H. apply canonicalb_spec. exact H. Qed.

Example ex_x_canonical : canonical Z ex_x /\ shape_ok (c_shape ex_x) /\ prunedb Z.eqb ex_x = true.
Proof. split; [apply canonical_of_b; reflexivity|]. split; [repeat constructor; lia|reflexivity]. Qed.
Example ex_y_canonical : canonical Z ex_y /\ shape_ok (c_shape ex_y) /\ prunedb Z.eqb ex_y = true.
Proof. split; [apply canonical_of_b; reflexivity|]. split; [repeat constructor; lia|reflexivity]. Qed.

(* the hypotheses of every theorem are met by a non-trivial array, and the models compute *)
Example transpose_nonvacuous :
  coo_transpose ex_x (Some [-1; 0]) = Ok (mkCOO [3; 2] [[0; 1]; [1; 0]; [2; 1]] [5; 4; 6] 0).
Proof. vm_compute. reflexivity. Qed.
Example T_mT_nonvacuous :
  coo_T ex_y = Ok (mkCOO [3; 1; 2] [[0; 0; 1]; [1; 0; 0]; [2; 0; 1]] [5; 4; 6] 9) /\
  coo_mT ex_y = Ok (mkCOO [2; 3; 1] [[0; 1; 0]; [1; 0; 0]; [1; 2; 0]] [4; 5; 6] 9).
Proof. split; vm_compute; reflexivity. Qed.
Example swapaxes_moveaxis_nonvacuous :
  coo_swapaxes ex_y 0 (-1) = Ok (mkCOO [3; 1; 2] [[0; 0; 1]; [1; 0; 0]; [2; 0; 1]] [5; 4; 6] 9) /\
  coo_moveaxis ex_y (AxInt 0) (AxInt (-1)) = Ok (mkCOO [1; 3; 2] [[0; 0; 1]; [0; 1; 0]; [0; 2; 1]] [5; 4; 6] 9).
Proof. split; vm_compute; reflexivity. Qed.
Example reshape_nonvacuous :
  coo_reshape ex_x [3; -1] = Ok (mkCOO [3; 2] [[0; 1]; [1; 1]; [2; 1]] [4; 5; 6] 0) /\
  coo_flatten ex_x = Ok (mkCOO [6] [[1]; [3]; [5]] [4; 5; 6] 0) /\
  np_reshape_target [2; 3] [3; -1] = Ok [3; 2].
Proof. repeat split; vm_compute; reflexivity. Qed.
Example flip_roll_nonvacuous :
  coo_flip ex_x (AxTup [-1]) = Ok (mkCOO [2; 3] [[0; 1]; [1; 0]; [1; 2]] [4; 6; 5] 0) /\
  coo_roll ex_x (ShInt (-4)) (AxInt 1) = Ok (mkCOO [2; 3] [[0; 0]; [1; 1]; [1; 2]] [4; 6; 5] 0) /\
  coo_roll ex_x (ShInt 7) AxNone = Ok (mkCOO [2; 3] [[0; 0]; [0; 2]; [1; 1]] [6; 4; 5] 0) /\
  coo_roll ex_x (ShTup [1; 5]) (AxTup [0; -1]) = Ok (mkCOO [2; 3] [[0; 1]; [0; 2]; [1; 0]] [6; 5; 4] 0).
Proof. repeat split; vm_compute; reflexivity. Qed.
Example squeeze_expand_nonvacuous :
  coo_squeeze ex_y (AxInt 1) = Ok (mkCOO [2; 3] [[0; 1]; [1; 0]; [1; 2]] [4; 5; 6] 9) /\
  coo_squeeze ex_y AxNone = Ok (mkCOO [2; 3] [[0; 1]; [1; 0]; [1; 2]] [4; 5; 6] 9) /\
  coo_expand_dims ex_x (-1) = Ok (mkCOO [2; 3; 1] [[0; 1; 0]; [1; 0; 0]; [1; 2; 0]] [4; 5; 6] 0).
Proof. repeat split; vm_compute; reflexivity. Qed.
Example pad_nonvacuous :
  coo_pad Z.eqb ex_y (PW2 [[1; 0]; [0; 2]; [1; 1]]) 9 =
    Ok (mkCOO [3; 3; 5] [[1; 0; 2]; [2; 0; 1]; [2; 0; 3]] [4; 5; 6] 9) /\
  pad_pairs 3 (PW2 [[1; 0]; [0; 2]; [1; 1]]) = Ok [(1, 0); (0, 2); (1, 1)].
Proof. split; vm_compute; reflexivity. Qed.

(* --- inputs of the findings repaired in round 7: now ordinary cases, the model answers as NumPy does *)
Example repaired_inputs :
  coo_reshape (mkCOO [1] [[0]] [5] 0) [-1; -1] = Raise ValueError /\
  coo_squeeze (mkCOO [2; 1] [[1; 0]] [7] 0) (AxInt (-1)) = Ok (mkCOO [2] [[1]] [7] 0) /\
  coo_squeeze (mkCOO [2; 1] [[1; 0]] [7] 0) (AxTup [1; 1]) = Raise ValueError /\
  coo_squeeze (mkCOO [2; 1] [[1; 0]] [7] 0) (AxTup [1; -1]) = Raise ValueError /\
  coo_flip ex_x (AxTup [0; -2]) = Raise ValueError /\
  coo_flip ex_x (AxInt 2) = Raise ValueError /\
  coo_moveaxis ex_y (AxTup [0; 2]) (AxTup [1; 1]) = Raise ValueError /\
  coo_pad Z.eqb (mkCOO [2; 3] [[0; 1]; [1; 0]] [4; 5] 0) (PW2 [[0; 0]; [0; -1]]) 0 = Raise ValueError /\
  coo_broadcast_to ex_x [3] = Raise ValueError.
Proof. repeat split; vm_compute; reflexivity. Qed.

(* --- the one full statement still FALSE of the code (documented restriction of sparse.roll) *)

(* roll: NumPy broadcasts a tuple of shifts against a single axis (the shifts add up); the code
   demands equal lengths *)
Theorem roll_tuple_shift_single_axis_refuted_proof :
  exists (x : coo Z), canonical Z x /\ coo_roll_axes x (ShTup [1; 2]) [0] = Raise ValueError.
Proof. exists ex_x. split; [apply canonical_of_b; reflexivity|vm_compute; reflexivity]. Qed.

(* ================================================================== broadcast_to *)

(* params / input shape / result shape, axis by axis *)
Inductive aligned : list (option bool) -> shape -> shape -> Prop :=
| al_nil : aligned [] [] []
| al_none ps sh bs d : aligned ps sh bs -> aligned (None :: ps) sh (d :: bs)
| al_true ps sh bs d : aligned ps sh bs -> aligned (Some true :: ps) (d :: sh) (d :: bs)
| al_false ps sh bs d : aligned ps sh bs -> aligned (Some false :: ps) (1 :: sh) (d :: bs).

(* result index -> input index / free components *)
Fixpoint gproj (params : list (option bool)) (ix : idx) : idx :=
  match params, ix with
  | None :: ps, _ :: r => gproj ps r
  | Some true :: ps, i :: r => i :: gproj ps r
  | Some false :: ps, _ :: r => 0 :: gproj ps r
  | _, _ => []
  end.

Fixpoint gfree (params : list (option bool)) (ix : idx) : idx :=
  match params, ix with
  | Some true :: ps, _ :: r => gfree ps r
  | _ :: ps, i :: r => i :: gfree ps r
  | _, _ => []
  end.

Lemma weave_bij params sh bs : aligned params sh bs ->
  (forall c f, in_range sh c -> in_range (gfree params bs) f ->
     in_range bs (weave params c f) /\ gproj params (weave params c f) = c /\ gfree params (weave params c f) = f) /\
  (forall ix, in_range bs ix ->
     in_range sh (gproj params ix) /\ in_range (gfree params bs) (gfree params ix) /\
     weave params (gproj params ix) (gfree params ix) = ix).
Proof.
  induction 1 as [|ps sh bs d Hal [IH1 IH2]|ps sh bs d Hal [IH1 IH2]|ps sh bs d Hal [IH1 IH2]]; split.
  - intros [|? ?] [|? ?]; simpl; tauto.
  - intros [|? ?]; simpl; tauto.
  - intros c [|a f]; simpl; [tauto|]. intros Hc [Ha Hf]. destruct (IH1 c f Hc Hf) as [H1 [H2 H3]].
    repeat split; try lia; try assumption; congruence.
  - intros [|i r]; simpl; [tauto|]. intros [Hi Hr]. destruct (IH2 r Hr) as [H1 [H2 H3]].
    repeat split; try lia; try assumption; congruence.
  - intros [|i c] f; simpl; [tauto|]. intros [Hi Hc] Hf. destruct (IH1 c f Hc Hf) as [H1 [H2 H3]].
    repeat split; try lia; try assumption; congruence.
  - intros [|i r]; simpl; [tauto|]. intros [Hi Hr]. destruct (IH2 r Hr) as [H1 [H2 H3]].
    repeat split; try lia; try assumption; congruence.
  - intros [|i c] [|a f]; simpl; try tauto. intros [Hi Hc] [Ha Hf]. destruct (IH1 c f Hc Hf) as [H1 [H2 H3]].
    repeat split; try lia; try assumption; try congruence. f_equal; [lia|assumption].
  - intros [|i r]; simpl; [tauto|]. intros [Hi Hr]. destruct (IH2 r Hr) as [H1 [H2 H3]].
    repeat split; try lia; try assumption; congruence.
Qed.

(* the split of the free extents at the first kept axis *)
Lemma free_pre_post params bs : free_pre params bs ++ free_post params bs = gfree params bs.
Proof.
  revert bs; induction params as [|p ps IH]; intros [|d bs]; simpl; try reflexivity.
  - destruct p as [[|]|]; reflexivity.
  - destruct p as [[|]|]; simpl.
    + clear IH. revert bs. induction ps as [|q qs IHq]; intros [|e bs]; simpl; try reflexivity.
      * destruct q as [[|]|]; reflexivity.
      * destruct q as [[|]|]; simpl; [apply IHq|f_equal; apply IHq|f_equal; apply IHq].
    + f_equal. apply IH.
    + f_equal. apply IH.
Qed.

Lemma aligned_lengths params sh bs : aligned params sh bs -> length params = length bs.
Proof. induction 1; simpl; auto. Qed.

(* without a kept axis every input extent is 1 *)
Lemma aligned_no_true params sh bs :
  aligned params sh bs -> existsb ptrue params = false ->
  forall c c', in_range sh c -> in_range sh c' -> c = c'.
Proof.
  induction 1 as [|ps sh bs d Hal IH|ps sh bs d Hal IH|ps sh bs d Hal IH]; simpl; intros He.
  - intros [|? ?] [|? ?]; simpl; tauto.
  - apply IH. assumption.
  - discriminate.
  - intros [|i c] [|j c']; simpl; try tauto. intros [Hi Hc] [Hj Hc']. f_equal; [lia|]. apply IH; assumption.
Qed.

Lemma all_indices_length sh : shape_ok sh -> length (all_indices sh) = Z.to_nat (size sh).
Proof.
  induction 1 as [|d sh Hd Hok IH]; simpl; [reflexivity|].
  assert (Hf : forall l, length (flat_map (fun i => map (cons i) (all_indices sh)) l) = (length l * length (all_indices sh))%nat).
  { induction l as [|a l IHl]; simpl; [reflexivity|]. rewrite app_length, map_length, IHl. reflexivity. }
  rewrite Hf, zrange_length, IH. pose proof (size_nonneg _ Hok). rewrite Z2Nat.inj_mul by lia. reflexivity.
Qed.

Lemma in_combine_repeat {A B} (l : list A) (v : B) k a w :
  (length l <= k)%nat -> (In (a, w) (combine l (repeat v k)) <-> In a l /\ w = v).
Proof.
  revert k; induction l as [|x l IH]; intros k Hk; simpl; [tauto|].
  destruct k as [|k]; simpl in *; [lia|]. rewrite IH by lia. split.
  - intros [H|[H1 H2]]; [inversion H; auto|auto].
  - intros [[->|H] ->]; [left; reflexivity|right; auto].
Qed.

Lemma NoDup_app_intro {A} (l1 l2 : list A) :
  NoDup l1 -> NoDup l2 -> (forall a, In a l1 -> ~ In a l2) -> NoDup (l1 ++ l2).
Proof.
  induction l1 as [|a l1 IH]; simpl; intros H1 H2 Hd; [assumption|].
  inversion H1; subst. constructor.
  - rewrite in_app_iff. intros [?|?]; [tauto|]. apply (Hd a); auto.
  - apply IH; auto.
Qed.

Lemma NoDup_flat_map {A B} (g : A -> list B) l :
  NoDup l -> (forall a, In a l -> NoDup (g a)) ->
  (forall a a' y, In a l -> In a' l -> In y (g a) -> In y (g a') -> a = a') ->
  NoDup (flat_map g l).
Proof.
  induction 1 as [|a l Ha Hnd IH]; simpl; intros Hg Hd; [constructor|].
  apply NoDup_app_intro.
  - apply Hg. left; reflexivity.
  - apply IH; [intros; apply Hg; right; assumption|]. intros b b' y Hb Hb'. apply Hd; right; assumption.
  - intros y Hy Hy'. apply in_flat_map in Hy'. destruct Hy' as [b [Hb Hyb]].
    assert (a = b) by (apply (Hd a b y); simpl; auto). subst. tauto.
Qed.

Lemma app_inj_length {A} (a a' b b' : list A) : length a = length a' -> a ++ b = a' ++ b' -> a = a' /\ b = b'.
Proof.
  revert a'; induction a as [|x a IH]; intros [|y a'] Hl He; simpl in *; try discriminate; [auto|].
  inversion He; subst. destruct (IH a') as [-> ->]; [lia|assumption|]. auto.
Qed.

Lemma NoDup_fst_combine {A B} (l : list A) (l' : list B) : NoDup l -> NoDup (map fst (combine l l')).
Proof.
  intros H. revert l'. induction H as [|a l Ha Hnd IH]; intros [|b l']; simpl; try constructor; [|apply IH].
  intros Hin. apply Ha. apply in_map_iff in Hin. destruct Hin as [[a' b'] [<- Hin]]. eapply in_combine_l; eauto.
Qed.

Section Broadcast.
  Variable V : Type.
  Variable veqb : V -> V -> bool.
  Variable x : coo V.
  Hypothesis Hx : canonical V x.

  Let sh := c_shape x.
  Let es := entries x.

  Variable params : list (option bool).
  Variable bs : shape.
  Hypothesis Hal : aligned params sh bs.
  Hypothesis Hbs : shape_ok bs.

  Lemma es_keys_NoDup : NoDup (map fst es).
  Proof. destruct Hx as [_ [Hs Hl]]. unfold es. rewrite entries_combine by assumption. apply SS_lex_NoDup. assumption. Qed.

  Lemma es_in_range c v : In (c, v) es -> in_range sh c.
  Proof. intros H. destruct Hx as [Hr _]. rewrite Forall_forall in Hr. apply Hr. eapply in_entries_coord; eauto. Qed.

  Lemma es_functional c v w : In (c, v) es -> In (c, w) es -> v = w.
  Proof.
    intros H1 H2. apply (lookup_In _ _ _ _ es_keys_NoDup) in H1. apply (lookup_In _ _ _ _ es_keys_NoDup) in H2. congruence.
  Qed.

  (* membership in the expanded entry list *)
  Lemma expand_entries_In ix v :
    In (ix, v) (expand_entries params bs es) <-> (in_range bs ix /\ In (gproj params ix, v) es).
  Proof.
    destruct (weave_bij params sh bs Hal) as [W1 W2].
    unfold expand_entries. destruct (existsb ptrue params) eqn:Et.
    - rewrite in_flat_map. split.
      + intros [a [Ha Hin]]. apply in_flat_map in Hin. destruct Hin as [[c w] [He Hin]].
        apply in_map_iff in Hin. destruct Hin as [b [Heq Hb]]. simpl in Heq. inversion Heq; subst. clear Heq.
        apply all_indices_In in Ha. apply all_indices_In in Hb.
        assert (Hf : in_range (gfree params bs) (a ++ b)).
        { rewrite <- free_pre_post. apply in_range_app; [symmetry; apply in_range_length; assumption|]. auto. }
        destruct (W1 c (a ++ b) (es_in_range c v He) Hf) as [H1 [H2 H3]]. rewrite H2. auto.
      + intros [Hi Hin]. destruct (W2 ix Hi) as [H1 [H2 H3]].
        rewrite <- free_pre_post in H2.
        set (k := length (free_pre params bs)).
        assert (Hlen : length (firstn k (gfree params ix)) = length (free_pre params bs)).
        { apply in_range_length in H2. rewrite app_length in H2. rewrite firstn_length. unfold k. lia. }
        rewrite <- (firstn_skipn k (gfree params ix)) in H2, H3.
        apply in_range_app in H2; [|symmetry; exact Hlen]. destruct H2 as [Ha Hb].
        exists (firstn k (gfree params ix)). split; [apply all_indices_In; assumption|].
        apply in_flat_map. exists (gproj params ix, v). split; [assumption|].
        apply in_map_iff. exists (skipn k (gfree params ix)). split; [simpl; rewrite H3; reflexivity|].
        apply all_indices_In. assumption.
    - destruct es as [|[c0 v0] es'] eqn:Ees; [simpl; tauto|].
      assert (Hone : forall c w, In (c, w) es -> c = c0 /\ w = v0).
      { intros c w Hin. assert (c = c0).
        { apply (aligned_no_true params sh bs Hal Et); [apply (es_in_range c w Hin)|apply (es_in_range c0 v0)].
          rewrite Ees. left; reflexivity. }
        subst c. split; [reflexivity|]. apply (es_functional c0 w v0); [assumption|rewrite Ees; left; reflexivity]. }
      assert (Hes' : es' = []).
      { destruct es' as [|[c1 v1] r]; [reflexivity|]. exfalso.
        pose proof es_keys_NoDup as Hnd. rewrite Ees in Hnd. simpl in Hnd. inversion Hnd as [|? ? Hn _]; subst.
        apply Hn. left. destruct (Hone c1 v1) as [-> _]; [rewrite Ees; right; left; reflexivity|reflexivity]. }
      subst es'. simpl. rewrite app_nil_r.
      rewrite in_combine_repeat by (rewrite all_indices_length by assumption; lia).
      rewrite all_indices_In. split.
      + intros [Hi ->]. split; [assumption|]. left. f_equal.
        destruct (W2 ix Hi) as [H1 _]. symmetry.
        apply (aligned_no_true params sh bs Hal Et); [assumption|]. apply (es_in_range c0 v0). rewrite Ees. left; reflexivity.
      + intros [Hi [Heq|[]]]. inversion Heq; subst. auto.
  Qed.

  Lemma expand_entries_keys_NoDup : NoDup (map fst (expand_entries params bs es)).
  Proof.
    destruct (weave_bij params sh bs Hal) as [W1 W2].
    unfold expand_entries. destruct (existsb ptrue params) eqn:Et.
    - rewrite flat_map_concat_map, concat_map, map_map, <- flat_map_concat_map.
      apply NoDup_flat_map.
      + apply all_indices_NoDup.
      + intros a Ha. rewrite flat_map_concat_map, concat_map, map_map, <- flat_map_concat_map.
        apply all_indices_In in Ha.
        apply NoDup_flat_map.
        * apply (NoDup_map_inv fst). apply es_keys_NoDup.
        * intros [c v] He. rewrite map_map. simpl.
          apply NoDup_map_inj_on; [apply all_indices_NoDup|].
          intros b b' Hb Hb' Heq. apply all_indices_In in Hb. apply all_indices_In in Hb'.
          assert (Hf : forall b0, in_range (free_post params bs) b0 -> in_range (gfree params bs) (a ++ b0)).
          { intros b0 Hb0. rewrite <- free_pre_post. apply in_range_app; [symmetry; apply in_range_length; assumption|]. auto. }
          destruct (W1 c (a ++ b) (es_in_range c v He) (Hf b Hb)) as [_ [_ H3]].
          destruct (W1 c (a ++ b') (es_in_range c v He) (Hf b' Hb')) as [_ [_ H3']].
          rewrite Heq, H3' in H3. apply app_inv_head in H3. congruence.
        * intros [c v] [c' v'] y He He' Hy Hy'. rewrite map_map in Hy, Hy'. simpl in Hy, Hy'.
          apply in_map_iff in Hy. destruct Hy as [b [<- Hb]]. apply in_map_iff in Hy'. destruct Hy' as [b' [Heq Hb']].
          apply all_indices_In in Hb. apply all_indices_In in Hb'.
          assert (Hf : forall b0, in_range (free_post params bs) b0 -> in_range (gfree params bs) (a ++ b0)).
          { intros b0 Hb0. rewrite <- free_pre_post. apply in_range_app; [symmetry; apply in_range_length; assumption|]. auto. }
          destruct (W1 c (a ++ b) (es_in_range c v He) (Hf b Hb)) as [_ [H2 _]].
          destruct (W1 c' (a ++ b') (es_in_range c' v' He') (Hf b' Hb')) as [_ [H2' _]].
          rewrite Heq, H2 in H2'. subst c'. f_equal. eapply es_functional; eauto.
      + intros a a' y Ha Ha' Hy Hy'.
        rewrite flat_map_concat_map, concat_map, map_map, <- flat_map_concat_map in Hy, Hy'.
        apply all_indices_In in Ha. apply all_indices_In in Ha'.
        apply in_flat_map in Hy. destruct Hy as [[c v] [He Hy]]. rewrite map_map in Hy. simpl in Hy.
        apply in_map_iff in Hy. destruct Hy as [b [<- Hb]].
        apply in_flat_map in Hy'. destruct Hy' as [[c' v'] [He' Hy']]. rewrite map_map in Hy'. simpl in Hy'.
        apply in_map_iff in Hy'. destruct Hy' as [b' [Heq Hb']].
        apply all_indices_In in Hb. apply all_indices_In in Hb'.
        assert (Hf : forall a0 b0, in_range (free_pre params bs) a0 -> in_range (free_post params bs) b0 -> in_range (gfree params bs) (a0 ++ b0)).
        { intros a0 b0 Ha0 Hb0. rewrite <- free_pre_post. apply in_range_app; [symmetry; apply in_range_length; assumption|]. auto. }
        destruct (W1 c (a ++ b) (es_in_range c v He) (Hf a b Ha Hb)) as [_ [_ H3]].
        destruct (W1 c' (a' ++ b') (es_in_range c' v' He') (Hf a' b' Ha' Hb')) as [_ [_ H3']].
        rewrite Heq, H3 in H3'. apply app_inj_length in H3'; [tauto|].
        apply in_range_length in Ha. apply in_range_length in Ha'. congruence.
    - destruct es as [|[c0 v0] es'] eqn:Ees; [constructor|].
      apply NoDup_fst_combine. apply all_indices_NoDup.
  Qed.
End Broadcast.

(* ---------------------------------------------------------------- the "kept axes adjacent" sortedness rule *)

Definition no_true (ps : list (option bool)) : bool := forallb (fun p => negb (ptrue p)) ps.
Fixpoint true_block (ps : list (option bool)) : bool :=
  match ps with [] => true | p :: r => if ptrue p then true_block r else no_true (p :: r) end.
Fixpoint adj_form (ps : list (option bool)) : bool :=
  match ps with [] => true | p :: r => if ptrue p then true_block r else adj_form r end.

Lemma true_positions_ge ps i j : In j (true_positions ps i) -> i <= j.
Proof.
  revert i; induction ps as [|p ps IH]; intros i; simpl; [tauto|].
  destruct (ptrue p); simpl; [intros [<-|H]; [lia|]|intros H]; apply IH in H; lia.
Qed.

Lemma true_positions_nil ps i : true_positions ps i = [] -> no_true ps = true.
Proof.
  revert i; induction ps as [|p ps IH]; intros i; simpl; [reflexivity|].
  destruct (ptrue p); simpl; [discriminate|]. apply IH.
Qed.

Lemma adjacent_true_block r i : adjacent (i :: true_positions r (i + 1)) = true -> true_block r = true.
Proof.
  revert i; induction r as [|q r IH]; intros i; [reflexivity|].
  cbn [true_positions true_block]. destruct (ptrue q) eqn:Eq.
  - cbn [adjacent]. rewrite andb_true_iff. intros [_ H]. apply (IH (i + 1)). exact H.
  - destruct (true_positions r (i + 1 + 1)) as [|j l] eqn:El.
    + intros _. cbn [no_true forallb]. rewrite Eq. simpl. apply (true_positions_nil r (i + 1 + 1)). assumption.
    + cbn [adjacent]. rewrite andb_true_iff. intros [Hj _].
      assert (i + 1 + 1 <= j) by (apply (true_positions_ge r); rewrite El; left; reflexivity). lia.
Qed.

Lemma adjacent_adj_form ps i : adjacent (true_positions ps i) = true -> adj_form ps = true.
Proof.
  revert i; induction ps as [|p ps IH]; intros i; [reflexivity|].
  cbn [true_positions adj_form]. destruct (ptrue p).
  - apply adjacent_true_block.
  - apply IH.
Qed.

Lemma ptrue_cases p : (p = Some true /\ ptrue p = true) \/ ((p = Some false \/ p = None) /\ ptrue p = false).
Proof. destruct p as [[|]|]; simpl; tauto. Qed.

(* without a kept axis the expanded coordinate is the free index itself *)
Lemma weave_no_true params sh bs c f :
  aligned params sh bs -> no_true params = true -> in_range bs f -> weave params c f = f.
Proof.
  intros Hal. revert c f. induction Hal as [|ps sh bs d Hal IH|ps sh bs d Hal IH|ps sh bs d Hal IH]; intros c f; simpl.
  - destruct f; simpl; tauto.
  - intros Hn. destruct f as [|a f]; simpl; [tauto|]. intros [_ Hf]. f_equal. apply IH; assumption.
  - discriminate.
  - intros Hn. destruct f as [|a f]; simpl; [tauto|]. intros [_ Hf]. f_equal. apply IH; assumption.
Qed.

Lemma gfree_no_true params sh bs : aligned params sh bs -> no_true params = true -> gfree params bs = bs.
Proof.
  induction 1 as [|ps sh bs d Hal IH|ps sh bs d Hal IH|ps sh bs d Hal IH]; simpl; intros Hn;
    try reflexivity; try discriminate; f_equal; auto.
Qed.

Lemma lex_lt_cons_eq i a b : lex_lt (i :: a) (i :: b) <-> lex_lt a b.
Proof. simpl. split; [intros [?|[_ ?]]; [lia|assumption]|intros; right; auto]. Qed.

(* phase 2: inside / after the block of kept axes; order on (stored tuple, post index) *)
Lemma weave_mono_block params sh bs :
  aligned params sh bs -> true_block params = true ->
  forall c c' b b', in_range sh c -> in_range sh c' ->
    in_range (gfree params bs) b -> in_range (gfree params bs) b' ->
    (lex_lt c c' \/ (c = c' /\ lex_lt b b')) -> lex_lt (weave params c b) (weave params c' b').
Proof.
  induction 1 as [|ps sh bs d Hal IH|ps sh bs d Hal IH|ps sh bs d Hal IH]; intros Htb c c' b b' Hc Hc' Hb Hb' Hlt.
  - destruct c, c'; simpl in *; try tauto. destruct Hlt as [[]|[_ Hl]]. destruct b, b'; simpl in *; tauto.
  - (* None: from here on no kept axis *)
    cbn [true_block ptrue] in Htb.
    assert (Hbs : gfree (None :: ps) (d :: bs) = d :: bs) by (apply (gfree_no_true _ sh); [constructor; assumption|assumption]).
    rewrite Hbs in Hb, Hb'.
    rewrite (weave_no_true (None :: ps) sh (d :: bs) c b), (weave_no_true (None :: ps) sh (d :: bs) c' b');
      try assumption; try (constructor; assumption).
    destruct Hlt as [Hl|[_ Hl]]; [|assumption]. exfalso.
    assert (c = c').
    { apply (aligned_no_true (None :: ps) sh (d :: bs)); [constructor; assumption| |assumption|assumption].
      unfold no_true in Htb. clear -Htb. induction (None :: ps) as [|q l IHl]; simpl in *; [reflexivity|].
      apply andb_true_iff in Htb. destruct Htb as [Hq Hl]. apply negb_true_iff in Hq. rewrite Hq. simpl. auto. }
    subst. eapply lex_lt_irrefl; eauto.
  - (* kept axis *)
    cbn [true_block ptrue] in Htb. destruct c as [|i c], c' as [|i' c']; simpl in Hc, Hc'; try tauto.
    destruct Hc as [Hi Hc], Hc' as [Hi' Hc']. cbn [weave]. cbn [gfree] in Hb, Hb'.
    destruct Hlt as [Hl|[He Hl]].
    + simpl in Hl. destruct Hl as [Hl|[-> Hl]]; [simpl; left; assumption|].
      apply lex_lt_cons_eq. apply IH; auto.
    + inversion He; subst. apply lex_lt_cons_eq. apply IH; auto.
  - (* broadcast axis: from here on no kept axis *)
    cbn [true_block ptrue] in Htb.
    assert (Hbs : gfree (Some false :: ps) (d :: bs) = d :: bs)
      by (apply (gfree_no_true _ (1 :: sh)); [constructor; assumption|assumption]).
    rewrite Hbs in Hb, Hb'.
    rewrite (weave_no_true (Some false :: ps) (1 :: sh) (d :: bs) c b), (weave_no_true (Some false :: ps) (1 :: sh) (d :: bs) c' b');
      try assumption; try (constructor; assumption).
    destruct Hlt as [Hl|[_ Hl]]; [|assumption]. exfalso.
    assert (c = c').
    { apply (aligned_no_true (Some false :: ps) (1 :: sh) (d :: bs)); [constructor; assumption| |assumption|assumption].
      unfold no_true in Htb. clear -Htb. induction (Some false :: ps) as [|q l IHl]; simpl in *; [reflexivity|].
      apply andb_true_iff in Htb. destruct Htb as [Hq Hl]. apply negb_true_iff in Hq. rewrite Hq. simpl. auto. }
    subst. eapply lex_lt_irrefl; eauto.
Qed.

(* phase 1: before the first kept axis; order on (pre index, stored tuple, post index) *)
Lemma weave_mono params sh bs :
  aligned params sh bs -> adj_form params = true -> existsb ptrue params = true ->
  forall a a' c c' b b', in_range sh c -> in_range sh c' ->
    in_range (free_pre params bs) a -> in_range (free_pre params bs) a' ->
    in_range (free_post params bs) b -> in_range (free_post params bs) b' ->
    (lex_lt a a' \/ (a = a' /\ (lex_lt c c' \/ (c = c' /\ lex_lt b b')))) ->
    lex_lt (weave params c (a ++ b)) (weave params c' (a' ++ b')).
Proof.
  induction 1 as [|ps sh bs d Hal IH|ps sh bs d Hal IH|ps sh bs d Hal IH];
    intros Hadj Hex a a' c c' b b' Hc Hc' Ha Ha' Hb Hb' Hlt.
  - discriminate.
  - cbn [adj_form ptrue existsb orb] in Hadj, Hex. cbn [free_pre ptrue free_post] in Ha, Ha', Hb, Hb'.
    destruct a as [|i a], a' as [|i' a']; simpl in Ha, Ha'; try tauto.
    destruct Ha as [Hi Ha], Ha' as [Hi' Ha']. cbn [app weave].
    destruct Hlt as [Hl|[He Hl]].
    + simpl in Hl. destruct Hl as [Hl|[-> Hl]]; [simpl; left; assumption|].
      apply lex_lt_cons_eq. apply IH; auto.
    + inversion He; subst. apply lex_lt_cons_eq. apply IH; auto.
  - (* first kept axis: a = a' = [] *)
    cbn [free_pre ptrue] in Ha, Ha'. destruct a, a'; simpl in Ha, Ha'; try tauto. cbn [app].
    cbn [adj_form ptrue] in Hadj.
    assert (Hfp : free_post (Some true :: ps) (d :: bs) = gfree (Some true :: ps) (d :: bs)).
    { rewrite <- free_pre_post. reflexivity. }
    rewrite Hfp in Hb, Hb'.
    apply (weave_mono_block (Some true :: ps) (d :: sh) (d :: bs)); try assumption.
    + constructor; assumption.
    + destruct Hlt as [Hl|[_ Hl]]; [destruct Hl|assumption].
  - cbn [adj_form ptrue existsb orb] in Hadj, Hex. cbn [free_pre ptrue free_post] in Ha, Ha', Hb, Hb'.
    destruct a as [|i a], a' as [|i' a']; simpl in Ha, Ha'; try tauto.
    destruct Ha as [Hi Ha], Ha' as [Hi' Ha'].
    destruct c as [|j c], c' as [|j' c']; simpl in Hc, Hc'; try tauto.
    destruct Hc as [Hj Hc], Hc' as [Hj' Hc']. cbn [app weave tl].
    assert (j = 0) by lia. assert (j' = 0) by lia. subst j j'.
    destruct Hlt as [Hl|[He Hl]].
    + simpl in Hl. destruct Hl as [Hl|[-> Hl]]; [simpl; left; assumption|].
      apply lex_lt_cons_eq. apply IH; auto.
    + inversion He; subst. apply lex_lt_cons_eq. apply IH; auto.
      right. split; [reflexivity|]. destruct Hl as [Hl|[Hce Hl]].
      * left. apply lex_lt_cons_eq in Hl. assumption.
      * right. inversion Hce; subst. auto.
Qed.

Lemma SS_flat_map_gen {A B} (R : B -> B -> Prop) (Rl : A -> A -> Prop) (g : A -> list B) l :
  StronglySorted Rl l -> (forall a, In a l -> StronglySorted R (g a)) ->
  (forall a a' y y', In a l -> In a' l -> Rl a a' -> In y (g a) -> In y' (g a') -> R y y') ->
  StronglySorted R (flat_map g l).
Proof.
  induction 1 as [|a l Hs IH Hall]; simpl; intros Hg Hc; [constructor|].
  apply SS_app.
  - apply Hg. left; reflexivity.
  - apply IH; [intros; apply Hg; right; assumption|]. intros b b' y y' Hb Hb'. apply Hc; right; assumption.
  - intros y y' Hy Hy'. apply in_flat_map in Hy'. destruct Hy' as [b [Hb Hyb]].
    rewrite Forall_forall in Hall. apply (Hc a b); simpl; auto.
Qed.

Lemma SS_map_gen {A B} (R : B -> B -> Prop) (Rl : A -> A -> Prop) (f : A -> B) l :
  StronglySorted Rl l -> (forall a a', In a l -> In a' l -> Rl a a' -> R (f a) (f a')) ->
  StronglySorted R (map f l).
Proof.
  induction 1 as [|a l Hs IH Hall]; simpl; intros Hm; constructor.
  - apply IH. intros; apply Hm; simpl; auto.
  - apply Forall_forall. intros y Hy. apply in_map_iff in Hy. destruct Hy as [b [<- Hb]].
    rewrite Forall_forall in Hall. apply Hm; simpl; auto.
Qed.

Lemma SS_combine_fst {A} (R : idx -> idx -> Prop) (ks : list idx) (vs : list A) :
  StronglySorted R ks -> StronglySorted (fun a b => R (fst a) (fst b)) (combine ks vs).
Proof.
  intros Hs. revert vs. induction Hs as [|k ks Hs IH Hall]; intros [|v vs]; simpl; try constructor; [apply IH|].
  apply Forall_forall. intros [k' v'] Hin. simpl. rewrite Forall_forall in Hall. apply Hall. eapply in_combine_l; eauto.
Qed.

Lemma SS_fst_combine_prefix {B} (l : list idx) (l' : list B) :
  StronglySorted lex_lt l -> StronglySorted lex_lt (map fst (combine l l')).
Proof.
  intros Hs. revert l'. induction Hs as [|k ks Hs IH Hall]; intros [|v vs]; simpl; try constructor; [apply IH|].
  apply Forall_forall. intros k' Hin. apply in_map_iff in Hin. destruct Hin as [[a b] [<- Hin]].
  rewrite Forall_forall in Hall. apply Hall. eapply in_combine_l; eauto.
Qed.

Section BroadcastSorted.
  Variable V : Type.
  Variable x : coo V.
  Hypothesis Hx : canonical V x.
  Variable params : list (option bool).
  Variable bs : shape.
  Hypothesis Hal : aligned params (c_shape x) bs.

  Theorem broadcast_to_sorted_rule_sound_proof :
    adjacent (true_positions params 0) = true ->
    StronglySorted lex_lt (map fst (expand_entries params bs (entries x))).
  Proof.
    intros Hadj. apply adjacent_adj_form in Hadj.
    unfold expand_entries. destruct (existsb ptrue params) eqn:Et.
    - rewrite flat_map_concat_map, concat_map, map_map, <- flat_map_concat_map.
      apply (SS_flat_map_gen lex_lt lex_lt); [apply all_indices_SS| |].
      + intros a Ha. apply all_indices_In in Ha.
        rewrite flat_map_concat_map, concat_map, map_map, <- flat_map_concat_map.
        apply (SS_flat_map_gen lex_lt (fun e e' : idx * V => lex_lt (fst e) (fst e'))).
        * unfold entries. apply SS_combine_fst. apply Hx.
        * intros [c v] He. rewrite map_map. simpl.
          apply (SS_map_gen lex_lt lex_lt); [apply all_indices_SS|].
          intros b b' Hb Hb' Hl. apply all_indices_In in Hb. apply all_indices_In in Hb'.
          assert (Hc : in_range (c_shape x) c) by (apply (es_in_range V x Hx c v He)).
          apply (weave_mono params (c_shape x) bs Hal Hadj Et); auto.
        * intros [c v] [c' v'] y y' He He' Hl Hy Hy'. simpl in Hl. rewrite map_map in Hy, Hy'. simpl in Hy, Hy'.
          apply in_map_iff in Hy. destruct Hy as [b [<- Hb]]. apply in_map_iff in Hy'. destruct Hy' as [b' [<- Hb']].
          apply all_indices_In in Hb. apply all_indices_In in Hb'.
          apply (weave_mono params (c_shape x) bs Hal Hadj Et); auto;
            [apply (es_in_range V x Hx c v He)|apply (es_in_range V x Hx c' v' He')].
      + intros a a' y y' Ha Ha' Hl Hy Hy'. apply all_indices_In in Ha. apply all_indices_In in Ha'.
        rewrite flat_map_concat_map, concat_map, map_map, <- flat_map_concat_map in Hy, Hy'.
        apply in_flat_map in Hy. destruct Hy as [[c v] [He Hy]]. rewrite map_map in Hy. simpl in Hy.
        apply in_map_iff in Hy. destruct Hy as [b [<- Hb]].
        apply in_flat_map in Hy'. destruct Hy' as [[c' v'] [He' Hy']]. rewrite map_map in Hy'. simpl in Hy'.
        apply in_map_iff in Hy'. destruct Hy' as [b' [<- Hb']].
        apply all_indices_In in Hb. apply all_indices_In in Hb'.
        apply (weave_mono params (c_shape x) bs Hal Hadj Et); auto;
          [apply (es_in_range V x Hx c v He)|apply (es_in_range V x Hx c' v' He')].
    - destruct (entries x) as [|e0 es']; [constructor|]. apply SS_fst_combine_prefix. apply all_indices_SS.
  Qed.
End BroadcastSorted.

(* ---------------------------------------------------------------- what the code computes is aligned *)

(* params whose absent axes (None) all lead, with the kept/broadcast part axis by axis *)
Inductive aligned2 : list (option bool) -> shape -> shape -> Prop :=
| al2_nil : aligned2 [] [] []
| al2_true ps sh bs d : aligned2 ps sh bs -> aligned2 (Some true :: ps) (d :: sh) (d :: bs)
| al2_false ps sh bs d : aligned2 ps sh bs -> aligned2 (Some false :: ps) (1 :: sh) (d :: bs).

Lemma aligned2_snoc ps sh bs a b :
  aligned2 ps sh bs -> (a = b \/ a = 1) -> aligned2 (ps ++ [Some (a =? b)]) (sh ++ [a]) (bs ++ [b]).
Proof.
  intros H Hab. induction H; simpl; try (constructor; assumption).
  destruct (Z.eqb_spec a b) as [->|Hne]; [repeat constructor|].
  destruct Hab as [ Hc | -> ]; [contradiction|repeat constructor].
Qed.

Lemma aligned2_aligned ps sh bs : aligned2 ps sh bs -> aligned ps sh bs.
Proof. induction 1; constructor; assumption. Qed.

Lemma aligned_lead (lead : list Z) ps sh bs :
  aligned ps sh bs -> aligned (map (fun _ => None) lead ++ ps) sh (lead ++ bs).
Proof. intros H. induction lead; simpl; [assumption|constructor; assumption]. Qed.

Lemma aligned2_lengths ps sh bs : aligned2 ps sh bs -> length sh = length bs /\ length ps = length bs.
Proof. induction 1; simpl; lia. Qed.

(* reversed shapes, as the code walks them *)
Lemma bcast_rev_aligned s t :
  bcast_ok_rev s t = true ->
  bshape_ok_rev s t = true /\ bshape_rev s t = t /\
  exists lead bs2 ps2,
    rev t = lead ++ bs2 /\ rev (bparams_rev s t) = map (fun _ => None) lead ++ ps2 /\ aligned2 ps2 (rev s) bs2.
Proof.
  revert t; induction s as [|a s IH]; intros t Hok.
  - split; [destruct t; reflexivity|]. split; [destruct t; reflexivity|].
    exists (rev t), (@nil Z), (@nil (option bool)). rewrite !app_nil_r. split; [reflexivity|]. split; [|constructor].
    destruct t; simpl; [reflexivity|]. rewrite <- map_rev. simpl. rewrite map_app. reflexivity.
  - destruct t as [|b t]; simpl in Hok; [discriminate|]. apply andb_true_iff in Hok. destruct Hok as [Hab Hok].
    destruct (IH t Hok) as [H1 [H2 [lead [bs2 [ps2 [Ht [Hp Hal]]]]]]].
    assert (Hab' : a = b \/ a = 1) by lia.
    split; [simpl; rewrite Hab, H1; reflexivity|]. split.
    + simpl. rewrite H2. f_equal. destruct (Z.eqb_spec a 1) as [->|Hne]; simpl; [reflexivity|]. lia.
    + exists lead, (bs2 ++ [b]), (ps2 ++ [Some (a =? b)]). simpl. rewrite Ht, Hp, <- !app_assoc.
      repeat split. apply aligned2_snoc; assumption.
Qed.

Lemma gproj_lead (lead : list Z) ps ix : (length lead <= length ix)%nat ->
  gproj (map (fun _ => None) lead ++ ps) ix = gproj ps (skipn (length lead) ix).
Proof.
  revert ix; induction lead as [|d lead IH]; intros ix Hl; simpl; [reflexivity|].
  destruct ix as [|i r]; simpl in *; [lia|]. apply IH. lia.
Qed.

Lemma gproj_bproj ps sh bs ix : aligned2 ps sh bs -> in_range bs ix ->
  gproj ps ix = map (fun di => if fst di =? 1 then 0 else snd di) (combine sh ix).
Proof.
  intros H. revert ix. induction H as [|ps sh bs d Hal IH|ps sh bs d Hal IH]; intros [|i r]; simpl; try tauto.
  - intros [Hi Hr]. f_equal; [|apply IH; assumption]. destruct (Z.eqb_spec d 1); [lia|reflexivity].
  - intros [Hi Hr]. f_equal. apply IH. assumption.
Qed.

Lemma bproj_id sh ix : in_range sh ix -> bproj sh sh ix = ix.
Proof.
  unfold bproj. rewrite Nat.sub_diag. simpl. revert ix.
  induction sh as [|d sh IH]; intros [|i r]; simpl; try tauto. intros [Hi Hr]. f_equal; [|apply IH; assumption].
  destruct (Z.eqb_spec d 1); [lia|reflexivity].
Qed.

Lemma forallb_nonneg_ok t : forallb (fun d => 0 <=? d) t = true <-> shape_ok t.
Proof.
  unfold shape_ok. rewrite forallb_forall, Forall_forall. split; intros H d Hd; specialize (H d Hd); lia.
Qed.

Lemma bcast_ok_rev_len s t : bcast_ok_rev s t = true -> (length s <= length t)%nat.
Proof.
  revert t; induction s as [|a s IH]; intros [|b t]; simpl; try discriminate; try lia.
  intros H. apply andb_true_iff in H. destruct H as [_ H]. apply IH in H. lia.
Qed.

Lemma bcast_ok_rev_longer s t : (length t < length s)%nat -> bcast_ok_rev s t = false.
Proof.
  intros Hl. destruct (bcast_ok_rev s t) eqn:E; [|reflexivity]. apply bcast_ok_rev_len in E. lia.
Qed.

Section BroadcastTo.
  Variable V : Type.
  Variable veqb : V -> V -> bool.
  Variable x : coo V.
  Hypothesis Hx : canonical V x.

  Let sh := c_shape x.

  Theorem broadcast_to_den_proof target :
    np_broadcast_ok sh target = true ->
    exists r, coo_broadcast_to x target = Ok r /\
      c_shape r = target /\ c_fill r = c_fill x /\
      canonical V r /\ (prunedb veqb x = true -> prunedb veqb r = true) /\
      forall ix, in_range target ix -> den r ix = np_broadcast_to sh target (den x) ix.
  Proof.
    unfold np_broadcast_ok. rewrite andb_true_iff, forallb_nonneg_ok. intros [Hok Hnn].
    unfold coo_broadcast_to. fold sh. destruct (idx_eqb target sh) eqn:Eid.
    - apply idx_eqb_eq in Eid. subst target. exists x.
      split; [reflexivity|]. split; [reflexivity|]. split; [reflexivity|]. split; [assumption|]. split; [auto|].
      intros ix Hi. unfold np_broadcast_to. rewrite bproj_id by assumption. reflexivity.
    - destruct (bcast_rev_aligned (rev sh) (rev target) Hok) as [H1 [H2 [lead [bs2 [ps2 [Ht [Hp Hal2]]]]]]].
      assert (Hlen : (length (rev target) <? length (rev sh))%nat = false)
        by (apply Nat.ltb_ge; apply bcast_ok_rev_len; exact Hok).
      rewrite Hlen, H1, H2. simpl. rewrite !rev_involutive in *.
      assert (Hneg : existsb (fun d => d <? 0) target = false) by (apply shape_ok_existsb; assumption).
      rewrite Hneg. rewrite Hp.
      set (params := map (fun _ : Z => @None bool) lead ++ ps2).
      assert (Hal : aligned params sh target).
      { rewrite Ht. apply aligned_lead. apply aligned2_aligned. assumption. }
      eexists. split; [reflexivity|].
      pose proof (expand_entries_keys_NoDup V veqb x Hx params target Hal) as Hnd.
      split; [reflexivity|]. split; [reflexivity|]. split; [|split].
      + apply coo_make_canonical; [| exact Hnd |].
        * apply Forall_forall. intros [k v] Hin. simpl.
          apply (expand_entries_In V veqb x Hx params target Hal Hnn) in Hin. tauto.
        * intros Hs. apply (broadcast_to_sorted_rule_sound_proof V x Hx params target Hal). exact Hs.
      + intros Hp'. apply coo_make_pruned. apply forallb_forall. intros [k v] Hin. simpl.
        apply (expand_entries_In V veqb x Hx params target Hal Hnn) in Hin. destruct Hin as [_ Hin].
        unfold prunedb in Hp'. rewrite forallb_forall in Hp'. apply Hp'. unfold entries in Hin.
        eapply in_combine_r; eauto.
      + intros ix Hi. rewrite coo_make_den by exact Hnd. unfold np_broadcast_to.
        assert (Hg : gproj params ix = bproj sh target ix).
        { unfold params, bproj. destruct (aligned2_lengths _ _ _ Hal2) as [Hl1 Hl2].
          pose proof (in_range_length _ _ Hi) as Hli. rewrite Ht, app_length in Hli.
          rewrite gproj_lead by lia.
          replace (length target - length sh)%nat with (length lead) by (rewrite Ht, app_length; fold sh in Hl1; lia).
          apply (gproj_bproj ps2 sh bs2); [assumption|].
          rewrite Ht in Hi. rewrite <- (firstn_skipn (length lead) ix) in Hi.
          apply in_range_app in Hi; [tauto|]. rewrite firstn_length. lia. }
        rewrite <- Hg. rewrite den_lookup_or. unfold lookup_or.
        assert (Hnde : NoDup (map fst (entries x))) by (apply es_keys_NoDup; assumption).
        destruct (lookup (entries x) (gproj params ix)) as [v|] eqn:El.
        * apply (lookup_In _ _ _ _ Hnde) in El.
          assert (Hin : In (ix, v) (expand_entries params target (entries x)))
            by (apply (expand_entries_In V veqb x Hx params target Hal Hnn); auto).
          apply (lookup_In _ _ _ _ Hnd) in Hin. rewrite Hin. reflexivity.
        * destruct (lookup (expand_entries params target (entries x)) ix) as [w|] eqn:El'; [|reflexivity].
          apply (lookup_In _ _ _ _ Hnd) in El'.
          apply (expand_entries_In V veqb x Hx params target Hal Hnn) in El'. destruct El' as [_ Hin].
          apply (lookup_In _ _ _ _ Hnde) in Hin. congruence.
  Qed.

  (* every target NumPy rejects raises ValueError (fewer axes than the input included, commit 7dd4784) *)
  Theorem broadcast_to_rejects_proof target :
    shape_ok sh -> np_broadcast_ok sh target = false -> coo_broadcast_to x target = Raise ValueError.
  Proof.
    intros Hsh Hno. unfold coo_broadcast_to. fold sh.
    destruct (idx_eqb target sh) eqn:Eid.
    - exfalso. apply idx_eqb_eq in Eid. subst target. unfold np_broadcast_ok in Hno.
      assert (Hrefl : bcast_ok_rev (rev sh) (rev sh) = true).
      { clear. induction (rev sh) as [|a l IH]; simpl; [reflexivity|]. rewrite Z.eqb_refl, IH. reflexivity. }
      rewrite Hrefl in Hno. simpl in Hno. apply forallb_nonneg_ok in Hsh. congruence.
    - destruct (Nat.ltb_spec (length (rev target)) (length (rev sh))) as [Hl|Hl]; simpl; [reflexivity|].
      assert (Heq : forall s t, (length s <= length t)%nat -> bshape_ok_rev s t = bcast_ok_rev s t).
      { induction s as [|a s IH]; intros [|b t] Hl'; simpl in *; try reflexivity; [lia|]. rewrite IH by lia. reflexivity. }
      rewrite Heq by exact Hl.
      destruct (bcast_ok_rev (rev sh) (rev target)) eqn:Eok; simpl; [|reflexivity].
      destruct (bcast_rev_aligned _ _ Eok) as [_ [H2 _]]. rewrite H2, rev_involutive.
      unfold np_broadcast_ok in Hno. rewrite Eok in Hno. simpl in Hno.
      destruct (existsb (fun d => d <? 0) target) eqn:En; [reflexivity|].
      apply shape_ok_existsb in En. apply forallb_nonneg_ok in En. congruence.
  Qed.
End BroadcastTo.

Example broadcast_to_nonvacuous :
  np_broadcast_ok (c_shape ex_y) [2; 2; 2; 3] = true /\
  coo_broadcast_to ex_y [2; 2; 2; 3] =
    Ok (mkCOO [2; 2; 2; 3]
         [[0; 0; 0; 1]; [0; 0; 1; 1]; [0; 1; 0; 0]; [0; 1; 0; 2]; [0; 1; 1; 0]; [0; 1; 1; 2];
          [1; 0; 0; 1]; [1; 0; 1; 1]; [1; 1; 0; 0]; [1; 1; 0; 2]; [1; 1; 1; 0]; [1; 1; 1; 2]]
         [4; 4; 5; 6; 5; 6; 4; 4; 5; 6; 5; 6] 9).
Proof. split; vm_compute; reflexivity. Qed.

(* ================================================================== broadcast_arrays: the common shape *)

Lemma bcast_ok_rev_trans a b c : bcast_ok_rev a b = true -> bcast_ok_rev b c = true -> bcast_ok_rev a c = true.
Proof.
  revert b c; induction a as [|x a IH]; intros [|y b] [|z c]; simpl; try discriminate; try reflexivity.
  rewrite !andb_true_iff, !orb_true_iff, !Z.eqb_eq. intros [H1 H2] [H3 H4]. split; [lia|eapply IH; eauto].
Qed.

Lemma bcast_ok_rev_refl a : bcast_ok_rev a a = true.
Proof. induction a as [|x a IH]; simpl; [reflexivity|]. rewrite Z.eqb_refl, IH. reflexivity. Qed.

Lemma bcast_ok_rev_nil_l t : bcast_ok_rev [] t = true.
Proof. reflexivity. Qed.

(* np.broadcast_shapes of two shapes is a target both broadcast to *)
Lemma bshapes2_rev_ok a b r :
  bshapes2_rev a b = Some r -> bcast_ok_rev a r = true /\ bcast_ok_rev b r = true.
Proof.
  revert b r; induction a as [|x a IH]; intros b r.
  - intros H. assert (r = b) by (destruct b; simpl in H; congruence). subst r.
    split; [reflexivity|apply bcast_ok_rev_refl].
  - destruct b as [|y b].
    + intros H. simpl in H. inversion H; subst. split; [apply (bcast_ok_rev_refl (x :: a))|reflexivity].
    + simpl. destruct (bshapes2_rev a b) as [r'|] eqn:E; [|discriminate].
      destruct (IH b r' E) as [H1 H2].
      destruct (Z.eqb_spec x y) as [->|Hxy].
      * intros H; inversion H; subst. simpl. rewrite Z.eqb_refl, H1, H2. auto.
      * destruct (Z.eqb_spec x 1) as [->|Hx1].
        -- intros H; inversion H; subst. simpl. rewrite Z.eqb_refl, H1, H2. rewrite orb_true_r. auto.
        -- destruct (Z.eqb_spec y 1) as [->|Hy1]; [|discriminate].
           intros H; inversion H; subst. simpl. rewrite Z.eqb_refl, H1, H2. rewrite orb_true_r. auto.
Qed.

Lemma bshapes2_rev_nonneg a b r :
  bshapes2_rev a b = Some r -> Forall (fun d => 0 <= d) a -> Forall (fun d => 0 <= d) b -> Forall (fun d => 0 <= d) r.
Proof.
  revert b r; induction a as [|x a IH]; intros b r.
  - simpl. destruct b; intros H; inversion H; subst; auto.
  - destruct b as [|y b].
    + simpl. intros H; inversion H; subst. auto.
    + simpl. destruct (bshapes2_rev a b) as [r'|] eqn:E; [|discriminate].
      intros H Ha Hb. inversion Ha; subst. inversion Hb; subst. specialize (IH b r' E H3 H5).
      destruct (x =? y); [inversion H; subst; constructor; assumption|].
      destruct (x =? 1); [inversion H; subst; constructor; assumption|].
      destruct (y =? 1); [inversion H; subst; constructor; assumption|discriminate].
Qed.

Theorem broadcast_arrays_link_proof shapes t :
  Forall shape_ok shapes -> np_broadcast_shapes shapes = Some t ->
  Forall (fun s => np_broadcast_ok s t = true) shapes.
Proof.
  unfold np_broadcast_shapes. intros Hok H.
  set (step := fun (acc : option (list Z)) (s : list Z) => match acc with None => None | Some a => bshapes2_rev a (rev s) end) in *.
  destruct (fold_left step shapes (Some [])) as [r|] eqn:E; [|discriminate]. inversion H; subst t. clear H.
  assert (Hgen : forall shapes acc r,
            Forall shape_ok shapes -> Forall (fun d => 0 <= d) acc ->
            fold_left step shapes (Some acc) = Some r ->
            bcast_ok_rev acc r = true /\ Forall (fun d => 0 <= d) r /\
            Forall (fun s => bcast_ok_rev (rev s) r = true) shapes).
  { clear. unfold step. induction shapes as [|s shapes IH]; intros acc r Hok Hacc H; simpl in H.
    - inversion H; subst. split; [apply bcast_ok_rev_refl|]. split; [assumption|constructor].
    - inversion Hok as [|? ? Hs Hrest]; subst.
      destruct (bshapes2_rev acc (rev s)) as [a'|] eqn:E.
      + destruct (bshapes2_rev_ok _ _ _ E) as [H1 H2].
        assert (Ha' : Forall (fun d => 0 <= d) a').
        { apply (bshapes2_rev_nonneg _ _ _ E Hacc). apply Forall_rev. exact Hs. }
        destruct (IH a' r Hrest Ha' H) as [H3 [H4 H5]].
        split; [eapply bcast_ok_rev_trans; eauto|]. split; [assumption|].
        constructor; [eapply bcast_ok_rev_trans; eauto|assumption].
      + exfalso. clear -H. induction shapes as [|x l IHl]; simpl in H; [discriminate|auto]. }
  destruct (Hgen shapes [] r Hok (Forall_nil _) E) as [_ [Hnn Hall]].
  apply Forall_forall. intros s Hs. rewrite Forall_forall in Hall. unfold np_broadcast_ok.
  rewrite rev_involutive, (Hall s Hs). simpl. apply forallb_forall. intros d Hd. apply Z.leb_le.
  apply in_rev in Hd. rewrite Forall_forall in Hnn. auto.
Qed.

(* ================================================================== moveaxis: NumPy's insertion algorithm = the declarative permutation,
   for every array of at most 5 axes (the scope of the property), by exhaustive evaluation *)

Fixpoint remove_z (a : Z) (l : list Z) : list Z :=
  match l with [] => [] | x :: r => if x =? a then remove_z a r else x :: remove_z a r end.

(* all duplicate-free lists of length k over univ *)
Fixpoint nodup_lists (k : nat) (univ : list Z) : list (list Z) :=
  match k with
  | O => [[]]
  | S k' => flat_map (fun a => map (cons a) (nodup_lists k' (remove_z a univ))) univ
  end.

Lemma remove_z_In a x l : In x (remove_z a l) <-> In x l /\ x <> a.
Proof.
  induction l as [|y l IH]; simpl; [tauto|]. destruct (Z.eqb_spec y a) as [->|Hne]; simpl; rewrite IH; intuition congruence.
Qed.

Lemma nodup_lists_complete l : forall univ, NoDup l -> incl l univ -> In l (nodup_lists (length l) univ).
Proof.
  induction l as [|a l IH]; intros univ Hnd Hincl; simpl; [auto|].
  inversion Hnd; subst. apply in_flat_map. exists a. split; [apply Hincl; left; reflexivity|].
  apply in_map. apply IH; [assumption|]. intros x Hx. apply remove_z_In. split; [apply Hincl; right; assumption|].
  intros ->. tauto.
Qed.

Definition moveaxis_check (nd : Z) : bool :=
  forallb (fun k =>
    forallb (fun src =>
      forallb (fun dst => idx_eqb (moveaxis_order nd src dst) (np_moveaxis_perm nd src dst))
              (nodup_lists k (zrange nd)))
      (nodup_lists k (zrange nd)))
    (seq 0 (S (Z.to_nat nd))).

Lemma moveaxis_check_upto5 : forallb moveaxis_check [0; 1; 2; 3; 4; 5] = true.
Proof. vm_compute. reflexivity. Qed.

Theorem moveaxis_order_spec_upto_5d_proof nd src dst :
  0 <= nd <= 5 -> NoDup src -> NoDup dst -> length src = length dst ->
  (forall a, In a src -> 0 <= a < nd) -> (forall a, In a dst -> 0 <= a < nd) ->
  moveaxis_order nd src dst = np_moveaxis_perm nd src dst.
Proof.
  intros Hnd Hs Hd Hl Hrs Hrd.
  assert (Hin : In nd [0; 1; 2; 3; 4; 5]) by (simpl; lia).
  pose proof moveaxis_check_upto5 as H. rewrite forallb_forall in H. specialize (H nd Hin).
  unfold moveaxis_check in H. rewrite forallb_forall in H.
  assert (Hk : In (length src) (seq 0 (S (Z.to_nat nd)))).
  { apply in_seq. split; [lia|]. simpl.
    assert (length src <= length (zrange nd))%nat.
    { apply NoDup_incl_length; [assumption|]. intros a Ha. apply zrange_In. auto. }
    rewrite zrange_length in H0. lia. }
  specialize (H _ Hk). rewrite forallb_forall in H.
  assert (Hsrc : In src (nodup_lists (length src) (zrange nd))).
  { apply nodup_lists_complete; [assumption|]. intros a Ha. apply zrange_In. auto. }
  specialize (H _ Hsrc). rewrite forallb_forall in H.
  assert (Hdst : In dst (nodup_lists (length src) (zrange nd))).
  { rewrite Hl. apply nodup_lists_complete; [assumption|]. intros a Ha. apply zrange_In. auto. }
  specialize (H _ Hdst). apply idx_eqb_eq in H. exact H.
Qed.
