(* Proofs/DispatchDenP.v — C17 extension: operations for which the library has TWO algorithms
   (clause two_algorithm_ops of Model/Dispatch.v) agree at the level of the dense meaning.
   Imports, read-only, the stable theorems of C05 (conversion) and C08 (shape operations). *)
From Coq Require Import ZArith List Bool.
From Verif Require Import Py Shape COO COOP GCXS Convert ConvertG ConvertP ShapeOps NpShapeOps ShapeOpsP ShapeOpsG ShapeOpsGP.
Import ListNotations.
Open Scope Z_scope.

(* x.transpose(axes) / x.mT / x.T on a GCXS array (GCXS.transpose: _2d_transpose or _transpose/_convert_coords)
   versus the function route sparse.matrix_transpose(x) / sparse.permute_dims on the COO conversion
   (_validate_coo_input: x.tocoo(), then COO.transpose): same shape, same fill, same element at every index —
   for every canonical content, every valid choice of compressed axes, every axes argument.  The formats of the two
   results differ (GCXS vs COO): that part is finding two_algorithm_paths_disagree. *)
Theorem transpose_paths_agree_den_proof :
  forall (V : Type) (veqb : V -> V -> bool) (add : V -> V -> V) (c : coo V) (ca : list Z)
         (axes : option (list Z)) (r1 : gcxs V) (r2 : coo V),
    canonical V c -> shape_ok (c_shape c) -> axes_ok (c_shape c) ca ->
    gcxs_transpose (gcxs_from_coo c ca) axes = Ok r1 ->
    coo_transpose (gcxs_tocoo veqb add (gcxs_from_coo c ca)) axes = Ok r2 ->
    g_shape r1 = c_shape r2 /\ g_fill r1 = c_fill r2 /\
    forall ix, in_range (c_shape r2) ix -> gden r1 ix = den r2 ix.
Proof.
  intros V veqb add c ca axes r1 r2 Hc Hs Ha H1 H2.
  rewrite (tocoo_from_coo_proof V veqb add c ca Hc Hs Ha) in H2.
  destruct (gcxs_transpose_den_proof V veqb add c ca axes r1 Hc Hs Ha H1) as [_ [_ [Hs1 [Hf1 Hd1]]]].
  destruct (transpose_den_proof V c Hc axes r2 H2) as [_ [Hs2 [Hf2 Hd2]]].
  cbv zeta in *.
  split; [rewrite Hs1, Hs2; reflexivity|]. split; [rewrite Hf1, Hf2; reflexivity|].
  intros ix Hix. rewrite Hd2 by exact Hix. rewrite Hd1 by (rewrite Hs1, <- Hs2; exact Hix).
  unfold np_transpose. apply (gcxs_from_coo_den_proof V veqb add c ca _ Hc Hs Ha).
Qed.

(* ------------------------------------------------------------------ isnan / isinf *)
From Coq Require Import Lia.
From Verif Require Import NpElemwise Elemwise ElemwiseP ElemwiseBcastP ElemwiseGenP Reduce ReduceExt ReduceExtP.

Lemma rev_nth_ext : forall (a b : list Z), length a = length b ->
  (forall k, (k < length a)%nat -> nth k a 1 = nth k b 1) -> a = b.
Proof.
  induction a as [|x a IH]; destruct b as [|y b]; simpl; intros Hl H; try discriminate; [reflexivity|].
  f_equal.
  - apply (H 0%nat). lia.
  - apply IH; [lia|]. intros k Hk. apply (H (S k)). lia.
Qed.

Lemma broadcast_single : forall s r, np_broadcast_rel [s] r -> r = s.
Proof.
  intros s r [Hl [_ Hex]]. simpl in Hl. rewrite Nat.max_0_r in Hl.
  assert (rev r = rev s) as E.
  { apply rev_nth_ext; [rewrite !rev_length; exact Hl|].
    intros k Hk. rewrite rev_length in Hk. destruct (Hex k Hk) as [s' [[<-|[]] [_ He]]].
    unfold ext_from_end in He. symmetry. exact He. }
  rewrite <- (rev_involutive r), E. apply rev_involutive.
Qed.

(* The method route x.isnan() / x.isinf() on COO — the class's OWN body
   `COO(self.coords, np.isnan(self.data), fill_value=np.isnan(self.fill_value), prune=True)`, which is exactly
   [coo_map g] (apply to data and fill, drop what equals the new fill) — and the generic route np.isnan(x) =
   elemwise(np.isnan, x) (C01's model of _Elemwise) return THE SAME canonical array, for every canonical x with
   at least one axis and every unary function g. *)
Theorem unary_paths_agree_proof :
  forall (V : Type) (veqb : V -> V -> bool) (vzero : V) (srt : list Z -> list nat) (g : V -> V) (c : coo V) (r : coo V),
    is_argsort srt -> (forall a b, veqb a b = true <-> a = b) ->
    canonical V c -> shape_ok (c_shape c) -> c_shape c <> [] ->
    elemwise V veqb vzero (fun l => g (hd vzero l)) srt [OSp c] = OutSparse r ->
    r = coo_map veqb g c.
Proof.
  intros V veqb vzero srt g c r Hsrt Heq Hc Hs Hne Hr.
  set (f := fun l : list V => g (hd vzero l)) in *.
  pose proof (elemwise_den_proof V veqb vzero srt Hsrt f Heq [OSp c]) as P.
  assert (Forall (op_ok V) [OSp c]) as Hok by (constructor; [split; assumption | constructor]).
  specialize (P Hok eq_refl). rewrite Hr in P. unfold elemwise_post in P.
  destruct P as [sh [nd [Hb [Hnd [_ [Hsh [Hfill [Hcan [Hpr Hden]]]]]]]]].
  assert (map (preprocess V) [OSp c] = [OSp c]) as Epre.
  { simpl. destruct (c_shape c); [contradiction | reflexivity]. }
  rewrite Epre in *. simpl in Hb. apply broadcast_single in Hb. subst sh.
  destruct (coo_map_spec V veqb Heq g c Hc) as [Hc2 [Hs2 [Hf2 [Hp2 Hd2]]]].
  apply (COOP.canonical_unique V veqb Heq r (coo_map veqb g c) Hcan Hc2 Hpr Hp2).
  - rewrite Hsh, Hs2. reflexivity.
  - (* fill: nd is the broadcast of no dense shape at all, i.e. [] *)
    simpl in Hnd. destruct Hnd as [Hl _]. simpl in Hl. destruct nd; [|discriminate].
    rewrite (Hfill [] I), Hf2. reflexivity.
  - intros ix Hix. rewrite Hsh in Hix. rewrite (Hden ix Hix), Hd2.
    unfold F, f. simpl. rewrite (bcast_idx_id _ _ Hix). reflexivity.
Qed.

(* non-vacuity: on a concrete array the generic route does return a sparse array, and it is coo_map's *)
Example unary_paths_agree_example :
  let c := mkCOO [2; 3] [[0; 1]; [1; 0]; [1; 2]] [5; 0 - 2; 7] 0 in
  let g := fun v : Z => if v =? 5 then 1 else 0 in
  elemwise Z Z.eqb 0 (fun l => g (hd 0 l)) argsort [OSp c] = OutSparse (coo_map Z.eqb g c) /\
  coo_map Z.eqb g c = mkCOO [2; 3] [[0; 1]] [1] 0.
Proof. split; vm_compute; reflexivity. Qed.
